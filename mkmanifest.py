#!/usr/bin/env python3
"""Regenerate MANIFEST.json from checks.json (single source of truth for units and claims)."""
import json, subprocess
checks = json.load(open('/verif/checks.json'))
allp = [json.loads(l)['id'] for l in open('/verif/properties.jsonl')]
hooks = []
try:
    out = subprocess.run(['git', '-C', '/repo', 'log', '--format=%H %s'], capture_output=True, text=True).stdout
    hooks = [l.split()[0] for l in out.splitlines() if ' verif hook' in l or 'verif-hook' in l]
except Exception:
    pass
m = {
 "version": 1,
 "setup_cmd": "./check setup",
 "hooks": {
  "guard": "verif",
  "enable": "checks build /repo's working tree through the harness module's replace directive: go1.26.8 test -c -tags verif ./<pkg> (cwd /verif/harness)",
  "baseline_off_cmd": "cd /repo && go test -vet=off -count=1 ./...",
  "source_commits": hooks,
  "add_only": True
 },
 "engines": [
  {"name": "rapid+driver", "path": "/verif/check", "serves_properties": sorted(checks.keys()),
   "kind_free_text": "pgregory.net/rapid v1.3.0 property tests (one Go test package per property under /verif/harness, built with go1.26.8 against /repo's working tree), sharded over processes by /verif/check, seeds derived from VERIF_SEED; deterministic process-wide crypto randomness per generated case; native go test -fuzz targets in the thorough tier; independent reference implementations under harness/internal/ref validated against third-party vectors at setup"}
 ],
 "checks": [],
 "not_applicable": [],
 "notes": "Design and per-property oracles: /verif/DESIGN.md. Known findings: /verif/known_findings.txt. Exit 2 of a check means inconclusive (infrastructure), never a violation."
}
for p in allp:
    if p in checks:
        c = checks[p]
        m["checks"].append({
         "property_id": p,
         "quick_cmd": "./check run %s --tier quick" % p,
         "thorough_cmd": "./check run %s --tier thorough" % p,
         "evidence_file": "/verif/evidence/%s.json" % p,
         "replay_cmd_template": "./check replay %s {path}" % p,
         "engine": "rapid+driver",
         "level_claimed": {"category": c.get("level", "exploration"), "text": c["level_text"], "design_ref": "DESIGN.md section 6, " + p},
         "level_note": c["level_note"],
         "technique": c["technique"],
        })
    else:
        m["not_applicable"].append({"property_id": p, "reason": "not claimed yet: the generated-input check for this property has not landed in this revision (the technique applies; see DESIGN.md section 6)"})
json.dump(m, open('/verif/MANIFEST.json', 'w'), indent=1)
print("checks:", [c["property_id"] for c in m["checks"]])
