#!/usr/bin/env python3
"""Regenerates the table of DESIGN.md section 10.7 from checks.json (in place)."""
import json, os, re
ROOT = os.path.dirname(os.path.dirname(os.path.abspath(__file__)))
d = json.load(open(os.path.join(ROOT, "checks.json")))
def n(x):
    return "{:,}".format(int(x)).replace(",", " ")
rows = []
total = 0
for pid in sorted(k for k in d if re.fullmatch(r"C\d\d", k)):
    cells = []
    for u in d[pid]["units"]:
        total += 1
        if u.get("kind", "rapid") != "rapid":
            sh = u.get("shards", u.get("shards_quick"))
            cells.append("`%s` (plain%s)" % (u["name"], ", x%s" % sh if sh and int(sh) > 1 else ""))
        else:
            cells.append("`%s` %s / %s" % (u["name"], n(u["quick"]), n(u["thorough"])))
    fz = d[pid].get("fuzz", [])
    if fz:
        cells.append("native fuzz (thorough only): " + ", ".join("`%s`" % f["name"] for f in fz))
    rows.append("| %s | %s |" % (pid, "; ".join(cells)))
p = os.path.join(ROOT, "DESIGN.md")
s = open(p).read()
i = s.index("| Property | Units (quick / thorough cases) |")
j = s.index("\n\n", i)
s = s[:i] + "| Property | Units (quick / thorough cases) |\n|---|---|\n" + "\n".join(rows) + s[j:]
open(p, "w").write(s)
print(total, "units")
