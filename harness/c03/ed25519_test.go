package c03

import (
	"bytes"
	stded25519 "crypto/ed25519"
	"fmt"
	"math/big"
	"testing"

	"pgregory.net/rapid"

	"github.com/tink-crypto/tink-go/v2/internal/internalapi"
	"github.com/tink-crypto/tink-go/v2/signature"
	"github.com/tink-crypto/tink-go/v2/signature/ed25519"
	sigsubtle "github.com/tink-crypto/tink-go/v2/signature/subtle"
	"github.com/tink-crypto/tink-go/v2/verifharness/internal/detrand"
	"github.com/tink-crypto/tink-go/v2/verifharness/internal/evid"
	"github.com/tink-crypto/tink-go/v2/verifharness/internal/gen"
	"github.com/tink-crypto/tink-go/v2/verifharness/internal/tk"
)

func ed25519Variant(v string) ed25519.Variant {
	return map[string]ed25519.Variant{tk.Tink: ed25519.VariantTink, tk.Crunchy: ed25519.VariantCrunchy, tk.Legacy: ed25519.VariantLegacy, tk.NoPrefix: ed25519.VariantNoPrefix}[v]
}

// ed25519L is the order of the prime-order subgroup.
var ed25519L, _ = new(big.Int).SetString("7237005577332262213973186563042994240857116359379907606001950938285454250989", 10)

func leToInt(b []byte) *big.Int {
	r := make([]byte, len(b))
	for i := range b {
		r[len(b)-1-i] = b[i]
	}
	return new(big.Int).SetBytes(r)
}

func intToLE(v *big.Int, n int) []byte {
	be := v.FillBytes(make([]byte, n))
	for i, j := 0, n-1; i < j; i, j = i+1, j-1 {
		be[i], be[j] = be[j], be[i]
	}
	return be
}

// ed25519Oracles installs the reference verifier for stdPub and the "other key" signer (shared by
// TestEd25519 and the subtle From*Key routes).
func ed25519Oracles(c *sigCase, seed []byte, stdPub stded25519.PublicKey) {
	c.ref = func(raw, effMsg []byte) bool {
		return len(raw) == stded25519.SignatureSize && stded25519.Verify(stdPub, effMsg, raw)
	}
	seed2 := bytes.Clone(seed)
	seed2[0] ^= 1
	c.otherKeySign = func(effMsg []byte) ([]byte, error) {
		return stded25519.Sign(stded25519.NewKeyFromSeed(seed2), effMsg), nil
	}
}

// ed25519Candidates runs the Ed25519-specific candidates derived from the fresh raw signature.
func (c *sigCase) ed25519Candidates(rt *rapid.T, raw, msg []byte, stdPriv stded25519.PrivateKey) {
	// R and S regions, S made non-canonical (S+L is the same scalar mod L), lengths around 64
	for i, name := range []string{"R", "S"} {
		bit := rapid.IntRange(256*i, 256*(i+1)-1).Draw(rt, "flip-"+name)
		f := bytes.Clone(raw)
		f[bit/8] ^= 1 << uint(bit%8)
		c.tryRaw(rt, "ed-flip-"+name, f, msg)
	}
	sPlusL := new(big.Int).Add(leToInt(raw[32:]), ed25519L)
	c.tryRaw(rt, "ed-S+L", cat(raw[:32], intToLE(sPlusL, 32)), msg)
	c.tryRaw(rt, "ed-S=0", cat(raw[:32], make([]byte, 32)), msg)
	c.tryRaw(rt, "ed-R-only", raw[:32], msg)
	c.tryRaw(rt, "ed-63", raw[:63], msg)
	c.tryRaw(rt, "ed-65", cat(raw, []byte{0}), msg)
	c.tryRaw(rt, "ed-doubled", cat(raw, raw), msg)
	c.tryRaw(rt, "ed-swapped", cat(raw[32:], raw[:32]), msg)
	// a signature over the message with/without the suffix, made outside Tink
	c.tryRaw(rt, "ed-std-sign-plain", stded25519.Sign(stdPriv, msg), msg)
	c.tryRaw(rt, "ed-std-sign-suffixed", stded25519.Sign(stdPriv, cat(msg, []byte{0})), msg)
}

// TestEd25519: the algorithm itself is delegated to crypto/ed25519 on both sides; the check decides
// Tink's framing: prefix, the exact 64-byte length, the LEGACY suffix.
func TestEd25519(t *testing.T) {
	rapid.Check(t, func(rt *rapid.T) {
		detrand.Seed(rapid.Uint64().Draw(rt, "entropy"))
		route, variant, id := drawRouteVariantID(rt)
		seed := gen.BytesN(rt, "seed", 32)
		msg := gen.Bytes(rt, "msg", 1024)
		stdPriv := stded25519.NewKeyFromSeed(seed)
		stdPub := stdPriv.Public().(stded25519.PublicKey)

		c := &sigCase{scheme: "ED25519", params: "-", variant: variant, id: id, route: route,
			keyDesc: fmt.Sprintf("seed=%x pub=%x", seed, []byte(stdPub)), prefix: tk.Prefix(variant, id)}
		switch route {
		case "subtle":
			s, err := sigsubtle.NewED25519Signer(seed)
			if err != nil {
				rt.Fatalf("%v\n NewED25519Signer: %v", c, err)
			}
			v, err := sigsubtle.NewED25519Verifier(bytes.Clone(stdPub))
			if err != nil {
				rt.Fatalf("%v\n NewED25519Verifier: %v", c, err)
			}
			c.signer, c.verifier = s, v
		default:
			params, err := ed25519.NewParameters(ed25519Variant(variant))
			if err != nil {
				rt.Fatalf("%v\n NewParameters: %v", c, err)
			}
			priv, err := ed25519.NewPrivateKey(tk.Secret(seed), id, params)
			if err != nil {
				rt.Fatalf("%v\n NewPrivateKey: %v", c, err)
			}
			pub, err := ed25519.NewPublicKey(bytes.Clone(stdPub), id, params)
			if err != nil {
				rt.Fatalf("%v\n NewPublicKey: %v", c, err)
			}
			if pk, _ := priv.PublicKey(); !pk.Equal(pub) {
				rt.Fatalf("%v\n private key's public key differs from the RFC 8032 public key", c)
			}
			if route == "key" {
				if c.signer, err = ed25519.NewSigner(priv, internalapi.Token{}); err != nil {
					rt.Fatalf("%v\n NewSigner: %v", c, err)
				}
				if c.verifier, err = ed25519.NewVerifier(pub, internalapi.Token{}); err != nil {
					rt.Fatalf("%v\n NewVerifier: %v", c, err)
				}
			} else {
				h, err := tk.HandleFromKey(priv)
				if err != nil {
					rt.Fatalf("%v\n handle: %v", c, err)
				}
				ph, err := h.Public()
				if err != nil {
					rt.Fatalf("%v\n Public(): %v", c, err)
				}
				if c.signer, err = signature.NewSigner(h); err != nil {
					rt.Fatalf("%v\n signature.NewSigner: %v", c, err)
				}
				if c.verifier, err = signature.NewVerifier(ph); err != nil {
					rt.Fatalf("%v\n signature.NewVerifier: %v", c, err)
				}
			}
		}
		ed25519Oracles(c, seed, stdPub)

		sig, raw := c.signAndCheck(rt, msg, nil)
		c.commonCandidates(rt, msg, sig)
		c.ed25519Candidates(rt, raw, msg, stdPriv)
		c.finish(rt, msg, evid.NewH().B(seed))
	})
}
