package c03

import (
	"bytes"
	stded25519 "crypto/ed25519"
	"crypto/sha512"
	"encoding/hex"
	"fmt"
	"math/big"
	"testing"

	"pgregory.net/rapid"

	"github.com/tink-crypto/tink-go/v2/internal/internalapi"
	"github.com/tink-crypto/tink-go/v2/signature"
	"github.com/tink-crypto/tink-go/v2/signature/ed25519"
	sigsubtle "github.com/tink-crypto/tink-go/v2/signature/subtle"
	"github.com/tink-crypto/tink-go/v2/tink"
	"github.com/tink-crypto/tink-go/v2/verifharness/internal/detrand"
	"github.com/tink-crypto/tink-go/v2/verifharness/internal/evid"
	"github.com/tink-crypto/tink-go/v2/verifharness/internal/gen"
	"github.com/tink-crypto/tink-go/v2/verifharness/internal/tk"
)

func ed25519Variant(v string) ed25519.Variant {
	return map[string]ed25519.Variant{tk.Tink: ed25519.VariantTink, tk.Crunchy: ed25519.VariantCrunchy, tk.Legacy: ed25519.VariantLegacy, tk.NoPrefix: ed25519.VariantNoPrefix}[v]
}

// ed25519L is the order of the prime-order subgroup.
var ed25519L, _ = new(big.Int).SetString("7237005577332262213973186563042994240857116359379907606001950938285454250989", 10)

func leToInt(b []byte) *big.Int {
	r := make([]byte, len(b))
	for i := range b {
		r[len(b)-1-i] = b[i]
	}
	return new(big.Int).SetBytes(r)
}

func intToLE(v *big.Int, n int) []byte {
	be := v.FillBytes(make([]byte, n))
	for i, j := 0, n-1; i < j; i, j = i+1, j-1 {
		be[i], be[j] = be[j], be[i]
	}
	return be
}

// ed25519Oracles installs the reference verifier for stdPub and the "other key" signer (shared by
// TestEd25519 and the subtle From*Key routes).
func ed25519Oracles(c *sigCase, seed []byte, stdPub stded25519.PublicKey) {
	c.ref = func(raw, effMsg []byte) bool {
		return len(raw) == stded25519.SignatureSize && stded25519.Verify(stdPub, effMsg, raw)
	}
	seed2 := bytes.Clone(seed)
	seed2[0] ^= 1
	c.otherKeySign = func(effMsg []byte) ([]byte, error) {
		return stded25519.Sign(stded25519.NewKeyFromSeed(seed2), effMsg), nil
	}
}

// ed25519Candidates runs the Ed25519-specific candidates derived from the fresh raw signature.
func (c *sigCase) ed25519Candidates(rt *rapid.T, raw, msg []byte, stdPriv stded25519.PrivateKey) {
	// R and S regions, S made non-canonical (S+L is the same scalar mod L), lengths around 64
	for i, name := range []string{"R", "S"} {
		bit := rapid.IntRange(256*i, 256*(i+1)-1).Draw(rt, "flip-"+name)
		f := bytes.Clone(raw)
		f[bit/8] ^= 1 << uint(bit%8)
		c.tryRaw(rt, "ed-flip-"+name, f, msg)
	}
	sPlusL := new(big.Int).Add(leToInt(raw[32:]), ed25519L)
	c.tryRaw(rt, "ed-S+L", cat(raw[:32], intToLE(sPlusL, 32)), msg)
	c.tryRaw(rt, "ed-S=0", cat(raw[:32], make([]byte, 32)), msg)
	c.tryRaw(rt, "ed-R-only", raw[:32], msg)
	c.tryRaw(rt, "ed-63", raw[:63], msg)
	c.tryRaw(rt, "ed-65", cat(raw, []byte{0}), msg)
	c.tryRaw(rt, "ed-doubled", cat(raw, raw), msg)
	c.tryRaw(rt, "ed-swapped", cat(raw[32:], raw[:32]), msg)
	// a signature over the message with/without the suffix, made outside Tink
	c.tryRaw(rt, "ed-std-sign-plain", stded25519.Sign(stdPriv, msg), msg)
	c.tryRaw(rt, "ed-std-sign-suffixed", stded25519.Sign(stdPriv, cat(msg, []byte{0})), msg)
}

// TestEd25519: the algorithm itself is delegated to crypto/ed25519 on both sides; the check decides
// Tink's framing: prefix, the exact 64-byte length, the LEGACY suffix.
func TestEd25519(t *testing.T) {
	rapid.Check(t, func(rt *rapid.T) {
		detrand.Seed(rapid.Uint64().Draw(rt, "entropy"))
		route, variant, id := drawRouteVariantID(rt)
		seed := gen.BytesN(rt, "seed", 32)
		msg := gen.Bytes(rt, "msg", 1024)
		stdPriv := stded25519.NewKeyFromSeed(seed)
		stdPub := stdPriv.Public().(stded25519.PublicKey)

		c := &sigCase{scheme: "ED25519", params: "-", variant: variant, id: id, route: route,
			keyDesc: fmt.Sprintf("seed=%x pub=%x", seed, []byte(stdPub)), prefix: tk.Prefix(variant, id)}
		switch route {
		case "subtle":
			s, err := sigsubtle.NewED25519Signer(seed)
			if err != nil {
				rt.Fatalf("%v\n NewED25519Signer: %v", c, err)
			}
			v, err := sigsubtle.NewED25519Verifier(bytes.Clone(stdPub))
			if err != nil {
				rt.Fatalf("%v\n NewED25519Verifier: %v", c, err)
			}
			c.signer, c.verifier = s, v
		default:
			params, err := ed25519.NewParameters(ed25519Variant(variant))
			if err != nil {
				rt.Fatalf("%v\n NewParameters: %v", c, err)
			}
			priv, err := ed25519.NewPrivateKey(tk.Secret(seed), id, params)
			if err != nil {
				rt.Fatalf("%v\n NewPrivateKey: %v", c, err)
			}
			pub, err := ed25519.NewPublicKey(bytes.Clone(stdPub), id, params)
			if err != nil {
				rt.Fatalf("%v\n NewPublicKey: %v", c, err)
			}
			if pk, _ := priv.PublicKey(); !pk.Equal(pub) {
				rt.Fatalf("%v\n private key's public key differs from the RFC 8032 public key", c)
			}
			if route == "key" {
				if c.signer, err = ed25519.NewSigner(priv, internalapi.Token{}); err != nil {
					rt.Fatalf("%v\n NewSigner: %v", c, err)
				}
				if c.verifier, err = ed25519.NewVerifier(pub, internalapi.Token{}); err != nil {
					rt.Fatalf("%v\n NewVerifier: %v", c, err)
				}
			} else {
				h, err := tk.HandleFromKey(priv)
				if err != nil {
					rt.Fatalf("%v\n handle: %v", c, err)
				}
				ph, err := h.Public()
				if err != nil {
					rt.Fatalf("%v\n Public(): %v", c, err)
				}
				if c.signer, err = signature.NewSigner(h); err != nil {
					rt.Fatalf("%v\n signature.NewSigner: %v", c, err)
				}
				if c.verifier, err = signature.NewVerifier(ph); err != nil {
					rt.Fatalf("%v\n signature.NewVerifier: %v", c, err)
				}
			}
		}
		ed25519Oracles(c, seed, stdPub)

		sig, raw := c.signAndCheck(rt, msg, nil)
		c.commonCandidates(rt, msg, sig)
		c.ed25519Candidates(rt, raw, msg, stdPriv)
		c.finish(rt, msg, evid.NewH().B(seed))
	})
}

// ---------------------------------------------------------------------------------------------
// Ed25519 edge inputs
//
// Honest keys and signatures never contain small-order points, non-canonical encodings (y >= p, or
// x = 0 with the sign bit set), scalars S >= L or points with a small-order component.  Verifiers
// differ exactly there (cofactored or not, canonical checks on A and R).  The property names the
// standard algorithm; the stated reference is crypto/ed25519, so the verdict for every such triple
// is taken from it at run time: Tink accepts iff crypto/ed25519 accepts (prefix and LEGACY suffix
// as for every other candidate).  The triples are built with an own affine twisted-Edwards
// arithmetic over math/big (checked against the standard library's public key on every case).

var (
	edP = new(big.Int).Sub(new(big.Int).Lsh(big.NewInt(1), 255), big.NewInt(19))
	edD = func() *big.Int { // -121665/121666
		d := new(big.Int).ModInverse(big.NewInt(121666), edP)
		d.Mul(d, big.NewInt(-121665))
		return d.Mod(d, edP)
	}()
	edSqrtM1 = new(big.Int).Exp(big.NewInt(2), new(big.Int).Rsh(new(big.Int).Sub(edP, big.NewInt(1)), 2), edP)
)

type edPoint struct{ x, y *big.Int }

func edAdd(a, b edPoint) edPoint {
	m := func(u, v *big.Int) *big.Int { return new(big.Int).Mod(new(big.Int).Mul(u, v), edP) }
	t := m(edD, m(m(a.x, b.x), m(a.y, b.y)))
	one := big.NewInt(1)
	xn := new(big.Int).Add(m(a.x, b.y), m(b.x, a.y))
	yn := new(big.Int).Add(m(a.y, b.y), m(a.x, b.x)) // a = -1
	xd := new(big.Int).ModInverse(new(big.Int).Mod(new(big.Int).Add(one, t), edP), edP)
	yd := new(big.Int).ModInverse(new(big.Int).Mod(new(big.Int).Sub(one, t), edP), edP)
	return edPoint{m(xn, xd), m(yn, yd)}
}

func edMul(k *big.Int, a edPoint) edPoint {
	r := edPoint{big.NewInt(0), big.NewInt(1)}
	for i := k.BitLen() - 1; i >= 0; i-- {
		r = edAdd(r, r)
		if k.Bit(i) == 1 {
			r = edAdd(r, a)
		}
	}
	return r
}

func edEncode(a edPoint) []byte {
	b := intToLE(a.y, 32)
	b[31] |= byte(a.x.Bit(0)) << 7
	return b
}

// edDecode follows RFC 8032 5.1.3 except that y >= p is reduced instead of refused (so that the
// small-order points can be listed from their non-canonical encodings too).
func edDecode(b []byte) (edPoint, bool) {
	c := bytes.Clone(b)
	sign := uint(c[31] >> 7)
	c[31] &= 0x7f
	y := leToInt(c)
	y.Mod(y, edP)
	y2 := new(big.Int).Mod(new(big.Int).Mul(y, y), edP)
	u := new(big.Int).Mod(new(big.Int).Sub(y2, big.NewInt(1)), edP)
	v := new(big.Int).Mod(new(big.Int).Add(new(big.Int).Mul(edD, y2), big.NewInt(1)), edP)
	x2 := new(big.Int).Mod(new(big.Int).Mul(u, new(big.Int).ModInverse(v, edP)), edP)
	x := new(big.Int).Exp(x2, new(big.Int).Rsh(new(big.Int).Add(edP, big.NewInt(3)), 3), edP)
	if new(big.Int).Mod(new(big.Int).Mul(x, x), edP).Cmp(x2) != 0 {
		x.Mod(x.Mul(x, edSqrtM1), edP)
	}
	if new(big.Int).Mod(new(big.Int).Mul(x, x), edP).Cmp(x2) != 0 {
		return edPoint{}, false
	}
	if x.Bit(0) != sign {
		x.Mod(x.Neg(x), edP)
	}
	return edPoint{x, y}, true
}

var edBase = func() edPoint {
	y := new(big.Int).Mul(big.NewInt(4), new(big.Int).ModInverse(big.NewInt(5), edP))
	pt, ok := edDecode(intToLE(y.Mod(y, edP), 32))
	if !ok {
		panic("harness: Ed25519 base point")
	}
	return pt
}()

func mustHex(s string) []byte {
	b, err := hex.DecodeString(s)
	if err != nil {
		panic(err)
	}
	return b
}

// edSmallOrder: the canonical encodings of the eight points of order 1, 2, 4, 4, 8, 8, 8, 8, then
// the six non-canonical encodings of points of order 1, 2 and 4 (y = p or p+1, or x = 0 with the
// sign bit set).
var edSmallOrder = [][]byte{
	mustHex("0100000000000000000000000000000000000000000000000000000000000000"),
	mustHex("ecffffffffffffffffffffffffffffffffffffffffffffffffffffffffffff7f"),
	mustHex("0000000000000000000000000000000000000000000000000000000000000000"),
	mustHex("0000000000000000000000000000000000000000000000000000000000000080"),
	mustHex("26e8958fc2b227b045c3f489f2ef98f0d5dfac05d3c63339b13802886d53fc05"),
	mustHex("26e8958fc2b227b045c3f489f2ef98f0d5dfac05d3c63339b13802886d53fc85"),
	mustHex("c7176a703d4dd84fba3c0b760d10670f2a2053fa2c39ccc64ec7fd7792ac037a"),
	mustHex("c7176a703d4dd84fba3c0b760d10670f2a2053fa2c39ccc64ec7fd7792ac03fa"),
	mustHex("0100000000000000000000000000000000000000000000000000000000000080"),
	mustHex("ecffffffffffffffffffffffffffffffffffffffffffffffffffffffffffffff"),
	mustHex("edffffffffffffffffffffffffffffffffffffffffffffffffffffffffffff7f"),
	mustHex("edffffffffffffffffffffffffffffffffffffffffffffffffffffffffffffff"),
	mustHex("eeffffffffffffffffffffffffffffffffffffffffffffffffffffffffffff7f"),
	mustHex("eeffffffffffffffffffffffffffffffffffffffffffffffffffffffffffffff"),
}

func edHashScalar(parts ...[]byte) *big.Int {
	h := sha512.Sum512(bytes.Join(parts, nil))
	k := leToInt(h[:])
	return k.Mod(k, ed25519L)
}

var edEdgeKinds = []string{"small-A/small-R", "small-A/small-R", "mixed-order-A", "mixed-order-A", "mixed-order-R", "honest-A/small-R", "S-plus-multiple-of-L", "noncanonical-y-A"}

func TestEd25519EdgeInputs(t *testing.T) {
	// the list is what it claims to be: 8 * P = identity for every entry
	for i, e := range edSmallOrder {
		pt, ok := edDecode(e)
		if !ok {
			t.Fatalf("harness: small-order encoding %d does not decode", i)
		}
		if q := edMul(big.NewInt(8), pt); q.x.Sign() != 0 || q.y.Cmp(big.NewInt(1)) != 0 {
			t.Fatalf("harness: entry %d of the small-order list has another order", i)
		}
	}
	rapid.Check(t, func(rt *rapid.T) {
		detrand.Seed(rapid.Uint64().Draw(rt, "entropy"))
		route, variant, id := drawRouteVariantID(rt)
		kind := rapid.SampledFrom(edEdgeKinds).Draw(rt, "kind")
		seed := gen.BytesN(rt, "seed", 32)
		base := gen.Bytes(rt, "msg", 64)
		stdPriv := stded25519.NewKeyFromSeed(seed)
		stdPub := []byte(stdPriv.Public().(stded25519.PublicKey))
		hs := sha512.Sum512(seed)
		hs[0] &= 248
		hs[31] &= 127
		hs[31] |= 64
		a := leToInt(hs[:32])
		aPt := edMul(a, edBase)
		if !bytes.Equal(edEncode(aPt), stdPub) {
			rt.Fatalf("harness: own arithmetic gives public key %x for seed %x, crypto/ed25519 %x", edEncode(aPt), seed, stdPub)
		}
		smallIdx := func(label string, lo int) int { return rapid.IntRange(lo, len(edSmallOrder)-1).Draw(rt, label) }
		nonce := leToInt(gen.BytesN(rt, "nonce", 32))
		nonce.Mod(nonce, ed25519L)

		// the public key bytes under test
		pub := bytes.Clone(stdPub)
		var note string
		var tPt edPoint
		switch kind {
		case "small-A/small-R":
			i := smallIdx("A", 0)
			pub, note = bytes.Clone(edSmallOrder[i]), fmt.Sprintf("A = small-order list entry %d", i)
		case "mixed-order-A":
			i := smallIdx("T", 1) // not the identity (entries 8, 12, 13 are: they leave A unchanged, accept side)
			tPt, _ = edDecode(edSmallOrder[i])
			pub, note = edEncode(edAdd(aPt, tPt)), fmt.Sprintf("A = a*B + T, T = small-order list entry %d", i)
		case "noncanonical-y-A":
			j := rapid.IntRange(0, 18).Draw(rt, "y_minus_p")
			pub = intToLE(new(big.Int).Add(edP, big.NewInt(int64(j))), 32)
			if rapid.Bool().Draw(rt, "signbit") {
				pub[31] |= 0x80
			}
			note = fmt.Sprintf("A = encoding of y = p + %d", j)
		}

		c := &sigCase{scheme: "ED25519-edge", params: kind, variant: variant, id: id, route: route,
			keyDesc: fmt.Sprintf("pub=%x (%s; honest seed=%x pub=%x)", pub, note, seed, stdPub), prefix: tk.Prefix(variant, id)}
		switch route {
		case "subtle":
			var v tink.Verifier
			var err error
			if rapid.Bool().Draw(rt, "subtle_from_key") {
				k := stded25519.PublicKey(bytes.Clone(pub))
				v, err = sigsubtle.NewED25519VerifierFromPublicKey(&k)
			} else {
				v, err = sigsubtle.NewED25519Verifier(bytes.Clone(pub))
			}
			if err != nil {
				rt.Fatalf("%v\n subtle verifier constructor: %v", c, err)
			}
			c.verifier = v
		default:
			params, err := ed25519.NewParameters(ed25519Variant(variant))
			if err != nil {
				rt.Fatalf("%v\n NewParameters: %v", c, err)
			}
			// 32 bytes is all NewPublicKey documents; point validity is the verifier's business
			pk, err := ed25519.NewPublicKey(bytes.Clone(pub), id, params)
			if err != nil {
				rt.Fatalf("%v\n NewPublicKey: %v", c, err)
			}
			if route == "key" {
				if c.verifier, err = ed25519.NewVerifier(pk, internalapi.Token{}); err != nil {
					rt.Fatalf("%v\n NewVerifier: %v", c, err)
				}
			} else {
				h, err := tk.HandleFromKey(pk)
				if err != nil {
					rt.Fatalf("%v\n handle: %v", c, err)
				}
				if c.verifier, err = signature.NewVerifier(h); err != nil {
					rt.Fatalf("%v\n signature.NewVerifier: %v", c, err)
				}
			}
		}
		c.ref = func(raw, effMsg []byte) bool {
			return len(raw) == stded25519.SignatureSize && stded25519.Verify(stded25519.PublicKey(pub), effMsg, raw)
		}

		// messages base || j: the challenge k = H(R || A || M) mod L changes with j, and with it k mod 8,
		// on which the verdict for small-order components depends
		msgs := make([][]byte, 16)
		for j := range msgs {
			msgs[j] = cat(base, []byte{byte(j)})
		}
		rPt := edMul(nonce, edBase)
		sFor := func(rEnc []byte, m []byte) []byte { // S = r + H(R || A || M) * a mod L
			k := edHashScalar(rEnc, pub, c.eff(m))
			s := new(big.Int).Mul(k, a)
			return intToLE(s.Add(s, nonce).Mod(s, ed25519L), 32)
		}
		switch kind {
		case "small-A/small-R":
			i := smallIdx("R", 0)
			rEnc := edSmallOrder[i]
			sKind := rapid.SampledFrom([]string{"S=0", "S=0", "S=L", "S=drawn"}).Draw(rt, "S")
			s := make([]byte, 32)
			switch sKind {
			case "S=L":
				s = intToLE(ed25519L, 32)
			case "S=drawn":
				s = intToLE(nonce, 32)
			}
			for j, m := range msgs {
				c.tryRaw(rt, fmt.Sprintf("edge: R = small-order list entry %d, %s, message %d", i, sKind, j), cat(rEnc, s), m)
			}
		case "mixed-order-A":
			rEnc := edEncode(rPt)
			for j, m := range msgs {
				c.tryRaw(rt, fmt.Sprintf("edge: R = r*B, S = r + k*a for the mixed-order key, message %d", j), cat(rEnc, sFor(rEnc, m)), m)
			}
		case "mixed-order-R":
			i := smallIdx("T", 1)
			tPt, _ = edDecode(edSmallOrder[i])
			rEnc := edEncode(edAdd(rPt, tPt))
			for j, m := range msgs[:4] {
				c.tryRaw(rt, fmt.Sprintf("edge: R = r*B + small-order list entry %d, S = r + k*a, message %d", i, j), cat(rEnc, sFor(rEnc, m)), m)
			}
			// control: the same construction with T = identity is an ordinary valid signature
			rEnc = edEncode(rPt)
			c.tryRaw(rt, "edge-control: R = r*B, S = r + k*a", cat(rEnc, sFor(rEnc, msgs[0])), msgs[0])
		case "honest-A/small-R":
			// S = k*a (nonce 0): S*B - k*A is the identity, so only R = canonical identity can match
			i := smallIdx("R", 0)
			rEnc := edSmallOrder[i]
			for j, m := range msgs[:4] {
				k := edHashScalar(rEnc, pub, c.eff(m))
				s := new(big.Int).Mul(k, a)
				c.tryRaw(rt, fmt.Sprintf("edge: R = small-order list entry %d, S = k*a, message %d", i, j), cat(rEnc, intToLE(s.Mod(s, ed25519L), 32)), m)
			}
		case "S-plus-multiple-of-L":
			sig := stded25519.Sign(stdPriv, c.eff(msgs[0]))
			c.tryRaw(rt, "edge-control: crypto/ed25519 signature", sig, msgs[0])
			sv := leToInt(sig[32:])
			for _, mult := range []int64{1, 2, 8, 14, 15} {
				w := new(big.Int).Add(sv, new(big.Int).Mul(big.NewInt(mult), ed25519L))
				if w.BitLen() <= 256 {
					c.tryRaw(rt, fmt.Sprintf("edge: S + %d*L", mult), cat(sig[:32], intToLE(w, 32)), msgs[0])
				}
			}
			hi := bytes.Clone(sig)
			hi[63] |= 0x80
			c.tryRaw(rt, "edge: S with bit 255 set", hi, msgs[0])
		case "noncanonical-y-A":
			rEnc := edEncode(rPt)
			for j, m := range msgs[:2] {
				c.tryRaw(rt, fmt.Sprintf("edge: honest-style signature under the non-canonical key, message %d", j), cat(rEnc, sFor(rEnc, m)), m)
			}
			i := smallIdx("R", 0)
			for j, m := range msgs[:4] {
				c.tryRaw(rt, fmt.Sprintf("edge: R = small-order list entry %d, S = 0, message %d", i, j), cat(edSmallOrder[i], make([]byte, 32)), m)
			}
		}
		evid.Add("edge_candidates_accepted_by_both", int64(c.accept))
		evid.Add("edge_candidates_rejected_by_both", int64(c.reject))
		evid.Add("candidates_in_reused_buffers", int64(c.bufReuse))
		verdicts := "reject-only"
		if c.accept > 0 && c.reject > 0 {
			verdicts = "both-verdicts"
		} else if c.accept > 0 {
			verdicts = "accept-only"
		}
		evid.Case(fmt.Sprintf("ED25519-edge/%s/%s/%s/%s", kind, variant, route, verdicts), true,
			evid.NewH().S(kind).S(variant).I(int64(id)).S(route).B(pub).B(seed).B(base).B(nonce.Bytes()).Sum(), func() any {
				return map[string]any{"case": c.String(), "base_msg": gen.Hex(base), "accept": c.accept, "reject": c.reject}
			})
	})
}
