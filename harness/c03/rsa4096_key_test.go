package c03

// A fixed RSA-4096 key (e = 65537), generated once with go1.26.8's crypto/rsa.GenerateKey and kept
// as source (not under ./testdata, which is removed after failing rapid runs). It puts the largest
// common modulus size into the QUICK pool without a 4096-bit key generation per process; the
// thorough tier additionally generates one.
const (
	fixed4096P = "e35d2ff54bf612c92a7023fa658f24772bd4d5392dfe04bad617ef85547d47d007e3a74cc503e8c6b492a1c57a401172" +
		"820eaa087a439a7bd6a9e19891b82313691bc74851d53e13af7939d7d0f42c22575a944b94574b43ba2421c2605e9ed7" +
		"0cc3a2ff2aa2148ac97f42ae34f4aa9430c430d80894132cff374ace43737daed23b8cd03cf23c10b3e60906b04bb082" +
		"41baa35fdefa0527ddbf449c4ee41fd929cc0310c522c28eb13a90019d7bc04f5f4093deb8dd22e46b7afc8e7198cb58" +
		"49550794fd8127eb267b3334232db397880f20e0ee7c039549a84538ebe7f0e02a7b69e5fe65c5231ac7adbf88cc3b72" +
		"c64a0062790d094312d04b19b3b47641"
	fixed4096Q = "c111c0097c0a0f1e07b31de33ce7b1e79daebd5a6c1d819457420f2f37c2a568069ddeb79e5fafd2260bd96ae873f0c1" +
		"a0a388c545b5dacc5215b9eceeca46e9146ebafbb0dccfabf093f8beea73200da53da0a22b1e1cc4d5a4dc1e7b9960a7" +
		"53c3530497146f819d82378f5714235272224a6ad3cb5c65cd352dc7a5efe4fd9141602784a4d53829b393de7350450e" +
		"4f118708d53fa43fa05930025fff3ffd5de7702f50fd6c5503298d9a63d2933d76bd254ad0be4952165a11817f2db0df" +
		"ae77764251e6543a8389aa1e84e55ab9a0dd9abe7771090595c112f136a767542ada42b3860834ebb1f9bcda6a77b173" +
		"bc978dc43fcab3b33ec3137604da09db"
)
