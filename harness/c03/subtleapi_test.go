package c03

// Exported entry points of signature/subtle and internal/signature/ecdsa that the other units of
// this package do not call (or reach only behind the byte-slice constructors):
//
//   - subtle.NewECDSASignerFromPrivateKey / NewECDSAVerifierFromPublicKey and
//     subtle.NewED25519SignerFromPrivateKey / NewED25519VerifierFromPublicKey take the CALLER's
//     crypto/ecdsa resp. crypto/ed25519 key objects.  They are driven here as further routes with
//     the oracles and the candidate generators of TestECDSA / TestEd25519.
//   - the signature encoding helpers subtle.NewECDSASignature, (*ECDSASignature).EncodeECDSASignature,
//     subtle.DecodeECDSASignature and internal/signature/ecdsa.{ASN1Encode, ASN1Decode,
//     IEEEP1363Encode, IEEEP1363Decode, IEEEP1363DecodeWithCurve} are compared two-sidedly with
//     the strict DER / P1363 reference of package sigref.
//
// What the decode oracles assert (C03's text and nothing beyond it):
//
//   - DER (ASN1Decode, DecodeECDSASignature("DER")): bytes that are not the strict DER encoding of
//     SEQUENCE{INTEGER, INTEGER} (non-canonical, trailing data, garbage) are rejected; the canonical
//     encoding of non-negative integers is accepted with the same two values and re-encodes to the
//     same bytes.  Strict DER with a NEGATIVE integer (a DER INTEGER is signed; the code documents
//     no range check): no decision demanded; if accepted, the values are the signed reference's.
//   - IEEEP1363DecodeWithCurve: exactly 2*size bytes of the named curve (wrong-length fixed-size
//     signatures are rejected), split in the middle.
//   - IEEEP1363Decode / DecodeECDSASignature("IEEE_P1363") have no curve ("the caller should
//     validate the size of the encoded bytes w.r.t. the curve size"): which lengths they take is
//     counted, not asserted; what they accept must be the two halves of the input.
//   - unsupported encoding / curve names and values too wide for IEEEP1363Encode: no panic; counted.

import (
	"bytes"
	stdecdsa "crypto/ecdsa"
	stded25519 "crypto/ed25519"
	"crypto/elliptic"
	"crypto/rand"
	"fmt"
	"math/big"
	"strings"
	"testing"

	"pgregory.net/rapid"

	internalecdsa "github.com/tink-crypto/tink-go/v2/internal/signature/ecdsa"
	sigsubtle "github.com/tink-crypto/tink-go/v2/signature/subtle"
	"github.com/tink-crypto/tink-go/v2/verifharness/internal/detrand"
	"github.com/tink-crypto/tink-go/v2/verifharness/internal/evid"
	"github.com/tink-crypto/tink-go/v2/verifharness/internal/gen"
	"github.com/tink-crypto/tink-go/v2/verifharness/internal/ref/sigref"
	"github.com/tink-crypto/tink-go/v2/verifharness/internal/tk"
)

// ---------------------------------------------------------------------------------------------
// 1. the From*Key constructors as routes

// TestSubtleECDSAFromKeys: the caller's *ecdsa.PrivateKey / *ecdsa.PublicKey, made in every way the
// standard library offers (struct literal with big integers, ParseRawPrivateKey /
// ParseUncompressedPublicKey, GenerateKey, the private key's embedded public key), go through
// NewECDSASignerFromPrivateKey / NewECDSAVerifierFromPublicKey; then the oracles of TestECDSA.
func TestSubtleECDSAFromKeys(t *testing.T) {
	rapid.Check(t, func(rt *rapid.T) {
		detrand.Seed(rapid.Uint64().Draw(rt, "entropy"))
		co := rapid.SampledFrom(ecCombos).Draw(rt, "curve_hash")
		enc := rapid.SampledFrom([]string{sigref.DER, sigref.P1363}).Draw(rt, "encoding")
		privSrc := rapid.SampledFrom([]string{"struct", "parse-raw", "generate"}).Draw(rt, "priv_src")
		pubSrc := rapid.SampledFrom([]string{"struct", "parse-uncompressed", "of-private-key"}).Draw(rt, "pub_src")
		msg := gen.Bytes(rt, "msg", 1024)
		size := sigref.ScalarSize(co.c)

		var d *big.Int
		var note string
		var generated *stdecdsa.PrivateKey
		if privSrc == "generate" {
			k, err := stdecdsa.GenerateKey(co.c, rand.Reader) // a function of the drawn entropy
			if err != nil {
				rt.Fatalf("harness: ecdsa.GenerateKey(%s): %v", co.name, err)
			}
			generated, d, note = k, new(big.Int).Set(k.D), "generated"
		} else {
			d, note = drawScalar(rt, co.c)
		}
		scalar := d.FillBytes(make([]byte, size))
		qx, qy := co.c.ScalarBaseMult(scalar)
		if !sigref.OnCurve(co.c, qx, qy) {
			rt.Fatalf("harness: public point of %x not on %s", scalar, co.name)
		}
		point := cat([]byte{4}, qx.FillBytes(make([]byte, size)), qy.FillBytes(make([]byte, size)))

		c := &sigCase{scheme: "ECDSA", params: co.short + "-" + co.hash + "/" + enc, variant: tk.NoPrefix, id: 0,
			route:   "subtle-fromkey(" + privSrc + "," + pubSrc + ")",
			keyDesc: fmt.Sprintf("d=%x Q=%x %s", scalar, point, note), prefix: tk.Prefix(tk.NoPrefix, 0)}

		var priv *stdecdsa.PrivateKey
		switch privSrc {
		case "struct":
			priv = &stdecdsa.PrivateKey{D: new(big.Int).Set(d)}
			priv.Curve, priv.X, priv.Y = co.c, new(big.Int).Set(qx), new(big.Int).Set(qy)
		case "parse-raw":
			k, err := stdecdsa.ParseRawPrivateKey(co.c, bytes.Clone(scalar))
			if err != nil {
				rt.Fatalf("%v\n harness: ecdsa.ParseRawPrivateKey: %v", c, err)
			}
			priv = k
		case "generate":
			priv = generated
		}
		if priv.X.Cmp(qx) != 0 || priv.Y.Cmp(qy) != 0 {
			rt.Fatalf("%v\n harness: the standard library's public point (%x, %x) differs from d*G", c, priv.X, priv.Y)
		}
		var pub *stdecdsa.PublicKey
		switch pubSrc {
		case "struct":
			pub = &stdecdsa.PublicKey{Curve: co.c, X: new(big.Int).Set(qx), Y: new(big.Int).Set(qy)}
		case "parse-uncompressed":
			k, err := stdecdsa.ParseUncompressedPublicKey(co.c, bytes.Clone(point))
			if err != nil {
				rt.Fatalf("%v\n harness: ecdsa.ParseUncompressedPublicKey: %v", c, err)
			}
			pub = k
		case "of-private-key":
			pub = &priv.PublicKey
		}

		s, err := sigsubtle.NewECDSASignerFromPrivateKey(co.hash, enc, priv)
		if err != nil {
			rt.Fatalf("%v\n NewECDSASignerFromPrivateKey: %v", c, err)
		}
		v, err := sigsubtle.NewECDSAVerifierFromPublicKey(co.hash, enc, pub)
		if err != nil {
			rt.Fatalf("%v\n NewECDSAVerifierFromPublicKey: %v", c, err)
		}
		c.signer, c.verifier = s, v
		ecdsaOracles(c, co, enc, d, qx, qy)

		sig, raw := c.signAndCheck(rt, msg, nil)
		r, sv, err := sigref.ParseECDSA(co.c, enc, raw)
		if err != nil {
			rt.Fatalf("%v\n harness: fresh signature does not parse: %v", c, err)
		}
		c.commonCandidates(rt, msg, sig)
		var cands []cand
		if enc == sigref.DER {
			cands = derCandidates(rt, co.c, r, sv)
		} else {
			cands = p1363Candidates(rt, co.c, r, sv)
		}
		for _, k := range cands {
			c.tryRaw(rt, k.kind, k.raw, msg)
		}
		c.finish(rt, msg, evid.NewH().B(scalar))
	})
}

// TestSubtleEd25519FromKeys: the caller's *ed25519.PrivateKey / *ed25519.PublicKey (from the seed,
// from GenerateKey, from copied key bytes) go through NewED25519SignerFromPrivateKey /
// NewED25519VerifierFromPublicKey; then the oracles of TestEd25519.
func TestSubtleEd25519FromKeys(t *testing.T) {
	rapid.Check(t, func(rt *rapid.T) {
		detrand.Seed(rapid.Uint64().Draw(rt, "entropy"))
		privSrc := rapid.SampledFrom([]string{"seed", "bytes", "generate"}).Draw(rt, "priv_src")
		pubSrc := rapid.SampledFrom([]string{"bytes", "of-private-key"}).Draw(rt, "pub_src")
		msg := gen.Bytes(rt, "msg", 1024)

		var seed []byte
		var handed stded25519.PrivateKey
		switch privSrc {
		case "generate":
			_, k, err := stded25519.GenerateKey(rand.Reader) // a function of the drawn entropy
			if err != nil {
				rt.Fatalf("harness: ed25519.GenerateKey: %v", err)
			}
			handed, seed = k, bytes.Clone(k.Seed())
		case "seed":
			seed = gen.BytesN(rt, "seed", 32)
			handed = stded25519.NewKeyFromSeed(bytes.Clone(seed))
		case "bytes": // the 64 key bytes seed || public key in a slice of the caller
			seed = gen.BytesN(rt, "seed", 32)
			handed = stded25519.PrivateKey(bytes.Clone(stded25519.NewKeyFromSeed(seed)))
		}
		// the reference keys come from the seed alone
		stdPriv := stded25519.NewKeyFromSeed(seed)
		stdPub := stdPriv.Public().(stded25519.PublicKey)

		c := &sigCase{scheme: "ED25519", params: "-", variant: tk.NoPrefix, id: 0,
			route:   "subtle-fromkey(" + privSrc + "," + pubSrc + ")",
			keyDesc: fmt.Sprintf("seed=%x pub=%x", seed, []byte(stdPub)), prefix: tk.Prefix(tk.NoPrefix, 0)}

		var handedPub stded25519.PublicKey
		switch pubSrc {
		case "bytes":
			handedPub = stded25519.PublicKey(bytes.Clone(stdPub))
		case "of-private-key":
			handedPub = handed.Public().(stded25519.PublicKey)
		}
		s, err := sigsubtle.NewED25519SignerFromPrivateKey(&handed)
		if err != nil {
			rt.Fatalf("%v\n NewED25519SignerFromPrivateKey: %v", c, err)
		}
		v, err := sigsubtle.NewED25519VerifierFromPublicKey(&handedPub)
		if err != nil {
			rt.Fatalf("%v\n NewED25519VerifierFromPublicKey: %v", c, err)
		}
		c.signer, c.verifier = s, v
		ed25519Oracles(c, seed, stdPub)

		sig, raw := c.signAndCheck(rt, msg, nil)
		c.commonCandidates(rt, msg, sig)
		c.ed25519Candidates(rt, raw, msg, stdPriv)
		c.finish(rt, msg, evid.NewH().B(seed))
	})
}

// ---------------------------------------------------------------------------------------------
// 2. the signature encoding helpers

type encCurve struct {
	name   string // Tink's name
	goName string // elliptic.Curve.Params().Name: what the encoding helpers take
	c      elliptic.Curve
	size   int
}

var encCurves = []encCurve{
	{"NIST_P256", "P-256", elliptic.P256(), 32},
	{"NIST_P384", "P-384", elliptic.P384(), 48},
	{"NIST_P521", "P-521", elliptic.P521(), 66},
}

// drawSigInt draws a non-negative integer for a signature slot: mostly values of [1, n-1], and the
// values at which an encoding changes shape (0, sign-bit and byte boundaries, leading zero bytes,
// n, the largest value of the width) and, if wide, values that do not fit the fixed width.
func drawSigInt(t *rapid.T, label string, cu encCurve, wide bool) (*big.Int, string) {
	kinds := []string{"uniform", "uniform", "uniform", "small", "lead0", "topbit", "boundary", "n-1", "n", "max"}
	if wide {
		kinds = append(kinds, "wide", "huge")
	}
	kind := rapid.SampledFrom(kinds).Draw(t, label+"_kind")
	n := cu.c.Params().N
	one := big.NewInt(1)
	v := new(big.Int)
	switch kind {
	case "uniform":
		v.SetBytes(gen.BytesN(t, label, cu.size))
		v.Mod(v, new(big.Int).Sub(n, one))
		v.Add(v, one)
	case "small":
		v.SetInt64(int64(rapid.IntRange(0, 300).Draw(t, label)))
	case "lead0":
		raw := gen.BytesN(t, label, cu.size)
		z := rapid.IntRange(1, 3).Draw(t, label+"_zeros")
		if cu.size == 66 {
			z++
		}
		for i := 0; i < z; i++ {
			raw[i] = 0
		}
		v.SetBytes(raw)
	case "topbit":
		raw := gen.BytesN(t, label, cu.size)
		raw[0] |= 0x80
		v.SetBytes(raw)
	case "boundary": // 2^k - 1 or 2^k
		k := rapid.IntRange(0, 8*cu.size).Draw(t, label+"_k")
		v.Lsh(one, uint(k))
		if k == 8*cu.size || rapid.Bool().Draw(t, label+"_minus1") {
			v.Sub(v, one)
		}
	case "n-1":
		v.Sub(n, one)
	case "n":
		v.Set(n)
	case "max":
		v.Lsh(one, uint(8*cu.size))
		v.Sub(v, one)
	case "wide":
		raw := gen.BytesN(t, label, cu.size+rapid.IntRange(1, 4).Draw(t, label+"_extra"))
		raw[0] |= 1
		v.SetBytes(raw)
	case "huge": // long-form lengths become the canonical ones
		raw := gen.BytesN(t, label, rapid.IntRange(100, 300).Draw(t, label+"_len"))
		raw[0] |= 1
		v.SetBytes(raw)
	}
	return v, kind
}

// signedTLV reads one TLV with identifier octet tag and a definite, minimal (DER) length.
func signedTLV(b []byte, tag byte) (content, rest []byte, ok bool) {
	if len(b) < 2 || b[0] != tag {
		return nil, nil, false
	}
	n, hdr := int(b[1]), 2
	if n == 0x80 {
		return nil, nil, false
	}
	if n > 0x80 {
		cnt := n & 0x7f
		if cnt > 3 || len(b) < 2+cnt || b[2] == 0 {
			return nil, nil, false
		}
		n = 0
		for _, x := range b[2 : 2+cnt] {
			n = n<<8 | int(x)
		}
		if n < 0x80 {
			return nil, nil, false
		}
		hdr = 2 + cnt
	}
	if len(b)-hdr < n {
		return nil, nil, false
	}
	return b[hdr : hdr+n], b[hdr+n:], true
}

// signedInt reads a DER INTEGER of either sign: non-empty minimal two's complement (X.690 8.3.2).
func signedInt(b []byte) (v *big.Int, content, rest []byte, ok bool) {
	c, rest, ok := signedTLV(b, 0x02)
	if !ok || len(c) == 0 {
		return nil, nil, nil, false
	}
	if len(c) > 1 && ((c[0] == 0x00 && c[1]&0x80 == 0) || (c[0] == 0xff && c[1]&0x80 != 0)) {
		return nil, nil, nil, false
	}
	v = new(big.Int).SetBytes(c)
	if c[0]&0x80 != 0 {
		v.Sub(v, new(big.Int).Lsh(big.NewInt(1), uint(8*len(c))))
	}
	return v, c, rest, true
}

// strictDERSigned accepts exactly the DER encodings of SEQUENCE{INTEGER, INTEGER} with signed
// integers.  flipped is b with the content octets of every negative integer complemented: a
// strict encoding of the non-negative values -v-1, which sigref.ParseDER must accept.
func strictDERSigned(b []byte) (r, s *big.Int, flipped []byte, ok bool) {
	body, rest, ok := signedTLV(b, 0x30)
	if !ok || len(rest) != 0 {
		return nil, nil, nil, false
	}
	r, rc, afterR, ok := signedInt(body)
	if !ok {
		return nil, nil, nil, false
	}
	s, sc, afterS, ok := signedInt(afterR)
	if !ok || len(afterS) != 0 {
		return nil, nil, nil, false
	}
	// both contents are sub-slices of b: s ends the encoding, r ends where the rest after r begins
	flipped = bytes.Clone(b)
	sEnd := len(b)
	sStart := sEnd - len(sc)
	rStop := len(b) - len(afterR)
	rStart := rStop - len(rc)
	if r.Sign() < 0 {
		for i := rStart; i < rStop; i++ {
			flipped[i] = ^flipped[i]
		}
	}
	if s.Sign() < 0 {
		for i := sStart; i < sEnd; i++ {
			flipped[i] = ^flipped[i]
		}
	}
	return r, s, flipped, true
}

// family maps a candidate kind to the class of manipulation the property lists.
func family(kind string) string {
	for _, f := range []struct{ sub, fam string }{
		{"canonical", "canonical"}, {"empty", "empty"}, {"nil", "empty"},
		{"trailing", "trailing-data"}, {"three-ints", "trailing-data"},
		{"longform", "long-form-length"}, {"indefinite", "long-form-length"},
		{"neg", "negative-int"},
		{"lead0", "non-minimal-int"}, {"nonminimal", "non-minimal-int"}, {"widened", "non-minimal-int"},
		{"tag", "wrong-tag"}, {"nested", "wrong-tag"},
		{"fixedwidth", "fixed-width-random"}, {"random", "random"}, {"shaped", "random"},
		{"flip", "mutated"}, {"mutate", "mutated"},
		{"len", "wrong-length"}, {"drop", "wrong-length"}, {"short", "wrong-length"}, {"width", "wrong-length"},
		{"prepend", "wrong-length"}, {"append", "wrong-length"}, {"only", "wrong-length"}, {"plus-size", "wrong-length"},
		{"minimal-ints", "wrong-length"}, {"truncate", "wrong-length"}, {"cut", "wrong-length"},
		{"p1363-bytes", "cross-encoding"}, {"der-bytes", "cross-encoding"},
	} {
		if strings.Contains(kind, f.sub) {
			return f.fam
		}
	}
	return "value-substitution"
}

var focusFamilies = []string{"trailing-data", "long-form-length", "negative-int", "non-minimal-int", "wrong-tag",
	"wrong-length-der", "wrong-length-p1363", "der-shaped-random", "random", "mutated", "fixed-width-content"}

// complement is the content of the negative DER INTEGER -v-1 for the minimal content c of v >= 0.
func complement(c []byte) []byte {
	o := make([]byte, len(c))
	for i := range c {
		o[i] = ^c[i]
	}
	return o
}

// lenOctets writes a length with cnt length octets (cnt = 0: short form), whatever its value.
func lenOctets(n, cnt int) []byte {
	if cnt == 0 {
		return []byte{byte(n)}
	}
	o := []byte{0x80 | byte(cnt)}
	for i := cnt - 1; i >= 0; i-- {
		o = append(o, byte(n>>(8*uint(i))))
	}
	return o
}

// systematicExtras: the listed manipulations that derCandidates / p1363Candidates do not already
// contain, for any non-negative (r, s) (also values wider than the curve).
func systematicExtras(r, s *big.Int) []cand {
	rc, sc := intContent(r), intContent(s)
	ri, si := tlv(2, rc, 0, 0), tlv(2, sc, 0, 0)
	seq := func(body ...[]byte) []byte { return tlv(0x30, cat(body...), 0, 0) }
	canon := seq(ri, si)
	out := []cand{
		{"x-der-canonical", canon},
		{"x-nil", nil},
		{"x-empty", []byte{}},
		{"x-empty-one-byte-30", []byte{0x30}},
		{"x-empty-seq-trailing-00", []byte{0x30, 0x00, 0x00}},
		{"x-trailing-after-00", cat(canon, []byte{0})},
		{"x-trailing-after-canon", cat(canon, canon)},
		{"x-trailing-inside-int", seq(ri, si, tlv(2, []byte{1}, 0, 0))},
		{"x-lead0-double-r", seq(tlv(2, cat([]byte{0, 0}, rc), 0, 0), si)},
		{"x-lead0-double-s", seq(ri, tlv(2, cat([]byte{0, 0}, sc), 0, 0))},
		{"x-neg-r", seq(tlv(2, complement(rc), 0, 0), si)}, // strict DER of (-r-1, s)
		{"x-neg-s", seq(ri, tlv(2, complement(sc), 0, 0))},
		{"x-neg-both", seq(tlv(2, complement(rc), 0, 0), tlv(2, complement(sc), 0, 0))},
		{"x-neg-nonminimal-ff-r", seq(tlv(2, cat([]byte{0xff}, complement(rc)), 0, 0), si)},
		{"x-neg-nonminimal-ff-s", seq(ri, tlv(2, cat([]byte{0xff}, complement(sc)), 0, 0))},
		{"x-neg-minus-one", seq(tlv(2, []byte{0xff}, 0, 0), si)},
		{"x-neg-minus-128", seq(ri, tlv(2, []byte{0x80}, 0, 0))},
		{"x-tag-int-constructed-r", seq(tlv(0x22, rc, 0, 0), si)},
		{"x-tag-int-context-s", seq(ri, tlv(0x82, sc, 0, 0))},
		{"x-tag-seq-context", tlv(0xa0, cat(ri, si), 0, 0)},
		{"x-tag-seq-high-tag-number", cat([]byte{0x3f, 0x10}, lenOctets(len(ri)+len(si), 0), ri, si)},
		{"x-tag-r-bool", seq(tlv(1, rc, 0, 0), si)},
		{"x-cut-half", canon[:len(canon)/2]},
		{"x-cut-header", canon[:2]},
	}
	// every long form at each of the three lengths (a form that happens to be the minimal one lands
	// on the accept side; one that cannot hold the length gives a wrong length)
	for cnt := 1; cnt <= 4; cnt++ {
		out = append(out,
			cand{fmt.Sprintf("x-longform-%d-octets-seq", cnt), cat([]byte{0x30}, lenOctets(len(ri)+len(si), cnt), ri, si)},
			cand{fmt.Sprintf("x-longform-%d-octets-r", cnt), seq(cat([]byte{2}, lenOctets(len(rc), cnt), rc), si)},
			cand{fmt.Sprintf("x-longform-%d-octets-s", cnt), seq(ri, cat([]byte{2}, lenOctets(len(sc), cnt), sc))})
	}
	// fixed-width strings around every supported width
	for _, n := range []int{1, 2, 31, 32, 33, 48, 62, 63, 64, 65, 66, 94, 95, 96, 97, 98, 128, 130, 131, 132, 133, 134, 192, 264} {
		out = append(out, cand{fmt.Sprintf("x-p1363-len-%d", n), gen.Expand(evid.NewH().B(r.Bytes()).B(s.Bytes()).I(int64(n)).Sum(), n)})
	}
	return out
}

// focusExtras draws further members of one family.
func focusExtras(t *rapid.T, fam string, cu encCurve, r, s *big.Int) []cand {
	rc, sc := intContent(r), intContent(s)
	ri, si := tlv(2, rc, 0, 0), tlv(2, sc, 0, 0)
	seq := func(body ...[]byte) []byte { return tlv(0x30, cat(body...), 0, 0) }
	canon := seq(ri, si)
	var out []cand
	for i := 0; i < 6; i++ {
		l := fmt.Sprintf("f%d_", i)
		switch fam {
		case "trailing-data":
			x := rapid.SliceOfN(rapid.Byte(), 1, 12).Draw(t, l+"x")
			if rapid.Bool().Draw(t, l+"inside") {
				out = append(out, cand{"f-trailing-inside", seq(ri, si, x)})
			} else {
				out = append(out, cand{"f-trailing-after", cat(canon, x)})
			}
		case "long-form-length":
			cnt := rapid.IntRange(1, 4).Draw(t, l+"cnt")
			switch rapid.IntRange(0, 2).Draw(t, l+"at") {
			case 0:
				out = append(out, cand{"f-longform-seq", cat([]byte{0x30}, lenOctets(len(ri)+len(si), cnt), ri, si)})
			case 1:
				out = append(out, cand{"f-longform-r", seq(cat([]byte{2}, lenOctets(len(rc), cnt), rc), si)})
			default:
				out = append(out, cand{"f-longform-s", seq(ri, cat([]byte{2}, lenOctets(len(sc), cnt), sc))})
			}
		case "negative-int":
			c := rapid.SliceOfN(rapid.Byte(), 1, cu.size+1).Draw(t, l+"content")
			c[0] |= 0x80
			if rapid.Bool().Draw(t, l+"ffpad") {
				c = cat([]byte{0xff}, c)
			}
			if rapid.Bool().Draw(t, l+"slot") {
				out = append(out, cand{"f-neg-r", seq(tlv(2, c, 0, 0), si)})
			} else {
				out = append(out, cand{"f-neg-s", seq(ri, tlv(2, c, 0, 0))})
			}
		case "non-minimal-int":
			pad := make([]byte, rapid.IntRange(1, 3).Draw(t, l+"pad"))
			if rapid.Bool().Draw(t, l+"slot") {
				out = append(out, cand{"f-lead0-r", seq(tlv(2, cat(pad, rc), 0, 0), si)})
			} else {
				out = append(out, cand{"f-lead0-s", seq(ri, tlv(2, cat(pad, sc), 0, 0))})
			}
		case "wrong-tag":
			tag := rapid.Byte().Draw(t, l+"tag")
			switch rapid.IntRange(0, 2).Draw(t, l+"at") {
			case 0: // 0x30 itself lands on the accept side
				out = append(out, cand{"f-tag-seq", tlv(tag, cat(ri, si), 0, 0)})
			case 1:
				out = append(out, cand{"f-tag-r", seq(tlv(tag, rc, 0, 0), si)})
			default:
				out = append(out, cand{"f-tag-s", seq(ri, tlv(tag, sc, 0, 0))})
			}
		case "wrong-length-der":
			delta := rapid.IntRange(-3, 3).Draw(t, l+"delta")
			switch rapid.IntRange(0, 3).Draw(t, l+"at") {
			case 0:
				out = append(out, cand{"f-len-seq", tlv(0x30, cat(ri, si), 0, delta)})
			case 1:
				out = append(out, cand{"f-len-r", seq(tlv(2, rc, 0, delta), si)})
			case 2:
				out = append(out, cand{"f-len-s", seq(ri, tlv(2, sc, 0, delta))})
			default:
				out = append(out, cand{"f-cut", canon[:rapid.IntRange(0, len(canon)-1).Draw(t, l+"cut")]})
			}
		case "wrong-length-p1363":
			base := rapid.SampledFrom([]int{0, 64, 96, 132}).Draw(t, l+"base")
			n := base + rapid.IntRange(-4, 4).Draw(t, l+"delta")
			if n < 0 {
				n = -n
			}
			out = append(out, cand{fmt.Sprintf("f-p1363-len-%d", n), gen.BytesN(t, l+"bytes", n)})
		case "fixed-width-content":
			n := rapid.SampledFrom([]int{64, 96, 132}).Draw(t, l+"width")
			b := gen.BytesN(t, l+"bytes", n)
			for j := 0; j < rapid.IntRange(0, 3).Draw(t, l+"zr"); j++ {
				b[j] = 0
			}
			for j := 0; j < rapid.IntRange(0, 3).Draw(t, l+"zs"); j++ {
				b[n/2+j] = 0
			}
			out = append(out, cand{fmt.Sprintf("f-fixedwidth-%d", n), b})
		case "der-shaped-random":
			a := rapid.SliceOfN(rapid.Byte(), 0, 4).Draw(t, l+"a")
			b := rapid.SliceOfN(rapid.Byte(), 0, 4).Draw(t, l+"b")
			out = append(out, cand{"f-shaped-random", seq(tlv(2, a, 0, 0), tlv(2, b, 0, 0))})
		case "random":
			out = append(out, cand{"f-random", rapid.SliceOfN(rapid.Byte(), 0, 140).Draw(t, l+"bytes")})
		case "mutated":
			src := canon
			if r.BitLen() <= 8*cu.size && s.BitLen() <= 8*cu.size && rapid.Bool().Draw(t, l+"p1363") {
				src = sigref.EncodeP1363(r, s, cu.size)
			}
			m := gen.Mutate(t, l+"m", src)
			out = append(out, cand{"f-mutate-" + m.Kind, m.Out})
		}
	}
	return out
}

type encStats struct {
	derAcc, derRej, derNeg        int
	curveAcc, curveRej            int
	anyAcc, anyRej                int
	famAcc, famRej                map[string]int
	rejectedNonCanonicalDERParsed int
}

func sameRS(r, s, wr, ws *big.Int) bool {
	return r != nil && s != nil && r.Cmp(wr) == 0 && s.Cmp(ws) == 0
}

// decodeAll sends one byte string through every decoder and its reference.
func decodeAll(t *rapid.T, ctx string, k cand, st *encStats) {
	fail := func(format string, a ...any) {
		t.Helper()
		t.Fatalf("%s\n candidate kind=%s\n bytes=%x (%d bytes)\n %s", ctx, k.kind, k.raw, len(k.raw), fmt.Sprintf(format, a...))
	}
	accepted := false

	// --- DER: strict signed reference, tied to sigref.ParseDER on every input
	wr, ws, flipped, wantDER := strictDERSigned(k.raw)
	pr, ps, perr := sigref.ParseDER(k.raw)
	if (perr == nil) != (wantDER && wr.Sign() >= 0 && ws.Sign() >= 0) || (perr == nil && !sameRS(pr, ps, wr, ws)) {
		fail("harness: the two DER references disagree: sigref.ParseDER err=%v (r=%v s=%v), signed strict parser ok=%v (r=%v s=%v)", perr, pr, ps, wantDER, wr, ws)
	}
	if wantDER && (wr.Sign() < 0 || ws.Sign() < 0) {
		fr, fs, ferr := sigref.ParseDER(flipped)
		or, os := wr, ws
		if wr.Sign() < 0 {
			or = new(big.Int).Sub(new(big.Int).Neg(wr), big.NewInt(1))
		}
		if ws.Sign() < 0 {
			os = new(big.Int).Sub(new(big.Int).Neg(ws), big.NewInt(1))
		}
		if ferr != nil || !sameRS(fr, fs, or, os) {
			fail("harness: sigref.ParseDER(%x) (negative integers complemented) gives err=%v r=%v s=%v, want r=%v s=%v", flipped, ferr, fr, fs, or, os)
		}
	}
	// C03 lists what must be REJECTED (non-canonical and trailing-data DER) and, through "Sign's output
	// verifies", that the canonical encoding of non-negative integers is read back.  A strict DER
	// encoding with a NEGATIVE integer is neither: no decision is demanded for it, only "no panic, and
	// if it is accepted, the values are the reference's" (counted per decoder).
	neg := wantDER && (wr.Sign() < 0 || ws.Sign() < 0)
	derDecision := func(name string, err error, r, s *big.Int) {
		switch {
		case !wantDER && err == nil:
			fail("%s accepts bytes that are not the strict DER encoding of SEQUENCE{INTEGER, INTEGER} (sigref.ParseDER err=%v); it returns r=%v s=%v", name, perr, r, s)
		case wantDER && !neg && err != nil:
			fail("%s err=%v for the canonical DER encoding of r=%v s=%v", name, err, wr, ws)
		}
		if err == nil && !sameRS(r, s, wr, ws) {
			fail("%s gives r=%v s=%v, reference r=%v s=%v", name, r, s, wr, ws)
		}
		if neg {
			if err == nil {
				evid.Add("der_negative_integer/"+name+"/accepted_same_values", 1)
			} else {
				evid.Add("der_negative_integer/"+name+"/rejected", 1)
			}
		}
	}
	sig, err := internalecdsa.ASN1Decode(bytes.Clone(k.raw))
	if err != nil {
		sig = &internalecdsa.Signature{}
	}
	derDecision("ASN1Decode", err, sig.R, sig.S)
	ssig, serr := sigsubtle.DecodeECDSASignature(bytes.Clone(k.raw), "DER")
	if serr != nil {
		ssig = &sigsubtle.ECDSASignature{}
	}
	derDecision("subtle.DecodeECDSASignature(DER)", serr, ssig.R, ssig.S)
	if wantDER {
		st.derAcc++
		if neg {
			st.derNeg++
			accepted = accepted || err == nil || serr == nil
		} else {
			accepted = true
			// Encode(Decode(b)) == b on both API levels
			if e, err := internalecdsa.ASN1Encode(sig); err != nil || !bytes.Equal(e, k.raw) {
				fail("ASN1Encode(ASN1Decode(b)) = %x, err=%v", e, err)
			}
			if e, err := ssig.EncodeECDSASignature("DER", "P-256"); err != nil || !bytes.Equal(e, k.raw) {
				fail("EncodeECDSASignature(DER) of DecodeECDSASignature(b) = %x, err=%v", e, err)
			}
		}
	} else {
		st.derRej++
	}

	// --- IEEE P1363 with a curve: exactly 2*size bytes
	wantAny := false // the length is the width of one of the supported curves
	for _, cu := range encCurves {
		wr, ws, werr := sigref.ParseP1363(k.raw, cu.size)
		sig, err := internalecdsa.IEEEP1363DecodeWithCurve(bytes.Clone(k.raw), cu.goName)
		if (err == nil) != (werr == nil) {
			fail("IEEEP1363DecodeWithCurve(%s) err=%v, strict reference (width 2*%d) err=%v", cu.goName, err, cu.size, werr)
		}
		if err != nil {
			st.curveRej++
			continue
		}
		if !sameRS(sig.R, sig.S, wr, ws) {
			fail("IEEEP1363DecodeWithCurve(%s) gives r=%v s=%v, reference r=%v s=%v", cu.goName, sig.R, sig.S, wr, ws)
		}
		if e, err := internalecdsa.IEEEP1363Encode(sig, cu.goName); err != nil || !bytes.Equal(e, k.raw) {
			fail("IEEEP1363Encode(IEEEP1363DecodeWithCurve(b), %s) = %x, err=%v", cu.goName, e, err)
		}
		st.curveAcc++
		accepted = true
		wantAny = true
	}
	// --- IEEE P1363 without a curve.  C03 rejects "wrong-length fixed-size signatures", but without a
	// curve no length is the wrong one ("the caller should validate the size of the encoded bytes
	// w.r.t. the curve size"): which lengths these helpers take is not decided here.  Asserted: no
	// panic, and what is accepted is read as r || s of equal width; the decisions are counted.
	for _, dec := range []struct {
		name string
		f    func([]byte) (*big.Int, *big.Int, error)
	}{
		{"IEEEP1363Decode", func(b []byte) (*big.Int, *big.Int, error) {
			s, err := internalecdsa.IEEEP1363Decode(b)
			if err != nil {
				return nil, nil, err
			}
			return s.R, s.S, nil
		}},
		{"subtle.DecodeECDSASignature(IEEE_P1363)", func(b []byte) (*big.Int, *big.Int, error) {
			s, err := sigsubtle.DecodeECDSASignature(b, "IEEE_P1363")
			if err != nil {
				return nil, nil, err
			}
			return s.R, s.S, nil
		}},
	} {
		r, s, err := dec.f(bytes.Clone(k.raw))
		switch {
		case err != nil && wantAny:
			evid.Add("p1363_nocurve/"+dec.name+"/supported_width_rejected", 1)
		case err != nil:
			evid.Add("p1363_nocurve/"+dec.name+"/other_width_rejected", 1)
		case len(k.raw) == 0 || len(k.raw)%2 != 0:
			evid.Add("p1363_nocurve/"+dec.name+"/accepted_without_a_middle", 1) // no r || s reading exists
		default:
			hr, hs, herr := sigref.ParseP1363(k.raw, len(k.raw)/2)
			if herr != nil || !sameRS(r, s, hr, hs) {
				fail("%s accepts the %d bytes and gives r=%v s=%v; the two halves are r=%v s=%v (reference err=%v)", dec.name, len(k.raw), r, s, hr, hs, herr)
			}
			if wantAny {
				evid.Add("p1363_nocurve/"+dec.name+"/supported_width_accepted_same_values", 1)
			} else {
				evid.Add("p1363_nocurve/"+dec.name+"/other_even_width_accepted_same_values", 1)
			}
		}
	}
	if wantAny {
		st.anyAcc++
	} else {
		st.anyRej++
	}
	// --- an encoding name outside {DER, IEEE_P1363}: not C03's subject; no panic, decision counted
	if _, err := sigsubtle.DecodeECDSASignature(bytes.Clone(k.raw), "BER"); err == nil {
		evid.Add("observed_not_asserted/unsupported_encoding_name_BER_accepted", 1)
	}
	if accepted {
		st.famAcc[family(k.kind)]++
	} else {
		st.famRej[family(k.kind)]++
	}
}

// TestSubtleSigDecode: the decoders of the encoding helpers reject what the strict reference
// rejects (DER; fixed width with a curve), accept the canonical encodings, always with the
// reference's (r, s); what they accept re-encodes to the same bytes.  See the file comment for the
// kinds whose decision is only counted.
func TestSubtleSigDecode(t *testing.T) {
	rapid.Check(t, func(rt *rapid.T) {
		detrand.Seed(rapid.Uint64().Draw(rt, "entropy"))
		cu := rapid.SampledFrom(encCurves).Draw(rt, "curve")
		focus := rapid.SampledFrom(focusFamilies).Draw(rt, "focus")
		r, rk := drawSigInt(rt, "r", cu, true)
		s, sk := drawSigInt(rt, "s", cu, true)
		fits := r.BitLen() <= 8*cu.size && s.BitLen() <= 8*cu.size
		ctx := fmt.Sprintf("signature encoding helpers, base values for %s (width %d): r=%x (%s) s=%x (%s), focus=%s", cu.name, cu.size, r, rk, s, sk, focus)

		var cands []cand
		if fits { // the generators of TestECDSA need values of the curve's width
			cands = append(cands, derCandidates(rt, cu.c, r, s)...)
			cands = append(cands, p1363Candidates(rt, cu.c, r, s)...)
		}
		cands = append(cands, systematicExtras(r, s)...)
		cands = append(cands, focusExtras(rt, focus, cu, r, s)...)

		st := &encStats{famAcc: map[string]int{}, famRej: map[string]int{}}
		fp := evid.NewH().S(cu.name).S(focus).B(r.Bytes()).B(s.Bytes())
		for _, k := range cands {
			decodeAll(rt, ctx, k, st)
			fp = fp.S(k.kind).B(k.raw)
		}
		if st.derAcc < 1 || st.derRej < 10 || (fits && st.curveAcc < 1) {
			rt.Fatalf("%s\n harness: too few candidates on one side: %+v", ctx, *st)
		}
		evid.Add("decode_candidates", int64(len(cands)))
		evid.Add("der_accept_both", int64(st.derAcc))
		evid.Add("der_strict_with_negative_integer_candidates", int64(st.derNeg))
		evid.Add("der_reject_both", int64(st.derRej))
		evid.Add("p1363_curve_accept_both", int64(st.curveAcc))
		evid.Add("p1363_curve_reject_both", int64(st.curveRej))
		evid.Add("p1363_nocurve_accept_both", int64(st.anyAcc))
		evid.Add("p1363_nocurve_reject_both", int64(st.anyRej))
		for f, n := range st.famAcc {
			evid.Add("kind/"+f+"/accepted", int64(n))
		}
		for f, n := range st.famRej {
			evid.Add("kind/"+f+"/rejected", int64(n))
		}
		evid.Case(fmt.Sprintf("decode/%s/%s", cu.name, focus), true, fp.Sum(), func() any {
			kinds := map[string]string{}
			for _, k := range cands {
				if strings.HasPrefix(k.kind, "f-") {
					kinds[k.kind] = gen.Hex(k.raw)
				}
			}
			return map[string]any{"case": ctx, "candidates": len(cands), "der_accept": st.derAcc, "der_accept_negative": st.derNeg, "der_reject": st.derRej,
				"p1363_curve_accept": st.curveAcc, "p1363_curve_reject": st.curveRej, "p1363_nocurve_accept": st.anyAcc, "p1363_nocurve_reject": st.anyRej,
				"family_accept": st.famAcc, "family_reject": st.famRej, "focus_candidates": kinds}
		})
	})
}

// guarded runs an encoder and turns a panic into a failure that prints the case.
func guarded(t *rapid.T, ctx, name string, f func() ([]byte, error)) (out []byte, err error) {
	defer func() {
		if p := recover(); p != nil {
			t.Fatalf("%s\n %s panics: %v", ctx, name, p)
		}
	}()
	return f()
}

// TestSubtleSigEncode: Encode(r, s) is the reference's canonical encoding (the curve's width for
// IEEE P1363 when the values fit) and Decode(Encode(r, s)) == (r, s), on both API levels; values
// that do not fit and unsupported curve / encoding names must not panic (decisions counted).
func TestSubtleSigEncode(t *testing.T) {
	rapid.Check(t, func(rt *rapid.T) {
		detrand.Seed(rapid.Uint64().Draw(rt, "entropy"))
		cu := rapid.SampledFrom(encCurves).Draw(rt, "curve")
		r, rk := drawSigInt(rt, "r", cu, true)
		s, sk := drawSigInt(rt, "s", cu, true)
		ctx := fmt.Sprintf("signature encoding helpers, %s: r=%x (%s) s=%x (%s)", cu.name, r, rk, s, sk)
		r0, s0 := new(big.Int).Set(r), new(big.Int).Set(s)
		isig := &internalecdsa.Signature{R: r, S: s}
		ssig := sigsubtle.NewECDSASignature(r, s)
		if ssig == nil || ssig.R.Cmp(r0) != 0 || ssig.S.Cmp(s0) != 0 {
			rt.Fatalf("%s\n NewECDSASignature does not hold (r, s): %+v", ctx, ssig)
		}

		// --- DER
		wantDER := sigref.EncodeDER(r0, s0)
		for _, e := range []struct {
			name string
			f    func() ([]byte, error)
		}{
			{"ASN1Encode", func() ([]byte, error) { return internalecdsa.ASN1Encode(isig) }},
			{"EncodeECDSASignature(DER)", func() ([]byte, error) { return ssig.EncodeECDSASignature("DER", cu.goName) }},
		} {
			got, err := guarded(rt, ctx, e.name, e.f)
			if err != nil || !bytes.Equal(got, wantDER) {
				rt.Fatalf("%s\n %s = %x, err=%v\n canonical DER          = %x", ctx, e.name, got, err, wantDER)
			}
		}
		if pr, ps, err := sigref.ParseDER(wantDER); err != nil || !sameRS(pr, ps, r0, s0) {
			rt.Fatalf("%s\n harness: sigref.ParseDER(sigref.EncodeDER(r, s)) = %v, %v, %v", ctx, pr, ps, err)
		}
		if d, err := internalecdsa.ASN1Decode(bytes.Clone(wantDER)); err != nil || !sameRS(d.R, d.S, r0, s0) {
			rt.Fatalf("%s\n ASN1Decode(ASN1Encode(r, s)) = %+v, err=%v\n encoding %x", ctx, d, err, wantDER)
		}
		if d, err := sigsubtle.DecodeECDSASignature(bytes.Clone(wantDER), "DER"); err != nil || !sameRS(d.R, d.S, r0, s0) {
			rt.Fatalf("%s\n DecodeECDSASignature(EncodeECDSASignature(r, s)) = %+v, err=%v\n encoding %x", ctx, d, err, wantDER)
		}

		// --- IEEE P1363 under each curve: the width is the curve's
		nfit := 0
		for _, c2 := range encCurves {
			fits := r0.BitLen() <= 8*c2.size && s0.BitLen() <= 8*c2.size
			for _, e := range []struct {
				name string
				f    func() ([]byte, error)
			}{
				{"IEEEP1363Encode", func() ([]byte, error) { return internalecdsa.IEEEP1363Encode(isig, c2.goName) }},
				{"EncodeECDSASignature(IEEE_P1363)", func() ([]byte, error) { return ssig.EncodeECDSASignature("IEEE_P1363", c2.goName) }},
			} {
				got, err := guarded(rt, ctx, e.name, e.f)
				if !fits {
					// a value wider than the curve has no fixed-width encoding and is never a value of
					// Sign: C03 says nothing about it.  No panic (guarded); the decision is counted.
					if err == nil {
						evid.Add("observed_not_asserted/"+e.name+"_too_wide_value_encoded", 1)
					} else {
						evid.Add("encode_p1363_too_wide/"+e.name+"/refused", 1)
					}
					continue
				}
				want := sigref.EncodeP1363(r0, s0, c2.size)
				if err != nil || !bytes.Equal(got, want) {
					rt.Fatalf("%s\n %s(%s) = %x, err=%v\n reference r||s, width 2*%d = %x", ctx, e.name, c2.goName, got, err, c2.size, want)
				}
			}
			if !fits {
				continue
			}
			nfit++
			want := sigref.EncodeP1363(r0, s0, c2.size)
			if d, err := internalecdsa.IEEEP1363DecodeWithCurve(bytes.Clone(want), c2.goName); err != nil || !sameRS(d.R, d.S, r0, s0) {
				rt.Fatalf("%s\n IEEEP1363DecodeWithCurve(IEEEP1363Encode(r, s), %s) = %+v, err=%v", ctx, c2.goName, d, err)
			}
			if d, err := internalecdsa.IEEEP1363Decode(bytes.Clone(want)); err != nil || !sameRS(d.R, d.S, r0, s0) {
				rt.Fatalf("%s\n IEEEP1363Decode(IEEEP1363Encode(r, s) for %s) = %+v, err=%v", ctx, c2.goName, d, err)
			}
			if d, err := sigsubtle.DecodeECDSASignature(bytes.Clone(want), "IEEE_P1363"); err != nil || !sameRS(d.R, d.S, r0, s0) {
				rt.Fatalf("%s\n DecodeECDSASignature(EncodeECDSASignature(r, s) for %s) = %+v, err=%v", ctx, c2.goName, d, err)
			}
		}

		// --- names outside the supported sets: not C03's subject.  No panic; refusals are counted
		badCurve := gen.Pick(rt, "bad_curve", []string{"", "NIST_P256", "P-224", "secp256r1", "p-256", "P-256 ", "P256", "Curve25519", "P-5211"})
		badEnc := gen.Pick(rt, "bad_encoding", []string{"", "BER", "der", "IEEE_P1363 ", "IEEE-P1363", "P1363", "ASN1"})
		for _, u := range []struct {
			name string
			f    func() error
		}{
			{"IEEEP1363Encode/curve", func() error { _, err := internalecdsa.IEEEP1363Encode(isig, badCurve); return err }},
			{"EncodeECDSASignature/curve", func() error { _, err := ssig.EncodeECDSASignature("IEEE_P1363", badCurve); return err }},
			{"IEEEP1363DecodeWithCurve/curve", func() error {
				_, err := internalecdsa.IEEEP1363DecodeWithCurve(make([]byte, 2*cu.size), badCurve)
				return err
			}},
			{"EncodeECDSASignature/encoding", func() error { _, err := ssig.EncodeECDSASignature(badEnc, cu.goName); return err }},
			{"DecodeECDSASignature/encoding", func() error { _, err := sigsubtle.DecodeECDSASignature(bytes.Clone(wantDER), badEnc); return err }},
		} {
			refusedOrCounted(rt, "unsupported-name/"+u.name, fmt.Sprintf("%s curve name %q encoding name %q", ctx, badCurve, badEnc), u.f)
		}

		evid.Add("encode_p1363_fits", int64(nfit))
		evid.Add("encode_p1363_too_wide", int64(len(encCurves)-nfit))
		evid.Add("encode_value_kind/"+rk, 1)
		evid.Add("encode_value_kind/"+sk, 1)
		fit := []string{"wider-than-every-curve", "fits-P521-only", "fits-P384-and-P521", "fits-every-curve"}[nfit]
		evid.Case(fmt.Sprintf("encode/%s/%s", cu.name, fit), r0.Sign() > 0 || s0.Sign() > 0,
			evid.NewH().S(cu.name).B(r0.Bytes()).B(s0.Bytes()).S(badCurve).S(badEnc).Sum(), func() any {
				return map[string]any{"case": ctx, "der": gen.Hex(wantDER), "p1363_curves_fitting": nfit}
			})
	})
}
