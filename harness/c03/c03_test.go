// The harness's deterministic reader is installed as crypto/rand.Reader, which the standard library
// treats as a "custom" reader under the go.mod language version (<= 1.25): ecdsa.Sign*, rsa.SignPSS
// and rsa.GenerateKey then call randutil.MaybeReadByte, which consumes one extra byte with
// probability 1/2 ON PURPOSE, so a case would not replay.  With cryptocustomrand=0 (the Go 1.26
// default) every reader argument is replaced by the global source, i.e. the detrand stream.
//
//go:debug cryptocustomrand=0

// Package c03 decides property C03: signatures made by the ECDSA, Ed25519, RSA-SSA-PKCS1 and
// RSA-SSA-PSS primitives verify under the matching key and under an independent verifier of the
// standard algorithm, and Verify accepts exactly what an independent strict verifier accepts.
//
// Every case builds one key (one scheme x parameters x variant x route), signs a drawn message and
// then runs a list of candidates (signature, message) through BOTH Tink's verifier and the
// reference (package sigref); the two decisions must agree for every candidate.
package c03

import (
	"bytes"
	"encoding/hex"
	"fmt"
	"strings"
	"testing"

	"pgregory.net/rapid"

	"github.com/tink-crypto/tink-go/v2/tink"
	"github.com/tink-crypto/tink-go/v2/verifharness/internal/evid"
	"github.com/tink-crypto/tink-go/v2/verifharness/internal/gen"
	"github.com/tink-crypto/tink-go/v2/verifharness/internal/tk"
)

const propID = "C03"

func TestMain(m *testing.M) { evid.Main(m) }

var variants = []string{tk.Tink, tk.Crunchy, tk.Legacy, tk.NoPrefix}

// sigCase is one key under test together with its independent oracle.
type sigCase struct {
	scheme  string // ECDSA, ED25519, RSAPKCS1, RSAPSS
	params  string // curve/hash/encoding or modulus/hash/salt
	cls     string // histogram class of the parameters (defaults to params)
	variant string
	id      uint32
	route   string
	keyDesc string // complete key material, hex

	signer   tink.Signer
	verifier tink.Verifier
	prefix   []byte // the harness's own table, not the key's OutputPrefix()

	// ref decides a RAW signature (no Tink prefix) over the EFFECTIVE message (LEGACY suffix
	// already appended).
	ref func(raw, effMsg []byte) bool
	// excluded reports candidates that fall under a listed known finding and are not compared.
	excluded func(raw, effMsg []byte) bool
	// otherKeySign signs the effective message with a key that differs by construction.
	otherKeySign func(effMsg []byte) ([]byte, error)

	accept, reject, skipped int
	// per candidate kind: how often both sides accepted / rejected (flushed by finish as
	// kind/<kind>/acc and kind/<kind>/rej)
	kindAcc, kindRej map[string]int

	// One signature buffer and one message buffer per case: every candidate is copied into them and
	// handed to Verify as a sub-slice, so the same backing array (same pointer, often the same length)
	// carries different candidates one after the other.  A verifier that remembered a decision by the
	// identity of its arguments instead of their content would disagree with the oracle.
	sigBuf, msgBuf []byte
	bufReuse       int
}

// viewBufSize holds every candidate of this package (RSA-4096 signature doubled plus prefix; messages
// of 1 KiB plus mutation suffix), so the arrays are allocated once per case.
const viewBufSize = 2304

// view copies b to the start of the case's persistent buffer and returns that region (nil stays nil,
// the empty candidate becomes the empty region of the same array).
func view(buf *[]byte, b []byte) []byte {
	if b == nil {
		return nil
	}
	if cap(*buf) < len(b) {
		n := viewBufSize
		for n < len(b) {
			n *= 2
		}
		*buf = make([]byte, n)
	}
	v := (*buf)[:len(b)]
	copy(v, b)
	return v
}

// views places one (signature, message) candidate pair into the case's two buffers.
func (c *sigCase) views(sig, msg []byte) (s, m []byte) {
	if c.sigBuf != nil && cap(c.sigBuf) >= len(sig) && cap(c.msgBuf) >= len(msg) {
		c.bufReuse++
	}
	return view(&c.sigBuf, sig), view(&c.msgBuf, msg)
}

func (c *sigCase) String() string {
	return fmt.Sprintf("%s %s variant=%s id=%#x route=%s key{%s}", c.scheme, c.params, c.variant, c.id, c.route, c.keyDesc)
}

func (c *sigCase) class() string {
	p := c.cls
	if p == "" {
		p = c.params
	}
	return fmt.Sprintf("%s/%s/%s/%s", c.scheme, p, c.variant, c.route)
}

func cat(parts ...[]byte) []byte { return bytes.Join(parts, nil) }

// eff is the message the standard algorithm sees.
func (c *sigCase) eff(msg []byte) []byte {
	if c.variant == tk.Legacy {
		return cat(msg, []byte{0})
	}
	return bytes.Clone(msg)
}

// refFull decides a complete Tink signature: expected prefix, then the standard algorithm.
func (c *sigCase) refFull(sig, msg []byte) bool {
	if !bytes.HasPrefix(sig, c.prefix) {
		return false
	}
	return c.ref(sig[len(c.prefix):], c.eff(msg))
}

// try is the two-sided oracle for one candidate.
func (c *sigCase) try(t *rapid.T, kind string, sig, msg []byte) {
	if c.excluded != nil && bytes.HasPrefix(sig, c.prefix) && c.excluded(sig[len(c.prefix):], c.eff(msg)) {
		c.skipped++
		return
	}
	want := c.refFull(sig, msg)
	vs, vm := c.views(sig, msg)
	err := c.verifier.Verify(vs, vm)
	if (err == nil) != want {
		t.Fatalf("%v\n candidate kind=%s\n sig=%x\n msg=%x\n Tink Verify err=%v but independent strict verifier accepts=%v", c, kind, sig, msg, err, want)
	}
	if c.kindAcc == nil {
		c.kindAcc, c.kindRej = map[string]int{}, map[string]int{}
	}
	if want {
		c.accept++
		c.kindAcc[kindClass(kind)]++
	} else {
		c.reject++
		c.kindRej[kindClass(kind)]++
	}
}

// kindClass is the candidate kind for the counters; the one kind that carries a drawn number
// (pss-std-salt-47) loses it.
func kindClass(kind string) string {
	if strings.HasPrefix(kind, "pss-std-salt-") {
		return "pss-std-salt-#"
	}
	return kind
}

// tryRaw prepends the correct prefix.
func (c *sigCase) tryRaw(t *rapid.T, kind string, raw, msg []byte) {
	c.try(t, kind, cat(c.prefix, raw), msg)
}

// signAndCheck performs (a) and (b) and returns the full signature and its raw part.
func (c *sigCase) signAndCheck(t *rapid.T, msg []byte, freshRef func(raw, effMsg []byte) bool) (sig, raw []byte) {
	sig, err := c.signer.Sign(bytes.Clone(msg))
	if err != nil {
		t.Fatalf("%v\n Sign(%x) failed: %v", c, msg, err)
	}
	vs, vm := c.views(sig, msg)
	if err := c.verifier.Verify(vs, vm); err != nil {
		t.Fatalf("%v\n Verify(Sign(m), m) failed: %v\n sig=%x\n msg=%x", c, err, sig, msg)
	}
	if !bytes.HasPrefix(sig, c.prefix) {
		t.Fatalf("%v\n Sign output %x does not start with the %s prefix %x\n msg=%x", c, sig, c.variant, c.prefix, msg)
	}
	raw = sig[len(c.prefix):]
	if freshRef == nil {
		freshRef = c.ref
	}
	if !freshRef(raw, c.eff(msg)) {
		t.Fatalf("%v\n the independent verifier rejects Sign's output\n raw sig=%x\n msg=%x (effective %x)", c, raw, msg, c.eff(msg))
	}
	// the LEGACY suffix is really there (and really absent for the other variants)
	if c.variant == tk.Legacy {
		if freshRef(raw, msg) {
			t.Fatalf("%v\n LEGACY signature verifies over the plain message without the 0x00 suffix\n raw sig=%x\n msg=%x", c, raw, msg)
		}
	} else if freshRef(raw, cat(msg, []byte{0})) {
		t.Fatalf("%v\n non-LEGACY signature verifies over message||0x00\n raw sig=%x\n msg=%x", c, raw, msg)
	}
	return sig, raw
}

// commonCandidates runs the scheme-independent candidates.
func (c *sigCase) commonCandidates(t *rapid.T, msg, sig []byte) {
	raw := sig[len(c.prefix):]
	c.try(t, "fresh", sig, msg)

	// --- prefixes
	if len(c.prefix) > 0 {
		c.try(t, "prefix-missing", raw, msg)
		c.try(t, "prefix-doubled", cat(c.prefix, c.prefix, raw), msg)
		for _, v := range variants {
			if p := tk.Prefix(v, c.id); !bytes.Equal(p, c.prefix) {
				c.try(t, "prefix-of-"+v, cat(p, raw), msg)
			}
		}
		c.try(t, "prefix-id+1", cat(tk.Prefix(c.variant, c.id+1), raw), msg)
		c.try(t, "prefix-id^msb", cat(tk.Prefix(c.variant, c.id^0x80000000), raw), msg)
		for i := range c.prefix { // one flipped bit in every prefix byte
			p := bytes.Clone(c.prefix)
			p[i] ^= 1 << uint(rapid.IntRange(0, 7).Draw(t, "pfxbit"))
			c.try(t, fmt.Sprintf("prefix-flip-byte%d", i), cat(p, raw), msg)
		}
		c.try(t, "prefix-4-bytes", cat(c.prefix[:4], raw), msg)
		c.try(t, "prefix-only", c.prefix, msg)
	} else {
		c.try(t, "added-prefix-TINK", cat(tk.Prefix(tk.Tink, c.id), raw), msg)
		c.try(t, "added-prefix-CRUNCHY", cat(tk.Prefix(tk.Crunchy, c.id), raw), msg)
		c.try(t, "added-prefix-drawn-id", cat(tk.Prefix(tk.Tink, gen.KeyID(t, "otherid")), raw), msg)
	}
	c.try(t, "empty", []byte{}, msg)
	c.try(t, "nil", nil, msg)

	// --- length changes of the whole signature
	for n := 1; n <= 4; n++ {
		if len(sig) >= n {
			c.try(t, fmt.Sprintf("truncate-%d", n), sig[:len(sig)-n], msg)
		}
		c.try(t, fmt.Sprintf("extend-zero-%d", n), cat(sig, make([]byte, n)), msg)
	}
	c.try(t, "extend-drawn", cat(sig, rapid.SliceOfN(rapid.Byte(), 1, 4).Draw(t, "ext")), msg)
	sm := gen.Mutate(t, "sigmut", sig)
	c.try(t, "sig-"+sm.Kind, sm.Out, msg)

	// --- messages against the unchanged signature (LEGACY suffix confusion included)
	c.try(t, "msg+00", sig, cat(msg, []byte{0}))
	if len(msg) > 0 {
		c.try(t, "msg-last", sig, msg[:len(msg)-1])
		m2 := bytes.Clone(msg)
		m2[len(m2)/2] ^= 0x80
		c.try(t, "msg-flip", sig, m2)
	}
	mm := gen.Mutate(t, "msgmut", msg)
	c.try(t, "msg-"+mm.Kind, sig, mm.Out)

	// --- another message, properly signed: accept side, and both cross pairs
	sig2, err := c.signer.Sign(bytes.Clone(mm.Out))
	if err != nil {
		t.Fatalf("%v\n Sign(%x) failed: %v", c, mm.Out, err)
	}
	c.try(t, "resigned", sig2, mm.Out)
	c.try(t, "sig-of-other-msg", sig2, msg)

	// --- another key, same parameters, same prefix
	if c.otherKeySign != nil {
		o, err := c.otherKeySign(c.eff(msg))
		if err != nil {
			t.Fatalf("%v\n harness: signing with the other key failed: %v", c, err)
		}
		c.tryRaw(t, "other-key", o, msg)
	}
}

// finish records the evidence of a case.
func (c *sigCase) finish(t *rapid.T, msg []byte, fp evid.H) {
	if c.accept < 1 || c.accept+c.skipped < 2 {
		t.Fatalf("%v\n harness: accept side has only %d candidates (%d excluded)", c, c.accept, c.skipped)
	}
	c.counts()
	n := c.accept + c.reject
	nontrivial := n > 1 || c.variant == tk.Legacy || len(msg) >= 1
	evid.Case(c.class(), nontrivial, fp.S(c.scheme).S(c.params).S(c.variant).I(int64(c.id)).S(c.route).B(msg).Sum(), func() any {
		return map[string]any{"case": c.String(), "msg": gen.Hex(msg), "accept": c.accept, "reject": c.reject, "excluded_known": c.skipped}
	})
}

// counts adds the candidate counters of a case to the evidence.
func (c *sigCase) counts() {
	evid.Add("accept_candidates", int64(c.accept))
	evid.Add("reject_candidates", int64(c.reject))
	if c.skipped > 0 {
		evid.Add("excluded_known", int64(c.skipped))
	}
	evid.Add("candidates_in_reused_buffers", int64(c.bufReuse))
	for k, n := range c.kindAcc {
		evid.Add("kind/"+k+"/acc", int64(n))
	}
	for k, n := range c.kindRej {
		evid.Add("kind/"+k+"/rej", int64(n))
	}
}

// drawRouteVariantID draws the construction route and a compatible variant / key id.
func drawRouteVariantID(t *rapid.T) (route, variant string, id uint32) {
	route = rapid.SampledFrom([]string{"handle", "handle", "key", "key", "subtle"}).Draw(t, "route")
	variant = tk.NoPrefix
	if route != "subtle" {
		variant = rapid.SampledFrom(variants).Draw(t, "variant")
	}
	id = gen.KeyID(t, "id")
	if variant == tk.NoPrefix {
		id = 0
	}
	return route, variant, id
}

func hx(b []byte) string { return hex.EncodeToString(b) }
