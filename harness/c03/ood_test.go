package c03

import (
	"bytes"
	stdecdsa "crypto/ecdsa"
	"crypto/elliptic"
	"crypto/rand"
	stdrsa "crypto/rsa"
	"fmt"
	"math/big"
	"testing"

	"pgregory.net/rapid"

	"github.com/tink-crypto/tink-go/v2/internal/internalapi"
	isig "github.com/tink-crypto/tink-go/v2/internal/signature"
	"github.com/tink-crypto/tink-go/v2/signature/ecdsa"
	"github.com/tink-crypto/tink-go/v2/signature/ed25519"
	"github.com/tink-crypto/tink-go/v2/signature/rsassapkcs1"
	"github.com/tink-crypto/tink-go/v2/signature/rsassapss"
	sigsubtle "github.com/tink-crypto/tink-go/v2/signature/subtle"
	"github.com/tink-crypto/tink-go/v2/tink"
	"github.com/tink-crypto/tink-go/v2/verifharness/internal/detrand"
	"github.com/tink-crypto/tink-go/v2/verifharness/internal/evid"
	"github.com/tink-crypto/tink-go/v2/verifharness/internal/gen"
	"github.com/tink-crypto/tink-go/v2/verifharness/internal/ref/sigref"
	"github.com/tink-crypto/tink-go/v2/verifharness/internal/tk"
)

// refused runs a constructor on out-of-domain input: it must return an error and must not panic.
func refused(t *rapid.T, desc string, f func() error) {
	var err error
	func() {
		defer func() {
			if p := recover(); p != nil {
				t.Fatalf("out-of-domain input made the constructor panic: %s: %v", desc, p)
			}
		}()
		err = f()
	}()
	if err == nil {
		t.Fatalf("out-of-domain input accepted: %s", desc)
	}
}

// refusedOrCounted runs a call on input outside the domain of C03's statement where neither C03 nor
// C14 says that it must be refused: it must not panic; the decision is counted under ood/<what>/.
// It returns true when the call went through.
func refusedOrCounted(t *rapid.T, what, desc string, f func() error) (built bool) {
	var err error
	func() {
		defer func() {
			if p := recover(); p != nil {
				t.Fatalf("out-of-domain input made the call panic: %s: %s: %v", what, desc, p)
			}
		}()
		err = f()
	}()
	if err == nil {
		evid.Add("ood/"+what+"/built", 1)
		return true
	}
	evid.Add("ood/"+what+"/refused", 1)
	return false
}

// c14 marks the refusals that C14's sentence carries ("Keys below the library's minimum strengths
// (... RSA modulus under 2048 bits or exponent other than 65537, ECDSA hash weaker than its curve ...)
// never yield a usable primitive"): for those, f runs the constructors up to a Signer / Verifier and
// must fail somewhere on the way.
const c14 = " [C14: keys below the minimum strengths never yield a usable primitive]"

// oodOracle runs the two-sided oracle of the in-domain units on a primitive that the library was
// free to refuse but built (a case with signer, verifier, prefix and ref set).
func oodOracle(t *rapid.T, c *sigCase, what string) {
	msg := gen.Bytes(t, "msg", 64)
	sig, _ := c.signAndCheck(t, msg, nil)
	c.commonCandidates(t, msg, sig)
	c.counts()
	evid.Add("ood/"+what+"/equivalence_oracle_cases", 1)
}

var ecdsaHashBits = map[string]int{"SHA1": 160, "SHA224": 224, "SHA256": 256, "SHA384": 384, "SHA512": 512}
var ecdsaCurveBits = map[string]int{"NIST_P256": 256, "NIST_P384": 384, "NIST_P521": 512}

// TestSigOutOfDomain: parameters and key material outside the domain of C03's statement.  Nothing
// may panic.  A refusal is demanded only where C14's minimum-strength sentence carries it (RSA
// modulus under 2048 bits, exponent other than 65537, ECDSA hash weaker than its curve: no Signer /
// Verifier may come out) and, for a public key that is not a point of the curve, in the form "a
// signature of the genuine key is rejected" (C03: other keys are rejected).  Everything else is
// "refused => counted; built => counted, and where an independent reference exists (ECDSA with a hash
// longer than the curve, RSA with SHA-1 / SHA-224) the equivalence oracle of the in-domain units runs".
func TestSigOutOfDomain(t *testing.T) {
	ensurePool(t)
	kinds := []string{
		"ecdsa-params-hash-curve", "ecdsa-params-enum", "ecdsa-subtle-params", "ecdsa-point", "ecdsa-scalar", "ecdsa-noprefix-id",
		"ed25519-lengths", "ed25519-params",
		"rsa-params-modulus", "rsa-params-exponent", "rsa-params-enum", "pss-params-salt-mgf", "rsa-modulus-mismatch",
		"rsa-internal-modulus", "rsa-internal-exponent", "rsa-internal-hash", "rsa-key-exponent",
	}
	rapid.Check(t, func(rt *rapid.T) {
		detrand.Seed(rapid.Uint64().Draw(rt, "entropy"))
		kind := gen.Pick(rt, "kind", kinds)
		var desc string
		switch kind {
		case "ecdsa-params-hash-curve":
			bad := []struct {
				c     ecdsa.CurveType
				h     ecdsa.HashType
				curve elliptic.Curve
				cn    string
				hn    string
			}{
				{ecdsa.NistP256, ecdsa.SHA384, elliptic.P256(), "NIST_P256", "SHA384"}, {ecdsa.NistP256, ecdsa.SHA512, elliptic.P256(), "NIST_P256", "SHA512"},
				{ecdsa.NistP384, ecdsa.SHA256, elliptic.P384(), "NIST_P384", "SHA256"}, {ecdsa.NistP521, ecdsa.SHA256, elliptic.P521(), "NIST_P521", "SHA256"},
				{ecdsa.NistP521, ecdsa.SHA384, elliptic.P521(), "NIST_P521", "SHA384"},
			}
			b := gen.Pick(rt, "pair", bad)
			encS := gen.Pick(rt, "enc", []string{sigref.DER, sigref.P1363})
			enc := map[string]ecdsa.SignatureEncoding{sigref.DER: ecdsa.DER, sigref.P1363: ecdsa.IEEEP1363}[encS]
			variant := gen.Pick(rt, "variant", variants)
			id := uint32(0)
			if variant != tk.NoPrefix {
				id = gen.KeyID(rt, "id")
			}
			d, note := drawScalar(rt, b.curve)
			size := sigref.ScalarSize(b.curve)
			scalar := d.FillBytes(make([]byte, size))
			qx, qy := b.curve.ScalarBaseMult(scalar)
			desc = fmt.Sprintf("ecdsa.NewParameters(%v, %v, %v, %v), then NewPrivateKey(d=%x, id=%#x), NewSigner, NewVerifier", b.c, b.h, enc, variant, scalar, id)
			c := &sigCase{scheme: "ECDSA", params: b.cn + "-" + b.hn + "/" + encS, variant: variant, id: id, route: "key(out-of-domain)",
				keyDesc: fmt.Sprintf("d=%x %s", scalar, note), prefix: tk.Prefix(variant, id)}
			build := func() error {
				params, err := ecdsa.NewParameters(b.c, b.h, enc, ecdsaVariant(variant))
				if err != nil {
					return err
				}
				priv, err := ecdsa.NewPrivateKey(tk.Secret(scalar), id, params)
				if err != nil {
					return err
				}
				pk, err := priv.PublicKey()
				if err != nil {
					return err
				}
				pub, ok := pk.(*ecdsa.PublicKey)
				if !ok {
					return fmt.Errorf("public key is a %T", pk)
				}
				if c.signer, err = ecdsa.NewSigner(priv, internalapi.Token{}); err != nil {
					return err
				}
				c.verifier, err = ecdsa.NewVerifier(pub, internalapi.Token{})
				return err
			}
			if ecdsaHashBits[b.hn] < ecdsaCurveBits[b.cn] {
				refused(rt, desc+c14, build)
			} else if refusedOrCounted(rt, "ecdsa-key-hash-longer-than-curve", desc, build) {
				ecdsaOracles(c, ecCombo{name: b.cn, short: b.cn, c: b.curve, ct: b.c, hash: b.hn, ht: b.h}, encS, d, qx, qy)
				oodOracle(rt, c, "ecdsa-key-hash-longer-than-curve")
			}
		case "ecdsa-params-enum":
			which := rapid.IntRange(0, 3).Draw(rt, "which")
			outside := func(label string, hi int) int { // 0 (unknown) or beyond the last enumerator
				if rapid.Bool().Draw(rt, label+"_zero") {
					return 0
				}
				return rapid.IntRange(hi+1, hi+100).Draw(rt, label)
			}
			c, h, e, v := ecdsa.NistP256, ecdsa.SHA256, ecdsa.DER, ecdsa.VariantTink
			switch which {
			case 0:
				c = ecdsa.CurveType(outside("curve", int(ecdsa.NistP521)))
			case 1:
				h = ecdsa.HashType(outside("hash", int(ecdsa.SHA512)))
			case 2:
				e = ecdsa.SignatureEncoding(outside("enc", int(ecdsa.IEEEP1363)))
			case 3:
				v = ecdsa.Variant(outside("variant", int(ecdsa.VariantNoPrefix)))
			}
			desc = fmt.Sprintf("ecdsa.NewParameters(%d, %d, %d, %d)", c, h, e, v)
			refusedOrCounted(rt, "ecdsa.NewParameters-enum-outside", desc, func() error { _, err := ecdsa.NewParameters(c, h, e, v); return err })
		case "ecdsa-subtle-params":
			bad := []struct{ h, c, e string }{
				{"SHA1", "NIST_P256", "DER"}, {"SHA224", "NIST_P256", "DER"}, {"SHA384", "NIST_P256", "DER"}, {"SHA512", "NIST_P256", "IEEE_P1363"},
				{"SHA256", "NIST_P384", "DER"}, {"SHA1", "NIST_P384", "IEEE_P1363"}, {"SHA256", "NIST_P521", "DER"}, {"SHA384", "NIST_P521", "DER"},
				{"SHA256", "NIST_P256", "BER"}, {"SHA256", "NIST_P256", ""}, {"SHA256", "NIST_P224", "DER"}, {"SHA256", "", "DER"}, {"", "NIST_P256", "DER"},
			}
			b := gen.Pick(rt, "triple", bad)
			desc = fmt.Sprintf("subtle ECDSA (%q, %q, %q)", b.h, b.c, b.e)
			refusedOrCounted(rt, "subtle.ValidateECDSAParams", desc, func() error { return sigsubtle.ValidateECDSAParams(b.h, b.c, b.e) })
			curve := sigref.CurveByName(b.c)
			known := curve != nil && ecdsaHashBits[b.h] != 0 && (b.e == sigref.DER || b.e == sigref.P1363)
			if curve == nil {
				curve = elliptic.P256()
			}
			size := sigref.ScalarSize(curve)
			d, note := drawScalar(rt, curve)
			scalar := d.FillBytes(make([]byte, size))
			qx, qy := curve.ScalarBaseMult(scalar)
			c := &sigCase{scheme: "ECDSA", params: b.c + "-" + b.h + "/" + b.e, variant: tk.NoPrefix, route: "subtle(out-of-domain)",
				keyDesc: fmt.Sprintf("d=%x %s", scalar, note), prefix: tk.Prefix(tk.NoPrefix, 0)}
			mkSigner := func() error { s, err := sigsubtle.NewECDSASigner(b.h, b.c, b.e, scalar); c.signer = s; return err }
			mkVerifier := func() error {
				v, err := sigsubtle.NewECDSAVerifier(b.h, b.c, b.e, qx.Bytes(), qy.Bytes())
				c.verifier = v
				return err
			}
			switch {
			case known && ecdsaHashBits[b.h] < ecdsaCurveBits[b.c]:
				refused(rt, "NewECDSASigner "+desc+c14, mkSigner)
				refused(rt, "NewECDSAVerifier "+desc+c14, mkVerifier)
			case known: // a hash longer than the curve: the standard algorithm is defined (leftmost bits)
				sb := refusedOrCounted(rt, "subtle-ecdsa-hash-longer-than-curve/signer", desc, mkSigner)
				vb := refusedOrCounted(rt, "subtle-ecdsa-hash-longer-than-curve/verifier", desc, mkVerifier)
				if sb && vb {
					ecdsaOracles(c, ecCombo{name: b.c, short: b.c, c: curve, hash: b.h}, b.e, d, qx, qy)
					oodOracle(rt, c, "subtle-ecdsa-hash-longer-than-curve")
				}
			default: // a name outside the supported sets: no reference exists
				refusedOrCounted(rt, "subtle-ecdsa-unknown-name/signer", desc, mkSigner)
				refusedOrCounted(rt, "subtle-ecdsa-unknown-name/verifier", desc, mkVerifier)
			}
		case "ecdsa-point":
			co := gen.Pick(rt, "combo", ecCombos)
			size := sigref.ScalarSize(co.c)
			d, _ := drawScalar(rt, co.c)
			scalar := d.FillBytes(make([]byte, size))
			qx, qy := co.c.ScalarBaseMult(scalar)
			point := cat([]byte{4}, qx.FillBytes(make([]byte, size)), qy.FillBytes(make([]byte, size)))
			params := tk.Must(ecdsa.NewParameters(co.ct, co.ht, ecdsa.DER, ecdsa.VariantTink))
			msg := gen.Bytes(rt, "msg", 64)
			// a DER signature of msg by the genuine key d: no verifier for another "key" may accept it
			genuine := func() []byte {
				k := &stdecdsa.PrivateKey{D: d}
				k.Curve, k.X, k.Y = co.c, qx, qy
				der, err := stdecdsa.SignASN1(rand.Reader, k, sigref.Digest(co.hash, msg))
				if err != nil {
					rt.Fatalf("harness: SignASN1: %v", err)
				}
				if !sigref.ECDSAVerify(co.c, qx, qy, co.hash, sigref.DER, msg, der) {
					rt.Fatalf("harness: reference rejects the standard library's signature")
				}
				return der
			}
			bad := bytes.Clone(point)
			how := gen.Pick(rt, "how", []string{"flip", "short", "long", "compressed-tag", "infinity", "x=p"})
			notQ := false // bad is certainly neither Q nor any point of the curve
			switch how {
			case "flip":
				bit := rapid.IntRange(8, 8*len(point)-1).Draw(rt, "bit")
				bad[bit/8] ^= 1 << uint(bit%8)
				x, y := new(big.Int).SetBytes(bad[1:1+size]), new(big.Int).SetBytes(bad[1+size:])
				if sigref.OnCurve(co.c, x, y) {
					return // still a point of the curve (only -Q could be): in domain
				}
				notQ = true
				var v tink.Verifier
				if refusedOrCounted(rt, "subtle.NewECDSAVerifier-off-curve", fmt.Sprintf("%s off-curve point %x", co.name, bad), func() error {
					var err error
					v, err = sigsubtle.NewECDSAVerifier(co.hash, co.name, "DER", bad[1:1+size], bad[1+size:])
					return err
				}) {
					if sig := genuine(); v.Verify(sig, msg) == nil {
						rt.Fatalf("subtle.NewECDSAVerifier(%s) built from the off-curve point %x accepts a signature of the key d=%x Q=%x\n sig=%x\n msg=%x", co.name, bad, scalar, point, sig, msg)
					}
				}
			case "short":
				bad = bad[:len(bad)-1]
			case "long":
				bad = append(bad, 0)
			case "compressed-tag":
				bad[0] = rapid.SampledFrom([]byte{0, 2, 3, 5, 6, 7}).Draw(rt, "tag")
			case "infinity":
				bad = []byte{0}
			case "x=p":
				copy(bad[1:], co.c.Params().P.FillBytes(make([]byte, size)))
				notQ = !sigref.OnCurve(co.c, new(big.Int), qy) // (p mod p, y) = (0, y)
			}
			desc = fmt.Sprintf("ecdsa.NewPublicKey %s %x (%s)", co.name, bad, how)
			var pub *ecdsa.PublicKey
			if refusedOrCounted(rt, "ecdsa.NewPublicKey-"+how, desc, func() error {
				var err error
				pub, err = ecdsa.NewPublicKey(bad, 1, params)
				return err
			}) && notQ {
				var v tink.Verifier
				if refusedOrCounted(rt, "ecdsa.NewVerifier-not-a-point", desc, func() error {
					var err error
					v, err = ecdsa.NewVerifier(pub, internalapi.Token{})
					return err
				}) {
					if sig := cat(tk.Prefix(tk.Tink, 1), genuine()); v.Verify(sig, msg) == nil {
						rt.Fatalf("%s was built and its verifier accepts a signature of the key d=%x Q=%x\n sig=%x\n msg=%x", desc, scalar, point, sig, msg)
					}
				}
			}
		case "ecdsa-scalar":
			co := gen.Pick(rt, "combo", ecCombos)
			size := sigref.ScalarSize(co.c)
			n := co.c.Params().N
			params := tk.Must(ecdsa.NewParameters(co.ct, co.ht, ecdsa.DER, ecdsa.VariantTink))
			var bad []byte
			how := gen.Pick(rt, "how", []string{"zero", "n", "above-n", "short", "long"})
			switch how {
			case "zero":
				bad = make([]byte, size)
			case "n":
				bad = n.FillBytes(make([]byte, size))
			case "above-n":
				room := new(big.Int).Sub(new(big.Int).Lsh(big.NewInt(1), uint(8*size)), n) // values n .. 2^(8 size)-1
				off := new(big.Int).SetBytes(gen.BytesN(rt, "off", size))
				off.Mod(off, room)
				bad = off.Add(off, n).FillBytes(make([]byte, size))
			case "short":
				bad = bytes.Repeat([]byte{1}, size-1)
			case "long":
				bad = append(make([]byte, 1), bytes.Repeat([]byte{1}, size)...)
			}
			desc = fmt.Sprintf("ecdsa.NewPrivateKey %s scalar %x", co.name, bad)
			refusedOrCounted(rt, "ecdsa.NewPrivateKey-scalar-"+how, desc, func() error { _, err := ecdsa.NewPrivateKey(tk.Secret(bad), 1, params); return err })
		case "ecdsa-noprefix-id":
			co := gen.Pick(rt, "combo", ecCombos)
			size := sigref.ScalarSize(co.c)
			params := tk.Must(ecdsa.NewParameters(co.ct, co.ht, ecdsa.DER, ecdsa.VariantNoPrefix))
			id := uint32(rapid.Uint32Range(1, 0xffffffff).Draw(rt, "id"))
			desc = fmt.Sprintf("NO_PREFIX keys with id %d", id)
			refusedOrCounted(rt, "noprefix-id/ecdsa", desc, func() error {
				_, err := ecdsa.NewPrivateKey(tk.Secret(big.NewInt(7).FillBytes(make([]byte, size))), id, params)
				return err
			})
			refusedOrCounted(rt, "noprefix-id/ed25519", desc, func() error {
				_, err := ed25519.NewPrivateKey(tk.Secret(make([]byte, 32)), id, tk.Must(ed25519.NewParameters(ed25519.VariantNoPrefix)))
				return err
			})
			refusedOrCounted(rt, "noprefix-id/rsassapkcs1", desc, func() error {
				_, err := rsassapkcs1.NewPublicKey(pool[0].std.N.Bytes(), id, tk.Must(rsassapkcs1.NewParameters(2048, rsassapkcs1.SHA256, 65537, rsassapkcs1.VariantNoPrefix)))
				return err
			})
			refusedOrCounted(rt, "noprefix-id/rsassapss", desc, func() error {
				p := tk.Must(rsassapss.NewParameters(rsassapss.ParametersValues{ModulusSizeBits: 2048, SigHashType: rsassapss.SHA256, MGF1HashType: rsassapss.SHA256, PublicExponent: 65537, SaltLengthBytes: 32}, rsassapss.VariantNoPrefix))
				_, err := rsassapss.NewPublicKey(pool[0].std.N.Bytes(), id, p)
				return err
			})
		case "ed25519-lengths":
			n := rapid.IntRange(0, 80).Draw(rt, "len")
			if n == 32 {
				n = 64
			}
			b := gen.BytesN(rt, "bytes", n)
			params := tk.Must(ed25519.NewParameters(ed25519.VariantTink))
			desc = fmt.Sprintf("Ed25519 key material of %d bytes", n)
			refusedOrCounted(rt, "ed25519-length/subtle.NewED25519Signer", desc, func() error { _, err := sigsubtle.NewED25519Signer(b); return err })
			refusedOrCounted(rt, "ed25519-length/NewPrivateKey", desc, func() error { _, err := ed25519.NewPrivateKey(tk.Secret(b), 1, params); return err })
			refusedOrCounted(rt, "ed25519-length/NewPublicKey", desc, func() error { _, err := ed25519.NewPublicKey(b, 1, params); return err })
		case "ed25519-params":
			desc = "ed25519.NewParameters(VariantUnknown)"
			refusedOrCounted(rt, "ed25519.NewParameters-unknown-variant", desc, func() error { _, err := ed25519.NewParameters(ed25519.VariantUnknown); return err })
		case "rsa-params-modulus":
			// C14: no Verifier may come out of a modulus under 2048 bits, whichever constructor stops it
			bits := rapid.IntRange(-8, 2047).Draw(rt, "bits")
			nbits := bits
			if nbits < 16 {
				nbits = 16
			}
			nb := gen.BytesN(rt, "n", (nbits+7)/8)
			n := new(big.Int).SetBytes(nb)
			n.Rsh(n, uint(8*len(nb)-nbits))
			n.SetBit(n, nbits-1, 1)
			n.SetBit(n, 0, 1)
			desc = fmt.Sprintf("RSA NewParameters modulus %d bits, then NewPublicKey(%x), NewVerifier", bits, n)
			refused(rt, "rsassapkcs1 "+desc+c14, func() error {
				p, err := rsassapkcs1.NewParameters(bits, rsassapkcs1.SHA256, 65537, rsassapkcs1.VariantTink)
				if err != nil {
					return err
				}
				pub, err := rsassapkcs1.NewPublicKey(n.Bytes(), 1, p)
				if err != nil {
					return err
				}
				_, err = rsassapkcs1.NewVerifier(pub, internalapi.Token{})
				return err
			})
			refused(rt, "rsassapss "+desc+c14, func() error {
				p, err := rsassapss.NewParameters(rsassapss.ParametersValues{ModulusSizeBits: bits, SigHashType: rsassapss.SHA256, MGF1HashType: rsassapss.SHA256, PublicExponent: 65537, SaltLengthBytes: 32}, rsassapss.VariantTink)
				if err != nil {
					return err
				}
				pub, err := rsassapss.NewPublicKey(n.Bytes(), 1, p)
				if err != nil {
					return err
				}
				_, err = rsassapss.NewVerifier(pub, internalapi.Token{})
				return err
			})
		case "rsa-params-exponent", "rsa-key-exponent":
			// C14: no Verifier may come out of an exponent other than 65537, whichever constructor stops it
			// (NewParameters refuses e < 65537, even e and e > 2^31-1; the primitives insist on 65537)
			var e int
			switch gen.Uniform(rt, "how", 4) {
			case 0:
				e = rapid.IntRange(-3, 65536).Draw(rt, "e")
			case 1:
				e = 2 * rapid.IntRange(32769, 1<<30-1).Draw(rt, "half") // even
			case 2:
				e = (1 << 31) + 2*rapid.IntRange(0, 1<<20).Draw(rt, "over") + 1 // odd, above 2^31-1
			default:
				e = 65537 + 2*rapid.IntRange(1, 1<<29).Draw(rt, "odd") // what NewParameters admits
			}
			desc = fmt.Sprintf("RSA NewParameters public exponent %d, then NewPublicKey, NewVerifier", e)
			refused(rt, "rsassapkcs1 "+desc+c14, func() error {
				p, err := rsassapkcs1.NewParameters(2048, rsassapkcs1.SHA256, e, rsassapkcs1.VariantTink)
				if err != nil {
					return err
				}
				pub, err := rsassapkcs1.NewPublicKey(pool[0].std.N.Bytes(), 1, p)
				if err != nil {
					return err
				}
				_, err = rsassapkcs1.NewVerifier(pub, internalapi.Token{})
				return err
			})
			refused(rt, "rsassapss "+desc+c14, func() error {
				p, err := rsassapss.NewParameters(rsassapss.ParametersValues{ModulusSizeBits: 2048, SigHashType: rsassapss.SHA256, MGF1HashType: rsassapss.SHA256, PublicExponent: e, SaltLengthBytes: 32}, rsassapss.VariantTink)
				if err != nil {
					return err
				}
				pub, err := rsassapss.NewPublicKey(pool[0].std.N.Bytes(), 1, p)
				if err != nil {
					return err
				}
				_, err = rsassapss.NewVerifier(pub, internalapi.Token{})
				return err
			})
		case "rsa-params-enum":
			badHash := rapid.SampledFrom([]int{0, int(rsassapkcs1.SHA512) + 1, 99}).Draw(rt, "hash")
			desc = fmt.Sprintf("RSA NewParameters hash enum %d / unknown variant", badHash)
			refusedOrCounted(rt, "rsa-params-enum/rsassapkcs1-hash", desc, func() error {
				_, err := rsassapkcs1.NewParameters(2048, rsassapkcs1.HashType(badHash), 65537, rsassapkcs1.VariantTink)
				return err
			})
			refusedOrCounted(rt, "rsa-params-enum/rsassapss-hash", desc, func() error {
				_, err := rsassapss.NewParameters(rsassapss.ParametersValues{ModulusSizeBits: 2048, SigHashType: rsassapss.HashType(badHash), MGF1HashType: rsassapss.HashType(badHash), PublicExponent: 65537, SaltLengthBytes: 32}, rsassapss.VariantTink)
				return err
			})
			refusedOrCounted(rt, "rsa-params-enum/rsassapkcs1-variant", desc, func() error {
				_, err := rsassapkcs1.NewParameters(2048, rsassapkcs1.SHA256, 65537, rsassapkcs1.VariantUnknown)
				return err
			})
			refusedOrCounted(rt, "rsa-params-enum/rsassapss-variant", desc, func() error {
				_, err := rsassapss.NewParameters(rsassapss.ParametersValues{ModulusSizeBits: 2048, SigHashType: rsassapss.SHA256, MGF1HashType: rsassapss.SHA256, PublicExponent: 65537, SaltLengthBytes: 32}, rsassapss.VariantUnknown)
				return err
			})
		case "pss-params-salt-mgf":
			salt := rapid.IntRange(-1000, -1).Draw(rt, "salt")
			desc = fmt.Sprintf("PSS salt %d / MGF1 hash != signature hash", salt)
			refusedOrCounted(rt, "pss-negative-salt/NewParameters", desc, func() error {
				_, err := rsassapss.NewParameters(rsassapss.ParametersValues{ModulusSizeBits: 2048, SigHashType: rsassapss.SHA256, MGF1HashType: rsassapss.SHA256, PublicExponent: 65537, SaltLengthBytes: salt}, rsassapss.VariantTink)
				return err
			})
			refusedOrCounted(rt, "pss-negative-salt/New_RSA_SSA_PSS_Signer", desc, func() error { _, err := isig.New_RSA_SSA_PSS_Signer("SHA256", salt, pool[0].std); return err })
			refusedOrCounted(rt, "pss-negative-salt/New_RSA_SSA_PSS_Verifier", desc, func() error {
				_, err := isig.New_RSA_SSA_PSS_Verifier("SHA256", salt, &pool[0].std.PublicKey)
				return err
			})
			hs := []rsassapss.HashType{rsassapss.SHA256, rsassapss.SHA384, rsassapss.SHA512}
			i := rapid.IntRange(0, 2).Draw(rt, "sig")
			j := (i + rapid.IntRange(1, 2).Draw(rt, "mgf")) % 3
			refusedOrCounted(rt, "pss-mgf1-hash-differs/NewParameters", desc, func() error {
				_, err := rsassapss.NewParameters(rsassapss.ParametersValues{ModulusSizeBits: 2048, SigHashType: hs[i], MGF1HashType: hs[j], PublicExponent: 65537, SaltLengthBytes: 32}, rsassapss.VariantTink)
				return err
			})
		case "rsa-modulus-mismatch":
			pk := pool[gen.Uniform(rt, "pool", len(pool))]
			bits := rapid.IntRange(2048, 4200).Draw(rt, "bits")
			if bits == pk.bits {
				bits++
			}
			desc = fmt.Sprintf("NewPublicKey: %d-bit modulus for %d-bit parameters", pk.bits, bits)
			refusedOrCounted(rt, "rsa-modulus-size-differs/rsassapkcs1", desc, func() error {
				_, err := rsassapkcs1.NewPublicKey(pk.std.N.Bytes(), 1, tk.Must(rsassapkcs1.NewParameters(bits, rsassapkcs1.SHA256, 65537, rsassapkcs1.VariantTink)))
				return err
			})
			refusedOrCounted(rt, "rsa-modulus-size-differs/rsassapss", desc, func() error {
				p := tk.Must(rsassapss.NewParameters(rsassapss.ParametersValues{ModulusSizeBits: bits, SigHashType: rsassapss.SHA256, MGF1HashType: rsassapss.SHA256, PublicExponent: 65537, SaltLengthBytes: 32}, rsassapss.VariantTink))
				_, err := rsassapss.NewPublicKey(pk.std.N.Bytes(), 1, p)
				return err
			})
		case "rsa-internal-modulus":
			bits := rapid.IntRange(16, 2047).Draw(rt, "bits")
			nb := gen.BytesN(rt, "n", (bits+7)/8)
			n := new(big.Int).SetBytes(nb)
			n.Rsh(n, uint(8*len(nb)-bits))
			n.SetBit(n, bits-1, 1)
			n.SetBit(n, 0, 1)
			pub := &stdrsa.PublicKey{N: n, E: 65537}
			desc = fmt.Sprintf("internal RSA verifiers with a %d-bit modulus %x", n.BitLen(), n)
			refused(rt, "PKCS1 "+desc+c14, func() error { _, err := isig.New_RSA_SSA_PKCS1_Verifier("SHA256", pub); return err })
			refused(rt, "PSS "+desc+c14, func() error { _, err := isig.New_RSA_SSA_PSS_Verifier("SHA256", 32, pub); return err })
			refusedOrCounted(rt, "ValidateRSAPublicKeyParams-small-modulus", desc, func() error { return isig.ValidateRSAPublicKeyParams("SHA256", n.BitLen(), []byte{1, 0, 1}) })
		case "rsa-internal-exponent":
			e := rapid.IntRange(1, 1<<31-1).Draw(rt, "e")
			if rapid.Bool().Draw(rt, "near") {
				e = rapid.SampledFrom([]int{3, 17, 65535, 65536, 65538, 65539, 1<<31 - 1}).Draw(rt, "enear")
			}
			if e == 65537 {
				e = 65539
			}
			pub := &stdrsa.PublicKey{N: pool[0].std.N, E: e}
			priv := &stdrsa.PrivateKey{PublicKey: *pub, D: pool[0].std.D, Primes: pool[0].std.Primes}
			desc = fmt.Sprintf("internal RSA primitives with e = %d", e)
			refused(rt, "PKCS1 verifier "+desc+c14, func() error { _, err := isig.New_RSA_SSA_PKCS1_Verifier("SHA256", pub); return err })
			refused(rt, "PSS verifier "+desc+c14, func() error { _, err := isig.New_RSA_SSA_PSS_Verifier("SHA256", 32, pub); return err })
			refused(rt, "PKCS1 signer "+desc+c14, func() error { _, err := isig.New_RSA_SSA_PKCS1_Signer("SHA256", priv); return err })
			refused(rt, "PSS signer "+desc+c14, func() error { _, err := isig.New_RSA_SSA_PSS_Signer("SHA256", 32, priv); return err })
			refusedOrCounted(rt, "RSAValidPublicExponent", desc, func() error { return isig.RSAValidPublicExponent(e) })
		case "rsa-internal-hash":
			// SHA-1 / SHA-224 with RSA are not among C14's minimum strengths: a refusal is counted; a built
			// pair runs the equivalence oracle (the reference implements both hashes); other names have no reference
			hn := gen.Pick(rt, "hash", []string{"SHA1", "SHA224", "MD5", "", "sha256", "SHA-256", "SHA3_256"})
			pk := pool[0]
			desc = fmt.Sprintf("internal RSA primitives with hash %q, %s", hn, pk.desc())
			hasRef := hn == "SHA1" || hn == "SHA224"
			c1 := &sigCase{scheme: "RSAPKCS1", params: "2048-" + hn, variant: tk.NoPrefix, route: "subtle(out-of-domain)", keyDesc: pk.desc(), prefix: tk.Prefix(tk.NoPrefix, 0)}
			vb := refusedOrCounted(rt, "rsa-hash-name/pkcs1-verifier/"+hn, desc, func() error {
				v, err := isig.New_RSA_SSA_PKCS1_Verifier(hn, &pk.std.PublicKey)
				c1.verifier = v
				return err
			})
			sb := refusedOrCounted(rt, "rsa-hash-name/pkcs1-signer/"+hn, desc, func() error {
				s, err := isig.New_RSA_SSA_PKCS1_Signer(hn, pk.std)
				c1.signer = s
				return err
			})
			if vb && sb && hasRef {
				c1.ref = func(raw, effMsg []byte) bool { return sigref.VerifyPKCS1(pk.pub, hn, effMsg, raw) }
				oodOracle(rt, c1, "rsa-hash-name/pkcs1/"+hn)
			}
			c2 := &sigCase{scheme: "RSAPSS", params: "2048-" + hn + "-salt20", variant: tk.NoPrefix, route: "subtle(out-of-domain)", keyDesc: pk.desc(), prefix: tk.Prefix(tk.NoPrefix, 0)}
			vb = refusedOrCounted(rt, "rsa-hash-name/pss-verifier/"+hn, desc, func() error {
				v, err := isig.New_RSA_SSA_PSS_Verifier(hn, 20, &pk.std.PublicKey)
				c2.verifier = v
				return err
			})
			sb = refusedOrCounted(rt, "rsa-hash-name/pss-signer/"+hn, desc, func() error {
				s, err := isig.New_RSA_SSA_PSS_Signer(hn, 20, pk.std)
				c2.signer = s
				return err
			})
			if vb && sb && hasRef {
				c2.ref = func(raw, effMsg []byte) bool { return sigref.VerifyPSS(pk.pub, hn, 20, effMsg, raw) }
				oodOracle(rt, c2, "rsa-hash-name/pss/"+hn)
			}
			refusedOrCounted(rt, "HashSafeForSignature/"+hn, desc, func() error { return isig.HashSafeForSignature(hn) })
		}
		evid.Add("ood_kind/"+kind, 1)
		evid.Case("outofdomain/"+kind, true, evid.NewH().S(kind).S(desc).Sum(), func() any { return desc })
	})
}
