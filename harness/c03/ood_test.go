package c03

import (
	"bytes"
	stdrsa "crypto/rsa"
	"fmt"
	"math/big"
	"testing"

	"pgregory.net/rapid"

	"github.com/tink-crypto/tink-go/v2/internal/internalapi"
	isig "github.com/tink-crypto/tink-go/v2/internal/signature"
	"github.com/tink-crypto/tink-go/v2/signature/ecdsa"
	"github.com/tink-crypto/tink-go/v2/signature/ed25519"
	"github.com/tink-crypto/tink-go/v2/signature/rsassapkcs1"
	"github.com/tink-crypto/tink-go/v2/signature/rsassapss"
	sigsubtle "github.com/tink-crypto/tink-go/v2/signature/subtle"
	"github.com/tink-crypto/tink-go/v2/verifharness/internal/evid"
	"github.com/tink-crypto/tink-go/v2/verifharness/internal/gen"
	"github.com/tink-crypto/tink-go/v2/verifharness/internal/ref/sigref"
	"github.com/tink-crypto/tink-go/v2/verifharness/internal/tk"
)

// refused runs a constructor on out-of-domain input: it must return an error and must not panic.
func refused(t *rapid.T, desc string, f func() error) {
	var err error
	func() {
		defer func() {
			if p := recover(); p != nil {
				t.Fatalf("out-of-domain input made the constructor panic: %s: %v", desc, p)
			}
		}()
		err = f()
	}()
	if err == nil {
		t.Fatalf("out-of-domain input accepted: %s", desc)
	}
}

// TestSigOutOfDomain: what the constructors document as refused is refused with an error.
func TestSigOutOfDomain(t *testing.T) {
	ensurePool(t)
	kinds := []string{
		"ecdsa-params-hash-curve", "ecdsa-params-enum", "ecdsa-subtle-params", "ecdsa-point", "ecdsa-scalar", "ecdsa-noprefix-id",
		"ed25519-lengths", "ed25519-params",
		"rsa-params-modulus", "rsa-params-exponent", "rsa-params-enum", "pss-params-salt-mgf", "rsa-modulus-mismatch",
		"rsa-internal-modulus", "rsa-internal-exponent", "rsa-internal-hash", "rsa-key-exponent",
	}
	rapid.Check(t, func(rt *rapid.T) {
		kind := rapid.SampledFrom(kinds).Draw(rt, "kind")
		var desc string
		switch kind {
		case "ecdsa-params-hash-curve":
			bad := []struct {
				c ecdsa.CurveType
				h ecdsa.HashType
			}{{ecdsa.NistP256, ecdsa.SHA384}, {ecdsa.NistP256, ecdsa.SHA512}, {ecdsa.NistP384, ecdsa.SHA256}, {ecdsa.NistP521, ecdsa.SHA256}, {ecdsa.NistP521, ecdsa.SHA384}}
			b := rapid.SampledFrom(bad).Draw(rt, "pair")
			enc := rapid.SampledFrom([]ecdsa.SignatureEncoding{ecdsa.DER, ecdsa.IEEEP1363}).Draw(rt, "enc")
			v := ecdsaVariant(rapid.SampledFrom(variants).Draw(rt, "variant"))
			desc = fmt.Sprintf("ecdsa.NewParameters(%v, %v, %v, %v)", b.c, b.h, enc, v)
			refused(rt, desc, func() error { _, err := ecdsa.NewParameters(b.c, b.h, enc, v); return err })
		case "ecdsa-params-enum":
			which := rapid.IntRange(0, 3).Draw(rt, "which")
			outside := func(label string, hi int) int { // 0 (unknown) or beyond the last enumerator
				if rapid.Bool().Draw(rt, label+"_zero") {
					return 0
				}
				return rapid.IntRange(hi+1, hi+100).Draw(rt, label)
			}
			c, h, e, v := ecdsa.NistP256, ecdsa.SHA256, ecdsa.DER, ecdsa.VariantTink
			switch which {
			case 0:
				c = ecdsa.CurveType(outside("curve", int(ecdsa.NistP521)))
			case 1:
				h = ecdsa.HashType(outside("hash", int(ecdsa.SHA512)))
			case 2:
				e = ecdsa.SignatureEncoding(outside("enc", int(ecdsa.IEEEP1363)))
			case 3:
				v = ecdsa.Variant(outside("variant", int(ecdsa.VariantNoPrefix)))
			}
			desc = fmt.Sprintf("ecdsa.NewParameters(%d, %d, %d, %d)", c, h, e, v)
			refused(rt, desc, func() error { _, err := ecdsa.NewParameters(c, h, e, v); return err })
		case "ecdsa-subtle-params":
			bad := []struct{ h, c, e string }{
				{"SHA1", "NIST_P256", "DER"}, {"SHA224", "NIST_P256", "DER"}, {"SHA384", "NIST_P256", "DER"}, {"SHA512", "NIST_P256", "IEEE_P1363"},
				{"SHA256", "NIST_P384", "DER"}, {"SHA1", "NIST_P384", "IEEE_P1363"}, {"SHA256", "NIST_P521", "DER"}, {"SHA384", "NIST_P521", "DER"},
				{"SHA256", "NIST_P256", "BER"}, {"SHA256", "NIST_P256", ""}, {"SHA256", "NIST_P224", "DER"}, {"SHA256", "", "DER"}, {"", "NIST_P256", "DER"},
			}
			b := rapid.SampledFrom(bad).Draw(rt, "triple")
			desc = fmt.Sprintf("subtle ECDSA (%q, %q, %q)", b.h, b.c, b.e)
			refused(rt, "ValidateECDSAParams "+desc, func() error { return sigsubtle.ValidateECDSAParams(b.h, b.c, b.e) })
			co := ecCombos[0]
			for _, x := range ecCombos {
				if x.name == b.c {
					co = x
				}
			}
			size := sigref.ScalarSize(co.c)
			scalar := big.NewInt(7).FillBytes(make([]byte, size))
			qx, qy := co.c.ScalarBaseMult(scalar)
			refused(rt, "NewECDSASigner "+desc, func() error { _, err := sigsubtle.NewECDSASigner(b.h, b.c, b.e, scalar); return err })
			refused(rt, "NewECDSAVerifier "+desc, func() error {
				_, err := sigsubtle.NewECDSAVerifier(b.h, b.c, b.e, qx.Bytes(), qy.Bytes())
				return err
			})
		case "ecdsa-point":
			co := rapid.SampledFrom(ecCombos).Draw(rt, "combo")
			size := sigref.ScalarSize(co.c)
			d, _ := drawScalar(rt, co.c)
			qx, qy := co.c.ScalarBaseMult(d.FillBytes(make([]byte, size)))
			point := cat([]byte{4}, qx.FillBytes(make([]byte, size)), qy.FillBytes(make([]byte, size)))
			params := tk.Must(ecdsa.NewParameters(co.ct, co.ht, ecdsa.DER, ecdsa.VariantTink))
			bad := bytes.Clone(point)
			switch how := rapid.SampledFrom([]string{"flip", "short", "long", "compressed-tag", "infinity", "x=p"}).Draw(rt, "how"); how {
			case "flip":
				bit := rapid.IntRange(8, 8*len(point)-1).Draw(rt, "bit")
				bad[bit/8] ^= 1 << uint(bit%8)
				x, y := new(big.Int).SetBytes(bad[1:1+size]), new(big.Int).SetBytes(bad[1+size:])
				if sigref.OnCurve(co.c, x, y) {
					return // still a point of the curve (only -Q could be): in domain
				}
				refused(rt, fmt.Sprintf("subtle.NewECDSAVerifier %s off-curve point %x", co.name, bad), func() error {
					_, err := sigsubtle.NewECDSAVerifier(co.hash, co.name, "DER", bad[1:1+size], bad[1+size:])
					return err
				})
			case "short":
				bad = bad[:len(bad)-1]
			case "long":
				bad = append(bad, 0)
			case "compressed-tag":
				bad[0] = rapid.SampledFrom([]byte{0, 2, 3, 5, 6, 7}).Draw(rt, "tag")
			case "infinity":
				bad = []byte{0}
			case "x=p":
				copy(bad[1:], co.c.Params().P.FillBytes(make([]byte, size)))
			}
			desc = fmt.Sprintf("ecdsa.NewPublicKey %s %x", co.name, bad)
			refused(rt, desc, func() error { _, err := ecdsa.NewPublicKey(bad, 1, params); return err })
		case "ecdsa-scalar":
			co := rapid.SampledFrom(ecCombos).Draw(rt, "combo")
			size := sigref.ScalarSize(co.c)
			n := co.c.Params().N
			params := tk.Must(ecdsa.NewParameters(co.ct, co.ht, ecdsa.DER, ecdsa.VariantTink))
			var bad []byte
			switch rapid.SampledFrom([]string{"zero", "n", "above-n", "short", "long"}).Draw(rt, "how") {
			case "zero":
				bad = make([]byte, size)
			case "n":
				bad = n.FillBytes(make([]byte, size))
			case "above-n":
				room := new(big.Int).Sub(new(big.Int).Lsh(big.NewInt(1), uint(8*size)), n) // values n .. 2^(8 size)-1
				off := new(big.Int).SetBytes(gen.BytesN(rt, "off", size))
				off.Mod(off, room)
				bad = off.Add(off, n).FillBytes(make([]byte, size))
			case "short":
				bad = bytes.Repeat([]byte{1}, size-1)
			case "long":
				bad = append(make([]byte, 1), bytes.Repeat([]byte{1}, size)...)
			}
			desc = fmt.Sprintf("ecdsa.NewPrivateKey %s scalar %x", co.name, bad)
			refused(rt, desc, func() error { _, err := ecdsa.NewPrivateKey(tk.Secret(bad), 1, params); return err })
		case "ecdsa-noprefix-id":
			co := rapid.SampledFrom(ecCombos).Draw(rt, "combo")
			size := sigref.ScalarSize(co.c)
			params := tk.Must(ecdsa.NewParameters(co.ct, co.ht, ecdsa.DER, ecdsa.VariantNoPrefix))
			id := uint32(rapid.Uint32Range(1, 0xffffffff).Draw(rt, "id"))
			desc = fmt.Sprintf("NO_PREFIX keys with id %d", id)
			refused(rt, "ecdsa "+desc, func() error {
				_, err := ecdsa.NewPrivateKey(tk.Secret(big.NewInt(7).FillBytes(make([]byte, size))), id, params)
				return err
			})
			refused(rt, "ed25519 "+desc, func() error {
				_, err := ed25519.NewPrivateKey(tk.Secret(make([]byte, 32)), id, tk.Must(ed25519.NewParameters(ed25519.VariantNoPrefix)))
				return err
			})
			refused(rt, "rsassapkcs1 "+desc, func() error {
				_, err := rsassapkcs1.NewPublicKey(pool[0].std.N.Bytes(), id, tk.Must(rsassapkcs1.NewParameters(2048, rsassapkcs1.SHA256, 65537, rsassapkcs1.VariantNoPrefix)))
				return err
			})
			refused(rt, "rsassapss "+desc, func() error {
				p := tk.Must(rsassapss.NewParameters(rsassapss.ParametersValues{ModulusSizeBits: 2048, SigHashType: rsassapss.SHA256, MGF1HashType: rsassapss.SHA256, PublicExponent: 65537, SaltLengthBytes: 32}, rsassapss.VariantNoPrefix))
				_, err := rsassapss.NewPublicKey(pool[0].std.N.Bytes(), id, p)
				return err
			})
		case "ed25519-lengths":
			n := rapid.IntRange(0, 80).Draw(rt, "len")
			if n == 32 {
				n = 64
			}
			b := gen.BytesN(rt, "bytes", n)
			params := tk.Must(ed25519.NewParameters(ed25519.VariantTink))
			desc = fmt.Sprintf("Ed25519 key material of %d bytes", n)
			refused(rt, "subtle.NewED25519Signer "+desc, func() error { _, err := sigsubtle.NewED25519Signer(b); return err })
			refused(rt, "ed25519.NewPrivateKey "+desc, func() error { _, err := ed25519.NewPrivateKey(tk.Secret(b), 1, params); return err })
			refused(rt, "ed25519.NewPublicKey "+desc, func() error { _, err := ed25519.NewPublicKey(b, 1, params); return err })
		case "ed25519-params":
			desc = "ed25519.NewParameters(VariantUnknown)"
			refused(rt, desc, func() error { _, err := ed25519.NewParameters(ed25519.VariantUnknown); return err })
		case "rsa-params-modulus":
			bits := rapid.IntRange(-8, 2047).Draw(rt, "bits")
			desc = fmt.Sprintf("RSA NewParameters modulus %d bits", bits)
			refused(rt, "rsassapkcs1 "+desc, func() error {
				_, err := rsassapkcs1.NewParameters(bits, rsassapkcs1.SHA256, 65537, rsassapkcs1.VariantTink)
				return err
			})
			refused(rt, "rsassapss "+desc, func() error {
				_, err := rsassapss.NewParameters(rsassapss.ParametersValues{ModulusSizeBits: bits, SigHashType: rsassapss.SHA256, MGF1HashType: rsassapss.SHA256, PublicExponent: 65537, SaltLengthBytes: 32}, rsassapss.VariantTink)
				return err
			})
		case "rsa-params-exponent":
			var e int
			switch rapid.IntRange(0, 2).Draw(rt, "how") {
			case 0:
				e = rapid.IntRange(-3, 65536).Draw(rt, "e")
			case 1:
				e = 2 * rapid.IntRange(32769, 1<<30-1).Draw(rt, "half") // even
			default:
				e = (1 << 31) + 2*rapid.IntRange(0, 1<<20).Draw(rt, "over") + 1 // odd, above 2^31-1
			}
			desc = fmt.Sprintf("RSA NewParameters public exponent %d", e)
			refused(rt, "rsassapkcs1 "+desc, func() error {
				_, err := rsassapkcs1.NewParameters(2048, rsassapkcs1.SHA256, e, rsassapkcs1.VariantTink)
				return err
			})
			refused(rt, "rsassapss "+desc, func() error {
				_, err := rsassapss.NewParameters(rsassapss.ParametersValues{ModulusSizeBits: 2048, SigHashType: rsassapss.SHA256, MGF1HashType: rsassapss.SHA256, PublicExponent: e, SaltLengthBytes: 32}, rsassapss.VariantTink)
				return err
			})
		case "rsa-params-enum":
			badHash := rapid.SampledFrom([]int{0, int(rsassapkcs1.SHA512) + 1, 99}).Draw(rt, "hash")
			desc = fmt.Sprintf("RSA NewParameters hash enum %d / unknown variant", badHash)
			refused(rt, "rsassapkcs1 hash "+desc, func() error {
				_, err := rsassapkcs1.NewParameters(2048, rsassapkcs1.HashType(badHash), 65537, rsassapkcs1.VariantTink)
				return err
			})
			refused(rt, "rsassapss hash "+desc, func() error {
				_, err := rsassapss.NewParameters(rsassapss.ParametersValues{ModulusSizeBits: 2048, SigHashType: rsassapss.HashType(badHash), MGF1HashType: rsassapss.HashType(badHash), PublicExponent: 65537, SaltLengthBytes: 32}, rsassapss.VariantTink)
				return err
			})
			refused(rt, "rsassapkcs1 variant "+desc, func() error {
				_, err := rsassapkcs1.NewParameters(2048, rsassapkcs1.SHA256, 65537, rsassapkcs1.VariantUnknown)
				return err
			})
			refused(rt, "rsassapss variant "+desc, func() error {
				_, err := rsassapss.NewParameters(rsassapss.ParametersValues{ModulusSizeBits: 2048, SigHashType: rsassapss.SHA256, MGF1HashType: rsassapss.SHA256, PublicExponent: 65537, SaltLengthBytes: 32}, rsassapss.VariantUnknown)
				return err
			})
		case "pss-params-salt-mgf":
			salt := rapid.IntRange(-1000, -1).Draw(rt, "salt")
			desc = fmt.Sprintf("PSS salt %d / MGF1 hash != signature hash", salt)
			refused(rt, "rsassapss.NewParameters "+desc, func() error {
				_, err := rsassapss.NewParameters(rsassapss.ParametersValues{ModulusSizeBits: 2048, SigHashType: rsassapss.SHA256, MGF1HashType: rsassapss.SHA256, PublicExponent: 65537, SaltLengthBytes: salt}, rsassapss.VariantTink)
				return err
			})
			refused(rt, "New_RSA_SSA_PSS_Signer "+desc, func() error { _, err := isig.New_RSA_SSA_PSS_Signer("SHA256", salt, pool[0].std); return err })
			refused(rt, "New_RSA_SSA_PSS_Verifier "+desc, func() error {
				_, err := isig.New_RSA_SSA_PSS_Verifier("SHA256", salt, &pool[0].std.PublicKey)
				return err
			})
			hs := []rsassapss.HashType{rsassapss.SHA256, rsassapss.SHA384, rsassapss.SHA512}
			i := rapid.IntRange(0, 2).Draw(rt, "sig")
			j := (i + rapid.IntRange(1, 2).Draw(rt, "mgf")) % 3
			refused(rt, "rsassapss.NewParameters mismatched MGF1 "+desc, func() error {
				_, err := rsassapss.NewParameters(rsassapss.ParametersValues{ModulusSizeBits: 2048, SigHashType: hs[i], MGF1HashType: hs[j], PublicExponent: 65537, SaltLengthBytes: 32}, rsassapss.VariantTink)
				return err
			})
		case "rsa-modulus-mismatch":
			pk := pool[rapid.IntRange(0, len(pool)-1).Draw(rt, "pool")]
			bits := rapid.IntRange(2048, 4200).Draw(rt, "bits")
			if bits == pk.bits {
				bits++
			}
			desc = fmt.Sprintf("NewPublicKey: %d-bit modulus for %d-bit parameters", pk.bits, bits)
			refused(rt, "rsassapkcs1 "+desc, func() error {
				_, err := rsassapkcs1.NewPublicKey(pk.std.N.Bytes(), 1, tk.Must(rsassapkcs1.NewParameters(bits, rsassapkcs1.SHA256, 65537, rsassapkcs1.VariantTink)))
				return err
			})
			refused(rt, "rsassapss "+desc, func() error {
				p := tk.Must(rsassapss.NewParameters(rsassapss.ParametersValues{ModulusSizeBits: bits, SigHashType: rsassapss.SHA256, MGF1HashType: rsassapss.SHA256, PublicExponent: 65537, SaltLengthBytes: 32}, rsassapss.VariantTink))
				_, err := rsassapss.NewPublicKey(pk.std.N.Bytes(), 1, p)
				return err
			})
		case "rsa-internal-modulus":
			bits := rapid.IntRange(16, 2047).Draw(rt, "bits")
			nb := gen.BytesN(rt, "n", (bits+7)/8)
			n := new(big.Int).SetBytes(nb)
			n.Rsh(n, uint(8*len(nb)-bits))
			n.SetBit(n, bits-1, 1)
			n.SetBit(n, 0, 1)
			pub := &stdrsa.PublicKey{N: n, E: 65537}
			desc = fmt.Sprintf("internal RSA verifiers with a %d-bit modulus %x", n.BitLen(), n)
			refused(rt, "PKCS1 "+desc, func() error { _, err := isig.New_RSA_SSA_PKCS1_Verifier("SHA256", pub); return err })
			refused(rt, "PSS "+desc, func() error { _, err := isig.New_RSA_SSA_PSS_Verifier("SHA256", 32, pub); return err })
			refused(rt, "ValidateRSAPublicKeyParams "+desc, func() error { return isig.ValidateRSAPublicKeyParams("SHA256", n.BitLen(), []byte{1, 0, 1}) })
		case "rsa-internal-exponent":
			e := rapid.IntRange(1, 1<<31-1).Draw(rt, "e")
			if rapid.Bool().Draw(rt, "near") {
				e = rapid.SampledFrom([]int{3, 17, 65535, 65536, 65538, 65539, 1<<31 - 1}).Draw(rt, "enear")
			}
			if e == 65537 {
				e = 65539
			}
			pub := &stdrsa.PublicKey{N: pool[0].std.N, E: e}
			priv := &stdrsa.PrivateKey{PublicKey: *pub, D: pool[0].std.D, Primes: pool[0].std.Primes}
			desc = fmt.Sprintf("internal RSA primitives with e = %d", e)
			refused(rt, "PKCS1 verifier "+desc, func() error { _, err := isig.New_RSA_SSA_PKCS1_Verifier("SHA256", pub); return err })
			refused(rt, "PSS verifier "+desc, func() error { _, err := isig.New_RSA_SSA_PSS_Verifier("SHA256", 32, pub); return err })
			refused(rt, "PKCS1 signer "+desc, func() error { _, err := isig.New_RSA_SSA_PKCS1_Signer("SHA256", priv); return err })
			refused(rt, "PSS signer "+desc, func() error { _, err := isig.New_RSA_SSA_PSS_Signer("SHA256", 32, priv); return err })
			refused(rt, "RSAValidPublicExponent "+desc, func() error { return isig.RSAValidPublicExponent(e) })
		case "rsa-internal-hash":
			hn := rapid.SampledFrom([]string{"SHA1", "SHA224", "MD5", "", "sha256", "SHA-256", "SHA3_256"}).Draw(rt, "hash")
			desc = fmt.Sprintf("internal RSA primitives with hash %q", hn)
			refused(rt, "PKCS1 verifier "+desc, func() error { _, err := isig.New_RSA_SSA_PKCS1_Verifier(hn, &pool[0].std.PublicKey); return err })
			refused(rt, "PSS verifier "+desc, func() error { _, err := isig.New_RSA_SSA_PSS_Verifier(hn, 20, &pool[0].std.PublicKey); return err })
			refused(rt, "PKCS1 signer "+desc, func() error { _, err := isig.New_RSA_SSA_PKCS1_Signer(hn, pool[0].std); return err })
			refused(rt, "PSS signer "+desc, func() error { _, err := isig.New_RSA_SSA_PSS_Signer(hn, 20, pool[0].std); return err })
			refused(rt, "HashSafeForSignature "+desc, func() error { return isig.HashSafeForSignature(hn) })
		case "rsa-key-exponent":
			// NewParameters admits odd exponents in [65537, 2^31-1]; the primitives insist on 65537.
			e := 65537 + 2*rapid.IntRange(1, 1<<29).Draw(rt, "e")
			desc = fmt.Sprintf("key-level verifier for a public key with e = %d", e)
			refused(rt, "rsassapkcs1.NewVerifier "+desc, func() error {
				pub, err := rsassapkcs1.NewPublicKey(pool[0].std.N.Bytes(), 1, tk.Must(rsassapkcs1.NewParameters(2048, rsassapkcs1.SHA256, e, rsassapkcs1.VariantTink)))
				if err != nil {
					return err
				}
				_, err = rsassapkcs1.NewVerifier(pub, internalapi.Token{})
				return err
			})
			refused(rt, "rsassapss.NewVerifier "+desc, func() error {
				p := tk.Must(rsassapss.NewParameters(rsassapss.ParametersValues{ModulusSizeBits: 2048, SigHashType: rsassapss.SHA256, MGF1HashType: rsassapss.SHA256, PublicExponent: e, SaltLengthBytes: 32}, rsassapss.VariantTink))
				pub, err := rsassapss.NewPublicKey(pool[0].std.N.Bytes(), 1, p)
				if err != nil {
					return err
				}
				_, err = rsassapss.NewVerifier(pub, internalapi.Token{})
				return err
			})
		}
		evid.Case("outofdomain/"+kind, true, evid.NewH().S(kind).S(desc).Sum(), func() any { return desc })
	})
}
