package c03

import (
	"bytes"
	"crypto"
	"crypto/rand"
	stdrsa "crypto/rsa"
	"fmt"
	"math/big"
	"sync"
	"testing"

	"pgregory.net/rapid"

	"github.com/tink-crypto/tink-go/v2/internal/internalapi"
	isig "github.com/tink-crypto/tink-go/v2/internal/signature"
	"github.com/tink-crypto/tink-go/v2/signature"
	"github.com/tink-crypto/tink-go/v2/signature/rsassapkcs1"
	"github.com/tink-crypto/tink-go/v2/signature/rsassapss"
	"github.com/tink-crypto/tink-go/v2/verifharness/internal/detrand"
	"github.com/tink-crypto/tink-go/v2/verifharness/internal/evid"
	"github.com/tink-crypto/tink-go/v2/verifharness/internal/gen"
	"github.com/tink-crypto/tink-go/v2/verifharness/internal/kf"
	"github.com/tink-crypto/tink-go/v2/verifharness/internal/ref/sigref"
	"github.com/tink-crypto/tink-go/v2/verifharness/internal/tk"
)

// ---------------------------------------------------------------------------------------------
// RSA key pool: generated once per process under a fixed detrand seed (e = 65537 always, the only
// exponent the signers accept).

type poolKey struct {
	idx, bits int
	std       *stdrsa.PrivateKey
	pub       sigref.RSAPublic
	priv      sigref.RSAPrivate
}

func (k poolKey) desc() string {
	return fmt.Sprintf("pool[%d] bits=%d e=65537 p=%x q=%x", k.idx, k.bits, k.std.Primes[0], k.std.Primes[1])
}

var (
	poolOnce sync.Once
	pool     []poolKey
	// otherKeys: per modulus size that occurs once in the pool, a second key of that size (see
	// rsa_other_keys_test.go); idx -1, never a key under test.
	otherKeys = map[int]poolKey{}
)

// keyFromPrimes builds a pool entry from two primes (e = 65537).
func keyFromPrimes(t testing.TB, idx, bits int, pHex, qHex string) poolKey {
	pp, ok1 := new(big.Int).SetString(pHex, 16)
	qq, ok2 := new(big.Int).SetString(qHex, 16)
	if !ok1 || !ok2 {
		t.Fatalf("harness: embedded RSA-%d key does not parse", bits)
	}
	one := big.NewInt(1)
	n := new(big.Int).Mul(pp, qq)
	d := new(big.Int).ModInverse(big.NewInt(65537), new(big.Int).Mul(new(big.Int).Sub(pp, one), new(big.Int).Sub(qq, one)))
	if n.BitLen() != bits || d == nil {
		t.Fatalf("harness: embedded RSA-%d key has a %d-bit modulus", bits, n.BitLen())
	}
	k := &stdrsa.PrivateKey{PublicKey: stdrsa.PublicKey{N: n, E: 65537}, D: d, Primes: []*big.Int{pp, qq}}
	k.Precompute()
	if err := k.Validate(); err != nil {
		t.Fatalf("harness: embedded RSA-%d key does not validate: %v", bits, err)
	}
	pub := sigref.RSAPublic{N: n, E: 65537}
	return poolKey{idx: idx, bits: bits, std: k, pub: pub, priv: sigref.RSAPrivate{RSAPublic: pub, D: d, P: pp, Q: qq}}
}

// ensurePool must be called before rapid.Check (it re-seeds detrand).
func ensurePool(t testing.TB) []poolKey {
	poolOnce.Do(func() {
		sizes := []int{2048, 2048, 3072}
		if evid.Tier() == "thorough" {
			sizes = append(sizes, 4096)
		}
		for i, bits := range sizes {
			detrand.Seed(0xC03_0000 + uint64(i))
			k, err := stdrsa.GenerateKey(rand.Reader, bits)
			if err != nil {
				t.Fatalf("harness: rsa.GenerateKey(%d): %v", bits, err)
			}
			if k.N.BitLen() != bits || k.E != 65537 || len(k.Primes) != 2 {
				t.Fatalf("harness: unexpected generated key shape")
			}
			for _, o := range pool {
				if o.std.N.Cmp(k.N) == 0 {
					t.Fatalf("harness: duplicate pool key")
				}
			}
			pub := sigref.RSAPublic{N: k.N, E: k.E}
			pool = append(pool, poolKey{idx: i, bits: bits, std: k, pub: pub, priv: sigref.RSAPrivate{RSAPublic: pub, D: k.D, P: k.Primes[0], Q: k.Primes[1]}})
		}
		// moduli whose bit length is not a multiple of 8 (valid for every RSA key type: NewParameters
		// only asks for >= 2048 bits): the signature length is ceil(bits/8), and for bits = 1 mod 8 the
		// PSS encoded message is one byte shorter than the modulus (added after seeded change C03e)
		for i, bits := range []int{2049, 2050, 2055} {
			detrand.Seed(0xC03_0100 + uint64(i))
			k, err := stdrsa.GenerateKey(rand.Reader, bits)
			if err != nil {
				t.Fatalf("harness: rsa.GenerateKey(%d): %v", bits, err)
			}
			if k.N.BitLen() != bits || k.E != 65537 || len(k.Primes) != 2 {
				t.Fatalf("harness: unexpected generated key shape")
			}
			pub := sigref.RSAPublic{N: k.N, E: k.E}
			pool = append(pool, poolKey{idx: len(pool), bits: bits, std: k, pub: pub, priv: sigref.RSAPrivate{RSAPublic: pub, D: k.D, P: k.Primes[0], Q: k.Primes[1]}})
		}
		// one key with primes of different byte lengths (129 / 127 bytes): legal, but never produced
		// by key generators, so prime-size-dependent slips in key handling would otherwise go unseen
		detrand.Seed(0xC03_00FF)
		one := big.NewInt(1)
		for {
			pp, err1 := rand.Prime(rand.Reader, 1032)
			qq, err2 := rand.Prime(rand.Reader, 1016)
			if err1 != nil || err2 != nil {
				t.Fatalf("harness: rand.Prime: %v %v", err1, err2)
			}
			n := new(big.Int).Mul(pp, qq)
			d := new(big.Int).ModInverse(big.NewInt(65537), new(big.Int).Mul(new(big.Int).Sub(pp, one), new(big.Int).Sub(qq, one)))
			if n.BitLen() != 2048 || d == nil {
				continue
			}
			k := &stdrsa.PrivateKey{PublicKey: stdrsa.PublicKey{N: n, E: 65537}, D: d, Primes: []*big.Int{pp, qq}}
			k.Precompute()
			if err := k.Validate(); err != nil {
				t.Fatalf("harness: unbalanced RSA key does not validate: %v", err)
			}
			pub := sigref.RSAPublic{N: n, E: 65537}
			pool = append(pool, poolKey{idx: len(pool), bits: 2048, std: k, pub: pub, priv: sigref.RSAPrivate{RSAPublic: pub, D: d, P: pp, Q: qq}})
			break
		}
		// the fixed 4096-bit key (every tier)
		{
			pp, ok1 := new(big.Int).SetString(fixed4096P, 16)
			qq, ok2 := new(big.Int).SetString(fixed4096Q, 16)
			if !ok1 || !ok2 {
				t.Fatalf("harness: fixed RSA-4096 key does not parse")
			}
			n := new(big.Int).Mul(pp, qq)
			d := new(big.Int).ModInverse(big.NewInt(65537), new(big.Int).Mul(new(big.Int).Sub(pp, one), new(big.Int).Sub(qq, one)))
			if n.BitLen() != 4096 || d == nil {
				t.Fatalf("harness: fixed RSA-4096 key has a %d-bit modulus", n.BitLen())
			}
			k := &stdrsa.PrivateKey{PublicKey: stdrsa.PublicKey{N: n, E: 65537}, D: d, Primes: []*big.Int{pp, qq}}
			k.Precompute()
			if err := k.Validate(); err != nil {
				t.Fatalf("harness: fixed RSA-4096 key does not validate: %v", err)
			}
			for _, o := range pool {
				if o.std.N.Cmp(n) == 0 {
					t.Fatalf("harness: duplicate pool key")
				}
			}
			pub := sigref.RSAPublic{N: n, E: 65537}
			pool = append(pool, poolKey{idx: len(pool), bits: 4096, std: k, pub: pub, priv: sigref.RSAPrivate{RSAPublic: pub, D: d, P: pp, Q: qq}})
		}
		// second keys for the sizes that occur once
		for bits, pq := range otherKeyPrimes {
			o := keyFromPrimes(t, -1, bits, pq[0], pq[1])
			for _, k := range pool {
				if k.std.N.Cmp(o.std.N) == 0 {
					t.Fatalf("harness: embedded other key of %d bits equals pool[%d]", bits, k.idx)
				}
			}
			otherKeys[bits] = o
		}
		for _, k := range pool {
			if o := otherPoolKey(k); o.bits != k.bits || o.pub.K() != k.pub.K() || o.std.N.Cmp(k.std.N) == 0 {
				t.Fatalf("harness: no other key of %d bits for pool[%d]", k.bits, k.idx)
			}
		}
	})
	return pool
}

type rsaHash struct {
	name string
	ch   crypto.Hash
	size int
}

var rsaHashes = []rsaHash{{"SHA256", crypto.SHA256, 32}, {"SHA384", crypto.SHA384, 48}, {"SHA512", crypto.SHA512, 64}}

func otherHash(t *rapid.T, h rsaHash) rsaHash {
	var o []rsaHash
	for _, x := range rsaHashes {
		if x.name != h.name {
			o = append(o, x)
		}
	}
	return rapid.SampledFrom(o).Draw(t, "otherhash")
}

func pkcs1Variant(v string) rsassapkcs1.Variant {
	return map[string]rsassapkcs1.Variant{tk.Tink: rsassapkcs1.VariantTink, tk.Crunchy: rsassapkcs1.VariantCrunchy, tk.Legacy: rsassapkcs1.VariantLegacy, tk.NoPrefix: rsassapkcs1.VariantNoPrefix}[v]
}
func pssVariant(v string) rsassapss.Variant {
	return map[string]rsassapss.Variant{tk.Tink: rsassapss.VariantTink, tk.Crunchy: rsassapss.VariantCrunchy, tk.Legacy: rsassapss.VariantLegacy, tk.NoPrefix: rsassapss.VariantNoPrefix}[v]
}

func drawPoolKey(t *rapid.T) poolKey {
	// 2048-bit keys half of the time, the bigger ones share the rest
	if rapid.Bool().Draw(t, "small_modulus") {
		return pool[rapid.IntRange(0, 1).Draw(t, "pool")]
	}
	return pool[rapid.IntRange(2, len(pool)-1).Draw(t, "pool")]
}

// otherPoolKey is a key different from k with a modulus of the SAME bit length (another pool key, or
// the embedded second key of that size), so that its signatures have the length the verifier expects
// and are rejected by the RSA computation, not by the length check.
func otherPoolKey(k poolKey) poolKey {
	for _, o := range pool {
		if o.idx != k.idx && o.bits == k.bits {
			return o
		}
	}
	return otherKeys[k.bits]
}

// rsaCandidates: integer-level manipulations common to both RSA schemes.
func rsaCandidates(t *rapid.T, pk poolKey, raw []byte) []cand {
	k := pk.pub.K()
	n := pk.pub.N
	s := new(big.Int).SetBytes(raw)
	fill := func(v *big.Int) []byte {
		if v.BitLen() <= 8*k {
			return v.FillBytes(make([]byte, k))
		}
		return v.Bytes() // k+1 bytes
	}
	one := big.NewInt(1)
	out := []cand{
		{"rsa-s+N", fill(new(big.Int).Add(s, n))},
		{"rsa-s+N-widened", new(big.Int).Add(s, n).FillBytes(make([]byte, k+1))},
		{"rsa-s=0", make([]byte, k)},
		{"rsa-s=1", fill(one)},
		{"rsa-s=N-1", fill(new(big.Int).Sub(n, one))},
		{"rsa-s=N", fill(n)},
		{"rsa-s=N-s", fill(new(big.Int).Sub(n, s))},
		{"rsa-prepend-00", cat([]byte{0}, raw)},
		{"rsa-drop-first", raw[1:]},
		{"rsa-append-00", cat(raw, []byte{0})},
		{"rsa-drop-last", raw[:len(raw)-1]},
		{"rsa-minimal-int", s.Bytes()},
		{"rsa-doubled", cat(raw, raw)},
	}
	for _, g := range []struct {
		name   string
		lo, hi int
	}{{"top", 0, 1}, {"middle", 1, k - 1}, {"low", k - 1, k}} {
		bit := rapid.IntRange(8*g.lo, 8*g.hi-1).Draw(t, "flip-"+g.name)
		f := bytes.Clone(raw)
		f[bit/8] ^= 1 << uint(bit%8)
		out = append(out, cand{"rsa-flip-" + g.name, f})
	}
	return out
}

func stdSignPKCS1(pk poolKey, h rsaHash, effMsg []byte) ([]byte, error) {
	return stdrsa.SignPKCS1v15(rand.Reader, pk.std, h.ch, sigref.Digest(h.name, effMsg))
}

// stdSignPSS signs with an explicit salt length >= 1 (0 means "auto" for the standard library).
func stdSignPSS(pk poolKey, h rsaHash, saltLen int, effMsg []byte) ([]byte, error) {
	if saltLen < 1 {
		return nil, fmt.Errorf("harness: stdSignPSS needs an explicit salt length")
	}
	return stdrsa.SignPSS(rand.Reader, pk.std, h.ch, sigref.Digest(h.name, effMsg), &stdrsa.PSSOptions{SaltLength: saltLen})
}

func pssMaxSalt(pk poolKey, h rsaHash) int { return (pk.bits-1+7)/8 - h.size - 2 }

// ---------------------------------------------------------------------------------------------

func TestRSAPKCS1(t *testing.T) {
	ensurePool(t)
	rapid.Check(t, func(rt *rapid.T) {
		detrand.Seed(rapid.Uint64().Draw(rt, "entropy"))
		pk := drawPoolKey(rt)
		h := rapid.SampledFrom(rsaHashes).Draw(rt, "hash")
		route, variant, id := drawRouteVariantID(rt)
		msg := gen.Bytes(rt, "msg", 1024)

		c := &sigCase{scheme: "RSAPKCS1", params: fmt.Sprintf("%d-%s", pk.bits, h.name), cls: fmt.Sprintf("%d/%s", pk.bits, h.name), variant: variant, id: id, route: route,
			keyDesc: pk.desc(), prefix: tk.Prefix(variant, id)}
		switch route {
		case "subtle":
			s, err := isig.New_RSA_SSA_PKCS1_Signer(h.name, pk.std)
			if err != nil {
				rt.Fatalf("%v\n New_RSA_SSA_PKCS1_Signer: %v", c, err)
			}
			v, err := isig.New_RSA_SSA_PKCS1_Verifier(h.name, &stdrsa.PublicKey{N: new(big.Int).Set(pk.std.N), E: pk.std.E})
			if err != nil {
				rt.Fatalf("%v\n New_RSA_SSA_PKCS1_Verifier: %v", c, err)
			}
			c.signer, c.verifier = s, v
		default:
			ht := map[string]rsassapkcs1.HashType{"SHA256": rsassapkcs1.SHA256, "SHA384": rsassapkcs1.SHA384, "SHA512": rsassapkcs1.SHA512}[h.name]
			params, err := rsassapkcs1.NewParameters(pk.bits, ht, 65537, pkcs1Variant(variant))
			if err != nil {
				rt.Fatalf("%v\n NewParameters: %v", c, err)
			}
			pub, err := rsassapkcs1.NewPublicKey(pk.std.N.Bytes(), id, params)
			if err != nil {
				rt.Fatalf("%v\n NewPublicKey: %v", c, err)
			}
			priv, err := rsassapkcs1.NewPrivateKey(pub, rsassapkcs1.PrivateKeyValues{P: tk.Secret(pk.std.Primes[0].Bytes()), Q: tk.Secret(pk.std.Primes[1].Bytes()), D: tk.Secret(pk.std.D.Bytes())})
			if err != nil {
				rt.Fatalf("%v\n NewPrivateKey: %v", c, err)
			}
			if route == "key" {
				if c.signer, err = rsassapkcs1.NewSigner(priv, internalapi.Token{}); err != nil {
					rt.Fatalf("%v\n NewSigner: %v", c, err)
				}
				if c.verifier, err = rsassapkcs1.NewVerifier(pub, internalapi.Token{}); err != nil {
					rt.Fatalf("%v\n NewVerifier: %v", c, err)
				}
			} else {
				hd, err := tk.HandleFromKey(priv)
				if err != nil {
					rt.Fatalf("%v\n handle: %v", c, err)
				}
				ph, err := hd.Public()
				if err != nil {
					rt.Fatalf("%v\n Public(): %v", c, err)
				}
				if c.signer, err = signature.NewSigner(hd); err != nil {
					rt.Fatalf("%v\n signature.NewSigner: %v", c, err)
				}
				if c.verifier, err = signature.NewVerifier(ph); err != nil {
					rt.Fatalf("%v\n signature.NewVerifier: %v", c, err)
				}
			}
		}
		c.ref = func(raw, effMsg []byte) bool { return sigref.VerifyPKCS1(pk.pub, h.name, effMsg, raw) }
		other := otherPoolKey(pk)
		c.otherKeySign = func(effMsg []byte) ([]byte, error) { return stdSignPKCS1(other, h, effMsg) }

		sig, raw := c.signAndCheck(rt, msg, nil)
		c.commonCandidates(rt, msg, sig)
		for _, k := range rsaCandidates(rt, pk, raw) {
			c.tryRaw(rt, k.kind, k.raw, msg)
		}
		eff := c.eff(msg)
		// signed with another hash; a PSS signature handed to the PKCS1 verifier
		oh := otherHash(rt, h)
		if s, err := stdSignPKCS1(pk, oh, eff); err != nil {
			rt.Fatalf("%v\n harness: %v", c, err)
		} else {
			c.tryRaw(rt, "pkcs1-signed-with-"+oh.name, s, msg)
		}
		if s, err := stdSignPSS(pk, h, h.size, eff); err != nil {
			rt.Fatalf("%v\n harness: %v", c, err)
		} else {
			c.tryRaw(rt, "pkcs1-given-pss-signature", s, msg)
		}
		// one correctly exponentiated but malformed encoded message
		em := sigref.PKCS1Encode(h.name, eff, pk.pub.K())
		tLen := 19 + h.size
		t0 := len(em) - tLen // start of DigestInfo
		kind := gen.Pick(rt, "emkind", []string{"missing-null", "ps-short-garbage-after-hash", "block-type-02", "block-type-00", "zero-inside-ps", "ps-not-ff", "first-byte-01", "digest-of-plain-or-suffixed"})
		bad := bytes.Clone(em)
		switch kind {
		case "missing-null":
			di := bytes.Clone(em[t0:])
			// 30 L1 30 0d 06 09 OID(9) 05 00 04 hLen H  ->  30 L1-2 30 0b 06 09 OID(9) 04 hLen H
			nd := cat([]byte{0x30, di[1] - 2, 0x30, 0x0b}, di[4:15], di[17:])
			bad = cat([]byte{0, 1}, bytes.Repeat([]byte{0xff}, len(em)-3-len(nd)), []byte{0}, nd)
		case "ps-short-garbage-after-hash":
			bad = cat(em[:2], em[3:], []byte{rapid.Byte().Draw(rt, "garbage")})
		case "block-type-02":
			bad[1] = 2
		case "block-type-00":
			bad[1] = 0
		case "zero-inside-ps":
			bad[rapid.IntRange(2, t0-2).Draw(rt, "pspos")] = 0
		case "ps-not-ff":
			bad[rapid.IntRange(2, t0-2).Draw(rt, "pspos")] = 0xfe
		case "first-byte-01":
			bad[0] = 1
		case "digest-of-plain-or-suffixed":
			// the encoding of the message with the suffix toggled
			if variant == tk.Legacy {
				bad = sigref.PKCS1Encode(h.name, msg, pk.pub.K())
			} else {
				bad = sigref.PKCS1Encode(h.name, cat(msg, []byte{0}), pk.pub.K())
			}
		}
		if len(bad) != len(em) {
			rt.Fatalf("harness: malformed EM %s has length %d", kind, len(bad))
		}
		if s := sigref.RSASP1(pk.priv, bad); s != nil {
			c.tryRaw(rt, "pkcs1-em-"+kind, s, msg)
		} else { // the malformed encoded message is not below the modulus (first-byte-01): no signature exists
			evid.Add("em_candidate_dropped/pkcs1-em-"+kind, 1)
		}
		c.finish(rt, msg, evid.NewH().I(int64(pk.idx)))
	})
}

// pssSalts are the salt lengths of the property text; "max" is resolved per key and hash.
func drawSalt(t *rapid.T, pk poolKey, h rsaHash) int {
	max := pssMaxSalt(pk, h)
	switch k := rapid.IntRange(0, 7).Draw(t, "saltkind"); k {
	case 0:
		return 0
	case 1:
		return 1
	case 2:
		return 20
	case 3:
		return h.size
	case 4:
		return 64
	case 5:
		return max
	case 6:
		return max - 1
	}
	return rapid.IntRange(0, max).Draw(t, "salt")
}

func buildPSS(c *sigCase, pk poolKey, h rsaHash, salt int, variant string, id uint32, route string) error {
	var err error
	switch route {
	case "subtle":
		s, err := isig.New_RSA_SSA_PSS_Signer(h.name, salt, pk.std)
		if err != nil {
			return fmt.Errorf("New_RSA_SSA_PSS_Signer: %w", err)
		}
		v, err := isig.New_RSA_SSA_PSS_Verifier(h.name, salt, &stdrsa.PublicKey{N: new(big.Int).Set(pk.std.N), E: pk.std.E})
		if err != nil {
			return fmt.Errorf("New_RSA_SSA_PSS_Verifier: %w", err)
		}
		c.signer, c.verifier = s, v
		return nil
	}
	ht := map[string]rsassapss.HashType{"SHA256": rsassapss.SHA256, "SHA384": rsassapss.SHA384, "SHA512": rsassapss.SHA512}[h.name]
	params, err := rsassapss.NewParameters(rsassapss.ParametersValues{ModulusSizeBits: pk.bits, SigHashType: ht, MGF1HashType: ht, PublicExponent: 65537, SaltLengthBytes: salt}, pssVariant(variant))
	if err != nil {
		return fmt.Errorf("NewParameters: %w", err)
	}
	pub, err := rsassapss.NewPublicKey(pk.std.N.Bytes(), id, params)
	if err != nil {
		return fmt.Errorf("NewPublicKey: %w", err)
	}
	priv, err := rsassapss.NewPrivateKey(pub, rsassapss.PrivateKeyValues{P: tk.Secret(pk.std.Primes[0].Bytes()), Q: tk.Secret(pk.std.Primes[1].Bytes()), D: tk.Secret(pk.std.D.Bytes())})
	if err != nil {
		return fmt.Errorf("NewPrivateKey: %w", err)
	}
	if route == "key" {
		if c.signer, err = rsassapss.NewSigner(priv, internalapi.Token{}); err != nil {
			return fmt.Errorf("NewSigner: %w", err)
		}
		if c.verifier, err = rsassapss.NewVerifier(pub, internalapi.Token{}); err != nil {
			return fmt.Errorf("NewVerifier: %w", err)
		}
		return nil
	}
	hd, err := tk.HandleFromKey(priv)
	if err != nil {
		return err
	}
	ph, err := hd.Public()
	if err != nil {
		return fmt.Errorf("Public(): %w", err)
	}
	if c.signer, err = signature.NewSigner(hd); err != nil {
		return fmt.Errorf("signature.NewSigner: %w", err)
	}
	if c.verifier, err = signature.NewVerifier(ph); err != nil {
		return fmt.Errorf("signature.NewVerifier: %w", err)
	}
	return nil
}

func saltClass(salt, max int, h rsaHash) string {
	switch {
	case salt == 0:
		return "salt0"
	case salt == h.size:
		return "salt=hLen"
	case salt == max:
		return "salt=max"
	case salt < h.size:
		return "salt<hLen"
	}
	return "salt>hLen"
}

func TestRSAPSS(t *testing.T) {
	ensurePool(t)
	rapid.Check(t, func(rt *rapid.T) {
		detrand.Seed(rapid.Uint64().Draw(rt, "entropy"))
		pk := drawPoolKey(rt)
		h := rapid.SampledFrom(rsaHashes).Draw(rt, "hash")
		salt := drawSalt(rt, pk, h)
		max := pssMaxSalt(pk, h)
		route, variant, id := drawRouteVariantID(rt)
		msg := gen.Bytes(rt, "msg", 1024)

		c := &sigCase{scheme: "RSAPSS", params: fmt.Sprintf("%d-%s-salt%d", pk.bits, h.name, salt), cls: fmt.Sprintf("%d/%s", pk.bits, saltClass(salt, max, h)), variant: variant, id: id, route: route,
			keyDesc: fmt.Sprintf("salt=%d %s", salt, pk.desc()), prefix: tk.Prefix(variant, id)}
		if err := buildPSS(c, pk, h, salt, variant, id, route); err != nil {
			rt.Fatalf("%v\n construction failed inside the documented domain: %v", c, err)
		}
		exact := func(raw, effMsg []byte) bool { return sigref.VerifyPSS(pk.pub, h.name, salt, effMsg, raw) }
		auto := func(raw, effMsg []byte) bool { return sigref.VerifyPSS(pk.pub, h.name, sigref.SaltAuto, effMsg, raw) }
		c.ref = exact
		freshRef := exact
		// KNOWN FINDING rsassapss:salt0:* - salt length 0 reaches crypto/rsa as PSSSaltLengthAuto.  Only
		// the two salt-strictness consequences are excluded, each only while its line is in
		// known_findings.txt: a candidate that is a valid PSS signature in everything but its salt
		// length is not compared, and fresh signatures are checked with the salt length read from
		// the encoding.
		if salt == 0 && kf.Listed(propID, "rsassapss:salt0:verify-accepts-any-salt") {
			c.excluded = func(raw, effMsg []byte) bool { return auto(raw, effMsg) != exact(raw, effMsg) }
		}
		if salt == 0 && kf.Listed(propID, "rsassapss:salt0:sign-uses-nonzero-salt") {
			freshRef = auto
		}
		other := otherPoolKey(pk)
		otherSalt := salt
		if m := pssMaxSalt(other, h); otherSalt > m {
			otherSalt = m
		}
		c.otherKeySign = func(effMsg []byte) ([]byte, error) {
			return sigref.RSASP1(other.priv, sigref.PSSEncode(h.name, effMsg, make([]byte, otherSalt), other.bits)), nil
		}

		sig, raw := c.signAndCheck(rt, msg, freshRef)
		if salt == 0 && !exact(raw, c.eff(msg)) {
			c.skipped++ // consequence (i): the fresh signature was only checked in auto mode
		}
		c.commonCandidates(rt, msg, sig)
		for _, k := range rsaCandidates(rt, pk, raw) {
			c.tryRaw(rt, k.kind, k.raw, msg)
		}
		eff := c.eff(msg)
		// --- an own encoding with exactly the configured salt length: accept side without Tink's signer
		saltBytes := gen.BytesN(rt, "saltbytes", salt)
		em := sigref.PSSEncode(h.name, eff, saltBytes, pk.bits)
		if em == nil {
			rt.Fatalf("%v\n harness: PSSEncode refused salt length %d", c, salt)
		}
		c.tryRaw(rt, "pss-own-exact-salt", sigref.RSASP1(pk.priv, em), msg)
		// --- other salt lengths (standard library signer, explicit length; own encoder for length 0)
		var alts []int
		for _, a := range []int{salt - 1, salt + 1, 1, 20, h.size, 64, max} {
			if a >= 1 && a <= max && a != salt {
				alts = append(alts, a)
			}
		}
		alt := rapid.SampledFrom(alts).Draw(rt, "altsalt")
		if s, err := stdSignPSS(pk, h, alt, eff); err != nil {
			rt.Fatalf("%v\n harness: SignPSS salt %d: %v", c, alt, err)
		} else {
			c.tryRaw(rt, fmt.Sprintf("pss-std-salt-%d", alt), s, msg)
		}
		if salt != 0 {
			c.tryRaw(rt, "pss-own-salt-0", sigref.RSASP1(pk.priv, sigref.PSSEncode(h.name, eff, nil, pk.bits)), msg)
		}
		// --- another hash (same salt length if it fits), a PKCS1 signature
		oh := otherHash(rt, h)
		os := salt
		if m := pssMaxSalt(pk, oh); os > m {
			os = m
		}
		c.tryRaw(rt, "pss-signed-with-"+oh.name, sigref.RSASP1(pk.priv, sigref.PSSEncode(oh.name, eff, make([]byte, os), pk.bits)), msg)
		if s, err := stdSignPKCS1(pk, h, eff); err != nil {
			rt.Fatalf("%v\n harness: %v", c, err)
		} else {
			c.tryRaw(rt, "pss-given-pkcs1-signature", s, msg)
		}
		// --- one correctly exponentiated but malformed encoded message
		emLen := len(em)
		psLen := emLen - h.size - salt - 2
		kinds := []string{"trailer-bd", "trailer-cc", "h-flip", "separator-cleared", "separator-02", "suffix-toggled"}
		if psLen >= 2 {
			kinds = append(kinds, "padding-nonzero")
		}
		if salt >= 1 {
			kinds = append(kinds, "salt-flip")
		}
		kind := gen.Pick(rt, "emkind", kinds)
		bad := bytes.Clone(em)
		switch kind {
		case "trailer-bd":
			bad[emLen-1] = 0xbd
		case "trailer-cc":
			bad[emLen-1] = 0xcc
		case "h-flip":
			bad[emLen-2-rapid.IntRange(0, h.size-1).Draw(rt, "hpos")] ^= 1
		case "separator-cleared":
			bad[psLen] ^= 0x01 // maskedDB bit flips map 1:1 to DB bit flips
		case "separator-02":
			bad[psLen] ^= 0x03
		case "padding-nonzero":
			bad[rapid.IntRange(1, psLen-1).Draw(rt, "padpos")] ^= 0x10
		case "salt-flip":
			bad[psLen+1+rapid.IntRange(0, salt-1).Draw(rt, "saltpos")] ^= 0x20
		case "suffix-toggled":
			if variant == tk.Legacy {
				bad = sigref.PSSEncode(h.name, msg, saltBytes, pk.bits)
			} else {
				bad = sigref.PSSEncode(h.name, cat(msg, []byte{0}), saltBytes, pk.bits)
			}
		}
		if s := sigref.RSASP1(pk.priv, bad); s != nil {
			c.tryRaw(rt, "pss-em-"+kind, s, msg)
		} else {
			evid.Add("em_candidate_dropped/pss-em-"+kind, 1)
		}
		c.finish(rt, msg, evid.NewH().I(int64(pk.idx)).I(int64(salt)))
	})
}

// TestKnownPSSSaltZero reproduces the two consequences of finding F3 directly: RSA-SSA-PSS with
// SaltLengthBytes = 0 reaches crypto/rsa as PSSOptions{SaltLength: 0} == PSSSaltLengthAuto.
func TestKnownPSSSaltZero(t *testing.T) {
	ensurePool(t)
	detrand.Seed(0xC03_5A17)
	pk := pool[0]
	h := rsaHashes[0]
	msg := []byte("Tink and Wycheproof.")
	for _, route := range []string{"key", "handle", "subtle"} {
		c := &sigCase{scheme: "RSAPSS", params: "2048-SHA256-salt0", variant: tk.NoPrefix, route: route, keyDesc: "salt=0 " + pk.desc(), prefix: []byte{}}
		if err := buildPSS(c, pk, h, 0, tk.NoPrefix, 0, route); err != nil {
			t.Fatalf("%v: construction: %v", c, err)
		}
		sig, err := c.signer.Sign(msg)
		if err != nil {
			t.Fatalf("%v: Sign: %v", c, err)
		}
		if err := c.verifier.Verify(sig, msg); err != nil {
			t.Fatalf("%v: Verify(Sign(m), m): %v", c, err)
		}
		okAuto, found := sigref.VerifyPSSDetail(pk.pub, h.name, h.name, sigref.SaltAuto, msg, sig)
		if !okAuto {
			t.Fatalf("%v: Sign's output %x is not a PSS signature for any salt length", c, sig)
		}
		evid.Case("F3-sign/"+route, true, evid.NewH().S("F3-sign").S(route).Sum(), func() any {
			return fmt.Sprintf("salt 0 key, Sign(%q): salt length found in the encoding = %d", msg, found)
		})
		if !sigref.VerifyPSS(pk.pub, h.name, 0, msg, sig) {
			const sg = "rsassapss:salt0:sign-uses-nonzero-salt"
			if !kf.Listed(propID, sg) {
				t.Fatalf("%v\n SaltLengthBytes=0 but Sign emitted a signature with a %d-byte salt; a strict sLen=0 verifier rejects it\n sig=%x\n msg=%x", c, found, sig, msg)
			}
			kf.Report(propID, sg)
		}
		sig32, err := stdSignPSS(pk, h, 32, msg)
		if err != nil {
			t.Fatal(err)
		}
		if !sigref.VerifyPSS(pk.pub, h.name, 32, msg, sig32) || sigref.VerifyPSS(pk.pub, h.name, 0, msg, sig32) {
			t.Fatalf("harness: salt-32 signature misjudged by the reference")
		}
		verr := c.verifier.Verify(sig32, msg)
		evid.Case("F3-verify/"+route, true, evid.NewH().S("F3-verify").S(route).Sum(), func() any {
			return fmt.Sprintf("salt 0 key, Verify(signature with 32-byte salt) err=%v", verr)
		})
		if verr == nil {
			const sg = "rsassapss:salt0:verify-accepts-any-salt"
			if !kf.Listed(propID, sg) {
				t.Fatalf("%v\n SaltLengthBytes=0 but Verify accepted a signature with a 32-byte salt\n sig=%x\n msg=%x", c, sig32, msg)
			}
			kf.Report(propID, sg)
		}
		// the exact-salt-0 signature is accepted in any case
		own := sigref.RSASP1(pk.priv, sigref.PSSEncode(h.name, msg, nil, pk.bits))
		if err := c.verifier.Verify(own, msg); err != nil {
			t.Fatalf("%v\n a salt-0 PSS signature is rejected by the salt-0 key: %v\n sig=%x", c, err, own)
		}
	}
}
