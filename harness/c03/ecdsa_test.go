package c03

import (
	"bytes"
	stdecdsa "crypto/ecdsa"
	"crypto/elliptic"
	"crypto/rand"
	"fmt"
	"math/big"
	"testing"

	"pgregory.net/rapid"

	"github.com/tink-crypto/tink-go/v2/internal/internalapi"
	"github.com/tink-crypto/tink-go/v2/signature"
	"github.com/tink-crypto/tink-go/v2/signature/ecdsa"
	sigsubtle "github.com/tink-crypto/tink-go/v2/signature/subtle"
	"github.com/tink-crypto/tink-go/v2/verifharness/internal/detrand"
	"github.com/tink-crypto/tink-go/v2/verifharness/internal/evid"
	"github.com/tink-crypto/tink-go/v2/verifharness/internal/gen"
	"github.com/tink-crypto/tink-go/v2/verifharness/internal/ref/sigref"
	"github.com/tink-crypto/tink-go/v2/verifharness/internal/tk"
)

type ecCombo struct {
	name  string // NIST_P256 ...
	short string
	c     elliptic.Curve
	ct    ecdsa.CurveType
	hash  string
	ht    ecdsa.HashType
}

// The (curve, hash) pairs ecdsa.NewParameters accepts (checkValidHashForCurve).
var ecCombos = []ecCombo{
	{"NIST_P256", "P256", elliptic.P256(), ecdsa.NistP256, "SHA256", ecdsa.SHA256},
	{"NIST_P384", "P384", elliptic.P384(), ecdsa.NistP384, "SHA384", ecdsa.SHA384},
	{"NIST_P384", "P384", elliptic.P384(), ecdsa.NistP384, "SHA512", ecdsa.SHA512},
	{"NIST_P521", "P521", elliptic.P521(), ecdsa.NistP521, "SHA512", ecdsa.SHA512},
}

func ecdsaVariant(v string) ecdsa.Variant {
	return map[string]ecdsa.Variant{tk.Tink: ecdsa.VariantTink, tk.Crunchy: ecdsa.VariantCrunchy, tk.Legacy: ecdsa.VariantLegacy, tk.NoPrefix: ecdsa.VariantNoPrefix}[v]
}

// drawScalar draws d in [1, n-1] as fixed-width bytes; ~10% have zero leading byte(s); ~6% are
// moved forward (d, d+1, ...) until a public coordinate has a leading zero byte.
func drawScalar(t *rapid.T, c elliptic.Curve) (d *big.Int, note string) {
	size := sigref.ScalarSize(c)
	if sc, ok := gen.SpecialECScalar(t, "scalar", size, 10); ok {
		return new(big.Int).SetBytes(sc), "special-point-byte"
	}
	raw := gen.BytesN(t, "scalar", size)
	if rapid.IntRange(0, 9).Draw(t, "lead0") == 0 {
		z := rapid.IntRange(1, 3).Draw(t, "lead0_n")
		if size == 66 {
			z++ // the first byte of a P-521 scalar holds a single bit
		}
		for i := 0; i < z; i++ {
			raw[i] = 0
		}
		note = "scalar-lead0"
	}
	n := c.Params().N
	n1 := new(big.Int).Sub(n, big.NewInt(1))
	d = new(big.Int).SetBytes(raw)
	d.Mod(d, n1)
	d.Add(d, big.NewInt(1))
	if rapid.IntRange(0, 15).Draw(t, "coord0") == 0 {
		const maxSteps = 1500
		if new(big.Int).Add(d, big.NewInt(maxSteps)).Cmp(n) < 0 {
			p := c.Params()
			x, y := c.ScalarBaseMult(d.FillBytes(make([]byte, size)))
			lead0 := func(v *big.Int) bool { return v.BitLen() <= 8*(size-1) && (size != 66 || v.BitLen() <= 8*(size-2)) }
			for i := 0; i < maxSteps && !lead0(x) && !lead0(y); i++ {
				x, y = c.Add(x, y, p.Gx, p.Gy)
				d.Add(d, big.NewInt(1))
			}
			if lead0(x) || lead0(y) {
				note += "+coord-lead0"
			}
		}
	}
	return d, note
}

// flexible DER writer -------------------------------------------------------------------------

const (
	lenMinimal    = 0
	lenLonger     = 1 // one length octet more than necessary
	lenIndefinite = 2 // 0x80 ... 00 00
)

func tlv(tag byte, content []byte, form, lenDelta int) []byte {
	n := len(content) + lenDelta
	var hdr []byte
	switch form {
	case lenMinimal:
		switch {
		case n < 0x80:
			hdr = []byte{tag, byte(n)}
		case n < 0x100:
			hdr = []byte{tag, 0x81, byte(n)}
		default:
			hdr = []byte{tag, 0x82, byte(n >> 8), byte(n)}
		}
	case lenLonger:
		if n < 0x80 {
			hdr = []byte{tag, 0x81, byte(n)}
		} else {
			hdr = []byte{tag, 0x82, byte(n >> 8), byte(n)}
		}
	case lenIndefinite:
		return cat([]byte{tag, 0x80}, content, []byte{0, 0})
	}
	return cat(hdr, content)
}

// intContent is the minimal two's complement content of v >= 0.
func intContent(v *big.Int) []byte {
	c := v.Bytes()
	if len(c) == 0 || c[0]&0x80 != 0 {
		c = cat([]byte{0}, c)
	}
	return c
}

type cand struct {
	kind string
	raw  []byte
}

// derCandidates lists re-encodings and value substitutions for a DER key.
func derCandidates(t *rapid.T, c elliptic.Curve, r, s *big.Int) []cand {
	n := c.Params().N
	size := sigref.ScalarSize(c)
	rc, sc := intContent(r), intContent(s)
	ri, si := tlv(2, rc, 0, 0), tlv(2, sc, 0, 0)
	seq := func(body ...[]byte) []byte { return tlv(0x30, cat(body...), 0, 0) }
	x := rapid.SliceOfN(rapid.Byte(), 1, 4).Draw(t, "trailer")
	out := []cand{
		{"der-canonical", seq(ri, si)},
		{"der-longform-seq", tlv(0x30, cat(ri, si), lenLonger, 0)},
		{"der-longform-r", seq(tlv(2, rc, lenLonger, 0), si)},
		{"der-longform-s", seq(ri, tlv(2, sc, lenLonger, 0))},
		{"der-lead0-r", seq(tlv(2, cat([]byte{0}, rc), 0, 0), si)},
		{"der-lead0-s", seq(ri, tlv(2, cat([]byte{0}, sc), 0, 0))},
		{"der-indefinite-seq", tlv(0x30, cat(ri, si), lenIndefinite, 0)},
		{"der-indefinite-r", seq(tlv(2, rc, lenIndefinite, 0), si)},
		{"der-tag-seq-31", tlv(0x31, cat(ri, si), 0, 0)},
		{"der-tag-seq-10", tlv(0x10, cat(ri, si), 0, 0)},
		{"der-tag-r-03", seq(tlv(3, rc, 0, 0), si)},
		{"der-tag-s-03", seq(ri, tlv(3, sc, 0, 0))},
		{"der-trailing-inside-adjusted", seq(ri, si, x)},
		{"der-trailing-inside-zero", seq(ri, si, []byte{0})},
		{"der-trailing-inside-null", seq(ri, si, []byte{5, 0})},
		{"der-trailing-after", cat(seq(ri, si), x)},
		{"der-trailing-after-zero", cat(seq(ri, si), []byte{0})},
		{"der-seqlen+1", tlv(0x30, cat(ri, si), 0, +1)},
		{"der-seqlen-1", tlv(0x30, cat(ri, si), 0, -1)},
		{"der-slen+1-seq-adjusted", tlv(0x30, cat(ri, tlv(2, sc, 0, +1)), 0, 0)},
		{"der-empty-r", seq(tlv(2, nil, 0, 0), si)},
		{"der-empty-s", seq(ri, tlv(2, nil, 0, 0))},
		{"der-only-r", seq(ri)},
		{"der-three-ints", seq(ri, si, si)},
		{"der-empty-seq", seq()},
		{"der-nested-seq", seq(seq(ri, si))},
		{"der-p1363-bytes", sigref.EncodeP1363(r, s, size)},
	}
	if len(rc) > 1 && rc[0] == 0 {
		out = append(out, cand{"der-negative-r", seq(tlv(2, rc[1:], 0, 0), si)})
	}
	if len(sc) > 1 && sc[0] == 0 {
		out = append(out, cand{"der-negative-s", seq(ri, tlv(2, sc[1:], 0, 0))})
	}
	for _, v := range valueSubstitutions(n, r, s) {
		out = append(out, cand{"der-" + v.kind, sigref.EncodeDER(v.r, v.s)})
	}
	// one flipped bit per region of the canonical encoding
	der := seq(ri, si)
	hdr := len(der) - len(ri) - len(si)
	rh, sh := len(ri)-len(rc), len(si)-len(sc)
	regions := []struct {
		name   string
		lo, hi int
	}{
		{"seq-header", 0, hdr}, {"r-header", hdr, hdr + rh}, {"r-value", hdr + rh, hdr + len(ri)},
		{"s-header", hdr + len(ri), hdr + len(ri) + sh}, {"s-value", hdr + len(ri) + sh, len(der)},
	}
	for _, g := range regions {
		bit := rapid.IntRange(8*g.lo, 8*g.hi-1).Draw(t, "flip-"+g.name)
		f := bytes.Clone(der)
		f[bit/8] ^= 1 << uint(bit%8)
		out = append(out, cand{"der-flip-" + g.name, f})
	}
	return out
}

type rsSub struct {
	kind string
	r, s *big.Int
}

// valueSubstitutions keeps the encoding canonical and changes the numbers.  (r, n-s) is a valid
// signature; the oracle is equivalence, so it lands on the accept side.
func valueSubstitutions(n, r, s *big.Int) []rsSub {
	zero, one := big.NewInt(0), big.NewInt(1)
	add := func(a, b *big.Int) *big.Int { return new(big.Int).Add(a, b) }
	return []rsSub{
		{"r=0", zero, s}, {"s=0", r, zero}, {"r=s=0", zero, zero},
		{"r=n", n, s}, {"s=n", r, n},
		{"r+n", add(r, n), s}, {"s+n", r, add(s, n)},
		{"s=n-s", r, new(big.Int).Sub(n, s)},
		{"r=n-r", new(big.Int).Sub(n, r), s},
		{"swapped", s, r},
		{"s=1", r, one}, {"r=1", one, s},
		{"s+1", r, add(s, one)},
	}
}

// p1363Candidates lists length and value manipulations for an IEEE P1363 key.
func p1363Candidates(t *rapid.T, c elliptic.Curve, r, s *big.Int) []cand {
	n := c.Params().N
	size := sigref.ScalarSize(c)
	raw := sigref.EncodeP1363(r, s, size)
	out := []cand{
		{"p1363-canonical", raw},
		{"p1363-drop-first", raw[1:]},
		{"p1363-drop-last", raw[:len(raw)-1]},
		{"p1363-prepend-00", cat([]byte{0}, raw)},
		{"p1363-append-00", cat(raw, []byte{0})},
		{"p1363-r-only", raw[:size]},
		{"p1363-s-only", raw[size:]},
		{"p1363-plus-size-zeros-front", cat(make([]byte, size), raw)},
		{"p1363-plus-size-r-back", cat(raw, raw[:size])},
		{"p1363-both-widened", cat([]byte{0}, raw[:size], []byte{0}, raw[size:])},
		{"p1363-minimal-ints", cat(r.Bytes(), s.Bytes())},
		{"p1363-r-one-byte-short", cat(raw[1:size], raw[size:])},
		{"p1363-s-one-byte-short", cat(raw[:size], raw[size+1:])},
		{"p1363-der-bytes", sigref.EncodeDER(r, s)},
	}
	for _, o := range []elliptic.Curve{elliptic.P256(), elliptic.P384(), elliptic.P521()} {
		if os := sigref.ScalarSize(o); os > size { // the width of a bigger curve
			out = append(out, cand{fmt.Sprintf("p1363-width-%d", os), sigref.EncodeP1363(r, s, os)})
		}
	}
	for _, v := range valueSubstitutions(n, r, s) {
		if v.r.BitLen() <= 8*size && v.s.BitLen() <= 8*size {
			out = append(out, cand{"p1363-" + v.kind, sigref.EncodeP1363(v.r, v.s, size)})
		}
	}
	for i, name := range []string{"r", "s"} {
		bit := rapid.IntRange(8*size*i, 8*size*(i+1)-1).Draw(t, "flip-"+name)
		f := bytes.Clone(raw)
		f[bit/8] ^= 1 << uint(bit%8)
		out = append(out, cand{"p1363-flip-" + name, f})
	}
	// the top byte of each half (the bits above the order for P-521)
	for i, name := range []string{"r", "s"} {
		f := bytes.Clone(raw)
		f[size*i] ^= 0x80
		out = append(out, cand{"p1363-flip-top-" + name, f})
	}
	return out
}

// ecdsaOracles installs the independent strict verifier for the public point (qx, qy) = d*G and the
// "other key" signer (shared by TestECDSA and the subtle From*Key routes).
func ecdsaOracles(c *sigCase, co ecCombo, enc string, d, qx, qy *big.Int) {
	size := sigref.ScalarSize(co.c)
	memo := map[string]bool{}
	c.ref = func(raw, effMsg []byte) bool {
		r, s, err := sigref.ParseECDSA(co.c, enc, raw)
		if err != nil {
			return false
		}
		dg := sigref.Digest(co.hash, effMsg)
		k := string(dg) + "|" + r.Text(16) + "|" + s.Text(16)
		if v, ok := memo[k]; ok {
			return v
		}
		v := sigref.ECDSAVerifyRS(co.c, qx, qy, dg, r, s)
		memo[k] = v
		return v
	}
	// another key: d' = d+1, or 1 when d = n-1
	d2 := new(big.Int).Add(d, big.NewInt(1))
	if d2.Cmp(co.c.Params().N) >= 0 {
		d2.SetInt64(1)
	}
	c.otherKeySign = func(effMsg []byte) ([]byte, error) {
		k := &stdecdsa.PrivateKey{D: d2}
		k.Curve = co.c
		k.X, k.Y = co.c.ScalarBaseMult(d2.FillBytes(make([]byte, size)))
		der, err := stdecdsa.SignASN1(rand.Reader, k, sigref.Digest(co.hash, effMsg))
		if err != nil || enc == sigref.DER {
			return der, err
		}
		r, s, err := sigref.ParseDER(der)
		if err != nil {
			return nil, err
		}
		return sigref.EncodeP1363(r, s, size), nil
	}
}

// ---------------------------------------------------------------------------------------------
// externally made VALID signatures of extreme shape (accept side)
//
// A signer never emits r = x(kG) mod n with several leading zero bytes or s = 1: the nonce is
// random.  Knowing the nonce one can go the other way: choose k and s, and take the private key
// d = (s*k - z) * r^-1 mod n for the message's z; (r, s) is then a genuine signature of the message
// under Q = d*G (u1*G + u2*Q = ((z + r*d)/s)*G = k*G).  The textbook reference decides, as always.

// shortRNonces: nonces k whose r = x(kG) mod n has at most maxBits bits (leading zero bytes in the
// fixed-width form, a short DER INTEGER).  The big ones were found by a search over k = 1..2^21
// (two and three leading zero bytes); the claim is re-checked whenever an entry is used.
var shortRNonces = map[string][]struct {
	k       int64
	maxBits int
}{
	"P256": {{379, 248}, {40393, 238}, {771992, 236}, {1340330, 235}, {1476301, 227}},
	"P384": {{197, 376}, {530061, 365}, {621350, 364}, {1848377, 362}, {1769552, 362}},
	"P521": {{10735, 502}, {573433, 501}, {1620592, 500}, {735251, 500}},
}

type craftedECDSA struct {
	d, k, r, s   *big.Int
	kKind, sKind string
}

func (x *craftedECDSA) String() string {
	return fmt.Sprintf("key derived from a chosen signature: nonce k=%s (%s), s=%x (%s), r=x(kG) mod n=%x (%d bits)", x.k.Text(10), x.kKind, x.s, x.sKind, x.r, x.r.BitLen())
}

// craftECDSA chooses (k, s) and derives the key for which (x(kG) mod n, s) signs effMsg.  It returns
// nil in the (practically impossible) event that r or d comes out as zero.
func craftECDSA(t *rapid.T, co ecCombo, effMsg []byte) *craftedECDSA {
	n := co.c.Params().N
	size := sigref.ScalarSize(co.c)
	one := big.NewInt(1)
	n1 := new(big.Int).Sub(n, one)
	x := &craftedECDSA{}
	x.kKind = rapid.SampledFrom([]string{"short-r", "short-r", "short-r", "k=1", "k=2", "k=n-1", "uniform"}).Draw(t, "craft_k_kind")
	maxBits := n.BitLen()
	switch x.kKind {
	case "short-r":
		e := rapid.SampledFrom(shortRNonces[co.short]).Draw(t, "craft_k")
		x.k, maxBits = big.NewInt(e.k), e.maxBits
	case "k=1":
		x.k = big.NewInt(1)
	case "k=2":
		x.k = big.NewInt(2)
	case "k=n-1":
		x.k = new(big.Int).Set(n1)
	default:
		x.k = new(big.Int).SetBytes(gen.BytesN(t, "craft_k", size))
		x.k.Mod(x.k, n1).Add(x.k, one)
	}
	px, _ := co.c.ScalarBaseMult(x.k.FillBytes(make([]byte, size)))
	x.r = new(big.Int).Mod(px, n)
	if x.r.BitLen() > maxBits {
		t.Fatalf("harness: x(%s*G) mod n on %s has %d bits, table says <= %d", x.k.Text(10), co.short, x.r.BitLen(), maxBits)
	}
	x.sKind = rapid.SampledFrom([]string{"s=1", "small", "small", "lead0", "pow2", "s=n-1", "uniform"}).Draw(t, "craft_s_kind")
	switch x.sKind {
	case "s=1":
		x.s = big.NewInt(1)
	case "small":
		x.s = big.NewInt(int64(rapid.IntRange(2, 300).Draw(t, "craft_s")))
	case "lead0":
		raw := gen.BytesN(t, "craft_s", size)
		z := rapid.IntRange(1, 3).Draw(t, "craft_s_zeros")
		if size == 66 {
			z++
		}
		for i := 0; i < z; i++ {
			raw[i] = 0
		}
		raw[size-1] |= 1 // not zero
		x.s = new(big.Int).SetBytes(raw)
	case "pow2": // 2^j or 2^j - 1, below n
		j := rapid.IntRange(1, n.BitLen()-1).Draw(t, "craft_s_j")
		x.s = new(big.Int).Lsh(one, uint(j))
		if rapid.Bool().Draw(t, "craft_s_minus1") {
			x.s.Sub(x.s, one)
		}
	case "s=n-1":
		x.s = new(big.Int).Set(n1)
	default:
		x.s = new(big.Int).SetBytes(gen.BytesN(t, "craft_s", size))
		x.s.Mod(x.s, n1).Add(x.s, one)
	}
	z := sigref.Bits2Int(sigref.Digest(co.hash, effMsg), n)
	rinv := new(big.Int).ModInverse(x.r, n)
	if rinv == nil {
		return nil
	}
	x.d = new(big.Int).Mul(x.s, x.k)
	x.d.Sub(x.d, z).Mul(x.d, rinv).Mod(x.d, n)
	if x.d.Sign() == 0 {
		return nil
	}
	return x
}

func TestECDSA(t *testing.T) {
	rapid.Check(t, func(rt *rapid.T) {
		detrand.Seed(rapid.Uint64().Draw(rt, "entropy"))
		co := rapid.SampledFrom(ecCombos).Draw(rt, "curve_hash")
		enc := rapid.SampledFrom([]string{sigref.DER, sigref.P1363}).Draw(rt, "encoding")
		route, variant, id := drawRouteVariantID(rt)
		d, note := drawScalar(rt, co.c)
		msg := gen.Bytes(rt, "msg", 1024)
		// one case in five: the key is the one under which a chosen (r, s) of extreme shape signs msg
		var crafted *craftedECDSA
		if rapid.IntRange(0, 4).Draw(rt, "crafted") == 0 {
			effMsg := bytes.Clone(msg)
			if variant == tk.Legacy {
				effMsg = append(effMsg, 0)
			}
			if crafted = craftECDSA(rt, co, effMsg); crafted != nil {
				d, note = crafted.d, crafted.String()
			}
		}

		size := sigref.ScalarSize(co.c)
		scalar := d.FillBytes(make([]byte, size))
		qx, qy := co.c.ScalarBaseMult(scalar)
		if !sigref.OnCurve(co.c, qx, qy) {
			rt.Fatalf("harness: public point of %x not on %s", scalar, co.name)
		}
		point := cat([]byte{4}, qx.FillBytes(make([]byte, size)), qy.FillBytes(make([]byte, size)))

		c := &sigCase{scheme: "ECDSA", params: co.short + "-" + co.hash + "/" + enc, variant: variant, id: id, route: route,
			keyDesc: fmt.Sprintf("d=%x Q=%x %s", scalar, point, note), prefix: tk.Prefix(variant, id)}

		switch route {
		case "subtle":
			// subtle takes big-endian integers; sometimes hand them over without the leading zeros
			kv, xb, yb := scalar, point[1:1+size], point[1+size:]
			if rapid.Bool().Draw(rt, "subtle_minimal_ints") {
				kv, xb, yb = d.Bytes(), qx.Bytes(), qy.Bytes()
				c.keyDesc += " (minimal-length integers)"
			}
			s, err := sigsubtle.NewECDSASigner(co.hash, co.name, enc, kv)
			if err != nil {
				rt.Fatalf("%v\n NewECDSASigner: %v", c, err)
			}
			v, err := sigsubtle.NewECDSAVerifier(co.hash, co.name, enc, xb, yb)
			if err != nil {
				rt.Fatalf("%v\n NewECDSAVerifier: %v", c, err)
			}
			c.signer, c.verifier = s, v
		default:
			encT := map[string]ecdsa.SignatureEncoding{sigref.DER: ecdsa.DER, sigref.P1363: ecdsa.IEEEP1363}[enc]
			params, err := ecdsa.NewParameters(co.ct, co.ht, encT, ecdsaVariant(variant))
			if err != nil {
				rt.Fatalf("%v\n NewParameters: %v", c, err)
			}
			priv, err := ecdsa.NewPrivateKey(tk.Secret(scalar), id, params)
			if err != nil {
				rt.Fatalf("%v\n NewPrivateKey: %v", c, err)
			}
			// the public key also goes through its own constructor, from the harness's point
			pub, err := ecdsa.NewPublicKey(point, id, params)
			if err != nil {
				rt.Fatalf("%v\n NewPublicKey: %v", c, err)
			}
			if pk, _ := priv.PublicKey(); !pk.Equal(pub) {
				rt.Fatalf("%v\n private key's public key differs from NewPublicKey(d*G)", c)
			}
			if route == "key" {
				if c.signer, err = ecdsa.NewSigner(priv, internalapi.Token{}); err != nil {
					rt.Fatalf("%v\n NewSigner: %v", c, err)
				}
				if c.verifier, err = ecdsa.NewVerifier(pub, internalapi.Token{}); err != nil {
					rt.Fatalf("%v\n NewVerifier: %v", c, err)
				}
			} else {
				h, err := tk.HandleFromKey(priv)
				if err != nil {
					rt.Fatalf("%v\n handle: %v", c, err)
				}
				ph, err := h.Public()
				if err != nil {
					rt.Fatalf("%v\n Public(): %v", c, err)
				}
				if c.signer, err = signature.NewSigner(h); err != nil {
					rt.Fatalf("%v\n signature.NewSigner: %v", c, err)
				}
				if c.verifier, err = signature.NewVerifier(ph); err != nil {
					rt.Fatalf("%v\n signature.NewVerifier: %v", c, err)
				}
			}
		}

		ecdsaOracles(c, co, enc, d, qx, qy)

		sig, raw := c.signAndCheck(rt, msg, nil)
		r, s, err := sigref.ParseECDSA(co.c, enc, raw)
		if err != nil {
			rt.Fatalf("%v\n harness: fresh signature does not parse: %v", c, err)
		}
		c.commonCandidates(rt, msg, sig)
		var cands []cand
		if enc == sigref.DER {
			cands = derCandidates(rt, co.c, r, s)
		} else {
			cands = p1363Candidates(rt, co.c, r, s)
		}
		for _, k := range cands {
			c.tryRaw(rt, k.kind, k.raw, msg)
		}
		if crafted != nil {
			var rawc []byte
			var cc []cand
			if enc == sigref.DER {
				rawc, cc = sigref.EncodeDER(crafted.r, crafted.s), derCandidates(rt, co.c, crafted.r, crafted.s)
			} else {
				rawc, cc = sigref.EncodeP1363(crafted.r, crafted.s, size), p1363Candidates(rt, co.c, crafted.r, crafted.s)
			}
			if !c.ref(rawc, c.eff(msg)) {
				rt.Fatalf("%v\n harness: the textbook verifier rejects the crafted signature %x over %x", c, rawc, c.eff(msg))
			}
			before := c.accept
			c.tryRaw(rt, "crafted-valid", rawc, msg)
			for _, k := range cc { // the same re-encodings and substitutions, around the crafted values
				c.tryRaw(rt, "crafted/"+k.kind, k.raw, msg)
			}
			evid.Add("crafted_valid_signatures_accepted_by_both", int64(c.accept-before))
			evid.Add("crafted/nonce:"+crafted.kKind, 1)
			evid.Add("crafted/s:"+crafted.sKind, 1)
			if lz := size - (crafted.r.BitLen()+7)/8 - size/66; lz > 0 { // P-521's first byte holds one bit
				evid.Add(fmt.Sprintf("crafted_r_leading_zero_bytes=%d", lz), 1)
			}
		}
		c.finish(rt, msg, evid.NewH().B(scalar))
	})
}
