// Package c17 decides property C17: keyset derivation is a deterministic standard function of
// (keyset, salt).
//
// A case is a deriver keyset of 1..4 PRF-based deriver keys (statuses ENABLED / DISABLED /
// DESTROYED, drawn primary, unique IDs) built either with keyset.Manager or from a proto keyset,
// plus a caller salt.  The oracles are
//
//  1. determinism: DeriveKeyset(salt) twice on one deriver, on a copy of the salt, after an
//     interleaved derivation with another salt and on a second deriver object: entry-wise Equal keys,
//     same IDs, statuses, primary; nil and empty salts are equal salts;
//  2. structure: exactly one ENABLED derived entry per ENABLED deriver entry (matched by key ID) with
//     the deriver entry's prefix type, ID requirement and primary designation;
//  3. material: secret bytes == HKDF(hash, ikm = PRF key, salt = PRF salt, info = caller salt)[:L]
//     computed by internal/ref/sym, with L from the harness's table of the derived type, and the
//     derived key Equal to the key the ordinary constructor builds from those bytes;
//  4. sensitivity: another salt (different by construction) and another PRF key (one flipped byte)
//     give different material;
//  5. usability: the derived key's class primitive interoperates with the primitive of the key built
//     by the ordinary constructor from the reference bytes, in both directions.
package c17

import (
	"bytes"
	"fmt"
	"io"
	"strings"
	"testing"

	"pgregory.net/rapid"

	"github.com/tink-crypto/tink-go/v2/aead"
	"github.com/tink-crypto/tink-go/v2/aead/aesgcm"
	"github.com/tink-crypto/tink-go/v2/aead/xchacha20poly1305"
	"github.com/tink-crypto/tink-go/v2/daead"
	"github.com/tink-crypto/tink-go/v2/daead/aessiv"
	"github.com/tink-crypto/tink-go/v2/internal/config/keyderivationconfig"
	"github.com/tink-crypto/tink-go/v2/internal/internalapi"
	"github.com/tink-crypto/tink-go/v2/internal/protoserialization"
	"github.com/tink-crypto/tink-go/v2/key"
	"github.com/tink-crypto/tink-go/v2/keyderivation"
	"github.com/tink-crypto/tink-go/v2/keyderivation/prfbasedkeyderivation"
	"github.com/tink-crypto/tink-go/v2/keyset"
	"github.com/tink-crypto/tink-go/v2/mac"
	"github.com/tink-crypto/tink-go/v2/mac/hmac"
	"github.com/tink-crypto/tink-go/v2/prf"
	"github.com/tink-crypto/tink-go/v2/prf/hkdfprf"
	"github.com/tink-crypto/tink-go/v2/prf/hmacprf"
	tinkpb "github.com/tink-crypto/tink-go/v2/proto/tink_go_proto"
	"github.com/tink-crypto/tink-go/v2/signature"
	"github.com/tink-crypto/tink-go/v2/signature/ed25519"
	"github.com/tink-crypto/tink-go/v2/streamingaead"
	"github.com/tink-crypto/tink-go/v2/streamingaead/aesgcmhkdf"
	"github.com/tink-crypto/tink-go/v2/verifharness/internal/detrand"
	"github.com/tink-crypto/tink-go/v2/verifharness/internal/evid"
	"github.com/tink-crypto/tink-go/v2/verifharness/internal/gen"
	"github.com/tink-crypto/tink-go/v2/verifharness/internal/keys"
	"github.com/tink-crypto/tink-go/v2/verifharness/internal/legacykm"
	"github.com/tink-crypto/tink-go/v2/verifharness/internal/ref/sym"
	"github.com/tink-crypto/tink-go/v2/verifharness/internal/tk"
)

func TestMain(m *testing.M) { evid.Main(m) }

const (
	stEnabled   = "ENABLED"
	stDisabled  = "DISABLED"
	stDestroyed = "DESTROYED"
)

// dentry is one entry of the deriver keyset.
type dentry struct {
	info    *keys.Info // the PrfBasedDeriver key
	status  string
	id      uint32 // keyset key ID
	primary bool

	// generated-from values (never read back from Tink objects)
	prfHash     string
	prfKey      []byte
	prfSalt     []byte
	derivedType string
	derived     map[string]any

	// origin says where the PRF came from: "generator" (internal/keys), "long-salt" / "reused#j"
	// (PRF key drawn here and the deriver key rebuilt around the generator's derived-key parameters),
	// "hmac300" (the stratified 300-byte HMAC entry) or "legacy" (harness-owned deriver key type served
	// by a key manager: the factory's legacy-primitive route; proto route only).  For "legacy" entries
	// the deriving primitive is the HARNESS's (legacykm calls sym.HKDF itself), so the material oracle
	// compares sym.HKDF with sym.HKDF: only what the factory wraps around the primitive (one ENABLED
	// key per ENABLED deriver key, IDs, prefix type, primary, determinism) is decided by such an entry.
	// The evidence class spells it "legacy(wrapper-only)".
	origin string
	legacy *legacykm.DeriverSpec
	// derivedUnusable: the derived-key parameters are accepted by the derived type's constructor and
	// by the key deriver, but no primitive can be built from such a key (AES-GCM key size 24 or IV 13,
	// AES-SIV 32, HKDF-PRF key 16, ...).  Everything but the usability clause is checked for them.
	derivedUnusable bool
}

func (e *dentry) String() string {
	p := ""
	if e.primary {
		p = " PRIMARY"
	}
	return fmt.Sprintf("{keyset-id=%#x %s%s prf(%s)=HKDF-%s key=%x salt=%x -> %s}", e.id, e.status, p, e.origin, e.prfHash, e.prfKey, e.prfSalt, e.info.Desc)
}

type dcase struct {
	entries []*dentry
	route   string
	salt    []byte
}

func (c *dcase) String() string {
	var b strings.Builder
	fmt.Fprintf(&b, "route=%s salt=%x (nil=%v) keyset:", c.route, c.salt, c.salt == nil)
	for i, e := range c.entries {
		fmt.Fprintf(&b, "\n  [%d] %s", i, e)
	}
	return b.String()
}

// derivedLen is the harness's table: how many leading HKDF bytes become the key material.
func derivedLen(t *rapid.T, typ string, f map[string]any) int {
	switch typ {
	case "AesGcm", "AesSiv", "Hmac", "HkdfPrf", "HmacPrf", "AesGcmHkdfStreaming":
		return f["key_size"].(int)
	case "XChaCha20Poly1305":
		return 32
	case "Ed25519":
		return 32 // the private seed
	}
	t.Fatalf("harness: no mapping rule for derived type %s", typ)
	return 0
}

// classOf is the primitive class of a derived type.
func classOf(typ string) keys.Class { return keys.ClassOf(typ) }

func protoStatus(s string) tinkpb.KeyStatusType {
	switch s {
	case stEnabled:
		return tinkpb.KeyStatusType_ENABLED
	case stDisabled:
		return tinkpb.KeyStatusType_DISABLED
	}
	return tinkpb.KeyStatusType_DESTROYED
}

func managerStatus(s string) keyset.KeyStatus {
	switch s {
	case stEnabled:
		return keyset.Enabled
	case stDisabled:
		return keyset.Disabled
	}
	return keyset.Destroyed
}

func prefixTypeOf(variant string) tinkpb.OutputPrefixType {
	switch variant {
	case tk.Tink:
		return tinkpb.OutputPrefixType_TINK
	case tk.Crunchy:
		return tinkpb.OutputPrefixType_CRUNCHY
	case tk.Legacy:
		return tinkpb.OutputPrefixType_LEGACY
	case tk.NoPrefix:
		return tinkpb.OutputPrefixType_RAW
	}
	panic("unexpected variant " + variant)
}

func newEntry(info *keys.Info) *dentry {
	e := &dentry{info: info, origin: "generator"}
	pf := info.Fields["prf"].(map[string]any)
	e.prfHash = pf["hash"].(string)
	e.prfKey = pf["key_value"].([]byte)
	e.prfSalt, _ = pf["salt"].([]byte)
	e.derivedType = info.Fields["derived_type"].(string)
	e.derived = info.Fields["derived"].(map[string]any)
	if usable, ok := info.Fields["derived_usable"].(bool); ok && !usable {
		e.derivedUnusable = true
	}
	return e
}

var hkdfHashTypes = map[string]hkdfprf.HashType{"SHA256": hkdfprf.SHA256, "SHA512": hkdfprf.SHA512}

// ownDeriver builds a PRF-based deriver key around the given derived-key parameters with a PRF key
// chosen by this package (HKDF-SHA256/512, key >= 32 bytes: the PRFs the deriver supports).
func ownDeriver(rt *rapid.T, hash string, prfKey, prfSalt []byte, derivedParams key.Parameters, idRequirement uint32) key.Key {
	pp, err := hkdfprf.NewParameters(len(prfKey), hkdfHashTypes[hash], prfSalt)
	if err != nil {
		rt.Fatalf("harness: hkdfprf.NewParameters(%d, %s, salt of %d bytes): %v", len(prfKey), hash, len(prfSalt), err)
	}
	pk, err := hkdfprf.NewKey(tk.Secret(prfKey), pp)
	if err != nil {
		rt.Fatalf("harness: hkdfprf.NewKey: %v", err)
	}
	dp, err := prfbasedkeyderivation.NewParameters(pp, derivedParams)
	if err != nil {
		rt.Fatalf("harness: prfbasedkeyderivation.NewParameters: %v", err)
	}
	k, err := prfbasedkeyderivation.NewKey(dp, pk, idRequirement)
	if err != nil {
		rt.Fatalf("harness: prfbasedkeyderivation.NewKey: %v", err)
	}
	return k
}

// withPRF replaces the PRF of a generator-made deriver entry (same derived-key parameters, variant
// and ID requirement). The copy of the Info must not be rebuilt through WithVariantID afterwards.
func (e *dentry) withPRF(rt *rapid.T, origin, hash string, prfKey, prfSalt []byte) {
	dk := e.info.Key.(*prfbasedkeyderivation.Key)
	derivedParams := dk.Parameters().(*prfbasedkeyderivation.Parameters).DerivedKeyParameters()
	ni := *e.info
	ni.Key = ownDeriver(rt, hash, prfKey, prfSalt, derivedParams, e.info.ID)
	ni.Desc = "[PRF replaced, see prf(...)] " + e.info.Desc
	e.info = &ni
	e.origin, e.prfHash, e.prfKey, e.prfSalt = origin, hash, bytes.Clone(prfKey), bytes.Clone(prfSalt)
}

var longPRFSalts = []int{63, 64, 65, 127, 128, 129, 200}

// uniqueID makes id differ from every ID in used (the shrinker drives IDs to equal values).
func uniqueID(used map[uint32]bool, id uint32) uint32 {
	for used[id] {
		id++
	}
	used[id] = true
	return id
}

// generatorInfo draws a key of the shared generator and moves it to a unique ID.
func generatorInfo(rt *rapid.T, label, typ string, used map[uint32]bool) (*keys.Info, uint32) {
	return placeInfo(rt, label, keys.DrawTypeUsable(rt, label, typ), used)
}

// placeInfo moves a generated key to a unique keyset ID.
func placeInfo(rt *rapid.T, label string, info *keys.Info, used map[uint32]bool) (*keys.Info, uint32) {
	id := info.ID
	if !info.HasID {
		id = gen.KeyID(rt, label+"_ksid")
	}
	id = uniqueID(used, id)
	if info.HasID && id != info.ID {
		re, ok := info.WithVariantID(info.Variant, id)
		if !ok {
			rt.Fatalf("harness: cannot rebuild %s under ID %#x", info, id)
		}
		info = re
	}
	return info, id
}

// drawKeyset draws 1..maxKeys deriver keys with unique keyset IDs, statuses and a primary. At low
// weight (and only for maxKeys >= 4) it is the stratified large case: 9 keys, one of which derives
// a 300-byte HMAC key. With allowLegacy some entries are harness-owned deriver keys served by a
// key manager (TINK, CRUNCHY, RAW).
func drawKeyset(rt *rapid.T, maxKeys int, allowLegacy bool) []*dentry {
	n := rapid.IntRange(1, maxKeys).Draw(rt, "nkeys")
	hmacAt := -1
	if maxKeys >= 4 && rapid.IntRange(0, 39).Draw(rt, "nine_keys") == 0 {
		n = 9
		hmacAt = rapid.IntRange(0, n-1).Draw(rt, "hmac300_at")
	}
	primary := rapid.IntRange(0, n-1).Draw(rt, "primary")
	used := map[uint32]bool{}
	var out []*dentry
	for i := 0; i < n; i++ {
		label := fmt.Sprintf("k%d", i)
		var e *dentry
		switch mode := rapid.IntRange(0, 5).Draw(rt, label+"_entrykind"); {
		case i == hmacAt:
			// derived parameters: the generator's HMAC parameters with the key size set to 300 bytes
			hm, id := generatorInfo(rt, label, "Hmac", used)
			hp := hm.Key.Parameters().(*hmac.Parameters)
			big, err := hmac.NewParameters(hmac.ParametersOpts{KeySizeInBytes: 300, TagSizeInBytes: hp.CryptographicTagSizeInBytes(), HashType: hp.HashType(), Variant: hp.Variant()})
			if err != nil {
				rt.Fatalf("harness: hmac.NewParameters(300-byte key, otherwise like %s): %v", hm, err)
			}
			hash := rapid.SampledFrom([]string{"SHA256", "SHA512"}).Draw(rt, label+"_prfhash")
			prfKey := gen.BytesN(rt, label+"_prfkey", rapid.SampledFrom([]int{32, 64}).Draw(rt, label+"_prfkeylen"))
			prfSalt := gen.BytesOrNil(rt, label+"_prfsalt", 40)
			derived := map[string]any{}
			for k, v := range hm.Fields {
				derived[k] = v
			}
			derived["key_size"] = 300
			info := &keys.Info{Class: keys.Deriver, Type: "PrfBasedDeriver", Variant: hm.Variant, ID: hm.ID, HasID: hm.HasID, Usable: true,
				Key:  ownDeriver(rt, hash, prfKey, prfSalt, big, hm.ID),
				Desc: fmt.Sprintf("PrfBasedDeriver{derived: Hmac with a 300-byte key, otherwise the parameters of %s}", hm.Desc)}
			e = &dentry{info: info, origin: "hmac300", prfHash: hash, prfKey: prfKey, prfSalt: prfSalt, derivedType: "Hmac", derived: derived}
			e.id = id
		case allowLegacy && mode == 0:
			variant := rapid.SampledFrom([]string{tk.Tink, tk.Crunchy, tk.NoPrefix}).Draw(rt, label+"_legacy_variant")
			id := uniqueID(used, gen.KeyID(rt, label+"_ksid"))
			spec := &legacykm.DeriverSpec{
				Hash:        rapid.SampledFrom([]string{"SHA256", "SHA512"}).Draw(rt, label+"_prfhash"),
				DerivedSize: rapid.SampledFrom([]int{16, 32}).Draw(rt, label+"_legacy_derived_size"),
				PRFKey:      gen.BytesN(rt, label+"_prfkey", rapid.SampledFrom([]int{32, 32, 33, 64}).Draw(rt, label+"_prfkeylen")),
			}
			if rapid.IntRange(0, 4).Draw(rt, label+"_legacy_longsalt") == 0 {
				spec.PRFSalt = gen.BytesN(rt, label+"_prfsalt", rapid.SampledFrom(longPRFSalts).Draw(rt, label+"_prfsaltlen"))
			} else {
				spec.PRFSalt = gen.BytesOrNil(rt, label+"_prfsalt", 40)
			}
			info := &keys.Info{Class: keys.Deriver, Type: "verif.LegacyDeriver", Variant: variant, HasID: variant != tk.NoPrefix, Usable: true,
				Desc: fmt.Sprintf("verif.LegacyDeriver{key-manager primitive; derived: AesGcm key_size=%d iv=12 tag=16 variant=%s}", spec.DerivedSize, variant)}
			if info.HasID {
				info.ID = id
			}
			e = &dentry{info: info, origin: "legacy", legacy: spec, prfHash: spec.Hash, prfKey: spec.PRFKey, prfSalt: spec.PRFSalt, derivedType: "AesGcm", derived: map[string]any{"key_size": spec.DerivedSize}}
			e.id = id
		default:
			var info *keys.Info
			var id uint32
			// one entry in four: the derived-key parameters are ANY parameters the derived type accepts,
			// usable as a primitive or not - about one entry in ten ends up with parameters from which no
			// primitive can be built (the proto route needs a key format with a proto form: a
			// deriver of AES-GCM parameters with another IV / tag size is replaced there)
			if gen.Uniform(rt, label+"_derived_any", 4) == 0 {
				if cand := keys.DrawDeriverOfDerivable(rt, label+"_any", false); !(allowLegacy && cand.NoSerialization) {
					info, id = placeInfo(rt, label, cand, used)
				} else {
					evid.Add("any_derived_replaced_no_proto_form", 1)
				}
			}
			if info == nil {
				info, id = generatorInfo(rt, label, "PrfBasedDeriver", used)
			}
			e = newEntry(info)
			e.id = id
			switch {
			case mode == 1 && i > 0:
				// the PRF key and salt of an earlier entry again (same or another derived type, other ID)
				j := rapid.IntRange(0, i-1).Draw(rt, label+"_reuse_of")
				if src := out[j]; len(src.prfKey) >= 32 {
					e.withPRF(rt, fmt.Sprintf("reused#%d", j), src.prfHash, src.prfKey, src.prfSalt)
				}
			case mode == 2:
				hash := rapid.SampledFrom([]string{"SHA256", "SHA512"}).Draw(rt, label+"_prfhash")
				prfKey := gen.BytesN(rt, label+"_prfkey", rapid.SampledFrom([]int{32, 32, 33, 48, 64, 65, 128, 129}).Draw(rt, label+"_prfkeylen"))
				prfSalt := gen.BytesN(rt, label+"_prfsalt", rapid.SampledFrom(longPRFSalts).Draw(rt, label+"_prfsaltlen"))
				e.withPRF(rt, "long-salt", hash, prfKey, prfSalt)
			}
		}
		e.status = stEnabled
		if i == primary {
			e.primary = true
		} else {
			e.status = rapid.SampledFrom([]string{stEnabled, stEnabled, stDisabled, stDestroyed}).Draw(rt, label+"_status")
		}
		out = append(out, e)
	}
	return out
}

func buildHandle(rt *rapid.T, c *dcase) *keyset.Handle {
	switch c.route {
	case "manager":
		m := keyset.NewManager()
		for i, e := range c.entries {
			opts := []keyset.KeyOpts{keyset.WithStatus(managerStatus(e.status))}
			if !e.info.HasID || rapid.Bool().Draw(rt, fmt.Sprintf("k%d_fixedid", i)) {
				opts = append(opts, keyset.WithFixedID(e.id))
			}
			got, err := m.AddKeyWithOpts(e.info.Key, internalapi.Token{}, opts...)
			if err != nil || got != e.id {
				rt.Fatalf("%v\nharness: AddKeyWithOpts for entry %d gave id %#x, err %v", c, i, got, err)
			}
		}
		for _, e := range c.entries {
			if e.primary {
				if err := m.SetPrimary(e.id); err != nil {
					rt.Fatalf("%v\nharness: SetPrimary: %v", c, err)
				}
			}
		}
		h, err := m.Handle()
		if err != nil {
			rt.Fatalf("%v\nharness: Manager.Handle: %v", c, err)
		}
		return h
	case "proto":
		ks := &tinkpb.Keyset{}
		for i, e := range c.entries {
			if e.legacy != nil {
				lk, err := legacykm.DeriverKey(*e.legacy, prefixTypeOf(e.info.Variant), e.id, protoStatus(e.status))
				if err != nil {
					rt.Fatalf("%v\nharness: legacy deriver entry %d: %v", c, i, err)
				}
				ks.Key = append(ks.Key, lk)
				if e.primary {
					ks.PrimaryKeyId = e.id
				}
				continue
			}
			ser, err := protoserialization.SerializeKey(e.info.Key)
			if err != nil {
				rt.Fatalf("%v\nharness: SerializeKey of entry %d: %v", c, i, err)
			}
			ks.Key = append(ks.Key, &tinkpb.Keyset_Key{KeyData: ser.KeyData(), Status: protoStatus(e.status), KeyId: e.id, OutputPrefixType: ser.OutputPrefixType()})
			if e.primary {
				ks.PrimaryKeyId = e.id
			}
		}
		h, err := legacykm.HandleFromProto(ks)
		if err != nil {
			rt.Fatalf("%v\nharness: reading the proto keyset: %v", c, err)
		}
		return h
	}
	panic("route")
}

// material reads the secret bytes of a derived key through the key type's accessor.
func material(k key.Key) ([]byte, bool) {
	switch x := k.(type) {
	case *aesgcm.Key:
		return tk.Reveal(x.KeyBytes()), true
	case *xchacha20poly1305.Key:
		return tk.Reveal(x.KeyBytes()), true
	case *aessiv.Key:
		return tk.Reveal(x.KeyBytes()), true
	case *hmac.Key:
		return tk.Reveal(x.KeyBytes()), true
	case *hkdfprf.Key:
		return tk.Reveal(x.KeyBytes()), true
	case *hmacprf.Key:
		return tk.Reveal(x.KeyBytes()), true
	case *ed25519.PrivateKey:
		return tk.Reveal(x.PrivateKeyBytes()), true
	case *aesgcmhkdf.Key:
		return tk.Reveal(x.KeyBytes()), true
	}
	return nil, false
}

// referenceKey builds, with the key type's ordinary constructor, the key the property prescribes.
func referenceKey(e *dentry, mat []byte) (key.Key, error) {
	if e.legacy != nil {
		v := map[string]aesgcm.Variant{tk.Tink: aesgcm.VariantTink, tk.Crunchy: aesgcm.VariantCrunchy, tk.NoPrefix: aesgcm.VariantNoPrefix}[e.info.Variant]
		p, err := aesgcm.NewParameters(aesgcm.ParametersOpts{KeySizeInBytes: e.legacy.DerivedSize, IVSizeInBytes: 12, TagSizeInBytes: 16, Variant: v})
		if err != nil {
			return nil, err
		}
		return aesgcm.NewKey(tk.Secret(mat), e.info.ID, p)
	}
	dk := e.info.Key.(*prfbasedkeyderivation.Key)
	params := dk.Parameters().(*prfbasedkeyderivation.Parameters).DerivedKeyParameters()
	s := tk.Secret(mat)
	switch p := params.(type) {
	case *aesgcm.Parameters:
		return aesgcm.NewKey(s, e.info.ID, p)
	case *xchacha20poly1305.Parameters:
		return xchacha20poly1305.NewKey(s, e.info.ID, p)
	case *aessiv.Parameters:
		return aessiv.NewKey(s, e.info.ID, p)
	case *hmac.Parameters:
		return hmac.NewKey(s, p, e.info.ID)
	case *hkdfprf.Parameters:
		return hkdfprf.NewKey(s, p)
	case *hmacprf.Parameters:
		return hmacprf.NewKey(s, p)
	case *ed25519.Parameters:
		return ed25519.NewPrivateKey(s, e.info.ID, *p)
	case *aesgcmhkdf.Parameters:
		return aesgcmhkdf.NewKey(p, s)
	}
	return nil, fmt.Errorf("harness: no ordinary constructor for %T", params)
}

type snapshot struct {
	ids      []uint32
	statuses []keyset.KeyStatus
	primary  []bool
	keys     []key.Key
	prefix   []tinkpb.OutputPrefixType
}

// prefixUnobservable stands for the prefix type of an entry whose key has no proto form (derived
// AES-GCM keys with an IV size other than 12 or a tag size other than 16): KeysetInfo(), the only
// place where a handle shows prefix types, panics for such a handle (C13's
// TestNoKeyBytesWhenNotSerializable deals with that).  The output prefix BYTES of the key are compared instead.
const prefixUnobservable = tinkpb.OutputPrefixType(-1)

func snap(h *keyset.Handle) (*snapshot, error) {
	s := &snapshot{}
	var info *tinkpb.KeysetInfo
	func() {
		defer func() { _ = recover() }()
		info = h.KeysetInfo()
	}()
	for i := 0; i < h.Len(); i++ {
		e, err := h.Entry(i)
		if err != nil {
			return nil, err
		}
		s.ids = append(s.ids, e.KeyID())
		s.statuses = append(s.statuses, e.KeyStatus())
		s.primary = append(s.primary, e.IsPrimary())
		s.keys = append(s.keys, e.Key())
		if info == nil {
			s.prefix = append(s.prefix, prefixUnobservable)
		} else {
			s.prefix = append(s.prefix, info.GetKeyInfo()[i].GetOutputPrefixType())
		}
	}
	return s, nil
}

func (s *snapshot) String() string {
	var b strings.Builder
	for i := range s.ids {
		m, _ := material(s.keys[i])
		fmt.Fprintf(&b, "\n    derived[%d] id=%#x status=%v primary=%v prefix=%v type=%T material=%x", i, s.ids[i], s.statuses[i], s.primary[i], s.prefix[i], s.keys[i], m)
	}
	return b.String()
}

func sameSnapshot(a, b *snapshot) string {
	if len(a.ids) != len(b.ids) {
		return fmt.Sprintf("lengths %d and %d", len(a.ids), len(b.ids))
	}
	for i := range a.ids {
		switch {
		case a.ids[i] != b.ids[i]:
			return fmt.Sprintf("entry %d: IDs %#x and %#x", i, a.ids[i], b.ids[i])
		case a.statuses[i] != b.statuses[i]:
			return fmt.Sprintf("entry %d: statuses differ", i)
		case a.primary[i] != b.primary[i]:
			return fmt.Sprintf("entry %d: primary designation differs", i)
		case a.prefix[i] != b.prefix[i]:
			return fmt.Sprintf("entry %d: prefix types differ", i)
		case !a.keys[i].Equal(b.keys[i]) || !b.keys[i].Equal(a.keys[i]):
			return fmt.Sprintf("entry %d: keys are not Equal", i)
		}
	}
	return ""
}

func derive(rt *rapid.T, c *dcase, d keyderivation.KeysetDeriver, salt []byte, what string) *snapshot {
	in := append([]byte(nil), salt...)
	if salt == nil {
		in = nil
	}
	h, err := d.DeriveKeyset(in)
	if err != nil {
		rt.Fatalf("%v\nDeriveKeyset(%x) [%s] failed on a usable deriver keyset: %v", c, salt, what, err)
	}
	if !bytes.Equal(in, salt) {
		// a C19 matter (c19 decides writes into caller buffers); the derived values are checked against salt
		evid.Add("observed_not_asserted/C19_input_modified", 1)
	}
	s, err := snap(h)
	if err != nil {
		rt.Fatalf("%v\nreading the derived keyset [%s]: %v", c, what, err)
	}
	return s
}

func xor(b []byte, v byte) []byte {
	out := bytes.Clone(b)
	for i := range out {
		out[i] ^= v
	}
	return out
}

// oneKeyHandle wraps a key into a handle (enabled primary).
func oneKeyHandle(rt *rapid.T, c *dcase, k key.Key, what string) *keyset.Handle {
	h, err := tk.HandleFromKey(k)
	if err != nil {
		rt.Fatalf("%v\n%s: cannot put the key into a keyset handle: %v", c, what, err)
	}
	return h
}

// interop checks that a and b (derived key / ordinary-constructor key) are interchangeable.
func interop(rt *rapid.T, c *dcase, e *dentry, derivedKey, refKey key.Key, msg, ad []byte) {
	fail := func(format string, args ...any) {
		rt.Fatalf("%v\nentry %s, msg=%x ad=%x: %s", c, e, msg, ad, fmt.Sprintf(format, args...))
	}
	hd, hr := oneKeyHandle(rt, c, derivedKey, "derived key"), oneKeyHandle(rt, c, refKey, "reference key")
	switch classOf(e.derivedType) {
	case keys.AEAD:
		pd, err1 := aead.New(hd)
		pr, err2 := aead.New(hr)
		if err1 != nil || err2 != nil {
			fail("aead.New: derived %v, reference %v", err1, err2)
		}
		for _, dir := range []struct {
			name string
			enc  interface {
				Encrypt(pt, ad []byte) ([]byte, error)
			}
			dec interface {
				Decrypt(ct, ad []byte) ([]byte, error)
			}
		}{{"derived->ordinary", pd, pr}, {"ordinary->derived", pr, pd}} {
			ct, err := dir.enc.Encrypt(msg, ad)
			if err != nil {
				fail("%s Encrypt: %v", dir.name, err)
			}
			pt, err := dir.dec.Decrypt(ct, ad)
			if err != nil || !bytes.Equal(pt, msg) {
				fail("%s: ciphertext %x decrypts to %x, err %v", dir.name, ct, pt, err)
			}
		}
	case keys.DAEAD:
		pd, err1 := daead.New(hd)
		pr, err2 := daead.New(hr)
		if err1 != nil || err2 != nil {
			fail("daead.New: derived %v, reference %v", err1, err2)
		}
		c1, err1 := pd.EncryptDeterministically(msg, ad)
		c2, err2 := pr.EncryptDeterministically(msg, ad)
		if err1 != nil || err2 != nil || !bytes.Equal(c1, c2) {
			fail("deterministic ciphertexts differ: %x (%v) vs %x (%v)", c1, err1, c2, err2)
		}
		if pt, err := pr.DecryptDeterministically(c1, ad); err != nil || !bytes.Equal(pt, msg) {
			fail("ordinary key does not decrypt the derived key's ciphertext: %v", err)
		}
		if pt, err := pd.DecryptDeterministically(c2, ad); err != nil || !bytes.Equal(pt, msg) {
			fail("derived key does not decrypt the ordinary key's ciphertext: %v", err)
		}
	case keys.MAC:
		pd, err1 := mac.New(hd)
		pr, err2 := mac.New(hr)
		if err1 != nil || err2 != nil {
			fail("mac.New: derived %v, reference %v", err1, err2)
		}
		t1, err1 := pd.ComputeMAC(msg)
		t2, err2 := pr.ComputeMAC(msg)
		if err1 != nil || err2 != nil || !bytes.Equal(t1, t2) {
			fail("tags differ: %x (%v) vs %x (%v)", t1, err1, t2, err2)
		}
		if err := pr.VerifyMAC(t1, msg); err != nil {
			fail("ordinary key rejects the derived key's tag: %v", err)
		}
		if err := pd.VerifyMAC(t2, msg); err != nil {
			fail("derived key rejects the ordinary key's tag: %v", err)
		}
	case keys.PRF:
		pd, err1 := prf.NewPRFSet(hd)
		pr, err2 := prf.NewPRFSet(hr)
		if err1 != nil || err2 != nil {
			fail("prf.NewPRFSet: derived %v, reference %v", err1, err2)
		}
		o1, err1 := pd.ComputePrimaryPRF(msg, 16)
		o2, err2 := pr.ComputePrimaryPRF(msg, 16)
		if err1 != nil || err2 != nil || !bytes.Equal(o1, o2) || len(o1) != 16 {
			fail("PRF outputs differ: %x (%v) vs %x (%v)", o1, err1, o2, err2)
		}
	case keys.Signature:
		pubD, err1 := hd.Public()
		pubR, err2 := hr.Public()
		if err1 != nil || err2 != nil {
			fail("Public(): %v / %v", err1, err2)
		}
		sd, err1 := signature.NewSigner(hd)
		sr, err2 := signature.NewSigner(hr)
		vd, err3 := signature.NewVerifier(pubD)
		vr, err4 := signature.NewVerifier(pubR)
		if err1 != nil || err2 != nil || err3 != nil || err4 != nil {
			fail("signature factories: %v %v %v %v", err1, err2, err3, err4)
		}
		s1, err1 := sd.Sign(msg)
		s2, err2 := sr.Sign(msg)
		if err1 != nil || err2 != nil {
			fail("Sign: %v / %v", err1, err2)
		}
		if err := vr.Verify(s1, msg); err != nil {
			fail("ordinary public key rejects the derived key's signature %x: %v", s1, err)
		}
		if err := vd.Verify(s2, msg); err != nil {
			fail("derived public key rejects the ordinary key's signature %x: %v", s2, err)
		}
	case keys.Streaming:
		pd, err1 := streamingaead.New(hd)
		pr, err2 := streamingaead.New(hr)
		if err1 != nil || err2 != nil {
			fail("streamingaead.New: derived %v, reference %v", err1, err2)
		}
		for _, dir := range []struct {
			name     string
			enc, dec interface {
				NewEncryptingWriter(w io.Writer, aad []byte) (io.WriteCloser, error)
				NewDecryptingReader(r io.Reader, aad []byte) (io.Reader, error)
			}
		}{{"derived->ordinary", pd, pr}, {"ordinary->derived", pr, pd}} {
			var buf bytes.Buffer
			w, err := dir.enc.NewEncryptingWriter(&buf, ad)
			if err != nil {
				fail("%s NewEncryptingWriter: %v", dir.name, err)
			}
			if _, err := w.Write(msg); err != nil {
				fail("%s Write: %v", dir.name, err)
			}
			if err := w.Close(); err != nil {
				fail("%s Close: %v", dir.name, err)
			}
			r, err := dir.dec.NewDecryptingReader(bytes.NewReader(buf.Bytes()), ad)
			if err != nil {
				fail("%s NewDecryptingReader: %v", dir.name, err)
			}
			pt, err := io.ReadAll(r)
			if err != nil || !bytes.Equal(pt, msg) {
				fail("%s: stream decrypts to %x, err %v", dir.name, pt, err)
			}
		}
	default:
		fail("harness: no usability check for class %s", classOf(e.derivedType))
	}
}

func TestDeriveKeyset(t *testing.T) {
	rapid.Check(t, func(rt *rapid.T) {
		detrand.Seed(rapid.Uint64().Draw(rt, "entropy"))
		legacykm.RegisterDeriver()
		c := &dcase{route: rapid.SampledFrom([]string{"manager", "proto"}).Draw(rt, "route")}
		c.entries = drawKeyset(rt, 4, c.route == "proto")
		hasLegacy := false
		for _, e := range c.entries {
			hasLegacy = hasLegacy || e.legacy != nil
		}
		c.salt = gen.BytesOrNil(rt, "salt", 300)
		msg := gen.Bytes(rt, "msg", 200)
		ad := gen.Bytes(rt, "ad", 40)
		salt2 := gen.Mutate(rt, "salt2", c.salt).Out // differs from salt by construction

		h := buildHandle(rt, c)
		d, err := keyderivation.New(h)
		if err != nil {
			rt.Fatalf("%v\nkeyderivation.New failed on a usable deriver keyset: %v", c, err)
		}

		// (1) determinism
		first := derive(rt, c, d, c.salt, "first call")
		again := derive(rt, c, d, c.salt, "second call")
		if diff := sameSnapshot(first, again); diff != "" {
			rt.Fatalf("%v\nDeriveKeyset is not deterministic (two calls, same salt): %s\n  first:%v\n  second:%v", c, diff, first, again)
		}
		other := derive(rt, c, d, salt2, "other salt")
		third := derive(rt, c, d, c.salt, "after another salt")
		if diff := sameSnapshot(first, third); diff != "" {
			rt.Fatalf("%v\nDeriveKeyset(salt) changed after DeriveKeyset(%x): %s\n  first:%v\n  later:%v", c, salt2, diff, first, third)
		}
		// the second deriver object comes from the other public factory, NewWithConfig with the V0
		// configuration (same PRF-based deriver, constructed without the global registry)
		var d2 keyderivation.KeysetDeriver
		if hasLegacy { // V0 knows no key managers: the second object comes from the registry route again
			if d2, err = keyderivation.New(h); err != nil {
				rt.Fatalf("%v\nsecond keyderivation.New: %v", c, err)
			}
		} else {
			v0 := keyderivationconfig.V0()
			if d2, err = keyderivation.NewWithConfig(h, &v0); err != nil {
				rt.Fatalf("%v\nkeyderivation.NewWithConfig(V0): %v", c, err)
			}
		}
		fresh := derive(rt, c, d2, c.salt, "second deriver object")
		if diff := sameSnapshot(first, fresh); diff != "" {
			rt.Fatalf("%v\ntwo derivers of one handle disagree: %s\n  first:%v\n  second:%v", c, diff, first, fresh)
		}
		// the caller reuses one salt buffer: derive, overwrite the buffer in place with another salt of
		// the same length, derive again on the same deriver object; "different salts give different
		// keys" and determinism are statements about the salt's bytes, not about the slice
		if len(c.salt) > 0 {
			buf := bytes.Clone(c.salt)
			for i := range buf {
				buf[i] ^= 0x33 // a salt this deriver object has not seen yet
			}
			h1, err := d.DeriveKeyset(buf)
			if err != nil {
				rt.Fatalf("%v\nDeriveKeyset(%x): %v", c, buf, err)
			}
			s1, _ := snap(h1)
			for i := range buf {
				buf[i] ^= 0x5A
			}
			hb, err := d.DeriveKeyset(buf)
			if err != nil {
				rt.Fatalf("%v\nDeriveKeyset(%x): %v", c, buf, err)
			}
			sb, _ := snap(hb)
			want := derive(rt, c, d2, buf, "reused buffer, other deriver object")
			if diff := sameSnapshot(sb, want); diff != "" {
				rt.Fatalf("%v\nDeriveKeyset(%x) through a salt buffer that held %x at the previous call differs from a fresh derivation of the same salt: %s", c, buf, xor(buf, 0x5A), diff)
			}
			if s1 != nil && sameSnapshot(s1, sb) == "" {
				rt.Fatalf("%v\nsalts %x and %x (one buffer, overwritten in place) give the same derived keyset", c, xor(buf, 0x5A), buf)
			}
		}
		if len(c.salt) == 0 { // nil and empty are equal salts
			var alt []byte
			if c.salt == nil {
				alt = []byte{}
			}
			s := derive(rt, c, d, alt, "nil/empty salt")
			if diff := sameSnapshot(first, s); diff != "" {
				rt.Fatalf("%v\nnil and empty salt give different keysets: %s", c, diff)
			}
		}

		// (2) structure
		var enabled []*dentry
		for _, e := range c.entries {
			if e.status == stEnabled {
				enabled = append(enabled, e)
			}
		}
		if len(first.ids) != len(enabled) {
			rt.Fatalf("%v\nderived keyset has %d entries, the deriver keyset has %d ENABLED keys:%v", c, len(first.ids), len(enabled), first)
		}
		pos := map[uint32]int{}
		for i, id := range first.ids {
			if _, dup := pos[id]; dup {
				rt.Fatalf("%v\nderived keyset repeats key ID %#x:%v", c, id, first)
			}
			pos[id] = i
		}
		classes := map[keys.Class]bool{}
		allUsable := true
		for _, e := range enabled {
			i, ok := pos[e.id]
			if !ok {
				rt.Fatalf("%v\nno derived key with the ID %#x of ENABLED deriver key %s:%v", c, e.id, e, first)
			}
			if first.statuses[i] != keyset.Enabled {
				rt.Fatalf("%v\nderived key %#x has status %v, want Enabled", c, e.id, first.statuses[i])
			}
			if first.primary[i] != e.primary {
				rt.Fatalf("%v\nderived key %#x: primary=%v, deriver key primary=%v:%v", c, e.id, first.primary[i], e.primary, first)
			}
			if first.prefix[i] == prefixUnobservable {
				evid.Add("prefix_type_compared_by_output_prefix_bytes", 1)
				want := []byte{}
				if e.info.HasID {
					want = tk.Prefix(e.info.Variant, e.info.ID)
				}
				if op, ok := first.keys[i].(interface{ OutputPrefix() []byte }); ok && !bytes.Equal(op.OutputPrefix(), want) {
					rt.Fatalf("%v\nderived key %#x has output prefix %x, the deriver key's variant %s and ID give %x", c, e.id, op.OutputPrefix(), e.info.Variant, want)
				}
			} else if want := prefixTypeOf(e.info.Variant); first.prefix[i] != want {
				rt.Fatalf("%v\nderived key %#x has prefix type %v, deriver key has %v", c, e.id, first.prefix[i], want)
			}
			if id, has := first.keys[i].IDRequirement(); has != e.info.HasID || id != e.info.ID {
				rt.Fatalf("%v\nderived key %#x has ID requirement (%#x,%v), deriver key has (%#x,%v)", c, e.id, id, has, e.info.ID, e.info.HasID)
			}

			// (3) material
			L := derivedLen(rt, e.derivedType, e.derived)
			want := sym.HKDF(sym.HashByName(e.prfHash), e.prfKey, e.prfSalt, c.salt, L)
			got, ok := material(first.keys[i])
			if !ok {
				rt.Fatalf("%v\nderived key for %s has unexpected type %T", c, e, first.keys[i])
			}
			if !bytes.Equal(got, want) {
				rt.Fatalf("%v\nderived key %#x (%s): material %x, HKDF-%s(ikm=PRF key, salt=PRF salt, info=caller salt)[:%d] = %x", c, e.id, e.derivedType, got, e.prfHash, L, want)
			}
			ref, err := referenceKey(e, want)
			if err != nil {
				rt.Fatalf("%v\nordinary constructor refuses the reference bytes for %s: %v", c, e, err)
			}
			if !first.keys[i].Equal(ref) || !ref.Equal(first.keys[i]) {
				rt.Fatalf("%v\nderived key %#x is not Equal to the key the ordinary constructor builds from the reference bytes %x (type %T vs %T)", c, e.id, want, first.keys[i], ref)
			}

			// (4) sensitivity: other salt, other PRF key
			gotOther, _ := material(other.keys[i])
			wantOther := sym.HKDF(sym.HashByName(e.prfHash), e.prfKey, e.prfSalt, salt2, L)
			if !bytes.Equal(gotOther, wantOther) {
				rt.Fatalf("%v\nderived key %#x for the second salt %x: material %x, reference %x", c, e.id, salt2, gotOther, wantOther)
			}
			if bytes.Equal(gotOther, got) {
				rt.Fatalf("%v\nsalts %x and %x derive the same %s material %x from deriver key %#x", c, c.salt, salt2, e.derivedType, got, e.id)
			}
			sd, err := keyderivation.New(siblingDeriver(rt, c, e))
			if err != nil {
				rt.Fatalf("%v\nkeyderivation.New for a deriver with one PRF key byte flipped: %v", c, err)
			}
			ss := derive(rt, c, sd, c.salt, "sibling PRF key")
			if len(ss.keys) != 1 {
				rt.Fatalf("%v\nsibling deriver derived %d keys", c, len(ss.keys))
			}
			sm, _ := material(ss.keys[0])
			if bytes.Equal(sm, got) {
				rt.Fatalf("%v\nentry %s: flipping a PRF key byte does not change the derived material %x", c, e, got)
			}

			// (5) usability / interoperability with the ordinary key - the only clause that is skipped for
			// derived-key parameters from which no primitive can be built
			classes[classOf(e.derivedType)] = true
			if e.derivedUnusable {
				allUsable = false
				evid.Add("derived_keys_not_usable_as_primitive/"+e.derivedType, 1)
				continue
			}
			interop(rt, c, e, first.keys[i], ref, msg, ad)
		}

		// whole-handle usability when every derived key belongs to one primitive class
		if len(classes) == 1 && allUsable {
			wholeHandle(rt, c, enabled, d, msg, ad)
		}

		nst := map[string]int{}
		var types []string
		for _, e := range c.entries {
			nst[e.status]++
			types = append(types, e.derivedType)
		}
		mix := "all-enabled"
		if nst[stDisabled]+nst[stDestroyed] > 0 {
			mix = "mixed-status"
		}
		origins := map[string]bool{}
		for _, e := range c.entries {
			o := e.origin
			if strings.HasPrefix(o, "reused") {
				o = "reused"
			}
			if o == "legacy" {
				o = "legacy(wrapper-only)"
			}
			origins[o] = true
			evid.Add("entries_prf_"+o, 1)
			evid.Add("entry_derived/"+e.derivedType+"/"+e.info.Variant+"/"+e.status, 1)
			if e.primary {
				evid.Add("primary_derived/"+e.derivedType+"/"+e.info.Variant, 1)
			}
			switch e.id {
			case 0:
				evid.Add("entry_id/0", 1)
			case 1<<32 - 1:
				evid.Add("entry_id/2^32-1", 1)
			}
			if len(e.prfSalt) > 62 {
				evid.Add(fmt.Sprintf("entries_prf_salt_len_%d", len(e.prfSalt)), 1)
			}
		}
		var os []string
		for _, o := range []string{"generator", "long-salt", "reused", "legacy(wrapper-only)", "hmac300"} {
			if origins[o] {
				os = append(os, o)
			}
		}
		class := fmt.Sprintf("%s/n=%d/%s/%s/prf=%s", c.entries[0].derivedType, len(c.entries), mix, c.route, strings.Join(os, "+"))
		fp := evid.NewH().S(c.route).B(c.salt)
		for _, e := range c.entries {
			fp = fp.S(e.info.Desc).S(e.status).I(int64(e.id)).S(e.prfHash).B(e.prfKey).B(e.prfSalt)
			if e.primary {
				fp = fp.I(1)
			}
		}
		evid.Add("derived_keys_checked", int64(len(enabled)))
		evid.Case(class, true, fp.Sum(), func() any {
			return map[string]any{"case": c.String(), "derived_types": types, "salt_len": len(c.salt)}
		})
	})
}

// siblingDeriver is a one-key handle with e's deriver key, one PRF key byte flipped (same parameters, same ID).
func siblingDeriver(rt *rapid.T, c *dcase, e *dentry) *keyset.Handle {
	kb := append([]byte{}, e.prfKey...)
	kb[len(kb)/2] ^= 0x40
	if e.legacy != nil {
		spec := *e.legacy
		spec.PRFKey = kb
		lk, err := legacykm.DeriverKey(spec, prefixTypeOf(e.info.Variant), e.id, tinkpb.KeyStatusType_ENABLED)
		if err != nil {
			rt.Fatalf("%v\nharness: sibling legacy deriver key: %v", c, err)
		}
		h, err := legacykm.HandleFromProto(&tinkpb.Keyset{PrimaryKeyId: e.id, Key: []*tinkpb.Keyset_Key{lk}})
		if err != nil {
			rt.Fatalf("%v\nharness: sibling legacy deriver keyset: %v", c, err)
		}
		return h
	}
	dk := e.info.Key.(*prfbasedkeyderivation.Key)
	params := dk.Parameters().(*prfbasedkeyderivation.Parameters)
	pk, err := hkdfprf.NewKey(tk.Secret(kb), params.PRFParameters().(*hkdfprf.Parameters))
	if err != nil {
		rt.Fatalf("%v\nharness: sibling PRF key: %v", c, err)
	}
	sib, err := prfbasedkeyderivation.NewKey(params, pk, e.info.ID)
	if err != nil {
		rt.Fatalf("%v\nharness: sibling deriver key: %v", c, err)
	}
	return oneKeyHandle(rt, c, sib, "sibling deriver")
}

// wholeHandle uses the derived handle itself with its class factory: the primary derived key
// produces, and the ordinary key built from the primary's reference bytes accepts.
func wholeHandle(rt *rapid.T, c *dcase, enabled []*dentry, d keyderivation.KeysetDeriver, msg, ad []byte) {
	dh, err := d.DeriveKeyset(c.salt)
	if err != nil {
		rt.Fatalf("%v\nDeriveKeyset: %v", c, err)
	}
	var prim *dentry
	for _, e := range enabled {
		if e.primary {
			prim = e
		}
	}
	L := derivedLen(rt, prim.derivedType, prim.derived)
	ref, err := referenceKey(prim, sym.HKDF(sym.HashByName(prim.prfHash), prim.prfKey, prim.prfSalt, c.salt, L))
	if err != nil {
		rt.Fatalf("%v\nreference key of the primary: %v", c, err)
	}
	hr := oneKeyHandle(rt, c, ref, "reference key of the primary")
	fail := func(format string, args ...any) {
		rt.Fatalf("%v\nderived handle used as a whole (primary %s), msg=%x ad=%x: %s", c, prim, msg, ad, fmt.Sprintf(format, args...))
	}
	switch classOf(prim.derivedType) {
	case keys.AEAD:
		p, err := aead.New(dh)
		if err != nil {
			fail("aead.New: %v", err)
		}
		pr, _ := aead.New(hr)
		ct, err := p.Encrypt(msg, ad)
		if err != nil {
			fail("Encrypt: %v", err)
		}
		if pt, err := pr.Decrypt(ct, ad); err != nil || !bytes.Equal(pt, msg) {
			fail("ordinary key of the primary does not decrypt %x: %v", ct, err)
		}
		if pt, err := p.Decrypt(ct, ad); err != nil || !bytes.Equal(pt, msg) {
			fail("round trip: %v", err)
		}
	case keys.DAEAD:
		p, err := daead.New(dh)
		if err != nil {
			fail("daead.New: %v", err)
		}
		pr, _ := daead.New(hr)
		ct, err := p.EncryptDeterministically(msg, ad)
		want, _ := pr.EncryptDeterministically(msg, ad)
		if err != nil || !bytes.Equal(ct, want) {
			fail("ciphertext %x (%v), ordinary key of the primary gives %x", ct, err, want)
		}
	case keys.MAC:
		p, err := mac.New(dh)
		if err != nil {
			fail("mac.New: %v", err)
		}
		pr, _ := mac.New(hr)
		tag, err := p.ComputeMAC(msg)
		want, _ := pr.ComputeMAC(msg)
		if err != nil || !bytes.Equal(tag, want) {
			fail("tag %x (%v), ordinary key of the primary gives %x", tag, err, want)
		}
		if err := p.VerifyMAC(tag, msg); err != nil {
			fail("round trip: %v", err)
		}
	case keys.PRF:
		p, err := prf.NewPRFSet(dh)
		if err != nil {
			fail("prf.NewPRFSet: %v", err)
		}
		pr, _ := prf.NewPRFSet(hr)
		if p.PrimaryID != prim.id || len(p.PRFs) != len(enabled) {
			fail("PRF set has primary %#x and %d PRFs, want %#x and %d", p.PrimaryID, len(p.PRFs), prim.id, len(enabled))
		}
		o, err := p.ComputePrimaryPRF(msg, 16)
		want, _ := pr.ComputePrimaryPRF(msg, 16)
		if err != nil || !bytes.Equal(o, want) {
			fail("PRF output %x (%v), ordinary key of the primary gives %x", o, err, want)
		}
	case keys.Signature:
		s, err := signature.NewSigner(dh)
		if err != nil {
			fail("NewSigner: %v", err)
		}
		pub, err := dh.Public()
		if err != nil {
			fail("Public: %v", err)
		}
		v, err := signature.NewVerifier(pub)
		if err != nil {
			fail("NewVerifier: %v", err)
		}
		pubR, _ := hr.Public()
		vr, _ := signature.NewVerifier(pubR)
		sig, err := s.Sign(msg)
		if err != nil {
			fail("Sign: %v", err)
		}
		if err := vr.Verify(sig, msg); err != nil {
			fail("ordinary public key of the primary rejects %x: %v", sig, err)
		}
		if err := v.Verify(sig, msg); err != nil {
			fail("round trip: %v", err)
		}
	case keys.Streaming:
		p, err := streamingaead.New(dh)
		if err != nil {
			fail("streamingaead.New: %v", err)
		}
		pr, _ := streamingaead.New(hr)
		var buf bytes.Buffer
		w, err := p.NewEncryptingWriter(&buf, ad)
		if err != nil {
			fail("NewEncryptingWriter: %v", err)
		}
		if _, err := w.Write(msg); err != nil {
			fail("Write: %v", err)
		}
		if err := w.Close(); err != nil {
			fail("Close: %v", err)
		}
		r, err := pr.NewDecryptingReader(bytes.NewReader(buf.Bytes()), ad)
		if err != nil {
			fail("NewDecryptingReader: %v", err)
		}
		if pt, err := io.ReadAll(r); err != nil || !bytes.Equal(pt, msg) {
			fail("ordinary key of the primary does not decrypt the stream: %v", err)
		}
	}
	evid.Add("whole_handle_checks", 1)
}

// Types accepted as derived-key parameters by prfbasedkeyderivation.NewParameters that have no key
// deriver (keyderivation/internal/keyderivers registers exactly eight parameter types).
var noDeriverTypes = []string{
	"AesCtrHmacAead", "AesGcmSiv", "ChaCha20Poly1305", "XAesGcm", "AesCmac", "AesCmacPrf",
	"Ecdsa", "MlDsa", "Hpke", "EciesAeadHkdf", "JwtHmac", "AesCtrHmacStreaming", "RsaSsaPkcs1",
}

// TestDeriveOutOfDomain: an ENABLED deriver key whose derived-key parameters have no key deriver makes
// DeriveKeyset (or already keyderivation.New) return an error; nothing panics.
func TestDeriveOutOfDomain(t *testing.T) {
	rapid.Check(t, func(rt *rapid.T) {
		detrand.Seed(rapid.Uint64().Draw(rt, "entropy"))
		good := drawKeyset(rt, 3, false)
		kind := rapid.SampledFrom([]string{"constructed", "keys-package"}).Draw(rt, "kind")
		var bad key.Key
		var badDesc string
		var badID uint32
		var badHasID bool
		if kind == "constructed" {
			prfInfo := keys.DrawTypeUsable(rt, "badprf", "HkdfPrf")
			tmpl := keys.DrawTypeUsable(rt, "badtmpl", rapid.SampledFrom(noDeriverTypes).Draw(rt, "badtype"))
			p, err := prfbasedkeyderivation.NewParameters(prfInfo.Key.Parameters(), tmpl.Key.Parameters())
			if err != nil {
				rt.Fatalf("NewParameters(%s, %s): %v", prfInfo, tmpl, err)
			}
			k, err := prfbasedkeyderivation.NewKey(p, prfInfo.Key, tmpl.ID)
			if err != nil {
				rt.Fatalf("NewKey(%s, %s): %v", prfInfo, tmpl, err)
			}
			bad, badDesc, badID, badHasID = k, fmt.Sprintf("PrfBasedDeriver{prf: %s, derived parameters of: %s}", prfInfo, tmpl), tmpl.ID, tmpl.HasID
		} else {
			// the generator's own out-of-domain derivers: an HKDF PRF with a derived type without deriver
			prfInfo := keys.DrawTypeUsable(rt, "badprf", "HkdfPrf")
			tmpl := keys.DrawType(rt, "badtmpl", rapid.SampledFrom([]string{"AesCtrHmacAead", "AesGcmSiv", "ChaCha20Poly1305", "XAesGcm", "AesCmac", "AesCmacPrf"}).Draw(rt, "badtype"))
			p, err := prfbasedkeyderivation.NewParameters(prfInfo.Key.Parameters(), tmpl.Key.Parameters())
			if err != nil {
				rt.Fatalf("NewParameters(%s, %s): %v", prfInfo, tmpl, err)
			}
			k, err := prfbasedkeyderivation.NewKey(p, prfInfo.Key, tmpl.ID)
			if err != nil {
				rt.Fatalf("NewKey(%s, %s): %v", prfInfo, tmpl, err)
			}
			bad, badDesc, badID, badHasID = k, fmt.Sprintf("PrfBasedDeriver{prf: %s, derived parameters of (possibly unusable): %s}", prfInfo, tmpl), tmpl.ID, tmpl.HasID
		}
		used := map[uint32]bool{}
		for _, e := range good {
			used[e.id] = true
		}
		// the bad key keeps its own ID requirement; colliding good entries are dropped (never the bad one)
		var entries []*dentry
		for _, e := range good {
			if badHasID && e.id == badID {
				continue
			}
			entries = append(entries, e)
		}
		ksID := badID
		if !badHasID {
			ksID = gen.KeyID(rt, "bad_ksid")
			for used[ksID] {
				ksID++
			}
		}
		at := rapid.IntRange(0, len(entries)).Draw(rt, "bad_position")
		badPrimary := rapid.Bool().Draw(rt, "bad_primary")
		hasPrimary := false
		for _, e := range entries {
			hasPrimary = hasPrimary || e.primary
		}
		if !hasPrimary {
			badPrimary = true
		}
		salt := gen.BytesOrNil(rt, "salt", 100)

		m := keyset.NewManager()
		add := func(k key.Key, id uint32, hasID bool, st keyset.KeyStatus) {
			opts := []keyset.KeyOpts{keyset.WithStatus(st)}
			if !hasID {
				opts = append(opts, keyset.WithFixedID(id))
			}
			if _, err := m.AddKeyWithOpts(k, internalapi.Token{}, opts...); err != nil {
				rt.Fatalf("harness: AddKeyWithOpts(id %#x): %v", id, err)
			}
		}
		primaryID := ksID
		for i := 0; i <= len(entries); i++ {
			if i == at {
				add(bad, ksID, badHasID, keyset.Enabled)
			}
			if i < len(entries) {
				e := entries[i]
				add(e.info.Key, e.id, e.info.HasID, managerStatus(e.status))
				if e.primary && !badPrimary {
					primaryID = e.id
				}
			}
		}
		if err := m.SetPrimary(primaryID); err != nil {
			rt.Fatalf("harness: SetPrimary: %v", err)
		}
		h, err := m.Handle()
		if err != nil {
			rt.Fatalf("harness: Handle: %v", err)
		}
		desc := fmt.Sprintf("bad key (ENABLED, keyset id %#x, position %d, primary=%v): %s; %d other keys; salt=%x", ksID, at, badPrimary, badDesc, len(entries), salt)
		stage := "factory"
		d, err := keyderivation.New(h)
		if err == nil {
			stage = "derive"
			var dh *keyset.Handle
			dh, err = d.DeriveKeyset(salt)
			if err == nil {
				rt.Fatalf("%s\nDeriveKeyset succeeded although the derived-key parameters have no key deriver; derived keyset: %v", desc, dh)
			}
		}
		evid.Case("outofdomain/"+kind+"/"+stage, true, evid.NewH().S(desc).Sum(), func() any {
			return map[string]any{"case": desc, "error": err.Error()}
		})
	})
}
