//go:build go1.26

package c06

import (
	"bytes"
	"encoding/hex"
	"fmt"
	"math/big"
	"testing"

	"pgregory.net/rapid"

	"github.com/tink-crypto/tink-go/v2/aead/aesctrhmac"
	"github.com/tink-crypto/tink-go/v2/aead/aesgcm"
	"github.com/tink-crypto/tink-go/v2/aead/xchacha20poly1305"
	"github.com/tink-crypto/tink-go/v2/daead/aessiv"
	"github.com/tink-crypto/tink-go/v2/hybrid"
	"github.com/tink-crypto/tink-go/v2/hybrid/ecies"
	"github.com/tink-crypto/tink-go/v2/internal/internalapi"
	"github.com/tink-crypto/tink-go/v2/key"
	"github.com/tink-crypto/tink-go/v2/tink"
	"github.com/tink-crypto/tink-go/v2/verifharness/internal/detrand"
	"github.com/tink-crypto/tink-go/v2/verifharness/internal/evid"
	"github.com/tink-crypto/tink-go/v2/verifharness/internal/gen"
	"github.com/tink-crypto/tink-go/v2/verifharness/internal/kf"
	"github.com/tink-crypto/tink-go/v2/verifharness/internal/ref/eciesref"
	"github.com/tink-crypto/tink-go/v2/verifharness/internal/tk"
)

type curveSpec struct {
	name string
	id   ecies.CurveType
	ref  *eciesref.Curve
}

var curveSpecs = []curveSpec{
	{"NIST_P256", ecies.NISTP256, eciesref.P256},
	{"NIST_P384", ecies.NISTP384, eciesref.P384},
	{"NIST_P521", ecies.NISTP521, eciesref.P521},
}

type eciesHash struct {
	name string
	id   ecies.HashType
}

var eciesHashes = []eciesHash{{"SHA1", ecies.SHA1}, {"SHA224", ecies.SHA224}, {"SHA256", ecies.SHA256}, {"SHA384", ecies.SHA384}, {"SHA512", ecies.SHA512}}

type formatSpec struct {
	name string // hybrid/subtle's name = eciesref's name
	id   ecies.PointFormat
}

var formatSpecs = []formatSpec{
	{eciesref.Uncompressed, ecies.UncompressedPointFormat},
	{eciesref.Compressed, ecies.CompressedPointFormat},
	{eciesref.Legacy, ecies.LegacyUncompressedPointFormat},
}

type demSpec struct {
	name   string
	ref    eciesref.DEM
	params func() (key.Parameters, error)
}

// The DEM parameter sets accepted by ecies.NewParameters for which a primitive can be built.
var demSpecs = []demSpec{
	{"AES128_GCM", eciesref.AES128GCM, func() (key.Parameters, error) {
		return aesgcm.NewParameters(aesgcm.ParametersOpts{KeySizeInBytes: 16, IVSizeInBytes: 12, TagSizeInBytes: 16, Variant: aesgcm.VariantNoPrefix})
	}},
	{"AES256_GCM", eciesref.AES256GCM, func() (key.Parameters, error) {
		return aesgcm.NewParameters(aesgcm.ParametersOpts{KeySizeInBytes: 32, IVSizeInBytes: 12, TagSizeInBytes: 16, Variant: aesgcm.VariantNoPrefix})
	}},
	{"AES256_SIV", eciesref.AES256SIV, func() (key.Parameters, error) { return aessiv.NewParameters(64, aessiv.VariantNoPrefix) }},
	{"AES128_CTR_HMAC_SHA256", eciesref.AES128CTRHMAC256, func() (key.Parameters, error) {
		return aesctrhmac.NewParameters(aesctrhmac.ParametersOpts{AESKeySizeInBytes: 16, HMACKeySizeInBytes: 32, IVSizeInBytes: 16, TagSizeInBytes: 16, HashType: aesctrhmac.SHA256, Variant: aesctrhmac.VariantNoPrefix})
	}},
	{"AES256_CTR_HMAC_SHA256", eciesref.AES256CTRHMAC256, func() (key.Parameters, error) {
		return aesctrhmac.NewParameters(aesctrhmac.ParametersOpts{AESKeySizeInBytes: 32, HMACKeySizeInBytes: 32, IVSizeInBytes: 16, TagSizeInBytes: 32, HashType: aesctrhmac.SHA256, Variant: aesctrhmac.VariantNoPrefix})
	}},
}

// xchachaDEM is accepted by ecies.NewParameters but no primitive can be built for it.
func xchachaDEM() (key.Parameters, error) {
	return xchacha20poly1305.NewParameters(xchacha20poly1305.VariantNoPrefix)
}

func eciesVariant(v string) ecies.Variant {
	return map[string]ecies.Variant{tk.Tink: ecies.VariantTink, tk.Crunchy: ecies.VariantCrunchy, tk.NoPrefix: ecies.VariantNoPrefix}[v]
}

type eciesCase struct {
	curve   curveSpec
	hash    eciesHash
	format  formatSpec
	dem     demSpec
	salt    []byte
	variant string
	id      uint32
	route   string
	priv    []byte
	x, y    *big.Int
	ref     eciesref.Params
	kemLen  int

	enc tink.HybridEncrypt
	dec tink.HybridDecrypt
}

func (c *eciesCase) String() string {
	salt := "nil"
	if c.salt != nil {
		salt = "0x" + hex.EncodeToString(c.salt)
	}
	return fmt.Sprintf("ECIES %s hkdf=%s format=%s dem=%s salt=%s variant=%s id=%#x route=%s private=%x public=(%x,%x)", c.curve.name, c.hash.name, c.format.name, c.dem.name, salt, c.variant, c.id, c.route, c.priv, c.x, c.y)
}

func (c *eciesCase) prefix() []byte { return tk.Prefix(c.variant, c.id) }

func buildECIES(cv curveSpec, h eciesHash, f formatSpec, d demSpec, salt []byte, variant string, id uint32, route string, priv []byte) (*eciesCase, error) {
	c := &eciesCase{curve: cv, hash: h, format: f, dem: d, salt: salt, variant: variant, id: id, route: route, priv: priv}
	c.ref = eciesref.Params{Curve: cv.ref, Hash: h.name, Format: f.name, DEM: d.ref, Salt: salt}
	var err error
	if c.x, c.y, err = cv.ref.PublicFromPrivate(priv); err != nil {
		return nil, fmt.Errorf("reference public key: %w", err)
	}
	c.kemLen, _ = cv.ref.EncodedLen(f.name)
	demParams, err := d.params()
	if err != nil {
		return nil, fmt.Errorf("DEM parameters: %w", err)
	}
	params, err := ecies.NewParameters(ecies.ParametersOpts{CurveType: cv.id, HashType: h.id, NISTCurvePointFormat: f.id, DEMParameters: demParams, Salt: salt, Variant: eciesVariant(variant)})
	if err != nil {
		return nil, fmt.Errorf("NewParameters: %w", err)
	}
	sk, err := ecies.NewPrivateKey(tk.Secret(priv), id, params)
	if err != nil {
		return nil, fmt.Errorf("NewPrivateKey: %w", err)
	}
	point, _ := cv.ref.Encode(eciesref.Uncompressed, c.x, c.y)
	pk, err := ecies.NewPublicKey(point, id, params)
	if err != nil {
		return nil, fmt.Errorf("NewPublicKey(reference point): %w", err)
	}
	derived, err := sk.PublicKey()
	if err != nil {
		return nil, err
	}
	if !bytes.Equal(derived.(*ecies.PublicKey).PublicKeyBytes(), point) {
		return nil, fmt.Errorf("public point derived by Tink %x differs from the independent derivation %x", derived.(*ecies.PublicKey).PublicKeyBytes(), point)
	}
	switch route {
	case "handle":
		ph, err := tk.HandleFromKey(pk)
		if err != nil {
			return nil, err
		}
		if c.enc, err = hybrid.NewHybridEncrypt(ph); err != nil {
			return nil, fmt.Errorf("hybrid.NewHybridEncrypt: %w", err)
		}
		sh, err := tk.HandleFromKey(sk)
		if err != nil {
			return nil, err
		}
		if c.dec, err = hybrid.NewHybridDecrypt(sh); err != nil {
			return nil, fmt.Errorf("hybrid.NewHybridDecrypt: %w", err)
		}
	case "key":
		if c.enc, err = ecies.NewHybridEncrypt(pk, internalapi.Token{}); err != nil {
			return nil, fmt.Errorf("ecies.NewHybridEncrypt: %w", err)
		}
		if c.dec, err = ecies.NewHybridDecrypt(sk, internalapi.Token{}); err != nil {
			return nil, fmt.Errorf("ecies.NewHybridDecrypt: %w", err)
		}
	default:
		return nil, fmt.Errorf("unknown route %s", route)
	}
	return c, nil
}

func drawSalt(t *rapid.T) []byte {
	switch rapid.IntRange(0, 19).Draw(t, "salt_kind") {
	case 0, 1, 2, 3:
		return nil
	case 4, 5, 6, 7:
		return []byte{}
	case 8:
		// longer than the block of every HKDF hash (64 / 128 bytes): HMAC hashes such a key first
		return gen.BytesN(t, "salt", rapid.SampledFrom([]int{129, 200}).Draw(t, "salt_longlen"))
	default:
		return gen.BytesN(t, "salt", rapid.IntRange(1, 80).Draw(t, "salt_len"))
	}
}

func drawECIES(t *rapid.T) *eciesCase {
	cv := rapid.SampledFrom(curveSpecs).Draw(t, "curve")
	h := rapid.SampledFrom(eciesHashes).Draw(t, "hash")
	f := rapid.SampledFrom(formatSpecs).Draw(t, "format")
	d := rapid.SampledFrom(demSpecs).Draw(t, "dem")
	salt := drawSalt(t)
	variant := rapid.SampledFrom(threeVariants).Draw(t, "variant")
	route := rapid.SampledFrom([]string{"handle", "key"}).Draw(t, "route")
	id := uint32(0)
	if variant != tk.NoPrefix {
		id = gen.KeyID(t, "id")
	}
	priv := drawScalar(t, "private", cv.ref.N, cv.ref.Size)
	c, err := buildECIES(cv, h, f, d, salt, variant, id, route, priv)
	if err != nil {
		t.Fatalf("ECIES %s %s %s %s salt=%x variant=%s id=%#x route=%s private=%x: construction failed inside the accepted domain: %v", cv.name, h.name, f.name, d.name, salt, variant, id, route, priv, err)
	}
	return c
}

// pointCandidates replaces the encoded ephemeral point of a genuine ciphertext by related encodings.
// Every one of them changes the bytes that enter the key derivation, so all must fail.
func pointCandidates(r *rejecter, cv *eciesref.Curve, format string, head, kem, dem, info []byte) {
	x, y, err := cv.Decode(format, kem)
	if err != nil {
		r.t.Fatalf("%s\nephemeral point %x is not a valid %s encoding: %v", r.desc(), kem, format, err)
	}
	fix := func(v *big.Int) []byte { return v.FillBytes(make([]byte, cv.Size)) }
	with := func(kind string, k []byte) { r.costly(kind, cat(head, k, dem), info) }
	negY := new(big.Int).Sub(cv.P, y)
	y1 := new(big.Int).Mod(new(big.Int).Add(y, big.NewInt(1)), cv.P)
	xp := new(big.Int).Add(x, cv.P)
	yp := new(big.Int).Add(y, cv.P)
	fits := func(v *big.Int) bool { return v.BitLen() <= 8*cv.Size }
	with("point-zero", make([]byte, len(kem)))
	with("point-ff", bytes.Repeat([]byte{0xff}, len(kem)))
	switch format {
	case eciesref.Uncompressed:
		with("point-negated", cat([]byte{4}, fix(x), fix(negY)))
		with("point-origin", cat([]byte{4}, make([]byte, 2*cv.Size)))
		with("point-off-curve", cat([]byte{4}, fix(x), fix(y1)))
		with("point-swapped-xy", cat([]byte{4}, fix(y), fix(x)))
		for _, b := range []byte{0, 2, 3, 5, 6, 7} {
			with("point-first-byte", cat([]byte{b}, kem[1:]))
		}
		with("point-x-is-p", cat([]byte{4}, fix(cv.P), fix(y)))
		if fits(xp) {
			with("point-x-plus-p", cat([]byte{4}, fix(xp), fix(y)))
		}
		if fits(yp) {
			with("point-y-plus-p", cat([]byte{4}, fix(x), fix(yp)))
		}
		r.costly("point-without-04", cat(head, kem[1:], dem), info)
		cp, _ := cv.Encode(eciesref.Compressed, x, y)
		r.costly("point-compressed-form", cat(head, cp, dem), info)
	case eciesref.Legacy:
		with("point-negated", cat(fix(x), fix(negY)))
		with("point-off-curve", cat(fix(x), fix(y1)))
		with("point-swapped-xy", cat(fix(y), fix(x)))
		with("point-x-is-p", cat(fix(cv.P), fix(y)))
		if fits(xp) {
			with("point-x-plus-p", cat(fix(xp), fix(y)))
		}
		if fits(yp) {
			with("point-y-plus-p", cat(fix(x), fix(yp)))
		}
		r.costly("point-with-04", cat(head, []byte{4}, kem, dem), info)
		r.costly("point-04-overwrites", cat(head, []byte{4}, kem[:len(kem)-1], dem), info)
	case eciesref.Compressed:
		with("point-other-parity", cat([]byte{kem[0] ^ 1}, kem[1:])) // the negated point: same shared x, other kem bytes
		for _, b := range []byte{0, 1, 4, 5, 6, 7, 0x82, 0x83} {
			with("point-first-byte", cat([]byte{b}, kem[1:]))
		}
		with("point-x-is-p", cat([]byte{kem[0]}, fix(cv.P)))
		if fits(xp) {
			with("point-x-plus-p", cat([]byte{kem[0]}, fix(xp)))
		}
		// an abscissa with no point on the curve: walk from x until the curve equation has no root
		for i, nx := 0, new(big.Int).Set(x); i < 64; i++ {
			nx = new(big.Int).Mod(new(big.Int).Add(nx, big.NewInt(1)), cv.P)
			if _, _, err := cv.Decode(eciesref.Compressed, cat([]byte{2}, fix(nx))); err != nil {
				with("point-x-without-point", cat([]byte{kem[0]}, fix(nx)))
				break
			}
		}
		un, _ := cv.Encode(eciesref.Uncompressed, x, y)
		r.costly("point-uncompressed-form", cat(head, un, dem), info)
	}
}

func checkECIES(t *rapid.T, c *eciesCase, pt, info []byte) int {
	desc := func() string { return fmt.Sprintf("%v\npt=%s info=%s", c, fullHex(pt), fullHex(info)) }
	prefix := c.prefix()
	plen := len(prefix)
	ct, err := c.enc.Encrypt(pt, info)
	if err != nil {
		t.Fatalf("%s\nEncrypt failed: %v", desc(), err)
	}
	if want := plen + c.kemLen + c.dem.ref.Overhead() + len(pt); len(ct) != want {
		t.Fatalf("%s\nlen(ciphertext)=%d, the format prefix||point||DEM says %d", desc(), len(ct), want)
	}
	if !bytes.HasPrefix(ct, prefix) {
		t.Fatalf("%s\nciphertext %s does not start with prefix %x", desc(), gen.Hex(ct), prefix)
	}
	got, err := c.dec.Decrypt(ct, info)
	if err != nil || !bytes.Equal(got, pt) {
		t.Fatalf("%s\nDecrypt(Encrypt(pt)) = %s, %v; ciphertext %s", desc(), fullHex(got), err, fullHex(ct))
	}
	if len(info) == 0 {
		other := []byte{}
		if info != nil {
			other = nil
		}
		if got, err := c.dec.Decrypt(ct, other); err != nil || !bytes.Equal(got, pt) {
			t.Fatalf("%s\nnil and empty context info not interchangeable: %s, %v", desc(), fullHex(got), err)
		}
	}
	// Tink -> reference, and the exact DEM bytes under the key the reference derives
	raw := ct[plen:]
	kem, dem := raw[:c.kemLen], raw[c.kemLen:]
	if got, err := eciesref.Open(c.ref, c.priv, info, raw); err != nil || !bytes.Equal(got, pt) {
		t.Fatalf("%s\nthe ECIES reference cannot open Tink's ciphertext %s: %s, %v", desc(), fullHex(ct), fullHex(got), err)
	}
	ex, ey, err := c.curve.ref.Decode(c.format.name, kem)
	if err != nil {
		t.Fatalf("%s\nephemeral point %x invalid: %v", desc(), kem, err)
	}
	if canon, _ := c.curve.ref.Encode(c.format.name, ex, ey); !bytes.Equal(canon, kem) {
		t.Fatalf("%s\nephemeral point %x is not the canonical %s encoding %x", desc(), kem, c.format.name, canon)
	}
	dh, err := c.curve.ref.ECDH(c.priv, ex, ey)
	if err != nil {
		t.Fatal(err)
	}
	dkey, err := c.ref.DeriveKey(kem, dh, info)
	if err != nil {
		t.Fatal(err)
	}
	if want, _ := c.dem.ref.Seal(dkey, dem[:c.dem.ref.IV], pt); !bytes.Equal(want, dem) {
		t.Fatalf("%s\nDEM part %x differs from the reference's encryption under the same ephemeral point and IV: %x", desc(), dem, want)
	}
	// reference -> Tink with a fresh ephemeral key and IV
	eph := drawScalar(t, "ref_ephemeral", c.curve.ref.N, c.curve.ref.Size)
	iv := gen.BytesN(t, "ref_iv", c.dem.ref.IV)
	rraw, err := eciesref.Seal(c.ref, c.x, c.y, info, pt, eph, iv)
	if err != nil {
		t.Fatalf("%s\nreference Seal: %v", desc(), err)
	}
	rct := cat(prefix, rraw)
	if got, err := c.dec.Decrypt(rct, info); err != nil || !bytes.Equal(got, pt) {
		t.Fatalf("%s\nTink cannot decrypt the reference's ciphertext %s (ephemeral scalar %x): %s, %v", desc(), fullHex(rct), eph, fullHex(got), err)
	}

	// --- everything else must be refused -------------------------------------------------------
	r := newRejecter(t, c.dec, desc)
	r.light = c.curve.ref != eciesref.P256
	r.genuine(ct, info)
	r.genuine(rct, info)
	tagLen := c.dem.ref.Tag
	if c.dem.ref.Kind == "AES_SIV" {
		tagLen = 0 // the SIV leads the DEM ciphertext
	}
	structural(t, r, layout{plen: plen, kemLen: c.kemLen, tagLen: tagLen}, c.variant, c.id, ct, info, c.curve.ref == eciesref.P256)
	pointCandidates(r, c.curve.ref, c.format.name, ct[:plen], kem, dem, info)
	if !bytes.Equal(rraw[:c.kemLen], kem) {
		r.costly("splice-point", cat(prefix, rraw[:c.kemLen], dem), info)
		r.costly("splice-dem", cat(prefix, kem, rraw[c.kemLen:]), info)
	}
	// reference ciphertexts under neighbouring parameters. HMAC pads its key with zero bytes, so a
	// salt can be equivalent to another one (nil = empty = 0x00 = 0x0000..): a neighbour counts only
	// if the reference itself cannot open it under the case's parameters.
	alt := func(kind string, p eciesref.Params, altInfo []byte) {
		araw, err := eciesref.Seal(p, c.x, c.y, altInfo, pt, eph, iv)
		if err != nil {
			return
		}
		if _, err := eciesref.Open(c.ref, c.priv, info, araw); err != nil {
			r.costly(kind, cat(prefix, araw), info)
		}
	}
	with := func(hash string, salt []byte) eciesref.Params {
		return eciesref.Params{Curve: c.ref.Curve, Hash: hash, Format: c.ref.Format, DEM: c.ref.DEM, Salt: salt}
	}
	alt("ref-other-salt", with(c.ref.Hash, cat(c.salt, []byte{1})), info)
	alt("ref-other-hash", with(otherHash(c.ref.Hash), c.salt), info)
	if len(c.salt) > 0 {
		alt("ref-no-salt", with(c.ref.Hash, nil), info)
		alt("ref-salt-info-exchanged", with(c.ref.Hash, info), c.salt)
	}
	// another recipient's private key, same parameters and prefix
	priv2 := c.otherPrivate(t)
	o, err := buildECIES(c.curve, c.hash, c.format, c.dem, c.salt, c.variant, c.id, c.route, priv2)
	if err != nil {
		t.Fatalf("%s\nother key pair private=%x: %v", desc(), priv2, err)
	}
	r.mustRejectWith(o.dec, "other-private-key", ct, info)
	oct, err := o.enc.Encrypt(pt, info)
	if err != nil {
		t.Fatalf("%s\nother key Encrypt: %v", desc(), err)
	}
	r.mustReject("ciphertext-for-other-key", oct, info)
	r.record()
	reuseAfterRejects(t, desc, c.enc, c.dec, ct, rct, pt, info, func(x []byte) ([]byte, error) {
		if !bytes.HasPrefix(x, prefix) {
			return nil, fmt.Errorf("ciphertext does not start with the prefix %x", prefix)
		}
		return eciesref.Open(c.ref, c.priv, info, x[plen:])
	})
	return r.n
}

// otherPrivate returns a scalar d2 with d2 != d and d2 != n-d. The negated scalar is left out on
// purpose: it has the public point (x, p-y), the ECDH x-coordinate is the same for d and n-d, and
// the recipient's public key does not enter the ECIES key derivation, so n-d decrypts whatever d
// decrypts (see TestECIESNegatedKey).
func (c *eciesCase) otherPrivate(t *rapid.T) []byte {
	n := c.curve.ref.N
	d := new(big.Int).SetBytes(c.priv)
	neg := new(big.Int).Sub(n, d)
	v := new(big.Int).SetBytes(otherScalar(t, "other_private", c.priv, n))
	for v.Cmp(d) == 0 || v.Cmp(neg) == 0 { // at most two steps
		v.Mod(v, new(big.Int).Sub(n, big.NewInt(1))).Add(v, big.NewInt(1))
	}
	return v.FillBytes(make([]byte, len(c.priv)))
}

func otherHash(h string) string {
	if h == "SHA256" {
		return "SHA512"
	}
	return "SHA256"
}

func TestECIES(t *testing.T) {
	rapid.Check(t, func(rt *rapid.T) {
		detrand.Seed(rapid.Uint64().Draw(rt, "entropy"))
		c := drawECIES(rt)
		pt := drawPlaintext(rt)
		info := drawInfo(rt)
		n := checkECIES(rt, c, pt, info)
		saltClass := "salt"
		if c.salt == nil {
			saltClass = "nosalt"
		} else if len(c.salt) == 0 {
			saltClass = "emptysalt"
		}
		class := fmt.Sprintf("%s/%s/%s/%s/%s", c.curve.name, c.hash.name, c.format.name, c.dem.name, c.variant)
		evid.Add("salt_"+saltClass, 1)
		evid.Add("route_"+c.route, 1)
		evid.Add("info_"+infoClass(info), 1)
		evid.Add("pt_"+gen.LenClass(len(pt)), 1)
		evid.Case(class, true, evid.NewH().S(c.String()).B(pt).B(info).S(infoClass(info)).Sum(), func() any {
			return map[string]any{"case": c.String(), "pt": gen.Hex(pt), "info": gen.Hex(info), "candidates": n}
		})
	})
}

const propID = "C06"

// TestECIESNegatedKey: the property says that another private key yields an error. For
// ECIES-AEAD-HKDF the private key n-d is another key (its public point is (x, p-y)) and yet
// decrypts every ciphertext made for d. The check fails unless the coordinator has listed the
// signature as a known finding.
func TestECIESNegatedKey(t *testing.T) {
	const sig = "ecies:negated-private-key-decrypts"
	rapid.Check(t, func(rt *rapid.T) {
		detrand.Seed(rapid.Uint64().Draw(rt, "entropy"))
		c := drawECIES(rt)
		pt := gen.Bytes(rt, "pt", 64)
		info := gen.BytesOrNil(rt, "info", 64)
		ct, err := c.enc.Encrypt(pt, info)
		if err != nil {
			rt.Fatalf("%v: Encrypt: %v", c, err)
		}
		neg := new(big.Int).Sub(c.curve.ref.N, new(big.Int).SetBytes(c.priv)).FillBytes(make([]byte, len(c.priv)))
		if bytes.Equal(neg, c.priv) {
			rt.Skip("n is odd: unreachable")
		}
		o, err := buildECIES(c.curve, c.hash, c.format, c.dem, c.salt, c.variant, c.id, c.route, neg)
		if err != nil {
			rt.Fatalf("%v: negated key %x: %v", c, neg, err)
		}
		if o.y.Cmp(c.y) == 0 || o.x.Cmp(c.x) != 0 {
			rt.Fatalf("%v: negated scalar %x does not have the public point (x, p-y)", c, neg)
		}
		got, err := o.dec.Decrypt(ct, info)
		evid.Case(fmt.Sprintf("negated/%s/%s/%s", c.curve.name, c.format.name, c.dem.name), true, evid.NewH().S(c.String()).B(pt).B(info).Sum(), func() any {
			return map[string]any{"case": c.String(), "negated_private": hex.EncodeToString(neg), "accepted": err == nil}
		})
		if err == nil {
			if kf.Listed(propID, sig) {
				kf.Report(propID, sig)
				return
			}
			rt.Fatalf("%v\npt=%s info=%s ciphertext=%s\nthe other private key n-d=%x (public point (%x,%x)) decrypts it: plaintext %s", c, fullHex(pt), fullHex(info), fullHex(ct), neg, o.x, o.y, fullHex(got))
		}
	})
}
