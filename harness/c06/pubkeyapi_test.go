//go:build go1.26

package c06

// Entry points of the hybrid-encryption code that the other files of this package do not call
// directly:
//   - hybrid/subtle.SerializePrimaryPublicKey and KeysetHandleFromSerializedPublicKey (raw export
//     and import of HPKE public keys for the one template their doc comments list as supported:
//     DHKEM_X25519_HKDF_SHA256 / HKDF_SHA256 / CHACHA20_POLY1305, output prefix RAW);
//   - hybrid.NewHybridEncryptWithConfig / NewHybridDecryptWithConfig with the library's own
//     internal/config/hybridconfig.V0() (the registry-free construction path);
// hybrid/internal/hpke.NewEncrypt / NewDecrypt cannot be imported from this module (Go's internal
// rule: only packages below .../v2/hybrid may); every HPKE case of this package reaches them
// through hybrid/hpke.NewHybridEncrypt / NewHybridDecrypt.

import (
	"bytes"
	stdhpke "crypto/hpke"
	"fmt"
	"strings"
	"testing"

	"google.golang.org/protobuf/proto"
	"pgregory.net/rapid"

	"github.com/tink-crypto/tink-go/v2/aead"
	"github.com/tink-crypto/tink-go/v2/aead/aesgcm"
	"github.com/tink-crypto/tink-go/v2/hybrid"
	"github.com/tink-crypto/tink-go/v2/hybrid/ecies"
	"github.com/tink-crypto/tink-go/v2/hybrid/hpke"
	hybridsubtle "github.com/tink-crypto/tink-go/v2/hybrid/subtle"
	"github.com/tink-crypto/tink-go/v2/internal/config"
	"github.com/tink-crypto/tink-go/v2/internal/config/aeadconfig"
	"github.com/tink-crypto/tink-go/v2/internal/config/hybridconfig"
	"github.com/tink-crypto/tink-go/v2/internal/internalapi"
	"github.com/tink-crypto/tink-go/v2/internal/protoserialization"
	"github.com/tink-crypto/tink-go/v2/key"
	"github.com/tink-crypto/tink-go/v2/keyset"
	tinkpb "github.com/tink-crypto/tink-go/v2/proto/tink_go_proto"
	"github.com/tink-crypto/tink-go/v2/tink"
	"github.com/tink-crypto/tink-go/v2/verifharness/internal/detrand"
	"github.com/tink-crypto/tink-go/v2/verifharness/internal/evid"
	"github.com/tink-crypto/tink-go/v2/verifharness/internal/gen"
	"github.com/tink-crypto/tink-go/v2/verifharness/internal/ref/eciesref"
	"github.com/tink-crypto/tink-go/v2/verifharness/internal/ref/hpkeref"
	"github.com/tink-crypto/tink-go/v2/verifharness/internal/tk"
)

// ---------------------------------------------------------------------------------------------
// the supported template, in the forms a caller can hand it over
// ---------------------------------------------------------------------------------------------

const hpkePrivateTypeURL = "type.googleapis.com/google.crypto.tink.HpkePrivateKey"

var (
	supKEM  = kemSpecs[3]  // DHKEM_X25519_HKDF_SHA256
	supKDF  = kdfSpecs[0]  // HKDF_SHA256
	supAEAD = aeadSpecs[2] // CHACHA20_POLY1305
)

func isSupportedSuite(k kemSpec, d kdfSpec, a aeadSpec, variant string) bool {
	return k.ref == supKEM.ref && d.ref == supKDF.ref && a.ref == supAEAD.ref && variant == tk.NoPrefix
}

func supportedParams() (*hpke.Parameters, error) {
	return hpke.NewParameters(hpke.ParametersOpts{KEMID: supKEM.id, KDFID: supKDF.id, AEADID: supAEAD.id, Variant: hpke.VariantNoPrefix})
}

type templateForm struct {
	name string
	make func() (*tinkpb.KeyTemplate, error)
}

// All three denote the template the doc comments name. The second and third are used only if
// they are proto.Equal to the first (the documented one), see supportedForms.
var allSupportedForms = []templateForm{
	{"template-func", func() (*tinkpb.KeyTemplate, error) {
		return hybrid.DHKEM_X25519_HKDF_SHA256_HKDF_SHA256_CHACHA20_POLY1305_Raw_Key_Template(), nil
	}},
	// HpkeKeyFormat{params{kem=1 DHKEM_X25519_HKDF_SHA256, kdf=1 HKDF_SHA256, aead=3 CHACHA20_POLY1305}}, written out by hand
	{"literal-proto", func() (*tinkpb.KeyTemplate, error) {
		return &tinkpb.KeyTemplate{TypeUrl: hpkePrivateTypeURL, Value: []byte{0x0a, 0x06, 0x08, 0x01, 0x10, 0x01, 0x18, 0x03}, OutputPrefixType: tinkpb.OutputPrefixType_RAW}, nil
	}},
	{"serialized-parameters", func() (*tinkpb.KeyTemplate, error) {
		p, err := supportedParams()
		if err != nil {
			return nil, err
		}
		return protoserialization.SerializeParameters(p)
	}},
}

func supportedForms() []templateForm {
	documented, _ := allSupportedForms[0].make()
	out := []templateForm{allSupportedForms[0]}
	for _, f := range allSupportedForms[1:] {
		if t, err := f.make(); err == nil && proto.Equal(t, documented) {
			out = append(out, f)
		}
	}
	return out
}

func templateString(t *tinkpb.KeyTemplate) string {
	if t == nil {
		return "nil template"
	}
	return fmt.Sprintf("KeyTemplate{type_url=%q value=%x output_prefix_type=%d}", t.GetTypeUrl(), t.GetValue(), int32(t.GetOutputPrefixType()))
}

// ---------------------------------------------------------------------------------------------
// keysets of HPKE keys with a chosen primary
// ---------------------------------------------------------------------------------------------

type pkEntry struct {
	kem      kemSpec
	kdf      kdfSpec
	aead     aeadSpec
	variant  string
	keysetID uint32
	sk, pk   []byte // pk is derived from sk by the independent reference
	disabled bool
	priv     *hpke.PrivateKey
	pub      *hpke.PublicKey // built from the reference's pk bytes
}

func (e *pkEntry) String() string {
	st := "enabled"
	if e.disabled {
		st = "disabled"
	}
	return fmt.Sprintf("%s/%s/%s %s keyset-id=%#x %s private=%x public=%s", e.kem.name, e.kdf.name, e.aead.name, e.variant, e.keysetID, st, e.sk, fullHex(e.pk))
}

// newEntry builds both key objects for (suite, variant, keyset id, private key bytes).
func newEntry(k kemSpec, d kdfSpec, a aeadSpec, variant string, keysetID uint32, sk []byte) (*pkEntry, error) {
	e := &pkEntry{kem: k, kdf: d, aead: a, variant: variant, keysetID: keysetID, sk: sk}
	var err error
	if e.pk, err = hpkeref.PublicFromPrivate(k.ref, sk); err != nil {
		return nil, fmt.Errorf("reference public key: %w", err)
	}
	params, err := hpke.NewParameters(hpke.ParametersOpts{KEMID: k.id, KDFID: d.id, AEADID: a.id, Variant: hpkeVariant(variant)})
	if err != nil {
		return nil, fmt.Errorf("NewParameters: %w", err)
	}
	idReq := uint32(0)
	if variant != tk.NoPrefix {
		idReq = keysetID
	}
	if e.priv, err = hpke.NewPrivateKey(tk.Secret(sk), idReq, params); err != nil {
		return nil, fmt.Errorf("NewPrivateKey: %w", err)
	}
	if e.pub, err = hpke.NewPublicKey(e.pk, idReq, params); err != nil {
		return nil, fmt.Errorf("NewPublicKey(reference public key bytes): %w", err)
	}
	return e, nil
}

type pubKeyset struct {
	entries []*pkEntry
	primary int
	shape   string // how the public handle was obtained
	sh, ph  *keyset.Handle
}

func (ks *pubKeyset) String() string {
	var b strings.Builder
	fmt.Fprintf(&b, "keyset shape=%s, %d entries, primary at index %d", ks.shape, len(ks.entries), ks.primary)
	for i, e := range ks.entries {
		fmt.Fprintf(&b, "\n  [%d] %v", i, e)
	}
	return b.String()
}

func handleOf(entries []*pkEntry, primary int, private bool) (*keyset.Handle, error) {
	m := keyset.NewManager()
	for i, e := range entries {
		opts := []keyset.KeyOpts{keyset.WithFixedID(e.keysetID)}
		if e.disabled {
			opts = append(opts, keyset.WithStatus(keyset.Disabled))
		}
		if i == primary {
			opts = append(opts, keyset.AsPrimary())
		}
		var k key.Key = e.pub
		if private {
			k = e.priv
		}
		if _, err := m.AddKeyWithOpts(k, internalapi.Token{}, opts...); err != nil {
			return nil, fmt.Errorf("AddKeyWithOpts(entry %d): %w", i, err)
		}
	}
	return m.Handle()
}

// finish builds the private handle and the public handle (directly from public key objects, or as
// the private handle's Public()).
func (ks *pubKeyset) finish(fromPrivate bool) error {
	var err error
	if ks.sh, err = handleOf(ks.entries, ks.primary, true); err != nil {
		return fmt.Errorf("private handle: %w", err)
	}
	if fromPrivate {
		ks.shape += "/Public()"
		if ks.ph, err = ks.sh.Public(); err != nil {
			return fmt.Errorf("Public(): %w", err)
		}
		return nil
	}
	ks.shape += "/direct"
	if ks.ph, err = handleOf(ks.entries, ks.primary, false); err != nil {
		return fmt.Errorf("public handle: %w", err)
	}
	return nil
}

// keysetIDs are distinct by construction (an odd multiplier is a bijection on uint32).
func keysetIDs(t *rapid.T, n int) []uint32 {
	base := gen.KeyID(t, "base_id")
	out := make([]uint32, n)
	for i := range out {
		out[i] = base + uint32(i)*0x01000193
	}
	return out
}

// otherX25519 returns private key bytes whose public key differs from pk.
func otherX25519(t *rapid.T, label string, sk, pk []byte) ([]byte, bool) {
	sk2 := otherBytes(t, label, sk)
	pk2, err := hpkeref.PublicFromPrivate(hpkeref.KEMX25519, sk2)
	if err == nil && bytes.Equal(pk2, pk) { // the difference fell on bits that clamping discards
		sk2[1] ^= 1
		pk2, err = hpkeref.PublicFromPrivate(hpkeref.KEMX25519, sk2)
	}
	return sk2, err == nil && !bytes.Equal(pk2, pk)
}

// drawExtra draws a non-primary entry. Half of them are keys of the supported suite with other key
// material: exactly the entries that a wrong choice of entry would serialize without any error.
func drawExtra(t *rapid.T, i int, id uint32, main *pkEntry) *pkEntry {
	label := fmt.Sprintf("extra%d", i)
	var e *pkEntry
	var err error
	if rapid.Bool().Draw(t, label+"_same_suite") {
		ref := main.sk
		if main.kem.ref != supKEM.ref {
			ref = make([]byte, 32)
		}
		refPk, _ := hpkeref.PublicFromPrivate(hpkeref.KEMX25519, ref)
		sk2, ok := otherX25519(t, label+"_private", ref, refPk)
		if !ok {
			t.Skip("could not derive a second X25519 public key")
		}
		e, err = newEntry(supKEM, supKDF, supAEAD, tk.NoPrefix, id, sk2)
	} else {
		k := rapid.SampledFrom(kemSpecs).Draw(t, label+"_kem")
		d := rapid.SampledFrom(kdfSpecs).Draw(t, label+"_kdf")
		a := rapid.SampledFrom(aeadSpecs).Draw(t, label+"_aead")
		v := rapid.SampledFrom(threeVariants).Draw(t, label+"_variant")
		e, err = newEntry(k, d, a, v, id, drawHPKEPrivate(t, label+"_private", k))
	}
	if err != nil {
		t.Fatalf("extra keyset entry: construction failed inside the accepted domain: %v", err)
	}
	e.disabled = rapid.IntRange(0, 3).Draw(t, label+"_disabled") == 0
	return e
}

// drawKeysetAround places main at a drawn position among 0..3 drawn other entries.
func drawKeysetAround(t *rapid.T, mk func(id uint32) *pkEntry) *pubKeyset {
	n := 1 + rapid.SampledFrom([]int{0, 0, 1, 1, 2, 3}).Draw(t, "extras")
	ids := keysetIDs(t, n)
	ks := &pubKeyset{primary: rapid.IntRange(0, n-1).Draw(t, "primary_index"), shape: "single"}
	if n > 1 {
		ks.shape = "multi"
	}
	main := mk(ids[ks.primary])
	for i := 0; i < n; i++ {
		if i == ks.primary {
			ks.entries = append(ks.entries, main)
		} else {
			ks.entries = append(ks.entries, drawExtra(t, i, ids[i], main))
		}
	}
	if err := ks.finish(rapid.Bool().Draw(t, "public_from_private")); err != nil {
		t.Fatalf("%v\nkeyset construction failed inside the accepted domain: %v", ks, err)
	}
	return ks
}

func supportedEntry(t *rapid.T) func(id uint32) *pkEntry {
	sk := gen.BytesN(t, "private", 32)
	return func(id uint32) *pkEntry {
		e, err := newEntry(supKEM, supKDF, supAEAD, tk.NoPrefix, id, sk)
		if err != nil {
			t.Fatalf("supported key private=%x: construction failed inside the accepted domain: %v", sk, err)
		}
		return e
	}
}

// configV0 returns the library's own registry-free configuration for hybrid encryption.
func configV0() keyset.Config {
	c := hybridconfig.V0()
	return &c
}

// ---------------------------------------------------------------------------------------------
// TestPublicKeyAPI: export and import inside the documented contract
// ---------------------------------------------------------------------------------------------

func TestPublicKeyAPI(t *testing.T) {
	forms := supportedForms()
	rapid.Check(t, func(rt *rapid.T) {
		detrand.Seed(rapid.Uint64().Draw(rt, "entropy"))
		ks := drawKeysetAround(rt, supportedEntry(rt))
		main := ks.entries[ks.primary]
		exportForm := rapid.SampledFrom(forms).Draw(rt, "export_template")
		importForm := rapid.SampledFrom(forms).Draw(rt, "import_template")
		factory := rapid.SampledFrom([]string{"registry", "configV0"}).Draw(rt, "factory")
		pt := drawPlaintext(rt)
		info := gen.BytesOrNil(rt, "info", 128)
		desc := func() string {
			return fmt.Sprintf("%v\nexport template=%s import template=%s factory=%s\npt=%s info=%s", ks, exportForm.name, importForm.name, factory, fullHex(pt), fullHex(info))
		}
		exportT, _ := exportForm.make()
		importT, _ := importForm.make()

		// 1. export: exactly the raw public key of the primary entry
		got, err := hybridsubtle.SerializePrimaryPublicKey(ks.ph, exportT)
		if err != nil {
			rt.Fatalf("%s\nSerializePrimaryPublicKey(%s) failed: %v", desc(), templateString(exportT), err)
		}
		if !bytes.Equal(got, main.pk) {
			rt.Fatalf("%s\nSerializePrimaryPublicKey = %x, the primary's public key (derived independently from its private key) is %x", desc(), got, main.pk)
		}

		// 2. import
		h2, err := hybridsubtle.KeysetHandleFromSerializedPublicKey(main.pk, importT)
		if err != nil {
			rt.Fatalf("%s\nKeysetHandleFromSerializedPublicKey(%x, %s) failed: %v", desc(), main.pk, templateString(importT), err)
		}
		pe, err := h2.Primary()
		if err != nil {
			rt.Fatalf("%s\nimported handle has no primary: %v", desc(), err)
		}
		// "a primary key that has the specified pubKeyBytes and matches template"
		pk2, ok := pe.Key().(*hpke.PublicKey)
		if !ok {
			rt.Fatalf("%s\nprimary key of the imported handle is a %T", desc(), pe.Key())
		}
		if !bytes.Equal(pk2.PublicKeyBytes(), main.pk) {
			rt.Fatalf("%s\nprimary key of the imported handle has bytes %x, imported %x", desc(), pk2.PublicKeyBytes(), main.pk)
		}
		if want, _ := supportedParams(); !pk2.Parameters().Equal(want) {
			rt.Fatalf("%s\nprimary key of the imported handle has parameters %v, the template says %v", desc(), pk2.Parameters(), want)
		}
		back, err := hybridsubtle.SerializePrimaryPublicKey(h2, exportT)
		if err != nil || !bytes.Equal(back, main.pk) {
			rt.Fatalf("%s\nexport(import(%x)) = %x, %v", desc(), main.pk, back, err)
		}
		var enc tink.HybridEncrypt
		var dec tink.HybridDecrypt
		if factory == "registry" {
			if enc, err = hybrid.NewHybridEncrypt(h2); err != nil {
				rt.Fatalf("%s\nNewHybridEncrypt(imported handle): %v", desc(), err)
			}
			if dec, err = hybrid.NewHybridDecrypt(ks.sh); err != nil {
				rt.Fatalf("%s\nNewHybridDecrypt(private handle): %v", desc(), err)
			}
		} else {
			if enc, err = hybrid.NewHybridEncryptWithConfig(h2, configV0()); err != nil {
				rt.Fatalf("%s\nNewHybridEncryptWithConfig(imported handle, hybridconfig.V0): %v", desc(), err)
			}
			if dec, err = hybrid.NewHybridDecryptWithConfig(ks.sh, configV0()); err != nil {
				rt.Fatalf("%s\nNewHybridDecryptWithConfig(private handle, hybridconfig.V0): %v", desc(), err)
			}
		}
		ct, err := enc.Encrypt(pt, info)
		if err != nil {
			rt.Fatalf("%s\nEncrypt with the imported handle: %v", desc(), err)
		}
		if want := 32 + len(pt) + 16; len(ct) != want { // RAW: enc || ct || tag
			rt.Fatalf("%s\nlen(ciphertext)=%d, the format enc||ct||tag says %d: %s", desc(), len(ct), want, fullHex(ct))
		}
		// (a) the original private handle
		if gotPt, err := dec.Decrypt(ct, info); err != nil || !bytes.Equal(gotPt, pt) {
			rt.Fatalf("%s\nthe original private handle decrypts the imported handle's ciphertext %s to %s, %v", desc(), fullHex(ct), fullHex(gotPt), err)
		}
		// (b) the independent implementations under the suite the template names
		suite := hpkeref.Suite{KEM: hpkeref.KEMX25519, KDF: hpkeref.KDFSHA256, AEAD: hpkeref.AEADChaCha}
		if gotPt, err := hpkeref.Open(suite, main.sk, info, ct); err != nil || !bytes.Equal(gotPt, pt) {
			rt.Fatalf("%s\nthe RFC 9180 reference (X25519/SHA256/ChaCha20Poly1305) cannot open the imported handle's ciphertext %s: %s, %v", desc(), fullHex(ct), fullHex(gotPt), err)
		}
		if gotPt, err := stdOpen(hpkeref.KEMX25519, hpkeref.KDFSHA256, hpkeref.AEADChaCha, main.sk, info, ct); err != nil || !bytes.Equal(gotPt, pt) {
			rt.Fatalf("%s\ncrypto/hpke cannot open the imported handle's ciphertext %s: %s, %v", desc(), fullHex(ct), fullHex(gotPt), err)
		}
		// the exported-from handle itself (possibly several entries, the primary anywhere) encrypts to its primary
		var encOrig tink.HybridEncrypt
		if factory == "registry" {
			encOrig, err = hybrid.NewHybridEncrypt(ks.ph)
		} else {
			encOrig, err = hybrid.NewHybridEncryptWithConfig(ks.ph, configV0())
		}
		if err != nil {
			rt.Fatalf("%s\nencrypting primitive for the original public handle: %v", desc(), err)
		}
		oct, err := encOrig.Encrypt(pt, info)
		if err != nil {
			rt.Fatalf("%s\nEncrypt with the original public handle: %v", desc(), err)
		}
		if gotPt, err := hpkeref.Open(suite, main.sk, info, oct); err != nil || !bytes.Equal(gotPt, pt) {
			rt.Fatalf("%s\nthe RFC 9180 reference cannot open, with the primary's private key, the original public handle's ciphertext %s: %s, %v", desc(), fullHex(oct), fullHex(gotPt), err)
		}
		if gotPt, err := dec.Decrypt(oct, info); err != nil || !bytes.Equal(gotPt, pt) {
			rt.Fatalf("%s\nthe private handle decrypts the original public handle's ciphertext %s to %s, %v", desc(), fullHex(oct), fullHex(gotPt), err)
		}
		// the property's binding of context info and payload also holds for this handle
		r := newRejecter(rt, dec, desc)
		r.genuine(ct, info)
		r.genuine(oct, info)
		r.mustReject("flip-last", flipBit(ct, len(ct)*8-1), info)
		r.mustReject("flip-kem-first", flipBit(ct, 0), info)
		r.mustReject("info-extended-zero", ct, cat(info, []byte{0}))
		r.record()

		evid.Add("keyset_entries", int64(len(ks.entries)))
		if ks.primary > 0 {
			evid.Add("primary_not_first", 1)
		}
		evid.Add("import_"+importForm.name, 1)
		evid.Add("factory_"+factory, 1)
		class := fmt.Sprintf("pubkeyapi/export=%s/%s", exportForm.name, ks.shape)
		evid.Case(class, true, evid.NewH().S(ks.String()).S(exportForm.name).S(importForm.name).S(factory).B(pt).B(info).S(infoClass(info)).Sum(), func() any {
			return map[string]any{"keyset": ks.String(), "export": exportForm.name, "import": importForm.name, "factory": factory, "pt": gen.Hex(pt), "info": gen.Hex(info), "serialized": fmt.Sprintf("%x", got)}
		})
	})
}

func stdOpen(kem, kdf, aeadID uint16, sk, info, ct []byte) ([]byte, error) {
	k, err := stdhpke.NewKEM(kem)
	if err != nil {
		return nil, err
	}
	d, err := stdhpke.NewKDF(kdf)
	if err != nil {
		return nil, err
	}
	a, err := stdhpke.NewAEAD(aeadID)
	if err != nil {
		return nil, err
	}
	priv, err := k.NewPrivateKey(sk)
	if err != nil {
		return nil, err
	}
	return stdhpke.Open(priv, d, a, info, ct)
}

// ---------------------------------------------------------------------------------------------
// TestPublicKeyAPIOutOfContract: whatever the doc comments exclude returns an error (no panic)
// ---------------------------------------------------------------------------------------------

// drawUnsupportedSuite returns an HPKE suite/variant accepted by hpke.NewParameters that is not the
// supported one; most of them differ from it in a single coordinate.
func drawUnsupportedSuite(t *rapid.T) (kemSpec, kdfSpec, aeadSpec, string) {
	k, d, a, v := supKEM, supKDF, supAEAD, tk.NoPrefix
	switch rapid.IntRange(0, 4).Draw(t, "differs_in") {
	case 0:
		k = rapid.SampledFrom([]kemSpec{kemSpecs[0], kemSpecs[1], kemSpecs[2], kemSpecs[4], kemSpecs[5], kemSpecs[6]}).Draw(t, "other_kem")
	case 1:
		d = rapid.SampledFrom(kdfSpecs[1:]).Draw(t, "other_kdf")
	case 2:
		a = rapid.SampledFrom(aeadSpecs[:2]).Draw(t, "other_aead")
	case 3:
		v = rapid.SampledFrom([]string{tk.Tink, tk.Crunchy}).Draw(t, "other_variant")
	default:
		k = rapid.SampledFrom(kemSpecs).Draw(t, "kem")
		d = rapid.SampledFrom(kdfSpecs).Draw(t, "kdf")
		a = rapid.SampledFrom(aeadSpecs).Draw(t, "aead")
		v = rapid.SampledFrom(threeVariants).Draw(t, "variant")
		if isSupportedSuite(k, d, a, v) {
			v = tk.Tink
		}
	}
	return k, d, a, v
}

var otherTemplateFuncs = []struct {
	name string
	make func() *tinkpb.KeyTemplate
}{
	{"DHKEM_P256_HKDF_SHA256_HKDF_SHA256_AES_128_GCM", hybrid.DHKEM_P256_HKDF_SHA256_HKDF_SHA256_AES_128_GCM_Key_Template},
	{"DHKEM_P256_HKDF_SHA256_HKDF_SHA256_AES_128_GCM_Raw", hybrid.DHKEM_P256_HKDF_SHA256_HKDF_SHA256_AES_128_GCM_Raw_Key_Template},
	{"DHKEM_P256_HKDF_SHA256_HKDF_SHA256_AES_256_GCM", hybrid.DHKEM_P256_HKDF_SHA256_HKDF_SHA256_AES_256_GCM_Key_Template},
	{"DHKEM_P256_HKDF_SHA256_HKDF_SHA256_AES_256_GCM_Raw", hybrid.DHKEM_P256_HKDF_SHA256_HKDF_SHA256_AES_256_GCM_Raw_Key_Template},
	{"DHKEM_X25519_HKDF_SHA256_HKDF_SHA256_AES_128_GCM", hybrid.DHKEM_X25519_HKDF_SHA256_HKDF_SHA256_AES_128_GCM_Key_Template},
	{"DHKEM_X25519_HKDF_SHA256_HKDF_SHA256_AES_128_GCM_Raw", hybrid.DHKEM_X25519_HKDF_SHA256_HKDF_SHA256_AES_128_GCM_Raw_Key_Template},
	{"DHKEM_X25519_HKDF_SHA256_HKDF_SHA256_AES_256_GCM", hybrid.DHKEM_X25519_HKDF_SHA256_HKDF_SHA256_AES_256_GCM_Key_Template},
	{"DHKEM_X25519_HKDF_SHA256_HKDF_SHA256_AES_256_GCM_Raw", hybrid.DHKEM_X25519_HKDF_SHA256_HKDF_SHA256_AES_256_GCM_Raw_Key_Template},
	{"DHKEM_X25519_HKDF_SHA256_HKDF_SHA256_CHACHA20_POLY1305 (TINK prefix)", hybrid.DHKEM_X25519_HKDF_SHA256_HKDF_SHA256_CHACHA20_POLY1305_Key_Template},
	{"ECIESHKDFAES128GCM", hybrid.ECIESHKDFAES128GCMKeyTemplate},
	{"ECIESHKDFAES128CTRHMACSHA256", hybrid.ECIESHKDFAES128CTRHMACSHA256KeyTemplate},
	{"aead.AES128GCM", aead.AES128GCMKeyTemplate},
	{"aead.AES256GCMNoPrefix", aead.AES256GCMNoPrefixKeyTemplate},
}

// drawForeignTemplate draws a template that is not the supported one and, for HPKE templates made
// from parameters, the suite it denotes (so that a key matching the template can be built).
type foreignTemplate struct {
	desc    string
	t       *tinkpb.KeyTemplate
	hasHPKE bool
	kem     kemSpec
	kdf     kdfSpec
	aead    aeadSpec
	variant string
}

func drawForeignTemplate(t *rapid.T) foreignTemplate {
	switch rapid.IntRange(0, 5).Draw(t, "template_kind") {
	case 0, 1, 2:
		k, d, a, v := drawUnsupportedSuite(t)
		p, err := hpke.NewParameters(hpke.ParametersOpts{KEMID: k.id, KDFID: d.id, AEADID: a.id, Variant: hpkeVariant(v)})
		if err != nil {
			t.Fatalf("NewParameters(%s/%s/%s %s): %v", k.name, d.name, a.name, v, err)
		}
		tm, err := protoserialization.SerializeParameters(p)
		if err != nil {
			t.Fatalf("SerializeParameters(%v): %v", p, err)
		}
		return foreignTemplate{desc: fmt.Sprintf("serialized parameters %s/%s/%s %s", k.name, d.name, a.name, v), t: tm, hasHPKE: true, kem: k, kdf: d, aead: a, variant: v}
	case 3:
		f := rapid.SampledFrom(otherTemplateFuncs).Draw(t, "template_func")
		return foreignTemplate{desc: "template function " + f.name, t: f.make()}
	case 4:
		// the supported key format under another type URL or output prefix type
		tm, _ := allSupportedForms[0].make()
		which := rapid.IntRange(0, 3).Draw(t, "edit")
		switch which {
		case 0:
			tm.TypeUrl = rapid.SampledFrom([]string{"", "type.googleapis.com/google.crypto.tink.HpkePublicKey", "type.googleapis.com/google.crypto.tink.HpkePrivateKe", hpkePrivateTypeURL + "x", "google.crypto.tink.HpkePrivateKey"}).Draw(t, "type_url")
		case 1:
			tm.OutputPrefixType = tinkpb.OutputPrefixType(rapid.SampledFrom([]int32{0, 1, 2, 4, 5, 6, 100, -1}).Draw(t, "output_prefix_type"))
		case 2:
			tm.Value = []byte{} // HpkeKeyFormat without params
		default:
			return foreignTemplate{desc: "nil template", t: nil}
		}
		return foreignTemplate{desc: "edited supported template: " + templateString(tm), t: tm}
	default:
		tm := &tinkpb.KeyTemplate{TypeUrl: hpkePrivateTypeURL, Value: gen.Bytes(t, "template_value", 24), OutputPrefixType: tinkpb.OutputPrefixType_RAW}
		return foreignTemplate{desc: "drawn key format bytes: " + templateString(tm), t: tm}
	}
}

// denotesSupported reports whether a template, whatever its bytes, parses to exactly the supported
// parameters (a drawn key format could): such a candidate is inside the contract and is skipped.
func denotesSupported(tm *tinkpb.KeyTemplate) bool {
	if tm == nil {
		return false
	}
	p, err := protoserialization.ParseParameters(tm)
	if err != nil {
		return false
	}
	want, _ := supportedParams()
	return p.Equal(want)
}

func aesGCMHandle(t *rapid.T) *keyset.Handle {
	p, err := aesgcm.NewParameters(aesgcm.ParametersOpts{KeySizeInBytes: 16, IVSizeInBytes: 12, TagSizeInBytes: 16, Variant: aesgcm.VariantNoPrefix})
	if err != nil {
		t.Fatal(err)
	}
	k, err := aesgcm.NewKey(tk.Secret(gen.BytesN(t, "aes_key", 16)), 0, p)
	if err != nil {
		t.Fatal(err)
	}
	h, err := tk.HandleFromKey(k)
	if err != nil {
		t.Fatal(err)
	}
	return h
}

// eciesKeys builds an ECIES key pair (P-256, SHA-256, uncompressed, AES128-GCM, NO_PREFIX).
func eciesKeys(t *rapid.T) (*ecies.PrivateKey, *ecies.PublicKey) {
	demParams, err := demSpecs[0].params()
	if err != nil {
		t.Fatal(err)
	}
	params, err := ecies.NewParameters(ecies.ParametersOpts{CurveType: ecies.NISTP256, HashType: ecies.SHA256, NISTCurvePointFormat: ecies.UncompressedPointFormat, DEMParameters: demParams, Variant: ecies.VariantNoPrefix})
	if err != nil {
		t.Fatal(err)
	}
	d := drawScalar(t, "ecies_private", eciesref.P256.N, eciesref.P256.Size)
	x, y, err := eciesref.P256.PublicFromPrivate(d)
	if err != nil {
		t.Fatal(err)
	}
	point, _ := eciesref.P256.Encode(eciesref.Uncompressed, x, y)
	sk, err := ecies.NewPrivateKey(tk.Secret(d), 0, params)
	if err != nil {
		t.Fatalf("ecies.NewPrivateKey(%x): %v", d, err)
	}
	pk, err := ecies.NewPublicKey(point, 0, params)
	if err != nil {
		t.Fatalf("ecies.NewPublicKey(%x): %v", point, err)
	}
	return sk, pk
}

func TestPublicKeyAPIOutOfContract(t *testing.T) {
	forms := supportedForms()
	kinds := []string{
		"export-foreign-template-supported-handle", "export-foreign-template-matching-handle",
		"export-primary-other-suite", "export-primary-private-key", "export-primary-not-hpke", "export-nil-handle",
		"import-wrong-length", "import-foreign-template",
		"config-without-hybrid", "config-v0-on-aead-handle", "config-wrong-side",
	}
	rapid.Check(t, func(rt *rapid.T) {
		detrand.Seed(rapid.Uint64().Draw(rt, "entropy"))
		kind := rapid.SampledFrom(kinds).Draw(rt, "kind")
		form := rapid.SampledFrom(forms).Draw(rt, "supported_template")
		supT, _ := form.make()
		detail := ""
		var err error
		var output string
		export := func(h *keyset.Handle, tm *tinkpb.KeyTemplate) {
			var b []byte
			b, err = hybridsubtle.SerializePrimaryPublicKey(h, tm)
			output = fmt.Sprintf("SerializePrimaryPublicKey returned %x", b)
		}
		switch kind {
		case "export-foreign-template-supported-handle":
			ks := drawKeysetAround(rt, supportedEntry(rt))
			ft := drawForeignTemplate(rt)
			if denotesSupported(ft.t) {
				rt.Skip("the drawn template denotes the supported parameters")
			}
			detail = fmt.Sprintf("%s\n%v", ft.desc, ks)
			export(ks.ph, ft.t)
		case "export-foreign-template-matching-handle":
			// handle and template agree with each other, but not with the supported list
			k, d, a, v := drawUnsupportedSuite(rt)
			sk := drawHPKEPrivate(rt, "private", k)
			ks := drawKeysetAround(rt, func(id uint32) *pkEntry {
				e, err := newEntry(k, d, a, v, id, sk)
				if err != nil {
					rt.Fatalf("%s/%s/%s %s private=%x: construction failed inside the accepted domain: %v", k.name, d.name, a.name, v, sk, err)
				}
				return e
			})
			tm, err2 := protoserialization.SerializeParameters(ks.entries[ks.primary].pub.Parameters())
			if err2 != nil {
				rt.Fatalf("SerializeParameters: %v", err2)
			}
			detail = fmt.Sprintf("template of the primary's own parameters %s\n%v", templateString(tm), ks)
			export(ks.ph, tm)
		case "export-primary-other-suite":
			// supported template; the primary is an HPKE public key of another suite or variant
			// (supported keys may sit in the other entries)
			k, d, a, v := drawUnsupportedSuite(rt)
			sk := drawHPKEPrivate(rt, "private", k)
			ks := drawKeysetAround(rt, func(id uint32) *pkEntry {
				e, err := newEntry(k, d, a, v, id, sk)
				if err != nil {
					rt.Fatalf("%s/%s/%s %s private=%x: construction failed inside the accepted domain: %v", k.name, d.name, a.name, v, sk, err)
				}
				return e
			})
			detail = fmt.Sprintf("supported template (%s)\n%v", form.name, ks)
			export(ks.ph, supT)
		case "export-primary-private-key":
			ks := drawKeysetAround(rt, supportedEntry(rt))
			detail = fmt.Sprintf("supported template (%s), the PRIVATE handle of\n%v", form.name, ks)
			export(ks.sh, supT)
		case "export-primary-not-hpke":
			var h *keyset.Handle
			switch rapid.IntRange(0, 2).Draw(rt, "primary_type") {
			case 0:
				_, pk := eciesKeys(rt)
				h, err = tk.HandleFromKey(pk)
				detail = "handle with an ECIES public key"
			case 1:
				sk, _ := eciesKeys(rt)
				h, err = tk.HandleFromKey(sk)
				detail = "handle with an ECIES private key"
			default:
				h = aesGCMHandle(rt)
				detail = "handle with an AES-GCM key"
			}
			if err != nil {
				rt.Fatalf("%s: %v", detail, err)
			}
			detail += fmt.Sprintf(", supported template (%s)", form.name)
			export(h, supT)
		case "export-nil-handle":
			detail = fmt.Sprintf("nil handle, supported template (%s)", form.name)
			export(nil, supT)
		case "import-wrong-length":
			n := rapid.IntRange(0, 80).Draw(rt, "public_len")
			if n == 32 {
				n = rapid.SampledFrom([]int{31, 33}).Draw(rt, "near_32")
			}
			pk := gen.BytesN(rt, "public", n)
			if n == 0 && rapid.Bool().Draw(rt, "nil_public") {
				pk = nil
			}
			detail = fmt.Sprintf("supported template (%s), %d public key bytes %x", form.name, len(pk), pk)
			var h *keyset.Handle
			h, err = hybridsubtle.KeysetHandleFromSerializedPublicKey(pk, supT)
			output = fmt.Sprintf("KeysetHandleFromSerializedPublicKey returned handle %v", h)
		case "import-foreign-template":
			ft := drawForeignTemplate(rt)
			if denotesSupported(ft.t) {
				rt.Skip("the drawn template denotes the supported parameters")
			}
			// public key bytes that are valid for the template's own KEM where it has one, else X25519
			kem := supKEM
			if ft.hasHPKE {
				kem = ft.kem
			}
			sk := drawHPKEPrivate(rt, "private", kem)
			pk, err2 := hpkeref.PublicFromPrivate(kem.ref, sk)
			if err2 != nil {
				rt.Fatalf("reference public key for %s private=%x: %v", kem.name, sk, err2)
			}
			detail = fmt.Sprintf("%s, %s public key %s", ft.desc, kem.name, fullHex(pk))
			var h *keyset.Handle
			h, err = hybridsubtle.KeysetHandleFromSerializedPublicKey(pk, ft.t)
			output = fmt.Sprintf("KeysetHandleFromSerializedPublicKey returned handle %v", h)
		case "config-without-hybrid":
			// a configuration that knows no hybrid key type
			ks := drawKeysetAround(rt, supportedEntry(rt))
			var cfg config.Config
			name := "empty config"
			if rapid.Bool().Draw(rt, "aead_config") {
				cfg, name = aeadconfig.V0(), "aeadconfig.V0"
			} else {
				cfg = config.NewBuilder().Build()
			}
			if rapid.Bool().Draw(rt, "encrypt_side") {
				detail = fmt.Sprintf("NewHybridEncryptWithConfig(public handle, %s)\n%v", name, ks)
				_, err = hybrid.NewHybridEncryptWithConfig(ks.ph, &cfg)
			} else {
				detail = fmt.Sprintf("NewHybridDecryptWithConfig(private handle, %s)\n%v", name, ks)
				_, err = hybrid.NewHybridDecryptWithConfig(ks.sh, &cfg)
			}
			output = "a primitive was returned"
		case "config-v0-on-aead-handle":
			h := aesGCMHandle(rt)
			if rapid.Bool().Draw(rt, "encrypt_side") {
				detail = "NewHybridEncryptWithConfig(AES-GCM handle, hybridconfig.V0)"
				_, err = hybrid.NewHybridEncryptWithConfig(h, configV0())
			} else {
				detail = "NewHybridDecryptWithConfig(AES-GCM handle, hybridconfig.V0)"
				_, err = hybrid.NewHybridDecryptWithConfig(h, configV0())
			}
			output = "a primitive was returned"
		case "config-wrong-side":
			ks := drawKeysetAround(rt, supportedEntry(rt))
			if rapid.Bool().Draw(rt, "encrypt_side") {
				detail = fmt.Sprintf("NewHybridEncryptWithConfig(PRIVATE handle, hybridconfig.V0)\n%v", ks)
				_, err = hybrid.NewHybridEncryptWithConfig(ks.sh, configV0())
			} else {
				detail = fmt.Sprintf("NewHybridDecryptWithConfig(PUBLIC handle, hybridconfig.V0)\n%v", ks)
				_, err = hybrid.NewHybridDecryptWithConfig(ks.ph, configV0())
			}
			output = "a primitive was returned"
		}
		if err == nil {
			rt.Fatalf("out-of-contract %s: no error. %s\n%s", kind, output, detail)
		}
		evid.Case("pubkeyapi-outofcontract/"+kind, true, evid.NewH().S(kind).S(detail).Sum(), func() any {
			return map[string]any{"kind": kind, "detail": detail, "error": err.Error()}
		})
	})
}

// ---------------------------------------------------------------------------------------------
// TestHybridWithConfig: the complete C06 oracle (checkHPKE / checkECIES) on primitives obtained
// from New*WithConfig(hybridconfig.V0()), plus mutual understanding with the registry's primitives
// ---------------------------------------------------------------------------------------------

func TestHybridWithConfig(t *testing.T) {
	rapid.Check(t, func(rt *rapid.T) {
		detrand.Seed(rapid.Uint64().Draw(rt, "entropy"))
		source := rapid.SampledFrom([]string{"hpke-configV0", "hpke-configV0", "ecies-configV0"}).Draw(rt, "source")
		pt := drawPlaintext(rt)
		info := gen.BytesOrNil(rt, "info", 128)
		rt.Logf("primitives under test come from %s (the route printed with the case names the peer primitives built through the registry)", source)
		var class, caseString string
		n := 0
		// cross: the registry's primitives and the ones under test understand each other
		cross := func(desc string, enc, regEnc tink.HybridEncrypt, dec, regDec tink.HybridDecrypt) {
			ct, err := enc.Encrypt(pt, info)
			if err != nil {
				rt.Fatalf("%s\n%s Encrypt: %v", desc, source, err)
			}
			if got, err := regDec.Decrypt(ct, info); err != nil || !bytes.Equal(got, pt) {
				rt.Fatalf("%s\npt=%s info=%s\nthe registry's primitive decrypts the %s ciphertext %s to %s, %v", desc, fullHex(pt), fullHex(info), source, fullHex(ct), fullHex(got), err)
			}
			rct, err := regEnc.Encrypt(pt, info)
			if err != nil {
				rt.Fatalf("%s\nregistry Encrypt: %v", desc, err)
			}
			if got, err := dec.Decrypt(rct, info); err != nil || !bytes.Equal(got, pt) {
				rt.Fatalf("%s\npt=%s info=%s\nthe %s primitive decrypts the registry primitive's ciphertext %s to %s, %v", desc, fullHex(pt), fullHex(info), source, fullHex(rct), fullHex(got), err)
			}
		}
		switch source {
		case "hpke-configV0":
			k := rapid.SampledFrom(kemSpecs).Draw(rt, "kem")
			d := rapid.SampledFrom(kdfSpecs).Draw(rt, "kdf")
			a := rapid.SampledFrom(aeadSpecs).Draw(rt, "aead")
			variant := rapid.SampledFrom(threeVariants).Draw(rt, "variant")
			id := uint32(0)
			if variant != tk.NoPrefix {
				id = gen.KeyID(rt, "id")
			}
			sk := drawHPKEPrivate(rt, "private", k)
			fail := func(err error) {
				rt.Fatalf("HPKE %s/%s/%s variant=%s id=%#x source=%s private=%x: construction failed inside the accepted domain: %v", k.name, d.name, a.name, variant, id, source, sk, err)
			}
			c, err := buildHPKE(k, d, a, variant, id, "handle", sk)
			if err != nil {
				fail(err)
			}
			regEnc, regDec := c.enc, c.dec
			e, err := newEntry(k, d, a, variant, id, sk)
			if err != nil {
				fail(err)
			}
			ph, err := tk.HandleFromKey(e.pub)
			if err != nil {
				fail(err)
			}
			sh, err := tk.HandleFromKey(e.priv)
			if err != nil {
				fail(err)
			}
			if c.enc, err = hybrid.NewHybridEncryptWithConfig(ph, configV0()); err != nil {
				fail(fmt.Errorf("NewHybridEncryptWithConfig(hybridconfig.V0): %w", err))
			}
			if c.dec, err = hybrid.NewHybridDecryptWithConfig(sh, configV0()); err != nil {
				fail(fmt.Errorf("NewHybridDecryptWithConfig(hybridconfig.V0): %w", err))
			}
			caseString = c.String()
			cross(caseString, c.enc, regEnc, c.dec, regDec)
			n = checkHPKE(rt, c, pt, info)
			class = fmt.Sprintf("%s/%s/%s/%s/%s", source, k.name, d.name, a.name, variant)
		case "ecies-configV0":
			cv := rapid.SampledFrom(curveSpecs).Draw(rt, "curve")
			h := rapid.SampledFrom(eciesHashes).Draw(rt, "hash")
			f := rapid.SampledFrom(formatSpecs).Draw(rt, "format")
			dm := rapid.SampledFrom(demSpecs).Draw(rt, "dem")
			salt := drawSalt(rt)
			variant := rapid.SampledFrom(threeVariants).Draw(rt, "variant")
			id := uint32(0)
			if variant != tk.NoPrefix {
				id = gen.KeyID(rt, "id")
			}
			priv := drawScalar(rt, "private", cv.ref.N, cv.ref.Size)
			fail := func(err error) {
				rt.Fatalf("ECIES %s %s %s %s salt=%x variant=%s id=%#x source=%s private=%x: construction failed inside the accepted domain: %v", cv.name, h.name, f.name, dm.name, salt, variant, id, source, priv, err)
			}
			c, err := buildECIES(cv, h, f, dm, salt, variant, id, "handle", priv)
			if err != nil {
				fail(err)
			}
			regEnc, regDec := c.enc, c.dec
			demParams, err := dm.params()
			if err != nil {
				fail(err)
			}
			params, err := ecies.NewParameters(ecies.ParametersOpts{CurveType: cv.id, HashType: h.id, NISTCurvePointFormat: f.id, DEMParameters: demParams, Salt: salt, Variant: eciesVariant(variant)})
			if err != nil {
				fail(err)
			}
			skey, err := ecies.NewPrivateKey(tk.Secret(priv), id, params)
			if err != nil {
				fail(err)
			}
			point, _ := cv.ref.Encode(eciesref.Uncompressed, c.x, c.y)
			pkey, err := ecies.NewPublicKey(point, id, params)
			if err != nil {
				fail(err)
			}
			ph, err := tk.HandleFromKey(pkey)
			if err != nil {
				fail(err)
			}
			sh, err := tk.HandleFromKey(skey)
			if err != nil {
				fail(err)
			}
			if c.enc, err = hybrid.NewHybridEncryptWithConfig(ph, configV0()); err != nil {
				fail(fmt.Errorf("NewHybridEncryptWithConfig(hybridconfig.V0): %w", err))
			}
			if c.dec, err = hybrid.NewHybridDecryptWithConfig(sh, configV0()); err != nil {
				fail(fmt.Errorf("NewHybridDecryptWithConfig(hybridconfig.V0): %w", err))
			}
			caseString = c.String()
			cross(caseString, c.enc, regEnc, c.dec, regDec)
			n = checkECIES(rt, c, pt, info)
			class = fmt.Sprintf("%s/%s/%s/%s/%s/%s", source, cv.name, h.name, f.name, dm.name, variant)
		}
		evid.Case(class, true, evid.NewH().S(source).S(caseString).B(pt).B(info).S(infoClass(info)).Sum(), func() any {
			return map[string]any{"source": source, "case": caseString, "pt": gen.Hex(pt), "info": gen.Hex(info), "candidates": n}
		})
	})
}
