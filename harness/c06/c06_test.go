//go:build go1.26

// Package c06 decides property C06: hybrid encryption (HPKE and ECIES-AEAD-HKDF) round-trips,
// interoperates both ways with independent implementations, and rejects every modification of
// the encapsulated key, payload, prefix or context info and every other private key.
package c06

import (
	"bytes"
	"encoding/hex"
	"fmt"
	"math/big"
	"testing"

	"pgregory.net/rapid"

	"github.com/tink-crypto/tink-go/v2/tink"
	"github.com/tink-crypto/tink-go/v2/verifharness/internal/evid"
	"github.com/tink-crypto/tink-go/v2/verifharness/internal/gen"
	"github.com/tink-crypto/tink-go/v2/verifharness/internal/tk"
)

func TestMain(m *testing.M) { evid.Main(m) }

var threeVariants = []string{tk.Tink, tk.Crunchy, tk.NoPrefix}

// fullHex prints byte strings completely up to a size that keeps failure messages readable.
func fullHex(b []byte) string {
	if len(b) <= 512 {
		return hex.EncodeToString(b)
	}
	return fmt.Sprintf("%s..(%d bytes, fnv %016x)", hex.EncodeToString(b[:32]), len(b), evid.NewH().B(b).Sum())
}

func cat(parts ...[]byte) []byte {
	out := []byte{}
	for _, p := range parts {
		out = append(out, p...)
	}
	return out
}

func flipBit(b []byte, bit int) []byte {
	out := append([]byte{}, b...)
	out[bit/8] ^= 1 << (bit % 8)
	return out
}

func sameInfo(a, b []byte) bool { return bytes.Equal(a, b) } // nil and empty are the same context info

// rejecter asserts that candidates are refused by a HybridDecrypt ("yields an error"; bytes returned
// next to the error are outside the C06 text and only counted).
type rejecter struct {
	t      *rapid.T
	dec    tink.HybridDecrypt
	desc   func() string
	valid  [][2][]byte // genuine (ciphertext, contextInfo) pairs
	n      int
	byKind map[string]int
	// light: candidates whose refusal needs a full decapsulation are applied with probability 1/3
	// (P-384 and P-521 cost milliseconds per scalar multiplication).
	light bool
}

func newRejecter(t *rapid.T, dec tink.HybridDecrypt, desc func() string) *rejecter {
	return &rejecter{t: t, dec: dec, desc: desc, byKind: map[string]int{}}
}

func (r *rejecter) genuine(ct, info []byte) { r.valid = append(r.valid, [2][]byte{ct, info}) }

func (r *rejecter) mustReject(kind string, cand, info []byte) {
	r.mustRejectWith(r.dec, kind, cand, info)
}

func (r *rejecter) mustRejectWith(dec tink.HybridDecrypt, kind string, cand, info []byte) {
	if dec == r.dec {
		for _, v := range r.valid {
			if bytes.Equal(v[0], cand) && sameInfo(v[1], info) {
				return // the operator reproduced a genuine pair: not a modification
			}
		}
	}
	r.n++
	r.byKind[kind]++
	pt, err := dec.Decrypt(cand, info)
	if err == nil {
		r.t.Fatalf("%s\ncandidate kind=%s ct=%s info=%s was ACCEPTED, plaintext %s", r.desc(), kind, fullHex(cand), fullHex(info), fullHex(pt))
	}
	if len(pt) != 0 {
		// C06 says "yields an error" and nothing about the bytes returned next to the error: counted.
		evid.Add("observed_not_asserted/nonempty_plaintext_on_error", 1)
	}
}

// costly is mustReject for candidates that reach the KEM; thinned out in light mode.
func (r *rejecter) costly(kind string, cand, info []byte) {
	if r.light && rapid.IntRange(0, 2).Draw(r.t, "thin") != 0 {
		return
	}
	r.mustReject(kind, cand, info)
}

func (r *rejecter) record() {
	evid.Add("reject_candidates", int64(r.n))
	for k, v := range r.byKind {
		evid.Add("kind_"+k, int64(v))
	}
}

// layout describes the regions of a hybrid ciphertext: prefix | kem | dem.
type layout struct {
	plen, kemLen int
	tagLen       int // bytes at the very end that are pure authentication tag (0 if the tag is elsewhere)
}

// structural applies the mutation classes shared by HPKE and ECIES to one genuine (ct, info).
// exhaustiveCuts asks for every cut point of the 16 bytes after the KEM part.
func structural(t *rapid.T, r *rejecter, l layout, variant string, id uint32, ct, info []byte, exhaustiveCuts bool) {
	plen, kemEnd := l.plen, l.plen+l.kemLen
	// one bit in each region
	if plen > 0 {
		r.mustReject("flip-prefix", flipBit(ct, rapid.IntRange(0, plen*8-1).Draw(t, "bit_prefix")), info)
		r.mustReject("flip-prefix-first", flipBit(ct, 0), info)
	}
	r.costly("flip-kem", flipBit(ct, rapid.IntRange(plen*8, kemEnd*8-1).Draw(t, "bit_kem")), info)
	r.costly("flip-kem-first", flipBit(ct, plen*8), info)
	r.costly("flip-kem-last", flipBit(ct, kemEnd*8-1), info)
	r.costly("flip-kem-msb", flipBit(ct, kemEnd*8-8+7), info)
	r.costly("flip-dem", flipBit(ct, rapid.IntRange(kemEnd*8, len(ct)*8-1).Draw(t, "bit_dem")), info)
	r.costly("flip-dem-first", flipBit(ct, kemEnd*8), info)
	r.costly("flip-last", flipBit(ct, len(ct)*8-1), info)
	if l.tagLen > 0 {
		r.costly("flip-tag", flipBit(ct, rapid.IntRange((len(ct)-l.tagLen)*8, len(ct)*8-1).Draw(t, "bit_tag")), info)
		if len(ct)-l.tagLen > kemEnd {
			r.costly("flip-body", flipBit(ct, rapid.IntRange(kemEnd*8, (len(ct)-l.tagLen)*8-1).Draw(t, "bit_body")), info)
		}
	}
	// cut points
	if plen > 0 {
		r.mustReject("cut-in-prefix", ct[:rapid.IntRange(0, plen-1).Draw(t, "cut_prefix")], info)
	}
	r.mustReject("cut-at-prefix", ct[:plen], info)
	r.mustReject("cut-in-kem", ct[:rapid.IntRange(plen, kemEnd-1).Draw(t, "cut_kem")], info)
	r.mustReject("cut-kem-1", ct[:kemEnd-1], info)
	if exhaustiveCuts {
		for c := kemEnd; c < kemEnd+16 && c < len(ct); c++ {
			r.costly("cut-after-kem-all", ct[:c], info)
		}
	} else {
		r.costly("cut-after-kem", ct[:kemEnd], info)
		if kemEnd+15 < len(ct) {
			r.costly("cut-after-kem", ct[:kemEnd+15], info)
		}
		if c := rapid.IntRange(kemEnd, kemEnd+15).Draw(t, "cut_dem"); c < len(ct) {
			r.costly("cut-after-kem", ct[:c], info)
		}
	}
	if c := rapid.IntRange(kemEnd, len(ct)-1).Draw(t, "cut_any"); true {
		r.costly("cut-any", ct[:c], info)
	}
	r.costly("cut-last", ct[:len(ct)-1], info)
	r.mustReject("empty", []byte{}, info)
	r.mustReject("nil", nil, info)
	// extension and shifts
	r.costly("append", cat(ct, rapid.SliceOfN(rapid.Byte(), 1, 32).Draw(t, "suffix")), info)
	r.costly("append-zero", cat(ct, []byte{0}), info)
	r.costly("prepend-zero", cat([]byte{0}, ct), info)
	r.costly("drop-kem-byte", cat(ct[:plen], ct[plen+1:]), info)
	r.costly("insert-kem-byte", cat(ct[:kemEnd], []byte{0}, ct[kemEnd:]), info)
	// prefixes
	body := ct[plen:]
	if plen > 0 {
		r.mustReject("prefix-dropped", body, info)
		for _, v := range []string{tk.Tink, tk.Crunchy} {
			if v != variant {
				r.mustReject("prefix-of-"+v, cat(tk.Prefix(v, id), body), info)
			}
		}
		r.mustReject("prefix-other-id", cat(tk.Prefix(variant, id+1), body), info)
		r.mustReject("prefix-other-id", cat(tk.Prefix(variant, id^0x80000000), body), info)
		r.mustReject("prefix-doubled", cat(ct[:plen], ct), info)
	} else {
		r.costly("prefix-added-tink", cat(tk.Prefix(tk.Tink, gen.KeyID(t, "addid")), ct), info)
		r.costly("prefix-added-crunchy", cat(tk.Prefix(tk.Crunchy, 0), ct), info)
	}
	// context info
	im := gen.Mutate(t, "info", info)
	r.costly("info-"+im.Kind, ct, im.Out)
	if len(info) > 0 {
		r.costly("info-dropped", ct, nil)
		r.costly("info-extended-zero", ct, cat(info, []byte{0}))
		r.costly("info-first-bit", ct, flipBit(info, 0))
		// the last info byte moved in front of the ciphertext body
		r.costly("info-shifted-into-ct", cat(ct[:plen], info[len(info)-1:], ct[plen:]), info[:len(info)-1])
	} else {
		r.costly("info-added", ct, []byte{0})
	}
}

// drawScalar returns a fixed-width big-endian scalar in [1, n-1], edge values over-represented.
func drawScalar(t *rapid.T, label string, n *big.Int, size int) []byte {
	nm1 := new(big.Int).Sub(n, big.NewInt(1))
	if sc, ok := gen.SpecialECScalar(t, label, size, 8); ok { // NIST curves only call this function
		return sc
	}
	var v *big.Int
	if rapid.IntRange(0, 11).Draw(t, label+"_kind") == 0 {
		switch rapid.IntRange(0, 5).Draw(t, label+"_edge") {
		case 0:
			v = big.NewInt(1)
		case 1:
			v = big.NewInt(2)
		case 2:
			v = new(big.Int).Set(nm1)
		case 3:
			v = new(big.Int).Sub(nm1, big.NewInt(1))
		case 4:
			v = new(big.Int).Lsh(big.NewInt(1), uint(rapid.IntRange(0, n.BitLen()-2).Draw(t, label+"_pow")))
		default:
			v = new(big.Int).Rsh(n, 1)
		}
	} else {
		v = new(big.Int).SetBytes(gen.BytesN(t, label, size+8))
		v.Mod(v, nm1).Add(v, big.NewInt(1))
	}
	return v.FillBytes(make([]byte, size))
}

// otherScalar returns a scalar in [1, n-1] that differs from d by construction.
func otherScalar(t *rapid.T, label string, d []byte, n *big.Int) []byte {
	nm1 := new(big.Int).Sub(n, big.NewInt(1))
	delta := new(big.Int).SetBytes(gen.BytesN(t, label, len(d)+8))
	delta.Mod(delta, new(big.Int).Sub(nm1, big.NewInt(1))).Add(delta, big.NewInt(1)) // 1..n-2
	v := new(big.Int).SetBytes(d)
	v.Sub(v, big.NewInt(1)).Add(v, delta).Mod(v, nm1).Add(v, big.NewInt(1))
	return v.FillBytes(make([]byte, len(d)))
}

// otherBytes returns a byte string of the same length that differs from b by construction.
func otherBytes(t *rapid.T, label string, b []byte) []byte {
	out := gen.BytesN(t, label, len(b))
	if bytes.Equal(out, b) {
		out = append([]byte{}, b...)
		out[rapid.IntRange(0, len(b)-1).Draw(t, label+"_pos")] ^= byte(rapid.IntRange(1, 255).Draw(t, label+"_xor"))
	}
	return out
}

func drawPlaintext(t *rapid.T) []byte {
	max := 64
	if rapid.IntRange(0, 5).Draw(t, "long") == 0 {
		max = 2048
	}
	return gen.Bytes(t, "pt", max)
}

// drawInfo draws the context info: nil / empty / up to 128 bytes as a rule, and at low weight the
// lengths around one length byte and two "large" ones (a whole 64 KiB is still an ordinary byte
// string to RFC 9180's LabeledExtract and to HKDF's info parameter).
func drawInfo(t *rapid.T) []byte {
	if rapid.IntRange(0, 19).Draw(t, "info_long") == 0 {
		n := rapid.SampledFrom([]int{255, 256, 257, 255, 256, 257, 1000, 1000, 65536}).Draw(t, "info_longlen")
		return gen.BytesN(t, "info", n)
	}
	return gen.BytesOrNil(t, "info", 128)
}

// reuseAfterRejects uses the encrypting and the decrypting object once more after the decrypting
// object has refused the whole candidate list: the genuine ciphertexts (Tink's ct, the
// reference's rct) still decrypt, and two further Encrypt calls with identical (pt, info) each give
// a ciphertext that the independent implementation opens and the object decrypts - as does the
// first one after the second was made. refOpen gets the complete ciphertext (prefix included).
// Whether the two ciphertexts differ is C20's clause, not C06's: it is counted, not asserted.
func reuseAfterRejects(t *rapid.T, desc func() string, enc tink.HybridEncrypt, dec tink.HybridDecrypt, ct, rct, pt, info []byte, refOpen func(ct []byte) ([]byte, error)) {
	for i, g := range [][]byte{ct, rct} {
		if got, err := dec.Decrypt(g, info); err != nil || !bytes.Equal(got, pt) {
			t.Fatalf("%s\nafter the decrypting object refused the candidates, the genuine ciphertext %s (%s) no longer decrypts: %s, %v", desc(), fullHex(g), []string{"made by Tink", "made by the reference"}[i], fullHex(got), err)
		}
	}
	var made [][]byte
	for i := 0; i < 2; i++ {
		c2, err := enc.Encrypt(pt, info)
		if err != nil {
			t.Fatalf("%s\nEncrypt #%d with the same (pt, info) on the same object failed: %v", desc(), i+2, err)
		}
		made = append(made, c2)
		if got, err := refOpen(c2); err != nil || !bytes.Equal(got, pt) {
			t.Fatalf("%s\nthe independent implementation cannot open ciphertext #%d of the same object for the same (pt, info), %s: %s, %v", desc(), i+2, fullHex(c2), fullHex(got), err)
		}
		for j, m := range made {
			if got, err := dec.Decrypt(m, info); err != nil || !bytes.Equal(got, pt) {
				t.Fatalf("%s\nafter Encrypt #%d, ciphertext #%d (%s) of the same object does not decrypt: %s, %v", desc(), i+2, j+2, fullHex(m), fullHex(got), err)
			}
		}
	}
	if got, err := dec.Decrypt(ct, info); err != nil || !bytes.Equal(got, pt) {
		t.Fatalf("%s\nthe first ciphertext %s no longer decrypts after two more Encrypt calls on the same object: %s, %v", desc(), fullHex(ct), fullHex(got), err)
	}
	if bytes.Equal(made[0], made[1]) || bytes.Equal(made[0], ct) {
		evid.Add("repeated_encrypt_same_output", 1)
	}
	evid.Add("reuse_after_rejects", 1)
}

func infoClass(info []byte) string {
	switch {
	case info == nil:
		return "nil"
	case len(info) == 0:
		return "empty"
	}
	return "info" + gen.LenClass(len(info))
}
