//go:build go1.26

package c06

import (
	"bytes"
	"crypto/elliptic"
	stdhpke "crypto/hpke"
	"crypto/mlkem"
	"crypto/sha3"
	"encoding/hex"
	"fmt"
	"math/big"
	"testing"

	"pgregory.net/rapid"

	"github.com/tink-crypto/tink-go/v2/aead/aesctrhmac"
	"github.com/tink-crypto/tink-go/v2/aead/aesgcm"
	"github.com/tink-crypto/tink-go/v2/daead/aessiv"
	"github.com/tink-crypto/tink-go/v2/hybrid"
	"github.com/tink-crypto/tink-go/v2/hybrid/ecies"
	"github.com/tink-crypto/tink-go/v2/hybrid/hpke"
	hybridsubtle "github.com/tink-crypto/tink-go/v2/hybrid/subtle"
	"github.com/tink-crypto/tink-go/v2/internal/internalapi"
	"github.com/tink-crypto/tink-go/v2/key"
	"github.com/tink-crypto/tink-go/v2/tink"
	"github.com/tink-crypto/tink-go/v2/verifharness/internal/detrand"
	"github.com/tink-crypto/tink-go/v2/verifharness/internal/evid"
	"github.com/tink-crypto/tink-go/v2/verifharness/internal/gen"
	"github.com/tink-crypto/tink-go/v2/verifharness/internal/ref/eciesref"
	"github.com/tink-crypto/tink-go/v2/verifharness/internal/ref/hpkeref"
	"github.com/tink-crypto/tink-go/v2/verifharness/internal/tk"
)

// refused runs a construction-and-use pipeline for parameters outside the accepted domain. The
// pipeline must report an error at some stage (and, by running inside the test, must not panic).
// stage names where the error surfaced.
type pipeline func() (stage string, err error)

// useEncrypt / useDecrypt drive a primitive that a constructor handed out despite bad parameters.
func useEncrypt(e tink.HybridEncrypt) error {
	_, err := e.Encrypt([]byte("plaintext"), []byte("info"))
	return err
}

// useDecrypt feeds the ciphertexts (garbage and ciphertexts that are genuine under the nearest
// valid parameters) to a decrypter that was handed out despite bad parameters: all must fail.
func useDecrypt(d tink.HybridDecrypt, cts ...[]byte) error {
	var last error
	for _, ct := range cts {
		pt, err := d.Decrypt(ct, []byte("info"))
		if err == nil {
			return nil
		}
		if len(pt) != 0 { // an error was returned; bytes next to it are outside the C06 text: counted
			evid.Add("observed_not_asserted/nonempty_plaintext_on_error", 1)
		}
		last = err
	}
	return last
}

// hpkeFromKeyBytes pushes (possibly invalid) key bytes through every HPKE constructor level.
func hpkeFromKeyBytes(opts hpke.ParametersOpts, id uint32, sk, pk []byte) (string, error) {
	params, err := hpke.NewParameters(opts)
	if err != nil {
		return "NewParameters", err
	}
	if pk != nil {
		pub, err := hpke.NewPublicKey(pk, id, params)
		if err != nil {
			return "NewPublicKey", err
		}
		e, err := hpke.NewHybridEncrypt(pub, internalapi.Token{})
		if err != nil {
			return "NewHybridEncrypt", err
		}
		if h, err := tk.HandleFromKey(pub); err == nil {
			if _, err := hybrid.NewHybridEncrypt(h); err == nil {
				if err := useEncrypt(e); err != nil {
					return "Encrypt", err
				}
				return "", nil
			}
		}
		if err := useEncrypt(e); err != nil {
			return "Encrypt", err
		}
		return "", nil
	}
	priv, err := hpke.NewPrivateKey(tk.Secret(sk), id, params)
	if err != nil {
		return "NewPrivateKey", err
	}
	d, err := hpke.NewHybridDecrypt(priv, internalapi.Token{})
	if err != nil {
		return "NewHybridDecrypt", err
	}
	if err := useDecrypt(d, make([]byte, 2000)); err != nil {
		return "Decrypt(garbage)", err
	}
	return "", nil
}

// lowOrderPublic drives the HPKE constructors and Encrypt, through the key route and the handle route,
// with a recipient public key whose X25519 part is a point of small order (no private key belongs
// to it). Neither the C06 text nor the documentation of hybrid/hpke, hybrid/internal/hpke or
// subtle.ComputeSharedSecretX25519 says what happens to such a key (RFC 9180 7.1.4 has senders
// refuse; the refusal in the unchanged tree comes out of x/crypto's X25519), so the oracle is:
// a refusal at any stage is fine; a ciphertext that Encrypt hands out is decided by the independent
// RFC 9180 computation for the same input - X25519 maps every small-order point to the all-zero
// value for every (clamped) scalar, so the ciphertext must be prefix || enc || body with body
// opening to the plaintext under KeySchedule(shared secret over dh = 0^32, info), sequence number 0.
// xwingSK is the X-Wing seed whose ML-KEM half the public key still carries (nil for DHKEM X25519).
// A ciphertext that this computation does not explain is reported; an explained one is counted.
func lowOrderPublic(rt *rapid.T, detail string, opts hpke.ParametersOpts, suite hpkeref.Suite, variant string, id uint32, pk, xwingSK []byte, acceptedAndExplained *bool) (string, error) {
	pt, info := []byte("plaintext"), []byte("info")
	params, err := hpke.NewParameters(opts)
	if err != nil {
		return "NewParameters", err
	}
	pub, err := hpke.NewPublicKey(pk, id, params)
	if err != nil {
		return "NewPublicKey", err
	}
	var cts [][]byte
	stage, refusal := "", error(nil)
	refuse := func(s string, err error) {
		if refusal == nil {
			stage, refusal = s, err
		}
	}
	if e, err := hpke.NewHybridEncrypt(pub, internalapi.Token{}); err != nil {
		refuse("NewHybridEncrypt", err)
	} else if ct, err := e.Encrypt(pt, info); err != nil {
		refuse("Encrypt", err)
	} else {
		cts = append(cts, ct)
	}
	if h, err := tk.HandleFromKey(pub); err != nil {
		refuse("keyset.Handle", err)
	} else if e, err := hybrid.NewHybridEncrypt(h); err != nil {
		refuse("hybrid.NewHybridEncrypt", err)
	} else if ct, err := e.Encrypt(pt, info); err != nil {
		refuse("hybrid.Encrypt", err)
	} else {
		cts = append(cts, ct)
	}
	if len(cts) == 0 {
		evid.Add("low_order_public/refused", 1)
		return stage, refusal
	}
	// what the independent implementations do with the same public key (not asserted)
	if k, err := stdhpke.NewKEM(suite.KEM); err == nil {
		kdf, _ := stdhpke.NewKDF(suite.KDF)
		ae, _ := stdhpke.NewAEAD(suite.AEAD)
		if spub, err := k.NewPublicKey(pk); err != nil {
			evid.Add("observed_not_asserted/low_order_public_accepted_by_tink/crypto_hpke_refuses_key", 1)
		} else if _, err := stdhpke.Seal(spub, kdf, ae, info, pt); err != nil {
			evid.Add("observed_not_asserted/low_order_public_accepted_by_tink/crypto_hpke_refuses_seal", 1)
		} else {
			evid.Add("observed_not_asserted/low_order_public_accepted_by_tink/crypto_hpke_seals", 1)
		}
	}
	prefix := tk.Prefix(variant, id)
	ki, _ := hpkeref.Info(suite.KEM)
	for _, ct := range cts {
		fail := func(why string) {
			rt.Fatalf("out-of-domain %s, suite %v variant=%s id=%#x: Encrypt(%q, %q) was not refused and returned %s, which the RFC 9180 computation for this public key (all-zero X25519 value) does not explain: %s", detail, suite, variant, id, pt, info, fullHex(ct), why)
		}
		if !bytes.HasPrefix(ct, prefix) || len(ct) != len(prefix)+ki.Nenc+len(pt)+16 {
			fail(fmt.Sprintf("prefix %x || enc (%d bytes) || payload (%d bytes) expected", prefix, ki.Nenc, len(pt)+16))
		}
		enc, body := ct[len(prefix):len(prefix)+ki.Nenc], ct[len(prefix)+ki.Nenc:]
		var ss []byte
		if xwingSK == nil {
			if ss, err = hpkeref.DHKEMSharedSecret(suite.KEM, make([]byte, 32), enc, pk); err != nil {
				rt.Fatalf("reference shared secret: %v", err)
			}
		} else {
			sh := sha3.NewSHAKE256()
			sh.Write(xwingSK)
			expanded := make([]byte, 96)
			sh.Read(expanded)
			dk, err := mlkem.NewDecapsulationKey768(expanded[:64])
			if err != nil {
				rt.Fatalf("reference ML-KEM key: %v", err)
			}
			ssM, err := dk.Decapsulate(enc[:mlkem.CiphertextSize768])
			if err != nil {
				fail(fmt.Sprintf("ML-KEM decapsulation: %v", err))
			}
			ctX := enc[mlkem.CiphertextSize768:]
			ss = hpkeref.XWingCombiner(ssM, make([]byte, 32), ctX, pk[mlkem.EncapsulationKeySize768:])
		}
		ctx, err := hpkeref.KeySchedule(suite, ss, info)
		if err != nil {
			rt.Fatalf("reference key schedule: %v", err)
		}
		if got, err := ctx.OpenSeq(0, nil, body); err != nil || !bytes.Equal(got, pt) {
			fail(fmt.Sprintf("the payload opens to %s, %v", fullHex(got), err))
		}
	}
	evid.Add("observed_not_asserted/low_order_public_accepted_by_tink/ciphertexts_explained_by_reference", int64(len(cts)))
	if refusal != nil {
		evid.Add("observed_not_asserted/low_order_public_accepted_by_tink/one_route_refused", 1)
	}
	*acceptedAndExplained = true
	return "accepted", nil
}

func validHPKEPrivate(t *rapid.T, k kemSpec) []byte { return drawHPKEPrivate(t, "valid_private", k) }

func TestHybridOutOfDomain(t *testing.T) {
	kinds := []string{
		"hpke-unknown-kem", "hpke-unknown-kdf", "hpke-unknown-aead", "hpke-unknown-variant", "hpke-noprefix-with-id",
		"hpke-private-length", "hpke-nist-scalar-range", "hpke-public-length", "hpke-nist-point-invalid", "hpke-mlkem-public-noncanonical",
		"hpke-xwing-public-invalid", "hpke-x25519-public-low-order", "hpke-private-public-mismatch",
		"ecies-x25519", "ecies-xchacha-dem", "ecies-unknown-enum", "ecies-point-format-mismatch", "ecies-dem-not-allowed",
		"ecies-private-invalid", "ecies-public-invalid", "ecies-noprefix-with-id",
		"subtle-unknown-format", "subtle-unknown-hash", "subtle-point-off-curve", "subtle-unsupported-curve", "subtle-dem-key-size",
	}
	rapid.Check(t, func(rt *rapid.T) {
		detrand.Seed(rapid.Uint64().Draw(rt, "entropy"))
		kind := gen.Pick(rt, "kind", kinds) // equal weights: SampledFrom gave the first two kinds 11 % each, late ones 1-3 %
		k := rapid.SampledFrom(kemSpecs).Draw(rt, "kem")
		d := rapid.SampledFrom(kdfSpecs).Draw(rt, "kdf")
		a := rapid.SampledFrom(aeadSpecs).Draw(rt, "aead")
		variant := rapid.SampledFrom(threeVariants).Draw(rt, "variant")
		id := uint32(0)
		if variant != tk.NoPrefix {
			id = gen.KeyID(rt, "id")
		}
		opts := hpke.ParametersOpts{KEMID: k.id, KDFID: d.id, AEADID: a.id, Variant: hpkeVariant(variant)}
		ki, _ := hpkeref.Info(k.ref)
		outside := func(label string, lo, hi int) int { // an enum value that no constant names
			if rapid.Bool().Draw(rt, label+"_neg") {
				return -rapid.IntRange(1, 1000).Draw(rt, label)
			}
			v := rapid.IntRange(lo, hi).Draw(rt, label)
			if rapid.IntRange(0, 3).Draw(rt, label+"_zero") == 0 {
				v = 0
			}
			return v
		}
		detail := ""
		var run pipeline
		// set by the small-order kinds when Encrypt returned ciphertexts and the reference explains them
		acceptedAndExplained := false
		switch kind {
		case "hpke-unknown-kem":
			opts.KEMID = hpke.KEMID(outside("kemid", 8, 70000))
			sk := validHPKEPrivate(rt, k)
			detail = fmt.Sprintf("KEMID=%d", opts.KEMID)
			run = func() (string, error) { return hpkeFromKeyBytes(opts, id, sk, nil) }
		case "hpke-unknown-kdf":
			opts.KDFID = hpke.KDFID(outside("kdfid", 4, 70000))
			sk := validHPKEPrivate(rt, k)
			detail = fmt.Sprintf("KDFID=%d", opts.KDFID)
			if rapid.Bool().Draw(rt, "public_side") {
				pk, _ := hpkeref.PublicFromPrivate(k.ref, sk)
				run = func() (string, error) { return hpkeFromKeyBytes(opts, id, nil, pk) }
			} else {
				run = func() (string, error) { return hpkeFromKeyBytes(opts, id, sk, nil) }
			}
		case "hpke-unknown-aead":
			opts.AEADID = hpke.AEADID(outside("aeadid", 4, 70000))
			sk := validHPKEPrivate(rt, k)
			detail = fmt.Sprintf("AEADID=%d", opts.AEADID)
			if rapid.Bool().Draw(rt, "public_side") {
				pk, _ := hpkeref.PublicFromPrivate(k.ref, sk)
				run = func() (string, error) { return hpkeFromKeyBytes(opts, id, nil, pk) }
			} else {
				run = func() (string, error) { return hpkeFromKeyBytes(opts, id, sk, nil) }
			}
		case "hpke-unknown-variant":
			opts.Variant = hpke.Variant(outside("variant_value", 4, 1000))
			sk := validHPKEPrivate(rt, k)
			detail = fmt.Sprintf("Variant=%d", opts.Variant)
			run = func() (string, error) { return hpkeFromKeyBytes(opts, 0, sk, nil) }
		case "hpke-noprefix-with-id":
			opts.Variant = hpke.VariantNoPrefix
			nz := uint32(rapid.Uint32Range(1, 0xffffffff).Draw(rt, "nonzero_id"))
			sk := validHPKEPrivate(rt, k)
			detail = fmt.Sprintf("id=%d", nz)
			run = func() (string, error) { return hpkeFromKeyBytes(opts, nz, sk, nil) }
		case "hpke-private-length":
			n := rapid.IntRange(0, ki.Nsk+40).Draw(rt, "private_len")
			if n == ki.Nsk {
				n++
			}
			sk := gen.BytesN(rt, "private", n)
			detail = fmt.Sprintf("%s private=%x", k.name, sk)
			run = func() (string, error) { return hpkeFromKeyBytes(opts, id, sk, nil) }
		case "hpke-nist-scalar-range":
			k = rapid.SampledFrom(kemSpecs[:3]).Draw(rt, "nist_kem")
			opts.KEMID = k.id
			v := new(big.Int)
			if !rapid.Bool().Draw(rt, "zero_scalar") { // n <= v < 2^(8*size)
				span := new(big.Int).Sub(new(big.Int).Lsh(big.NewInt(1), uint(8*k.curve.Size)), k.curve.N)
				v.SetBytes(gen.BytesN(rt, "above", k.curve.Size+8))
				v.Mod(v, span).Add(v, k.curve.N)
			}
			sk := v.FillBytes(make([]byte, k.curve.Size))
			detail = fmt.Sprintf("%s scalar=%x", k.name, sk)
			run = func() (string, error) { return hpkeFromKeyBytes(opts, id, sk, nil) }
		case "hpke-public-length":
			n := rapid.IntRange(0, ki.Npk+40).Draw(rt, "public_len")
			if n == ki.Npk {
				n--
			}
			pk := gen.BytesN(rt, "public", n)
			detail = fmt.Sprintf("%s public=%s", k.name, gen.Hex(pk))
			run = func() (string, error) { return hpkeFromKeyBytes(opts, id, nil, pk) }
		case "hpke-nist-point-invalid":
			k = rapid.SampledFrom(kemSpecs[:3]).Draw(rt, "nist_kem")
			opts.KEMID = k.id
			sk := validHPKEPrivate(rt, k)
			x, y, _ := k.curve.PublicFromPrivate(sk)
			fix := func(v *big.Int) []byte { return v.FillBytes(make([]byte, k.curve.Size)) }
			y1 := new(big.Int).Mod(new(big.Int).Add(y, big.NewInt(1)), k.curve.P)
			cp, _ := k.curve.Encode(eciesref.Compressed, x, y)
			pk := rapid.SampledFrom([][]byte{
				cat([]byte{4}, fix(x), fix(y1)),
				cat([]byte{4}, make([]byte, 2*k.curve.Size)),
				cat([]byte{4}, fix(k.curve.P), fix(y)),
				cat([]byte{rapid.SampledFrom([]byte{0, 2, 3, 5}).Draw(rt, "lead")}, fix(x), fix(y)),
				cat(cp, make([]byte, k.curve.Size)),
				cat([]byte{0}, make([]byte, 2*k.curve.Size)),
			}).Draw(rt, "bad_point")
			detail = fmt.Sprintf("%s public=%x", k.name, pk)
			run = func() (string, error) { return hpkeFromKeyBytes(opts, id, nil, pk) }
		case "hpke-mlkem-public-noncanonical":
			k = rapid.SampledFrom(kemSpecs[5:]).Draw(rt, "mlkem")
			opts.KEMID = k.id
			ki, _ = hpkeref.Info(k.ref)
			pk := gen.BytesN(rt, "public", ki.Npk)
			at := 3 * rapid.IntRange(0, (ki.Npk-32)/3-1).Draw(rt, "coefficient_pair")
			pk[at], pk[at+1] = 0xff, pk[at+1]|0x0f // a 12-bit coefficient >= q = 3329
			detail = fmt.Sprintf("%s public=%s, coefficient at byte %d is 0xfff", k.name, gen.Hex(pk), at)
			run = func() (string, error) { return hpkeFromKeyBytes(opts, id, nil, pk) }
		case "hpke-xwing-public-invalid":
			opts.KEMID = hpke.X_WING
			sk := gen.BytesN(rt, "private", 32)
			pk, _ := hpkeref.PublicFromPrivate(hpkeref.KEMXWing, sk)
			if rapid.Bool().Draw(rt, "break_mlkem_part") {
				pk[0], pk[1] = 0xff, pk[1]|0x0f
				detail = "X-Wing public key with an ML-KEM coefficient >= q"
				run = func() (string, error) { return hpkeFromKeyBytes(opts, id, nil, pk) }
			} else {
				low := gen.Pick(rt, "low", hpkeref.LowOrderX25519)
				b, _ := hex.DecodeString(low)
				copy(pk[1184:], b)
				detail = fmt.Sprintf("X-Wing public key of private %x with the small-order X25519 part %s", sk, low)
				suite := hpkeref.Suite{KEM: hpkeref.KEMXWing, KDF: d.ref, AEAD: a.ref}
				run = func() (string, error) {
					return lowOrderPublic(rt, detail, opts, suite, variant, id, pk, sk, &acceptedAndExplained)
				}
			}
		case "hpke-x25519-public-low-order":
			opts.KEMID = hpke.DHKEM_X25519_HKDF_SHA256
			low := gen.Pick(rt, "low", hpkeref.LowOrderX25519)
			pk, _ := hex.DecodeString(low)
			detail = "X25519 public key " + low
			suite := hpkeref.Suite{KEM: hpkeref.KEMX25519, KDF: d.ref, AEAD: a.ref}
			run = func() (string, error) {
				return lowOrderPublic(rt, detail, opts, suite, variant, id, pk, nil, &acceptedAndExplained)
			}
		case "hpke-private-public-mismatch":
			sk := validHPKEPrivate(rt, k)
			pk, _ := hpkeref.PublicFromPrivate(k.ref, sk)
			var sk2 []byte
			if k.curve != nil {
				sk2 = otherScalar(rt, "other", sk, k.curve.N)
			} else {
				sk2 = otherBytes(rt, "other", sk)
			}
			if pk2, err := hpkeref.PublicFromPrivate(k.ref, sk2); err != nil || string(pk2) == string(pk) {
				rt.Skip("equivalent private keys")
			}
			detail = fmt.Sprintf("%s public of %x with private %x", k.name, sk, sk2)
			run = func() (string, error) {
				params, err := hpke.NewParameters(opts)
				if err != nil {
					return "", nil // the parameters are valid; cannot happen
				}
				pub, err := hpke.NewPublicKey(pk, id, params)
				if err != nil {
					return "NewPublicKey(valid)", nil
				}
				_, err = hpke.NewPrivateKeyFromPublicKey(tk.Secret(sk2), pub)
				return "NewPrivateKeyFromPublicKey", err
			}
		default:
			detail, run = eciesOutOfDomain(rt, kind, variant, id)
		}
		stage, err := run()
		if err == nil && !acceptedAndExplained {
			rt.Fatalf("out-of-domain %s (%s): every constructor and the operation succeeded", kind, detail)
		}
		errText := "accepted; the ciphertext is the one RFC 9180 defines over the all-zero DH value"
		if err != nil {
			errText = err.Error()
		}
		evid.Case("outofdomain/"+kind+"@"+stage, true, evid.NewH().S(kind).S(detail).Sum(), func() any {
			return map[string]any{"kind": kind, "detail": detail, "refused_at": stage, "error": errText}
		})
	})
}

func eciesOutOfDomain(rt *rapid.T, kind, variant string, id uint32) (string, pipeline) {
	cv := rapid.SampledFrom(curveSpecs).Draw(rt, "curve")
	h := rapid.SampledFrom(eciesHashes).Draw(rt, "hash")
	f := rapid.SampledFrom(formatSpecs).Draw(rt, "format")
	dm := rapid.SampledFrom(demSpecs).Draw(rt, "dem")
	salt := drawSalt(rt)
	demParams, _ := dm.params()
	opts := ecies.ParametersOpts{CurveType: cv.id, HashType: h.id, NISTCurvePointFormat: f.id, DEMParameters: demParams, Salt: salt, Variant: eciesVariant(variant)}
	priv := drawScalar(rt, "valid_private", cv.ref.N, cv.ref.Size)
	x, y, _ := cv.ref.PublicFromPrivate(priv)
	point, _ := cv.ref.Encode(eciesref.Uncompressed, x, y)
	// a ciphertext that is genuine for the valid key under the nearest valid parameters
	neighbour := func(id uint32) []byte {
		p := eciesref.Params{Curve: cv.ref, Hash: h.name, Format: f.name, DEM: dm.ref, Salt: salt}
		raw, err := eciesref.Seal(p, x, y, []byte("info"), []byte("plaintext"), priv, make([]byte, dm.ref.IV))
		if err != nil {
			rt.Fatalf("neighbour ciphertext: %v", err)
		}
		return cat(tk.Prefix(variant, id), raw)
	}
	// full pipeline from options and key bytes
	full := func(o ecies.ParametersOpts, id uint32, sk, pk []byte) pipeline {
		return func() (string, error) {
			params, err := ecies.NewParameters(o)
			if err != nil {
				return "NewParameters", err
			}
			if pk != nil {
				pub, err := ecies.NewPublicKey(pk, id, params)
				if err != nil {
					return "NewPublicKey", err
				}
				e, err := ecies.NewHybridEncrypt(pub, internalapi.Token{})
				if err != nil {
					return "NewHybridEncrypt", err
				}
				if err := useEncrypt(e); err != nil {
					return "Encrypt", err
				}
				return "", nil
			}
			prv, err := ecies.NewPrivateKey(tk.Secret(sk), id, params)
			if err != nil {
				return "NewPrivateKey", err
			}
			if hd, err := tk.HandleFromKey(prv); err == nil {
				if _, err := hybrid.NewHybridDecrypt(hd); err != nil {
					return "hybrid.NewHybridDecrypt", err
				}
			}
			d, err := ecies.NewHybridDecrypt(prv, internalapi.Token{})
			if err != nil {
				return "NewHybridDecrypt", err
			}
			if err := useDecrypt(d, make([]byte, 400), neighbour(id)); err != nil {
				return "Decrypt", err
			}
			return "", nil
		}
	}
	fix := func(v *big.Int) []byte { return v.FillBytes(make([]byte, cv.ref.Size)) }
	switch kind {
	case "ecies-x25519":
		opts.CurveType, opts.NISTCurvePointFormat = ecies.X25519, ecies.UnspecifiedPointFormat
		sk := gen.BytesN(rt, "x25519_private", 32)
		if rapid.Bool().Draw(rt, "public_side") {
			pk, _ := hpkeref.PublicFromPrivate(hpkeref.KEMX25519, sk)
			return "X25519 public key", full(opts, id, nil, pk)
		}
		return fmt.Sprintf("X25519 private=%x", sk), full(opts, id, sk, nil)
	case "ecies-xchacha-dem":
		opts.DEMParameters, _ = xchachaDEM()
		if rapid.Bool().Draw(rt, "public_side") {
			return "XChaCha20-Poly1305 DEM, public key", full(opts, id, nil, point)
		}
		return "XChaCha20-Poly1305 DEM, private key", full(opts, id, priv, nil)
	case "ecies-unknown-enum":
		v := rapid.IntRange(6, 1000).Draw(rt, "enum_value")
		if rapid.Bool().Draw(rt, "negative") {
			v = -v
		}
		which := rapid.SampledFrom([]string{"curve", "hash", "format", "variant", "zero-curve", "zero-hash", "zero-variant"}).Draw(rt, "which")
		switch which {
		case "curve":
			opts.CurveType = ecies.CurveType(v)
			opts.NISTCurvePointFormat = rapid.SampledFrom([]ecies.PointFormat{ecies.UnspecifiedPointFormat, f.id}).Draw(rt, "pf")
		case "hash":
			opts.HashType = ecies.HashType(v)
		case "format":
			opts.NISTCurvePointFormat = ecies.PointFormat(v)
		case "variant":
			opts.Variant = ecies.Variant(v)
			id = 0
		case "zero-curve":
			opts.CurveType = ecies.UnknownCurveType
		case "zero-hash":
			opts.HashType = ecies.UnknownHashType
		case "zero-variant":
			opts.Variant = ecies.VariantUnknown
		}
		if rapid.Bool().Draw(rt, "public_side") {
			return fmt.Sprintf("%s=%d public", which, v), full(opts, id, nil, point)
		}
		return fmt.Sprintf("%s=%d private", which, v), full(opts, id, priv, nil)
	case "ecies-point-format-mismatch":
		opts.NISTCurvePointFormat = ecies.UnspecifiedPointFormat
		return "NIST curve without point format", full(opts, id, priv, nil)
	case "ecies-dem-not-allowed":
		bad := rapid.SampledFrom([]func() (key.Parameters, error){
			func() (key.Parameters, error) {
				return aesgcm.NewParameters(aesgcm.ParametersOpts{KeySizeInBytes: 16, IVSizeInBytes: 12, TagSizeInBytes: 16, Variant: aesgcm.VariantTink})
			},
			func() (key.Parameters, error) { return aessiv.NewParameters(64, aessiv.VariantTink) },
			func() (key.Parameters, error) { return aessiv.NewParameters(32, aessiv.VariantNoPrefix) },
			func() (key.Parameters, error) {
				return aesctrhmac.NewParameters(aesctrhmac.ParametersOpts{AESKeySizeInBytes: 16, HMACKeySizeInBytes: 32, IVSizeInBytes: 16, TagSizeInBytes: 32, HashType: aesctrhmac.SHA256, Variant: aesctrhmac.VariantNoPrefix})
			},
			func() (key.Parameters, error) {
				return aesctrhmac.NewParameters(aesctrhmac.ParametersOpts{AESKeySizeInBytes: 32, HMACKeySizeInBytes: 32, IVSizeInBytes: 12, TagSizeInBytes: 32, HashType: aesctrhmac.SHA256, Variant: aesctrhmac.VariantNoPrefix})
			},
			func() (key.Parameters, error) {
				return aesctrhmac.NewParameters(aesctrhmac.ParametersOpts{AESKeySizeInBytes: 32, HMACKeySizeInBytes: 32, IVSizeInBytes: 16, TagSizeInBytes: 32, HashType: aesctrhmac.SHA512, Variant: aesctrhmac.VariantNoPrefix})
			},
			func() (key.Parameters, error) {
				return hpke.NewParameters(hpke.ParametersOpts{KEMID: hpke.DHKEM_X25519_HKDF_SHA256, KDFID: hpke.HKDFSHA256, AEADID: hpke.AES128GCM, Variant: hpke.VariantNoPrefix})
			},
		}).Draw(rt, "bad_dem")
		p, err := bad()
		if err != nil {
			return "DEM parameters refused by their own constructor", func() (string, error) { return "DEM NewParameters", err }
		}
		opts.DEMParameters = p
		return fmt.Sprintf("DEM parameters %v", p), full(opts, id, priv, nil)
	case "ecies-private-invalid":
		var sk []byte
		switch rapid.IntRange(0, 2).Draw(rt, "how") {
		case 0:
			sk = make([]byte, cv.ref.Size)
		case 1:
			n := rapid.IntRange(0, cv.ref.Size+20).Draw(rt, "len")
			if n == cv.ref.Size {
				n--
			}
			sk = gen.BytesN(rt, "short", n)
		default:
			span := new(big.Int).Sub(new(big.Int).Lsh(big.NewInt(1), uint(8*cv.ref.Size)), cv.ref.N)
			v := new(big.Int).SetBytes(gen.BytesN(rt, "above", cv.ref.Size+8))
			sk = v.Mod(v, span).Add(v, cv.ref.N).FillBytes(make([]byte, cv.ref.Size))
		}
		return fmt.Sprintf("%s private=%x", cv.name, sk), full(opts, id, sk, nil)
	case "ecies-public-invalid":
		y1 := new(big.Int).Mod(new(big.Int).Add(y, big.NewInt(1)), cv.ref.P)
		cp, _ := cv.ref.Encode(eciesref.Compressed, x, y)
		pk := rapid.SampledFrom([][]byte{
			cat([]byte{4}, fix(x), fix(y1)),
			cat([]byte{4}, make([]byte, 2*cv.ref.Size)),
			cat([]byte{4}, fix(cv.ref.P), fix(y)),
			point[1:],
			point[:len(point)-1],
			cat(point, []byte{0}),
			cat([]byte{0}, point[1:]),
			cat(cp, make([]byte, cv.ref.Size)),
			{},
		}).Draw(rt, "bad_point")
		return fmt.Sprintf("%s public=%x", cv.name, pk), full(opts, id, nil, pk)
	case "ecies-noprefix-with-id":
		opts.Variant = ecies.VariantNoPrefix
		nz := uint32(rapid.Uint32Range(1, 0xffffffff).Draw(rt, "nonzero_id"))
		return fmt.Sprintf("NO_PREFIX id=%d", nz), full(opts, nz, priv, nil)
	}
	// hybrid/subtle constructors with parameters they do not support
	sc, _ := hybridsubtle.GetCurve(cv.name)
	dem := demHelper{dm.ref}
	subtlePipeline := func(curve elliptic.Curve, px, py *big.Int, hash, format string, helper hybridsubtle.EciesAEADHKDFDEMHelper) pipeline {
		return func() (string, error) {
			e, err := hybridsubtle.NewECIESAEADHKDFHybridEncrypt(&hybridsubtle.ECPublicKey{Curve: curve, Point: hybridsubtle.ECPoint{X: px, Y: py}}, salt, hash, format, helper)
			if err != nil {
				return "NewECIESAEADHKDFHybridEncrypt", err
			}
			if err := useEncrypt(e); err != nil {
				return "Encrypt", err
			}
			return "", nil
		}
	}
	// the recipient side of the same parameters releases nothing either (and does not panic)
	probeRecipient := func(curve elliptic.Curve, hash, format string, helper hybridsubtle.EciesAEADHKDFDEMHelper) {
		d, err := hybridsubtle.NewECIESAEADHKDFHybridDecrypt(hybridsubtle.GetECPrivateKey(curve, priv), salt, hash, format, helper)
		if err != nil {
			return
		}
		if err := useDecrypt(d, make([]byte, 400), neighbour(0)[len(tk.Prefix(variant, 0)):]); err == nil {
			rt.Fatalf("hybrid/subtle recipient with hash %q format %q decrypts", hash, format)
		}
	}
	switch kind {
	case "subtle-unknown-format":
		bad := rapid.SampledFrom([]string{"", "compressed", "UNCOMPRESSED ", "UNKNOWN", "CRUNCHY_UNCOMPRESSED", "X"}).Draw(rt, "format_name")
		probeRecipient(sc, h.name, bad, dem)
		return fmt.Sprintf("point format %q", bad), subtlePipeline(sc, x, y, h.name, bad, dem)
	case "subtle-unknown-hash":
		bad := rapid.SampledFrom([]string{"", "MD5", "sha256", "SHA-256", "SHA3-256", "SHA512/256"}).Draw(rt, "hash_name")
		probeRecipient(sc, bad, f.name, dem)
		return fmt.Sprintf("hash %q", bad), subtlePipeline(sc, x, y, bad, f.name, dem)
	case "subtle-point-off-curve":
		y1 := new(big.Int).Mod(new(big.Int).Add(y, big.NewInt(1)), cv.ref.P)
		return fmt.Sprintf("%s public point (%x,%x) off the curve", cv.name, x, y1), func() (string, error) {
			e, err := hybridsubtle.NewECIESAEADHKDFHybridEncrypt(&hybridsubtle.ECPublicKey{Curve: sc, Point: hybridsubtle.ECPoint{X: x, Y: y1}}, salt, h.name, f.name, dem)
			if err != nil {
				return "NewECIESAEADHKDFHybridEncrypt", err
			}
			return "Encrypt", useEncrypt(e)
		}
	case "subtle-unsupported-curve":
		name := rapid.SampledFrom([]string{"", "X25519", "CURVE25519", "NIST_P192", "secp256k1", "nist_p256"}).Draw(rt, "curve_name")
		return fmt.Sprintf("curve %q", name), func() (string, error) {
			_, err := hybridsubtle.GetCurve(name)
			return "GetCurve", err
		}
	case "subtle-dem-key-size":
		// a DEM helper that announces a key size its AEAD constructor refuses
		wrong := eciesref.DEM{Kind: "AES_GCM", AESKey: rapid.SampledFrom([]int{10, 15, 17, 24, 31, 33, 48, 64}).Draw(rt, "gcm_key"), IV: 12, Tag: 16}
		probeRecipient(sc, h.name, f.name, demHelper{wrong})
		return fmt.Sprintf("AES-GCM DEM with a %d-byte key", wrong.AESKey), subtlePipeline(sc, x, y, h.name, f.name, demHelper{wrong})
	}
	rt.Fatalf("unhandled kind %s", kind)
	return "", nil
}
