//go:build go1.26

package c06

import (
	"bytes"
	"crypto/elliptic"
	"errors"
	"fmt"
	"math/big"
	"testing"

	"pgregory.net/rapid"

	aeadsubtle "github.com/tink-crypto/tink-go/v2/aead/subtle"
	daeadsubtle "github.com/tink-crypto/tink-go/v2/daead/subtle"
	hybridsubtle "github.com/tink-crypto/tink-go/v2/hybrid/subtle"
	macsubtle "github.com/tink-crypto/tink-go/v2/mac/subtle"
	"github.com/tink-crypto/tink-go/v2/verifharness/internal/detrand"
	"github.com/tink-crypto/tink-go/v2/verifharness/internal/evid"
	"github.com/tink-crypto/tink-go/v2/verifharness/internal/gen"
	"github.com/tink-crypto/tink-go/v2/verifharness/internal/ref/eciesref"
	"github.com/tink-crypto/tink-go/v2/verifharness/internal/tk"
)

// demHelper is a caller-side implementation of hybrid/subtle.EciesAEADHKDFDEMHelper on top of
// Tink's subtle AEAD constructors (the library's own helper lives in an internal package that
// only hybrid/... may import). It reaches DEM parameters that the key API does not offer.
type demHelper struct{ d eciesref.DEM }

func (h demHelper) GetSymmetricKeySize() uint32 { return uint32(h.d.KeySize()) }

func (h demHelper) GetAEADOrDAEAD(k []byte) (any, error) {
	if len(k) != h.d.KeySize() {
		return nil, errors.New("demHelper: key size")
	}
	switch h.d.Kind {
	case "AES_GCM":
		return aeadsubtle.NewAESGCM(k)
	case "AES_SIV":
		return daeadsubtle.NewAESSIV(k)
	case "AES_CTR_HMAC":
		ctr, err := aeadsubtle.NewAESCTR(k[:h.d.AESKey], h.d.IV)
		if err != nil {
			return nil, err
		}
		m, err := macsubtle.NewHMAC(h.d.MACHash, k[h.d.AESKey:], uint32(h.d.Tag))
		if err != nil {
			return nil, err
		}
		return aeadsubtle.NewEncryptThenAuthenticate(ctr, m, h.d.Tag)
	}
	return nil, errors.New("demHelper: unknown DEM")
}

var digestSize = map[string]int{"SHA1": 20, "SHA224": 28, "SHA256": 32, "SHA384": 48, "SHA512": 64}

func drawSubtleDEM(t *rapid.T) eciesref.DEM {
	switch rapid.IntRange(0, 5).Draw(t, "dem_kind") {
	case 0:
		return eciesref.DEM{Kind: "AES_GCM", AESKey: rapid.SampledFrom([]int{16, 32}).Draw(t, "gcm_key"), IV: 12, Tag: 16}
	case 1:
		return eciesref.AES256SIV
	}
	h := rapid.SampledFrom([]string{"SHA1", "SHA224", "SHA256", "SHA384", "SHA512"}).Draw(t, "mac_hash")
	return eciesref.DEM{
		Kind:    "AES_CTR_HMAC",
		AESKey:  rapid.SampledFrom([]int{16, 32}).Draw(t, "ctr_key"),
		MACKey:  rapid.IntRange(16, 72).Draw(t, "mac_key"),
		IV:      rapid.IntRange(12, 16).Draw(t, "iv"),
		Tag:     rapid.IntRange(10, digestSize[h]).Draw(t, "tag"),
		MACHash: h,
	}
}

func stdCurve(t *rapid.T, name string) elliptic.Curve {
	c, err := hybridsubtle.GetCurve(name)
	if err != nil {
		t.Fatalf("GetCurve(%s): %v", name, err)
	}
	return c
}

// codecEquivalence: hybrid/subtle's point codec and shared-secret computation agree with the
// reference on valid points and on the accept/reject verdict (and decoded value) for modified encodings.
func codecEquivalence(t *rapid.T, cv *eciesref.Curve, sc elliptic.Curve, format string, priv []byte, x, y *big.Int) int {
	n := 0
	want, _ := cv.Encode(format, x, y)
	got, err := hybridsubtle.PointEncode(sc, format, hybridsubtle.ECPoint{X: x, Y: y})
	if err != nil || !bytes.Equal(got, want) {
		t.Fatalf("%s %s: PointEncode(%x,%x) = %x, %v; reference %x", cv.Name, format, x, y, got, err, want)
	}
	try := func(kind string, e []byte) {
		n++
		rx, ry, rerr := cv.Decode(format, e)
		p, terr := hybridsubtle.PointDecode(sc, format, e)
		if (terr == nil) != (rerr == nil) {
			t.Fatalf("%s %s: PointDecode(%x) [%s]: Tink err=%v, reference err=%v", cv.Name, format, e, kind, terr, rerr)
		}
		if terr == nil && (p.X.Cmp(rx) != 0 || p.Y.Cmp(ry) != 0) {
			t.Fatalf("%s %s: PointDecode(%x) [%s] = (%x,%x), reference (%x,%x)", cv.Name, format, e, kind, p.X, p.Y, rx, ry)
		}
	}
	try("genuine", want)
	fix := func(v *big.Int) []byte { return v.FillBytes(make([]byte, cv.Size)) }
	negY := new(big.Int).Sub(cv.P, y)
	neg, _ := cv.Encode(format, x, negY)
	try("negated", neg)
	m := gen.Mutate(t, "encoding", want)
	try("mutated-"+m.Kind, m.Out)
	try("first-byte", cat([]byte{rapid.Byte().Draw(t, "first_byte")}, want[1:]))
	try("zero", make([]byte, len(want)))
	xr := new(big.Int).Mod(new(big.Int).SetBytes(gen.BytesN(t, "random_x", cv.Size+8)), cv.P)
	xp := new(big.Int).Add(x, cv.P)
	switch format {
	case eciesref.Compressed:
		try("random-x", cat([]byte{2 + byte(rapid.IntRange(0, 1).Draw(t, "parity"))}, fix(xr)))
		try("x-is-p", cat([]byte{2}, fix(cv.P)))
		if xp.BitLen() <= 8*cv.Size {
			try("x-plus-p", cat([]byte{want[0]}, fix(xp)))
		}
	case eciesref.Uncompressed:
		try("random-x", cat([]byte{4}, fix(xr), fix(y)))
		if xp.BitLen() <= 8*cv.Size {
			try("x-plus-p", cat([]byte{4}, fix(xp), fix(y)))
		}
		try("legacy-form", want[1:])
	case eciesref.Legacy:
		try("random-x", cat(fix(xr), fix(y)))
		if xp.BitLen() <= 8*cv.Size {
			try("x-plus-p", cat(fix(xp), fix(y)))
		}
		try("uncompressed-form", cat([]byte{4}, want))
	}
	// encoding a point that is not on the curve
	y1 := new(big.Int).Mod(new(big.Int).Add(y, big.NewInt(1)), cv.P)
	if _, err := hybridsubtle.PointEncode(sc, format, hybridsubtle.ECPoint{X: x, Y: y1}); err == nil {
		t.Fatalf("%s %s: PointEncode accepts the off-curve point (%x,%x)", cv.Name, format, x, y1)
	}
	// shared secret against the reference's ECDH, with a second drawn key pair
	d2 := drawScalar(t, "codec_peer", cv.N, cv.Size)
	x2, y2, err := cv.PublicFromPrivate(d2)
	if err != nil {
		t.Fatal(err)
	}
	wantSS, err := cv.ECDH(priv, x2, y2)
	if err != nil {
		t.Fatal(err)
	}
	gotSS, err := hybridsubtle.ComputeSharedSecret(&hybridsubtle.ECPoint{X: x2, Y: y2}, hybridsubtle.GetECPrivateKey(sc, priv))
	if err != nil || !bytes.Equal(gotSS, wantSS) {
		t.Fatalf("%s: ComputeSharedSecret(d=%x, peer=(%x,%x)) = %x, %v; reference %x", cv.Name, priv, x2, y2, gotSS, err, wantSS)
	}
	return n
}

func TestHybridSubtle(t *testing.T) {
	rapid.Check(t, func(rt *rapid.T) {
		detrand.Seed(rapid.Uint64().Draw(rt, "entropy"))
		cv := rapid.SampledFrom(curveSpecs).Draw(rt, "curve")
		h := rapid.SampledFrom(eciesHashes).Draw(rt, "hash")
		f := rapid.SampledFrom(formatSpecs).Draw(rt, "format")
		dem := drawSubtleDEM(rt)
		salt := drawSalt(rt)
		priv := drawScalar(rt, "private", cv.ref.N, cv.ref.Size)
		pt := drawPlaintext(rt)
		info := drawInfo(rt)
		x, y, err := cv.ref.PublicFromPrivate(priv)
		if err != nil {
			rt.Fatal(err)
		}
		ref := eciesref.Params{Curve: cv.ref, Hash: h.name, Format: f.name, DEM: dem, Salt: salt}
		desc := func() string {
			return fmt.Sprintf("hybrid/subtle ECIES %v private=%x public=(%x,%x)\npt=%s info=%s", ref, priv, x, y, fullHex(pt), fullHex(info))
		}
		sc := stdCurve(rt, cv.name)
		enc, err := hybridsubtle.NewECIESAEADHKDFHybridEncrypt(&hybridsubtle.ECPublicKey{Curve: sc, Point: hybridsubtle.ECPoint{X: x, Y: y}}, salt, h.name, f.name, demHelper{dem})
		if err != nil {
			rt.Fatalf("%s\nNewECIESAEADHKDFHybridEncrypt: %v", desc(), err)
		}
		skey := hybridsubtle.GetECPrivateKey(sc, priv)
		if skey.PublicKey.Point.X.Cmp(x) != 0 || skey.PublicKey.Point.Y.Cmp(y) != 0 {
			rt.Fatalf("%s\nGetECPrivateKey derives public point (%x,%x)", desc(), skey.PublicKey.Point.X, skey.PublicKey.Point.Y)
		}
		dec, err := hybridsubtle.NewECIESAEADHKDFHybridDecrypt(skey, salt, h.name, f.name, demHelper{dem})
		if err != nil {
			rt.Fatalf("%s\nNewECIESAEADHKDFHybridDecrypt: %v", desc(), err)
		}
		kemLen, _ := cv.ref.EncodedLen(f.name)
		ct, err := enc.Encrypt(pt, info)
		if err != nil {
			rt.Fatalf("%s\nEncrypt: %v", desc(), err)
		}
		if want := kemLen + dem.Overhead() + len(pt); len(ct) != want {
			rt.Fatalf("%s\nlen(ciphertext)=%d, want %d", desc(), len(ct), want)
		}
		if got, err := dec.Decrypt(ct, info); err != nil || !bytes.Equal(got, pt) {
			rt.Fatalf("%s\nDecrypt(Encrypt(pt)) = %s, %v", desc(), fullHex(got), err)
		}
		if got, err := eciesref.Open(ref, priv, info, ct); err != nil || !bytes.Equal(got, pt) {
			rt.Fatalf("%s\nthe reference cannot open Tink's ciphertext %s: %s, %v", desc(), fullHex(ct), fullHex(got), err)
		}
		eph := drawScalar(rt, "ref_ephemeral", cv.ref.N, cv.ref.Size)
		rct, err := eciesref.Seal(ref, x, y, info, pt, eph, gen.BytesN(rt, "ref_iv", dem.IV))
		if err != nil {
			rt.Fatalf("%s\nreference Seal: %v", desc(), err)
		}
		if got, err := dec.Decrypt(rct, info); err != nil || !bytes.Equal(got, pt) {
			rt.Fatalf("%s\nTink cannot decrypt the reference's ciphertext %s: %s, %v", desc(), fullHex(rct), fullHex(got), err)
		}
		r := newRejecter(rt, dec, desc)
		r.light = true
		r.genuine(ct, info)
		r.genuine(rct, info)
		tagLen := dem.Tag
		if dem.Kind == "AES_SIV" {
			tagLen = 0
		}
		structural(rt, r, layout{plen: 0, kemLen: kemLen, tagLen: tagLen}, tk.NoPrefix, 0, ct, info, false)
		pointCandidates(r, cv.ref, f.name, nil, ct[:kemLen], ct[kemLen:], info)
		r.record()
		reuseAfterRejects(rt, desc, enc, dec, ct, rct, pt, info, func(x []byte) ([]byte, error) { return eciesref.Open(ref, priv, info, x) })
		n := codecEquivalence(rt, cv.ref, sc, f.name, priv, x, y)
		evid.Add("codec_candidates", int64(n))
		class := fmt.Sprintf("subtle/%s/%s/%s/%s", cv.name, h.name, f.name, dem.Kind)
		evid.Case(class, true, evid.NewH().S(ref.String()).B(priv).B(pt).B(info).S(infoClass(info)).Sum(), func() any {
			return map[string]any{"case": desc(), "candidates": r.n, "codec_candidates": n}
		})
	})
}
