//go:build go1.26

package c06

import (
	"fmt"
	"testing"
	"time"

	"pgregory.net/rapid"

	"github.com/tink-crypto/tink-go/v2/verifharness/internal/detrand"
	"github.com/tink-crypto/tink-go/v2/verifharness/internal/gen"
)

func TestTmpTiming(t *testing.T) {
	tot := map[string]time.Duration{}
	cnt := map[string]int{}
	cand := map[string]int{}
	rapid.Check(t, func(rt *rapid.T) {
		detrand.Seed(rapid.Uint64().Draw(rt, "entropy"))
		c := drawECIES(rt)
		pt := drawPlaintext(rt)
		info := gen.BytesOrNil(rt, "info", 128)
		st := time.Now()
		n := checkECIES(rt, c, pt, info)
		tot[c.curve.name] += time.Since(st)
		cnt[c.curve.name]++
		cand[c.curve.name] += n
	})
	for k, v := range tot {
		fmt.Printf("%-28s n=%d avg=%v cands=%d\n", k, cnt[k], v/time.Duration(cnt[k]), cand[k]/cnt[k])
	}
}
