//go:build go1.26

package c06

import (
	"bytes"
	stdhpke "crypto/hpke"
	"encoding/hex"
	"fmt"
	"math/big"
	"testing"

	"pgregory.net/rapid"

	"github.com/tink-crypto/tink-go/v2/hybrid"
	"github.com/tink-crypto/tink-go/v2/hybrid/hpke"
	"github.com/tink-crypto/tink-go/v2/internal/internalapi"
	"github.com/tink-crypto/tink-go/v2/tink"
	"github.com/tink-crypto/tink-go/v2/verifharness/internal/detrand"
	"github.com/tink-crypto/tink-go/v2/verifharness/internal/evid"
	"github.com/tink-crypto/tink-go/v2/verifharness/internal/gen"
	"github.com/tink-crypto/tink-go/v2/verifharness/internal/ref/eciesref"
	"github.com/tink-crypto/tink-go/v2/verifharness/internal/ref/hpkeref"
	"github.com/tink-crypto/tink-go/v2/verifharness/internal/tk"
)

type kemSpec struct {
	name  string
	id    hpke.KEMID
	ref   uint16
	curve *eciesref.Curve // NIST KEMs: the curve constants for point surgery
	cheap bool            // KEM operations well below a millisecond
}

var kemSpecs = []kemSpec{
	{"DHKEM_P256_HKDF_SHA256", hpke.DHKEM_P256_HKDF_SHA256, hpkeref.KEMP256, eciesref.P256, true},
	{"DHKEM_P384_HKDF_SHA384", hpke.DHKEM_P384_HKDF_SHA384, hpkeref.KEMP384, eciesref.P384, false},
	{"DHKEM_P521_HKDF_SHA512", hpke.DHKEM_P521_HKDF_SHA512, hpkeref.KEMP521, eciesref.P521, false},
	{"DHKEM_X25519_HKDF_SHA256", hpke.DHKEM_X25519_HKDF_SHA256, hpkeref.KEMX25519, nil, true},
	{"X_WING", hpke.X_WING, hpkeref.KEMXWing, nil, true},
	{"ML_KEM768", hpke.ML_KEM768, hpkeref.KEMMLKEM768, nil, true},
	{"ML_KEM1024", hpke.ML_KEM1024, hpkeref.KEMMLKEM1K, nil, true},
}

type kdfSpec struct {
	name string
	id   hpke.KDFID
	ref  uint16
}

var kdfSpecs = []kdfSpec{
	{"HKDF_SHA256", hpke.HKDFSHA256, hpkeref.KDFSHA256},
	{"HKDF_SHA384", hpke.HKDFSHA384, hpkeref.KDFSHA384},
	{"HKDF_SHA512", hpke.HKDFSHA512, hpkeref.KDFSHA512},
}

type aeadSpec struct {
	name string
	id   hpke.AEADID
	ref  uint16
}

var aeadSpecs = []aeadSpec{
	{"AES_128_GCM", hpke.AES128GCM, hpkeref.AEADAES128GCM},
	{"AES_256_GCM", hpke.AES256GCM, hpkeref.AEADAES256GCM},
	{"CHACHA20_POLY1305", hpke.ChaCha20Poly1305, hpkeref.AEADChaCha},
}

func hpkeVariant(v string) hpke.Variant {
	return map[string]hpke.Variant{tk.Tink: hpke.VariantTink, tk.Crunchy: hpke.VariantCrunchy, tk.NoPrefix: hpke.VariantNoPrefix}[v]
}

// hpkeCase is one fully specified HPKE key pair with its Tink primitives and independent peers.
type hpkeCase struct {
	kem     kemSpec
	kdf     kdfSpec
	aead    aeadSpec
	variant string
	id      uint32
	route   string
	sk, pk  []byte
	suite   hpkeref.Suite
	nenc    int

	enc tink.HybridEncrypt
	dec tink.HybridDecrypt

	stdKDF  stdhpke.KDF
	stdAEAD stdhpke.AEAD
	stdPriv stdhpke.PrivateKey
	stdPub  stdhpke.PublicKey
}

func (c *hpkeCase) String() string {
	return fmt.Sprintf("HPKE %s/%s/%s variant=%s id=%#x route=%s private=%s public=%s", c.kem.name, c.kdf.name, c.aead.name, c.variant, c.id, c.route, hex.EncodeToString(c.sk), fullHex(c.pk))
}

func (c *hpkeCase) prefix() []byte { return tk.Prefix(c.variant, c.id) }

func drawHPKEPrivate(t *rapid.T, label string, k kemSpec) []byte {
	ki, _ := hpkeref.Info(k.ref)
	if k.curve != nil {
		return drawScalar(t, label, k.curve.N, k.curve.Size)
	}
	return gen.BytesN(t, label, ki.Nsk)
}

// buildHPKE constructs keys and primitives for (suite, variant, id, route, private key bytes).
func buildHPKE(k kemSpec, d kdfSpec, a aeadSpec, variant string, id uint32, route string, sk []byte) (*hpkeCase, error) {
	c := &hpkeCase{kem: k, kdf: d, aead: a, variant: variant, id: id, route: route, sk: sk, suite: hpkeref.Suite{KEM: k.ref, KDF: d.ref, AEAD: a.ref}}
	ki, _ := hpkeref.Info(k.ref)
	c.nenc = ki.Nenc
	var err error
	if c.pk, err = hpkeref.PublicFromPrivate(k.ref, sk); err != nil {
		return nil, fmt.Errorf("reference public key: %w", err)
	}
	params, err := hpke.NewParameters(hpke.ParametersOpts{KEMID: k.id, KDFID: d.id, AEADID: a.id, Variant: hpkeVariant(variant)})
	if err != nil {
		return nil, fmt.Errorf("NewParameters: %w", err)
	}
	priv, err := hpke.NewPrivateKey(tk.Secret(sk), id, params)
	if err != nil {
		return nil, fmt.Errorf("NewPrivateKey: %w", err)
	}
	pub, err := hpke.NewPublicKey(c.pk, id, params)
	if err != nil {
		return nil, fmt.Errorf("NewPublicKey(reference public key bytes): %w", err)
	}
	derived, err := priv.PublicKey()
	if err != nil {
		return nil, err
	}
	if !bytes.Equal(derived.(*hpke.PublicKey).PublicKeyBytes(), c.pk) {
		return nil, fmt.Errorf("public key derived by Tink %x differs from the independent derivation %x", derived.(*hpke.PublicKey).PublicKeyBytes(), c.pk)
	}
	if !derived.Equal(pub) {
		return nil, fmt.Errorf("public key of the private key is not Equal to the key built from the same bytes")
	}
	if _, err := hpke.NewPrivateKeyFromPublicKey(tk.Secret(sk), pub); err != nil {
		return nil, fmt.Errorf("NewPrivateKeyFromPublicKey: %w", err)
	}
	switch route {
	case "handle":
		ph, err := tk.HandleFromKey(pub)
		if err != nil {
			return nil, err
		}
		if c.enc, err = hybrid.NewHybridEncrypt(ph); err != nil {
			return nil, fmt.Errorf("hybrid.NewHybridEncrypt: %w", err)
		}
		sh, err := tk.HandleFromKey(priv)
		if err != nil {
			return nil, err
		}
		if c.dec, err = hybrid.NewHybridDecrypt(sh); err != nil {
			return nil, fmt.Errorf("hybrid.NewHybridDecrypt: %w", err)
		}
	case "key":
		if c.enc, err = hpke.NewHybridEncrypt(pub, internalapi.Token{}); err != nil {
			return nil, fmt.Errorf("hpke.NewHybridEncrypt: %w", err)
		}
		if c.dec, err = hpke.NewHybridDecrypt(priv, internalapi.Token{}); err != nil {
			return nil, fmt.Errorf("hpke.NewHybridDecrypt: %w", err)
		}
	default:
		return nil, fmt.Errorf("unknown route %s", route)
	}
	// the standard library's HPKE as second peer
	sk2, err := stdhpke.NewKEM(k.ref)
	if err != nil {
		return nil, err
	}
	if c.stdKDF, err = stdhpke.NewKDF(d.ref); err != nil {
		return nil, err
	}
	if c.stdAEAD, err = stdhpke.NewAEAD(a.ref); err != nil {
		return nil, err
	}
	if c.stdPriv, err = sk2.NewPrivateKey(sk); err != nil {
		return nil, fmt.Errorf("crypto/hpke NewPrivateKey: %w", err)
	}
	if c.stdPub, err = sk2.NewPublicKey(c.pk); err != nil {
		return nil, fmt.Errorf("crypto/hpke NewPublicKey: %w", err)
	}
	return c, nil
}

func drawHPKE(t *rapid.T) *hpkeCase {
	k := rapid.SampledFrom(kemSpecs).Draw(t, "kem")
	d := rapid.SampledFrom(kdfSpecs).Draw(t, "kdf")
	a := rapid.SampledFrom(aeadSpecs).Draw(t, "aead")
	variant := rapid.SampledFrom(threeVariants).Draw(t, "variant")
	route := rapid.SampledFrom([]string{"handle", "key"}).Draw(t, "route")
	id := uint32(0)
	if variant != tk.NoPrefix {
		id = gen.KeyID(t, "id")
	}
	sk := drawHPKEPrivate(t, "private", k)
	c, err := buildHPKE(k, d, a, variant, id, route, sk)
	if err != nil {
		t.Fatalf("HPKE %s/%s/%s variant=%s id=%#x route=%s private=%x: construction failed inside the accepted domain: %v", k.name, d.name, a.name, variant, id, route, sk, err)
	}
	return c
}

// otherPrivate returns private key bytes of the same KEM whose public key differs from c's.
func (c *hpkeCase) otherPrivate(t *rapid.T) ([]byte, bool) {
	var sk2 []byte
	if c.kem.curve != nil {
		sk2 = otherScalar(t, "other_private", c.sk, c.kem.curve.N)
	} else {
		sk2 = otherBytes(t, "other_private", c.sk)
	}
	pk2, err := hpkeref.PublicFromPrivate(c.kem.ref, sk2)
	if err != nil || bytes.Equal(pk2, c.pk) {
		return nil, false // (X25519 scalars that coincide after clamping)
	}
	return sk2, true
}

// kemCandidates are the KEM-specific malformed encapsulated keys, spliced in front of the genuine payload.
func (c *hpkeCase) kemCandidates(t *rapid.T, r *rejecter, ct, info []byte) {
	plen := len(c.prefix())
	enc, payload := ct[plen:plen+c.nenc], ct[plen+c.nenc:]
	with := func(kind string, e []byte) { r.costly(kind, cat(ct[:plen], e, payload), info) }
	with("enc-zero", make([]byte, c.nenc))
	with("enc-ff", bytes.Repeat([]byte{0xff}, c.nenc))
	if cv := c.kem.curve; cv != nil {
		x, y, err := cv.Decode(eciesref.Uncompressed, enc)
		if err != nil {
			t.Fatalf("%v: encapsulated key %x is not a valid uncompressed point: %v", c, enc, err)
		}
		fix := func(v *big.Int) []byte { return v.FillBytes(make([]byte, cv.Size)) }
		with("enc-origin", cat([]byte{4}, make([]byte, 2*cv.Size)))
		with("enc-negated-point", cat([]byte{4}, fix(x), fix(new(big.Int).Sub(cv.P, y))))
		with("enc-y-plus-1", cat([]byte{4}, fix(x), fix(new(big.Int).Mod(new(big.Int).Add(y, big.NewInt(1)), cv.P))))
		with("enc-swapped-xy", cat([]byte{4}, fix(y), fix(x)))
		for _, b := range []byte{0, 2, 3, 5, 6, 7} {
			with("enc-first-byte", cat([]byte{b}, enc[1:]))
		}
		with("enc-x-is-p", cat([]byte{4}, fix(cv.P), fix(y)))
		if xp := new(big.Int).Add(x, cv.P); xp.BitLen() <= 8*cv.Size {
			with("enc-x-plus-p", cat([]byte{4}, fix(xp), fix(y)))
		}
		if yp := new(big.Int).Add(y, cv.P); yp.BitLen() <= 8*cv.Size {
			with("enc-y-plus-p", cat([]byte{4}, fix(x), fix(yp)))
		}
		// compressed and legacy forms of the same point, and the point shifted by the missing byte
		cp, _ := cv.Encode(eciesref.Compressed, x, y)
		r.mustReject("enc-compressed-form", cat(ct[:plen], cp, payload), info)
		r.mustReject("enc-without-04", cat(ct[:plen], enc[1:], payload), info)
		r.mustReject("enc-extra-04", cat(ct[:plen], []byte{4}, enc, payload), info)
	}
	if c.kem.ref == hpkeref.KEMX25519 || c.kem.ref == hpkeref.KEMXWing {
		for _, h := range hpkeref.LowOrderX25519 {
			low, _ := hex.DecodeString(h)
			with("enc-low-order", cat(enc[:c.nenc-32], low))
		}
		// the same point with the ignored top bit set / a non-canonical u: enc differs, so must fail
		hi := append([]byte{}, enc...)
		hi[c.nenc-1] |= 0x80
		with("enc-top-bit-set", hi)
	}
}

// lowOrderForgeries builds complete ciphertexts around small-order X25519 points using the all-zero
// Diffie-Hellman value they produce. RFC 9180 section 7.1.4 has implementations reject them; Tink's
// contract is not explicit, so the oracle is agreement with the two independent implementations.
func (c *hpkeCase) lowOrderForgeries(t *rapid.T, pt, info []byte) int {
	if c.kem.ref != hpkeref.KEMX25519 && c.kem.ref != hpkeref.KEMXWing {
		return 0
	}
	n := 0
	for _, h := range hpkeref.LowOrderX25519 {
		low, _ := hex.DecodeString(h)
		var enc, ss []byte
		var err error
		if c.kem.ref == hpkeref.KEMX25519 {
			enc = low
			ss, err = hpkeref.DHKEMSharedSecret(c.kem.ref, make([]byte, 32), enc, c.pk)
		} else {
			var ssM, ctM []byte
			ssM, ctM, err = hpkeref.MLKEMEncap(hpkeref.KEMMLKEM768, c.pk[:1184], nil)
			enc = cat(ctM, low)
			ss = hpkeref.XWingCombiner(ssM, make([]byte, 32), low, c.pk[1184:])
		}
		if err != nil {
			t.Fatalf("%v: building forgery: %v", c, err)
		}
		ctx, err := hpkeref.KeySchedule(c.suite, ss, info)
		if err != nil {
			t.Fatal(err)
		}
		body, _ := ctx.SealSeq(0, nil, pt)
		raw := cat(enc, body)
		cand := cat(c.prefix(), raw)
		tpt, terr := c.dec.Decrypt(cand, info)
		spt, serr := stdhpke.Open(c.stdPriv, c.stdKDF, c.stdAEAD, info, raw)
		rpt, rerr := hpkeref.Open(c.suite, c.sk, info, raw)
		if (serr == nil) != (rerr == nil) || (serr == nil && !bytes.Equal(spt, rpt)) {
			t.Fatalf("%v: the independent implementations disagree on small-order enc %s: stdlib %v, reference %v", c, h, serr, rerr)
		}
		if (terr == nil) != (serr == nil) || (terr == nil && !bytes.Equal(tpt, spt)) {
			t.Fatalf("%v\nciphertext %s built on the small-order point %s with the all-zero DH value, info=%s: Tink err=%v plaintext=%s; independent implementations err=%v", c, fullHex(cand), h, fullHex(info), terr, fullHex(tpt), serr)
		}
		n++
	}
	return n
}

func checkHPKE(t *rapid.T, c *hpkeCase, pt, info []byte) int {
	desc := func() string { return fmt.Sprintf("%v\npt=%s info=%s", c, fullHex(pt), fullHex(info)) }
	prefix := c.prefix()
	plen := len(prefix)
	ct, err := c.enc.Encrypt(pt, info)
	if err != nil {
		t.Fatalf("%s\nEncrypt failed: %v", desc(), err)
	}
	if want := plen + c.nenc + len(pt) + 16; len(ct) != want {
		t.Fatalf("%s\nlen(ciphertext)=%d, the format prefix||enc||ct||tag says %d", desc(), len(ct), want)
	}
	if !bytes.HasPrefix(ct, prefix) {
		t.Fatalf("%s\nciphertext %s does not start with prefix %x", desc(), gen.Hex(ct), prefix)
	}
	got, err := c.dec.Decrypt(ct, info)
	if err != nil || !bytes.Equal(got, pt) {
		t.Fatalf("%s\nDecrypt(Encrypt(pt)) = %s, %v; ciphertext %s", desc(), fullHex(got), err, fullHex(ct))
	}
	if len(info) == 0 { // nil and empty context info are the same context info
		other := []byte{}
		if info != nil {
			other = nil
		}
		if got, err := c.dec.Decrypt(ct, other); err != nil || !bytes.Equal(got, pt) {
			t.Fatalf("%s\nnil and empty context info not interchangeable: %s, %v", desc(), fullHex(got), err)
		}
	}
	// one context-info buffer reused for another context on the same objects: "any change to the
	// context info yields an error" and the interoperability clauses speak about the bytes, not the
	// slice (added after seeded change C06g, a memo keyed by the caller's context-info slice)
	if len(info) > 0 {
		buf := bytes.Clone(info)
		for i := range buf {
			buf[i] ^= 0x11 // a context info these objects have not seen yet
		}
		first := bytes.Clone(buf)
		ctA, err := c.enc.Encrypt(pt, buf)
		if err != nil {
			t.Fatalf("%s\nEncrypt failed: %v", desc(), err)
		}
		if got, err := c.dec.Decrypt(ctA, buf); err != nil || !bytes.Equal(got, pt) {
			t.Fatalf("%s\nDecrypt(Encrypt(pt)) = %s, %v", desc(), fullHex(got), err)
		}
		for i := range buf {
			buf[i] ^= 0x3c
		}
		if got, err := c.dec.Decrypt(ctA, buf); err == nil {
			t.Fatalf("%s\na ciphertext made under context info %x decrypts (to %s) under context info %x after the caller overwrote its context-info buffer in place", desc(), first, fullHex(got), buf)
		}
		ctB, err := c.enc.Encrypt(pt, buf)
		if err != nil {
			t.Fatalf("%s\nEncrypt failed: %v", desc(), err)
		}
		if got, err := hpkeref.Open(c.suite, c.sk, bytes.Clone(buf), ctB[plen:]); err != nil || !bytes.Equal(got, pt) {
			t.Fatalf("%s\nthe RFC 9180 reference cannot open, under context info %x, a ciphertext Tink made with that context info in a buffer that held %x at the previous call: %v", desc(), buf, first, err)
		}
		if got, err := c.dec.Decrypt(ctB, buf); err != nil || !bytes.Equal(got, pt) {
			t.Fatalf("%s\nTink does not decrypt, under context info %x, its own ciphertext for it (buffer held %x at the previous call): %v", desc(), buf, first, err)
		}
	}
	// Tink -> independent implementations
	raw := ct[plen:]
	if got, err := stdhpke.Open(c.stdPriv, c.stdKDF, c.stdAEAD, info, raw); err != nil || !bytes.Equal(got, pt) {
		t.Fatalf("%s\ncrypto/hpke cannot open Tink's ciphertext %s: %s, %v", desc(), fullHex(ct), fullHex(got), err)
	}
	if got, err := hpkeref.Open(c.suite, c.sk, info, raw); err != nil || !bytes.Equal(got, pt) {
		t.Fatalf("%s\nthe RFC 9180 reference cannot open Tink's ciphertext %s: %s, %v", desc(), fullHex(ct), fullHex(got), err)
	}
	// exact payload: decapsulate enc independently, re-run the key schedule, seal at sequence number 0
	ss, err := hpkeref.Decap(c.kem.ref, raw[:c.nenc], c.sk)
	if err != nil {
		t.Fatalf("%s\nreference Decap of Tink's enc failed: %v", desc(), err)
	}
	ctx, err := hpkeref.KeySchedule(c.suite, ss, info)
	if err != nil {
		t.Fatal(err)
	}
	if want, _ := ctx.SealSeq(0, nil, pt); !bytes.Equal(want, raw[c.nenc:]) {
		t.Fatalf("%s\npayload %x differs from the reference's seal under the same encapsulation: %x", desc(), raw[c.nenc:], want)
	}
	// independent implementations -> Tink
	renc, rbody, err := hpkeref.Seal(c.suite, c.pk, info, pt, nil)
	if err != nil {
		t.Fatalf("%s\nreference Seal: %v", desc(), err)
	}
	rct := cat(prefix, renc, rbody)
	if got, err := c.dec.Decrypt(rct, info); err != nil || !bytes.Equal(got, pt) {
		t.Fatalf("%s\nTink cannot decrypt the RFC 9180 reference's ciphertext %s: %s, %v", desc(), fullHex(rct), fullHex(got), err)
	}
	sraw, err := stdhpke.Seal(c.stdPub, c.stdKDF, c.stdAEAD, info, pt)
	if err != nil {
		t.Fatalf("%s\ncrypto/hpke Seal: %v", desc(), err)
	}
	sct := cat(prefix, sraw)
	if got, err := c.dec.Decrypt(sct, info); err != nil || !bytes.Equal(got, pt) {
		t.Fatalf("%s\nTink cannot decrypt crypto/hpke's ciphertext %s: %s, %v", desc(), fullHex(sct), fullHex(got), err)
	}

	// --- everything else must be refused -------------------------------------------------------
	r := newRejecter(t, c.dec, desc)
	r.light = !c.kem.cheap
	r.genuine(ct, info)
	r.genuine(rct, info)
	r.genuine(sct, info)
	structural(t, r, layout{plen: plen, kemLen: c.nenc, tagLen: 16}, c.variant, c.id, ct, info, c.kem.cheap)
	c.kemCandidates(t, r, ct, info)
	// encapsulated key of one genuine ciphertext with the payload of another
	r.mustReject("splice-enc", cat(prefix, renc, ct[plen+c.nenc:]), info)
	r.mustReject("splice-payload", cat(ct[:plen+c.nenc], rbody), info)
	// reference ciphertext for other info / sealed at sequence number 1 / with non-empty aad
	if ss2, enc2, err := hpkeref.Encap(c.kem.ref, c.pk, nil); err == nil {
		ctx2, _ := hpkeref.KeySchedule(c.suite, ss2, info)
		seq1, _ := ctx2.SealSeq(1, nil, pt)
		r.mustReject("ref-sequence-number-1", cat(prefix, enc2, seq1), info)
		aad, _ := ctx2.SealSeq(0, []byte{0}, pt)
		r.mustReject("ref-nonempty-aad", cat(prefix, enc2, aad), info)
		if len(info) > 0 {
			asAAD, _ := ctx2.SealSeq(0, info, pt)
			r.mustReject("ref-info-as-aad", cat(prefix, enc2, asAAD), info)
		}
	}
	// the same suite with one identifier changed (the KEM part is the same, the key schedule's
	// suite_id - and with it key and base nonce - differs): EVERY other AEAD id and EVERY other KDF
	// id, each as a complete reference ciphertext under a fresh reference encapsulation to this
	// public key. (Until the audit only the first other id of each list was tried, so e.g. a
	// ChaCha20-Poly1305 key was never offered an AES-256-GCM ciphertext.)
	neighbour := func(kind string, s2 hpkeref.Suite) {
		e, b, err := hpkeref.Seal(s2, c.pk, info, pt, nil)
		if err != nil {
			t.Fatalf("%s\nreference Seal under the neighbouring suite %v: %v", desc(), s2, err)
		}
		r.mustReject(kind, cat(prefix, e, b), info)
	}
	for _, other := range aeadSpecs {
		if other.ref != c.aead.ref {
			s2 := c.suite
			s2.AEAD = other.ref
			neighbour("ref-other-aead-id:"+other.name, s2)
			evid.Add("other_aead_id/"+c.aead.name+"->"+other.name, 1)
		}
	}
	for _, other := range kdfSpecs {
		if other.ref != c.kdf.ref {
			s2 := c.suite
			s2.KDF = other.ref
			neighbour("ref-other-kdf-id:"+other.name, s2)
			evid.Add("other_kdf_id/"+c.kdf.name+"->"+other.name, 1)
		}
	}
	// another recipient's private key, same parameters and prefix
	if sk2, ok := c.otherPrivate(t); ok {
		o, err := buildHPKE(c.kem, c.kdf, c.aead, c.variant, c.id, c.route, sk2)
		if err != nil {
			t.Fatalf("%s\nother key pair private=%x: %v", desc(), sk2, err)
		}
		r.mustRejectWith(o.dec, "other-private-key", ct, info)
		oct, err := o.enc.Encrypt(pt, info)
		if err != nil {
			t.Fatalf("%s\nother key Encrypt: %v", desc(), err)
		}
		r.mustReject("ciphertext-for-other-key", oct, info)
	}
	n := r.n + c.lowOrderForgeries(t, pt, info)
	r.record()
	reuseAfterRejects(t, desc, c.enc, c.dec, ct, rct, pt, info, func(x []byte) ([]byte, error) {
		if !bytes.HasPrefix(x, prefix) {
			return nil, fmt.Errorf("ciphertext does not start with the prefix %x", prefix)
		}
		if got, err := stdhpke.Open(c.stdPriv, c.stdKDF, c.stdAEAD, info, x[plen:]); err != nil || !bytes.Equal(got, pt) {
			return got, fmt.Errorf("crypto/hpke: %v", err)
		}
		return hpkeref.Open(c.suite, c.sk, info, x[plen:])
	})
	return n
}

func TestHPKE(t *testing.T) {
	rapid.Check(t, func(rt *rapid.T) {
		detrand.Seed(rapid.Uint64().Draw(rt, "entropy"))
		c := drawHPKE(rt)
		pt := drawPlaintext(rt)
		info := drawInfo(rt)
		n := checkHPKE(rt, c, pt, info)
		class := fmt.Sprintf("%s/%s/%s/%s/%s", c.kem.name, c.kdf.name, c.aead.name, c.variant, c.route)
		evid.Add("info_"+infoClass(info), 1)
		evid.Add("pt_"+gen.LenClass(len(pt)), 1)
		evid.Case(class, true, evid.NewH().S(c.String()).B(pt).B(info).S(infoClass(info)).Sum(), func() any {
			return map[string]any{"case": c.String(), "pt": gen.Hex(pt), "info": gen.Hex(info), "candidates": n}
		})
	})
}
