package c12

// The independent field table of C12.
//
// A serializer and a parser that make the SAME mistake survive every round trip.  This file therefore
// decodes the serialized KeyData / KeyTemplate with the generated proto types and compares every
// field with keys.Info.Fields, i.e. with the values the case was GENERATED from.  All tables below
// (type URLs, key material types, enum names, variant -> output prefix type) are written by hand.

import (
	"bytes"
	"fmt"
	"math/big"

	"google.golang.org/protobuf/proto"
	"pgregory.net/rapid"

	cmacpb "github.com/tink-crypto/tink-go/v2/proto/aes_cmac_go_proto"
	cmacprfpb "github.com/tink-crypto/tink-go/v2/proto/aes_cmac_prf_go_proto"
	ctrhmacpb "github.com/tink-crypto/tink-go/v2/proto/aes_ctr_hmac_aead_go_proto"
	ctrstreampb "github.com/tink-crypto/tink-go/v2/proto/aes_ctr_hmac_streaming_go_proto"
	gcmpb "github.com/tink-crypto/tink-go/v2/proto/aes_gcm_go_proto"
	gcmstreampb "github.com/tink-crypto/tink-go/v2/proto/aes_gcm_hkdf_streaming_go_proto"
	gcmsivpb "github.com/tink-crypto/tink-go/v2/proto/aes_gcm_siv_go_proto"
	sivpb "github.com/tink-crypto/tink-go/v2/proto/aes_siv_go_proto"
	chachapb "github.com/tink-crypto/tink-go/v2/proto/chacha20_poly1305_go_proto"
	commonpb "github.com/tink-crypto/tink-go/v2/proto/common_go_proto"
	compositepb "github.com/tink-crypto/tink-go/v2/proto/composite_ml_dsa_go_proto"
	ecdsapb "github.com/tink-crypto/tink-go/v2/proto/ecdsa_go_proto"
	eciespb "github.com/tink-crypto/tink-go/v2/proto/ecies_aead_hkdf_go_proto"
	ed25519pb "github.com/tink-crypto/tink-go/v2/proto/ed25519_go_proto"
	hkdfprfpb "github.com/tink-crypto/tink-go/v2/proto/hkdf_prf_go_proto"
	hmacpb "github.com/tink-crypto/tink-go/v2/proto/hmac_go_proto"
	hmacprfpb "github.com/tink-crypto/tink-go/v2/proto/hmac_prf_go_proto"
	hpkepb "github.com/tink-crypto/tink-go/v2/proto/hpke_go_proto"
	jwtecdsapb "github.com/tink-crypto/tink-go/v2/proto/jwt_ecdsa_go_proto"
	jwthmacpb "github.com/tink-crypto/tink-go/v2/proto/jwt_hmac_go_proto"
	jwtmldsapb "github.com/tink-crypto/tink-go/v2/proto/jwt_ml_dsa_go_proto"
	jwtrsapkcs1pb "github.com/tink-crypto/tink-go/v2/proto/jwt_rsa_ssa_pkcs1_go_proto"
	jwtrsapsspb "github.com/tink-crypto/tink-go/v2/proto/jwt_rsa_ssa_pss_go_proto"
	mldsapb "github.com/tink-crypto/tink-go/v2/proto/ml_dsa_go_proto"
	deriverpb "github.com/tink-crypto/tink-go/v2/proto/prf_based_deriver_go_proto"
	rsapkcs1pb "github.com/tink-crypto/tink-go/v2/proto/rsa_ssa_pkcs1_go_proto"
	rsapsspb "github.com/tink-crypto/tink-go/v2/proto/rsa_ssa_pss_go_proto"
	slhdsapb "github.com/tink-crypto/tink-go/v2/proto/slh_dsa_go_proto"
	tinkpb "github.com/tink-crypto/tink-go/v2/proto/tink_go_proto"
	xaesgcmpb "github.com/tink-crypto/tink-go/v2/proto/x_aes_gcm_go_proto"
	xchachapb "github.com/tink-crypto/tink-go/v2/proto/xchacha20_poly1305_go_proto"
	"github.com/tink-crypto/tink-go/v2/verifharness/internal/evid"
	"github.com/tink-crypto/tink-go/v2/verifharness/internal/keys"
	"github.com/tink-crypto/tink-go/v2/verifharness/internal/tk"
)

const urlPrefix = "type.googleapis.com/google.crypto.tink."

// urlNames: proto message names per key type: {symmetric, private, public}.
var urlNames = map[string][3]string{
	"AesGcm":              {"AesGcmKey"},
	"AesCtrHmacAead":      {"AesCtrHmacAeadKey"},
	"AesGcmSiv":           {"AesGcmSivKey"},
	"ChaCha20Poly1305":    {"ChaCha20Poly1305Key"},
	"XChaCha20Poly1305":   {"XChaCha20Poly1305Key"},
	"XAesGcm":             {"XAesGcmKey"},
	"AesSiv":              {"AesSivKey"},
	"Hmac":                {"HmacKey"},
	"AesCmac":             {"AesCmacKey"},
	"HmacPrf":             {"HmacPrfKey"},
	"HkdfPrf":             {"HkdfPrfKey"},
	"AesCmacPrf":          {"AesCmacPrfKey"},
	"Ecdsa":               {"", "EcdsaPrivateKey", "EcdsaPublicKey"},
	"Ed25519":             {"", "Ed25519PrivateKey", "Ed25519PublicKey"},
	"RsaSsaPkcs1":         {"", "RsaSsaPkcs1PrivateKey", "RsaSsaPkcs1PublicKey"},
	"RsaSsaPss":           {"", "RsaSsaPssPrivateKey", "RsaSsaPssPublicKey"},
	"MlDsa":               {"", "MlDsaPrivateKey", "MlDsaPublicKey"},
	"SlhDsa":              {"", "SlhDsaPrivateKey", "SlhDsaPublicKey"},
	"CompositeMlDsa":      {"", "CompositeMlDsaPrivateKey", "CompositeMlDsaPublicKey"},
	"Hpke":                {"", "HpkePrivateKey", "HpkePublicKey"},
	"EciesAeadHkdf":       {"", "EciesAeadHkdfPrivateKey", "EciesAeadHkdfPublicKey"},
	"AesGcmHkdfStreaming": {"AesGcmHkdfStreamingKey"},
	"AesCtrHmacStreaming": {"AesCtrHmacStreamingKey"},
	"JwtHmac":             {"JwtHmacKey"},
	"JwtEcdsa":            {"", "JwtEcdsaPrivateKey", "JwtEcdsaPublicKey"},
	"JwtRsaSsaPkcs1":      {"", "JwtRsaSsaPkcs1PrivateKey", "JwtRsaSsaPkcs1PublicKey"},
	"JwtRsaSsaPss":        {"", "JwtRsaSsaPssPrivateKey", "JwtRsaSsaPssPublicKey"},
	"JwtMlDsa":            {"", "JwtMlDsaPrivateKey", "JwtMlDsaPublicKey"},
	"PrfBasedDeriver":     {"PrfBasedDeriverKey"},
}

// wantURLAndMaterial is the expected type URL and key material type of a key of the type.
func wantURLAndMaterial(typ string, public bool) (string, tinkpb.KeyData_KeyMaterialType) {
	n, ok := urlNames[typ]
	if !ok {
		panic("no URL entry for " + typ)
	}
	switch {
	case n[0] != "":
		return urlPrefix + n[0], tinkpb.KeyData_SYMMETRIC
	case public:
		return urlPrefix + n[2], tinkpb.KeyData_ASYMMETRIC_PUBLIC
	default:
		return urlPrefix + n[1], tinkpb.KeyData_ASYMMETRIC_PRIVATE
	}
}

// wantPrefixType is the harness's variant -> OutputPrefixType table.
func wantPrefixType(variant string) tinkpb.OutputPrefixType {
	switch variant {
	case tk.Tink:
		return tinkpb.OutputPrefixType_TINK
	case tk.Crunchy:
		return tinkpb.OutputPrefixType_CRUNCHY
	case tk.Legacy:
		return tinkpb.OutputPrefixType_LEGACY
	case tk.NoPrefix:
		return tinkpb.OutputPrefixType_RAW
	case keys.WithIDRequirement:
		return tinkpb.OutputPrefixType_WITH_ID_REQUIREMENT
	}
	panic("unknown variant " + variant)
}

var (
	hashEnum = map[string]commonpb.HashType{
		"SHA1": commonpb.HashType_SHA1, "SHA224": commonpb.HashType_SHA224, "SHA256": commonpb.HashType_SHA256,
		"SHA384": commonpb.HashType_SHA384, "SHA512": commonpb.HashType_SHA512,
	}
	// wire numbers of common.proto, by hand (the generated constants above come from the same file).
	hashNumber = map[string]int32{"SHA1": 1, "SHA384": 2, "SHA256": 3, "SHA512": 4, "SHA224": 5}
	curveEnum  = map[string]commonpb.EllipticCurveType{
		"NIST_P256": commonpb.EllipticCurveType_NIST_P256, "NIST_P384": commonpb.EllipticCurveType_NIST_P384,
		"NIST_P521": commonpb.EllipticCurveType_NIST_P521, "X25519": commonpb.EllipticCurveType_CURVE25519,
	}
	curveSize       = map[string]int{"NIST_P256": 32, "NIST_P384": 48, "NIST_P521": 66}
	pointFormatEnum = map[string]commonpb.EcPointFormat{
		"COMPRESSED": commonpb.EcPointFormat_COMPRESSED, "UNCOMPRESSED": commonpb.EcPointFormat_UNCOMPRESSED,
		"DO_NOT_USE_CRUNCHY_UNCOMPRESSED": commonpb.EcPointFormat_DO_NOT_USE_CRUNCHY_UNCOMPRESSED,
	}
	ecdsaEncodingEnum = map[string]ecdsapb.EcdsaSignatureEncoding{"DER": ecdsapb.EcdsaSignatureEncoding_DER, "IEEE_P1363": ecdsapb.EcdsaSignatureEncoding_IEEE_P1363}
	mlDsaEnum         = map[string]mldsapb.MlDsaInstance{"MLDSA44": mldsapb.MlDsaInstance_ML_DSA_44, "MLDSA65": mldsapb.MlDsaInstance_ML_DSA_65, "MLDSA87": mldsapb.MlDsaInstance_ML_DSA_87}
	slhHashEnum       = map[string]slhdsapb.SlhDsaHashType{"SHA2": slhdsapb.SlhDsaHashType_SHA2, "SHAKE": slhdsapb.SlhDsaHashType_SHAKE}
	slhSigEnum        = map[string]slhdsapb.SlhDsaSignatureType{"FAST_SIGNING": slhdsapb.SlhDsaSignatureType_FAST_SIGNING, "SMALL_SIGNATURE": slhdsapb.SlhDsaSignatureType_SMALL_SIGNATURE}
	compositeEnum     = map[string]compositepb.CompositeMlDsaClassicalAlgorithm{
		"ED25519":       compositepb.CompositeMlDsaClassicalAlgorithm_CLASSICAL_ALGORITHM_ED25519,
		"ECDSA_P256":    compositepb.CompositeMlDsaClassicalAlgorithm_CLASSICAL_ALGORITHM_ECDSA_P256,
		"ECDSA_P384":    compositepb.CompositeMlDsaClassicalAlgorithm_CLASSICAL_ALGORITHM_ECDSA_P384,
		"ECDSA_P521":    compositepb.CompositeMlDsaClassicalAlgorithm_CLASSICAL_ALGORITHM_ECDSA_P521,
		"RSA3072_PSS":   compositepb.CompositeMlDsaClassicalAlgorithm_CLASSICAL_ALGORITHM_RSA3072_PSS,
		"RSA4096_PSS":   compositepb.CompositeMlDsaClassicalAlgorithm_CLASSICAL_ALGORITHM_RSA4096_PSS,
		"RSA3072_PKCS1": compositepb.CompositeMlDsaClassicalAlgorithm_CLASSICAL_ALGORITHM_RSA3072_PKCS1,
		"RSA4096_PKCS1": compositepb.CompositeMlDsaClassicalAlgorithm_CLASSICAL_ALGORITHM_RSA4096_PKCS1,
	}
	hpkeKemEnum = map[string]hpkepb.HpkeKem{
		"DHKEM_P256_HKDF_SHA256": hpkepb.HpkeKem_DHKEM_P256_HKDF_SHA256, "DHKEM_P384_HKDF_SHA384": hpkepb.HpkeKem_DHKEM_P384_HKDF_SHA384,
		"DHKEM_P521_HKDF_SHA512": hpkepb.HpkeKem_DHKEM_P521_HKDF_SHA512, "DHKEM_X25519_HKDF_SHA256": hpkepb.HpkeKem_DHKEM_X25519_HKDF_SHA256,
		"X_WING": hpkepb.HpkeKem_X_WING, "ML_KEM768": hpkepb.HpkeKem_ML_KEM768, "ML_KEM1024": hpkepb.HpkeKem_ML_KEM1024,
	}
	hpkeKdfEnum  = map[string]hpkepb.HpkeKdf{"HKDF_SHA256": hpkepb.HpkeKdf_HKDF_SHA256, "HKDF_SHA384": hpkepb.HpkeKdf_HKDF_SHA384, "HKDF_SHA512": hpkepb.HpkeKdf_HKDF_SHA512}
	hpkeAeadEnum = map[string]hpkepb.HpkeAead{"AES_128_GCM": hpkepb.HpkeAead_AES_128_GCM, "AES_256_GCM": hpkepb.HpkeAead_AES_256_GCM, "CHACHA20_POLY1305": hpkepb.HpkeAead_CHACHA20_POLY1305}
	hpkeKemCurve = map[string]string{"DHKEM_P256_HKDF_SHA256": "NIST_P256", "DHKEM_P384_HKDF_SHA384": "NIST_P384", "DHKEM_P521_HKDF_SHA512": "NIST_P521"}
	// JWT algorithm enums all number their three members 1, 2, 3 in ascending digest / level order.
	jwtAlgNumber = map[string]int32{
		"HS256": 1, "HS384": 2, "HS512": 3, "ES256": 1, "ES384": 2, "ES512": 3,
		"RS256": 1, "RS384": 2, "RS512": 3, "PS256": 1, "PS384": 2, "PS512": 3,
		"ML-DSA-44": 1, "ML-DSA-65": 2, "ML-DSA-87": 3,
	}
	// eciesDEM: DEM name -> (key type, fields of its key format).
	eciesDEM = map[string]struct {
		typ string
		f   map[string]any
	}{
		"AES128_GCM":             {"AesGcm", map[string]any{"key_size": 16}},
		"AES256_GCM":             {"AesGcm", map[string]any{"key_size": 32}},
		"AES256_SIV":             {"AesSiv", map[string]any{"key_size": 64}},
		"XCHACHA20_POLY1305":     {"XChaCha20Poly1305", map[string]any{}},
		"AES128_CTR_HMAC_SHA256": {"AesCtrHmacAead", map[string]any{"aes_key_size": 16, "hmac_key_size": 32, "iv_size": 16, "tag_size": 16, "hash": "SHA256"}},
		"AES256_CTR_HMAC_SHA256": {"AesCtrHmacAead", map[string]any{"aes_key_size": 32, "hmac_key_size": 32, "iv_size": 16, "tag_size": 32, "hash": "SHA256"}},
	}
)

// fc carries the failure context of one field-table check.
type fc struct {
	t    *rapid.T
	desc string
	path string
}

func (c *fc) at(p string) *fc { return &fc{t: c.t, desc: c.desc, path: c.path + "/" + p} }

func (c *fc) failf(format string, args ...any) {
	c.t.Fatalf("%s: field table %s: %s", c.desc, c.path, fmt.Sprintf(format, args...))
}

func (c *fc) unmarshal(b []byte, m proto.Message) {
	if err := proto.Unmarshal(b, m); err != nil {
		c.failf("value %x does not decode as %s: %v", b, m.ProtoReflect().Descriptor().FullName(), err)
	}
	c.noUnknown(m)
}

// noUnknown: the serialization carries nothing beyond the fields of the documented message.  C12 speaks
// about round trips and equality, not about what else a serialization may carry: counted, not asserted.
func (c *fc) noUnknown(m proto.Message) {
	if u := m.ProtoReflect().GetUnknown(); len(u) != 0 {
		evid.Add("observed_not_asserted/unknown_fields/"+string(m.ProtoReflect().Descriptor().FullName()), 1)
	}
}

func (c *fc) num(name string, got int64, want int) {
	if got != int64(want) {
		c.failf("%s = %d, generated from %d", name, got, want)
	}
}

// version: the serializers write version 0.  The property text does not fix the version number (a serializer
// that wrote another version its parser accepts would still round-trip): counted, not asserted.
func (c *fc) version(got uint32) {
	if got != 0 {
		evid.Add("observed_not_asserted/version_nonzero"+c.path, 1)
	}
}

func (c *fc) bytes(name string, got, want []byte) {
	if !bytes.Equal(got, want) {
		c.failf("%s = %x, generated from %x", name, got, want)
	}
}

// bigint compares integer VALUES (the serializers are free in their leading-zero policy).
func (c *fc) bigint(name string, got, want []byte) {
	if new(big.Int).SetBytes(got).Cmp(new(big.Int).SetBytes(want)) != 0 {
		c.failf("%s = %x, generated from the integer %x", name, got, want)
	}
}

func (c *fc) str(name, got, want string) {
	if got != want {
		c.failf("%s = %q, generated from %q", name, got, want)
	}
}

func (c *fc) hash(name string, got commonpb.HashType, want string) {
	w, ok := hashEnum[want]
	if !ok {
		c.failf("harness: unknown hash name %q", want)
	}
	if got != w || int32(got) != hashNumber[want] {
		c.failf("%s = %v (%d), generated from %s (%d)", name, got, int32(got), want, hashNumber[want])
	}
}

func fInt(f map[string]any, name string) int {
	v, ok := f[name].(int)
	if !ok {
		panic(fmt.Sprintf("Fields[%q] is %T, not int", name, f[name]))
	}
	return v
}

func fBytes(f map[string]any, name string) []byte {
	v, ok := f[name].([]byte)
	if !ok {
		panic(fmt.Sprintf("Fields[%q] is %T, not []byte", name, f[name]))
	}
	return v
}

func fStr(f map[string]any, name string) string {
	v, ok := f[name].(string)
	if !ok {
		panic(fmt.Sprintf("Fields[%q] is %T, not string", name, f[name]))
	}
	return v
}

func fMap(f map[string]any, name string) map[string]any {
	v, ok := f[name].(map[string]any)
	if !ok {
		panic(fmt.Sprintf("Fields[%q] is %T, not a map", name, f[name]))
	}
	return v
}

// customKID checks the custom_kid sub-message of the JWT key protos.
func (c *fc) customKID(f map[string]any, present bool, value string) {
	if fStr(f, "kid_strategy") == keys.KIDCustom {
		if !present {
			c.failf("custom_kid is absent, the key was generated with custom kid %q", fStr(f, "custom_kid"))
		}
		c.str("custom_kid.value", value, fStr(f, "custom_kid"))
		return
	}
	if present {
		c.failf("custom_kid {value: %q} is present, the key was generated with kid strategy %s", value, fStr(f, "kid_strategy"))
	}
}

func (c *fc) hmacParams(p *hmacpb.HmacParams, hash string, tagSize int) {
	if p == nil {
		c.failf("hmac params missing")
	}
	c.noUnknown(p)
	c.hash("hmac params.hash", p.GetHash(), hash)
	c.num("hmac params.tag_size", int64(p.GetTagSize()), tagSize)
}

func (c *fc) rsaPrivate(f map[string]any, d, p, q, dp, dq, crt []byte) {
	c.bigint("d", d, fBytes(f, "d"))
	c.bigint("p", p, fBytes(f, "p"))
	c.bigint("q", q, fBytes(f, "q"))
	c.bigint("dp", dp, fBytes(f, "dp"))
	c.bigint("dq", dq, fBytes(f, "dq"))
	c.bigint("crt", crt, fBytes(f, "qinv"))
}

func (c *fc) rsaPublic(f map[string]any, n, e []byte) {
	c.bigint("n", n, fBytes(f, "n"))
	c.bigint("e", e, big.NewInt(int64(fInt(f, "public_exponent"))).Bytes())
}

// checkKeyData compares one serialized KeyData with the fields the key was generated from.
func checkKeyData(c *fc, typ string, f map[string]any, kd *tinkpb.KeyData, public bool) {
	c = c.at(typ)
	if kd == nil {
		c.failf("key data missing")
	}
	c.noUnknown(kd)
	wantURL, wantMat := wantURLAndMaterial(typ, public)
	c.str("type_url", kd.GetTypeUrl(), wantURL)
	if kd.GetKeyMaterialType() != wantMat {
		c.failf("key_material_type = %v, want %v", kd.GetKeyMaterialType(), wantMat)
	}
	v := kd.GetValue()
	switch typ {
	case "AesGcm":
		m := &gcmpb.AesGcmKey{}
		c.unmarshal(v, m)
		c.version(m.GetVersion())
		c.bytes("key_value", m.GetKeyValue(), fBytes(f, "key_value"))
	case "AesCtrHmacAead":
		m := &ctrhmacpb.AesCtrHmacAeadKey{}
		c.unmarshal(v, m)
		c.version(m.GetVersion())
		a, h := m.GetAesCtrKey(), m.GetHmacKey()
		if a == nil || h == nil || a.GetParams() == nil {
			c.failf("aes_ctr_key / hmac_key / params missing")
		}
		c.noUnknown(a)
		c.noUnknown(a.GetParams())
		c.noUnknown(h)
		c.version(a.GetVersion())
		c.version(h.GetVersion())
		c.num("aes_ctr_key.params.iv_size", int64(a.GetParams().GetIvSize()), fInt(f, "iv_size"))
		c.bytes("aes_ctr_key.key_value", a.GetKeyValue(), fBytes(f, "aes_key"))
		c.hmacParams(h.GetParams(), fStr(f, "hash"), fInt(f, "tag_size"))
		c.bytes("hmac_key.key_value", h.GetKeyValue(), fBytes(f, "hmac_key"))
	case "AesGcmSiv":
		m := &gcmsivpb.AesGcmSivKey{}
		c.unmarshal(v, m)
		c.version(m.GetVersion())
		c.bytes("key_value", m.GetKeyValue(), fBytes(f, "key_value"))
	case "ChaCha20Poly1305":
		m := &chachapb.ChaCha20Poly1305Key{}
		c.unmarshal(v, m)
		c.version(m.GetVersion())
		c.bytes("key_value", m.GetKeyValue(), fBytes(f, "key_value"))
	case "XChaCha20Poly1305":
		m := &xchachapb.XChaCha20Poly1305Key{}
		c.unmarshal(v, m)
		c.version(m.GetVersion())
		c.bytes("key_value", m.GetKeyValue(), fBytes(f, "key_value"))
	case "XAesGcm":
		m := &xaesgcmpb.XAesGcmKey{}
		c.unmarshal(v, m)
		c.version(m.GetVersion())
		if m.GetParams() == nil {
			c.failf("params missing")
		}
		c.noUnknown(m.GetParams())
		c.num("params.salt_size", int64(m.GetParams().GetSaltSize()), fInt(f, "salt_size"))
		c.bytes("key_value", m.GetKeyValue(), fBytes(f, "key_value"))
	case "AesSiv":
		m := &sivpb.AesSivKey{}
		c.unmarshal(v, m)
		c.version(m.GetVersion())
		c.bytes("key_value", m.GetKeyValue(), fBytes(f, "key_value"))
	case "Hmac":
		m := &hmacpb.HmacKey{}
		c.unmarshal(v, m)
		c.version(m.GetVersion())
		c.hmacParams(m.GetParams(), fStr(f, "hash"), fInt(f, "tag_size"))
		c.bytes("key_value", m.GetKeyValue(), fBytes(f, "key_value"))
	case "AesCmac":
		m := &cmacpb.AesCmacKey{}
		c.unmarshal(v, m)
		c.version(m.GetVersion())
		if m.GetParams() == nil {
			c.failf("params missing")
		}
		c.noUnknown(m.GetParams())
		c.num("params.tag_size", int64(m.GetParams().GetTagSize()), fInt(f, "tag_size"))
		c.bytes("key_value", m.GetKeyValue(), fBytes(f, "key_value"))
	case "HmacPrf":
		m := &hmacprfpb.HmacPrfKey{}
		c.unmarshal(v, m)
		c.version(m.GetVersion())
		if m.GetParams() == nil {
			c.failf("params missing")
		}
		c.noUnknown(m.GetParams())
		c.hash("params.hash", m.GetParams().GetHash(), fStr(f, "hash"))
		c.bytes("key_value", m.GetKeyValue(), fBytes(f, "key_value"))
	case "HkdfPrf":
		m := &hkdfprfpb.HkdfPrfKey{}
		c.unmarshal(v, m)
		c.version(m.GetVersion())
		if m.GetParams() == nil {
			c.failf("params missing")
		}
		c.noUnknown(m.GetParams())
		c.hash("params.hash", m.GetParams().GetHash(), fStr(f, "hash"))
		c.bytes("params.salt", m.GetParams().GetSalt(), fBytes(f, "salt"))
		c.bytes("key_value", m.GetKeyValue(), fBytes(f, "key_value"))
	case "AesCmacPrf":
		m := &cmacprfpb.AesCmacPrfKey{}
		c.unmarshal(v, m)
		c.version(m.GetVersion())
		c.bytes("key_value", m.GetKeyValue(), fBytes(f, "key_value"))
	case "Ecdsa":
		pub := &ecdsapb.EcdsaPublicKey{}
		if public {
			c.unmarshal(v, pub)
		} else {
			m := &ecdsapb.EcdsaPrivateKey{}
			c.unmarshal(v, m)
			c.version(m.GetVersion())
			c.bigint("key_value", m.GetKeyValue(), fBytes(f, "key_value"))
			if pub = m.GetPublicKey(); pub == nil {
				c.failf("public_key missing")
			}
			c.noUnknown(pub)
		}
		c.version(pub.GetVersion())
		p := pub.GetParams()
		if p == nil {
			c.failf("params missing")
		}
		c.noUnknown(p)
		c.hash("params.hash_type", p.GetHashType(), fStr(f, "hash"))
		if p.GetCurve() != curveEnum[fStr(f, "curve")] {
			c.failf("params.curve = %v, generated from %s", p.GetCurve(), fStr(f, "curve"))
		}
		if p.GetEncoding() != ecdsaEncodingEnum[fStr(f, "encoding")] {
			c.failf("params.encoding = %v, generated from %s", p.GetEncoding(), fStr(f, "encoding"))
		}
		c.bigint("x", pub.GetX(), fBytes(f, "x"))
		c.bigint("y", pub.GetY(), fBytes(f, "y"))
	case "Ed25519":
		pub := &ed25519pb.Ed25519PublicKey{}
		if public {
			c.unmarshal(v, pub)
		} else {
			m := &ed25519pb.Ed25519PrivateKey{}
			c.unmarshal(v, m)
			c.version(m.GetVersion())
			c.bytes("key_value", m.GetKeyValue(), fBytes(f, "key_value"))
			if pub = m.GetPublicKey(); pub == nil {
				c.failf("public_key missing")
			}
			c.noUnknown(pub)
		}
		c.version(pub.GetVersion())
		c.bytes("public key_value", pub.GetKeyValue(), fBytes(f, "public_key"))
	case "RsaSsaPkcs1":
		pub := &rsapkcs1pb.RsaSsaPkcs1PublicKey{}
		if public {
			c.unmarshal(v, pub)
		} else {
			m := &rsapkcs1pb.RsaSsaPkcs1PrivateKey{}
			c.unmarshal(v, m)
			c.version(m.GetVersion())
			c.rsaPrivate(f, m.GetD(), m.GetP(), m.GetQ(), m.GetDp(), m.GetDq(), m.GetCrt())
			if pub = m.GetPublicKey(); pub == nil {
				c.failf("public_key missing")
			}
			c.noUnknown(pub)
		}
		c.version(pub.GetVersion())
		if pub.GetParams() == nil {
			c.failf("params missing")
		}
		c.noUnknown(pub.GetParams())
		c.hash("params.hash_type", pub.GetParams().GetHashType(), fStr(f, "hash"))
		c.rsaPublic(f, pub.GetN(), pub.GetE())
	case "RsaSsaPss":
		pub := &rsapsspb.RsaSsaPssPublicKey{}
		if public {
			c.unmarshal(v, pub)
		} else {
			m := &rsapsspb.RsaSsaPssPrivateKey{}
			c.unmarshal(v, m)
			c.version(m.GetVersion())
			c.rsaPrivate(f, m.GetD(), m.GetP(), m.GetQ(), m.GetDp(), m.GetDq(), m.GetCrt())
			if pub = m.GetPublicKey(); pub == nil {
				c.failf("public_key missing")
			}
			c.noUnknown(pub)
		}
		c.version(pub.GetVersion())
		p := pub.GetParams()
		if p == nil {
			c.failf("params missing")
		}
		c.noUnknown(p)
		c.hash("params.sig_hash", p.GetSigHash(), fStr(f, "hash"))
		c.hash("params.mgf1_hash", p.GetMgf1Hash(), fStr(f, "mgf1_hash"))
		c.num("params.salt_length", int64(p.GetSaltLength()), fInt(f, "salt_len"))
		c.rsaPublic(f, pub.GetN(), pub.GetE())
	case "MlDsa":
		pub := &mldsapb.MlDsaPublicKey{}
		if public {
			c.unmarshal(v, pub)
		} else {
			m := &mldsapb.MlDsaPrivateKey{}
			c.unmarshal(v, m)
			c.version(m.GetVersion())
			c.bytes("key_value", m.GetKeyValue(), fBytes(f, "key_value"))
			if pub = m.GetPublicKey(); pub == nil {
				c.failf("public_key missing")
			}
			c.noUnknown(pub)
		}
		c.version(pub.GetVersion())
		if pub.GetParams() == nil {
			c.failf("params missing")
		}
		c.noUnknown(pub.GetParams())
		if pub.GetParams().GetMlDsaInstance() != mlDsaEnum[fStr(f, "instance")] {
			c.failf("params.ml_dsa_instance = %v, generated from %s", pub.GetParams().GetMlDsaInstance(), fStr(f, "instance"))
		}
		c.bytes("public key_value", pub.GetKeyValue(), fBytes(f, "public_key"))
	case "SlhDsa":
		pub := &slhdsapb.SlhDsaPublicKey{}
		if public {
			c.unmarshal(v, pub)
		} else {
			m := &slhdsapb.SlhDsaPrivateKey{}
			c.unmarshal(v, m)
			c.version(m.GetVersion())
			c.bytes("key_value", m.GetKeyValue(), fBytes(f, "key_value"))
			if pub = m.GetPublicKey(); pub == nil {
				c.failf("public_key missing")
			}
			c.noUnknown(pub)
		}
		c.version(pub.GetVersion())
		p := pub.GetParams()
		if p == nil {
			c.failf("params missing")
		}
		c.noUnknown(p)
		c.num("params.key_size", int64(p.GetKeySize()), fInt(f, "key_size"))
		if p.GetHashType() != slhHashEnum[fStr(f, "hash_type")] {
			c.failf("params.hash_type = %v, generated from %s", p.GetHashType(), fStr(f, "hash_type"))
		}
		if p.GetSigType() != slhSigEnum[fStr(f, "sig_type")] {
			c.failf("params.sig_type = %v, generated from %s", p.GetSigType(), fStr(f, "sig_type"))
		}
		c.bytes("public key_value", pub.GetKeyValue(), fBytes(f, "public_key"))
	case "CompositeMlDsa":
		var params *compositepb.CompositeMlDsaParams
		var ml, cl *tinkpb.KeyData
		if public {
			m := &compositepb.CompositeMlDsaPublicKey{}
			c.unmarshal(v, m)
			c.version(m.GetVersion())
			params, ml, cl = m.GetParams(), m.GetMlDsaPublicKey(), m.GetClassicalPublicKey()
		} else {
			m := &compositepb.CompositeMlDsaPrivateKey{}
			c.unmarshal(v, m)
			c.version(m.GetVersion())
			params, ml, cl = m.GetParams(), m.GetMlDsaPrivateKey(), m.GetClassicalPrivateKey()
		}
		if params == nil {
			c.failf("params missing")
		}
		c.noUnknown(params)
		if params.GetMlDsaInstance() != mlDsaEnum[fStr(f, "instance")] {
			c.failf("params.ml_dsa_instance = %v, generated from %s", params.GetMlDsaInstance(), fStr(f, "instance"))
		}
		if params.GetClassicalAlgorithm() != compositeEnum[fStr(f, "classical_algorithm")] {
			c.failf("params.classical_algorithm = %v, generated from %s", params.GetClassicalAlgorithm(), fStr(f, "classical_algorithm"))
		}
		checkKeyData(c.at("ml_dsa"), "MlDsa", fMap(f, "mldsa"), ml, public)
		checkKeyData(c.at("classical"), fStr(f, "classical_type"), fMap(f, "classical"), cl, public)
	case "Hpke":
		pub := &hpkepb.HpkePublicKey{}
		nist := hpkeKemCurve[fStr(f, "kem")] != ""
		if public {
			c.unmarshal(v, pub)
		} else {
			m := &hpkepb.HpkePrivateKey{}
			c.unmarshal(v, m)
			c.version(m.GetVersion())
			if nist {
				c.bigint("private_key", m.GetPrivateKey(), fBytes(f, "key_value"))
			} else {
				c.bytes("private_key", m.GetPrivateKey(), fBytes(f, "key_value"))
			}
			if pub = m.GetPublicKey(); pub == nil {
				c.failf("public_key missing")
			}
			c.noUnknown(pub)
		}
		c.version(pub.GetVersion())
		p := pub.GetParams()
		if p == nil {
			c.failf("params missing")
		}
		c.noUnknown(p)
		if p.GetKem() != hpkeKemEnum[fStr(f, "kem")] || p.GetKdf() != hpkeKdfEnum[fStr(f, "kdf")] || p.GetAead() != hpkeAeadEnum[fStr(f, "aead")] {
			c.failf("params = (%v, %v, %v), generated from (%s, %s, %s)", p.GetKem(), p.GetKdf(), p.GetAead(), fStr(f, "kem"), fStr(f, "kdf"), fStr(f, "aead"))
		}
		c.bytes("public_key", pub.GetPublicKey(), fBytes(f, "public_key"))
	case "EciesAeadHkdf":
		pub := &eciespb.EciesAeadHkdfPublicKey{}
		nist := fStr(f, "curve") != "X25519"
		if public {
			c.unmarshal(v, pub)
		} else {
			m := &eciespb.EciesAeadHkdfPrivateKey{}
			c.unmarshal(v, m)
			c.version(m.GetVersion())
			if nist {
				c.bigint("key_value", m.GetKeyValue(), fBytes(f, "key_value"))
			} else {
				c.bytes("key_value", m.GetKeyValue(), fBytes(f, "key_value"))
			}
			if pub = m.GetPublicKey(); pub == nil {
				c.failf("public_key missing")
			}
			c.noUnknown(pub)
		}
		c.version(pub.GetVersion())
		p := pub.GetParams()
		if p == nil || p.GetKemParams() == nil || p.GetDemParams() == nil || p.GetDemParams().GetAeadDem() == nil {
			c.failf("params / kem_params / dem_params / aead_dem missing")
		}
		c.noUnknown(p)
		c.noUnknown(p.GetKemParams())
		c.noUnknown(p.GetDemParams())
		if p.GetKemParams().GetCurveType() != curveEnum[fStr(f, "curve")] {
			c.failf("kem_params.curve_type = %v, generated from %s", p.GetKemParams().GetCurveType(), fStr(f, "curve"))
		}
		c.hash("kem_params.hkdf_hash_type", p.GetKemParams().GetHkdfHashType(), fStr(f, "hash"))
		c.bytes("kem_params.hkdf_salt", p.GetKemParams().GetHkdfSalt(), fBytes(f, "salt"))
		if nist {
			// (X25519 has no point format; the check is silent about what is written for it.)
			if p.GetEcPointFormat() != pointFormatEnum[fStr(f, "point_format")] {
				c.failf("ec_point_format = %v, generated from %s", p.GetEcPointFormat(), fStr(f, "point_format"))
			}
			c.bigint("x", pub.GetX(), fBytes(f, "x"))
			c.bigint("y", pub.GetY(), fBytes(f, "y"))
		} else {
			c.bytes("x", pub.GetX(), fBytes(f, "public_key"))
		}
		dem, ok := eciesDEM[fStr(f, "dem")]
		if !ok {
			c.failf("harness: unknown DEM %q", fStr(f, "dem"))
		}
		// The DEM template's output prefix type carries no information (the DEM is used raw).
		checkTemplate(c.at("aead_dem"), dem.typ, dem.f, p.GetDemParams().GetAeadDem(), false)
	case "AesGcmHkdfStreaming":
		m := &gcmstreampb.AesGcmHkdfStreamingKey{}
		c.unmarshal(v, m)
		c.version(m.GetVersion())
		c.gcmStreamParams(m.GetParams(), f)
		c.bytes("key_value", m.GetKeyValue(), fBytes(f, "key_value"))
	case "AesCtrHmacStreaming":
		m := &ctrstreampb.AesCtrHmacStreamingKey{}
		c.unmarshal(v, m)
		c.version(m.GetVersion())
		c.ctrStreamParams(m.GetParams(), f)
		c.bytes("key_value", m.GetKeyValue(), fBytes(f, "key_value"))
	case "JwtHmac":
		m := &jwthmacpb.JwtHmacKey{}
		c.unmarshal(v, m)
		c.version(m.GetVersion())
		c.jwtAlg(int32(m.GetAlgorithm()), m.GetAlgorithm().String(), fStr(f, "algorithm"))
		c.bytes("key_value", m.GetKeyValue(), fBytes(f, "key_value"))
		if m.GetCustomKid() != nil {
			c.noUnknown(m.GetCustomKid())
		}
		c.customKID(f, m.GetCustomKid() != nil, m.GetCustomKid().GetValue())
	case "JwtEcdsa":
		pub := &jwtecdsapb.JwtEcdsaPublicKey{}
		if public {
			c.unmarshal(v, pub)
		} else {
			m := &jwtecdsapb.JwtEcdsaPrivateKey{}
			c.unmarshal(v, m)
			c.version(m.GetVersion())
			c.bigint("key_value", m.GetKeyValue(), fBytes(f, "key_value"))
			if pub = m.GetPublicKey(); pub == nil {
				c.failf("public_key missing")
			}
			c.noUnknown(pub)
		}
		c.version(pub.GetVersion())
		c.jwtAlg(int32(pub.GetAlgorithm()), pub.GetAlgorithm().String(), fStr(f, "algorithm"))
		c.bigint("x", pub.GetX(), fBytes(f, "x"))
		c.bigint("y", pub.GetY(), fBytes(f, "y"))
		if pub.GetCustomKid() != nil {
			c.noUnknown(pub.GetCustomKid())
		}
		c.customKID(f, pub.GetCustomKid() != nil, pub.GetCustomKid().GetValue())
	case "JwtRsaSsaPkcs1":
		pub := &jwtrsapkcs1pb.JwtRsaSsaPkcs1PublicKey{}
		if public {
			c.unmarshal(v, pub)
		} else {
			m := &jwtrsapkcs1pb.JwtRsaSsaPkcs1PrivateKey{}
			c.unmarshal(v, m)
			c.version(m.GetVersion())
			c.rsaPrivate(f, m.GetD(), m.GetP(), m.GetQ(), m.GetDp(), m.GetDq(), m.GetCrt())
			if pub = m.GetPublicKey(); pub == nil {
				c.failf("public_key missing")
			}
			c.noUnknown(pub)
		}
		c.version(pub.GetVersion())
		c.jwtAlg(int32(pub.GetAlgorithm()), pub.GetAlgorithm().String(), fStr(f, "algorithm"))
		c.rsaPublic(f, pub.GetN(), pub.GetE())
		if pub.GetCustomKid() != nil {
			c.noUnknown(pub.GetCustomKid())
		}
		c.customKID(f, pub.GetCustomKid() != nil, pub.GetCustomKid().GetValue())
	case "JwtRsaSsaPss":
		pub := &jwtrsapsspb.JwtRsaSsaPssPublicKey{}
		if public {
			c.unmarshal(v, pub)
		} else {
			m := &jwtrsapsspb.JwtRsaSsaPssPrivateKey{}
			c.unmarshal(v, m)
			c.version(m.GetVersion())
			c.rsaPrivate(f, m.GetD(), m.GetP(), m.GetQ(), m.GetDp(), m.GetDq(), m.GetCrt())
			if pub = m.GetPublicKey(); pub == nil {
				c.failf("public_key missing")
			}
			c.noUnknown(pub)
		}
		c.version(pub.GetVersion())
		c.jwtAlg(int32(pub.GetAlgorithm()), pub.GetAlgorithm().String(), fStr(f, "algorithm"))
		c.rsaPublic(f, pub.GetN(), pub.GetE())
		if pub.GetCustomKid() != nil {
			c.noUnknown(pub.GetCustomKid())
		}
		c.customKID(f, pub.GetCustomKid() != nil, pub.GetCustomKid().GetValue())
	case "JwtMlDsa":
		pub := &jwtmldsapb.JwtMlDsaPublicKey{}
		if public {
			c.unmarshal(v, pub)
		} else {
			m := &jwtmldsapb.JwtMlDsaPrivateKey{}
			c.unmarshal(v, m)
			c.version(m.GetVersion())
			c.bytes("key_value", m.GetKeyValue(), fBytes(f, "key_value"))
			if pub = m.GetPublicKey(); pub == nil {
				c.failf("public_key missing")
			}
			c.noUnknown(pub)
		}
		c.version(pub.GetVersion())
		c.jwtAlg(int32(pub.GetAlgorithm()), pub.GetAlgorithm().String(), fStr(f, "algorithm"))
		c.bytes("public key_value", pub.GetKeyValue(), fBytes(f, "public_key"))
		if pub.GetCustomKid() != nil {
			c.noUnknown(pub.GetCustomKid())
		}
		c.customKID(f, pub.GetCustomKid() != nil, pub.GetCustomKid().GetValue())
	case "PrfBasedDeriver":
		m := &deriverpb.PrfBasedDeriverKey{}
		c.unmarshal(v, m)
		c.version(m.GetVersion())
		if m.GetParams() == nil || m.GetParams().GetDerivedKeyTemplate() == nil {
			c.failf("params / derived_key_template missing")
		}
		c.noUnknown(m.GetParams())
		checkKeyData(c.at("prf_key"), fStr(f, "prf_type"), fMap(f, "prf"), m.GetPrfKey(), false)
		checkTemplate(c.at("derived_key_template"), fStr(f, "derived_type"), fMap(f, "derived"), m.GetParams().GetDerivedKeyTemplate(), true)
	default:
		c.failf("harness: no field table for type %s", typ)
	}
}

// jwtAlg: the JWT algorithm enums are named like the JOSE algorithm ("ES256", ML-DSA: "ML_DSA44").
func (c *fc) jwtAlg(gotNumber int32, gotName, want string) {
	wantName := want
	switch want {
	case "ML-DSA-44":
		wantName = "ML_DSA44"
	case "ML-DSA-65":
		wantName = "ML_DSA65"
	case "ML-DSA-87":
		wantName = "ML_DSA87"
	}
	if gotName != wantName || gotNumber != jwtAlgNumber[want] {
		c.failf("algorithm = %s (%d), generated from %s (%d)", gotName, gotNumber, want, jwtAlgNumber[want])
	}
}

func (c *fc) gcmStreamParams(p *gcmstreampb.AesGcmHkdfStreamingParams, f map[string]any) {
	if p == nil {
		c.failf("params missing")
	}
	c.noUnknown(p)
	c.num("params.ciphertext_segment_size", int64(p.GetCiphertextSegmentSize()), fInt(f, "segment_size"))
	c.num("params.derived_key_size", int64(p.GetDerivedKeySize()), fInt(f, "derived_key_size"))
	c.hash("params.hkdf_hash_type", p.GetHkdfHashType(), fStr(f, "hkdf_hash"))
}

func (c *fc) ctrStreamParams(p *ctrstreampb.AesCtrHmacStreamingParams, f map[string]any) {
	if p == nil {
		c.failf("params missing")
	}
	c.noUnknown(p)
	c.num("params.ciphertext_segment_size", int64(p.GetCiphertextSegmentSize()), fInt(f, "segment_size"))
	c.num("params.derived_key_size", int64(p.GetDerivedKeySize()), fInt(f, "derived_key_size"))
	c.hash("params.hkdf_hash_type", p.GetHkdfHashType(), fStr(f, "hkdf_hash"))
	c.hmacParams(p.GetHmacParams(), fStr(f, "hmac_hash"), fInt(f, "tag_size"))
}

// checkTemplate compares a serialized KeyTemplate (parameters) with the generated fields: type URL
// and output prefix type for every type, the key format fields for the symmetric types, Ed25519 and
// the streaming types (those that occur as derived-key parameters of a deriver or as ECIES DEM).
func checkTemplate(c *fc, typ string, f map[string]any, tmpl *tinkpb.KeyTemplate, checkPrefix bool) {
	c = c.at(typ + "-template")
	if tmpl == nil {
		c.failf("template missing")
	}
	c.noUnknown(tmpl)
	wantURL, _ := wantURLAndMaterial(typ, false)
	c.str("type_url", tmpl.GetTypeUrl(), wantURL)
	if checkPrefix {
		if want := wantPrefixType(fStr(f, "variant")); tmpl.GetOutputPrefixType() != want {
			c.failf("output_prefix_type = %v, generated from variant %s (%v)", tmpl.GetOutputPrefixType(), fStr(f, "variant"), want)
		}
	}
	v := tmpl.GetValue()
	switch typ {
	case "AesGcm":
		m := &gcmpb.AesGcmKeyFormat{}
		c.unmarshal(v, m)
		c.version(m.GetVersion())
		c.num("key_size", int64(m.GetKeySize()), fInt(f, "key_size"))
	case "AesCtrHmacAead":
		m := &ctrhmacpb.AesCtrHmacAeadKeyFormat{}
		c.unmarshal(v, m)
		a, h := m.GetAesCtrKeyFormat(), m.GetHmacKeyFormat()
		if a == nil || h == nil || a.GetParams() == nil {
			c.failf("aes_ctr_key_format / hmac_key_format / params missing")
		}
		c.noUnknown(a)
		c.noUnknown(a.GetParams())
		c.noUnknown(h)
		c.num("aes_ctr_key_format.key_size", int64(a.GetKeySize()), fInt(f, "aes_key_size"))
		c.num("aes_ctr_key_format.params.iv_size", int64(a.GetParams().GetIvSize()), fInt(f, "iv_size"))
		c.num("hmac_key_format.key_size", int64(h.GetKeySize()), fInt(f, "hmac_key_size"))
		c.version(h.GetVersion())
		c.hmacParams(h.GetParams(), fStr(f, "hash"), fInt(f, "tag_size"))
	case "AesGcmSiv":
		m := &gcmsivpb.AesGcmSivKeyFormat{}
		c.unmarshal(v, m)
		c.version(m.GetVersion())
		c.num("key_size", int64(m.GetKeySize()), fInt(f, "key_size"))
	case "ChaCha20Poly1305":
		m := &chachapb.ChaCha20Poly1305KeyFormat{}
		c.unmarshal(v, m)
	case "XChaCha20Poly1305":
		m := &xchachapb.XChaCha20Poly1305KeyFormat{}
		c.unmarshal(v, m)
		c.version(m.GetVersion())
	case "XAesGcm":
		m := &xaesgcmpb.XAesGcmKeyFormat{}
		c.unmarshal(v, m)
		c.version(m.GetVersion())
		if m.GetParams() == nil {
			c.failf("params missing")
		}
		c.noUnknown(m.GetParams())
		c.num("params.salt_size", int64(m.GetParams().GetSaltSize()), fInt(f, "salt_size"))
	case "AesSiv":
		m := &sivpb.AesSivKeyFormat{}
		c.unmarshal(v, m)
		c.version(m.GetVersion())
		c.num("key_size", int64(m.GetKeySize()), fInt(f, "key_size"))
	case "Hmac":
		m := &hmacpb.HmacKeyFormat{}
		c.unmarshal(v, m)
		c.version(m.GetVersion())
		c.num("key_size", int64(m.GetKeySize()), fInt(f, "key_size"))
		c.hmacParams(m.GetParams(), fStr(f, "hash"), fInt(f, "tag_size"))
	case "AesCmac":
		m := &cmacpb.AesCmacKeyFormat{}
		c.unmarshal(v, m)
		c.num("key_size", int64(m.GetKeySize()), fInt(f, "key_size"))
		if m.GetParams() == nil {
			c.failf("params missing")
		}
		c.noUnknown(m.GetParams())
		c.num("params.tag_size", int64(m.GetParams().GetTagSize()), fInt(f, "tag_size"))
	case "HmacPrf":
		m := &hmacprfpb.HmacPrfKeyFormat{}
		c.unmarshal(v, m)
		c.version(m.GetVersion())
		c.num("key_size", int64(m.GetKeySize()), fInt(f, "key_size"))
		if m.GetParams() == nil {
			c.failf("params missing")
		}
		c.noUnknown(m.GetParams())
		c.hash("params.hash", m.GetParams().GetHash(), fStr(f, "hash"))
	case "HkdfPrf":
		m := &hkdfprfpb.HkdfPrfKeyFormat{}
		c.unmarshal(v, m)
		c.version(m.GetVersion())
		c.num("key_size", int64(m.GetKeySize()), fInt(f, "key_size"))
		if m.GetParams() == nil {
			c.failf("params missing")
		}
		c.noUnknown(m.GetParams())
		c.hash("params.hash", m.GetParams().GetHash(), fStr(f, "hash"))
		c.bytes("params.salt", m.GetParams().GetSalt(), fBytes(f, "salt"))
	case "AesCmacPrf":
		m := &cmacprfpb.AesCmacPrfKeyFormat{}
		c.unmarshal(v, m)
		c.version(m.GetVersion())
		c.num("key_size", int64(m.GetKeySize()), fInt(f, "key_size"))
	case "Ed25519":
		m := &ed25519pb.Ed25519KeyFormat{}
		c.unmarshal(v, m)
		c.version(m.GetVersion())
	case "AesGcmHkdfStreaming":
		m := &gcmstreampb.AesGcmHkdfStreamingKeyFormat{}
		c.unmarshal(v, m)
		c.version(m.GetVersion())
		c.num("key_size", int64(m.GetKeySize()), fInt(f, "key_size"))
		c.gcmStreamParams(m.GetParams(), f)
	case "AesCtrHmacStreaming":
		m := &ctrstreampb.AesCtrHmacStreamingKeyFormat{}
		c.unmarshal(v, m)
		c.version(m.GetVersion())
		c.num("key_size", int64(m.GetKeySize()), fInt(f, "key_size"))
		c.ctrStreamParams(m.GetParams(), f)
	case "Ecdsa":
		m := &ecdsapb.EcdsaKeyFormat{}
		c.unmarshal(v, m)
		c.version(m.GetVersion())
		p := m.GetParams()
		if p == nil {
			c.failf("params missing")
		}
		c.noUnknown(p)
		c.hash("params.hash_type", p.GetHashType(), fStr(f, "hash"))
		if p.GetCurve() != curveEnum[fStr(f, "curve")] || p.GetEncoding() != ecdsaEncodingEnum[fStr(f, "encoding")] {
			c.failf("params (curve %v, encoding %v), generated from (%s, %s)", p.GetCurve(), p.GetEncoding(), fStr(f, "curve"), fStr(f, "encoding"))
		}
	case "RsaSsaPkcs1":
		m := &rsapkcs1pb.RsaSsaPkcs1KeyFormat{}
		c.unmarshal(v, m)
		if m.GetParams() == nil {
			c.failf("params missing")
		}
		c.noUnknown(m.GetParams())
		c.hash("params.hash_type", m.GetParams().GetHashType(), fStr(f, "hash"))
		c.num("modulus_size_in_bits", int64(m.GetModulusSizeInBits()), fInt(f, "modulus_bits"))
		c.bigint("public_exponent", m.GetPublicExponent(), big.NewInt(int64(fInt(f, "public_exponent"))).Bytes())
	case "RsaSsaPss":
		m := &rsapsspb.RsaSsaPssKeyFormat{}
		c.unmarshal(v, m)
		p := m.GetParams()
		if p == nil {
			c.failf("params missing")
		}
		c.noUnknown(p)
		c.hash("params.sig_hash", p.GetSigHash(), fStr(f, "hash"))
		c.hash("params.mgf1_hash", p.GetMgf1Hash(), fStr(f, "mgf1_hash"))
		c.num("params.salt_length", int64(p.GetSaltLength()), fInt(f, "salt_len"))
		c.num("modulus_size_in_bits", int64(m.GetModulusSizeInBits()), fInt(f, "modulus_bits"))
		c.bigint("public_exponent", m.GetPublicExponent(), big.NewInt(int64(fInt(f, "public_exponent"))).Bytes())
	case "Hpke":
		m := &hpkepb.HpkeKeyFormat{}
		c.unmarshal(v, m)
		p := m.GetParams()
		if p == nil {
			c.failf("params missing")
		}
		c.noUnknown(p)
		if p.GetKem() != hpkeKemEnum[fStr(f, "kem")] || p.GetKdf() != hpkeKdfEnum[fStr(f, "kdf")] || p.GetAead() != hpkeAeadEnum[fStr(f, "aead")] {
			c.failf("params = (%v, %v, %v), generated from (%s, %s, %s)", p.GetKem(), p.GetKdf(), p.GetAead(), fStr(f, "kem"), fStr(f, "kdf"), fStr(f, "aead"))
		}
	case "JwtHmac":
		m := &jwthmacpb.JwtHmacKeyFormat{}
		c.unmarshal(v, m)
		c.version(m.GetVersion())
		c.jwtAlg(int32(m.GetAlgorithm()), m.GetAlgorithm().String(), fStr(f, "algorithm"))
		c.num("key_size", int64(m.GetKeySize()), fInt(f, "key_size"))
	case "JwtEcdsa":
		m := &jwtecdsapb.JwtEcdsaKeyFormat{}
		c.unmarshal(v, m)
		c.version(m.GetVersion())
		c.jwtAlg(int32(m.GetAlgorithm()), m.GetAlgorithm().String(), fStr(f, "algorithm"))
	case "JwtRsaSsaPkcs1":
		m := &jwtrsapkcs1pb.JwtRsaSsaPkcs1KeyFormat{}
		c.unmarshal(v, m)
		c.version(m.GetVersion())
		c.jwtAlg(int32(m.GetAlgorithm()), m.GetAlgorithm().String(), fStr(f, "algorithm"))
		c.num("modulus_size_in_bits", int64(m.GetModulusSizeInBits()), fInt(f, "modulus_bits"))
		c.bigint("public_exponent", m.GetPublicExponent(), big.NewInt(int64(fInt(f, "public_exponent"))).Bytes())
	case "JwtRsaSsaPss":
		m := &jwtrsapsspb.JwtRsaSsaPssKeyFormat{}
		c.unmarshal(v, m)
		c.version(m.GetVersion())
		c.jwtAlg(int32(m.GetAlgorithm()), m.GetAlgorithm().String(), fStr(f, "algorithm"))
		c.num("modulus_size_in_bits", int64(m.GetModulusSizeInBits()), fInt(f, "modulus_bits"))
		c.bigint("public_exponent", m.GetPublicExponent(), big.NewInt(int64(fInt(f, "public_exponent"))).Bytes())
	case "JwtMlDsa":
		m := &jwtmldsapb.JwtMlDsaKeyFormat{}
		c.unmarshal(v, m)
		c.version(m.GetVersion())
		c.jwtAlg(int32(m.GetAlgorithm()), m.GetAlgorithm().String(), fStr(f, "algorithm"))
	case "MlDsa":
		m := &mldsapb.MlDsaKeyFormat{}
		c.unmarshal(v, m)
		c.version(m.GetVersion())
		if m.GetParams() == nil {
			c.failf("params missing")
		}
		c.noUnknown(m.GetParams())
		if m.GetParams().GetMlDsaInstance() != mlDsaEnum[fStr(f, "instance")] {
			c.failf("params.ml_dsa_instance = %v, generated from %s", m.GetParams().GetMlDsaInstance(), fStr(f, "instance"))
		}
	case "SlhDsa":
		m := &slhdsapb.SlhDsaKeyFormat{}
		c.unmarshal(v, m)
		c.version(m.GetVersion())
		p := m.GetParams()
		if p == nil {
			c.failf("params missing")
		}
		c.noUnknown(p)
		c.num("params.key_size", int64(p.GetKeySize()), fInt(f, "key_size"))
		if p.GetHashType() != slhHashEnum[fStr(f, "hash_type")] {
			c.failf("params.hash_type = %v, generated from %s", p.GetHashType(), fStr(f, "hash_type"))
		}
		if p.GetSigType() != slhSigEnum[fStr(f, "sig_type")] {
			c.failf("params.sig_type = %v, generated from %s", p.GetSigType(), fStr(f, "sig_type"))
		}
	case "CompositeMlDsa":
		m := &compositepb.CompositeMlDsaKeyFormat{}
		c.unmarshal(v, m)
		c.version(m.GetVersion())
		params := m.GetParams()
		if params == nil {
			c.failf("params missing")
		}
		c.noUnknown(params)
		if params.GetMlDsaInstance() != mlDsaEnum[fStr(f, "instance")] {
			c.failf("params.ml_dsa_instance = %v, generated from %s", params.GetMlDsaInstance(), fStr(f, "instance"))
		}
		if params.GetClassicalAlgorithm() != compositeEnum[fStr(f, "classical_algorithm")] {
			c.failf("params.classical_algorithm = %v, generated from %s", params.GetClassicalAlgorithm(), fStr(f, "classical_algorithm"))
		}
	case "EciesAeadHkdf":
		m := &eciespb.EciesAeadHkdfKeyFormat{}
		c.unmarshal(v, m)
		p := m.GetParams()
		if p == nil || p.GetKemParams() == nil || p.GetDemParams() == nil || p.GetDemParams().GetAeadDem() == nil {
			c.failf("params / kem_params / dem_params / aead_dem missing")
		}
		c.noUnknown(p)
		c.noUnknown(p.GetKemParams())
		c.noUnknown(p.GetDemParams())
		if p.GetKemParams().GetCurveType() != curveEnum[fStr(f, "curve")] {
			c.failf("kem_params.curve_type = %v, generated from %s", p.GetKemParams().GetCurveType(), fStr(f, "curve"))
		}
		c.hash("kem_params.hkdf_hash_type", p.GetKemParams().GetHkdfHashType(), fStr(f, "hash"))
		c.bytes("kem_params.hkdf_salt", p.GetKemParams().GetHkdfSalt(), fBytes(f, "salt"))
		if fStr(f, "curve") != "X25519" && p.GetEcPointFormat() != pointFormatEnum[fStr(f, "point_format")] {
			c.failf("ec_point_format = %v, generated from %s", p.GetEcPointFormat(), fStr(f, "point_format"))
		}
		dem, ok := eciesDEM[fStr(f, "dem")]
		if !ok {
			c.failf("harness: unknown DEM %q", fStr(f, "dem"))
		}
		checkTemplate(c.at("aead_dem"), dem.typ, dem.f, p.GetDemParams().GetAeadDem(), false)
	case "PrfBasedDeriver":
		m := &deriverpb.PrfBasedDeriverKeyFormat{}
		c.unmarshal(v, m)
		if m.GetPrfKeyTemplate() == nil || m.GetParams() == nil || m.GetParams().GetDerivedKeyTemplate() == nil {
			c.failf("prf_key_template / params / derived_key_template missing")
		}
		c.noUnknown(m.GetParams())
		// the PRF key is used raw: its template's output prefix type carries no information
		checkTemplate(c.at("prf_key_template"), fStr(f, "prf_type"), fMap(f, "prf"), m.GetPrfKeyTemplate(), false)
		checkTemplate(c.at("derived_key_template"), fStr(f, "derived_type"), fMap(f, "derived"), m.GetParams().GetDerivedKeyTemplate(), true)
	default:
		c.failf("harness: no template field table for type %s", typ)
	}
}

// ---------------------------------------------------------------------------------------------
// alternative encodings of big integers

// altEncoding is a re-encoding of the same key: every big-integer field re-written in another,
// equally valid, form.
type altEncoding struct {
	name   string
	value  []byte // KeyData.value
	strict bool   // the parsed key must be Equal to the original (EC types)
}

func stripZeros(b []byte) []byte {
	for len(b) > 0 && b[0] == 0 {
		b = b[1:]
	}
	return append([]byte{}, b...)
}

func padTo(b []byte, n int) []byte {
	b = stripZeros(b)
	out := make([]byte, n)
	copy(out[n-len(b):], b)
	return out
}

// ecForms: minimal, fixed width, one leading 0x00 before the fixed width value.
func ecForms(size int) map[string]func([]byte) []byte {
	return map[string]func([]byte) []byte{
		"minimal":       stripZeros,
		"fixed-width":   func(b []byte) []byte { return padTo(b, size) },
		"zero-prefixed": func(b []byte) []byte { return padTo(b, size+1) },
	}
}

// rsaForms: minimal, and with a leading 0x00 (two's complement writers such as Java's
// BigInteger.toByteArray emit it whenever the top bit is set).
func rsaForms() map[string]func([]byte) []byte {
	return map[string]func([]byte) []byte{
		"minimal":       stripZeros,
		"zero-prefixed": func(b []byte) []byte { return append([]byte{0}, stripZeros(b)...) },
	}
}

var formOrder = []string{"minimal", "fixed-width", "zero-prefixed"}

func mustMarshal(m proto.Message) []byte {
	b, err := proto.MarshalOptions{Deterministic: true}.Marshal(m)
	if err != nil {
		panic(err)
	}
	return b
}

// altEncodings re-encodes the big integers of EC and RSA keys.  value is the serialized key the
// field table has already accepted.
func altEncodings(typ string, f map[string]any, value []byte, public bool) []altEncoding {
	var out []altEncoding
	apply := func(forms map[string]func([]byte) []byte, build func(tr func([]byte) []byte) proto.Message) {
		for _, name := range formOrder {
			if tr, ok := forms[name]; ok {
				_, ec := forms["fixed-width"]
				out = append(out, altEncoding{name, mustMarshal(build(tr)), ec})
			}
		}
	}
	un := func(m proto.Message) {
		if err := proto.Unmarshal(value, m); err != nil {
			panic(err)
		}
	}
	switch typ {
	case "Ecdsa":
		apply(ecForms(curveSize[fStr(f, "curve")]), func(tr func([]byte) []byte) proto.Message {
			if public {
				m := &ecdsapb.EcdsaPublicKey{}
				un(m)
				m.X, m.Y = tr(m.X), tr(m.Y)
				return m
			}
			m := &ecdsapb.EcdsaPrivateKey{}
			un(m)
			m.KeyValue, m.PublicKey.X, m.PublicKey.Y = tr(m.KeyValue), tr(m.PublicKey.X), tr(m.PublicKey.Y)
			return m
		})
	case "JwtEcdsa":
		apply(ecForms(curveSize[fStr(f, "curve")]), func(tr func([]byte) []byte) proto.Message {
			if public {
				m := &jwtecdsapb.JwtEcdsaPublicKey{}
				un(m)
				m.X, m.Y = tr(m.X), tr(m.Y)
				return m
			}
			m := &jwtecdsapb.JwtEcdsaPrivateKey{}
			un(m)
			m.KeyValue, m.PublicKey.X, m.PublicKey.Y = tr(m.KeyValue), tr(m.PublicKey.X), tr(m.PublicKey.Y)
			return m
		})
	case "EciesAeadHkdf":
		if fStr(f, "curve") == "X25519" {
			return nil
		}
		apply(ecForms(curveSize[fStr(f, "curve")]), func(tr func([]byte) []byte) proto.Message {
			if public {
				m := &eciespb.EciesAeadHkdfPublicKey{}
				un(m)
				m.X, m.Y = tr(m.X), tr(m.Y)
				return m
			}
			m := &eciespb.EciesAeadHkdfPrivateKey{}
			un(m)
			m.KeyValue, m.PublicKey.X, m.PublicKey.Y = tr(m.KeyValue), tr(m.PublicKey.X), tr(m.PublicKey.Y)
			return m
		})
	case "RsaSsaPkcs1":
		apply(rsaForms(), func(tr func([]byte) []byte) proto.Message {
			if public {
				m := &rsapkcs1pb.RsaSsaPkcs1PublicKey{}
				un(m)
				m.N, m.E = tr(m.N), tr(m.E)
				return m
			}
			m := &rsapkcs1pb.RsaSsaPkcs1PrivateKey{}
			un(m)
			m.PublicKey.N, m.PublicKey.E = tr(m.PublicKey.N), tr(m.PublicKey.E)
			m.D, m.P, m.Q, m.Dp, m.Dq, m.Crt = tr(m.D), tr(m.P), tr(m.Q), tr(m.Dp), tr(m.Dq), tr(m.Crt)
			return m
		})
	case "RsaSsaPss":
		apply(rsaForms(), func(tr func([]byte) []byte) proto.Message {
			if public {
				m := &rsapsspb.RsaSsaPssPublicKey{}
				un(m)
				m.N, m.E = tr(m.N), tr(m.E)
				return m
			}
			m := &rsapsspb.RsaSsaPssPrivateKey{}
			un(m)
			m.PublicKey.N, m.PublicKey.E = tr(m.PublicKey.N), tr(m.PublicKey.E)
			m.D, m.P, m.Q, m.Dp, m.Dq, m.Crt = tr(m.D), tr(m.P), tr(m.Q), tr(m.Dp), tr(m.Dq), tr(m.Crt)
			return m
		})
	case "JwtRsaSsaPkcs1":
		apply(rsaForms(), func(tr func([]byte) []byte) proto.Message {
			if public {
				m := &jwtrsapkcs1pb.JwtRsaSsaPkcs1PublicKey{}
				un(m)
				m.N, m.E = tr(m.N), tr(m.E)
				return m
			}
			m := &jwtrsapkcs1pb.JwtRsaSsaPkcs1PrivateKey{}
			un(m)
			m.PublicKey.N, m.PublicKey.E = tr(m.PublicKey.N), tr(m.PublicKey.E)
			m.D, m.P, m.Q, m.Dp, m.Dq, m.Crt = tr(m.D), tr(m.P), tr(m.Q), tr(m.Dp), tr(m.Dq), tr(m.Crt)
			return m
		})
	case "JwtRsaSsaPss":
		apply(rsaForms(), func(tr func([]byte) []byte) proto.Message {
			if public {
				m := &jwtrsapsspb.JwtRsaSsaPssPublicKey{}
				un(m)
				m.N, m.E = tr(m.N), tr(m.E)
				return m
			}
			m := &jwtrsapsspb.JwtRsaSsaPssPrivateKey{}
			un(m)
			m.PublicKey.N, m.PublicKey.E = tr(m.PublicKey.N), tr(m.PublicKey.E)
			m.D, m.P, m.Q, m.Dp, m.Dq, m.Crt = tr(m.D), tr(m.P), tr(m.Q), tr(m.Dp), tr(m.Dq), tr(m.Crt)
			return m
		})
	}
	return out
}
