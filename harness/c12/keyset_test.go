package c12

import (
	"bytes"
	"context"
	"fmt"
	"io"
	"strings"
	"testing"
	"time"

	"google.golang.org/protobuf/encoding/protojson"
	"google.golang.org/protobuf/proto"
	"pgregory.net/rapid"

	"github.com/tink-crypto/tink-go/v2/aead"
	"github.com/tink-crypto/tink-go/v2/daead"
	"github.com/tink-crypto/tink-go/v2/hybrid"
	"github.com/tink-crypto/tink-go/v2/insecurecleartextkeyset"
	"github.com/tink-crypto/tink-go/v2/internal/internalapi"
	"github.com/tink-crypto/tink-go/v2/jwt"
	"github.com/tink-crypto/tink-go/v2/key"
	"github.com/tink-crypto/tink-go/v2/keyderivation"
	"github.com/tink-crypto/tink-go/v2/keyset"
	"github.com/tink-crypto/tink-go/v2/mac"
	"github.com/tink-crypto/tink-go/v2/prf"
	tinkpb "github.com/tink-crypto/tink-go/v2/proto/tink_go_proto"
	"github.com/tink-crypto/tink-go/v2/signature"
	"github.com/tink-crypto/tink-go/v2/streamingaead"
	"github.com/tink-crypto/tink-go/v2/tink"
	"github.com/tink-crypto/tink-go/v2/verifharness/internal/detrand"
	"github.com/tink-crypto/tink-go/v2/verifharness/internal/evid"
	"github.com/tink-crypto/tink-go/v2/verifharness/internal/gen"
	"github.com/tink-crypto/tink-go/v2/verifharness/internal/keys"
	"github.com/tink-crypto/tink-go/v2/verifharness/internal/tk"
)

// member is one keyset entry as GENERATED.
type member struct {
	info   *keys.Info
	id     uint32
	status keyset.KeyStatus
	fixed  bool // ID chosen by the harness (WithFixedID) rather than by the key or the manager
}

type ksCase struct {
	class   keys.Class
	members []member
	primary int
	h       *keyset.Handle
	// fallback is set for keysets of key types without a parser (fallback_test.go); members is then empty
	fallback *fbCase
}

func (c *ksCase) String() string {
	if c.fallback != nil {
		return c.fallback.String()
	}
	var b strings.Builder
	fmt.Fprintf(&b, "keyset class=%s keys=%d primary=#%d", c.class, len(c.members), c.primary)
	for i, m := range c.members {
		fmt.Fprintf(&b, "\n  #%d id=%#x status=%v fixedID=%v %s", i, m.id, m.status, m.fixed, m.info.Desc)
	}
	return b.String()
}

func hasPublic(c keys.Class) bool {
	return c == keys.Signature || c == keys.Hybrid || c == keys.JWTSignature
}

var statusProto = map[keyset.KeyStatus]tinkpb.KeyStatusType{
	keyset.Enabled: tinkpb.KeyStatusType_ENABLED, keyset.Disabled: tinkpb.KeyStatusType_DISABLED, keyset.Destroyed: tinkpb.KeyStatusType_DESTROYED,
}

// drawKeyset builds a keyset of 1..5 usable, serializable keys of one class with keyset.Manager.
func drawKeyset(rt *rapid.T) *ksCase {
	// the class is drawn through a type name, so that classes with many key types get more keysets
	c := &ksCase{class: keys.ClassOf(rapid.SampledFrom(keys.AllTypes()).Draw(rt, "class_of"))}
	n := rapid.IntRange(1, 5).Draw(rt, "keys")
	used := map[uint32]bool{}
	type cand struct {
		member
		wantFixed bool
	}
	var kept []cand
	for j := 0; j < n; j++ {
		label := fmt.Sprintf("k%d", j)
		info := keys.DrawUsable(rt, label, c.class)
		st := rapid.SampledFrom([]keyset.KeyStatus{keyset.Enabled, keyset.Enabled, keyset.Disabled, keyset.Destroyed}).Draw(rt, label+"_status")
		m := cand{member: member{info: info, status: st}}
		if info.HasID {
			m.id = info.ID
		} else if rapid.Bool().Draw(rt, label+"_fixed_id") {
			m.id, m.fixed, m.wantFixed = gen.KeyID(rt, label+"_id"), true, true
		}
		if info.NoSerialization {
			evid.Add("member_dropped/not-serializable", 1)
			continue
		}
		// key material must be unique inside one keyset: two prefix-less keys sharing e.g. an HMAC
		// key (or keys that differ only in trailing zero bytes, which HMAC treats as equal) would
		// legitimately answer for each other in the interoperability checks
		dupMaterial := false
		for _, o := range kept {
			for _, a := range o.info.Secrets {
				for _, b := range info.Secrets {
					if sameMaterial(a, b) {
						dupMaterial = true
					}
				}
			}
		}
		if dupMaterial {
			evid.Add("member_dropped/duplicate-material", 1)
			continue
		}
		if info.HasID || m.fixed {
			if used[m.id] {
				evid.Add("member_dropped/id-collision", 1)
				continue
			}
			used[m.id] = true
		}
		kept = append(kept, m)
	}
	if len(kept) == 0 {
		rt.Skip("every member dropped")
	}
	c.primary = rapid.IntRange(0, len(kept)-1).Draw(rt, "primary")
	kept[c.primary].status = keyset.Enabled
	mgr := keyset.NewManager()
	for j, m := range kept {
		opts := []keyset.KeyOpts{keyset.WithStatus(m.status)}
		if m.wantFixed {
			opts = append(opts, keyset.WithFixedID(m.id))
		}
		if j == c.primary {
			opts = append(opts, keyset.AsPrimary())
		}
		id, err := mgr.AddKeyWithOpts(m.info.Key, internalapi.Token{}, opts...)
		if err != nil {
			if !m.info.HasID && !m.wantFixed {
				rt.Fatalf("AddKeyWithOpts(%s): %v", m.info.Desc, err)
			}
			// a manager-chosen random ID of an earlier member may coincide with this fixed ID
			if j == c.primary {
				rt.Skip("primary collides with a random ID")
			}
			evid.Add("member_dropped/id-collision", 1)
			if j < c.primary {
				rt.Skip("member before the primary collides with a random ID")
			}
			continue
		}
		if (m.info.HasID || m.wantFixed) && id != m.id {
			rt.Fatalf("AddKeyWithOpts(%s) returned ID %#x, want %#x", m.info.Desc, id, m.id)
		}
		m.id = id
		c.members = append(c.members, m.member)
		evid.Add("member/"+m.info.Type+"/"+m.info.Variant+"/"+m.status.String(), 1)
	}
	h, err := mgr.Handle()
	if err != nil {
		rt.Fatalf("%v: Manager.Handle: %v", c, err)
	}
	c.h = h
	return c
}

// expectedInfo is the harness's own KeysetInfo of the generated keyset.
func (c *ksCase) expectedInfo(public bool) *tinkpb.KeysetInfo {
	out := &tinkpb.KeysetInfo{PrimaryKeyId: c.members[c.primary].id}
	for _, m := range c.members {
		url, _ := wantURLAndMaterial(m.info.Type, public)
		out.KeyInfo = append(out.KeyInfo, &tinkpb.KeysetInfo_KeyInfo{TypeUrl: url, Status: statusProto[m.status], KeyId: m.id, OutputPrefixType: infoPrefixType(m.info)})
	}
	return out
}

// checkHandle compares a handle with the generated keyset: Len, order, IDs, statuses, primary, keys.
func (c *ksCase) checkHandle(rt *rapid.T, what string, h *keyset.Handle, public bool) {
	if h == nil {
		rt.Fatalf("%v\n%s: nil handle", c, what)
	}
	if h.Len() != len(c.members) {
		rt.Fatalf("%v\n%s: Len() = %d, want %d", c, what, h.Len(), len(c.members))
	}
	for i, m := range c.members {
		e, err := h.Entry(i)
		if err != nil {
			rt.Fatalf("%v\n%s: Entry(%d): %v", c, what, i, err)
		}
		want := m.info.Key
		if public {
			want = m.info.Public
		}
		if e.KeyID() != m.id || e.KeyStatus() != m.status || e.IsPrimary() != (i == c.primary) {
			rt.Fatalf("%v\n%s: entry %d is (id %#x, %v, primary %v), want (id %#x, %v, primary %v)", c, what, i, e.KeyID(), e.KeyStatus(), e.IsPrimary(), m.id, m.status, i == c.primary)
		}
		if got := e.Key(); got == nil || !got.Equal(want) || !want.Equal(got) {
			rt.Fatalf("%v\n%s: entry %d holds a key that is not Equal to the generated one (%T)", c, what, i, got)
		}
	}
	p, err := h.Primary()
	if err != nil || p.KeyID() != c.members[c.primary].id || !p.IsPrimary() {
		rt.Fatalf("%v\n%s: Primary(): %v", c, what, err)
	}
	if got, want := h.KeysetInfo(), c.expectedInfo(public); !proto.Equal(got, want) {
		rt.Fatalf("%v\n%s: KeysetInfo\n got  %v\n want %v", c, what, got, want)
	}
}

// ---------------------------------------------------------------------------------------------
// writer / reader routes

var (
	formats      = []string{"binary", "json", "mem"}
	secretRoutes = []string{"cleartext", "encrypted", "encrypted-ad", "encrypted-ctx"}
	publicRoutes = []string{"cleartext", "encrypted", "encrypted-ad", "encrypted-ctx", "nosecrets", "nosecrets", "newhandle"}
)

type route struct {
	mode, format string
	kek          tink.AEAD
	kekDesc      string
	ad           []byte
}

func (r route) String() string {
	s := r.mode + "/" + r.format
	if r.kek != nil {
		s += fmt.Sprintf(" kek={%s} ad=%s", r.kekDesc, gen.Hex(r.ad))
	}
	return s
}

func drawRoute(rt *rapid.T, label string, modes []string) route {
	r := route{mode: rapid.SampledFrom(modes).Draw(rt, label+"_mode"), format: rapid.SampledFrom(formats).Draw(rt, label+"_format")}
	if strings.HasPrefix(r.mode, "encrypted") {
		k := keys.DrawUsable(rt, label+"_kek", keys.AEAD)
		h, err := tk.HandleFromKey(k.Key)
		if err != nil {
			rt.Fatalf("KEK handle for %s: %v", k.Desc, err)
		}
		if r.kek, err = aead.New(h); err != nil {
			rt.Fatalf("aead.New for KEK %s: %v", k.Desc, err)
		}
		r.kekDesc = k.Desc
		if r.mode == "encrypted-ad" || r.mode == "encrypted-ctx" {
			r.ad = gen.BytesOrNil(rt, label+"_ad", 64)
		}
	}
	return r
}

// transport writes with the format's writer and hands the written bytes to the format's reader.
type transport struct {
	format string
	buf    bytes.Buffer
	mem    keyset.MemReaderWriter
}

func (tr *transport) writer() keyset.Writer {
	switch tr.format {
	case "binary":
		return keyset.NewBinaryWriter(&tr.buf)
	case "json":
		return keyset.NewJSONWriter(&tr.buf)
	}
	return &tr.mem
}

func (tr *transport) reader() keyset.Reader {
	switch tr.format {
	case "binary":
		return keyset.NewBinaryReader(bytes.NewReader(tr.buf.Bytes()))
	case "json":
		return keyset.NewJSONReader(bytes.NewReader(tr.buf.Bytes()))
	}
	return &tr.mem
}

// through writes h along the route and reads it back.
func through(rt *rapid.T, c *ksCase, what string, h *keyset.Handle, r route) *keyset.Handle {
	tr := &transport{format: r.format}
	fail := func(step string, err error) {
		rt.Fatalf("%v\n%s via %v: %s: %v", c, what, r, step, err)
	}
	var out *keyset.Handle
	var err error
	// one writer object serves every write of this route; half of the time it has already written
	// another document (the same handle, to a destination that was emptied afterwards): a writer is
	// "any writer", also one that has been used before (added after seeded change C12g, a scratch
	// buffer kept between writes of a JSONWriter)
	w := tr.writer()
	if r.format != "mem" && rapid.Bool().Draw(rt, "writer_used_before") {
		var first error
		switch r.mode {
		case "cleartext":
			first = insecurecleartextkeyset.Write(h, w)
		case "encrypted":
			first = h.Write(w, r.kek)
		case "encrypted-ad":
			first = h.WriteWithAssociatedData(w, r.kek, []byte("an earlier write"))
		case "encrypted-ctx":
			first = h.WriteWithContext(context.Background(), w, tk.CtxAEAD(r.kek), []byte("an earlier write"))
		case "nosecrets":
			first = h.WriteWithNoSecrets(w)
		}
		if first != nil {
			fail("an earlier write with the same writer object", first)
		}
		tr.buf.Reset()
		evid.Add("writer_reused", 1)
	}
	switch r.mode {
	case "cleartext":
		if err = insecurecleartextkeyset.Write(h, w); err != nil {
			fail("insecurecleartextkeyset.Write", err)
		}
		if out, err = insecurecleartextkeyset.Read(tr.reader()); err != nil {
			fail("insecurecleartextkeyset.Read", err)
		}
	case "encrypted":
		if err = h.Write(w, r.kek); err != nil {
			fail("Handle.Write", err)
		}
		if out, err = keyset.Read(tr.reader(), r.kek); err != nil {
			fail("keyset.Read", err)
		}
	case "encrypted-ad":
		if err = h.WriteWithAssociatedData(w, r.kek, r.ad); err != nil {
			fail("Handle.WriteWithAssociatedData", err)
		}
		if out, err = keyset.ReadWithAssociatedData(tr.reader(), r.kek, r.ad); err != nil {
			fail("keyset.ReadWithAssociatedData", err)
		}
	case "encrypted-ctx":
		if err = h.WriteWithContext(context.Background(), w, tk.CtxAEAD(r.kek), r.ad); err != nil {
			fail("Handle.WriteWithContext", err)
		}
		if out, err = keyset.ReadWithContext(context.Background(), tr.reader(), tk.CtxAEAD(r.kek), r.ad); err != nil {
			fail("keyset.ReadWithContext", err)
		}
		// one format, two APIs: what WriteWithContext wrote, ReadWithAssociatedData reads
		if _, err = keyset.ReadWithAssociatedData(tr.reader(), r.kek, r.ad); err != nil {
			fail("keyset.ReadWithAssociatedData of a keyset written by WriteWithContext", err)
		}
	case "nosecrets":
		if err = h.WriteWithNoSecrets(w); err != nil {
			fail("Handle.WriteWithNoSecrets", err)
		}
		if out, err = keyset.ReadWithNoSecrets(tr.reader()); err != nil {
			fail("keyset.ReadWithNoSecrets", err)
		}
	case "newhandle":
		// the proto keyset travels in the harness's own encoding
		ks := insecurecleartextkeyset.KeysetMaterial(h)
		if ks == nil {
			fail("KeysetMaterial", fmt.Errorf("nil"))
		}
		back := &tinkpb.Keyset{}
		switch r.format {
		case "binary":
			b, merr := proto.Marshal(ks)
			if merr != nil {
				fail("proto.Marshal", merr)
			}
			err = proto.Unmarshal(b, back)
		case "json":
			b, merr := protojson.Marshal(ks)
			if merr != nil {
				fail("protojson.Marshal", merr)
			}
			err = protojson.Unmarshal(b, back)
		default:
			back = proto.Clone(ks).(*tinkpb.Keyset)
		}
		if err != nil {
			fail("decoding the harness's own encoding", err)
		}
		if out, err = keyset.NewHandleWithNoSecrets(back); err != nil {
			fail("keyset.NewHandleWithNoSecrets", err)
		}
	default:
		panic("unknown mode " + r.mode)
	}
	return out
}

// ---------------------------------------------------------------------------------------------
// primitive interoperability

type party struct {
	name string
	priv *keyset.Handle // private / symmetric keyset
	pub  *keyset.Handle // public keyset (asymmetric classes)
}

var fixedNow = time.Date(2026, 1, 2, 3, 4, 5, 0, time.UTC)

func sameEntries(a, b *keyset.Handle) error {
	if a.Len() != b.Len() {
		return fmt.Errorf("lengths %d and %d", a.Len(), b.Len())
	}
	for i := 0; i < a.Len(); i++ {
		ea, err1 := a.Entry(i)
		eb, err2 := b.Entry(i)
		if err1 != nil || err2 != nil {
			return fmt.Errorf("Entry(%d): %v, %v", i, err1, err2)
		}
		if ea.KeyID() != eb.KeyID() || ea.KeyStatus() != eb.KeyStatus() || ea.IsPrimary() != eb.IsPrimary() || !ea.Key().Equal(eb.Key()) || !eb.Key().Equal(ea.Key()) {
			return fmt.Errorf("entry %d differs: (id %#x %v primary %v) vs (id %#x %v primary %v), keys Equal = %v", i,
				ea.KeyID(), ea.KeyStatus(), ea.IsPrimary(), eb.KeyID(), eb.KeyStatus(), eb.IsPrimary(), ea.Key().Equal(eb.Key()))
		}
	}
	return nil
}

// produceConsume: what `from` produces, `to` accepts (and, for deterministic primitives, reproduces).
func produceConsume(rt *rapid.T, c *ksCase, from, to party, msg, ad []byte) {
	fail := func(step string, err error) {
		rt.Fatalf("%v\ninterop %s -> %s (msg %s, ad %s): %s: %v", c, from.name, to.name, gen.Hex(msg), gen.Hex(ad), step, err)
	}
	switch c.class {
	case keys.AEAD:
		e, err := aead.New(from.priv)
		if err != nil {
			fail("aead.New(producer)", err)
		}
		d, err := aead.New(to.priv)
		if err != nil {
			fail("aead.New(consumer)", err)
		}
		ct, err := e.Encrypt(msg, ad)
		if err != nil {
			fail("Encrypt", err)
		}
		pt, err := d.Decrypt(ct, ad)
		if err != nil || !bytes.Equal(pt, msg) {
			fail("Decrypt", fmt.Errorf("got %x, %v", pt, err))
		}
	case keys.DAEAD:
		e, err := daead.New(from.priv)
		if err != nil {
			fail("daead.New(producer)", err)
		}
		d, err := daead.New(to.priv)
		if err != nil {
			fail("daead.New(consumer)", err)
		}
		ct, err := e.EncryptDeterministically(msg, ad)
		if err != nil {
			fail("EncryptDeterministically", err)
		}
		ct2, err := d.EncryptDeterministically(msg, ad)
		if err != nil || !bytes.Equal(ct, ct2) {
			fail("EncryptDeterministically (consumer)", fmt.Errorf("ciphertexts %x and %x, %v", ct, ct2, err))
		}
		pt, err := d.DecryptDeterministically(ct, ad)
		if err != nil || !bytes.Equal(pt, msg) {
			fail("DecryptDeterministically", fmt.Errorf("got %x, %v", pt, err))
		}
	case keys.MAC:
		p, err := mac.New(from.priv)
		if err != nil {
			fail("mac.New(producer)", err)
		}
		v, err := mac.New(to.priv)
		if err != nil {
			fail("mac.New(consumer)", err)
		}
		tag, err := p.ComputeMAC(msg)
		if err != nil {
			fail("ComputeMAC", err)
		}
		if err := v.VerifyMAC(tag, msg); err != nil {
			fail(fmt.Sprintf("VerifyMAC(%x)", tag), err)
		}
		tag2, err := v.ComputeMAC(msg)
		if err != nil || !bytes.Equal(tag, tag2) {
			fail("ComputeMAC (consumer)", fmt.Errorf("tags %x and %x, %v", tag, tag2, err))
		}
	case keys.PRF:
		a, err := prf.NewPRFSet(from.priv)
		if err != nil {
			fail("prf.NewPRFSet(producer)", err)
		}
		b, err := prf.NewPRFSet(to.priv)
		if err != nil {
			fail("prf.NewPRFSet(consumer)", err)
		}
		if a.PrimaryID != b.PrimaryID || len(a.PRFs) != len(b.PRFs) {
			fail("PRF sets", fmt.Errorf("primary %#x / %d PRFs vs primary %#x / %d PRFs", a.PrimaryID, len(a.PRFs), b.PrimaryID, len(b.PRFs)))
		}
		for i := 0; i < from.priv.Len(); i++ { // keyset order, not map order
			e, _ := from.priv.Entry(i)
			pa, ok := a.PRFs[e.KeyID()]
			pb, ok2 := b.PRFs[e.KeyID()]
			if ok != ok2 || ok != (e.KeyStatus() == keyset.Enabled) {
				fail("PRF sets", fmt.Errorf("key %#x (%v): in producer set %v, in consumer set %v", e.KeyID(), e.KeyStatus(), ok, ok2))
			}
			if !ok {
				continue
			}
			oa, err1 := pa.ComputePRF(msg, 16)
			ob, err2 := pb.ComputePRF(msg, 16)
			if err1 != nil || err2 != nil || !bytes.Equal(oa, ob) {
				fail(fmt.Sprintf("ComputePRF key %#x", e.KeyID()), fmt.Errorf("%x (%v) vs %x (%v)", oa, err1, ob, err2))
			}
		}
	case keys.Signature:
		s, err := signature.NewSigner(from.priv)
		if err != nil {
			fail("signature.NewSigner(producer)", err)
		}
		v, err := signature.NewVerifier(to.pub)
		if err != nil {
			fail("signature.NewVerifier(consumer public)", err)
		}
		sig, err := s.Sign(msg)
		if err != nil {
			fail("Sign", err)
		}
		if err := v.Verify(sig, msg); err != nil {
			fail(fmt.Sprintf("Verify(%s)", gen.Hex(sig)), err)
		}
	case keys.Hybrid:
		e, err := hybrid.NewHybridEncrypt(from.pub)
		if err != nil {
			fail("hybrid.NewHybridEncrypt(producer public)", err)
		}
		d, err := hybrid.NewHybridDecrypt(to.priv)
		if err != nil {
			fail("hybrid.NewHybridDecrypt(consumer)", err)
		}
		ct, err := e.Encrypt(msg, ad)
		if err != nil {
			fail("Encrypt", err)
		}
		pt, err := d.Decrypt(ct, ad)
		if err != nil || !bytes.Equal(pt, msg) {
			fail("Decrypt", fmt.Errorf("got %x, %v", pt, err))
		}
	case keys.Streaming:
		e, err := streamingaead.New(from.priv)
		if err != nil {
			fail("streamingaead.New(producer)", err)
		}
		d, err := streamingaead.New(to.priv)
		if err != nil {
			fail("streamingaead.New(consumer)", err)
		}
		var buf bytes.Buffer
		w, err := e.NewEncryptingWriter(&buf, ad)
		if err != nil {
			fail("NewEncryptingWriter", err)
		}
		if _, err := w.Write(msg); err != nil {
			fail("Write", err)
		}
		if err := w.Close(); err != nil {
			fail("Close", err)
		}
		r, err := d.NewDecryptingReader(bytes.NewReader(buf.Bytes()), ad)
		if err != nil {
			fail("NewDecryptingReader", err)
		}
		pt, err := io.ReadAll(r)
		if err != nil || !bytes.Equal(pt, msg) {
			fail("streaming decrypt", fmt.Errorf("got %x, %v", pt, err))
		}
	case keys.JWTMAC, keys.JWTSignature:
		iss := "issuer-" + gen.Hex(msg)
		raw, err := jwt.NewRawJWT(&jwt.RawJWTOptions{Issuer: &iss, WithoutExpiration: true})
		if err != nil {
			fail("NewRawJWT", err)
		}
		val, err := jwt.NewValidator(&jwt.ValidatorOpts{ExpectedIssuer: &iss, AllowMissingExpiration: true, FixedNow: fixedNow})
		if err != nil {
			fail("NewValidator", err)
		}
		var compact string
		var verified *jwt.VerifiedJWT
		if c.class == keys.JWTMAC {
			p, err := jwt.NewMAC(from.priv)
			if err != nil {
				fail("jwt.NewMAC(producer)", err)
			}
			v, err := jwt.NewMAC(to.priv)
			if err != nil {
				fail("jwt.NewMAC(consumer)", err)
			}
			if compact, err = p.ComputeMACAndEncode(raw); err != nil {
				fail("ComputeMACAndEncode", err)
			}
			if verified, err = v.VerifyMACAndDecode(compact, val); err != nil {
				fail("VerifyMACAndDecode "+compact, err)
			}
		} else {
			s, err := jwt.NewSigner(from.priv)
			if err != nil {
				fail("jwt.NewSigner(producer)", err)
			}
			v, err := jwt.NewVerifier(to.pub)
			if err != nil {
				fail("jwt.NewVerifier(consumer public)", err)
			}
			if compact, err = s.SignAndEncode(raw); err != nil {
				fail("SignAndEncode", err)
			}
			if verified, err = v.VerifyAndDecode(compact, val); err != nil {
				fail("VerifyAndDecode "+compact, err)
			}
		}
		if got, err := verified.Issuer(); err != nil || got != iss {
			fail("verified issuer", fmt.Errorf("%q, %v", got, err))
		}
	case keys.Deriver:
		a, err := keyderivation.New(from.priv)
		if err != nil {
			fail("keyderivation.New(producer)", err)
		}
		b, err := keyderivation.New(to.priv)
		if err != nil {
			fail("keyderivation.New(consumer)", err)
		}
		ha, err := a.DeriveKeyset(msg)
		if err != nil {
			fail("DeriveKeyset(producer)", err)
		}
		hb, err := b.DeriveKeyset(msg)
		if err != nil {
			fail("DeriveKeyset(consumer)", err)
		}
		if err := sameEntries(ha, hb); err != nil {
			fail("derived keysets", err)
		}
	default:
		rt.Fatalf("unknown class %s", c.class)
	}
}

// withPrimary is a copy of h whose primary is the (ENABLED) key id.  Manager operations are C11's
// matter: a refusal here is a harness error.
func withPrimary(rt *rapid.T, c *ksCase, h *keyset.Handle, id uint32) *keyset.Handle {
	m := keyset.NewManagerFromHandle(h)
	if err := m.SetPrimary(id); err != nil {
		rt.Fatalf("%v\nharness: SetPrimary(%#x) on a copy of the handle: %v", c, id, err)
	}
	out, err := m.Handle()
	if err != nil {
		rt.Fatalf("%v\nharness: Manager.Handle after SetPrimary(%#x): %v", c, id, err)
	}
	return out
}

// TestKeysetRoundTrip: C12 second sentence.
func TestKeysetRoundTrip(t *testing.T) {
	rapid.Check(t, func(rt *rapid.T) {
		detrand.Seed(rapid.Uint64().Draw(rt, "entropy"))
		// one case in eight: a keyset of key types that have no registered parser (fallback proto keys)
		if rapid.IntRange(0, 7).Draw(rt, "keyset_kind") == 7 {
			runFallbackKeyset(rt)
			return
		}
		c := drawKeyset(rt)
		c.checkHandle(rt, "handle from keyset.Manager", c.h, false)

		r := drawRoute(rt, "route", secretRoutes)
		h2 := through(rt, c, "private/symmetric keyset", c.h, r)
		c.checkHandle(rt, fmt.Sprintf("copy read back via %v", r), h2, false)
		if err := sameEntries(c.h, h2); err != nil {
			rt.Fatalf("%v\ncopy via %v: %v", c, r, err)
		}
		if a, b := insecurecleartextkeyset.KeysetMaterial(c.h), insecurecleartextkeyset.KeysetMaterial(h2); a == nil || !proto.Equal(a, b) {
			rt.Fatalf("%v\ncopy via %v: proto keysets differ\n original %v\n copy     %v", c, r, a, b)
		}
		orig, cp := party{name: "original", priv: c.h}, party{name: "copy[" + r.mode + "/" + r.format + "]", priv: h2}

		cls := fmt.Sprintf("%s/n=%d/%s/%s", c.class, len(c.members), r.mode, r.format)
		if hasPublic(c.class) {
			pub, err := c.h.Public()
			if err != nil {
				rt.Fatalf("%v\nPublic(): %v", c, err)
			}
			c.checkHandle(rt, "Public() of the original", pub, true)
			pubOfCopy, err := h2.Public()
			if err != nil {
				rt.Fatalf("%v\nPublic() of the copy via %v: %v", c, r, err)
			}
			c.checkHandle(rt, fmt.Sprintf("Public() of the copy via %v", r), pubOfCopy, true)
			pr := drawRoute(rt, "public_route", publicRoutes)
			pub2 := through(rt, c, "public keyset", pub, pr)
			c.checkHandle(rt, fmt.Sprintf("public keyset read back via %v", pr), pub2, true)
			// the copy of the private keyset is used with the ORIGINAL's public keyset read back through
			// the public route, the original with the copy's own Public()
			orig.pub, cp.pub = pubOfCopy, pub2
			evid.Add("public_route/"+pr.mode+"/"+pr.format, 1)
			// a public keyset never gives private keys back
			for i := 0; i < pub2.Len(); i++ {
				e, _ := pub2.Entry(i)
				if _, isPriv := e.Key().(interface{ PublicKey() (key.Key, error) }); isPriv {
					rt.Fatalf("%v\npublic keyset via %v: entry %d is a private key", c, pr, i)
				}
			}
		} else if _, err := c.h.Public(); err == nil {
			rt.Fatalf("%v\nPublic() of a symmetric keyset succeeded", c)
		}

		msg := gen.Bytes(rt, "msg", 200)
		ad := gen.Bytes(rt, "ad", 40)
		produceConsume(rt, c, orig, cp, msg, ad)
		produceConsume(rt, c, cp, orig, msg, ad)

		// "its primitives interoperate with the original's" is a statement about every key a primitive can
		// use, and a keyset primitive produces with its primary only: each further ENABLED member (at most
		// two per case, the window is drawn) is made the primary of a copy of all four handles
		// (NewManagerFromHandle + SetPrimary) and produces / consumes both ways as well.
		var others []int
		for j, m := range c.members {
			if j != c.primary && m.status == keyset.Enabled {
				others = append(others, j)
			}
		}
		if len(others) > 2 {
			at := gen.Uniform(rt, "other_members_from", len(others))
			others = []int{others[at], others[(at+1)%len(others)]}
		}
		for _, j := range others {
			id := c.members[j].id
			oj := party{name: fmt.Sprintf("original, primary moved to #%d", j), priv: withPrimary(rt, c, c.h, id)}
			cj := party{name: fmt.Sprintf("%s, primary moved to #%d", cp.name, j), priv: withPrimary(rt, c, h2, id)}
			if hasPublic(c.class) {
				oj.pub, cj.pub = withPrimary(rt, c, orig.pub, id), withPrimary(rt, c, cp.pub, id)
			}
			produceConsume(rt, c, oj, cj, msg, ad)
			produceConsume(rt, c, cj, oj, msg, ad)
			evid.Add("interop_nonprimary_member/"+c.members[j].info.Type+"/"+c.members[j].info.Variant, 1)
		}
		evid.Add(fmt.Sprintf("interop_members_per_case/%d", 1+len(others)), 1)

		h := evid.NewH().S(string(c.class)).S(r.mode).S(r.format).I(int64(c.primary))
		for _, m := range c.members {
			h = h.S(m.info.Desc).I(int64(m.id)).I(int64(m.status))
			for _, s := range m.info.Secrets {
				h = h.B(s)
			}
		}
		evid.Case(cls, true, h.Sum(), func() any { return map[string]any{"keyset": c.String(), "route": r.String()} })
	})
}

// sameMaterial reports whether two secrets may be the same key: equal after trimming trailing
// zero bytes (HMAC zero-pads short keys; an all-zero 16-byte and 32-byte value also coincide).
func sameMaterial(a, b []byte) bool {
	trim := func(x []byte) []byte {
		for len(x) > 0 && x[len(x)-1] == 0 {
			x = x[:len(x)-1]
		}
		return x
	}
	return bytes.Equal(trim(a), trim(b))
}
