package c12

import (
	"testing"

	"pgregory.net/rapid"

	"github.com/tink-crypto/tink-go/v2/verifharness/internal/detrand"
	"github.com/tink-crypto/tink-go/v2/verifharness/internal/evid"
	"github.com/tink-crypto/tink-go/v2/verifharness/internal/keys"
)

// TestRSAPublicRoundTrip: C12 first sentence on the part of the RSA parameter space no private key
// reaches (added after seeded change C12c): every modulus size >= 2048 and every odd public
// exponent in [65537, 2^31-1] are valid parameters of RsaSsaPkcs1, RsaSsaPss, JwtRsaSsaPkcs1 and
// JwtRsaSsaPss, and public keys exist for all of them.  Parameters and public keys go through the
// same oracles as TestKeyRoundTrip (independent field table, Equal after parse, byte-identical
// second serialization).
func TestRSAPublicRoundTrip(t *testing.T) {
	rapid.Check(t, func(rt *rapid.T) {
		detrand.Seed(rapid.Uint64().Draw(rt, "entropy"))
		typ := rapid.SampledFrom(keys.RSAPublicTypes).Draw(rt, "type")
		info := keys.DrawRSAPublic(rt, "key", typ)
		ok := roundTripKey(rt, info, info.Key, true)
		okParams := roundTripParameters(rt, info)
		e := info.Fields["public_exponent"].(int)
		cls := info.Type + "/" + info.Variant
		if e == 65537 {
			cls += "/F4"
		} else {
			cls += "/otherExponent"
		}
		evid.Case(cls, (ok || okParams) && e != 65537, evid.NewH().S(info.Type).S(info.Desc).Sum(), func() any {
			return map[string]any{"key": info.Desc, "serializable": ok, "parameters_serializable": okParams}
		})
	})
}
