package c12

import (
	"fmt"
	"testing"

	"google.golang.org/protobuf/proto"
	"pgregory.net/rapid"

	"github.com/tink-crypto/tink-go/v2/aead"
	"github.com/tink-crypto/tink-go/v2/insecurecleartextkeyset"
	"github.com/tink-crypto/tink-go/v2/keyset"
	"github.com/tink-crypto/tink-go/v2/mac"
	tinkpb "github.com/tink-crypto/tink-go/v2/proto/tink_go_proto"
	"github.com/tink-crypto/tink-go/v2/signature"
	"github.com/tink-crypto/tink-go/v2/verifharness/internal/detrand"
	"github.com/tink-crypto/tink-go/v2/verifharness/internal/evid"
	"github.com/tink-crypto/tink-go/v2/verifharness/internal/gen"
	"github.com/tink-crypto/tink-go/v2/verifharness/internal/keys"
)

// TestLargeKeysetRoundTrip: "all keysets; all writer/reader pairs" - also the keysets whose written
// form is large.  The other keyset units stop at five members (tens of kilobytes at most); here a
// keyset has 200 to 3000 cheap keys, i.e. documents from about 40 KB to about 1 MB, written through a
// drawn route and read back: same entries, equal proto keysets.
// (Added after seeded change C12n: the JSON reader read at most 64 KiB of its source.)
func TestLargeKeysetRoundTrip(t *testing.T) {
	rapid.Check(t, func(rt *rapid.T) {
		detrand.Seed(rapid.Uint64().Draw(rt, "entropy"))
		type kind struct {
			name  string
			class keys.Class
			kt    *tinkpb.KeyTemplate
		}
		k := gen.Pick(rt, "type", []kind{
			{"AES256GCM", keys.AEAD, aead.AES256GCMKeyTemplate()},
			{"AES128CTRHMAC", keys.AEAD, aead.AES128CTRHMACSHA256KeyTemplate()},
			{"HMACSHA512", keys.MAC, mac.HMACSHA512Tag512KeyTemplate()},
			{"ED25519", keys.Signature, signature.ED25519KeyTemplate()},
			{"ECDSAP256", keys.Signature, signature.ECDSAP256KeyTemplate()},
		})
		n := gen.Pick(rt, "keys", []int{200, 300, 400, 700, 1000, 3000})
		primary := gen.Uniform(rt, "primary", n)
		mgr := keyset.NewManager()
		for j := 0; j < n; j++ {
			id, err := mgr.Add(k.kt)
			if err != nil {
				rt.Fatalf("Manager.Add(%s) #%d: %v", k.name, j, err)
			}
			if j == primary {
				if err := mgr.SetPrimary(id); err != nil {
					rt.Fatalf("SetPrimary: %v", err)
				}
			} else if j%7 == 3 {
				if err := mgr.Disable(id); err != nil {
					rt.Fatalf("Disable: %v", err)
				}
			}
		}
		h, err := mgr.Handle()
		if err != nil {
			rt.Fatalf("Manager.Handle: %v", err)
		}
		desc := fmt.Sprintf("keyset of %d %s keys, primary #%d", n, k.name, primary)
		c := &ksCase{class: k.class, h: h}
		r := drawRoute(rt, "route", secretRoutes)
		h2 := through(rt, c, desc, h, r)
		if err := sameEntries(h, h2); err != nil {
			rt.Fatalf("%s\ncopy via %v: %v", desc, r, err)
		}
		if a, b := insecurecleartextkeyset.KeysetMaterial(h), insecurecleartextkeyset.KeysetMaterial(h2); a == nil || !proto.Equal(a, b) {
			rt.Fatalf("%s\ncopy via %v: proto keysets differ", desc, r)
		}
		if hasPublic(k.class) {
			pub, err := h.Public()
			if err != nil {
				rt.Fatalf("%s\nPublic(): %v", desc, err)
			}
			pr := drawRoute(rt, "public_route", publicRoutes)
			pub2 := through(rt, c, "public keyset of the "+desc, pub, pr)
			if err := sameEntries(pub, pub2); err != nil {
				rt.Fatalf("%s\npublic keyset via %v: %v", desc, pr, err)
			}
		}
		evid.Case(fmt.Sprintf("large-keyset/%s/n=%d/%s/%s", k.name, n, r.mode, r.format), true, evid.NewH().S(desc).S(r.mode).S(r.format).Sum(), func() any { return desc })
	})
}
