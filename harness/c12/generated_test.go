package c12

import (
	"fmt"
	"testing"

	"google.golang.org/protobuf/proto"
	"pgregory.net/rapid"

	"github.com/tink-crypto/tink-go/v2/insecurecleartextkeyset"
	"github.com/tink-crypto/tink-go/v2/internal/protoserialization"
	"github.com/tink-crypto/tink-go/v2/key"
	"github.com/tink-crypto/tink-go/v2/keyset"
	"github.com/tink-crypto/tink-go/v2/verifharness/internal/detrand"
	"github.com/tink-crypto/tink-go/v2/verifharness/internal/evid"
	"github.com/tink-crypto/tink-go/v2/verifharness/internal/gen"
	"github.com/tink-crypto/tink-go/v2/verifharness/internal/keys"
)

// TestGeneratedKeysetRoundTrip: "a keyset handle written with any writer ... and read back has the
// same keys, IDs, statuses, primary and order" for the handles whose keys the LIBRARY generates:
// keyset.NewHandle(template), Manager.Add(template) and Manager.AddNewKeyFromParameters(parameters),
// for the parameters of every key type and variant the generator produces (TestKeysetRoundTrip adds
// finished key objects).  What binds a generated key to its keyset entry - the ID requirement of the
// variants that carry the key ID - is decided on these routes and nowhere else.
// (Added after seeded change C12m: Manager.Add forgot the prefix type WITH_ID_REQUIREMENT.)
//
// Oracle: generation may be refused (counted); a generated handle is written through a drawn route
// and read back: same entries (Equal keys, IDs, statuses, primary), equal proto keysets; the public
// keyset, where there is one, likewise.
func TestGeneratedKeysetRoundTrip(t *testing.T) {
	rapid.Check(t, func(rt *rapid.T) {
		detrand.Seed(rapid.Uint64().Draw(rt, "entropy"))
		typ := gen.Pick(rt, "type", keys.AllTypes())
		class := keys.ClassOf(typ)
		n := rapid.IntRange(1, 3).Draw(rt, "keys")
		primary := rapid.IntRange(0, n-1).Draw(rt, "primary")
		viaNewHandle := n == 1 && rapid.Bool().Draw(rt, "via_NewHandle")
		mgr := keyset.NewManager()
		var h *keyset.Handle
		desc := ""
		for j := 0; j < n; j++ {
			label := fmt.Sprintf("k%d", j)
			info := keys.DrawType(rt, label, typ)
			if j > 0 {
				info = keys.DrawUsable(rt, label, class)
			}
			if info.NoSerialization {
				// parameters whose keys have no proto form: TestKeysetsWithoutProtoForm
				rt.Skip("parameters of a key without proto form")
			}
			params := info.Key.Parameters()
			route := gen.Pick(rt, label+"_route", []string{"AddNewKeyFromParameters", "Add(template)"})
			if viaNewHandle {
				route = "NewHandle(template)"
			}
			desc += fmt.Sprintf("\n  #%d %s: parameters of %s", j, route, info.Desc)
			var id uint32
			var err error
			if route == "AddNewKeyFromParameters" {
				id, err = mgr.AddNewKeyFromParameters(params)
			} else {
				tmpl, serr := protoserialization.SerializeParameters(params)
				if serr != nil {
					evid.Add("generated/parameters-not-serializable/"+info.Type, 1)
					rt.Skip("parameters have no template form")
				}
				if route == "NewHandle(template)" {
					if h, err = keyset.NewHandle(tmpl); err != nil {
						evid.Add("generated/refused/"+route+"/"+info.Type, 1)
						rt.Skip("generation refused")
					}
					continue
				}
				id, err = mgr.Add(tmpl)
			}
			if err != nil {
				evid.Add("generated/refused/"+route+"/"+info.Type, 1)
				rt.Skip("generation refused")
			}
			if j == primary {
				if err := mgr.SetPrimary(id); err != nil {
					rt.Fatalf("generated keyset%s\nSetPrimary(%#x) of a key just generated: %v", desc, id, err)
				}
			}
		}
		if h == nil {
			var err error
			if h, err = mgr.Handle(); err != nil {
				rt.Fatalf("generated keyset%s\nManager.Handle: %v", desc, err)
			}
		}
		c := &ksCase{class: class, h: h}
		r := drawRoute(rt, "route", secretRoutes)
		h2 := through(rt, c, "generated keyset"+desc, h, r)
		if err := sameEntries(h, h2); err != nil {
			rt.Fatalf("generated keyset%s\ncopy via %v: %v", desc, r, err)
		}
		if a, b := insecurecleartextkeyset.KeysetMaterial(h), insecurecleartextkeyset.KeysetMaterial(h2); a == nil || !proto.Equal(a, b) {
			rt.Fatalf("generated keyset%s\ncopy via %v: proto keysets differ\n original %v\n copy     %v", desc, r, a, b)
		}
		if hasPublic(class) {
			pub, err := h.Public()
			if err != nil {
				rt.Fatalf("generated keyset%s\nPublic(): %v", desc, err)
			}
			pr := drawRoute(rt, "public_route", publicRoutes)
			pub2 := through(rt, c, "public keyset of the generated keyset"+desc, pub, pr)
			if err := sameEntries(pub, pub2); err != nil {
				rt.Fatalf("generated keyset%s\npublic keyset via %v: %v", desc, pr, err)
			}
			pubOfCopy, err := h2.Public()
			if err != nil {
				rt.Fatalf("generated keyset%s\nPublic() of the copy via %v: %v", desc, r, err)
			}
			if err := sameEntries(pub, pubOfCopy); err != nil {
				rt.Fatalf("generated keyset%s\nPublic() of the copy via %v differs from Public() of the original: %v", desc, r, err)
			}
			for i := 0; i < pub2.Len(); i++ {
				e, _ := pub2.Entry(i)
				if _, isPriv := e.Key().(interface{ PublicKey() (key.Key, error) }); isPriv {
					rt.Fatalf("generated keyset%s\npublic keyset via %v: entry %d is a private key", desc, pr, i)
				}
			}
		}
		evid.Case(fmt.Sprintf("generated-keyset/%s/n=%d/%s/%s", typ, n, r.mode, r.format), true, evid.NewH().S(desc).Sum(), func() any { return desc })
	})
}
