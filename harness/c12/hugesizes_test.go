package c12

import (
	"fmt"
	"testing"

	"github.com/tink-crypto/tink-go/v2/aead/aesctrhmac"
	"github.com/tink-crypto/tink-go/v2/internal/protoserialization"
	"github.com/tink-crypto/tink-go/v2/jwt/jwthmac"
	"github.com/tink-crypto/tink-go/v2/jwt/jwtrsassapkcs1"
	"github.com/tink-crypto/tink-go/v2/jwt/jwtrsassapss"
	"github.com/tink-crypto/tink-go/v2/key"
	"github.com/tink-crypto/tink-go/v2/mac/hmac"
	"github.com/tink-crypto/tink-go/v2/prf/hkdfprf"
	"github.com/tink-crypto/tink-go/v2/prf/hmacprf"
	"github.com/tink-crypto/tink-go/v2/signature/rsassapkcs1"
	"github.com/tink-crypto/tink-go/v2/signature/rsassapss"
	streamctr "github.com/tink-crypto/tink-go/v2/streamingaead/aesctrhmac"
	streamgcm "github.com/tink-crypto/tink-go/v2/streamingaead/aesgcmhkdf"
	"github.com/tink-crypto/tink-go/v2/verifharness/internal/evid"
)

// TestHugeSizeParameters: "for every ... valid parameter combination, serializing ... parameters to
// its proto form and parsing it back yields Equal parameters" - at the far end of the size fields.
// Parameters objects carry no key material, so a key size of 2^32+16 bytes costs nothing to state;
// several constructors put no upper bound on their size fields, while the proto formats hold them in
// 32 bits. Per constructor: refused => fine; serialization refused => fine (no proto form, cleanly);
// serialized => the parsed parameters must be Equal (a serializer that casts to uint32 writes 16).
// (Found by the read-only defect hunt: F23.)
func TestHugeSizeParameters(t *testing.T) {
	const big = 1 << 32
	type ctor struct {
		name string
		f    func(extra int) (key.Parameters, error)
	}
	ctors := []ctor{
		{"Hmac/key_size", func(x int) (key.Parameters, error) {
			return hmac.NewParameters(hmac.ParametersOpts{KeySizeInBytes: x + 32, TagSizeInBytes: 16, HashType: hmac.SHA256, Variant: hmac.VariantTink})
		}},
		{"HmacPrf/key_size", func(x int) (key.Parameters, error) { return hmacprf.NewParameters(x+32, hmacprf.SHA256) }},
		{"HkdfPrf/key_size", func(x int) (key.Parameters, error) { return hkdfprf.NewParameters(x+32, hkdfprf.SHA256, nil) }},
		{"JwtHmac/key_size", func(x int) (key.Parameters, error) {
			return jwthmac.NewParameters(x+32, jwthmac.IgnoredKID, jwthmac.HS256)
		}},
		{"AesCtrHmacAead/hmac_key_size", func(x int) (key.Parameters, error) {
			return aesctrhmac.NewParameters(aesctrhmac.ParametersOpts{AESKeySizeInBytes: 16, HMACKeySizeInBytes: x + 32, IVSizeInBytes: 12, TagSizeInBytes: 16, HashType: aesctrhmac.SHA256, Variant: aesctrhmac.VariantTink})
		}},
		{"RsaSsaPkcs1/modulus_bits", func(x int) (key.Parameters, error) {
			return rsassapkcs1.NewParameters(x+2048, rsassapkcs1.SHA256, 65537, rsassapkcs1.VariantTink)
		}},
		{"RsaSsaPss/modulus_bits", func(x int) (key.Parameters, error) {
			return rsassapss.NewParameters(rsassapss.ParametersValues{ModulusSizeBits: x + 2048, SigHashType: rsassapss.SHA256, MGF1HashType: rsassapss.SHA256, PublicExponent: 65537, SaltLengthBytes: 32}, rsassapss.VariantTink)
		}},
		{"RsaSsaPss/salt_length", func(x int) (key.Parameters, error) {
			return rsassapss.NewParameters(rsassapss.ParametersValues{ModulusSizeBits: 2048, SigHashType: rsassapss.SHA256, MGF1HashType: rsassapss.SHA256, PublicExponent: 65537, SaltLengthBytes: x + 32}, rsassapss.VariantTink)
		}},
		{"JwtRsaSsaPkcs1/modulus_bits", func(x int) (key.Parameters, error) {
			return jwtrsassapkcs1.NewParameters(jwtrsassapkcs1.ParametersOpts{ModulusSizeInBits: x + 2048, PublicExponent: 65537, Algorithm: jwtrsassapkcs1.RS256, KidStrategy: jwtrsassapkcs1.IgnoredKID})
		}},
		{"JwtRsaSsaPss/modulus_bits", func(x int) (key.Parameters, error) {
			return jwtrsassapss.NewParameters(jwtrsassapss.ParametersOpts{ModulusSizeInBits: x + 2048, PublicExponent: 65537, Algorithm: jwtrsassapss.PS256, KidStrategy: jwtrsassapss.IgnoredKID})
		}},
		{"AesCtrHmacStreaming/key_size", func(x int) (key.Parameters, error) {
			return streamctr.NewParameters(streamctr.ParametersOpts{KeySizeInBytes: x + 32, DerivedKeySizeInBytes: 32, HkdfHashType: streamctr.SHA256, HmacHashType: streamctr.SHA256, HmacTagSizeInBytes: 16, SegmentSizeInBytes: 4096})
		}},
		{"AesGcmHkdfStreaming/key_size", func(x int) (key.Parameters, error) {
			return streamgcm.NewParameters(streamgcm.ParametersOpts{KeySizeInBytes: x + 32, DerivedKeySizeInBytes: 32, HKDFHashType: streamgcm.SHA256, SegmentSizeInBytes: 4096})
		}},
	}
	for _, c := range ctors {
		for _, extra := range []int{0, big, 3 * big} {
			p, err := c.f(extra)
			cls := "huge-size/" + c.name
			if extra == 0 {
				if err != nil {
					t.Fatalf("harness: %s with ordinary sizes refused: %v", c.name, err)
				}
				cls = "ordinary-size/" + c.name
			} else if err != nil {
				evid.Case(cls+"/refused-by-constructor", false, evid.NewH().S(c.name).I(int64(extra)).Sum(), func() any { return err.Error() })
				continue
			}
			tmpl, err := protoserialization.SerializeParameters(p)
			if err != nil {
				if extra == 0 {
					t.Fatalf("%s with ordinary sizes: SerializeParameters: %v", c.name, err)
				}
				evid.Case(cls+"/no-proto-form", true, evid.NewH().S(c.name).I(int64(extra)).Sum(), func() any { return err.Error() })
				continue
			}
			p2, err := protoserialization.ParseParameters(tmpl)
			if err != nil || !p2.Equal(p) || !p.Equal(p2) {
				t.Fatalf("%s = base + %d: the parameters were serialized without error, but parsing the template back gives %v (error %v), not Equal parameters: the size does not fit the 32-bit field of the key format and was truncated", c.name, extra, fmt.Sprint(p2), err)
				continue
			}
			evid.Case(cls+"/round-trip", true, evid.NewH().S(c.name).I(int64(extra)).Sum(), func() any { return fmt.Sprint(p2) })
		}
	}
}
