package c12

// Keysets of key types that have NO registered proto parser / serializer: harness-owned type URLs
// served by the key managers of internal/legacykm (symmetric ones and the two private / public
// pairs) and KmsEnvelopeAeadKey (material type REMOTE, built from its key template).  Inside a
// handle such keys are fallback proto keys; C12's second sentence holds for them like for any other
// key: every writer / reader route gives back the same keys (type URL, value bytes, key material
// type, output prefix type), IDs, statuses, primary and order, the primitives interoperate, and
// Public() yields the matching public keys (here: what the key manager's PublicKeyData returns, i.e.
// legacykm's own public-key derivation, under the same prefix type, ID and status).

import (
	"encoding/base64"
	"fmt"
	"strings"

	"google.golang.org/protobuf/proto"
	"pgregory.net/rapid"

	"github.com/tink-crypto/tink-go/v2/aead"
	"github.com/tink-crypto/tink-go/v2/core/registry"
	"github.com/tink-crypto/tink-go/v2/insecurecleartextkeyset"
	"github.com/tink-crypto/tink-go/v2/internal/internalapi"
	"github.com/tink-crypto/tink-go/v2/internal/protoserialization"
	"github.com/tink-crypto/tink-go/v2/keyset"
	gcmpb "github.com/tink-crypto/tink-go/v2/proto/aes_gcm_go_proto"
	tinkpb "github.com/tink-crypto/tink-go/v2/proto/tink_go_proto"
	"github.com/tink-crypto/tink-go/v2/testing/fakekms"
	"github.com/tink-crypto/tink-go/v2/verifharness/internal/evid"
	"github.com/tink-crypto/tink-go/v2/verifharness/internal/gen"
	"github.com/tink-crypto/tink-go/v2/verifharness/internal/keys"
	"github.com/tink-crypto/tink-go/v2/verifharness/internal/legacykm"
	"github.com/tink-crypto/tink-go/v2/verifharness/internal/tk"
)

const envelopeURL = "type.googleapis.com/google.crypto.tink.KmsEnvelopeAeadKey"

// registerFallbackTypes installs the harness key managers and the fake KMS client (TestMain).
func registerFallbackTypes() {
	legacykm.Register()
	c, err := fakekms.NewClient("fake-kms://")
	if err != nil {
		panic(err)
	}
	registry.RegisterKMSClient(c)
}

// fakeKMSURI is a fake-kms key URI whose key-encryption key is the AES-128-GCM key `kek`
// (the URI is the base64 form of a cleartext binary keyset, see testing/fakekms).
func fakeKMSURI(kek []byte) string {
	val := tk.Must(proto.Marshal(&gcmpb.AesGcmKey{KeyValue: kek}))
	ks := &tinkpb.Keyset{PrimaryKeyId: 1, Key: []*tinkpb.Keyset_Key{{
		KeyData: &tinkpb.KeyData{TypeUrl: "type.googleapis.com/google.crypto.tink.AesGcmKey", Value: val, KeyMaterialType: tinkpb.KeyData_SYMMETRIC},
		Status:  tinkpb.KeyStatusType_ENABLED, KeyId: 1, OutputPrefixType: tinkpb.OutputPrefixType_TINK}}}
	return "fake-kms://" + base64.RawURLEncoding.EncodeToString(tk.Must(proto.Marshal(ks)))
}

// fbMember is one fallback entry as GENERATED.
type fbMember struct {
	url      string
	value    []byte
	material tinkpb.KeyData_KeyMaterialType
	prefix   tinkpb.OutputPrefixType
	id       uint32
	status   keyset.KeyStatus
	pubURL   string // "" for key types without a public half
	pubValue []byte
	desc     string
}

func (m fbMember) String() string {
	return fmt.Sprintf("id=%#x status=%v prefix=%v %s material=%v value=%x", m.id, m.status, m.prefix, m.desc, m.material, m.value)
}

func (m fbMember) protoKey(public bool) *tinkpb.Keyset_Key {
	kd := &tinkpb.KeyData{TypeUrl: m.url, Value: append([]byte{}, m.value...), KeyMaterialType: m.material}
	if public {
		kd = &tinkpb.KeyData{TypeUrl: m.pubURL, Value: append([]byte{}, m.pubValue...), KeyMaterialType: tinkpb.KeyData_ASYMMETRIC_PUBLIC}
	}
	return &tinkpb.Keyset_Key{KeyData: kd, Status: statusProto[m.status], KeyId: m.id, OutputPrefixType: m.prefix}
}

type fbClass struct {
	name  string
	class keys.Class // which primitive factory the interoperability check uses
	urls  []string
}

var fbClasses = []fbClass{
	{"fallback-signature", keys.Signature, []string{legacykm.SignerURL}},
	{"fallback-hybrid", keys.Hybrid, []string{legacykm.HybridPrivURL}},
	{"fallback-aead", keys.AEAD, []string{legacykm.AeadURL, envelopeURL, envelopeURL}},
	{"fallback-mac", keys.MAC, []string{legacykm.MacURL}},
	{"fallback-daead", keys.DAEAD, []string{legacykm.DaeadURL}},
}

var fbPrefixes = []tinkpb.OutputPrefixType{tinkpb.OutputPrefixType_TINK, tinkpb.OutputPrefixType_RAW, tinkpb.OutputPrefixType_LEGACY, tinkpb.OutputPrefixType_CRUNCHY}

var fbDEKTemplates = []struct {
	name string
	t    func() *tinkpb.KeyTemplate
}{
	{"AES128_GCM", aead.AES128GCMKeyTemplate}, {"AES256_GCM", aead.AES256GCMKeyTemplate}, {"AES128_CTR_HMAC_SHA256", aead.AES128CTRHMACSHA256KeyTemplate},
	{"CHACHA20_POLY1305", aead.ChaCha20Poly1305KeyTemplate}, {"XCHACHA20_POLY1305", aead.XChaCha20Poly1305KeyTemplate}, {"AES256_GCM_SIV", aead.AES256GCMSIVKeyTemplate},
}

// fbCase is a generated fallback keyset.
type fbCase struct {
	cls     fbClass
	members []fbMember
	primary int
	build   string
	h       *keyset.Handle
}

func (c *fbCase) String() string {
	var b strings.Builder
	fmt.Fprintf(&b, "keyset of key types without a parser, class=%s built-by=%s keys=%d primary=#%d", c.cls.name, c.build, len(c.members), c.primary)
	for i, m := range c.members {
		fmt.Fprintf(&b, "\n  #%d %v", i, m)
	}
	return b.String()
}

func (c *fbCase) hasPublic() bool { return c.cls.class == keys.Signature || c.cls.class == keys.Hybrid }

// expected is the harness's own proto form of the generated keyset (or of its public keyset).
func (c *fbCase) expected(public bool) *tinkpb.Keyset {
	ks := &tinkpb.Keyset{PrimaryKeyId: c.members[c.primary].id}
	for _, m := range c.members {
		ks.Key = append(ks.Key, m.protoKey(public))
	}
	return ks
}

func drawFallbackKeyset(rt *rapid.T) *fbCase {
	c := &fbCase{cls: rapid.SampledFrom(fbClasses).Draw(rt, "fallback_class")}
	n := rapid.IntRange(1, 4).Draw(rt, "keys")
	used := map[uint32]bool{}
	for j := 0; j < n; j++ {
		label := fmt.Sprintf("k%d", j)
		m := fbMember{url: rapid.SampledFrom(c.cls.urls).Draw(rt, label+"_url")}
		m.prefix = rapid.SampledFrom(fbPrefixes).Draw(rt, label+"_prefix")
		m.status = rapid.SampledFrom([]keyset.KeyStatus{keyset.Enabled, keyset.Enabled, keyset.Disabled, keyset.Destroyed}).Draw(rt, label+"_status")
		m.material = legacykm.Material(m.url)
		switch m.url {
		case envelopeURL:
			kek := gen.BytesN(rt, label+"_kek", 16)
			dek := rapid.SampledFrom(fbDEKTemplates).Draw(rt, label+"_dek")
			uri := fakeKMSURI(kek)
			tmpl, err := aead.CreateKMSEnvelopeAEADKeyTemplate(uri, dek.t())
			if err != nil {
				rt.Fatalf("CreateKMSEnvelopeAEADKeyTemplate(%s, %s): %v", uri, dek.name, err)
			}
			kd, err := registry.NewKeyData(tmpl)
			if err != nil {
				rt.Fatalf("registry.NewKeyData of the envelope template (%s, %s): %v", uri, dek.name, err)
			}
			m.value, m.material = kd.GetValue(), kd.GetKeyMaterialType()
			if m.material != tinkpb.KeyData_REMOTE {
				rt.Fatalf("harness: KmsEnvelopeAeadKey key data has material type %v", m.material)
			}
			m.desc = fmt.Sprintf("KmsEnvelopeAeadKey kek=%x dek=%s", kek, dek.name)
		default:
			size := 32
			if m.url == legacykm.DaeadURL {
				size = 64
			}
			m.value = gen.BytesN(rt, label+"_material", size)
			m.value[8] = byte(j) // key material is unique inside the keyset by construction
			if m.url == legacykm.DaeadURL {
				m.value[40] = byte(j) // ... in both halves of an AES-SIV key
			}
			switch m.url {
			case legacykm.SignerURL:
				m.pubURL, m.pubValue = legacykm.VerifierURL, legacykm.PublicOfSeed(m.value)
			case legacykm.HybridPrivURL:
				m.value[0] &= 248 // the canonical representative of the X25519 scalar
				m.value[31] = m.value[31]&127 | 64
				m.pubURL, m.pubValue = legacykm.HybridPubURL, legacykm.HybridPublicOf(m.value)
			}
			m.desc = strings.TrimPrefix(m.url, "type.googleapis.com/")
		}
		m.id = gen.KeyID(rt, label+"_id")
		for used[m.id] { // the shrinker makes IDs equal
			m.id++
		}
		used[m.id] = true
		c.members = append(c.members, m)
	}
	c.primary = rapid.IntRange(0, len(c.members)-1).Draw(rt, "primary")
	c.members[c.primary].status = keyset.Enabled

	c.build = rapid.SampledFrom([]string{"manager", "proto"}).Draw(rt, "built_by")
	var err error
	if c.build == "proto" {
		c.h, err = legacykm.HandleFromProto(c.expected(false))
		if err != nil {
			rt.Fatalf("%v\nreading the generated proto keyset: %v", c, err)
		}
		return c
	}
	mgr := keyset.NewManager()
	for j, m := range c.members {
		idReq := m.id
		if m.prefix == tinkpb.OutputPrefixType_RAW {
			idReq = 0
		}
		ser, err := protoserialization.NewKeySerialization(m.protoKey(false).GetKeyData(), m.prefix, idReq)
		if err != nil {
			rt.Fatalf("%v\nNewKeySerialization for #%d: %v", c, j, err)
		}
		k, err := protoserialization.ParseKey(ser)
		if err != nil {
			rt.Fatalf("%v\nParseKey for #%d: %v", c, j, err)
		}
		opts := []keyset.KeyOpts{keyset.WithStatus(m.status)}
		if m.prefix == tinkpb.OutputPrefixType_RAW || rapid.Bool().Draw(rt, fmt.Sprintf("k%d_fixed_id", j)) {
			opts = append(opts, keyset.WithFixedID(m.id))
		}
		if j == c.primary {
			opts = append(opts, keyset.AsPrimary())
		}
		id, err := mgr.AddKeyWithOpts(k, internalapi.Token{}, opts...)
		if err != nil || id != m.id {
			rt.Fatalf("%v\nAddKeyWithOpts for #%d: id %#x, %v", c, j, id, err)
		}
	}
	if c.h, err = mgr.Handle(); err != nil {
		rt.Fatalf("%v\nManager.Handle: %v", c, err)
	}
	return c
}

// check compares a handle with the generated keyset, field by field in proto form and entry-wise.
func (c *fbCase) check(rt *rapid.T, what string, h *keyset.Handle, public bool) {
	if h == nil {
		rt.Fatalf("%v\n%s: nil handle", c, what)
	}
	want := c.expected(public)
	got := insecurecleartextkeyset.KeysetMaterial(h)
	if got == nil || len(got.GetKey()) != len(want.GetKey()) {
		rt.Fatalf("%v\n%s: the proto keyset has %d keys, want %d", c, what, len(got.GetKey()), len(want.GetKey()))
	}
	if got.GetPrimaryKeyId() != want.GetPrimaryKeyId() {
		rt.Fatalf("%v\n%s: primary key ID %#x, want %#x", c, what, got.GetPrimaryKeyId(), want.GetPrimaryKeyId())
	}
	for i, w := range want.GetKey() {
		g := got.GetKey()[i]
		if !proto.Equal(g, w) {
			rt.Fatalf("%v\n%s: key #%d differs\n got  type_url=%s value=%x material=%v prefix=%v id=%#x status=%v\n want type_url=%s value=%x material=%v prefix=%v id=%#x status=%v", c, what, i,
				g.GetKeyData().GetTypeUrl(), g.GetKeyData().GetValue(), g.GetKeyData().GetKeyMaterialType(), g.GetOutputPrefixType(), g.GetKeyId(), g.GetStatus(),
				w.GetKeyData().GetTypeUrl(), w.GetKeyData().GetValue(), w.GetKeyData().GetKeyMaterialType(), w.GetOutputPrefixType(), w.GetKeyId(), w.GetStatus())
		}
	}
	if h.Len() != len(c.members) {
		rt.Fatalf("%v\n%s: Len() = %d, want %d", c, what, h.Len(), len(c.members))
	}
	wantInfo := &tinkpb.KeysetInfo{PrimaryKeyId: want.GetPrimaryKeyId()}
	for i, m := range c.members {
		e, err := h.Entry(i)
		if err != nil {
			rt.Fatalf("%v\n%s: Entry(%d): %v", c, what, i, err)
		}
		if e.KeyID() != m.id || e.KeyStatus() != m.status || e.IsPrimary() != (i == c.primary) {
			rt.Fatalf("%v\n%s: entry %d is (id %#x, %v, primary %v), want (id %#x, %v, primary %v)", c, what, i, e.KeyID(), e.KeyStatus(), e.IsPrimary(), m.id, m.status, i == c.primary)
		}
		idReq, has := e.Key().IDRequirement()
		if has != (m.prefix != tinkpb.OutputPrefixType_RAW) || (has && idReq != m.id) {
			rt.Fatalf("%v\n%s: entry %d: key has ID requirement (%#x, %v) under prefix type %v and ID %#x", c, what, i, idReq, has, m.prefix, m.id)
		}
		k := want.GetKey()[i]
		wantInfo.KeyInfo = append(wantInfo.KeyInfo, &tinkpb.KeysetInfo_KeyInfo{TypeUrl: k.GetKeyData().GetTypeUrl(), Status: k.GetStatus(), KeyId: k.GetKeyId(), OutputPrefixType: k.GetOutputPrefixType()})
	}
	if p, err := h.Primary(); err != nil || p.KeyID() != c.members[c.primary].id || !p.IsPrimary() {
		rt.Fatalf("%v\n%s: Primary(): %v", c, what, err)
	}
	if gotInfo := h.KeysetInfo(); !proto.Equal(gotInfo, wantInfo) {
		rt.Fatalf("%v\n%s: KeysetInfo\n got  %v\n want %v", c, what, gotInfo, wantInfo)
	}
}

// runFallbackKeyset is TestKeysetRoundTrip for a keyset of key types without a parser.
func runFallbackKeyset(rt *rapid.T) {
	c := drawFallbackKeyset(rt)
	pc := &ksCase{class: c.cls.class, fallback: c} // for through / produceConsume (messages, class)
	c.check(rt, "handle as built", c.h, false)

	r := drawRoute(rt, "route", secretRoutes)
	h2 := through(rt, pc, "private/symmetric keyset", c.h, r)
	c.check(rt, fmt.Sprintf("copy read back via %v", r), h2, false)
	if err := sameEntries(c.h, h2); err != nil {
		rt.Fatalf("%v\ncopy via %v: %v", c, r, err)
	}
	orig, cp := party{name: "original", priv: c.h}, party{name: "copy[" + r.mode + "/" + r.format + "]", priv: h2}
	cls := fmt.Sprintf("%s/n=%d/%s/%s", c.cls.name, len(c.members), r.mode, r.format)
	if c.hasPublic() {
		pub, err := c.h.Public()
		if err != nil {
			rt.Fatalf("%v\nPublic(): %v", c, err)
		}
		c.check(rt, "Public() of the original", pub, true)
		pubOfCopy, err := h2.Public()
		if err != nil {
			rt.Fatalf("%v\nPublic() of the copy via %v: %v", c, r, err)
		}
		c.check(rt, fmt.Sprintf("Public() of the copy via %v", r), pubOfCopy, true)
		pr := drawRoute(rt, "public_route", publicRoutes)
		pub2 := through(rt, pc, "public keyset", pub, pr)
		c.check(rt, fmt.Sprintf("public keyset read back via %v", pr), pub2, true)
		if err := sameEntries(pub, pub2); err != nil {
			rt.Fatalf("%v\npublic keyset via %v: %v", c, pr, err)
		}
		orig.pub, cp.pub = pubOfCopy, pub2
		evid.Add("public_route/"+pr.mode+"/"+pr.format, 1)
	} else if _, err := c.h.Public(); err == nil {
		rt.Fatalf("%v\nPublic() of a keyset without private keys succeeded", c)
	}
	msg := gen.Bytes(rt, "msg", 200)
	ad := gen.Bytes(rt, "ad", 40)
	produceConsume(rt, pc, orig, cp, msg, ad)
	produceConsume(rt, pc, cp, orig, msg, ad)

	h := evid.NewH().S(c.cls.name).S(c.build).S(r.mode).S(r.format).I(int64(c.primary))
	for _, m := range c.members {
		h = h.S(m.url).B(m.value).I(int64(m.id)).I(int64(m.status)).I(int64(m.prefix))
		evid.Add("member/"+strings.Fields(m.desc)[0]+"/"+m.prefix.String()+"/"+m.status.String(), 1)
	}
	evid.Case(cls, true, h.Sum(), func() any { return map[string]any{"keyset": c.String(), "route": r.String()} })
}
