// Package c12 decides property C12: keys, parameters and keysets survive serialization unchanged.
//
//	TestKeyRoundTrip     every key type x parameters x variant x material: SerializeKey / ParseKey and
//	                     SerializeParameters / ParseParameters round trips, plus the independent field
//	                     table of fields_test.go and the alternative big-integer encodings.
//	TestKeysetRoundTrip  keysets of 1..5 keys through every writer / reader pair, Public(), and primitive
//	                     interoperability between the original handle and the copy (keyset_test.go).
//
// Finding signatures consulted through kf.Listed("C12", sig):
//
//	jwt-custom-kid-parameters-lossy:<JwtType>   SerializeParameters of JWT parameters with kid strategy
//	    CUSTOM yields the template of IGNORED-kid parameters (output prefix RAW, no field for the
//	    strategy): ParseParameters(SerializeParameters(p)) is not Equal to p.
//	jwt-custom-kid-parameters-lossy:PrfBasedDeriver   the same loss seen through a deriver key whose
//	    derived-key parameters are such JWT parameters (the deriver's key format embeds their template):
//	    neither the key nor its parameters round-trip to an Equal object.
//	Both are excused only in exactly that shape: the parsed object re-serializes to the same bytes and
//	carries no ID requirement.
package c12

import (
	"bytes"
	"fmt"
	"testing"

	"google.golang.org/protobuf/proto"
	"pgregory.net/rapid"

	"github.com/tink-crypto/tink-go/v2/internal/protoserialization"
	"github.com/tink-crypto/tink-go/v2/key"
	tinkpb "github.com/tink-crypto/tink-go/v2/proto/tink_go_proto"
	"github.com/tink-crypto/tink-go/v2/verifharness/internal/detrand"
	"github.com/tink-crypto/tink-go/v2/verifharness/internal/evid"
	"github.com/tink-crypto/tink-go/v2/verifharness/internal/gen"
	"github.com/tink-crypto/tink-go/v2/verifharness/internal/keys"
	"github.com/tink-crypto/tink-go/v2/verifharness/internal/kf"
)

const propID = "C12"

func TestMain(m *testing.M) {
	registerFallbackTypes() // harness key managers + fake KMS client, for keysets of key types without a parser
	evid.Main(m)
}

// knownOrFail fails the case unless the coordinator has listed the finding signature.
func knownOrFail(rt *rapid.T, sig, msg string) {
	if kf.Listed(propID, sig) {
		kf.Report(propID, sig)
		evid.Add("excluded_known", 1)
		evid.Add("excluded_known/"+sig, 1)
		return
	}
	rt.Fatalf("%s", msg)
}

func detMarshal(m proto.Message) []byte {
	b, err := proto.MarshalOptions{Deterministic: true}.Marshal(m)
	if err != nil {
		panic(err)
	}
	return b
}

// infoPrefixType is the output prefix type the harness expects for a generated key.
func infoPrefixType(i *keys.Info) tinkpb.OutputPrefixType { return wantPrefixType(i.Variant) }

// materialHash fingerprints a case: type, description (all parameters) and the material.
func materialHash(i *keys.Info) evid.H {
	h := evid.NewH().S(i.Type).S(i.Desc)
	for _, s := range i.Secrets {
		h = h.B(s)
	}
	return h
}

func outputPrefixOf(k key.Key) ([]byte, bool) {
	op, ok := k.(interface{ OutputPrefix() []byte })
	if !ok {
		return nil, false
	}
	return op.OutputPrefix(), true
}

// roundTripKey runs the key part of C12 for one key object (private/symmetric or public).
// It returns false when the key is (legitimately) not serializable.
func roundTripKey(rt *rapid.T, info *keys.Info, k key.Key, public bool) bool {
	what := "key"
	if public {
		what = "public key"
	}
	desc := fmt.Sprintf("%s [%s]", info.Desc, what)
	ks, err := protoserialization.SerializeKey(k)
	if err != nil {
		// "Not serializable" is allowed only as a clean error, and only for the keys whose parameters the
		// proto format cannot represent (keys.Info.NoSerialization is that exact list) - whether or not a
		// primitive can be built from the key.
		if !info.NoSerialization {
			rt.Fatalf("%s: SerializeKey refuses a key whose parameters the proto format can represent: %v", desc, err)
		}
		evid.Add("not_serializable/"+info.Type, 1)
		return false
	}
	if ks == nil || ks.KeyData() == nil {
		rt.Fatalf("%s: SerializeKey returned nil without error", desc)
	}
	if info.NoSerialization {
		evid.Add("serializable_although_flagged/"+info.Type, 1)
	}
	// --- envelope: prefix type, ID requirement
	if got, want := ks.OutputPrefixType(), infoPrefixType(info); got != want {
		rt.Fatalf("%s: serialized output prefix type %v, the key was generated with variant %s (%v)", desc, got, info.Variant, want)
	}
	if id, has := ks.IDRequirement(); id != info.ID || has != info.HasID {
		rt.Fatalf("%s: serialization has ID requirement (%#x,%v), the key was generated with (%#x,%v)", desc, id, has, info.ID, info.HasID)
	}
	// --- independent field table
	checkKeyData(&fc{t: rt, desc: desc, path: ""}, info.Type, info.Fields, ks.KeyData(), public)

	// --- round trip
	first := proto.Clone(ks.KeyData()).(*tinkpb.KeyData)
	k2, err := protoserialization.ParseKey(ks)
	if err != nil {
		rt.Fatalf("%s: ParseKey of the key's own serialization (value %x): %v", desc, first.GetValue(), err)
	}
	if _, fb := k2.(*protoserialization.FallbackProtoKey); fb {
		rt.Fatalf("%s: parsed into a FallbackProtoKey", desc)
	}
	if _, fb := k2.(*protoserialization.FallbackProtoPrivateKey); fb {
		rt.Fatalf("%s: parsed into a FallbackProtoPrivateKey", desc)
	}
	if !k2.Equal(k) || !k.Equal(k2) {
		if info.Lossy && info.Type == "PrfBasedDeriver" && !public {
			// Derived-key parameters of a JWT type with kid strategy CUSTOM: the deriver's key format embeds
			// their template, which is the template of IGNORED-kid parameters (same root cause as the listed
			// jwt-custom-kid-parameters-lossy:<JwtType>).  Excused only in exactly that shape: the parsed key
			// serializes to the same bytes again, has the same ID requirement and PRF key, and its derived
			// parameters carry no ID requirement.
			ks2, err := protoserialization.SerializeKey(k2)
			id2, has2 := k2.IDRequirement()
			if err != nil || !proto.Equal(ks2.KeyData(), first) || has2 || id2 != 0 || info.HasID || k2.Parameters().HasIDRequirement() {
				rt.Fatalf("%s: parse(serialize(key)) is not Equal to the key, and not in the shape of the known custom-kid loss (reserialization err %v, ID requirement (%#x,%v)) (value %x)", desc, err, id2, has2, first.GetValue())
			}
			knownOrFail(rt, "jwt-custom-kid-parameters-lossy:PrfBasedDeriver", fmt.Sprintf(
				"%s: parse(serialize(key)) is not Equal to the key: the derived-key parameters have kid strategy CUSTOM, their template parses back as IGNORED (value %x)", desc, first.GetValue()))
			return true
		}
		rt.Fatalf("%s: parse(serialize(key)) is not Equal to the key (value %x)", desc, first.GetValue())
	}
	if info.Lossy {
		evid.Add("round_trips_although_flagged_lossy/"+info.Type, 1)
	}
	if k2.Parameters() == nil || !k2.Parameters().Equal(k.Parameters()) || !k.Parameters().Equal(k2.Parameters()) {
		rt.Fatalf("%s: parameters of parse(serialize(key)) are not Equal to the key's parameters", desc)
	}
	id1, has1 := k.IDRequirement()
	id2, has2 := k2.IDRequirement()
	if id1 != id2 || has1 != has2 || id1 != info.ID || has1 != info.HasID || k2.Parameters().HasIDRequirement() != info.HasID {
		rt.Fatalf("%s: ID requirement (%#x,%v) became (%#x,%v); generated with (%#x,%v)", desc, id1, has1, id2, has2, info.ID, info.HasID)
	}
	if p1, ok := outputPrefixOf(k); ok {
		p2, _ := outputPrefixOf(k2)
		if !bytes.Equal(p1, p2) || !bytes.Equal(p1, info.OutputPrefix()) {
			rt.Fatalf("%s: output prefix %x became %x; harness table says %x", desc, p1, p2, info.OutputPrefix())
		}
	}
	if !proto.Equal(ks.KeyData(), first) {
		// a C19 matter (c19.TestParsersAndSerializersDoNotAlias); the comparisons here use the copy `first`
		evid.Add("observed_not_asserted/C19_input_modified", 1)
	}
	ks2, err := protoserialization.SerializeKey(k2)
	if err != nil {
		rt.Fatalf("%s: SerializeKey of the parsed key: %v", desc, err)
	}
	id3, has3 := ks2.IDRequirement()
	if !proto.Equal(ks2.KeyData(), first) || !bytes.Equal(ks2.KeyData().GetValue(), first.GetValue()) ||
		!bytes.Equal(detMarshal(ks2.KeyData()), detMarshal(first)) || ks2.OutputPrefixType() != ks.OutputPrefixType() ||
		id3 != info.ID || has3 != info.HasID || !ks2.Equal(ks) {
		rt.Fatalf("%s: second serialization differs from the first:\n first  %x (%v)\n second %x (%v, id %#x)", desc,
			first.GetValue(), ks.OutputPrefixType(), ks2.KeyData().GetValue(), ks2.OutputPrefixType(), id3)
	}
	// the serializer is a function of the key: serializing the ORIGINAL again gives the same bytes
	ks3, err := protoserialization.SerializeKey(k)
	if err != nil || !bytes.Equal(ks3.KeyData().GetValue(), first.GetValue()) {
		rt.Fatalf("%s: serializing the same key twice gives different values (%v)", desc, err)
	}

	// --- alternative encodings of the big integers parse to the same key
	n := 0
	for _, alt := range altEncodings(info.Type, info.Fields, first.GetValue(), public) {
		n++
		kd := &tinkpb.KeyData{TypeUrl: first.GetTypeUrl(), KeyMaterialType: first.GetKeyMaterialType(), Value: alt.value}
		aks, err := protoserialization.NewKeySerialization(kd, ks.OutputPrefixType(), info.ID)
		if err != nil {
			rt.Fatalf("%s: NewKeySerialization: %v", desc, err)
		}
		ak, err := protoserialization.ParseKey(aks)
		if err != nil {
			// C12 speaks about what the library's own serializer wrote; that a parser also reads the other
			// equally valid encodings of the same integers is not in the text: counted, not asserted.
			evid.Add("observed_not_asserted/alt_encoding_refused/"+info.Type+"/"+what+"/"+alt.name, 1)
			continue
		}
		// The parsed key is a key of the type like any other: C12 holds for it.
		aks2, err := protoserialization.SerializeKey(ak)
		if err != nil {
			rt.Fatalf("%s: key parsed from the %s encoding cannot be serialized: %v\n value %x", desc, alt.name, err, alt.value)
		}
		ak2, err := protoserialization.ParseKey(aks2)
		if err != nil || !ak2.Equal(ak) || !ak.Equal(ak2) {
			rt.Fatalf("%s: key parsed from the %s encoding does not survive its own round trip (%v)\n value %x", desc, alt.name, err, alt.value)
		}
		if aks3, err := protoserialization.SerializeKey(ak2); err != nil || !bytes.Equal(aks3.KeyData().GetValue(), aks2.KeyData().GetValue()) {
			rt.Fatalf("%s: key parsed from the %s encoding: second serialization differs from the first (%v)\n value %x", desc, alt.name, err, alt.value)
		}
		// All encodings denote the same integers, hence the same key.  For the EC key types the parsers
		// document the tolerance (b/264525021) and normalise; the check is strict there.  The RSA parsers
		// of some types keep the modulus bytes verbatim, so that the same key read from a writer with
		// another leading-zero policy is not Equal: counted, not failed (C12 speaks about round trips).
		same := ak.Equal(k) && k.Equal(ak) && bytes.Equal(aks2.KeyData().GetValue(), first.GetValue())
		if !same {
			if alt.strict {
				rt.Fatalf("%s: the %s encoding of the key's integers parses to a key that is not Equal / does not serialize canonically\n value %x", desc, alt.name, alt.value)
			}
			evid.Add("alt_encoding_not_normalised/"+info.Type+"/"+what+"/"+alt.name, 1)
		}
	}
	evid.Add("alt_encodings", int64(n))
	return true
}

// roundTripParameters runs the parameters part.
func roundTripParameters(rt *rapid.T, info *keys.Info) bool {
	p := info.Key.Parameters()
	desc := info.Desc + " [parameters]"
	if p == nil {
		rt.Fatalf("%s: Parameters() is nil", desc)
	}
	tmpl, err := protoserialization.SerializeParameters(p)
	if err != nil {
		if !info.NoSerialization {
			rt.Fatalf("%s: SerializeParameters refuses parameters the proto format can represent: %v", desc, err)
		}
		evid.Add("parameters_not_serializable/"+info.Type, 1)
		return false
	}
	if tmpl == nil {
		rt.Fatalf("%s: SerializeParameters returned nil without error", desc)
	}
	first := proto.Clone(tmpl).(*tinkpb.KeyTemplate)
	checkTemplate(&fc{t: rt, desc: desc}, info.Type, info.Fields, tmpl, true)
	p2, err := protoserialization.ParseParameters(tmpl)
	if err != nil {
		if info.NoSerialization {
			// e.g. RSA-SSA-PSS salt length 0: the key serializer refuses it; a parameters serializer that
			// lets it through while the parser refuses is still "not serializable, cleanly".
			evid.Add("parameters_not_parseable/"+info.Type, 1)
			return false
		}
		rt.Fatalf("%s: ParseParameters of the parameters' own serialization (%x): %v", desc, first.GetValue(), err)
	}
	if !p2.Equal(p) || !p.Equal(p2) || p2.HasIDRequirement() != info.HasID {
		if ks, _ := info.Fields["kid_strategy"].(string); ks == keys.KIDCustom || (info.Type == "PrfBasedDeriver" && info.Lossy) {
			// (a PrfBasedDeriver is Lossy when its derived-key parameters are such JWT parameters)
			// The JWT key formats have no field for "the key will carry a custom kid": the template of
			// CUSTOM-kid parameters is the template of IGNORED-kid parameters.  Only exactly that loss is
			// excused: the parsed parameters serialize to the same template again and carry no ID requirement.
			tmpl2, err := protoserialization.SerializeParameters(p2)
			if err != nil || !proto.Equal(tmpl2, first) || p2.HasIDRequirement() || info.HasID {
				rt.Fatalf("%s: parse(serialize(parameters)) is not Equal, and not in the shape of the known custom-kid loss (reserialization err %v, same template %v, HasIDRequirement %v) (template value %x)",
					desc, err, err == nil && proto.Equal(tmpl2, first), p2.HasIDRequirement(), first.GetValue())
			}
			knownOrFail(rt, "jwt-custom-kid-parameters-lossy:"+info.Type, fmt.Sprintf(
				"%s: parse(serialize(parameters)) is not Equal: the kid strategy CUSTOM is serialized as output prefix RAW and parsed back as IGNORED (template value %x)", desc, first.GetValue()))
			return false
		}
		rt.Fatalf("%s: parse(serialize(parameters)) is not Equal (template value %x, prefix %v)", desc, first.GetValue(), first.GetOutputPrefixType())
	}
	tmpl2, err := protoserialization.SerializeParameters(p2)
	if err != nil {
		rt.Fatalf("%s: SerializeParameters of the parsed parameters: %v", desc, err)
	}
	if !proto.Equal(tmpl2, first) || !bytes.Equal(tmpl2.GetValue(), first.GetValue()) || !bytes.Equal(detMarshal(tmpl2), detMarshal(first)) {
		rt.Fatalf("%s: second parameters serialization differs:\n first  %x %v\n second %x %v", desc, first.GetValue(), first.GetOutputPrefixType(), tmpl2.GetValue(), tmpl2.GetOutputPrefixType())
	}
	if !proto.Equal(tmpl, first) {
		// a C19 matter; the comparisons above use the copy `first`
		evid.Add("observed_not_asserted/C19_input_modified", 1)
	}
	return true
}

// TestKeyRoundTrip: C12 first sentence, for every key type (private AND public key objects).
func TestKeyRoundTrip(t *testing.T) {
	rapid.Check(t, func(rt *rapid.T) {
		detrand.Seed(rapid.Uint64().Draw(rt, "entropy"))
		// uniformly over the 29 key types (drawing the class first would starve the 7 signature types)
		info := keys.DrawType(rt, "key", gen.Pick(rt, "type", keys.AllTypes()))
		ok := roundTripKey(rt, info, info.Key, false)
		if info.Public != nil {
			okPub := roundTripKey(rt, info, info.Public, true)
			if ok != okPub {
				// not in the property text (each key object either serializes or is refused cleanly)
				evid.Add("observed_not_asserted/private_public_serializable_differ/"+info.Type, 1)
			}
		}
		okParams := roundTripParameters(rt, info)
		cls := info.Type + "/" + info.Variant
		if !ok {
			cls += "/not-serializable"
		}
		evid.Case(cls, ok || okParams, materialHash(info).Sum(), func() any {
			return map[string]any{"key": info.Desc, "serializable": ok, "parameters_serializable": okParams}
		})
	})
}
