package c12

import (
	"context"
	"fmt"
	"testing"

	"pgregory.net/rapid"

	"github.com/tink-crypto/tink-go/v2/insecurecleartextkeyset"
	"github.com/tink-crypto/tink-go/v2/internal/internalapi"
	"github.com/tink-crypto/tink-go/v2/key"
	"github.com/tink-crypto/tink-go/v2/keyset"
	"github.com/tink-crypto/tink-go/v2/testkeyset"
	"github.com/tink-crypto/tink-go/v2/verifharness/internal/detrand"
	"github.com/tink-crypto/tink-go/v2/verifharness/internal/evid"
	"github.com/tink-crypto/tink-go/v2/verifharness/internal/keys"
	"github.com/tink-crypto/tink-go/v2/verifharness/internal/tk"
)

// TestKeysetsWithoutProtoForm: "a keyset handle written with any writer ... and read back has the
// same keys, IDs, statuses, primary and order" - for the handles TestKeysetRoundTrip has to leave
// out: those with a member whose key object is valid (its constructors accept it, a Manager takes
// it) but has no proto form (AES-GCM with an IV size other than 12 or a tag size other than 16,
// RSA-SSA-PSS with salt length 0: SerializeKey refuses them).
//
// Oracle, nothing more than the sentence says: per route, EITHER the write reports an error - then
// nothing was written and the sentence is silent - OR it reports success, and then the written
// form reads back to a handle with the same entries.  A write that reports success and leaves a
// document that does not read back (or reads back to other keys) is the violation.
func TestKeysetsWithoutProtoForm(t *testing.T) {
	rapid.Check(t, func(rt *rapid.T) {
		detrand.Seed(rapid.Uint64().Draw(rt, "entropy"))
		typ := rapid.SampledFrom([]string{"AesGcm", "RsaSsaPss"}).Draw(rt, "unserializable_type")
		var odd *keys.Info
		for i := 0; i < 24 && odd == nil; i++ {
			if k := keys.DrawType(rt, fmt.Sprintf("odd%d", i), typ); k.NoSerialization {
				odd = k
			}
		}
		if odd == nil {
			rt.Skip("no key without proto form drawn")
		}
		class := keys.ClassOf(typ)
		n := rapid.IntRange(1, 3).Draw(rt, "members")
		pos := rapid.IntRange(0, n-1).Draw(rt, "position_of_unserializable")
		primary := rapid.IntRange(0, n-1).Draw(rt, "primary")
		mgr := keyset.NewManager()
		desc := ""
		used := map[uint32]bool{}
		for j := 0; j < n; j++ {
			info := odd
			if j != pos {
				info = keys.DrawUsable(rt, fmt.Sprintf("m%d", j), class)
			}
			if info.HasID {
				if used[info.ID] {
					rt.Skip("ID collision")
				}
				used[info.ID] = true
			}
			opts := []keyset.KeyOpts{}
			if j == primary {
				opts = append(opts, keyset.AsPrimary())
			}
			id, err := mgr.AddKeyWithOpts(info.Key, internalapi.Token{}, opts...)
			if err != nil {
				if info.HasID {
					rt.Skip("a random ID collides with a required ID")
				}
				rt.Fatalf("AddKeyWithOpts(%s): %v", info.Desc, err)
			}
			desc += fmt.Sprintf("\n  #%d id=%#x %s", j, id, info.Desc)
		}
		h, err := mgr.Handle()
		if err != nil {
			rt.Fatalf("Manager.Handle:%s\n%v", desc, err)
		}
		modes := []string{"cleartext", "testkeyset", "encrypted", "encrypted-ad", "encrypted-ctx"}
		// the public-only route exists for the asymmetric type: Public() works on key objects and needs no
		// proto form; the public key with salt length 0 has none either
		var pub *keyset.Handle
		if odd.Public != nil {
			if pub, err = h.Public(); err != nil {
				rt.Fatalf("keyset%s\nPublic(): %v", desc, err)
			}
			if pub.Len() != h.Len() {
				rt.Fatalf("keyset%s\nPublic() has %d entries, the handle %d", desc, pub.Len(), h.Len())
			}
			for i := 0; i < pub.Len(); i++ {
				pe, _ := pub.Entry(i)
				he, _ := h.Entry(i)
				want, perr := he.Key().(interface{ PublicKey() (key.Key, error) }).PublicKey()
				if perr != nil || !pe.Key().Equal(want) || pe.KeyID() != he.KeyID() || pe.KeyStatus() != he.KeyStatus() || pe.IsPrimary() != he.IsPrimary() {
					rt.Fatalf("keyset%s\nPublic(): entry %d does not hold the matching public key (%v)", desc, i, perr)
				}
			}
			modes = append(modes, "public-nosecrets", "public-cleartext")
		}
		for _, mode := range modes {
			r := route{mode: mode, format: rapid.SampledFrom(formats).Draw(rt, mode+"_format")}
			if mode != "cleartext" && mode != "testkeyset" {
				rr := drawRoute(rt, mode, []string{mode})
				rr.format = r.format
				r = rr
			}
			tr := &transport{format: r.format}
			w := tr.writer()
			var werr error
			var read func() (*keyset.Handle, error)
			written := h
			switch mode {
			case "public-nosecrets":
				written = pub
				werr = pub.WriteWithNoSecrets(w)
				read = func() (*keyset.Handle, error) { return keyset.ReadWithNoSecrets(tr.reader()) }
			case "public-cleartext":
				written = pub
				werr = insecurecleartextkeyset.Write(pub, w)
				read = func() (*keyset.Handle, error) { return insecurecleartextkeyset.Read(tr.reader()) }
			case "cleartext":
				werr = insecurecleartextkeyset.Write(h, w)
				read = func() (*keyset.Handle, error) { return insecurecleartextkeyset.Read(tr.reader()) }
			case "testkeyset":
				werr = testkeyset.Write(h, w)
				read = func() (*keyset.Handle, error) { return testkeyset.Read(tr.reader()) }
			case "encrypted":
				werr = h.Write(w, r.kek)
				read = func() (*keyset.Handle, error) { return keyset.Read(tr.reader(), r.kek) }
			case "encrypted-ad":
				werr = h.WriteWithAssociatedData(w, r.kek, r.ad)
				read = func() (*keyset.Handle, error) { return keyset.ReadWithAssociatedData(tr.reader(), r.kek, r.ad) }
			case "encrypted-ctx":
				werr = h.WriteWithContext(context.Background(), w, tk.CtxAEAD(r.kek), r.ad)
				read = func() (*keyset.Handle, error) {
					return keyset.ReadWithContext(context.Background(), tr.reader(), tk.CtxAEAD(r.kek), r.ad)
				}
			}
			if werr != nil {
				// A refused write must not leave a document behind that reads back to OTHER keys (e.g. the
				// keyset without the member that has no proto form): whatever a reader accepts was written.
				back, rerr := func() (hh *keyset.Handle, err error) {
					defer func() {
						if p := recover(); p != nil {
							hh, err = nil, fmt.Errorf("reader panicked: %v", p)
						}
					}()
					return read()
				}()
				switch {
				case rerr != nil:
					evid.Add("unwritable/"+mode+"/refused-nothing-readable", 1)
				case sameEntries(written, back) == nil:
					evid.Add("unwritable/"+mode+"/refused-but-complete-document-left", 1)
				default:
					rt.Fatalf("keyset%s\nroute %v: the write was refused (%v), but the transport holds %d bytes that read back to a handle with other entries: %v", desc, r, werr, tr.buf.Len(), sameEntries(written, back))
				}
				continue
			}
			back, rerr := read()
			if rerr != nil {
				rt.Fatalf("keyset%s\nroute %v: the write reported success, but what it wrote (%d bytes) does not read back: %v", desc, r, tr.buf.Len(), rerr)
			}
			if err := sameEntries(written, back); err != nil {
				rt.Fatalf("keyset%s\nroute %v: the write reported success, but the handle read back differs: %v", desc, r, err)
			}
			evid.Add("unwritable/"+mode+"/written-and-read-back", 1)
		}
		evid.Case(fmt.Sprintf("keyset-without-proto-form/%s/members=%d", typ, n), true, evid.NewH().S(desc).Sum(), func() any { return desc })
	})
}
