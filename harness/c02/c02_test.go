// Package c02 decides property C02: AEAD never releases plaintext for a ciphertext it did not
// produce, and no input makes Encrypt or Decrypt panic.
package c02

import (
	"bytes"
	"encoding/binary"
	"fmt"
	"testing"

	"pgregory.net/rapid"

	"github.com/tink-crypto/tink-go/v2/aead"
	aeadsubtle "github.com/tink-crypto/tink-go/v2/aead/subtle"
	"github.com/tink-crypto/tink-go/v2/keyset"
	tinkpb "github.com/tink-crypto/tink-go/v2/proto/tink_go_proto"
	"github.com/tink-crypto/tink-go/v2/tink"
	"github.com/tink-crypto/tink-go/v2/verifharness/internal/aeadcase"
	"github.com/tink-crypto/tink-go/v2/verifharness/internal/detrand"
	"github.com/tink-crypto/tink-go/v2/verifharness/internal/evid"
	"github.com/tink-crypto/tink-go/v2/verifharness/internal/gen"
	"github.com/tink-crypto/tink-go/v2/verifharness/internal/tk"
)

func TestMain(m *testing.M) { evid.Main(m) }

type rejecter struct {
	t      *rapid.T
	p      tink.AEAD
	desc   string
	valid  [][2][]byte // (ciphertext, ad) pairs known to be genuine
	n      int
	byKind map[string]int
}

func sameAD(a, b []byte) bool { return bytes.Equal(a, b) } // nil and empty are the same AD

// mustReject asserts Decrypt(cand, ad) fails and releases nothing.
func (r *rejecter) mustReject(kind string, cand, ad []byte) {
	for _, v := range r.valid {
		if bytes.Equal(v[0], cand) && sameAD(v[1], ad) {
			return // the operator reproduced a genuine pair; not a modification
		}
	}
	r.n++
	r.byKind[kind]++
	pt, err := r.p.Decrypt(cand, ad)
	if err == nil {
		r.t.Fatalf("%s: candidate kind=%s ct=%s ad=%s was ACCEPTED, plaintext %s", r.desc, kind, gen.Hex(cand), gen.Hex(ad), gen.Hex(pt))
	}
	if len(pt) != 0 {
		r.t.Fatalf("%s: candidate kind=%s rejected with %v but %d plaintext bytes were returned", r.desc, kind, err, len(pt))
	}
}

func flipBit(b []byte, bit int) []byte {
	out := append([]byte{}, b...)
	out[bit/8] ^= 1 << (bit % 8)
	return out
}

// systematic applies every mutation class of the property to one genuine (ct, ad).
func systematic(t *rapid.T, r *rejecter, c *aeadcase.Case, ct, ad []byte) {
	plen := len(c.Prefix())
	// bit flips
	if len(ct) <= 96 {
		for bit := 0; bit < len(ct)*8; bit++ {
			r.mustReject("flip-all", flipBit(ct, bit), ad)
		}
	} else {
		regions := [][2]int{{0, plen}, {plen, plen + c.NonceLen}, {plen + c.NonceLen, len(ct) - c.TagSize}}
		for i, reg := range regions {
			if reg[1] > reg[0] {
				bit := rapid.IntRange(reg[0]*8, reg[1]*8-1).Draw(t, fmt.Sprintf("bit_region%d", i))
				r.mustReject(fmt.Sprintf("flip-region%d", i), flipBit(ct, bit), ad)
			}
		}
		for i := len(ct) - c.TagSize; i < len(ct); i++ { // every tag byte
			r.mustReject("flip-tagbyte", flipBit(ct, i*8+rapid.IntRange(0, 7).Draw(t, "tagbit")), ad)
		}
	}
	// truncation
	if len(ct) <= 160 {
		for cut := 0; cut < len(ct); cut++ {
			r.mustReject("truncate-all", ct[:cut], ad)
		}
	} else {
		cuts := []int{0, 1, plen - 1, plen, plen + 1, plen + c.NonceLen - 1, plen + c.NonceLen, plen + c.NonceLen + c.TagSize - 1, plen + c.NonceLen + c.TagSize, len(ct) - c.TagSize, len(ct) - 1}
		cuts = append(cuts, rapid.IntRange(0, len(ct)-1).Draw(t, "cut"))
		for _, cut := range cuts {
			if cut >= 0 && cut < len(ct) {
				r.mustReject("truncate", ct[:cut], ad)
			}
		}
		r.mustReject("drop-first-body-byte", append(append([]byte{}, ct[:plen+c.NonceLen]...), ct[plen+c.NonceLen+1:]...), ad)
	}
	// extension
	sfx := rapid.SliceOfN(rapid.Byte(), 1, 32).Draw(t, "suffix")
	r.mustReject("append", append(append([]byte{}, ct...), sfx...), ad)
	r.mustReject("append-zero", append(append([]byte{}, ct...), 0), ad)
	r.mustReject("prepend-zero", append([]byte{0}, ct...), ad)
	// prefixes
	body := ct[plen:]
	if plen > 0 {
		r.mustReject("prefix-dropped", body, ad)
		for _, v := range []string{tk.Tink, tk.Crunchy} {
			if v != c.Variant {
				r.mustReject("prefix-of-"+v, append(tk.Prefix(v, c.ID), body...), ad)
			}
		}
		r.mustReject("prefix-other-id", append(tk.Prefix(c.Variant, c.ID+1), body...), ad)
		r.mustReject("prefix-other-id", append(tk.Prefix(c.Variant, c.ID^0x80000000), body...), ad)
		r.mustReject("prefix-doubled", append(append([]byte{}, ct[:plen]...), ct...), ad)
	} else {
		r.mustReject("prefix-added", append(tk.Prefix(tk.Tink, gen.KeyID(t, "addid")), ct...), ad)
	}
	// associated data
	am := gen.Mutate(t, "ad", ad)
	r.mustReject("ad-"+am.Kind, ct, am.Out)
	if len(ad) > 0 {
		r.mustReject("ad-dropped", ct, nil)
		r.mustReject("ad-extended-zero", ct, append(append([]byte{}, ad...), 0))
	} else {
		r.mustReject("ad-added", ct, []byte{0})
	}
	// ad bytes moved into the ciphertext and vice versa (encrypt-then-MAC boundary confusion)
	if len(ad) > 0 {
		r.mustReject("ad-shifted-into-ct", append(append(append([]byte{}, ct[:plen]...), ad[len(ad)-1]), ct[plen:]...), ad[:len(ad)-1])
	}
}

func TestAEADRejects(t *testing.T) {
	rapid.Check(t, func(rt *rapid.T) {
		detrand.Seed(rapid.Uint64().Draw(rt, "entropy"))
		// All construction routes, among them the two that hand out the per-key primitive itself
		// ("fullprim": the prefix-aware object the keyset wrapper calls; "keymanager": the registry's
		// raw primitive): what a failing Decrypt RETURNS is observed there without a wrapper that
		// replaces it by nil.
		c := aeadcase.DrawRoutes(rt, aeadcase.RoutesAll)
		maxpt := 64
		if rapid.IntRange(0, 4).Draw(rt, "long") == 0 {
			maxpt = 2048
		}
		pt := gen.BytesOrNil(rt, "pt", maxpt)
		if n, big := aeadcase.BigLen(rt, "pt", 200); big {
			// size class (page / buffer boundaries, 1 MiB); the long-ciphertext operator set applies
			pt = gen.BytesN(rt, "bigpt", n)
			evid.Add("size_class_cases", 1)
		}
		ad := gen.BytesOrNil(rt, "ad", 128)
		ct, err := c.P.Encrypt(pt, ad)
		if err != nil {
			rt.Fatalf("%v: Encrypt: %v", c, err)
		}
		ct2, err := c.P.Encrypt(pt, ad)
		if err != nil {
			rt.Fatalf("%v: Encrypt: %v", c, err)
		}
		r := &rejecter{t: rt, p: c.P, desc: fmt.Sprintf("%v pt=%s", c, gen.Hex(pt)), valid: [][2][]byte{{ct, ad}, {ct2, ad}}, byKind: map[string]int{}}
		if got, err := c.P.Decrypt(ct, ad); err != nil || !bytes.Equal(got, pt) {
			rt.Fatalf("%s: genuine ciphertext not accepted: %v", r.desc, err)
		}
		systematic(rt, r, c, ct, ad)
		// splice: nonce of one ciphertext with body/tag of the other
		plen := len(c.Prefix())
		if !bytes.Equal(ct, ct2) {
			r.mustReject("splice-nonce", append(append([]byte{}, ct[:plen+c.NonceLen]...), ct2[plen+c.NonceLen:]...), ad)
			r.mustReject("splice-tag", append(append([]byte{}, ct[:len(ct)-c.TagSize]...), ct2[len(ct2)-c.TagSize:]...), ad)
		}
		// another key, same parameters, same prefix
		sib := c.Sibling(rt)
		sct, err := sib.P.Encrypt(pt, ad)
		if err != nil {
			rt.Fatalf("sibling Encrypt: %v", err)
		}
		r.mustReject("other-key", sct, ad)
		// reference-made ciphertext under another key with the right prefix
		r.mustReject("other-key-ref", append(c.Prefix(), sib.RefSeal(gen.BytesN(rt, "sibnonce", c.NonceLen), pt, ad)...), ad)
		// another type's ciphertext behind this key's prefix
		other := aeadcase.Draw(rt)
		oct, err := other.P.Encrypt(pt, ad)
		if err != nil {
			rt.Fatalf("other Encrypt: %v", err)
		}
		cand := append(c.Prefix(), oct[len(other.Prefix()):]...)
		if _, rerr := c.RefOpenFull(cand, ad); rerr != nil { // (equal only if key, type and sizes coincide)
			r.mustReject("other-type", cand, ad)
		}
		// arbitrary byte strings, with and without a valid prefix, around the minimum length
		for i := 0; i < 6; i++ {
			n := rapid.IntRange(0, plen+c.Overhead()+8).Draw(rt, "rndlen")
			b := gen.BytesN(rt, "rnd", n)
			if _, rerr := c.RefOpenFull(b, ad); rerr != nil {
				r.mustReject("random-short", b, ad)
			}
			wp := append(c.Prefix(), b...)
			if _, rerr := c.RefOpenFull(wp, ad); rerr != nil {
				r.mustReject("random-with-prefix", wp, ad)
			}
		}
		r.mustReject("empty", []byte{}, ad)
		r.mustReject("nil", nil, ad)
		evid.Add("reject_candidates", int64(r.n))
		for k, v := range r.byKind {
			evid.Add("kind_"+k, int64(v))
		}
		if sc := c.SubClass(); sc != "" {
			evid.Add("ctrhmac_product/"+sc, 1) // hash x IV size x tag class of the AES-CTR-HMAC cases
		}
		evid.Case(fmt.Sprintf("%s/pt=%s", c.Class(), gen.LenClass(len(pt))), true, evid.NewH().S(c.String()).B(pt).B(ad).Sum(), func() any {
			return map[string]any{"case": c.String(), "pt": gen.Hex(pt), "ad": gen.Hex(ad), "candidates": r.n}
		})
	})
}

// TestKeysetRejects runs the prefix map and the RAW fallback: multi-key keysets of mixed AEAD
// types and variants.
func TestKeysetRejects(t *testing.T) {
	rapid.Check(t, func(rt *rapid.T) {
		detrand.Seed(rapid.Uint64().Draw(rt, "entropy"))
		n := rapid.IntRange(2, 5).Draw(rt, "nkeys")
		m := keyset.NewManager()
		var members []*aeadcase.Case
		usedIDs := map[uint32]bool{}
		for i := 0; i < n; i++ {
			c := aeadcase.Draw(rt)
			if c.K == nil { // subtle route has no key object: rebuild as a key
				k, err := c.NewKey(tk.NoPrefix, 0)
				if err != nil {
					rt.Fatalf("NewKey: %v", err)
				}
				c.K = k
			}
			if c.Variant != tk.NoPrefix && usedIDs[c.ID] {
				continue
			}
			dup := false
			for _, o := range members { // key material must be unique inside the keyset
				if bytes.Equal(o.Key, c.Key) || (c.MacKey != nil && o.MacKey != nil && aeadcase.SameMacKey(o.MacKey, c.MacKey)) {
					dup = true
				}
			}
			if dup {
				continue
			}
			id, err := m.AddKey(c.K)
			if err != nil {
				continue // random id collided with a later fixed id: skip this member
			}
			usedIDs[id] = true
			members = append(members, c)
			if len(members) == 1 {
				if err := m.SetPrimary(id); err != nil {
					rt.Fatalf("SetPrimary: %v", err)
				}
			}
		}
		if len(members) < 2 {
			rt.Skip("not enough distinct members")
		}
		h, err := m.Handle()
		if err != nil {
			rt.Fatalf("Handle: %v", err)
		}
		w, err := aead.New(h)
		if err != nil {
			rt.Fatalf("aead.New: %v", err)
		}
		pt := gen.Bytes(rt, "pt", 64)
		ad := gen.BytesOrNil(rt, "ad", 40)
		r := &rejecter{t: rt, p: w, desc: fmt.Sprintf("keyset of %d keys", len(members)), byKind: map[string]int{}}
		var cts [][]byte
		for _, c := range members {
			ct, err := c.P.Encrypt(pt, ad)
			if err != nil {
				rt.Fatalf("member Encrypt: %v", err)
			}
			got, err := w.Decrypt(ct, ad)
			if err != nil || !bytes.Equal(got, pt) {
				rt.Fatalf("keyset primitive rejects ciphertext of enabled member %v: %v", c, err)
			}
			cts = append(cts, ct)
			r.valid = append(r.valid, [2][]byte{ct, ad})
			r.desc += "\n  member " + c.String()
		}
		for i, c := range members {
			ct := cts[i]
			// one bit in every region + every tag byte + truncations at the edges
			plen := len(c.Prefix())
			for _, bit := range []int{0, plen * 8, (plen + c.NonceLen) * 8, len(ct)*8 - 1} {
				if bit < len(ct)*8 {
					r.mustReject("member-flip", flipBit(ct, bit), ad)
				}
			}
			r.mustReject("member-flip-drawn", flipBit(ct, rapid.IntRange(0, len(ct)*8-1).Draw(rt, "bit")), ad)
			r.mustReject("member-truncate", ct[:len(ct)-1], ad)
			r.mustReject("member-extend", append(append([]byte{}, ct...), 0), ad)
			r.mustReject("member-ad", ct, append(append([]byte{}, ad...), 1))
			// body of member i under the prefix of member j
			for j, d := range members {
				if i != j && !bytes.Equal(d.Prefix(), c.Prefix()) {
					r.mustReject("cross-prefix", append(d.Prefix(), ct[plen:]...), ad)
				}
			}
			// foreign key with this member's prefix and parameters
			sib := c.Sibling(rt)
			foreign := true
			for _, o := range members {
				if bytes.Equal(o.Key, sib.Key) || (sib.MacKey != nil && o.MacKey != nil && aeadcase.SameMacKey(o.MacKey, sib.MacKey)) {
					foreign = false // the drawn sibling coincides with a member: not a foreign key
				}
			}
			if foreign {
				sct, err := sib.P.Encrypt(pt, ad)
				if err != nil {
					rt.Fatalf("sibling: %v", err)
				}
				r.mustReject("foreign-same-prefix", sct, ad)
			}
		}
		for i := 0; i < 4; i++ {
			r.mustReject("random", gen.BytesN(rt, "rnd", rapid.IntRange(0, 60).Draw(rt, "rndlen")), ad)
		}
		evid.Add("reject_candidates", int64(r.n))
		raw := 0
		for _, c := range members {
			if c.Variant == tk.NoPrefix {
				raw++
			}
		}
		evid.Case(fmt.Sprintf("keyset/keys=%d/raw=%d", len(members), raw), true, evid.NewH().S(r.desc).B(pt).B(ad).Sum(), func() any {
			return map[string]any{"keyset": r.desc, "candidates": r.n}
		})
	})
}

// TestEnvelopeRejects: KMS envelope length-field arithmetic and mutations, through both
// constructors and through the keyset / key-manager route (there also behind a TINK output prefix
// and in a keyset of two envelope keys for one KEK URI whose DEK templates are of different key
// types).
func TestEnvelopeRejects(t *testing.T) {
	tmpl := map[string]*tinkpb.KeyTemplate{
		"AES128GCM":     aead.AES128GCMKeyTemplate(),
		"AES256CTRHMAC": aead.AES256CTRHMACSHA256KeyTemplate(),
		"XCHACHA":       aead.XChaCha20Poly1305KeyTemplate(),
		"AES256GCMSIV":  aead.AES256GCMSIVKeyTemplate(),
	}
	names := []string{"AES128GCM", "AES256CTRHMAC", "XCHACHA", "AES256GCMSIV"}
	rapid.Check(t, func(rt *rapid.T) {
		detrand.Seed(rapid.Uint64().Draw(rt, "entropy"))
		kek := tk.Must(aeadsubtle.NewAESGCM(gen.BytesN(rt, "kek", 32)))
		kt := rapid.SampledFrom(names).Draw(rt, "dek")
		api := rapid.SampledFrom(tk.EnvelopeAPIsAll).Draw(rt, "api")
		shape := "-"
		if api == "keyset" {
			shape = rapid.SampledFrom([]string{"raw-template", "tink-prefix", "two-keys"}).Draw(rt, "shape")
		}
		var env tink.AEAD
		var err error
		var prefix, otherPrefix []byte
		var id uint32
		other := ""
		if shape == "-" || shape == "raw-template" {
			env, err = tk.Envelope(api, tmpl[kt], kek)
		} else {
			id = gen.KeyID(rt, "envid")
			keys := []tk.EnvelopeKey{{DEK: tmpl[kt], Prefix: tinkpb.OutputPrefixType_RAW, ID: id}}
			if shape == "tink-prefix" || rapid.Bool().Draw(rt, "first_tink") {
				keys[0].Prefix = tinkpb.OutputPrefixType_TINK
				prefix = tk.Prefix(tk.Tink, id)
			}
			primary := 0
			if shape == "two-keys" {
				// the second key's DEK template is of another key TYPE: two envelope keys for one KEK whose
				// DEK templates share the type (AES128GCM / AES256GCM) open each other's frames - each
				// parses the DEK by type only - so for them "another key's prefix" is not a foreign key
				var rest []string
				for _, x := range names {
					if x != kt {
						rest = append(rest, x)
					}
				}
				other = rapid.SampledFrom(rest).Draw(rt, "dek2")
				k2 := tk.EnvelopeKey{DEK: tmpl[other], Prefix: tinkpb.OutputPrefixType_TINK, ID: id + 1 + uint32(rapid.IntRange(0, 3).Draw(rt, "id2off"))}
				otherPrefix = tk.Prefix(tk.Tink, k2.ID)
				if rapid.Bool().Draw(rt, "second_first") {
					keys, primary = []tk.EnvelopeKey{k2, keys[0]}, 1
				} else {
					keys = append(keys, k2)
				}
			}
			uri, release := tk.KEKURI(kek)
			env, err = tk.EnvelopeFromURI(uri, primary, keys)
			release()
		}
		if err != nil {
			rt.Fatalf("envelope constructor %s (keyset shape %s) refuses the supported DEK template %s: %v", api, shape, kt, err)
		}
		pt := gen.Bytes(rt, "pt", 100)
		ad := gen.BytesOrNil(rt, "ad", 40)
		ct, err := env.Encrypt(pt, ad)
		if err != nil {
			rt.Fatalf("envelope Encrypt: %v", err)
		}
		r := &rejecter{t: rt, p: env, desc: fmt.Sprintf("envelope api=%s shape=%s prefix=%x dek=%s second-key(dek=%s prefix=%x) pt=%s", api, shape, prefix, kt, other, otherPrefix, gen.Hex(pt)), valid: [][2][]byte{{ct, ad}}, byKind: map[string]int{}}
		if got, err := env.Decrypt(ct, ad); err != nil || !bytes.Equal(got, pt) {
			rt.Fatalf("%s: genuine envelope rejected: %v", r.desc, err)
		}
		pl := len(prefix)
		if !bytes.HasPrefix(ct, prefix) || len(ct) < pl+4 {
			rt.Fatalf("%s: ciphertext %s does not start with the output prefix", r.desc, gen.Hex(ct))
		}
		frame := ct[pl:]
		n := int(binary.BigEndian.Uint32(frame[:4]))
		for _, v := range []uint32{0, 1, uint32(n - 1), uint32(n + 1), 4096, 4097, uint32(len(frame) - 4), uint32(len(frame) - 3), uint32(len(frame)), uint32(len(ct)), 1 << 31, 1<<31 - 1, 1<<32 - 1, uint32(rapid.Uint32().Draw(rt, "lenfield"))} {
			if int(v) == n {
				continue
			}
			cand := append(binary.BigEndian.AppendUint32(append([]byte{}, prefix...), v), frame[4:]...)
			r.mustReject("length-field", cand, ad)
		}
		if api == "keyset" && len(ct) <= 200 {
			// (the key manager hands out the aead2 object: every bit of the prefix and the length field,
			// one bit of every other byte)
			for bit := 0; bit < len(ct)*8; bit++ {
				if bit < (pl+4)*8 || bit%8 == (bit/8)%8 {
					r.mustReject("flip-all", flipBit(ct, bit), ad)
				}
			}
		} else if len(ct) <= 200 {
			for bit := 0; bit < len(ct)*8; bit++ {
				r.mustReject("flip-all", flipBit(ct, bit), ad)
			}
		} else {
			for i := 0; i < 24; i++ {
				r.mustReject("flip", flipBit(ct, rapid.IntRange(0, len(ct)*8-1).Draw(rt, "bit")), ad)
			}
		}
		for cut := 0; cut < len(ct); cut++ {
			r.mustReject("truncate-all", ct[:cut], ad)
		}
		r.mustReject("append", append(append([]byte{}, ct...), 7), ad)
		r.mustReject("ad", ct, append(append([]byte{}, ad...), 1))
		// headers only: every length below 8 with arbitrary content, bare and behind the prefix
		for l := 0; l < 8; l++ {
			tiny := gen.BytesN(rt, "tiny", l)
			r.mustReject("tiny", tiny, ad)
			if pl > 0 {
				r.mustReject("prefix+tiny", append(append([]byte{}, prefix...), tiny...), ad)
			}
		}
		// a DEK ciphertext that does not decrypt to a key of the template type: swap encDEK with garbage of same length
		garbage := gen.BytesN(rt, "garbage", n)
		r.mustReject("garbage-dek", append(append(append([]byte{}, ct[:pl+4]...), garbage...), ct[pl+4+n:]...), ad)
		// output prefixes (keyset route)
		if pl > 0 {
			r.mustReject("prefix-dropped", frame, ad)
			r.mustReject("prefix-of-CRUNCHY", append(tk.Prefix(tk.Crunchy, id), frame...), ad)
			r.mustReject("prefix-other-id", append(tk.Prefix(tk.Tink, id^0x80000000), frame...), ad)
			r.mustReject("prefix-doubled", append(append([]byte{}, prefix...), ct...), ad)
		} else if api == "keyset" {
			r.mustReject("prefix-added", append(tk.Prefix(tk.Tink, gen.KeyID(rt, "addid")), ct...), ad)
		}
		if other != "" {
			// the frame behind the other key's prefix: that key unwraps the DEK (same KEK) but reads it as a
			// key of another type (another algorithm on the payload: forgery bound of the shortest tag)
			r.mustReject("prefix-of-second-key", append(append([]byte{}, otherPrefix...), frame...), ad)
		}
		evid.Add("reject_candidates", int64(r.n))
		class := "envelope/" + api + "/" + kt
		if shape != "-" {
			class = fmt.Sprintf("envelope/%s:%s:prefix=%d/%s", api, shape, pl, kt)
		}
		evid.Case(class, true, evid.NewH().S(api).S(shape).S(kt).S(other).B(ct).Sum(), func() any {
			return map[string]any{"api": api, "shape": shape, "dek": kt, "second_dek": other, "pt": gen.Hex(pt), "candidates": r.n}
		})
	})
}

// FuzzAEADDecrypt: coverage-guided search with a differential oracle inside the target: whenever
// Tink releases plaintext, the independent implementation must open the same bytes to the same
// plaintext; no panics.
func FuzzAEADDecrypt(f *testing.F) {
	for sel := uint32(0); sel < 36; sel++ {
		c, err := aeadcase.FromBytes(sel, uint64(sel)*7919+1)
		if err != nil {
			continue
		}
		nonce := gen.Expand(uint64(sel)+99, c.NonceLen)
		ct := append(c.Prefix(), c.RefSeal(nonce, []byte("seed plaintext"), []byte("ad"))...)
		f.Add(sel, uint64(sel)*7919+1, ct, []byte("ad"))
		f.Add(sel, uint64(sel)*7919+1, ct[:len(ct)-1], []byte("ad"))
		f.Add(sel, uint64(sel)*7919+1, c.Prefix(), []byte{})
	}
	f.Add(uint32(0), uint64(1), []byte{}, []byte{})
	f.Fuzz(func(t *testing.T, sel uint32, seed uint64, ct, ad []byte) {
		c, err := aeadcase.FromBytes(sel, seed)
		if err != nil {
			t.Fatalf("construction of a documented configuration failed: sel=%d seed=%d: %v", sel, seed, err)
		}
		pt, err := c.P.Decrypt(ct, ad)
		rpt, rerr := c.RefOpenFull(ct, ad)
		if (err == nil) != (rerr == nil) {
			t.Fatalf("%v: ct=%x ad=%x: Tink err=%v, independent implementation err=%v", c, ct, ad, err, rerr)
		}
		if err == nil && !bytes.Equal(pt, rpt) {
			t.Fatalf("%v: ct=%x ad=%x: plaintexts differ: %x vs %x", c, ct, ad, pt, rpt)
		}
		if err != nil && len(pt) != 0 {
			t.Fatalf("%v: rejected with plaintext bytes", c)
		}
	})
}
