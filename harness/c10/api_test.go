package c10

import (
	"bytes"
	"crypto"
	"crypto/ecdsa"
	"crypto/ed25519"
	"crypto/elliptic"
	"crypto/rand"
	"crypto/rsa"
	"crypto/sha256"
	"crypto/sha512"
	"encoding/base64"
	"fmt"
	"math/big"
	"strings"
	"testing"

	"pgregory.net/rapid"

	"github.com/tink-crypto/tink-go/v2/internal/config/signprehashconfig"
	"github.com/tink-crypto/tink-go/v2/internal/internalapi"
	icomp "github.com/tink-crypto/tink-go/v2/internal/signature/compositemldsa"
	"github.com/tink-crypto/tink-go/v2/jwt"
	"github.com/tink-crypto/tink-go/v2/jwt/jwtmldsa"
	"github.com/tink-crypto/tink-go/v2/key"
	"github.com/tink-crypto/tink-go/v2/keyset"
	"github.com/tink-crypto/tink-go/v2/signature"
	"github.com/tink-crypto/tink-go/v2/signature/compositemldsa"
	tecdsa "github.com/tink-crypto/tink-go/v2/signature/ecdsa"
	ted25519 "github.com/tink-crypto/tink-go/v2/signature/ed25519"
	tmldsa "github.com/tink-crypto/tink-go/v2/signature/mldsa"
	"github.com/tink-crypto/tink-go/v2/signature/rsassapkcs1"
	"github.com/tink-crypto/tink-go/v2/signature/rsassapss"
	"github.com/tink-crypto/tink-go/v2/signprehash"
	prehashmldsa "github.com/tink-crypto/tink-go/v2/signprehash/mldsa"
	"github.com/tink-crypto/tink-go/v2/tink"
	"github.com/tink-crypto/tink-go/v2/verifharness/internal/detrand"
	"github.com/tink-crypto/tink-go/v2/verifharness/internal/evid"
	"github.com/tink-crypto/tink-go/v2/verifharness/internal/gen"
	"github.com/tink-crypto/tink-go/v2/verifharness/internal/ref/mldsaref"
	"github.com/tink-crypto/tink-go/v2/verifharness/internal/tk"
)

// ---- L5: signature/mldsa ------------------------------------------------------------------------

// Variant names of signature/mldsa; the third one is the external-mu key type.
const (
	vTink      = "TINK"
	vNoPrefix  = "NO_PREFIX"
	vPrehashID = "NO_PREFIX_WITH_PREHASH_ID"
)

var mldsaVariants = []string{vTink, vNoPrefix, vPrehashID}

func tinkVariant(v string) tmldsa.Variant {
	switch v {
	case vTink:
		return tmldsa.VariantTink
	case vNoPrefix:
		return tmldsa.VariantNoPrefix
	case vPrehashID:
		return tmldsa.VariantNoPrefixWithPrehashID
	}
	panic("unknown variant " + v)
}

// mldsaPrefix is the harness's table of the signature prefix: only TINK keys have one.
func mldsaPrefix(v string, id uint32) []byte {
	if v == vTink {
		return tk.Prefix(tk.Tink, id)
	}
	return []byte{}
}

// apiCase is one signature/mldsa key with its primitives and the reference key material.
type apiCase struct {
	ps           pset
	variant      string
	id           uint32
	route        string
	seed         []byte
	pkRef, skRef []byte
	prefix       []byte
	priv         *tmldsa.PrivateKey
	pub          *tmldsa.PublicKey
	privHandle   *keyset.Handle
	pubHandle    *keyset.Handle
	signer       tink.Signer
	verifier     tink.Verifier
	buf          candBuf
}

func (c *apiCase) String() string {
	return fmt.Sprintf("%s variant=%s id=%#x route=%s seed=%s", c.ps.name, c.variant, c.id, c.route, fullHex(c.seed))
}

func newAPICase(t *rapid.T, ps pset, variant string, id uint32, route string, seed []byte) *apiCase {
	if variant == vNoPrefix {
		id = 0
	}
	c := &apiCase{ps: ps, variant: variant, id: id, route: route, seed: seed, prefix: mldsaPrefix(variant, id)}
	c.pkRef, c.skRef = mldsaref.KeyGenInternal(ps.ref, arr32(seed))
	params, err := tmldsa.NewParameters(ps.inst, tinkVariant(variant))
	if err != nil {
		t.Fatalf("%v: NewParameters: %v", c, err)
	}
	c.priv, err = tmldsa.NewPrivateKey(tk.Secret(seed), id, params)
	if err != nil {
		t.Fatalf("%v: NewPrivateKey: %v", c, err)
	}
	pk, _ := c.priv.PublicKey()
	c.pub = pk.(*tmldsa.PublicKey)
	if !bytes.Equal(c.pub.KeyBytes(), c.pkRef) {
		t.Fatalf("%v: public key of the private key differs from the reference KeyGen_internal(seed)\ntink = %x\nref  = %x", c, c.pub.KeyBytes(), c.pkRef)
	}
	if !bytes.Equal(c.priv.OutputPrefix(), c.prefix) || !bytes.Equal(c.pub.OutputPrefix(), c.prefix) {
		t.Fatalf("%v: OutputPrefix priv=%x pub=%x, expected %x", c, c.priv.OutputPrefix(), c.pub.OutputPrefix(), c.prefix)
	}
	// the public key can also be built from the reference bytes alone
	pub2, err := tmldsa.NewPublicKey(c.pkRef, id, params)
	if err != nil || !pub2.Equal(c.pub) {
		t.Fatalf("%v: NewPublicKey(reference public key) err=%v or not equal to the derived public key", c, err)
	}
	if route == "handle" {
		c.privHandle, err = tk.HandleFromKey(c.priv)
		if err != nil {
			t.Fatalf("%v: handle: %v", c, err)
		}
		c.pubHandle, err = c.privHandle.Public()
		if err != nil {
			t.Fatalf("%v: Public(): %v", c, err)
		}
		if c.signer, err = signature.NewSigner(c.privHandle); err != nil {
			t.Fatalf("%v: signature.NewSigner: %v", c, err)
		}
		if c.verifier, err = signature.NewVerifier(c.pubHandle); err != nil {
			t.Fatalf("%v: signature.NewVerifier: %v", c, err)
		}
	} else {
		if c.signer, err = tmldsa.NewSigner(c.priv, internalapi.Token{}); err != nil {
			t.Fatalf("%v: mldsa.NewSigner: %v", c, err)
		}
		if c.verifier, err = tmldsa.NewVerifier(pub2, internalapi.Token{}); err != nil {
			t.Fatalf("%v: mldsa.NewVerifier: %v", c, err)
		}
	}
	return c
}

// should is the reference decision for a Tink ML-DSA signature: expected prefix followed by a raw
// FIPS 204 signature with the empty context.
func (c *apiCase) should(cand, msg []byte) bool {
	return bytes.HasPrefix(cand, c.prefix) && mldsaref.Verify(c.ps.ref, c.pkRef, msg, nil, cand[len(c.prefix):])
}

func (c *apiCase) try(t *rapid.T, kind string, cand, msg []byte) bool {
	want := c.should(cand, msg)
	vs, vm := c.buf.views(cand, msg)
	err, pan := noPanic(func() error { return c.verifier.Verify(vs, vm) })
	if pan != nil {
		t.Fatalf("%v: candidate kind=%s: Verify PANICS: %v (reference decision %v)\nmsg = %x\nsig = %x", c, kind, pan, want, msg, cand)
	}
	if (err == nil) != want {
		t.Fatalf("%v: candidate kind=%s: Verify err=%v, reference decision (prefix && FIPS 204 Verify with empty ctx) = %v\nmsg = %x\nsig = %x", c, kind, err, want, msg, cand)
	}
	return want
}

func drawAPICase(rt *rapid.T, variants []string) *apiCase {
	ps := drawPset(rt)
	variant := rapid.SampledFrom(variants).Draw(rt, "variant")
	id := gen.KeyID(rt, "id")
	route := rapid.SampledFrom([]string{"handle", "key"}).Draw(rt, "route")
	seed := gen.BytesN(rt, "seed", 32)
	return newAPICase(rt, ps, variant, id, route, seed)
}

func TestTinkMLDSA(t *testing.T) {
	rapid.Check(t, func(rt *rapid.T) {
		entropy := rapid.Uint64().Draw(rt, "entropy")
		detrand.Seed(entropy)
		c := drawAPICase(rt, mldsaVariants)
		p := c.ps.ref
		msg := gen.Bytes(rt, "msg", 2048)
		n, acc := 0, 0
		try := func(kind string, cand, m []byte) bool {
			n++
			ok := c.try(rt, kind, cand, m)
			if ok {
				acc++
			}
			return ok
		}
		detrand.Seed(entropy)
		sig, err := c.signer.Sign(msg)
		if err != nil {
			rt.Fatalf("%v: Sign(%x): %v", c, msg, err)
		}
		if !bytes.HasPrefix(sig, c.prefix) || len(sig) != len(c.prefix)+p.SigSize {
			rt.Fatalf("%v: signature is %d bytes starting %x; expected prefix %x followed by %d bytes", c, len(sig), sig[:min(len(sig), 5)], c.prefix, p.SigSize)
		}
		if !try("own", sig, msg) {
			rt.Fatalf("%v: own signature on %x does not verify (Tink and reference agree)\nsig = %x", c, msg, sig)
		}
		raw := sig[len(c.prefix):]
		// reference-made signatures
		rnd := gen.BytesN(rt, "rnd", 32)
		refRaw, rerr := mldsaref.Sign(p, c.skRef, msg, nil, arr32(rnd))
		if rerr != nil {
			rt.Fatalf("harness: reference Sign: %v", rerr)
		}
		withPrefix := func(pre, r []byte) []byte { return append(append([]byte{}, pre...), r...) }
		if !try("reference-made", withPrefix(c.prefix, refRaw), msg) {
			rt.Fatalf("harness: reference rejects its own signature")
		}
		otherID := c.id + 1 + uint32(rapid.IntRange(0, 1000).Draw(rt, "iddelta"))
		try("reference-made/no-prefix", refRaw, msg)
		try("reference-made/tink-prefix-of-this-id", withPrefix(tk.Prefix(tk.Tink, c.id), refRaw), msg)
		try("reference-made/tink-prefix-of-other-id", withPrefix(tk.Prefix(tk.Tink, otherID), refRaw), msg)
		try("reference-made/crunchy-prefix", withPrefix(tk.Prefix(tk.Crunchy, c.id), refRaw), msg)
		try("own/raw-part-only", raw, msg)
		try("own/prefix-twice", withPrefix(c.prefix, sig), msg)
		refCtx, _ := mldsaref.Sign(p, c.skRef, msg, []byte("ctx"), arr32(rnd))
		try("reference-made/non-empty-ctx", withPrefix(c.prefix, refCtx), msg)
		if len(c.prefix) > 0 {
			try("flip-prefix", flipBit(sig, rapid.IntRange(0, 8*len(c.prefix)-1).Draw(rt, "bit_p")), msg)
		}
		try("flip-raw", flipBit(sig, rapid.IntRange(8*len(c.prefix), 8*len(sig)-1).Draw(rt, "bit_r")), msg)
		try("truncated", sig[:len(sig)-1], msg)
		try("extended", append(append([]byte{}, sig...), 0), msg)
		try("empty", []byte{}, msg)
		try("prefix-only", c.prefix, msg)
		mm := gen.Mutate(rt, "msgmut", msg)
		try("other-message/"+mm.Kind, sig, mm.Out)
		sm := gen.Mutate(rt, "sigmut", sig)
		try("sig-"+sm.Kind, sm.Out, msg)
		hv, hk := hintVariants(rt, p, raw)
		for i := range hv {
			try(hk[i], withPrefix(c.prefix, hv[i]), msg)
		}
		// a key from another seed does not verify it
		seed2 := gen.BytesN(rt, "seed2", 32)
		if bytes.Equal(seed2, c.seed) {
			seed2 = flipBit(seed2, rapid.IntRange(0, 255).Draw(rt, "seed2_bit")) // another key by construction
			evid.Add("other_key_seed_made_different", 1)
		}
		c2 := newAPICase(rt, c.ps, c.variant, c.id, "key", seed2)
		n++
		if c2.try(rt, "other-key", sig, msg) {
			acc++
		}
		evid.Add("verify_candidates", int64(n))
		evid.Add("verify_candidates_accepted", int64(acc))
		evid.Add("candidates_in_reused_buffers", int64(c.buf.reused))
		evid.Case(fmt.Sprintf("%s/%s/%s/msg=%s", c.ps.name, c.variant, c.route, gen.LenClass(len(msg))), true,
			evid.NewH().S(c.ps.name).S(c.variant).I(int64(c.id)).S(c.route).B(c.seed).B(msg).B(rnd).Sum(), func() any {
				return map[string]any{"case": c.String(), "msg": gen.Hex(msg), "rnd": fullHex(rnd), "entropy": entropy, "candidates": n, "accepted": acc, "sig": hashHex(sig)}
			})
	})
}

// ---- L5: signprehash/mldsa ----------------------------------------------------------------------

func TestPrehash(t *testing.T) {
	rapid.Check(t, func(rt *rapid.T) {
		entropy := rapid.Uint64().Draw(rt, "entropy")
		detrand.Seed(entropy)
		// the external-mu key type, and TINK keys (which the prehash primitives also accept)
		c := drawAPICase(rt, []string{vPrehashID, vPrehashID, vPrehashID, vTink})
		p := c.ps.ref
		msg := gen.Bytes(rt, "msg", 2048)
		var ph tink.Prehash
		var phs tink.PrehashSigner
		var err error
		if c.route == "handle" {
			if rapid.Bool().Draw(rt, "config_v0_factory") {
				// the other public factory pair: ...WithConfig with the V0 configuration
				v0 := signprehashconfig.V0()
				if ph, err = signprehash.NewPrehashWithConfig(c.pubHandle, &v0); err != nil {
					rt.Fatalf("%v: signprehash.NewPrehashWithConfig(V0): %v", c, err)
				}
				if phs, err = signprehash.NewPrehashSignerWithConfig(c.privHandle, &v0); err != nil {
					rt.Fatalf("%v: signprehash.NewPrehashSignerWithConfig(V0): %v", c, err)
				}
				evid.Add("prehash_config_v0_factory", 1)
			} else {
				if ph, err = signprehash.NewPrehash(c.pubHandle); err != nil {
					rt.Fatalf("%v: signprehash.NewPrehash: %v", c, err)
				}
				if phs, err = signprehash.NewPrehashSigner(c.privHandle); err != nil {
					rt.Fatalf("%v: signprehash.NewPrehashSigner: %v", c, err)
				}
			}
		} else {
			if ph, err = prehashmldsa.NewPrehash(c.pub, internalapi.Token{}); err != nil {
				rt.Fatalf("%v: NewPrehash: %v", c, err)
			}
			if phs, err = prehashmldsa.NewPrehashSigner(c.priv, internalapi.Token{}); err != nil {
				rt.Fatalf("%v: NewPrehashSigner: %v", c, err)
			}
		}
		digest, err := ph.ComputePrehash(msg)
		if err != nil {
			rt.Fatalf("%v: ComputePrehash(%x): %v", c, msg, err)
		}
		// history: further prehashes are computed on the same object before the first one is signed
		// (a batch of documents hashed first, signed later); the earlier result must not change
		saved := bytes.Clone(digest)
		batch := rapid.IntRange(0, 2).Draw(rt, "batch")
		for i := 0; i < batch; i++ {
			other := gen.Bytes(rt, "batchmsg", 64)
			if _, err := ph.ComputePrehash(other); err != nil {
				rt.Fatalf("%v: ComputePrehash(%x): %v", c, other, err)
			}
		}
		if !bytes.Equal(digest, saved) {
			rt.Fatalf("%v: the prehash returned for %x changed from %x to %x after %d later ComputePrehash calls on the same object", c, msg, saved, digest, batch)
		}
		evid.Add("prehash_batch_calls", int64(batch))
		detrand.Seed(entropy)
		sig, err := phs.SignPrehash(digest)
		if err != nil {
			rt.Fatalf("%v: SignPrehash(ComputePrehash(%x) = %x): %v", c, msg, digest, err)
		}
		n := 0
		try := func(kind string, cand, m []byte) bool { n++; return c.try(rt, kind, cand, m) }
		// mustVerify is C10's prehash clause: "signatures made through the prehash (external-mu) path of
		// an external-mu key verify under that key's ordinary verifier" (every try is two-sided against
		// the reference, so "the ordinary verifier accepts" is also "FIPS 204 Verify with the empty
		// context accepts the part after the prefix"). An external-mu key (NO_PREFIX_WITH_PREHASH_ID) has
		// no output prefix: the bytes SignPrehash returns are the candidate. The constructors also take
		// TINK keys; neither C10 nor the doc comments of signprehash/mldsa ("for ML-DSA External Mu keys",
		// nothing on output framing) say whether SignPrehash puts the key's output prefix in front, so for
		// a TINK key either framing satisfies the clause: the output as returned, or the key's prefix
		// followed by the output, must verify under the ordinary verifier; which one did is counted.
		// It returns the FIPS 204 part of the signature.
		mustVerify := func(kind string, s, m, d []byte) []byte {
			asReturned := try(kind, s, m)
			if c.variant == vPrehashID {
				if !asReturned {
					rt.Fatalf("%v: %s: signature made through the prehash path is rejected by the key's ordinary verifier (and by the reference: FIPS 204 Verify, empty ctx)\nmsg = %x\nprehash = %x\nsig = %x", c, kind, m, d, s)
				}
				return s
			}
			prefixAdded := try(kind+"(prefix added)", append(append([]byte{}, c.prefix...), s...), m)
			switch {
			case asReturned:
				evid.Add("prehash_tink_key_output/verifies_as_returned", 1)
				return s[len(c.prefix):]
			case prefixAdded:
				evid.Add("prehash_tink_key_output/verifies_after_adding_the_key_prefix", 1)
				return s
			}
			rt.Fatalf("%v: %s: signature made through the prehash path of a TINK key is rejected by the key's ordinary verifier both as returned and with the key's output prefix %x in front (the reference agrees on both)\nmsg = %x\nprehash = %x\nsig = %x", c, kind, c.prefix, m, d, s)
			return nil
		}
		raw := mustVerify("prehash-signature", sig, msg, digest)
		// harness self-check: mu = H(tr || 0 || 0 || msg) is what the external-mu entry points sign
		mPrime, _ := mldsaref.FormatMessage(msg, nil)
		mu := mldsaref.ComputeMu(p, c.pkRef, mPrime)
		if !mldsaref.VerifyMu(p, c.pkRef, mu, raw) {
			rt.Fatalf("harness: reference Verify and VerifyMu disagree")
		}
		if bytes.HasSuffix(digest, mu[:]) {
			evid.Add("prehash_ends_with_fips204_mu", 1)
		} else {
			evid.Add("prehash_does_not_end_with_fips204_mu", 1)
		}
		mm := gen.Mutate(rt, "msgmut", msg)
		try("other-message/"+mm.Kind, sig, mm.Out)
		try("flip", flipBit(sig, rapid.IntRange(0, 8*len(sig)-1).Draw(rt, "bit")), msg)
		// a second signature through the same two objects: the prehash of another message signs that
		// other message (same clause; an error of either call is a failure like the first one's)
		d2, err := ph.ComputePrehash(mm.Out)
		if err != nil {
			rt.Fatalf("%v: ComputePrehash(%x) (call %d on this object): %v", c, mm.Out, batch+2, err)
		}
		s2, err := phs.SignPrehash(d2)
		if err != nil {
			rt.Fatalf("%v: second SignPrehash on this object, SignPrehash(ComputePrehash(%x) = %x): %v (the first, for %x, succeeded)", c, mm.Out, d2, err, msg)
		}
		try("prehash-of-other-message", s2, msg)
		mustVerify("prehash-signature-2", s2, mm.Out, d2)
		evid.Add("prehash_second_signatures", 1)
		// ordinary signatures of the same key and prehash-path signatures are interchangeable
		own, err := c.signer.Sign(msg)
		if err != nil {
			rt.Fatalf("%v: Sign: %v", c, err)
		}
		try("ordinary-signature", own, msg)
		evid.Add("verify_candidates", int64(n))
		evid.Case(fmt.Sprintf("%s/%s/%s", c.ps.name, c.variant, c.route), true,
			evid.NewH().S(c.ps.name).S(c.variant).I(int64(c.id)).S(c.route).B(c.seed).B(msg).Sum(), func() any {
				return map[string]any{"case": c.String(), "msg": gen.Hex(msg), "prehash": fullHex(digest), "entropy": entropy, "sig": hashHex(sig)}
			})
	})
}

// ---- L5: signature/compositemldsa ---------------------------------------------------------------

// classicalSpec is the harness's own table of the composite algorithms (draft-ietf-lamps-pq-
// composite-sigs): label, the traditional algorithm and its hash.
type classicalSpec struct {
	name    string
	alg     compositemldsa.ClassicalAlgorithm
	ialg    icomp.ClassicalAlgorithm
	labels  map[string]string // ML-DSA parameter set -> label
	kind    string            // ed25519 | ecdsa | pss | pkcs1
	curve   elliptic.Curve
	hash    crypto.Hash
	rsaBits int
	salt    int
}

var classicalSpecs = []classicalSpec{
	{name: "Ed25519", alg: compositemldsa.Ed25519, ialg: icomp.Ed25519, kind: "ed25519",
		labels: map[string]string{"ML-DSA-65": "COMPSIG-MLDSA65-Ed25519-SHA512"}},
	{name: "ECDSA-P256", alg: compositemldsa.ECDSAP256, ialg: icomp.ECDSAP256, kind: "ecdsa", curve: elliptic.P256(), hash: crypto.SHA256,
		labels: map[string]string{"ML-DSA-65": "COMPSIG-MLDSA65-ECDSA-P256-SHA512"}},
	{name: "ECDSA-P384", alg: compositemldsa.ECDSAP384, ialg: icomp.ECDSAP384, kind: "ecdsa", curve: elliptic.P384(), hash: crypto.SHA384,
		labels: map[string]string{"ML-DSA-65": "COMPSIG-MLDSA65-ECDSA-P384-SHA512", "ML-DSA-87": "COMPSIG-MLDSA87-ECDSA-P384-SHA512"}},
	{name: "ECDSA-P521", alg: compositemldsa.ECDSAP521, ialg: icomp.ECDSAP521, kind: "ecdsa", curve: elliptic.P521(), hash: crypto.SHA512,
		labels: map[string]string{"ML-DSA-87": "COMPSIG-MLDSA87-ECDSA-P521-SHA512"}},
	{name: "RSA3072-PSS", alg: compositemldsa.RSA3072PSS, ialg: icomp.RSA3072PSS, kind: "pss", hash: crypto.SHA256, rsaBits: 3072, salt: 32,
		labels: map[string]string{"ML-DSA-65": "COMPSIG-MLDSA65-RSA3072-PSS-SHA512", "ML-DSA-87": "COMPSIG-MLDSA87-RSA3072-PSS-SHA512"}},
	{name: "RSA4096-PSS", alg: compositemldsa.RSA4096PSS, ialg: icomp.RSA4096PSS, kind: "pss", hash: crypto.SHA384, rsaBits: 4096, salt: 48,
		labels: map[string]string{"ML-DSA-65": "COMPSIG-MLDSA65-RSA4096-PSS-SHA512", "ML-DSA-87": "COMPSIG-MLDSA87-RSA4096-PSS-SHA512"}},
	{name: "RSA3072-PKCS15", alg: compositemldsa.RSA3072PKCS1, ialg: icomp.RSA3072PKCS1, kind: "pkcs1", hash: crypto.SHA256, rsaBits: 3072,
		labels: map[string]string{"ML-DSA-65": "COMPSIG-MLDSA65-RSA3072-PKCS15-SHA512"}},
	{name: "RSA4096-PKCS15", alg: compositemldsa.RSA4096PKCS1, ialg: icomp.RSA4096PKCS1, kind: "pkcs1", hash: crypto.SHA384, rsaBits: 4096,
		labels: map[string]string{"ML-DSA-65": "COMPSIG-MLDSA65-RSA4096-PKCS15-SHA512"}},
}

// compositeCombos lists every supported (classical algorithm, ML-DSA parameter set) pair.
type compositeCombo struct {
	cs *classicalSpec
	ps pset
}

var compositeCombos = func() []compositeCombo {
	var out []compositeCombo
	for i := range classicalSpecs {
		for _, ps := range psets[1:] {
			if _, ok := classicalSpecs[i].labels[ps.name]; ok {
				out = append(out, compositeCombo{&classicalSpecs[i], ps})
			}
		}
	}
	return out
}()

// messagePrime is M' = Prefix || Label || len(ctx)=0 || PH(M) with PH = SHA-512.
func messagePrime(label string, msg []byte) []byte {
	h := sha512.Sum512(msg)
	out := append([]byte("CompositeAlgorithmSignatures2025"), label...)
	out = append(out, 0)
	return append(out, h[:]...)
}

// rsaPool holds one RSA key per modulus size, generated on first use from a fixed entropy stream.
var rsaPool = map[int]*rsa.PrivateKey{}

func rsaKey(bits int) *rsa.PrivateKey {
	if k := rsaPool[bits]; k != nil {
		return k
	}
	detrand.Seed(0xC10_0000 + uint64(bits))
	k, err := rsa.GenerateKey(rand.Reader, bits)
	if err != nil {
		panic(err)
	}
	rsaPool[bits] = k
	evid.Add(fmt.Sprintf("rsa_%d_keys_generated", bits), 1)
	return k
}

// classicalKey is the classical component: the Tink key object and the stdlib sign/verify closures
// over the message representative.
type classicalKey struct {
	desc   string
	tinkSK key.Key
	sign   func(mp []byte) []byte
	verify func(mp, sig []byte) bool
}

func digestOf(h crypto.Hash, m []byte) []byte {
	switch h {
	case crypto.SHA256:
		d := sha256.Sum256(m)
		return d[:]
	case crypto.SHA384:
		d := sha512.Sum384(m)
		return d[:]
	case crypto.SHA512:
		d := sha512.Sum512(m)
		return d[:]
	}
	panic("hash")
}

// tinkRSAKeys caches the Tink key objects of the pooled RSA keys (their constructor self-tests).
var tinkRSAKeys = map[string]key.Key{}

func newClassicalKey(t *rapid.T, cs *classicalSpec) *classicalKey {
	params, err := icomp.ParametersForClassicalAlgorithm(cs.ialg)
	if err != nil {
		t.Fatalf("ParametersForClassicalAlgorithm(%s): %v", cs.name, err)
	}
	ck := &classicalKey{}
	switch cs.kind {
	case "ed25519":
		seed := gen.BytesN(t, "ed25519seed", 32)
		sk := ed25519.NewKeyFromSeed(seed)
		pk := sk.Public().(ed25519.PublicKey)
		ck.desc = "ed25519 seed=" + fullHex(seed)
		ck.tinkSK, err = ted25519.NewPrivateKey(tk.Secret(seed), 0, *params.(*ted25519.Parameters))
		ck.sign = func(mp []byte) []byte { return ed25519.Sign(sk, mp) }
		ck.verify = func(mp, sig []byte) bool { return ed25519.Verify(pk, mp, sig) }
	case "ecdsa":
		size := (cs.curve.Params().BitSize + 7) / 8
		raw := gen.BytesN(t, "ecdsascalar", size+8)
		nm1 := new(big.Int).Sub(cs.curve.Params().N, big.NewInt(1))
		d := new(big.Int).SetBytes(raw)
		d.Mod(d, nm1).Add(d, big.NewInt(1)) // [1, n-1]
		dBytes := d.FillBytes(make([]byte, size))
		sk, perr := ecdsa.ParseRawPrivateKey(cs.curve, dBytes)
		if perr != nil {
			t.Fatalf("harness: ParseRawPrivateKey: %v", perr)
		}
		ck.desc = fmt.Sprintf("ecdsa %s d=%x", cs.curve.Params().Name, dBytes)
		ck.tinkSK, err = tecdsa.NewPrivateKey(tk.Secret(dBytes), 0, params.(*tecdsa.Parameters))
		ck.sign = func(mp []byte) []byte {
			s, e := ecdsa.SignASN1(rand.Reader, sk, digestOf(cs.hash, mp))
			if e != nil {
				panic(e)
			}
			return s
		}
		ck.verify = func(mp, sig []byte) bool { return ecdsa.VerifyASN1(&sk.PublicKey, digestOf(cs.hash, mp), sig) }
	case "pss", "pkcs1":
		sk := rsaKey(cs.rsaBits)
		ck.desc = fmt.Sprintf("rsa-%d (pooled, e=65537) p=%x q=%x", cs.rsaBits, sk.Primes[0].Bytes(), sk.Primes[1].Bytes())
		if cached := tinkRSAKeys[cs.name]; cached != nil {
			ck.tinkSK = cached
		} else {
			vals := struct{ P, Q, D []byte }{sk.Primes[0].Bytes(), sk.Primes[1].Bytes(), sk.D.Bytes()}
			if cs.kind == "pss" {
				pub, e := rsassapss.NewPublicKey(sk.N.Bytes(), 0, params.(*rsassapss.Parameters))
				if e != nil {
					t.Fatalf("rsassapss.NewPublicKey: %v", e)
				}
				ck.tinkSK, err = rsassapss.NewPrivateKey(pub, rsassapss.PrivateKeyValues{P: tk.Secret(vals.P), Q: tk.Secret(vals.Q), D: tk.Secret(vals.D)})
			} else {
				pub, e := rsassapkcs1.NewPublicKey(sk.N.Bytes(), 0, params.(*rsassapkcs1.Parameters))
				if e != nil {
					t.Fatalf("rsassapkcs1.NewPublicKey: %v", e)
				}
				ck.tinkSK, err = rsassapkcs1.NewPrivateKey(pub, rsassapkcs1.PrivateKeyValues{P: tk.Secret(vals.P), Q: tk.Secret(vals.Q), D: tk.Secret(vals.D)})
			}
			if err == nil {
				tinkRSAKeys[cs.name] = ck.tinkSK
			}
		}
		if cs.kind == "pss" {
			opts := &rsa.PSSOptions{SaltLength: cs.salt, Hash: cs.hash}
			ck.sign = func(mp []byte) []byte {
				s, e := rsa.SignPSS(rand.Reader, sk, cs.hash, digestOf(cs.hash, mp), opts)
				if e != nil {
					panic(e)
				}
				return s
			}
			ck.verify = func(mp, sig []byte) bool {
				return rsa.VerifyPSS(&sk.PublicKey, cs.hash, digestOf(cs.hash, mp), sig, opts) == nil
			}
		} else {
			ck.sign = func(mp []byte) []byte {
				s, e := rsa.SignPKCS1v15(nil, sk, cs.hash, digestOf(cs.hash, mp))
				if e != nil {
					panic(e)
				}
				return s
			}
			ck.verify = func(mp, sig []byte) bool {
				return rsa.VerifyPKCS1v15(&sk.PublicKey, cs.hash, digestOf(cs.hash, mp), sig) == nil
			}
		}
	}
	if err != nil {
		t.Fatalf("classical key %s (%s): %v", cs.name, ck.desc, err)
	}
	return ck
}

func TestComposite(t *testing.T) {
	rapid.Check(t, func(rt *rapid.T) {
		entropy := rapid.Uint64().Draw(rt, "entropy")
		detrand.Seed(entropy)
		// RSA variants are drawn less often: their signing cost dominates otherwise
		var combo compositeCombo
		if rapid.IntRange(0, 3).Draw(rt, "rsa") == 0 {
			combo = rapid.SampledFrom(compositeCombos[5:]).Draw(rt, "combo")
		} else {
			combo = rapid.SampledFrom(compositeCombos[:5]).Draw(rt, "combo")
		}
		cs, ps := combo.cs, combo.ps
		p := ps.ref
		label := cs.labels[ps.name]
		variant := rapid.SampledFrom([]string{tk.Tink, tk.NoPrefix}).Draw(rt, "variant")
		id := gen.KeyID(rt, "id")
		if variant == tk.NoPrefix {
			id = 0
		}
		route := rapid.SampledFrom([]string{"handle", "key"}).Draw(rt, "route")
		seed := gen.BytesN(rt, "seed", 32)
		msg := gen.Bytes(rt, "msg", 2048)
		ck := newClassicalKey(rt, cs)
		detrand.Seed(entropy) // the RSA pool may have re-seeded the stream
		prefix := tk.Prefix(variant, id)
		desc := fmt.Sprintf("composite %s + %s label=%q variant=%s id=%#x route=%s mldsa-seed=%s classical=%s", ps.name, cs.name, label, variant, id, route, fullHex(seed), ck.desc)

		pkRef, skRef := mldsaref.KeyGenInternal(p, arr32(seed))
		mparams, err := tmldsa.NewParameters(ps.inst, tmldsa.VariantNoPrefix)
		if err != nil {
			rt.Fatalf("%s: mldsa.NewParameters: %v", desc, err)
		}
		mpriv, err := tmldsa.NewPrivateKey(tk.Secret(seed), 0, mparams)
		if err != nil {
			rt.Fatalf("%s: mldsa.NewPrivateKey: %v", desc, err)
		}
		inst := compositemldsa.MLDSA65
		if ps.name == "ML-DSA-87" {
			inst = compositemldsa.MLDSA87
		}
		cv := compositemldsa.VariantTink
		if variant == tk.NoPrefix {
			cv = compositemldsa.VariantNoPrefix
		}
		cparams, err := compositemldsa.NewParameters(cs.alg, inst, cv)
		if err != nil {
			rt.Fatalf("%s: compositemldsa.NewParameters: %v", desc, err)
		}
		priv, err := compositemldsa.NewPrivateKey(mpriv, ck.tinkSK, id, cparams)
		if err != nil {
			rt.Fatalf("%s: compositemldsa.NewPrivateKey: %v", desc, err)
		}
		pubKey, _ := priv.PublicKey()
		pub := pubKey.(*compositemldsa.PublicKey)
		if !bytes.Equal(pub.MLDSAPublicKey().KeyBytes(), pkRef) {
			rt.Fatalf("%s: ML-DSA public key differs from the reference KeyGen_internal(seed)", desc)
		}
		var signer tink.Signer
		var verifier tink.Verifier
		if route == "handle" {
			h, err := tk.HandleFromKey(priv)
			if err != nil {
				rt.Fatalf("%s: handle: %v", desc, err)
			}
			ph, err := h.Public()
			if err != nil {
				rt.Fatalf("%s: Public(): %v", desc, err)
			}
			if signer, err = signature.NewSigner(h); err != nil {
				rt.Fatalf("%s: signature.NewSigner: %v", desc, err)
			}
			if verifier, err = signature.NewVerifier(ph); err != nil {
				rt.Fatalf("%s: signature.NewVerifier: %v", desc, err)
			}
		} else {
			if signer, err = compositemldsa.NewSigner(priv, internalapi.Token{}); err != nil {
				rt.Fatalf("%s: NewSigner: %v", desc, err)
			}
			if verifier, err = compositemldsa.NewVerifier(pub, internalapi.Token{}); err != nil {
				rt.Fatalf("%s: NewVerifier: %v", desc, err)
			}
		}
		// the reference decision for any candidate: prefix, split at the ML-DSA signature length, both
		// components verify over the message representative (ML-DSA with ctx = label)
		should := func(cand, m []byte) (bool, bool, bool) {
			if !bytes.HasPrefix(cand, prefix) {
				return false, false, false
			}
			rest := cand[len(prefix):]
			if len(rest) < p.SigSize {
				return false, false, false
			}
			mp := messagePrime(label, m)
			a := mldsaref.Verify(p, pkRef, mp, []byte(label), rest[:p.SigSize])
			b := ck.verify(mp, rest[p.SigSize:])
			return a && b, a, b
		}
		n, acc := 0, 0
		var buf candBuf
		try := func(kind string, cand, m []byte) bool {
			n++
			want, a, b := should(cand, m)
			vs, vm := buf.views(cand, m)
			err, pan := noPanic(func() error { return verifier.Verify(vs, vm) })
			if pan != nil {
				rt.Fatalf("%s: candidate kind=%s: Verify PANICS: %v (reference decision %v)\nmsg = %x\nsig = %x", desc, kind, pan, want, m, cand)
			}
			if (err == nil) != want {
				rt.Fatalf("%s: candidate kind=%s: Verify err=%v, reference decision=%v (ML-DSA component %v, classical component %v)\nmsg = %x\nsig = %x", desc, kind, err, want, a, b, m, cand)
			}
			if want {
				acc++
			}
			return want
		}

		// (1) Tink-made composite signature: framing and component-wise verification
		sig, err := signer.Sign(msg)
		if err != nil {
			rt.Fatalf("%s: Sign(%x): %v", desc, msg, err)
		}
		if !bytes.HasPrefix(sig, prefix) || len(sig) <= len(prefix)+p.SigSize {
			rt.Fatalf("%s: composite signature is %d bytes, expected prefix %x || %d-byte ML-DSA part || classical part\nsig = %x", desc, len(sig), prefix, p.SigSize, sig)
		}
		_, a, b := should(sig, msg)
		if !a || !b {
			rt.Fatalf("%s: components of the Tink-made signature on %x: ML-DSA part verifies under the reference = %v, classical part verifies under the standard library = %v\nsig = %x", desc, msg, a, b, sig)
		}
		if !try("own", sig, msg) {
			rt.Fatalf("%s: own signature rejected", desc)
		}

		// (2) harness-assembled signatures: every combination of valid/broken components
		mp := messagePrime(label, msg)
		mm := gen.Mutate(rt, "msgmut", msg)
		mpOther := messagePrime(label, mm.Out)
		rnd := gen.BytesN(rt, "rnd", 32)
		mlValid, rerr := mldsaref.Sign(p, skRef, mp, []byte(label), arr32(rnd))
		if rerr != nil {
			rt.Fatalf("harness: reference Sign: %v", rerr)
		}
		mlBroken := map[string]func() []byte{
			"other-message": func() []byte { s, _ := mldsaref.Sign(p, skRef, mpOther, []byte(label), arr32(rnd)); return s },
			"empty-ctx":     func() []byte { s, _ := mldsaref.Sign(p, skRef, mp, nil, arr32(rnd)); return s },
			"raw-message":   func() []byte { s, _ := mldsaref.Sign(p, skRef, msg, []byte(label), arr32(rnd)); return s },
			"bitflip":       func() []byte { return flipBit(mlValid, rapid.IntRange(0, 8*len(mlValid)-1).Draw(rt, "mlbit")) },
		}
		clValid := ck.sign(mp)
		clBroken := map[string]func() []byte{
			"other-message": func() []byte { return ck.sign(mpOther) },
			"raw-message":   func() []byte { return ck.sign(msg) },
			"bitflip":       func() []byte { return flipBit(clValid, rapid.IntRange(0, 8*len(clValid)-1).Draw(rt, "clbit")) },
			"empty":         func() []byte { return []byte{} },
		}
		mlKind := rapid.SampledFrom([]string{"other-message", "empty-ctx", "raw-message", "bitflip"}).Draw(rt, "mlbroken")
		clKind := rapid.SampledFrom([]string{"other-message", "raw-message", "bitflip", "empty"}).Draw(rt, "clbroken")
		mlBad, clBad := mlBroken[mlKind](), clBroken[clKind]()
		cat := func(parts ...[]byte) []byte { return bytes.Join(parts, nil) }
		if !try("assembled/valid+valid", cat(prefix, mlValid, clValid), msg) {
			rt.Fatalf("harness: reference decision rejects a composite of two valid components")
		}
		try("assembled/valid+broken:"+clKind, cat(prefix, mlValid, clBad), msg)
		try("assembled/broken:"+mlKind+"+valid", cat(prefix, mlBad, clValid), msg)
		try("assembled/broken:"+mlKind+"+broken:"+clKind, cat(prefix, mlBad, clBad), msg)
		// mixing Tink-made and harness-made components
		raw := sig[len(prefix):]
		try("mixed/tink-mldsa+stdlib-classical", cat(prefix, raw[:p.SigSize], clValid), msg)
		try("mixed/reference-mldsa+tink-classical", cat(prefix, mlValid, raw[p.SigSize:]), msg)
		// framing
		try("swapped-order", cat(prefix, clValid, mlValid), msg)
		try("mldsa-part-only", cat(prefix, mlValid), msg)
		try("classical-part-only", cat(prefix, clValid), msg)
		try("no-prefix", cat(mlValid, clValid), msg)
		try("tink-prefix-other-id", cat(tk.Prefix(tk.Tink, id+1), mlValid, clValid), msg)
		try("tink-prefix-this-id", cat(tk.Prefix(tk.Tink, id), mlValid, clValid), msg)
		try("own/other-message", sig, mm.Out)
		try("own/flip-mldsa-part", flipBit(sig, rapid.IntRange(8*len(prefix), 8*(len(prefix)+p.SigSize)-1).Draw(rt, "bit_ml")), msg)
		try("own/flip-classical-part", flipBit(sig, rapid.IntRange(8*(len(prefix)+p.SigSize), 8*len(sig)-1).Draw(rt, "bit_cl")), msg)
		try("own/truncated", sig[:len(sig)-1], msg)
		try("empty", []byte{}, msg)
		// bytes after a valid signature: the split is at the fixed ML-DSA length, so the classical
		// verifier gets the whole remainder (for the variable-length DER part too) - the reference
		// decides; and one generic mutation of the whole composite signature
		try("own/suffix-00", cat(sig, []byte{0}), msg)
		sfx := rapid.SliceOfN(rapid.Byte(), 1, 8).Draw(rt, "suffix")
		try(fmt.Sprintf("own/suffix-%x", sfx), cat(sig, sfx), msg)
		try(fmt.Sprintf("assembled/valid+valid+suffix-%x", sfx[:1]), cat(prefix, mlValid, clValid, sfx[:1]), msg)
		sm := gen.Mutate(rt, "sigmut", sig)
		try("own/sig-"+sm.Kind, sm.Out, msg)

		evid.Add("verify_candidates", int64(n))
		evid.Add("verify_candidates_accepted", int64(acc))
		evid.Add("candidates_in_reused_buffers", int64(buf.reused))
		evid.Case(fmt.Sprintf("%s+%s/%s/%s", ps.name, cs.name, variant, route), true,
			evid.NewH().S(ps.name).S(cs.name).S(variant).I(int64(id)).S(route).B(seed).S(ck.desc).B(msg).B(rnd).S(mlKind).S(clKind).Sum(), func() any {
				return map[string]any{"case": desc, "msg": gen.Hex(msg), "rnd": fullHex(rnd), "entropy": entropy, "broken": mlKind + "/" + clKind, "candidates": n, "accepted": acc, "sig": hashHex(sig)}
			})
	})
}

// ---- L5: jwt with ML-DSA keys --------------------------------------------------------------------

// TestJWTMLDSA: the signature of a compact JWT made with a JWT ML-DSA key is a FIPS 204 signature (empty
// context) over "header.payload", and the JWT verifier accepts a token with that header and payload
// exactly when the reference accepts its signature part.
func TestJWTMLDSA(t *testing.T) {
	algs := []jwtmldsa.Algorithm{jwtmldsa.MLDSA44, jwtmldsa.MLDSA65, jwtmldsa.MLDSA87}
	rapid.Check(t, func(rt *rapid.T) {
		entropy := rapid.Uint64().Draw(rt, "entropy")
		detrand.Seed(entropy)
		pi := rapid.IntRange(0, 2).Draw(rt, "pset")
		ps, alg := psets[pi], algs[pi]
		p := ps.ref
		strategy := rapid.SampledFrom([]jwtmldsa.KIDStrategy{jwtmldsa.Base64EncodedKeyIDAsKID, jwtmldsa.IgnoredKID}).Draw(rt, "kid")
		id := gen.KeyID(rt, "id")
		if strategy == jwtmldsa.IgnoredKID {
			id = 0
		}
		seed := gen.BytesN(rt, "seed", 32)
		subject := rapid.StringMatching(`[a-zA-Z0-9 ]{0,40}`).Draw(rt, "subject")
		desc := fmt.Sprintf("jwt %s kid-strategy=%v id=%#x seed=%s subject=%q", ps.name, strategy, id, fullHex(seed), subject)
		pkRef, skRef := mldsaref.KeyGenInternal(p, arr32(seed))
		params, err := jwtmldsa.NewParameters(strategy, alg)
		if err != nil {
			rt.Fatalf("%s: NewParameters: %v", desc, err)
		}
		pub, err := jwtmldsa.NewPublicKey(jwtmldsa.PublicKeyOpts{KeyBytes: pkRef, IDRequirement: id, Parameters: params})
		if err != nil {
			rt.Fatalf("%s: NewPublicKey(reference public key): %v", desc, err)
		}
		priv, err := jwtmldsa.NewPrivateKeyFromPublicKey(tk.Secret(seed), pub)
		if err != nil {
			rt.Fatalf("%s: NewPrivateKeyFromPublicKey (seed and reference public key): %v", desc, err)
		}
		h, err := tk.HandleFromKey(priv)
		if err != nil {
			rt.Fatalf("%s: handle: %v", desc, err)
		}
		ph, err := h.Public()
		if err != nil {
			rt.Fatalf("%s: Public(): %v", desc, err)
		}
		signer, err := jwt.NewSigner(h)
		if err != nil {
			rt.Fatalf("%s: jwt.NewSigner: %v", desc, err)
		}
		verifier, err := jwt.NewVerifier(ph)
		if err != nil {
			rt.Fatalf("%s: jwt.NewVerifier: %v", desc, err)
		}
		raw, err := jwt.NewRawJWT(&jwt.RawJWTOptions{Subject: &subject, WithoutExpiration: true})
		if err != nil {
			rt.Fatalf("%s: NewRawJWT: %v", desc, err)
		}
		validator, err := jwt.NewValidator(&jwt.ValidatorOpts{AllowMissingExpiration: true})
		if err != nil {
			rt.Fatalf("%s: NewValidator: %v", desc, err)
		}
		detrand.Seed(entropy)
		compact, err := signer.SignAndEncode(raw)
		if err != nil {
			rt.Fatalf("%s: SignAndEncode: %v", desc, err)
		}
		parts := strings.Split(compact, ".")
		if len(parts) != 3 {
			rt.Fatalf("%s: compact token has %d parts: %s", desc, len(parts), compact)
		}
		input := parts[0] + "." + parts[1]
		sig, err := base64.RawURLEncoding.DecodeString(parts[2])
		if err != nil {
			rt.Fatalf("%s: signature part is not unpadded base64url: %v\ntoken = %s", desc, err, compact)
		}
		if !mldsaref.Verify(p, pkRef, []byte(input), nil, sig) {
			rt.Fatalf("%s: signature part of the token does not verify under the reference over %q (empty ctx)\ntoken = %s", desc, input, compact)
		}
		n := 0
		try := func(kind string, s []byte) bool {
			n++
			want := mldsaref.Verify(p, pkRef, []byte(input), nil, s)
			tok := input + "." + base64.RawURLEncoding.EncodeToString(s)
			var verr error
			_, pan := noPanic(func() error { _, verr = verifier.VerifyAndDecode(tok, validator); return verr })
			if pan != nil {
				rt.Fatalf("%s: candidate kind=%s: VerifyAndDecode PANICS: %v\ntoken = %s", desc, kind, pan, tok)
			}
			if (verr == nil) != want {
				rt.Fatalf("%s: candidate kind=%s: VerifyAndDecode err=%v, reference Verify of the signature part = %v\ntoken = %s", desc, kind, verr, want, tok)
			}
			return want
		}
		if !try("own", sig) {
			rt.Fatalf("harness: unreachable")
		}
		rnd := gen.BytesN(rt, "rnd", 32)
		refSig, _ := mldsaref.Sign(p, skRef, []byte(input), nil, arr32(rnd))
		try("reference-made", refSig)
		try("flip", flipBit(refSig, rapid.IntRange(0, 8*len(refSig)-1).Draw(rt, "bit")))
		try("truncated", refSig[:len(refSig)-1])
		otherInput, _ := mldsaref.Sign(p, skRef, []byte(parts[0]+"."+parts[1]+"x"), nil, arr32(rnd))
		try("signature-of-other-input", otherInput)
		withCtx, _ := mldsaref.Sign(p, skRef, []byte(input), []byte("jwt"), arr32(rnd))
		try("non-empty-ctx", withCtx)
		hv, hk := hintVariants(rt, p, refSig)
		for i := range hv {
			try(hk[i], hv[i])
		}
		evid.Add("verify_candidates", int64(n))
		evid.Case(fmt.Sprintf("%s/%v", ps.name, strategy), true, evid.NewH().S(ps.name).I(int64(strategy)).I(int64(id)).B(seed).S(subject).B(rnd).Sum(), func() any {
			return map[string]any{"case": desc, "token": gen.Hex([]byte(compact)), "entropy": entropy, "candidates": n}
		})
	})
}
