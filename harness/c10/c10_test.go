// Package c10 decides property C10: ML-DSA-44/65/87 as implemented by tink-go agrees with FIPS 204
// as computed by the independent reference internal/ref/mldsaref, layer by layer:
//
//	L1 scalars   scalars_test.go   (exhaustive over Z_q for the unary functions)
//	L2 polys     poly_test.go      (NTT, bit packing, hint packing)
//	L3 sampling  poly_test.go      (SampleInBall, RejNTTPoly, RejBoundedPoly, ExpandA/S/Mask)
//	L4 scheme    scheme_test.go    (keys, signatures, verify equivalence, crafted boundary signatures)
//	L5 Tink API  api_test.go       (signature/mldsa, signprehash/mldsa, signature/compositemldsa)
//
// The reference is always the oracle: every assertion has the form "Tink == reference".
package c10

import (
	"crypto/sha256"
	"encoding/hex"
	"fmt"
	"testing"

	"pgregory.net/rapid"

	imldsa "github.com/tink-crypto/tink-go/v2/internal/signature/mldsa"
	tmldsa "github.com/tink-crypto/tink-go/v2/signature/mldsa"
	"github.com/tink-crypto/tink-go/v2/verifharness/internal/evid"
	"github.com/tink-crypto/tink-go/v2/verifharness/internal/gen"
	"github.com/tink-crypto/tink-go/v2/verifharness/internal/ref/mldsaref"
)

func TestMain(m *testing.M) { evid.Main(m) }

const propID = "C10"

const q = mldsaref.Q

// pset ties one parameter set of the reference to the same parameter set of Tink.
type pset struct {
	name string
	ref  *mldsaref.Params
	tk   *imldsa.VerifParams
	inst tmldsa.Instance
}

var psets = []pset{
	{"ML-DSA-44", mldsaref.MLDSA44, imldsa.MLDSA44, tmldsa.MLDSA44},
	{"ML-DSA-65", mldsaref.MLDSA65, imldsa.MLDSA65, tmldsa.MLDSA65},
	{"ML-DSA-87", mldsaref.MLDSA87, imldsa.MLDSA87, tmldsa.MLDSA87},
}

func drawPset(t *rapid.T) pset { return psets[rapid.IntRange(0, len(psets)-1).Draw(t, "pset")] }

// gamma2s are the two values of gamma2 FIPS 204 uses.
var gamma2s = []int64{(q - 1) / 88, (q - 1) / 32}

// ---- conversions between Tink's and the reference's polynomial types --------------------------

func polyToRef(p *imldsa.VerifPoly) mldsaref.Poly {
	var r mldsaref.Poly
	for i := range p {
		r[i] = int64(p[i])
	}
	return r
}

func nttToRef(p *imldsa.VerifPolyNTT) mldsaref.Poly {
	var r mldsaref.Poly
	for i := range p {
		r[i] = int64(p[i])
	}
	return r
}

// polyFromRef needs coefficients in [0, q).
func polyFromRef(r mldsaref.Poly) *imldsa.VerifPoly {
	p := &imldsa.VerifPoly{}
	for i := range r {
		if r[i] < 0 || r[i] >= q {
			panic(fmt.Sprintf("harness: coefficient %d = %d not reduced", i, r[i]))
		}
		p[i] = imldsa.VerifZq(r[i])
	}
	return p
}

func nttFromRef(r mldsaref.Poly) *imldsa.VerifPolyNTT {
	p := &imldsa.VerifPolyNTT{}
	for i := range r {
		if r[i] < 0 || r[i] >= q {
			panic(fmt.Sprintf("harness: coefficient %d = %d not reduced", i, r[i]))
		}
		p[i] = imldsa.VerifZq(r[i])
	}
	return p
}

func vecToRef(v imldsa.VerifVector) []mldsaref.Poly {
	out := make([]mldsaref.Poly, len(v))
	for i := range v {
		out[i] = polyToRef(v[i])
	}
	return out
}

func vecFromRef(v []mldsaref.Poly) imldsa.VerifVector {
	out := make(imldsa.VerifVector, len(v))
	for i := range v {
		out[i] = polyFromRef(v[i])
	}
	return out
}

// firstDiff returns the first index where two polynomials differ, or -1.
func firstDiff(a, b mldsaref.Poly) int {
	for i := range a {
		if a[i] != b[i] {
			return i
		}
	}
	return -1
}

func vecFirstDiff(a, b []mldsaref.Poly) (int, int) {
	if len(a) != len(b) {
		return -2, -2
	}
	for i := range a {
		if j := firstDiff(a[i], b[i]); j >= 0 {
			return i, j
		}
	}
	return -1, -1
}

// polyString prints a polynomial completely (for failure messages).
func polyString(p mldsaref.Poly) string { return fmt.Sprint(p[:]) }

// fullHex prints a byte string completely.
func fullHex(b []byte) string { return hex.EncodeToString(b) }

// hashHex abbreviates a long byte string as length and SHA-256.
func hashHex(b []byte) string {
	h := sha256.Sum256(b)
	return fmt.Sprintf("%s sha256=%x", gen.Hex(b), h[:8])
}

// ---- generators --------------------------------------------------------------------------------

// splitmix is the deterministic expander used to turn one drawn 64-bit seed into many values.
type splitmix struct{ x uint64 }

func (s *splitmix) next() uint64 {
	s.x += 0x9e3779b97f4a7c15
	z := s.x
	z = (z ^ (z >> 30)) * 0xbf58476d1ce4e5b9
	z = (z ^ (z >> 27)) * 0x94d049bb133111eb
	return z ^ (z >> 31)
}

// zq returns a value of [0, q) (bias below 2^-40).
func (s *splitmix) zq() int64 { return int64(s.next() % q) }

// intn returns a value of [0, n).
func (s *splitmix) intn(n int64) int64 { return int64(s.next() % uint64(n)) }

// drawPoly draws a polynomial with coefficients in [0, q): uniform, constant, sparse or built from
// edge values.
func drawPoly(t *rapid.T, label string) (mldsaref.Poly, string) {
	var p mldsaref.Poly
	kind := rapid.SampledFrom([]string{"uniform", "uniform", "uniform", "zero", "allmax", "const", "monomial", "sparse", "edges", "small"}).Draw(t, label+"_kind")
	switch kind {
	case "uniform":
		s := &splitmix{rapid.Uint64().Draw(t, label+"_seed")}
		for i := range p {
			p[i] = s.zq()
		}
	case "zero":
	case "allmax":
		for i := range p {
			p[i] = q - 1
		}
	case "const":
		c := rapid.Int64Range(0, q-1).Draw(t, label+"_c")
		for i := range p {
			p[i] = c
		}
	case "monomial":
		p[rapid.IntRange(0, 255).Draw(t, label+"_deg")] = rapid.SampledFrom([]int64{1, q - 1, 2, (q - 1) / 2}).Draw(t, label+"_coef")
	case "sparse":
		s := &splitmix{rapid.Uint64().Draw(t, label+"_seed")}
		n := rapid.IntRange(1, 60).Draw(t, label+"_n")
		for k := 0; k < n; k++ {
			p[s.intn(256)] = s.zq()
		}
	case "edges":
		s := &splitmix{rapid.Uint64().Draw(t, label+"_seed")}
		for i := range p {
			p[i] = edgeSet[s.intn(int64(len(edgeSet)))]
		}
	case "small":
		s := &splitmix{rapid.Uint64().Draw(t, label+"_seed")}
		for i := range p {
			p[i] = mldsaref.Mod(s.intn(9) - 4)
		}
	}
	return p, kind
}

func fpPoly(h evid.H, p mldsaref.Poly) evid.H {
	for _, c := range p {
		h = h.I(c)
	}
	return h
}

// candBuf is one persistent signature buffer and one persistent message buffer: every verify
// candidate of a case is copied to their start and handed over as a sub-slice, so that the same
// backing array (same pointer, mostly the same length) carries different candidates one after the
// other. A verifier that remembered a decision by the identity of its arguments instead of their
// content would disagree with the reference.
type candBuf struct {
	sig, msg []byte
	reused   int
}

const candBufSize = 8192 // every signature (ML-DSA-87 + RSA-4096 + prefix, doubled) and message of this package

func bufView(buf *[]byte, b []byte) []byte {
	if b == nil {
		return nil
	}
	if cap(*buf) < len(b) {
		n := candBufSize
		for n < len(b) {
			n *= 2
		}
		*buf = make([]byte, n)
	}
	v := (*buf)[:len(b)]
	copy(v, b)
	return v
}

func (c *candBuf) views(sig, msg []byte) (s, m []byte) {
	if c.sig != nil && cap(c.sig) >= len(sig) && (msg == nil || cap(c.msg) >= len(msg)) {
		c.reused++
	}
	return bufView(&c.sig, sig), bufView(&c.msg, msg)
}

func arr32(b []byte) (a [32]byte) { copy(a[:], b); return }
func arr34(b []byte) (a [34]byte) { copy(a[:], b); return }
func arr64(b []byte) (a [64]byte) { copy(a[:], b); return }
func arr66(b []byte) (a [66]byte) { copy(a[:], b); return }
