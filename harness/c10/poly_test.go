package c10

import (
	"bytes"
	"fmt"
	"sort"
	"testing"

	"pgregory.net/rapid"

	imldsa "github.com/tink-crypto/tink-go/v2/internal/signature/mldsa"
	"github.com/tink-crypto/tink-go/v2/verifharness/internal/detrand"
	"github.com/tink-crypto/tink-go/v2/verifharness/internal/evid"
	"github.com/tink-crypto/tink-go/v2/verifharness/internal/gen"
	"github.com/tink-crypto/tink-go/v2/verifharness/internal/ref/mldsaref"
)

// ---- L2: NTT ------------------------------------------------------------------------------------

// TestPoly: ntt / intt / pointwise product / polynomial add, sub, neg, infinity norm against the
// reference. Tink's ntt is FIPS 204 Algorithm 41, so its output ordering is the reference's
// (checked on the monomial X below, and for every case against the evaluation at the 256 roots).
func TestPoly(t *testing.T) {
	var x mldsaref.Poly
	x[1] = 1
	if d := firstDiff(nttToRef(imldsa.VerifNTT(polyFromRef(x))), mldsaref.NTTDirect(x)); d >= 0 {
		t.Fatalf("ntt(X) differs from the evaluations of X at the roots zeta^(2*BitRev8(i)+1) at index %d: wrong root of unity or an output ordering other than FIPS 204 Algorithm 41", d)
	}
	// the table of roots: zetas[m] = zeta^BitRev8(m) for m = 1..255 (entry 0 is never used)
	tz, rz := imldsa.VerifZetas(), mldsaref.Zetas()
	for m := 1; m < 256; m++ {
		if int64(tz[m]) != rz[m] {
			t.Fatalf("zetas[%d] = %d, FIPS 204 zeta^BitRev8(%d) mod q = %d", m, tz[m], m, rz[m])
		}
	}
	evid.Bulk("zeta-table", 255)
	rapid.Check(t, func(rt *rapid.T) {
		detrand.Seed(rapid.Uint64().Draw(rt, "entropy"))
		a, ka := drawPoly(rt, "a")
		b, kb := drawPoly(rt, "b")
		ta, tb := polyFromRef(a), polyFromRef(b)
		fail := func(what string, got, want mldsaref.Poly) {
			d := firstDiff(got, want)
			rt.Fatalf("%s: coefficient %d is %d, reference %d\na = %s\nb = %s\ntink = %s\nref  = %s", what, d, got[d], want[d], polyString(a), polyString(b), polyString(got), polyString(want))
		}
		na := imldsa.VerifNTT(ta)
		if got, want := nttToRef(na), mldsaref.NTT(a); got != want {
			fail("ntt(a) vs Algorithm 41", got, want)
		}
		if got, want := nttToRef(na), mldsaref.NTTDirect(a); got != want {
			fail("ntt(a) vs evaluation of a at the 256 roots", got, want)
		}
		if got := polyToRef(imldsa.VerifINTT(na)); got != a {
			fail("intt(ntt(a)) vs a", got, a)
		}
		// b read as an arbitrary element of T_q
		if got, want := polyToRef(imldsa.VerifINTT(nttFromRef(b))), mldsaref.InvNTT(b); got != want {
			fail("intt(b) vs Algorithm 42", got, want)
		}
		nb := imldsa.VerifNTT(tb)
		prod := imldsa.VerifPolyNTTMul(na, nb)
		if got, want := nttToRef(prod), mldsaref.MulNTT(mldsaref.NTT(a), mldsaref.NTT(b)); got != want {
			fail("ntt(a)*ntt(b) pointwise", got, want)
		}
		if got, want := polyToRef(imldsa.VerifINTT(prod)), mldsaref.MulSchoolbook(a, b); got != want {
			fail("intt(ntt(a)*ntt(b)) vs schoolbook product in Z_q[X]/(X^256+1)", got, want)
		}
		if got, want := polyToRef(imldsa.VerifPolyAdd(ta, tb)), mldsaref.Add(a, b); got != want {
			fail("poly add", got, want)
		}
		if got, want := polyToRef(imldsa.VerifPolySub(ta, tb)), mldsaref.Sub(a, b); got != want {
			fail("poly sub", got, want)
		}
		if got, want := polyToRef(imldsa.VerifPolyNeg(ta)), mldsaref.Neg(a); got != want {
			fail("poly neg", got, want)
		}
		if got, want := nttToRef(imldsa.VerifPolyNTTAdd(na, nb)), mldsaref.Add(mldsaref.NTT(a), mldsaref.NTT(b)); got != want {
			fail("polyNTT add", got, want)
		}
		if got, want := nttToRef(imldsa.VerifPolyNTTSub(na, nb)), mldsaref.Sub(mldsaref.NTT(a), mldsaref.NTT(b)); got != want {
			fail("polyNTT sub", got, want)
		}
		if got, want := int64(imldsa.VerifPolyInfinityNorm(ta)), mldsaref.InfNorm(&a); got != want {
			rt.Fatalf("infinityNorm(a) = %d, reference %d\na = %s", got, want, polyString(a))
		}
		if got, want := int64(imldsa.VerifVectorInfinityNorm(imldsa.VerifVector{ta, tb})), mldsaref.VecInfNorm([]mldsaref.Poly{a, b}); got != want {
			rt.Fatalf("infinityNorm((a,b)) = %d, reference %d\na = %s\nb = %s", got, want, polyString(a), polyString(b))
		}
		evid.Case("a="+ka+"/b="+kb, true, fpPoly(fpPoly(evid.NewH(), a), b).Sum(), func() any {
			return map[string]any{"a": polyString(a), "b": polyString(b)}
		})
	})
}

// ---- L2: bit packing ----------------------------------------------------------------------------

// packSpec is one (range, width) pair the scheme uses. Coefficients represent values of [-a, b];
// simple means SimpleBitPack (a = 0, the coefficient itself is written), otherwise BitPack (b - w is
// written). Tink's bitPack takes FIPS 204's b as its first argument.
type packSpec struct {
	name   string
	simple bool
	a, b   int64
	bits   int
}

var packSpecs = []packSpec{
	{"t1/10bit", true, 0, 1<<10 - 1, 10},
	{"w1/6bit(gamma2=(q-1)/88)", true, 0, 43, 6},
	{"w1/4bit(gamma2=(q-1)/32)", true, 0, 15, 4},
	{"s/eta=2/3bit", false, 2, 2, 3},
	{"s/eta=4/4bit", false, 4, 4, 4},
	{"t0/13bit", false, 1<<12 - 1, 1 << 12, 13},
	{"z/gamma1=2^17/18bit", false, 1<<17 - 1, 1 << 17, 18},
	{"z/gamma1=2^19/20bit", false, 1<<19 - 1, 1 << 19, 20},
}

func TestPacking(t *testing.T) {
	rapid.Check(t, func(rt *rapid.T) {
		detrand.Seed(rapid.Uint64().Draw(rt, "entropy"))
		sp := rapid.SampledFrom(packSpecs).Draw(rt, "spec")
		kind := rapid.SampledFrom([]string{"uniform", "uniform", "uniform", "min", "max", "zero", "extremes", "ramp"}).Draw(rt, "kind")
		seed := rapid.Uint64().Draw(rt, "seed")
		s := &splitmix{seed}
		var w mldsaref.Poly // coefficients mod q
		for i := range w {
			var v int64
			switch kind {
			case "uniform":
				v = s.intn(sp.a+sp.b+1) - sp.a
			case "min":
				v = -sp.a
			case "max":
				v = sp.b
			case "zero":
				v = 0
			case "extremes":
				v = []int64{-sp.a, sp.b, 0, sp.b - 1, -sp.a + 1}[s.intn(5)]
				if v < -sp.a || v > sp.b {
					v = 0
				}
			case "ramp":
				v = (int64(i)+int64(seed%1024))%(sp.a+sp.b+1) - sp.a
			}
			w[i] = mldsaref.Mod(v)
		}
		desc := func() string { return fmt.Sprintf("spec=%s kind=%s seed=%#x w=%s", sp.name, kind, seed, polyString(w)) }
		tw := polyFromRef(w)
		tn := nttFromRef(w)
		var got, gotNTT, want []byte
		if sp.simple {
			got = imldsa.VerifSimpleBitPack(tw, sp.bits)
			gotNTT = imldsa.VerifSimpleBitPackNTT(tn, sp.bits)
			want = mldsaref.SimpleBitPack(w, sp.b)
		} else {
			got = imldsa.VerifBitPack(tw, imldsa.VerifZq(sp.b), sp.bits)
			gotNTT = imldsa.VerifBitPackNTT(tn, imldsa.VerifZq(sp.b), sp.bits)
			want = mldsaref.BitPack(w, sp.a, sp.b)
		}
		if !bytes.Equal(got, want) {
			rt.Fatalf("pack (poly): %s\ntink = %x\nref  = %x", desc(), got, want)
		}
		if !bytes.Equal(gotNTT, want) {
			rt.Fatalf("pack (polyNTT): %s\ntink = %x\nref  = %x", desc(), gotNTT, want)
		}
		unpack := func(enc []byte) (mldsaref.Poly, mldsaref.Poly, mldsaref.Poly) {
			if sp.simple {
				return polyToRef(imldsa.VerifSimpleBitUnpack(enc, sp.bits)), nttToRef(imldsa.VerifSimpleBitUnpackNTT(enc, sp.bits)), mldsaref.SimpleBitUnpack(enc, sp.b)
			}
			return polyToRef(imldsa.VerifBitUnpack(enc, imldsa.VerifZq(sp.b), sp.bits)), nttToRef(imldsa.VerifBitUnpackNTT(enc, imldsa.VerifZq(sp.b), sp.bits)), mldsaref.BitUnpack(enc, sp.a, sp.b)
		}
		u1, u2, ur := unpack(want)
		if u1 != w || u2 != w || ur != w {
			rt.Fatalf("unpack(pack(w)) != w: %s\ntink poly    = %s\ntink polyNTT = %s\nref          = %s", desc(), polyString(u1), polyString(u2), polyString(ur))
		}
		// arbitrary byte strings of the right length (values outside [-a, b] included)
		enc := gen.BytesN(rt, "enc", 32*sp.bits)
		u1, u2, ur = unpack(enc)
		if u1 != ur || u2 != ur {
			rt.Fatalf("unpack of arbitrary bytes: spec=%s enc=%x\ntink poly    = %s\ntink polyNTT = %s\nref          = %s", sp.name, enc, polyString(u1), polyString(u2), polyString(ur))
		}
		evid.Case(sp.name+"/"+kind, true, fpPoly(evid.NewH().S(sp.name), w).B(enc).Sum(), func() any {
			return map[string]any{"spec": sp.name, "kind": kind, "seed": fmt.Sprintf("%#x", seed), "packed": gen.Hex(want)}
		})
	})
}

// ---- L2: hint packing ---------------------------------------------------------------------------

// drawHint draws a binary vector of K polynomials with weight <= omega.
func drawHint(t *rapid.T, p *mldsaref.Params) ([]mldsaref.Poly, int, string) {
	var weight int
	switch rapid.IntRange(0, 5).Draw(t, "wkind") {
	case 0:
		weight = p.Omega
	case 1:
		weight = rapid.SampledFrom([]int{0, 1, 2, p.Omega - 1, p.Omega / 2}).Draw(t, "wedge")
	default:
		weight = rapid.IntRange(0, p.Omega).Draw(t, "weight")
	}
	mode := rapid.SampledFrom([]string{"spread", "spread", "onepoly", "lastpoly", "firstpoly", "lowindices", "highindices", "twopolys"}).Draw(t, "hmode")
	s := &splitmix{rapid.Uint64().Draw(t, "hseed")}
	h := make([]mldsaref.Poly, p.K)
	put := func(poly int, n int, pick func() int) {
		for placed := 0; placed < n; {
			j := pick()
			if h[poly][j] == 0 {
				h[poly][j] = 1
				placed++
			}
		}
	}
	uni := func() int { return int(s.intn(256)) }
	switch mode {
	case "spread":
		for placed := 0; placed < weight; {
			i, j := int(s.intn(int64(p.K))), uni()
			if h[i][j] == 0 {
				h[i][j] = 1
				placed++
			}
		}
	case "onepoly":
		put(int(s.intn(int64(p.K))), weight, uni)
	case "lastpoly":
		put(p.K-1, weight, uni)
	case "firstpoly":
		put(0, weight, uni)
	case "lowindices": // indices 0..n-1: index 0 collides with the zero padding value
		i := int(s.intn(int64(p.K)))
		for j := 0; j < weight; j++ {
			h[i][j] = 1
		}
	case "highindices":
		i := int(s.intn(int64(p.K)))
		for j := 0; j < weight; j++ {
			h[i][255-j] = 1
		}
	case "twopolys": // the second polynomial restarts below the last index of the first one
		i := int(s.intn(int64(p.K - 1)))
		n1 := weight / 2
		for j := 0; j < n1; j++ {
			h[i][255-j] = 1
		}
		for j := 0; j < weight-n1; j++ {
			h[i+1][j] = 1
		}
	}
	return h, weight, mode
}

// mutateHintEncoding returns a modification of a valid hint encoding y (length omega+k).
func mutateHintEncoding(t *rapid.T, p *mldsaref.Params, y []byte) ([]byte, string) {
	out := append([]byte{}, y...)
	om := p.Omega
	total := int(y[om+p.K-1])
	// polynomials with at least two indices
	type span struct{ lo, hi int }
	var spans []span
	prev := 0
	for i := 0; i < p.K; i++ {
		end := int(y[om+i])
		if end-prev >= 2 {
			spans = append(spans, span{prev, end})
		}
		prev = end
	}
	kinds := []string{"count-over-omega", "count-set", "setbyte", "count-shift"}
	if len(spans) > 0 {
		kinds = append(kinds, "swap-adjacent", "duplicate", "swap-adjacent", "duplicate", "reverse-span")
	}
	if total < om {
		kinds = append(kinds, "padding-nonzero", "padding-nonzero")
	}
	if total > 0 {
		kinds = append(kinds, "last-count-short", "count-decrease")
	}
	kind := rapid.SampledFrom(kinds).Draw(t, "hmut")
	switch kind {
	case "swap-adjacent":
		sp := spans[rapid.IntRange(0, len(spans)-1).Draw(t, "span")]
		j := rapid.IntRange(sp.lo, sp.hi-2).Draw(t, "at")
		out[j], out[j+1] = out[j+1], out[j]
	case "duplicate":
		sp := spans[rapid.IntRange(0, len(spans)-1).Draw(t, "span")]
		j := rapid.IntRange(sp.lo, sp.hi-2).Draw(t, "at")
		if rapid.Bool().Draw(t, "dupdir") {
			out[j+1] = out[j]
		} else {
			out[j] = out[j+1]
		}
	case "reverse-span":
		sp := spans[rapid.IntRange(0, len(spans)-1).Draw(t, "span")]
		for a, b := sp.lo, sp.hi-1; a < b; a, b = a+1, b-1 {
			out[a], out[b] = out[b], out[a]
		}
	case "count-over-omega":
		i := rapid.IntRange(0, p.K-1).Draw(t, "cnt")
		out[om+i] = byte(rapid.IntRange(om+1, 255).Draw(t, "val"))
	case "count-set":
		i := rapid.IntRange(0, p.K-1).Draw(t, "cnt")
		out[om+i] = byte(rapid.IntRange(0, om).Draw(t, "val"))
	case "count-shift":
		i := rapid.IntRange(0, p.K-1).Draw(t, "cnt")
		if rapid.Bool().Draw(t, "up") {
			out[om+i]++
		} else {
			out[om+i]--
		}
	case "count-decrease":
		// make some count smaller than its predecessor
		var cand []int
		for i := 1; i < p.K; i++ {
			if y[om+i-1] > 0 {
				cand = append(cand, i)
			}
		}
		if len(cand) == 0 {
			out[om] = byte(om + 1)
			kind = "count-over-omega"
			break
		}
		i := cand[rapid.IntRange(0, len(cand)-1).Draw(t, "cnt")]
		out[om+i] = byte(rapid.IntRange(0, int(y[om+i-1])-1).Draw(t, "val"))
	case "padding-nonzero":
		j := rapid.IntRange(total, om-1).Draw(t, "at")
		out[j] = byte(rapid.IntRange(1, 255).Draw(t, "val"))
	case "last-count-short":
		// the tail counts are lowered: indices that were in use are now read as padding
		nt := rapid.IntRange(0, total-1).Draw(t, "newtotal")
		for i := 0; i < p.K; i++ {
			if int(out[om+i]) > nt {
				out[om+i] = byte(nt)
			}
		}
	case "setbyte":
		j := rapid.IntRange(0, len(out)-1).Draw(t, "at")
		out[j] = rapid.Byte().Draw(t, "val")
	}
	return out, kind
}

// checkHintEncoding compares Tink's and the reference's decision and value on one encoding.
func checkHintEncoding(t *rapid.T, ps pset, y []byte, kind string) bool {
	tv, terr := imldsa.VerifHintBitUnpack(ps.tk, y)
	rv, rok := mldsaref.HintBitUnpack(ps.ref, y)
	if (terr == nil) != rok {
		t.Fatalf("%s hint encoding kind=%s y=%x: hintBitUnpackVector err=%v, reference HintBitUnpack ok=%v", ps.name, kind, y, terr, rok)
	}
	if !rok {
		return false
	}
	if i, j := vecFirstDiff(vecToRef(tv), rv); i != -1 {
		t.Fatalf("%s hint encoding kind=%s y=%x: decoded hint differs from the reference at polynomial %d coefficient %d", ps.name, kind, y, i, j)
	}
	if got, want := imldsa.VerifHintBitPack(ps.tk, tv), mldsaref.HintBitPack(ps.ref, rv); !bytes.Equal(got, want) {
		t.Fatalf("%s hint encoding kind=%s y=%x: re-encoding gives %x, reference %x", ps.name, kind, y, got, want)
	}
	if got, want := imldsa.VerifVectorNumOnes(tv), mldsaref.HintWeight(rv); got != want {
		t.Fatalf("%s hint encoding kind=%s y=%x: numOnes = %d, reference weight %d", ps.name, kind, y, got, want)
	}
	return true
}

func TestHintPacking(t *testing.T) {
	rapid.Check(t, func(rt *rapid.T) {
		detrand.Seed(rapid.Uint64().Draw(rt, "entropy"))
		ps := drawPset(rt)
		h, weight, mode := drawHint(rt, ps.ref)
		th := vecFromRef(h)
		want := mldsaref.HintBitPack(ps.ref, h)
		if got := imldsa.VerifHintBitPack(ps.tk, th); !bytes.Equal(got, want) {
			rt.Fatalf("%s hintBitPack weight=%d mode=%s: %x, reference %x", ps.name, weight, mode, got, want)
		}
		if !checkHintEncoding(rt, ps, want, "valid") {
			rt.Fatalf("harness: reference rejects its own hint encoding %x", want)
		}
		accepted, rejected := 0, 0
		var kinds []string
		count := func(ok bool) {
			if ok {
				accepted++
			} else {
				rejected++
			}
		}
		h2 := evid.NewH().S(ps.name).B(want)
		for i := 0; i < 6; i++ {
			y, kind := mutateHintEncoding(rt, ps.ref, want)
			if rapid.IntRange(0, 3).Draw(rt, "twice") == 0 {
				var k2 string
				y, k2 = mutateHintEncoding(rt, ps.ref, y2valid(ps.ref, y, want))
				kind += "+" + k2
			}
			kinds = append(kinds, kind)
			count(checkHintEncoding(rt, ps, y, kind))
			h2 = h2.B(y)
		}
		// random bytes, and random bytes under a plausible count section
		rnd := gen.BytesN(rt, "random", ps.ref.Omega+ps.ref.K)
		count(checkHintEncoding(rt, ps, rnd, "random-bytes"))
		semi := append([]byte{}, rnd...)
		cs := rapid.SliceOfN(rapid.IntRange(0, ps.ref.Omega), ps.ref.K, ps.ref.K).Draw(rt, "counts")
		sort.Ints(cs)
		for i, c := range cs {
			semi[ps.ref.Omega+i] = byte(c)
		}
		for j := cs[ps.ref.K-1]; j < ps.ref.Omega; j++ {
			if rapid.IntRange(0, 9).Draw(rt, "keeppad") != 0 {
				semi[j] = 0
			}
		}
		if rapid.Bool().Draw(rt, "sortspans") {
			prev := 0
			for _, c := range cs {
				sort.Slice(semi[prev:c], func(a, b int) bool { return semi[prev+a] < semi[prev+b] })
				prev = c
			}
		}
		count(checkHintEncoding(rt, ps, semi, "random-structured"))
		h2 = h2.B(rnd).B(semi)
		evid.Add("hint_encodings_accepted", int64(accepted+1))
		evid.Add("hint_encodings_rejected", int64(rejected))
		wclass := "mid"
		switch {
		case weight == 0:
			wclass = "0"
		case weight == ps.ref.Omega:
			wclass = "omega"
		}
		evid.Case(ps.name+"/weight="+wclass+"/"+mode, true, h2.Sum(), func() any {
			return map[string]any{"pset": ps.name, "weight": weight, "mode": mode, "valid": fullHex(want), "mutations": kinds, "accepted": accepted, "rejected": rejected}
		})
	})
}

// y2valid returns y when it is still a well-formed encoding (so that a second mutation has a valid
// count section to start from) and the original encoding otherwise.
func y2valid(p *mldsaref.Params, y, orig []byte) []byte {
	if _, ok := mldsaref.HintBitUnpack(p, y); ok {
		return y
	}
	return orig
}

// ---- L3: sampling -------------------------------------------------------------------------------

func TestSampling(t *testing.T) {
	rapid.Check(t, func(rt *rapid.T) {
		detrand.Seed(rapid.Uint64().Draw(rt, "entropy"))
		ps := drawPset(rt)
		p := ps.ref
		fp := evid.NewH().S(ps.name)

		ct := gen.BytesN(rt, "ctilde", p.CTildeSize)
		fp = fp.B(ct)
		if got, want := polyToRef(imldsa.VerifSampleInBall(ps.tk, ct)), mldsaref.SampleInBall(p, ct); got != want {
			d := firstDiff(got, want)
			rt.Fatalf("%s sampleInBall(%x): coefficient %d is %d, reference %d\ntink = %s\nref  = %s", ps.name, ct, d, got[d], want[d], polyString(got), polyString(want))
		}

		s34 := gen.BytesN(rt, "rho34", 34)
		fp = fp.B(s34)
		if got, want := nttToRef(imldsa.VerifRejectNTTPoly(arr34(s34))), mldsaref.RejNTTPoly(s34); got != want {
			d := firstDiff(got, want)
			rt.Fatalf("rejectNTTPoly(%x): coefficient %d is %d, reference %d", s34, d, got[d], want[d])
		}

		s66 := gen.BytesN(rt, "rho66", 66)
		fp = fp.B(s66)
		if got, want := polyToRef(imldsa.VerifRejectBoundedPoly(ps.tk, arr66(s66))), mldsaref.RejBoundedPoly(p, s66); got != want {
			d := firstDiff(got, want)
			rt.Fatalf("%s rejectBoundedPoly(%x): coefficient %d is %d, reference %d", ps.name, s66, d, got[d], want[d])
		}

		s64 := gen.BytesN(rt, "rho64", 64)
		// kappa is a multiple of l in the scheme; the counter is 16 bits wide, so values above 255 matter
		kappa := rapid.IntRange(0, 2000).Draw(rt, "kappa_iter") * p.L
		switch rapid.IntRange(0, 3).Draw(rt, "kappa_free") {
		case 0:
			kappa = rapid.IntRange(0, 65535-p.L).Draw(rt, "kappa")
		case 1:
			// the counter kappa+r crosses a multiple of 256 INSIDE the vector (r = 0..l-1): the carry
			// into the high byte then happens between two polynomials of one call (added after seeded
			// change C10g, which took the high byte from kappa alone); in the scheme this is iteration
			// 36 of ML-DSA-87 and 51 of ML-DSA-65, which about one signature in 10^5 reaches
			kappa = 256*rapid.IntRange(1, 255).Draw(rt, "kappa_carry_block") - rapid.IntRange(1, p.L-1).Draw(rt, "kappa_carry_back")
		}
		fp = fp.B(s64).I(int64(kappa))
		if i, j := vecFirstDiff(vecToRef(imldsa.VerifExpandMask(ps.tk, arr64(s64), kappa)), mldsaref.ExpandMask(p, s64, kappa)); i != -1 {
			rt.Fatalf("%s expandMask(%x, kappa=%d): differs from the reference at polynomial %d coefficient %d", ps.name, s64, kappa, i, j)
		}
		t1, t2 := imldsa.VerifExpandS(ps.tk, arr64(s64))
		r1, r2 := mldsaref.ExpandS(p, s64)
		if i, j := vecFirstDiff(vecToRef(t1), r1); i != -1 {
			rt.Fatalf("%s expandS(%x): s1 differs from the reference at polynomial %d coefficient %d", ps.name, s64, i, j)
		}
		if i, j := vecFirstDiff(vecToRef(t2), r2); i != -1 {
			rt.Fatalf("%s expandS(%x): s2 differs from the reference at polynomial %d coefficient %d", ps.name, s64, i, j)
		}

		s32 := gen.BytesN(rt, "rho32", 32)
		fp = fp.B(s32)
		ta := imldsa.VerifExpandA(ps.tk, arr32(s32))
		ra := mldsaref.ExpandA(p, s32)
		if len(ta) != len(ra) {
			rt.Fatalf("%s expandA: %d rows, reference %d", ps.name, len(ta), len(ra))
		}
		for r := range ra {
			if len(ta[r]) != len(ra[r]) {
				rt.Fatalf("%s expandA: row %d has %d columns, reference %d", ps.name, r, len(ta[r]), len(ra[r]))
			}
			for c := range ra[r] {
				if d := firstDiff(nttToRef(ta[r][c]), ra[r][c]); d >= 0 {
					rt.Fatalf("%s expandA(%x): entry [%d][%d] coefficient %d differs from the reference", ps.name, s32, r, c, d)
				}
			}
		}
		kc := "kappa<256"
		if kappa+p.L > 255 {
			kc = "kappa>=256"
		}
		evid.Case(ps.name+"/"+kc, true, fp.Sum(), func() any {
			return map[string]any{"pset": ps.name, "ctilde": fullHex(ct), "rho34": fullHex(s34), "rho66": fullHex(s66), "rho64": fullHex(s64), "kappa": kappa, "rho32": fullHex(s32)}
		})
	})
}
