package c10

import (
	"bytes"
	"fmt"
	"testing"

	"pgregory.net/rapid"

	imldsa "github.com/tink-crypto/tink-go/v2/internal/signature/mldsa"
	"github.com/tink-crypto/tink-go/v2/verifharness/internal/detrand"
	"github.com/tink-crypto/tink-go/v2/verifharness/internal/evid"
	"github.com/tink-crypto/tink-go/v2/verifharness/internal/gen"
	"github.com/tink-crypto/tink-go/v2/verifharness/internal/ref/mldsaref"
)

// ---- L4: the scheme through the internal API ----------------------------------------------------

// keyCase is one key pair generated from a seed on both sides.
type keyCase struct {
	ps           pset
	seed         []byte
	pkRef, skRef []byte
	pk           *imldsa.PublicKey
	sk           *imldsa.SecretKey
	buf          candBuf
}

func (k *keyCase) String() string {
	return fmt.Sprintf("%s seed=%s", k.ps.name, fullHex(k.seed))
}

// newKeyCase generates the key pair with Tink and with the reference and requires byte-identical
// encodings.
func newKeyCase(t *rapid.T, ps pset, seed []byte) *keyCase {
	k := &keyCase{ps: ps, seed: seed}
	k.pk, k.sk = ps.tk.KeyGenFromSeed(arr32(seed))
	k.pkRef, k.skRef = mldsaref.KeyGenInternal(ps.ref, arr32(seed))
	if got := k.pk.Encode(); !bytes.Equal(got, k.pkRef) {
		t.Fatalf("%v: KeyGenFromSeed public key differs from the reference KeyGen_internal\ntink = %x\nref  = %x", k, got, k.pkRef)
	}
	if got := k.sk.Encode(); !bytes.Equal(got, k.skRef) {
		t.Fatalf("%v: KeyGenFromSeed secret key differs from the reference KeyGen_internal\ntink = %x\nref  = %x", k, got, k.skRef)
	}
	return k
}

// noPanic runs a Tink call and turns a panic into a value, so that the failure message can carry the
// complete case.
func noPanic(f func() error) (err error, panicked any) {
	defer func() {
		if r := recover(); r != nil {
			panicked = r
		}
	}()
	return f(), nil
}

// verifyBoth is the equivalence oracle: Tink's Verify decision must be the reference's.
func (k *keyCase) verifyBoth(t *rapid.T, kind string, msg, ctx, sig []byte) bool {
	want := mldsaref.Verify(k.ps.ref, k.pkRef, msg, ctx, sig)
	vs, vm := k.buf.views(sig, msg)
	err, pan := noPanic(func() error { return k.pk.Verify(vm, vs, ctx) })
	if pan != nil {
		t.Fatalf("%v: candidate kind=%s: Verify PANICS: %v (reference Verify=%v)\nmsg = %x\nctx = %x\nsig = %x", k, kind, pan, want, msg, ctx, sig)
	}
	if (err == nil) != want {
		t.Fatalf("%v: candidate kind=%s: Verify err=%v, reference Verify=%v\nmsg = %x\nctx = %x\nsig = %x", k, kind, err, want, msg, ctx, sig)
	}
	return want
}

// verifyBothMu is the same oracle on the external-mu entry points.
func (k *keyCase) verifyBothMu(t *rapid.T, kind string, mu [64]byte, sig []byte) bool {
	want := mldsaref.VerifyMu(k.ps.ref, k.pkRef, mu, sig)
	vs, _ := k.buf.views(sig, nil)
	err, pan := noPanic(func() error { return k.pk.VerifyWithMu(mu, vs) })
	if pan != nil {
		t.Fatalf("%v: candidate kind=%s: VerifyWithMu PANICS: %v (reference VerifyMu=%v)\nmu  = %x\nsig = %x", k, kind, pan, want, mu, sig)
	}
	if (err == nil) != want {
		t.Fatalf("%v: candidate kind=%s: VerifyWithMu err=%v, reference VerifyMu=%v\nmu  = %x\nsig = %x", k, kind, err, want, mu, sig)
	}
	return want
}

// drawCtx draws a context: mostly valid lengths 0..255, sometimes too long. The kind of length is an
// equal-weight choice: the empty context (what every Tink primitive uses) in 6 of 20 draws, a
// non-empty one in at least 12 of 20 (rapid's IntRange made the empty one 61 %, which left the
// candidates that need a non-empty context out of most cases).
func drawCtx(t *rapid.T, label string, allowLong bool) []byte {
	var n int
	switch k := gen.Uniform(t, label+"_lkind", 20); {
	case k < 6:
		n = 0
	case k < 10:
		n = gen.Pick(t, label+"_ledge", []int{1, 2, 31, 32, 64, 127, 128, 254, 255})
	case k < 18 || !allowLong:
		n = rapid.IntRange(0, 255).Draw(t, label+"_len")
	default:
		n = rapid.SampledFrom([]int{256, 257, 300, 512}).Draw(t, label+"_llong")
	}
	return gen.BytesN(t, label, n)
}

// sigRegions returns the byte ranges of c~, z and the hint section of a signature.
func sigRegions(p *mldsaref.Params) (cEnd, zEnd, hEnd int) {
	return p.CTildeSize, p.SigSize - p.Omega - p.K, p.SigSize
}

func flipBit(b []byte, bit int) []byte {
	out := append([]byte{}, b...)
	out[bit/8] ^= 1 << (bit % 8)
	return out
}

// hintVariants returns modifications of the hint section of sig: well-formed re-encodings (one hint
// removed / added / moved) and malformed ones.
func hintVariants(t *rapid.T, p *mldsaref.Params, sig []byte) (out [][]byte, kinds []string) {
	_, zEnd, _ := sigRegions(p)
	y := sig[zEnd:]
	h, ok := mldsaref.HintBitUnpack(p, y)
	if !ok {
		return nil, nil
	}
	with := func(y2 []byte) []byte { return append(append([]byte{}, sig[:zEnd]...), y2...) }
	w := mldsaref.HintWeight(h)
	clone := func() []mldsaref.Poly { return append([]mldsaref.Poly{}, h...) }
	if w > 0 {
		// remove the n-th one
		n := rapid.IntRange(0, w-1).Draw(t, "hint_remove")
		h2 := clone()
	outer:
		for i := range h2 {
			for j := range h2[i] {
				if h2[i][j] != 0 {
					if n == 0 {
						h2[i][j] = 0
						break outer
					}
					n--
				}
			}
		}
		out, kinds = append(out, with(mldsaref.HintBitPack(p, h2))), append(kinds, "hint-removed(well-formed)")
	}
	if w < p.Omega {
		h2 := clone()
		for tries := 0; tries < 50; tries++ {
			i, j := rapid.IntRange(0, p.K-1).Draw(t, "hint_add_poly"), rapid.IntRange(0, 255).Draw(t, "hint_add_idx")
			if h2[i][j] == 0 {
				h2[i][j] = 1
				out, kinds = append(out, with(mldsaref.HintBitPack(p, h2))), append(kinds, "hint-added(well-formed)")
				break
			}
		}
		// fill up to exactly omega ones
		h3 := clone()
		s := &splitmix{rapid.Uint64().Draw(t, "hint_fill_seed")}
		for n := w; n < p.Omega; {
			i, j := s.intn(int64(p.K)), s.intn(256)
			if h3[i][j] == 0 {
				h3[i][j] = 1
				n++
			}
		}
		out, kinds = append(out, with(mldsaref.HintBitPack(p, h3))), append(kinds, "hint-filled-to-omega(well-formed)")
	}
	// malformed encodings that a lenient decoder would map to the SAME hint vector (so that the
	// signature would still verify): unsorted indices, a repeated index, non-zero padding
	om := p.Omega
	total := int(y[om+p.K-1])
	prev := 0
	var multi, nonEmpty []int // polynomials with >= 2 / >= 1 indices
	starts := make([]int, p.K)
	for i := 0; i < p.K; i++ {
		end := int(y[om+i])
		starts[i] = prev
		if end-prev >= 2 {
			multi = append(multi, i)
		}
		if end-prev >= 1 {
			nonEmpty = append(nonEmpty, i)
		}
		prev = end
	}
	if len(multi) > 0 {
		i := multi[rapid.IntRange(0, len(multi)-1).Draw(t, "hint_swap_poly")]
		j := rapid.IntRange(starts[i], int(y[om+i])-2).Draw(t, "hint_swap_at")
		y2 := append([]byte{}, y...)
		y2[j], y2[j+1] = y2[j+1], y2[j]
		out, kinds = append(out, with(y2)), append(kinds, "hint-unsorted(same hint vector)")
	}
	if len(nonEmpty) > 0 && total < om {
		i := nonEmpty[rapid.IntRange(0, len(nonEmpty)-1).Draw(t, "hint_dup_poly")]
		j := rapid.IntRange(starts[i], int(y[om+i])-1).Draw(t, "hint_dup_at")
		y2 := append([]byte{}, y[:j+1]...)
		y2 = append(y2, y[j])           // the repeated index
		y2 = append(y2, y[j+1:om-1]...) // the rest moves up by one (the last padding byte drops out)
		y2 = append(y2, y[om:]...)
		for c := i; c < p.K; c++ {
			y2[om+c]++
		}
		out, kinds = append(out, with(y2)), append(kinds, "hint-repeated-index(same hint vector)")
	}
	if total < om {
		y2 := append([]byte{}, y...)
		y2[rapid.IntRange(total, om-1).Draw(t, "hint_pad_at")] = byte(rapid.IntRange(1, 255).Draw(t, "hint_pad_val"))
		out, kinds = append(out, with(y2)), append(kinds, "hint-nonzero-padding(same hint vector)")
	}
	y2, kind := mutateHintEncoding(t, p, y)
	out, kinds = append(out, with(y2)), append(kinds, "hint-"+kind)
	return out, kinds
}

func TestScheme(t *testing.T) {
	rapid.Check(t, func(rt *rapid.T) {
		entropy := rapid.Uint64().Draw(rt, "entropy")
		detrand.Seed(entropy)
		ps := drawPset(rt)
		p := ps.ref
		seed := gen.BytesN(rt, "seed", 32)
		msg := gen.Bytes(rt, "msg", 2048)
		ctx := drawCtx(rt, "ctx", true)
		k := newKeyCase(rt, ps, seed)
		desc := func() string { return fmt.Sprintf("%v msg=%x ctx=%x", k, msg, ctx) }
		candidates := 0
		accepted := 0
		try := func(kind string, m, c, sig []byte) bool {
			candidates++
			ok := k.verifyBoth(rt, kind, m, c, sig)
			if ok {
				accepted++
			}
			return ok
		}

		// --- key encodings
		if tr, want := k.pk.TR(), mldsaref.H(64, k.pkRef); !bytes.Equal(tr[:], want) {
			rt.Fatalf("%v: cached tr = %x, reference H(pk, 64) = %x", k, tr, want)
		}
		pk2, err := ps.tk.DecodePublicKey(k.pkRef)
		if err != nil || !bytes.Equal(pk2.Encode(), k.pkRef) {
			rt.Fatalf("%v: DecodePublicKey(Encode(pk)) err=%v or re-encoding differs", k, err)
		}
		sk2, err := ps.tk.DecodeSecretKey(k.skRef)
		if err != nil || !bytes.Equal(sk2.Encode(), k.skRef) {
			rt.Fatalf("%v: DecodeSecretKey(Encode(sk)) err=%v or re-encoding differs", k, err)
		}
		if ps.tk.PublicKeyLength() != p.PKSize || ps.tk.SecretKeyLength() != p.SKSize {
			rt.Fatalf("%s: key lengths (%d, %d), FIPS 204 (%d, %d)", ps.name, ps.tk.PublicKeyLength(), ps.tk.SecretKeyLength(), p.PKSize, p.SKSize)
		}
		for _, bad := range [][]byte{k.pkRef[:len(k.pkRef)-1], append(append([]byte{}, k.pkRef...), 0), {}, append(append([]byte{}, k.pkRef...), k.pkRef...)} {
			if _, err := ps.tk.DecodePublicKey(bad); err == nil {
				rt.Fatalf("%s: DecodePublicKey accepts %d bytes (FIPS 204 length %d)", ps.name, len(bad), p.PKSize)
			}
		}
		for _, bad := range [][]byte{k.skRef[:len(k.skRef)-1], append(append([]byte{}, k.skRef...), 0), {}} {
			if _, err := ps.tk.DecodeSecretKey(bad); err == nil {
				rt.Fatalf("%s: DecodeSecretKey accepts %d bytes (FIPS 204 length %d)", ps.name, len(bad), p.SKSize)
			}
		}
		// bit packing is a bijection on byte strings: any public key string re-encodes to itself
		rpk := gen.BytesN(rt, "randompk", p.PKSize)
		if dpk, err := ps.tk.DecodePublicKey(rpk); err != nil || !bytes.Equal(dpk.Encode(), rpk) {
			rt.Fatalf("%s: DecodePublicKey(%x) err=%v or re-encoding differs", ps.name, rpk, err)
		}

		// --- context too long: error on both sides
		if len(ctx) > 255 {
			_, terr := k.sk.SignDeterministic(msg, ctx)
			_, terr2 := k.sk.Sign(msg, ctx)
			_, rerr := mldsaref.Sign(p, k.skRef, msg, ctx, [32]byte{})
			if terr == nil || terr2 == nil || rerr == nil {
				rt.Fatalf("%s: %d-byte context: SignDeterministic err=%v Sign err=%v reference err=%v", desc(), len(ctx), terr, terr2, rerr)
			}
			// a signature valid for the first 255 bytes of ctx must not verify for the long ctx
			sig, err := k.sk.SignDeterministic(msg, ctx[:255])
			if err != nil {
				rt.Fatalf("%s: SignDeterministic with 255-byte context: %v", desc(), err)
			}
			try("ctx-too-long", msg, ctx, sig)
			try("ctx-truncated-to-255", msg, ctx[:255], sig)
			evid.Add("verify_candidates", int64(candidates))
			evid.Case(ps.name+"/ctx>255", true, evid.NewH().S(ps.name).B(seed).B(msg).B(ctx).Sum(), func() any {
				return map[string]any{"key": k.String(), "msg": gen.Hex(msg), "ctxlen": len(ctx)}
			})
			return
		}

		// --- deterministic signature: byte-identical
		want, rerr := mldsaref.Sign(p, k.skRef, msg, ctx, [32]byte{})
		if rerr != nil {
			rt.Fatalf("harness: reference Sign failed: %v", rerr)
		}
		det, err := k.sk.SignDeterministic(msg, ctx)
		if err != nil {
			rt.Fatalf("%s: SignDeterministic: %v", desc(), err)
		}
		if !bytes.Equal(det, want) {
			rt.Fatalf("%s: SignDeterministic differs from the reference (rnd = 0)\ntink = %x\nref  = %x", desc(), det, want)
		}
		if det2, err := sk2.SignDeterministic(msg, ctx); err != nil || !bytes.Equal(det2, want) {
			rt.Fatalf("%s: SignDeterministic with the decoded secret key differs from the reference (err=%v)", desc(), err)
		}
		mPrime, _ := mldsaref.FormatMessage(msg, ctx)
		mu := mldsaref.ComputeMu(p, k.pkRef, mPrime)
		if got := k.sk.SignDeterministicWithMu(mu); !bytes.Equal(got, want) {
			rt.Fatalf("%s: SignDeterministicWithMu(mu=%x) differs from the reference\ntink = %x\nref  = %x", desc(), mu, got, want)
		}
		if !try("fresh-deterministic", msg, ctx, det) {
			rt.Fatalf("harness: reference rejects its own deterministic signature: %s", desc())
		}
		if pk2.Verify(msg, det, ctx) != nil {
			rt.Fatalf("%s: decoded public key rejects the deterministic signature", desc())
		}
		k.verifyBothMu(rt, "fresh-deterministic", mu, det)

		// --- sigDecode / sigEncode / w1Encode on this signature's components
		{
			rc, rz, rh, ok := mldsaref.SigDecode(p, det)
			tc, tz, th, terr := imldsa.VerifSigDecode(ps.tk, det)
			if !ok || terr != nil {
				rt.Fatalf("%s: sigDecode err=%v, reference SigDecode ok=%v on the deterministic signature", desc(), terr, ok)
			}
			if i, j := vecFirstDiff(vecToRef(tz), rz); !bytes.Equal(tc, rc) || i != -1 {
				rt.Fatalf("%s: sigDecode: c~ or z (polynomial %d coefficient %d) differs from the reference\nsig = %x", desc(), i, j, det)
			}
			if i, j := vecFirstDiff(vecToRef(th), rh); i != -1 {
				rt.Fatalf("%s: sigDecode: hint differs from the reference at polynomial %d coefficient %d\nsig = %x", desc(), i, j, det)
			}
			if got := imldsa.VerifSigEncode(ps.tk, rc, vecFromRef(rz), vecFromRef(rh)); !bytes.Equal(got, det) {
				rt.Fatalf("%s: sigEncode(sigDecode(sig)) differs from sig\ntink = %x\nsig  = %x", desc(), got, det)
			}
			// w1: K polynomials with coefficients in [0, (q-1)/(2*gamma2) - 1]
			s := &splitmix{entropy}
			w1 := make([]mldsaref.Poly, p.K)
			m := int64((q - 1) / (2 * p.Gamma2))
			for i := range w1 {
				for j := range w1[i] {
					w1[i][j] = s.intn(m)
				}
			}
			if got, want := imldsa.VerifW1Encode(ps.tk, vecFromRef(w1)), mldsaref.W1Encode(p, w1); !bytes.Equal(got, want) {
				rt.Fatalf("%s: w1Encode of the vector expanded from seed %#x (coefficients uniform in [0,%d)) differs from the reference\ntink = %x\nref  = %x", ps.name, entropy, m, got, want)
			}
		}

		// --- explicit randomness through the hook: byte-identical for any rnd
		rnd := gen.BytesN(rt, "rnd", 32)
		wantR := mldsaref.SignInternal(p, k.skRef, mPrime, arr32(rnd))
		if got := imldsa.VerifSignInternal(k.sk, mPrime, arr32(rnd)); !bytes.Equal(got, wantR) {
			rt.Fatalf("%s: signInternal(M', rnd=%x) differs from the reference\ntink = %x\nref  = %x", desc(), rnd, got, wantR)
		}
		if got := imldsa.VerifSignInternalWithMu(k.sk, mu, arr32(rnd)); !bytes.Equal(got, wantR) {
			rt.Fatalf("%s: signInternalWithMu(mu, rnd=%x) differs from the reference", desc(), rnd)
		}
		if (imldsa.VerifVerifyInternal(k.pk, mPrime, wantR) == nil) != mldsaref.VerifyInternal(p, k.pkRef, mPrime, wantR) {
			rt.Fatalf("%s: verifyInternal disagrees with the reference on the signature for rnd=%x", desc(), rnd)
		}
		try("reference-signed(rnd)", msg, ctx, wantR)

		// --- hedged signatures (process randomness is a function of the drawn entropy)
		detrand.Seed(entropy)
		hedged, err := k.sk.Sign(msg, ctx)
		if err != nil {
			rt.Fatalf("%s: Sign: %v", desc(), err)
		}
		if !try("fresh-hedged", msg, ctx, hedged) {
			rt.Fatalf("%s: hedged signature (entropy %#x) does not verify (Tink and reference agree)\nsig = %x", desc(), entropy, hedged)
		}
		hedgedMu := k.sk.SignWithMu(mu)
		if !k.verifyBothMu(rt, "fresh-hedged-mu", mu, hedgedMu) {
			rt.Fatalf("%s: SignWithMu signature (entropy %#x) does not verify\nsig = %x", desc(), entropy, hedgedMu)
		}
		try("fresh-hedged-mu-as-message-signature", msg, ctx, hedgedMu)
		if bytes.Equal(hedged, det) {
			evid.Add("hedged_equals_deterministic", 1)
		}

		// --- Verify equivalence on modified candidates
		sig := det
		if rapid.Bool().Draw(rt, "base_hedged") {
			sig = hedged
		}
		cEnd, zEnd, hEnd := sigRegions(p)
		try("flip-ctilde", msg, ctx, flipBit(sig, rapid.IntRange(0, 8*cEnd-1).Draw(rt, "bit_c")))
		try("flip-z", msg, ctx, flipBit(sig, rapid.IntRange(8*cEnd, 8*zEnd-1).Draw(rt, "bit_z")))
		try("flip-hint-indices", msg, ctx, flipBit(sig, rapid.IntRange(8*zEnd, 8*(zEnd+p.Omega)-1).Draw(rt, "bit_h")))
		try("flip-hint-counts", msg, ctx, flipBit(sig, rapid.IntRange(8*(zEnd+p.Omega), 8*hEnd-1).Draw(rt, "bit_hc")))
		try("flip-any", msg, ctx, flipBit(sig, rapid.IntRange(0, 8*hEnd-1).Draw(rt, "bit_any")))
		try("len-1", msg, ctx, sig[:len(sig)-1])
		try("len+1", msg, ctx, append(append([]byte{}, sig...), 0))
		try("len-0", msg, ctx, []byte{})
		try("len-double", msg, ctx, append(append([]byte{}, sig...), sig...))
		try("drop-first", msg, ctx, sig[1:])
		mm := gen.Mutate(rt, "msgmut", msg)
		try("other-message/"+mm.Kind, mm.Out, ctx, sig)
		// another context, different by construction (two empty draws, or the shrinker, gave ctx2 == ctx:
		// the candidate was then the genuine input)
		ctx2 := drawCtx(rt, "ctx2", false)
		if bytes.Equal(ctx2, ctx) {
			if len(ctx2) == 0 {
				ctx2 = []byte{rapid.Byte().Draw(rt, "ctx2_byte")}
			} else {
				ctx2 = flipBit(ctx2, rapid.IntRange(0, 8*len(ctx2)-1).Draw(rt, "ctx2_bit"))
			}
			evid.Add("other_ctx_made_different", 1)
		}
		try("other-ctx", msg, ctx2, sig)
		if len(ctx) > 0 {
			try("ctx-dropped", msg, nil, sig)
			try("ctx-moved-into-message", append(append([]byte{}, ctx...), msg...), nil, sig)
			// the FIPS 204 framing 0 || len(ctx) || ctx moved into the message, signed-for context empty
			try("ctx-framing-moved-into-message", append(append([]byte{0, byte(len(ctx))}, ctx...), msg...), nil, sig)
			evid.Add("ctx_dropped_candidates", 3)
		}
		try("random-bytes", msg, ctx, gen.BytesN(rt, "randomsig", p.SigSize))
		sm := gen.Mutate(rt, "sigmut", sig)
		try("sig-"+sm.Kind, msg, ctx, sm.Out)
		hv, hk := hintVariants(rt, p, sig)
		for i := range hv {
			try(hk[i], msg, ctx, hv[i])
		}
		// z coefficient on the encoding boundary: field 0 -> z = gamma1, field all-ones -> z = -(gamma1-1)
		{
			bitsPerCoef := 8 * (zEnd - cEnd) / (256 * p.L)
			coef := rapid.IntRange(0, 256*p.L-1).Draw(rt, "zcoef")
			ones := rapid.Bool().Draw(rt, "zones")
			out := append([]byte{}, sig...)
			for b := 0; b < bitsPerCoef; b++ {
				bit := 8*cEnd + coef*bitsPerCoef + b
				if ones {
					out[bit/8] |= 1 << (bit % 8)
				} else {
					out[bit/8] &^= 1 << (bit % 8)
				}
			}
			try(fmt.Sprintf("z-coefficient-extreme(ones=%v)", ones), msg, ctx, out)
		}
		// other public key / other secret key
		seed2 := gen.BytesN(rt, "seed2", 32)
		if bytes.Equal(seed2, seed) {
			seed2 = flipBit(seed2, rapid.IntRange(0, 255).Draw(rt, "seed2_bit")) // another key by construction
			evid.Add("other_key_seed_made_different", 1)
		}
		k2 := newKeyCase(rt, ps, seed2)
		candidates++
		if k2.verifyBoth(rt, "other-public-key", msg, ctx, sig) {
			accepted++
		}
		// another parameter set's verifier on these bytes (length differs: must be rejected by both)
		other := psets[(rapid.IntRange(1, 2).Draw(rt, "otherpset")+indexOf(ps))%3]
		if opk, err := other.tk.DecodePublicKey(gen.Expand(entropy, other.ref.PKSize)); err == nil {
			want := mldsaref.Verify(other.ref, opk.Encode(), msg, ctx, sig)
			if (opk.Verify(msg, sig, ctx) == nil) != want {
				rt.Fatalf("%s: %s verifier on a %s signature: Tink and reference disagree (reference %v)", desc(), other.name, ps.name, want)
			}
			candidates++
		}

		evid.Add("verify_candidates", int64(candidates))
		evid.Add("verify_candidates_accepted", int64(accepted))
		evid.Add("candidates_in_reused_buffers", int64(k.buf.reused))
		class := fmt.Sprintf("%s/msg=%s/ctx=%s", ps.name, gen.LenClass(len(msg)), ctxClass(len(ctx)))
		evid.Case(class, true, evid.NewH().S(ps.name).B(seed).B(msg).B(ctx).B(rnd).I(int64(entropy)).Sum(), func() any {
			return map[string]any{"key": k.String(), "msg": gen.Hex(msg), "ctx": gen.Hex(ctx), "rnd": fullHex(rnd), "entropy": entropy, "candidates": candidates, "accepted": accepted, "sig": hashHex(det)}
		})
	})
}

func indexOf(ps pset) int {
	for i := range psets {
		if psets[i].name == ps.name {
			return i
		}
	}
	panic("unknown parameter set")
}

func ctxClass(n int) string {
	switch {
	case n == 0:
		return "0"
	case n == 255:
		return "255"
	case n > 255:
		return ">255"
	}
	return "1-254"
}

// ---- L4: boundary signatures crafted with the secret key ----------------------------------------

// craftKind is one acceptance predicate for the reference signing loop.
type craftKind struct {
	name string
	// accept builds the predicate for parameter set p.
	accept func(p *mldsaref.Params) func(zInf, r0Inf, ct0Inf int64, w int) bool
	// expect is the decision FIPS 204 Verify must take on such a signature: +1 accept, -1 reject,
	// 0 not determined by the construction.
	expect int
}

func restStandard(p *mldsaref.Params, r0Inf, ct0Inf int64, w int) bool {
	return r0Inf < int64(p.Gamma2-p.Beta) && ct0Inf < int64(p.Gamma2) && w <= p.Omega
}

var craftKinds = []craftKind{
	{"znorm=gamma1-beta-1", func(p *mldsaref.Params) func(int64, int64, int64, int) bool {
		return func(z, r0, ct0 int64, w int) bool {
			return z == int64(p.Gamma1-p.Beta-1) && restStandard(p, r0, ct0, w)
		}
	}, +1},
	{"znorm=gamma1-beta", func(p *mldsaref.Params) func(int64, int64, int64, int) bool {
		return func(z, r0, ct0 int64, w int) bool {
			return z == int64(p.Gamma1-p.Beta) && restStandard(p, r0, ct0, w)
		}
	}, -1},
	{"hintweight=omega", func(p *mldsaref.Params) func(int64, int64, int64, int) bool {
		return func(z, r0, ct0 int64, w int) bool {
			return w == p.Omega && z < int64(p.Gamma1-p.Beta) && restStandard(p, r0, ct0, w)
		}
	}, +1},
	{"znorm-in-[gamma1-beta-3,gamma1-beta-1]", func(p *mldsaref.Params) func(int64, int64, int64, int) bool {
		return func(z, r0, ct0 int64, w int) bool {
			return z >= int64(p.Gamma1-p.Beta-3) && z <= int64(p.Gamma1-p.Beta-1) && restStandard(p, r0, ct0, w)
		}
	}, +1},
	{"znorm-in-[gamma1-beta,gamma1-beta+2]", func(p *mldsaref.Params) func(int64, int64, int64, int) bool {
		return func(z, r0, ct0 int64, w int) bool {
			return z >= int64(p.Gamma1-p.Beta) && z <= int64(p.Gamma1-p.Beta+2) && restStandard(p, r0, ct0, w)
		}
	}, -1},
	{"hintweight>=omega-1", func(p *mldsaref.Params) func(int64, int64, int64, int) bool {
		return func(z, r0, ct0 int64, w int) bool {
			return w >= p.Omega-1 && z < int64(p.Gamma1-p.Beta) && restStandard(p, r0, ct0, w)
		}
	}, +1},
	// the signer would reject (low bits too large) but the verifier cannot see that: whether the
	// hint still recovers w1 is decided by the reference alone
	{"r0norm>=gamma2-beta", func(p *mldsaref.Params) func(int64, int64, int64, int) bool {
		return func(z, r0, ct0 int64, w int) bool {
			return r0 >= int64(p.Gamma2-p.Beta) && z < int64(p.Gamma1-p.Beta) && ct0 < int64(p.Gamma2) && w <= p.Omega
		}
	}, 0},
	{"r0norm>=gamma2-beta/8", func(p *mldsaref.Params) func(int64, int64, int64, int) bool {
		return func(z, r0, ct0 int64, w int) bool {
			return r0 >= int64(p.Gamma2-p.Beta/8) && z < int64(p.Gamma1-p.Beta) && ct0 < int64(p.Gamma2) && w <= p.Omega
		}
	}, 0},
}

// craftCallIter bounds one SignMuCustom call (the 16-bit counter kappa = iteration * l must not wrap),
// craftCalls the number of calls (each with a fresh rnd) per case.
const craftCallIter = 4000

func craftCalls() int {
	return int(evid.EnvInt("VERIF_CRAFT_CALLS", 6))
}

// TestDeviatingSigner: signatures of a signer that knows the secret key and replaces the
// commitment hash c~ by a value differing in one drawn bit (any of its lambda/4 bytes) before
// sampling the challenge, then finishes the signature consistently. FIPS 204 verification
// recomputes c~' and compares all lambda/4 bytes; flipping bits of an honest signature cannot
// reach this (the challenge, hence w1', changes). Two-sided against the reference, like every
// other candidate. (Added after seeded change C10f, which compared only the first 32 bytes of c~:
// wrong for ML-DSA-65 / -87 only.)
func TestDeviatingSigner(t *testing.T) {
	rapid.Check(t, func(rt *rapid.T) {
		entropy := rapid.Uint64().Draw(rt, "entropy")
		detrand.Seed(entropy)
		ps := drawPset(rt)
		p := ps.ref
		seed := gen.BytesN(rt, "seed", 32)
		msg := gen.Bytes(rt, "msg", 128)
		ctx := drawCtx(rt, "ctx", false)
		k := newKeyCase(rt, ps, seed)
		mPrime, _ := mldsaref.FormatMessage(msg, ctx)
		mu := mldsaref.ComputeMu(p, k.pkRef, mPrime)
		var rnd [32]byte
		copy(rnd[:], gen.BytesN(rt, "rnd", 32))
		// the tail (bytes from 32 on, absent for ML-DSA-44) is drawn as often as the head
		pos := rapid.IntRange(0, p.CTildeSize-1).Draw(rt, "ctilde_byte")
		if p.CTildeSize > 32 && rapid.Bool().Draw(rt, "tail") {
			pos = rapid.IntRange(32, p.CTildeSize-1).Draw(rt, "ctilde_tail_byte")
		}
		bit := rapid.IntRange(0, 7).Draw(rt, "ctilde_bit")
		tamper := func(c []byte) []byte {
			out := bytes.Clone(c)
			out[pos] ^= 1 << bit
			return out
		}
		sig, ok := mldsaref.SignMuDeviating(p, k.skRef, mu, rnd, tamper, mldsaref.StandardAccept(p), 2000)
		key := fmt.Sprintf("%s/ctilde-byte=%s", ps.name, map[bool]string{true: ">=32", false: "<32"}[pos >= 32])
		if !ok {
			evid.Case(key+"/not-produced", false, 0, nil)
			return
		}
		desc := fmt.Sprintf("%v msg=%x ctx=%x deviating signer: c~ byte %d bit %d replaced before sampling the challenge, rnd=%x", k, msg, ctx, pos, bit, rnd)
		okRef := k.verifyBoth(rt, "deviating-signer", msg, ctx, sig)
		okMu := k.verifyBothMu(rt, "deviating-signer", mu, sig)
		if okRef || okMu {
			rt.Fatalf("harness: the reference accepts a signature whose c~ was replaced: %s\nsig = %x", desc, sig)
		}
		evid.Add("deviating_signatures", 1)
		evid.Case(key, true, evid.NewH().S(ps.name).B(seed).B(msg).B(ctx).I(int64(pos*8+bit)).Sum(), func() any {
			return map[string]any{"set": ps.name, "ctilde_byte": pos, "bit": bit, "msg_len": len(msg)}
		})
	})
}

func TestBoundarySignatures(t *testing.T) {
	rapid.Check(t, func(rt *rapid.T) {
		entropy := rapid.Uint64().Draw(rt, "entropy")
		detrand.Seed(entropy)
		ps := drawPset(rt)
		p := ps.ref
		ck := gen.Pick(rt, "kind", craftKinds)
		seed := gen.BytesN(rt, "seed", 32)
		msg := gen.Bytes(rt, "msg", 256)
		ctx := drawCtx(rt, "ctx", false)
		// every second case signs for the empty context: that is the only one signature/mldsa uses, so
		// the crafted signature can also be put before that package's verifier (below)
		throughAPI := gen.OneIn(rt, "through_signature_mldsa", 2)
		if throughAPI {
			ctx = []byte{}
		}
		rndSeed := rapid.Uint64().Draw(rt, "rndseed")
		k := newKeyCase(rt, ps, seed)
		mPrime, _ := mldsaref.FormatMessage(msg, ctx)
		mu := mldsaref.ComputeMu(p, k.pkRef, mPrime)
		var sig []byte
		var rnd [32]byte
		calls := 0
		for calls < craftCalls() && sig == nil {
			copy(rnd[:], gen.Expand(rndSeed+uint64(calls), 32))
			calls++
			if s, ok := mldsaref.SignMuCustom(p, k.skRef, mu, rnd, ck.accept(p), craftCallIter); ok {
				sig = s
			}
		}
		evid.Add("craft_signing_loops", int64(calls))
		key := ps.name + "/" + ck.name
		if sig == nil {
			evid.Add("crafted_none/"+key, 1)
			evid.Case(key+"/not-produced", false, 0, nil)
			return
		}
		evid.Add("crafted/"+key, 1)
		desc := fmt.Sprintf("%v msg=%x ctx=%x crafted kind=%s rnd=%x (call %d)", k, msg, ctx, ck.name, rnd, calls)
		ok := k.verifyBoth(rt, "crafted:"+ck.name, msg, ctx, sig)
		okMu := k.verifyBothMu(rt, "crafted:"+ck.name, mu, sig)
		if ok != okMu {
			rt.Fatalf("harness: reference Verify=%v but VerifyMu=%v on %s", ok, okMu, desc)
		}
		if (ck.expect > 0 && !ok) || (ck.expect < 0 && ok) {
			rt.Fatalf("harness: reference Verify=%v on a crafted signature whose construction fixes the FIPS 204 decision (%+d): %s\nsig = %x", ok, ck.expect, desc, sig)
		}
		if ok {
			evid.Add("crafted_accepted/"+key, 1)
		} else {
			evid.Add("crafted_rejected/"+key, 1)
		}
		// the crafted signature behind the key's output prefix through signature/mldsa (a drawn variant, id
		// and route of the same seed): "Verify accepts exactly the byte strings the reference accepts,
		// including signatures on the norm, hint-count and encoding boundaries" is stated for Verify as
		// observed through signature.NewVerifier too, and an honest signer practically never produces
		// these signatures, so TestTinkMLDSA's own candidates do not reach them.
		if throughAPI {
			c := newAPICase(rt, ps, gen.Pick(rt, "variant", mldsaVariants), gen.KeyID(rt, "id"), gen.Pick(rt, "route", []string{"handle", "key"}), seed)
			got := c.try(rt, "crafted:"+ck.name+"/through-signature-mldsa", append(append([]byte{}, c.prefix...), sig...), msg)
			if got != ok {
				rt.Fatalf("harness: the reference decision on prefix || crafted signature (%v) differs from the one on the crafted signature (%v): %v %s", got, ok, c, desc)
			}
			evid.Add(fmt.Sprintf("crafted_through_signature_mldsa/%s/%s", ck.name, map[bool]string{true: "acc", false: "rej"}[got]), 1)
		}
		// what was crafted, measured on the encoded signature
		_, z, h, dok := mldsaref.SigDecode(p, sig)
		zInf, weight := int64(-1), -1
		if dok {
			zInf, weight = mldsaref.VecInfNorm(z), mldsaref.HintWeight(h)
			_, tz, th, terr := imldsa.VerifSigDecode(ps.tk, sig)
			if terr != nil {
				rt.Fatalf("%s: sigDecode rejects a signature the reference decodes: %v\nsig = %x", desc, terr, sig)
			}
			if int64(imldsa.VerifVectorInfinityNorm(tz)) != zInf || imldsa.VerifVectorNumOnes(th) != weight {
				rt.Fatalf("%s: decoded (|z|inf, hint weight) = (%d, %d), reference (%d, %d)\nsig = %x", desc, imldsa.VerifVectorInfinityNorm(tz), imldsa.VerifVectorNumOnes(th), zInf, weight, sig)
			}
		}
		// neighbours of the crafted signature: same mutations as for ordinary signatures
		cEnd, zEnd, _ := sigRegions(p)
		n := 2
		k.verifyBoth(rt, "crafted+flip-z", msg, ctx, flipBit(sig, rapid.IntRange(8*cEnd, 8*zEnd-1).Draw(rt, "bit_z")))
		mm := gen.Mutate(rt, "msgmut", msg)
		k.verifyBoth(rt, "crafted+other-message", mm.Out, ctx, sig)
		hv, hk := hintVariants(rt, p, sig)
		for i := range hv {
			k.verifyBoth(rt, "crafted+"+hk[i], msg, ctx, hv[i])
			n++
		}
		if throughAPI {
			n++
		}
		evid.Add("verify_candidates", int64(n+2))
		evid.Case(key+"/produced", true, evid.NewH().S(ps.name).S(ck.name).B(seed).B(msg).B(ctx).I(int64(rndSeed)).Sum(), func() any {
			return map[string]any{"case": desc, "reference_accepts": ok, "z_inf": zInf, "gamma1-beta": p.Gamma1 - p.Beta, "hint_weight": weight, "omega": p.Omega, "sig": hashHex(sig)}
		})
	})
}

// ---- L4: the fourth rejection test of the signing loop ------------------------------------------

// loudLoopLimit bounds the reference loop of one TestLoudT0Signing signature (kappa = iteration * l
// stays far below 2^16).
const loudLoopLimit = 3000

// TestLoudT0Signing: FIPS 204 Algorithm 7 rejects an iteration also when ||c*t0||inf >= gamma2
// (line 28). For keys made by KeyGen that test practically never decides: t0 is uniform in
// (-2^12, 2^12], so c*t0 stays far below gamma2. ML-DSA.Sign_internal is defined on every secret key
// ENCODING that skDecode accepts, so the unit signs with the encoding of an honest key in which some
// polynomials of t0 are replaced by coefficients of the largest magnitude (+2^12 or -(2^12-1), drawn
// signs): each coefficient of c*t0 is then a sum of tau terms +-2^12 and reaches gamma2 = 95232 of
// ML-DSA-44 in a sizeable fraction of the iterations (for ML-DSA-65/-87 tau * 2^12 < gamma2: the
// test can never decide there, whatever the key; those sets only see large hints). The library
// (DecodeSecretKey, then the deterministic, external-mu and explicit-rnd entry points) must produce
// the reference's signature for the same key bytes, byte for byte. Every reference iteration is
// classified by the tests that reject it; an iteration rejected by the c*t0 test ALONE is one where
// an implementation without that test would return another signature.
func TestLoudT0Signing(t *testing.T) {
	rapid.Check(t, func(rt *rapid.T) {
		entropy := rapid.Uint64().Draw(rt, "entropy")
		detrand.Seed(entropy)
		ps := psets[0]
		if rapid.IntRange(0, 9).Draw(rt, "other_set") >= 7 {
			ps = psets[rapid.IntRange(1, 2).Draw(rt, "pset")]
		}
		p := ps.ref
		seed := gen.BytesN(rt, "seed", 32)
		msg := gen.Bytes(rt, "msg", 256)
		ctx := drawCtx(rt, "ctx", false)
		rnd := arr32(gen.BytesN(rt, "rnd", 32))
		// more loud polynomials: more c*t0 rejections, but also more hint-weight rejections (about 27 ones
		// per loud polynomial for ML-DSA-44, omega = 80)
		loud := rapid.IntRange(1, p.K/2+1).Draw(rt, "loud_polys")
		signSeed := rapid.Uint64().Draw(rt, "t0_signs")
		quiet := rapid.SampledFrom([]string{"honest", "zero"}).Draw(rt, "quiet_polys")

		k := newKeyCase(rt, ps, seed)
		rho, key, tr, s1, s2, t0, ok := mldsaref.SKDecode(p, k.skRef)
		if !ok {
			rt.Fatalf("harness: reference cannot decode its own secret key")
		}
		sm := &splitmix{signSeed}
		first := int(sm.intn(int64(p.K)))
		for i := 0; i < p.K; i++ {
			isLoud := (i-first+p.K)%p.K < loud
			for j := range t0[i] {
				switch {
				case isLoud && sm.next()&1 == 0:
					t0[i][j] = 1 << 12
				case isLoud:
					t0[i][j] = mldsaref.Mod(-(1<<12 - 1))
				case quiet == "zero":
					t0[i][j] = 0
				}
			}
		}
		skBytes := mldsaref.SKEncode(p, rho, key, tr, s1, s2, t0)
		desc := fmt.Sprintf("%s: secret key encoding of seed %x with t0 polynomials %d..%d (mod %d) replaced by +2^12 / -(2^12-1) (signs from splitmix seed %#x, other polynomials %s) sk=%s msg=%x ctx=%x rnd=%x",
			ps.name, seed, first, first+loud-1, p.K, signSeed, quiet, fullHex(skBytes), msg, ctx, rnd)

		sk, err := ps.tk.DecodeSecretKey(bytes.Clone(skBytes))
		if err != nil {
			rt.Fatalf("%s: DecodeSecretKey: %v", desc, err)
		}
		if got := sk.Encode(); !bytes.Equal(got, skBytes) {
			rt.Fatalf("%s: Encode(DecodeSecretKey(sk)) differs from sk\ntink = %x", desc, got)
		}
		mPrime, _ := mldsaref.FormatMessage(msg, ctx)
		mu := mldsaref.ComputeMu(p, tr, mPrime)

		std := mldsaref.StandardAccept(p)
		type tally struct{ iters, z, r0, ct0, hint, ct0Sole, ct0OrHintOnly int }
		signRef := func(rnd [32]byte) ([]byte, tally) {
			var tl tally
			accept := func(zInf, r0Inf, ct0Inf int64, w int) bool {
				tl.iters++
				bz, br, bc, bh := zInf >= int64(p.Gamma1-p.Beta), r0Inf >= int64(p.Gamma2-p.Beta), ct0Inf >= int64(p.Gamma2), w > p.Omega
				for _, c := range []struct {
					hit bool
					n   *int
				}{{bz, &tl.z}, {br, &tl.r0}, {bc, &tl.ct0}, {bh, &tl.hint}, {bc && !bz && !br && !bh, &tl.ct0Sole}, {(bc || bh) && !bz && !br, &tl.ct0OrHintOnly}} {
					if c.hit {
						*c.n++
					}
				}
				return std(zInf, r0Inf, ct0Inf, w)
			}
			sig, ok := mldsaref.SignMuCustom(p, skBytes, mu, rnd, accept, loudLoopLimit)
			if !ok {
				return nil, tl
			}
			return sig, tl
		}
		want, tl := signRef([32]byte{})
		wantR, tlR := signRef(rnd)
		evid.Add("loud_reference_iterations", int64(tl.iters+tlR.iters))
		evid.Add("loud_rejected_by/z-norm", int64(tl.z+tlR.z))
		evid.Add("loud_rejected_by/r0-norm", int64(tl.r0+tlR.r0))
		evid.Add("loud_rejected_by/ct0-norm", int64(tl.ct0+tlR.ct0))
		evid.Add("loud_rejected_by/hint-weight", int64(tl.hint+tlR.hint))
		evid.Add("loud_rejected_by/ct0-norm-alone", int64(tl.ct0Sole+tlR.ct0Sole))
		evid.Add("loud_rejected_by/second-stage-only(ct0-or-hint)", int64(tl.ct0OrHintOnly+tlR.ct0OrHintOnly))
		class := fmt.Sprintf("loud-t0/%s/loud=%d", ps.name, loud)
		if want == nil || wantR == nil {
			// the reference did not finish within the bound: nothing to compare (counted, not hidden)
			evid.Case(class+"/reference-loop-bound-reached", false, 0, nil)
			return
		}
		if got, err := sk.SignDeterministic(msg, ctx); err != nil || !bytes.Equal(got, want) {
			rt.Fatalf("%s: SignDeterministic (err=%v) differs from the reference's Sign_internal with rnd = 0 on the same key bytes (reference: %d iterations, rejected by z/r0/ct0/hint in %d/%d/%d/%d, by ct0 alone in %d)\ntink = %x\nref  = %x",
				desc, err, tl.iters, tl.z, tl.r0, tl.ct0, tl.hint, tl.ct0Sole, got, want)
		}
		if got := sk.SignDeterministicWithMu(mu); !bytes.Equal(got, want) {
			rt.Fatalf("%s: SignDeterministicWithMu(mu=%x) differs from the reference on the same key bytes\ntink = %x\nref  = %x", desc, mu, got, want)
		}
		if got := imldsa.VerifSignInternalWithMu(sk, mu, rnd); !bytes.Equal(got, wantR) {
			rt.Fatalf("%s: signInternalWithMu(mu, rnd) differs from the reference on the same key bytes (reference: %d iterations, by ct0 alone %d)\ntink = %x\nref  = %x", desc, tlR.iters, tlR.ct0Sole, got, wantR)
		}
		if got := imldsa.VerifSignInternal(sk, mPrime, rnd); !bytes.Equal(got, wantR) {
			rt.Fatalf("%s: signInternal(M', rnd) differs from the reference on the same key bytes\ntink = %x\nref  = %x", desc, got, wantR)
		}
		// the honest public key's verdict on these signatures (t0 is not the one behind t1): reference decides
		k.verifyBoth(rt, "loud-t0-signature(rnd=0)", msg, ctx, want)
		k.verifyBoth(rt, "loud-t0-signature(rnd)", msg, ctx, wantR)
		evid.Add("loud_signatures_compared", 4)
		sole := tl.ct0Sole+tlR.ct0Sole > 0
		evid.Case(fmt.Sprintf("%s/ct0-alone-rejections=%v", class, sole), true,
			evid.NewH().S(ps.name).B(seed).I(int64(loud)).I(int64(signSeed)).S(quiet).B(msg).B(ctx).B(rnd[:]).Sum(), func() any {
				return map[string]any{"set": ps.name, "seed": fullHex(seed), "loud": loud, "first": first, "t0_signs": signSeed, "quiet": quiet, "msg": gen.Hex(msg),
					"iterations": []int{tl.iters, tlR.iters}, "ct0_alone": []int{tl.ct0Sole, tlR.ct0Sole}, "sig": hashHex(want)}
			})
	})
}
