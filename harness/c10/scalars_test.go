package c10

import (
	"fmt"
	"sort"
	"testing"

	"pgregory.net/rapid"

	imldsa "github.com/tink-crypto/tink-go/v2/internal/signature/mldsa"
	"github.com/tink-crypto/tink-go/v2/verifharness/internal/detrand"
	"github.com/tink-crypto/tink-go/v2/verifharness/internal/evid"
	"github.com/tink-crypto/tink-go/v2/verifharness/internal/ref/mldsaref"
)

// L1: scalar arithmetic of internal/signature/mldsa/algebra.go against the FIPS 204 definitions.
//
// Contracts read from algebra.go (only in-contract inputs are fed):
//   reduceOnce        input in [0, 2q)                    -> input mod q
//   add, sub, mul     both inputs in [0, q)               -> result in [0, q)
//   neg               input in [0, q)
//   power2Round       input in [0, q)                     -> (r1, r0 mod q)
//   scalePower2       input in [0, 2^10) (a t1 coefficient) -> input * 2^13 (< q)
//   decompose & co.   input in [0, q), gamma2 in {(q-1)/88, (q-1)/32} -> (r1, r0 mod q)
//   z.makeHint(g, r)  MakeHint(z, r) of FIPS 204, z, r in [0, q)
//   r.useHint(g, h)   UseHint(h, r) of FIPS 204, h in {0, 1}
//   centeredAbs       input in [0, q)                     -> |input mod+- q|
//   a.centeredMax(b)  one of a, b with the larger centered absolute value
//
// Tink returns the signed quantities r0 as representatives mod q; the reference returns centered
// integers, so they are compared mod q.

// shardRange returns the contiguous slice [lo, hi) of [0, n) that belongs to this shard.
func shardRange(n int64) (lo, hi int64) {
	shard := evid.EnvInt("VERIF_SHARD", 0)
	nsh := evid.EnvInt("VERIF_NSHARDS", 1)
	if nsh < 1 || shard < 0 || shard >= nsh {
		shard, nsh = 0, 1
	}
	return n * shard / nsh, n * (shard + 1) / nsh
}

func TestScalarsExhaustive(t *testing.T) {
	if imldsa.VerifQ != q {
		t.Fatalf("modulus q = %d, FIPS 204 q = %d", imldsa.VerifQ, q)
	}
	// reduceOnce on [0, 2q)
	lo2, hi2 := shardRange(2 * q)
	for a := lo2; a < hi2; a++ {
		if got, want := int64(imldsa.VerifReduceOnce(imldsa.VerifZq(a))), a%q; got != want {
			t.Fatalf("reduceOnce(%d) = %d, FIPS 204 (a mod q) = %d", a, got, want)
		}
	}
	evid.Bulk("reduceOnce[0,2q)", hi2-lo2)

	lo, hi := shardRange(q)
	n := hi - lo
	for a := lo; a < hi; a++ {
		x := imldsa.VerifZq(a)
		if got, want := int64(imldsa.VerifNeg(x)), mldsaref.Mod(-a); got != want {
			t.Fatalf("neg(%d) = %d, reference %d", a, got, want)
		}
		if got, want := int64(imldsa.VerifCenteredAbs(x)), mldsaref.CenteredAbs(a); got != want {
			t.Fatalf("centeredAbs(%d) = %d, reference |a mod+- q| = %d", a, got, want)
		}
		r1, r0 := imldsa.VerifPower2Round(x)
		w1, w0 := mldsaref.Power2Round(a)
		if int64(r1) != w1 || int64(r0) != mldsaref.Mod(w0) {
			t.Fatalf("power2Round(%d) = (%d, %d), reference (%d, %d mod q = %d)", a, r1, r0, w1, w0, mldsaref.Mod(w0))
		}
		if a < 1<<10 {
			if got, want := int64(imldsa.VerifScalePower2(x)), mldsaref.Mod(a<<mldsaref.D); got != want {
				t.Fatalf("scalePower2(%d) = %d, reference a*2^d mod q = %d", a, got, want)
			}
		}
	}
	evid.Bulk("neg", n)
	evid.Bulk("centeredAbs", n)
	evid.Bulk("power2Round", n)
	if lo < 1<<10 {
		evid.Bulk("scalePower2[0,2^10)", min(hi, 1<<10)-lo)
	}

	for _, g := range gamma2s {
		g32 := uint32(g)
		for a := lo; a < hi; a++ {
			x := imldsa.VerifZq(a)
			w1, w0 := mldsaref.Decompose(a, g)
			w0q := mldsaref.Mod(w0)
			r1, r0 := imldsa.VerifDecompose(x, g32)
			if int64(r1) != w1 || int64(r0) != w0q {
				t.Fatalf("decompose(%d, gamma2=%d) = (%d, %d), reference (%d, %d mod q = %d)", a, g, r1, r0, w1, w0, w0q)
			}
			if got := int64(imldsa.VerifHighBits(x, g32)); got != mldsaref.HighBits(a, g) {
				t.Fatalf("highBits(%d, gamma2=%d) = %d, reference %d", a, g, got, mldsaref.HighBits(a, g))
			}
			if got, want := int64(imldsa.VerifLowBits(x, g32)), mldsaref.Mod(mldsaref.LowBits(a, g)); got != want {
				t.Fatalf("lowBits(%d, gamma2=%d) = %d, reference (mod q) %d", a, g, got, want)
			}
			for h := int64(0); h <= 1; h++ {
				if got, want := int64(imldsa.VerifUseHint(x, g32, imldsa.VerifZq(h))), mldsaref.UseHint(h, a, g); got != want {
					t.Fatalf("useHint(h=%d, r=%d, gamma2=%d) = %d, reference %d", h, a, g, got, want)
				}
			}
		}
		evid.Bulk(fmt.Sprintf("decompose/gamma2=%d", g), n)
		evid.Bulk(fmt.Sprintf("highBits/gamma2=%d", g), n)
		evid.Bulk(fmt.Sprintf("lowBits/gamma2=%d", g), n)
		evid.Bulk(fmt.Sprintf("useHint/gamma2=%d", g), 2*n)
	}
	evid.Set("exhaustive_scalars", true)
	evid.Sample("exhaustive-range", fmt.Sprintf("this shard: reduceOnce on [%d,%d), all other unary functions on [%d,%d) of Z_q", lo2, hi2, lo, hi))
}

// edgeSet is E of the design: 0,1,2,q-1,q-2,(q+-1)/2, 2^k and 2^k+-1, k*gamma2 and k*gamma2+-1 for
// both gamma2 (this contains all k*2*gamma2+-1), reduced to distinct values of [0, q).
var edgeSet = makeEdgeSet()

func makeEdgeSet() []int64 {
	m := map[int64]bool{}
	add := func(v int64) {
		if v >= 0 && v < q {
			m[v] = true
		}
	}
	for _, v := range []int64{0, 1, 2, 3, q - 1, q - 2, q - 3, (q - 1) / 2, (q + 1) / 2, (q-1)/2 - 1, (q+1)/2 + 1} {
		add(v)
	}
	for k := 1; k <= 23; k++ {
		for d := int64(-1); d <= 1; d++ {
			add(int64(1)<<k + d)
			add(q - int64(1)<<k + d)
		}
	}
	for _, g := range gamma2s {
		for k := int64(0); k*g <= q; k++ {
			for d := int64(-1); d <= 1; d++ {
				add(k*g + d)
			}
		}
	}
	out := make([]int64, 0, len(m))
	for v := range m {
		out = append(out, v)
	}
	sort.Slice(out, func(i, j int) bool { return out[i] < out[j] })
	return out
}

// checkPair compares every two-argument function on (a, b), both in [0, q). It returns "" or the
// complete description of the first disagreement.
func checkPair(a, b int64) string {
	x, y := imldsa.VerifZq(a), imldsa.VerifZq(b)
	if got, want := int64(imldsa.VerifAdd(x, y)), (a+b)%q; got != want {
		return fmt.Sprintf("add(%d, %d) = %d, reference (a+b) mod q = %d", a, b, got, want)
	}
	if got, want := int64(imldsa.VerifSub(x, y)), mldsaref.Mod(a-b); got != want {
		return fmt.Sprintf("sub(%d, %d) = %d, reference (a-b) mod q = %d", a, b, got, want)
	}
	if got, want := int64(imldsa.VerifMul(x, y)), (a*b)%q; got != want {
		return fmt.Sprintf("mul(%d, %d) = %d, reference a*b mod q = %d", a, b, got, want)
	}
	for _, g := range gamma2s {
		// a plays z, b plays r: MakeHint(z, r)
		if got, want := int64(imldsa.VerifMakeHint(x, uint32(g), y)), mldsaref.MakeHint(a, b, g); got != want {
			return fmt.Sprintf("makeHint(z=%d, r=%d, gamma2=%d) = %d, reference MakeHint = %d", a, b, g, got, want)
		}
	}
	got := int64(imldsa.VerifCenteredMax(x, y))
	ca, cb := mldsaref.CenteredAbs(a), mldsaref.CenteredAbs(b)
	if (got != a && got != b) || mldsaref.CenteredAbs(got) != max(ca, cb) {
		return fmt.Sprintf("centeredMax(%d, %d) = %d: not an argument with the larger centered absolute value (|a|=%d, |b|=%d)", a, b, got, ca, cb)
	}
	return ""
}

const pairFunctions = 6 // add, sub, mul, makeHint x2, centeredMax

// TestScalarsEdgeSquare evaluates the two-argument functions on the full square E x E (rows are
// split over the shards).
func TestScalarsEdgeSquare(t *testing.T) {
	lo, hi := shardRange(int64(len(edgeSet)))
	for i := lo; i < hi; i++ {
		for _, b := range edgeSet {
			if msg := checkPair(edgeSet[i], b); msg != "" {
				t.Fatal(msg)
			}
		}
	}
	evid.Bulk("edge-square", (hi-lo)*int64(len(edgeSet)))
	evid.Set("edge_set_size", len(edgeSet))
	evid.Add("pair_function_evaluations", (hi-lo)*int64(len(edgeSet))*pairFunctions)
}

const pairsPerCase = 4096

// TestScalarsPairs: one case is a drawn 64-bit seed expanded to 4096 uniform pairs of Z_q x Z_q,
// plus drawn pairs mixing edge values with uniform values.
func TestScalarsPairs(t *testing.T) {
	rapid.Check(t, func(rt *rapid.T) {
		detrand.Seed(rapid.Uint64().Draw(rt, "entropy"))
		seed := rapid.Uint64().Draw(rt, "pairseed")
		s := &splitmix{seed}
		for i := 0; i < pairsPerCase; i++ {
			a, b := s.zq(), s.zq()
			if msg := checkPair(a, b); msg != "" {
				rt.Fatalf("pair %d of seed %#x: %s", i, seed, msg)
			}
		}
		// edge x uniform and uniform x edge, edge x edge
		e1 := rapid.SampledFrom(edgeSet).Draw(rt, "edge1")
		e2 := rapid.SampledFrom(edgeSet).Draw(rt, "edge2")
		u := rapid.Int64Range(0, q-1).Draw(rt, "uniform")
		near := mldsaref.Mod(e1 + rapid.Int64Range(-3, 3).Draw(rt, "delta"))
		extra := [][2]int64{{e1, u}, {u, e1}, {e1, e2}, {near, u}, {u, near}, {near, mldsaref.Mod(-near)}, {near, mldsaref.Mod(e2 - near)}}
		for _, p := range extra {
			if msg := checkPair(p[0], p[1]); msg != "" {
				rt.Fatalf("%s", msg)
			}
		}
		evid.Add("pairs", int64(pairsPerCase+len(extra)))
		evid.Add("pair_function_evaluations", int64(pairsPerCase+len(extra))*pairFunctions)
		evid.Case("uniform-block+edges", true, evid.NewH().I(int64(seed)).I(e1).I(e2).I(u).I(near).Sum(), func() any {
			return map[string]any{"seed": fmt.Sprintf("%#x", seed), "pairs": pairsPerCase, "edge_pairs": extra}
		})
	})
}
