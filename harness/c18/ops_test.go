package c18

import (
	"bytes"
	"fmt"

	"pgregory.net/rapid"

	"github.com/tink-crypto/tink-go/v2/insecurecleartextkeyset"
	"github.com/tink-crypto/tink-go/v2/keyderivation"
	"github.com/tink-crypto/tink-go/v2/keyset"
	"github.com/tink-crypto/tink-go/v2/tink"
	"github.com/tink-crypto/tink-go/v2/verifharness/internal/gen"
)

// The op factories of the primitive classes, shared by the class builders, "alltypes", "paramsets"
// and "multikey". Convention: the FIRST op of a factory is the producer+consumer op (it involves
// both objects handed in), the others use the consumer only. Every expectation is handed in (it was
// fixed before the concurrent phase) or is a cross check (decrypt / verify of what was produced);
// every "-bad" op expects an error and nothing else. No op writes to a slice it shares.

// cold marks ops as running on an UNWARMED twin: the sequential pass skips them, so the twin's
// first calls happen inside the concurrent phase (a table, memo or buffer that an object fills
// lazily on first use without synchronisation is invisible on an object that was used before).
func cold(ops []op, sfx string) []op {
	out := make([]op, len(ops))
	for i, o := range ops {
		out[i] = op{name: o.name + sfx, run: o.run, cold: true}
	}
	return out
}

func renamed(ops []op, sfx string) []op {
	out := make([]op, len(ops))
	for i, o := range ops {
		out[i] = op{name: o.name + sfx, run: o.run, cold: o.cold, lead: o.lead}
	}
	return out
}

// twinHandle returns a handle over freshly parsed key objects of the same keyset (written and read
// back), or h itself when the keyset has no serialization (the twin primitive is then a second
// primitive object over the same key objects).
func twinHandle(h *keyset.Handle) (out *keyset.Handle) {
	out = h
	defer func() {
		if recover() != nil {
			out = h
		}
	}()
	var buf bytes.Buffer
	if err := insecurecleartextkeyset.Write(h, keyset.NewBinaryWriter(&buf)); err != nil {
		return h
	}
	h2, err := insecurecleartextkeyset.Read(keyset.NewBinaryReader(&buf))
	if err != nil {
		return h
	}
	return h2
}

// sizeClass is the input-size class of the current case (drawn once per case, before the builder
// runs): 0 = the builder's small bound (<= 300 bytes, boundary-biased), 1 = 1..4 KiB, 2 = 64 KiB.
// The larger classes lower the calls-per-case cap so that the cost of a case stays flat.
var sizeClass int

// input draws a message / plaintext of the case's size class.
func input(rt *rapid.T, label string, small int) []byte {
	switch sizeClass {
	case 1:
		capCalls(160)
		return shared(gen.BytesN(rt, label, rapid.IntRange(1024, 4096).Draw(rt, label+"_len")))
	case 2:
		capCalls(32)
		return shared(gen.BytesN(rt, label, rapid.SampledFrom([]int{65535, 65536, 65537}).Draw(rt, label+"_len")))
	}
	return shared(gen.Bytes(rt, label, small))
}

// capCalls lowers the cap on goroutines x calls of the current case.
func capCalls(n int) {
	if callCap == 0 || n < callCap {
		callCap = n
	}
}

func aeadOps(enc, dec tink.AEAD, pt, ad, wantPT, ct []byte) []op {
	return []op{
		{name: "Encrypt+Decrypt", run: func() error {
			c, err := enc.Encrypt(pt, ad)
			if err != nil {
				return err
			}
			p, err := dec.Decrypt(c, ad)
			if err != nil || !bytes.Equal(p, wantPT) {
				return fmt.Errorf("decryption of a concurrently produced ciphertext: %s, %v", gen.Hex(p), err)
			}
			return nil
		}},
		{name: "Decrypt", run: func() error {
			p, err := dec.Decrypt(ct, ad)
			if err != nil || !bytes.Equal(p, wantPT) {
				return fmt.Errorf("Decrypt gave %s, %v", gen.Hex(p), err)
			}
			return nil
		}},
		{name: "Decrypt-bad", run: func() error {
			if _, err := dec.Decrypt(ct[:len(ct)-1], ad); err == nil {
				return fmt.Errorf("truncated ciphertext accepted")
			}
			return nil
		}},
	}
}

func daeadOps(d tink.DeterministicAEAD, pt, ad, wantPT, want []byte) []op {
	return []op{
		{name: "EncryptDeterministically", run: func() error {
			c, err := d.EncryptDeterministically(pt, ad)
			if err != nil || !bytes.Equal(c, want) {
				return fmt.Errorf("deterministic ciphertext differs: %s (%v) vs %s", gen.Hex(c), err, gen.Hex(want))
			}
			return nil
		}},
		{name: "DecryptDeterministically", run: func() error {
			p, err := d.DecryptDeterministically(want, ad)
			if err != nil || !bytes.Equal(p, wantPT) {
				return fmt.Errorf("decrypt gave %s, %v", gen.Hex(p), err)
			}
			return nil
		}},
		{name: "DecryptDeterministically-bad", run: func() error {
			if _, err := d.DecryptDeterministically(want[:len(want)-1], ad); err == nil {
				return fmt.Errorf("truncated ciphertext accepted")
			}
			return nil
		}},
	}
}

func macOps(m tink.MAC, msg, want []byte) []op {
	return []op{
		{name: "ComputeMAC", run: func() error {
			t, err := m.ComputeMAC(msg)
			if err != nil || !bytes.Equal(t, want) {
				return fmt.Errorf("ComputeMAC gave %x (%v), sequentially %x", t, err, want)
			}
			return nil
		}},
		{name: "VerifyMAC", run: func() error { return m.VerifyMAC(want, msg) }},
		{name: "VerifyMAC-bad", run: func() error {
			if m.VerifyMAC(want[:len(want)-1], msg) == nil {
				return fmt.Errorf("truncated tag accepted")
			}
			return nil
		}},
	}
}

func sigOps(s tink.Signer, v tink.Verifier, msg, sig []byte) []op {
	return []op{
		{name: "Sign+Verify", run: func() error {
			g, err := s.Sign(msg)
			if err != nil {
				return err
			}
			return v.Verify(g, msg)
		}},
		{name: "Verify", run: func() error { return v.Verify(sig, msg) }},
		{name: "Verify-bad", run: func() error {
			if v.Verify(sig[:len(sig)-1], msg) == nil {
				return fmt.Errorf("truncated signature accepted")
			}
			return nil
		}},
	}
}

func hybridOps(e tink.HybridEncrypt, d tink.HybridDecrypt, pt, info, wantPT, ct []byte) []op {
	return []op{
		{name: "Encrypt+Decrypt", run: func() error {
			c, err := e.Encrypt(pt, info)
			if err != nil {
				return err
			}
			p, err := d.Decrypt(c, info)
			if err != nil || !bytes.Equal(p, wantPT) {
				return fmt.Errorf("decrypt gave %s, %v", gen.Hex(p), err)
			}
			return nil
		}},
		{name: "Decrypt", run: func() error {
			p, err := d.Decrypt(ct, info)
			if err != nil || !bytes.Equal(p, wantPT) {
				return fmt.Errorf("decrypt gave %s, %v", gen.Hex(p), err)
			}
			return nil
		}},
		{name: "Decrypt-bad", run: func() error {
			if _, err := d.Decrypt(ct[:len(ct)-1], info); err == nil {
				return fmt.Errorf("truncated ciphertext accepted")
			}
			return nil
		}},
	}
}

// prfOps: compute is the PRF under test; n is in the type's range, tooLong is beyond it.
func prfOps(compute func(in []byte, n uint32) ([]byte, error), in []byte, n uint32, want []byte, tooLong uint32) []op {
	return []op{
		{name: "ComputePRF", run: func() error {
			o, err := compute(in, n)
			if err != nil || !bytes.Equal(o, want) {
				return fmt.Errorf("PRF output (%d bytes) %s (%v), sequentially %s", n, gen.Hex(o), err, gen.Hex(want))
			}
			return nil
		}},
		{name: "ComputePRF-bad", run: func() error {
			if _, err := compute(in, tooLong); err == nil {
				return fmt.Errorf("output length %d accepted", tooLong)
			}
			return nil
		}},
	}
}

func streamEncrypt(sa tink.StreamingAEAD, pt, aad []byte) ([]byte, error) {
	var buf bytes.Buffer
	w, err := sa.NewEncryptingWriter(&buf, aad)
	if err != nil {
		return nil, err
	}
	if _, err := w.Write(pt); err != nil {
		return nil, err
	}
	if err := w.Close(); err != nil {
		return nil, err
	}
	return buf.Bytes(), nil
}

func streamDecrypt(sa tink.StreamingAEAD, ct, aad []byte) ([]byte, error) {
	r, err := sa.NewDecryptingReader(bytes.NewReader(ct), aad)
	if err != nil {
		return nil, err
	}
	var out bytes.Buffer
	if _, err := out.ReadFrom(r); err != nil {
		return nil, err
	}
	return out.Bytes(), nil
}

func streamOps(enc, dec tink.StreamingAEAD, pt, aad, wantPT, ct []byte) []op {
	check := func(c []byte) error {
		p, err := streamDecrypt(dec, c, aad)
		if err != nil {
			return err
		}
		if !bytes.Equal(p, wantPT) {
			return fmt.Errorf("stream decrypts to different plaintext")
		}
		return nil
	}
	return []op{
		{name: "NewEncryptingWriter+NewDecryptingReader", run: func() error {
			c, err := streamEncrypt(enc, pt, aad)
			if err != nil {
				return err
			}
			return check(c)
		}},
		{name: "NewDecryptingReader", run: func() error { return check(ct) }},
		{name: "NewDecryptingReader-bad", run: func() error {
			if _, err := streamDecrypt(dec, ct[:len(ct)-1], aad); err == nil {
				return fmt.Errorf("truncated stream read to the end without error")
			}
			return nil
		}},
	}
}

func serializeHandle(h *keyset.Handle) []byte {
	var buf bytes.Buffer
	if err := insecurecleartextkeyset.Write(h, keyset.NewBinaryWriter(&buf)); err != nil {
		panic(err)
	}
	return buf.Bytes()
}

func deriveOps(d keyderivation.KeysetDeriver, salt, want []byte) []op {
	return []op{{name: "DeriveKeyset", run: func() error {
		h, err := d.DeriveKeyset(salt)
		if err != nil {
			return err
		}
		if !bytes.Equal(serializeHandle(h), want) {
			return fmt.Errorf("derived keyset differs from the sequential result")
		}
		return nil
	}}}
}
