package c18

import (
	"bytes"
	"encoding/hex"
	"fmt"
	"math/big"
	"reflect"
	"strconv"
	"strings"
	"sync"

	"google.golang.org/protobuf/proto"
	"pgregory.net/rapid"

	"github.com/tink-crypto/tink-go/v2/insecuresecretdataaccess"
	"github.com/tink-crypto/tink-go/v2/internal/internalapi"
	"github.com/tink-crypto/tink-go/v2/internal/internalregistry"
	"github.com/tink-crypto/tink-go/v2/internal/protoserialization"
	"github.com/tink-crypto/tink-go/v2/key"
	"github.com/tink-crypto/tink-go/v2/keyset"
	"github.com/tink-crypto/tink-go/v2/monitoring"
	"github.com/tink-crypto/tink-go/v2/secretdata"
	"github.com/tink-crypto/tink-go/v2/verifharness/internal/evid"
	"github.com/tink-crypto/tink-go/v2/verifharness/internal/keys"
	"github.com/tink-crypto/tink-go/v2/verifharness/internal/tk"
)

// nullClient is the harness's monitoring client. Its loggers are called by the library from every
// goroutine that uses a primitive of an annotated handle (and by Entry.Key()). They deliberately
// touch no shared memory: a counter - mutex or atomic - would order the goroutines' memory accesses
// for the race detector (happens-before through the counter) and hide unsynchronised accesses in
// the library code around the logger calls.
type nullClient struct{}

type nullLogger struct{ ctx *monitoring.Context }

func (nullClient) NewLogger(ctx *monitoring.Context) (monitoring.Logger, error) {
	return &nullLogger{ctx}, nil
}
func (*nullLogger) Log(uint32, int)     {}
func (*nullLogger) LogFailure()         {}
func (*nullLogger) LogKeyExport(uint32) {}

var (
	monitorOnce   sync.Once
	monitorClient = nullClient{}
)

// registerMonitoring registers the client once per process; only handles that carry
// annotations (those of the "accessors" builder) are monitored.
func registerMonitoring() {
	monitorOnce.Do(func() {
		if err := internalregistry.RegisterMonitoringClient(monitorClient); err != nil {
			panic(err)
		}
	})
}

var (
	bytesType  = reflect.TypeOf([]byte(nil))
	secretType = reflect.TypeOf(secretdata.Bytes{})
	bigIntType = reflect.TypeOf((*big.Int)(nil))
)

// leaf is one value handed out by an accessor (or the panic it ended with).
type leaf struct {
	path     string
	v        reflect.Value
	panicked any
}

// walk calls every exported zero-argument method reachable from v (the reflection walk of
// c19/keys_test.go, copied: objects returned by a method are followed, interface values are
// unwrapped, depth-limited) and collects the returned values. Everything a key object offers
// without arguments is a read operation.
//
// Inside the concurrent phase the walk must not synchronise the goroutines by itself, or the race
// detector sees an unsynchronised write inside an accessor as ordered before the other goroutines'
// later reads and stays silent (measured: 8 goroutines on a lazily memoising accessor are reported
// at once when it is called directly, after 10-30 rounds through a naive walk). Therefore
//   - the walk only CALLS; the values are turned into text afterwards (render): fmt uses a sync.Pool;
//   - method names and eligibility come from a table filled in the sequential phase (methodsOf):
//     reflect.Type.Method builds a func type under a package-level mutex (reflect.initFuncTypes) on
//     every call; reflect.Value.Method and Call (for methods with results) take no lock.
func walk(path string, v reflect.Value, depth int, seen map[reflect.Type]bool, record bool, out *[]leaf) {
	if !v.IsValid() || depth > 3 {
		return
	}
	if (v.Kind() == reflect.Ptr || v.Kind() == reflect.Interface) && v.IsNil() {
		return
	}
	if v.Kind() == reflect.Interface {
		v = v.Elem()
	}
	t := v.Type()
	if seen[t] || strings.Contains(t.PkgPath(), "protobuf") || strings.Contains(t.PkgPath(), "_go_proto") {
		return
	}
	seen[t] = true
	defer delete(seen, t)
	for _, m := range methodsOf(t, record) {
		p := path + "." + m.name + "()"
		var res []reflect.Value
		panicked := func() (r any) {
			defer func() { r = recover() }()
			res = v.Method(m.index).Call(nil)
			return nil
		}()
		if panicked != nil {
			*out = append(*out, leaf{path: p, panicked: panicked})
			continue
		}
		for j, r := range res {
			pj := p
			if j > 0 {
				pj += "#" + strconv.Itoa(j)
			}
			rt := r.Type()
			follow := rt != bytesType && rt != secretType && rt != bigIntType && rt.PkgPath() != "time" && !rt.Implements(errorType) &&
				(rt.Kind() == reflect.Ptr || rt.Kind() == reflect.Interface || rt.Kind() == reflect.Struct)
			if follow && (rt.Kind() == reflect.Struct || !r.IsNil()) {
				walk(pj, r, depth+1, seen, record, out)
			} else {
				*out = append(*out, leaf{path: pj, v: r})
			}
		}
	}
}

var errorType = reflect.TypeOf((*error)(nil)).Elem()

// render turns the collected values into one "path = value" line each.
func render(leaves []leaf) []string {
	out := make([]string, 0, len(leaves))
	for _, l := range leaves {
		if l.panicked != nil {
			what := reflect.TypeOf(l.panicked).String()
			switch v := l.panicked.(type) {
			case error:
				what = v.Error()
			case string:
				what = v
			}
			out = append(out, l.path+" panics: "+what) // no fmt inside concurrent ops (see plain)
			continue
		}
		r, p := l.v, l.path
		rt := r.Type()
		switch {
		case rt == bytesType:
			out = append(out, p+" = "+hex.EncodeToString(r.Bytes()))
		case rt == secretType:
			out = append(out, p+" = secret "+hex.EncodeToString(r.Interface().(secretdata.Bytes).Data(insecuresecretdataaccess.Token{})))
		case rt == bigIntType:
			if r.IsNil() {
				out = append(out, p+" = nil")
			} else {
				out = append(out, p+" = 0x"+r.Interface().(*big.Int).Text(16))
			}
		case rt.Implements(errorType) && rt.Kind() == reflect.Interface:
			if r.IsNil() {
				out = append(out, p+" = no error")
			} else {
				out = append(out, p+" = error: "+r.Interface().(error).Error())
			}
		case rt.Kind() == reflect.Ptr || rt.Kind() == reflect.Interface:
			out = append(out, p+" = nil") // walk follows every other value of these kinds
		case rt.Kind() == reflect.Slice || rt.Kind() == reflect.Map || rt.Kind() == reflect.Func || rt.Kind() == reflect.Chan:
			out = append(out, p+" = "+rt.String()+" of length "+strconv.Itoa(r.Len())) // no fmt inside concurrent ops (see plain)
		default:
			out = append(out, p+" = "+plain(r))
		}
	}
	return out
}

// plain renders numbers, booleans, strings and enumerations without fmt (its sync.Pool orders the
// goroutines for the race detector; see walk).
func plain(r reflect.Value) string {
	if s, ok := r.Interface().(interface{ String() string }); ok {
		return s.String()
	}
	switch r.Kind() {
	case reflect.Bool:
		return strconv.FormatBool(r.Bool())
	case reflect.Int, reflect.Int8, reflect.Int16, reflect.Int32, reflect.Int64:
		return strconv.FormatInt(r.Int(), 10)
	case reflect.Uint, reflect.Uint8, reflect.Uint16, reflect.Uint32, reflect.Uint64, reflect.Uintptr:
		return strconv.FormatUint(r.Uint(), 10)
	case reflect.String:
		return strconv.Quote(r.String())
	case reflect.Float32, reflect.Float64:
		return strconv.FormatFloat(r.Float(), 'g', -1, 64)
	}
	// (no accessor of the present key types returns a value of another kind; fmt would put its
	// sync.Pool between the goroutines, so the kind and type stand for the value)
	return r.Kind().String() + " " + r.Type().String()
}

// accessorMethod is an exported method without arguments and with one or two results.
type accessorMethod struct {
	index int
	name  string
}

// methodTable is written only in the sequential phase of a case (record = true) and only read
// while goroutines run.
var methodTable = map[reflect.Type][]accessorMethod{}

func methodsOf(t reflect.Type, record bool) []accessorMethod {
	if ms, ok := methodTable[t]; ok {
		return ms
	}
	var ms []accessorMethod
	for i := 0; i < t.NumMethod(); i++ {
		m := t.Method(i)
		if m.Type.NumIn() == 1 && m.Type.NumOut() >= 1 && m.Type.NumOut() <= 2 {
			ms = append(ms, accessorMethod{i, m.Name})
		}
	}
	if record {
		methodTable[t] = ms
	}
	return ms
}

// snapshotOf walks k; sequential says whether the caller is the sequential phase of a case.
func snapshotOf(name string, k key.Key, sequential bool) []string {
	var leaves []leaf
	walk(name, reflect.ValueOf(k), 0, map[reflect.Type]bool{}, sequential, &leaves)
	return render(leaves)
}

func sameLines(got, want []string) error {
	for i := 0; i < len(got) || i < len(want); i++ {
		switch {
		case i >= len(got):
			return fmt.Errorf("accessor walk ends early: missing %q", want[i])
		case i >= len(want):
			return fmt.Errorf("accessor walk has an extra line %q", got[i])
		case got[i] != want[i]:
			return fmt.Errorf("accessor result %q, alone %q", got[i], want[i])
		}
	}
	return nil
}

func marshalKey(k key.Key) ([]byte, error) {
	ks, err := protoserialization.SerializeKey(k)
	if err != nil {
		return nil, err
	}
	b, err := proto.MarshalOptions{Deterministic: true}.Marshal(ks.KeyData())
	if err != nil {
		return nil, err
	}
	id, _ := ks.IDRequirement()
	return append(b, "|"+ks.OutputPrefixType().String()+"|"+strconv.FormatUint(uint64(id), 10)...), nil // no fmt inside concurrent ops
}

// annotatedHandle builds a one-key handle with annotations (hence monitored by the registered
// client) with k as primary under the given key ID (nil = the manager chooses).
func annotatedHandle(k key.Key, id *uint32, annotate bool) *keyset.Handle {
	m := keyset.NewManager()
	var got uint32
	if id == nil {
		got = tk.Must(m.AddKey(k))
	} else {
		got = tk.Must(m.AddKeyWithOpts(k, internalapi.Token{}, keyset.WithFixedID(*id)))
	}
	if err := m.SetPrimary(got); err != nil {
		panic(err)
	}
	if annotate {
		if err := m.SetAnnotations(map[string]string{"harness": "c18", "unit": "accessors"}); err != nil {
			panic(err)
		}
	}
	return tk.Must(m.Handle())
}

// accessorsBuilder: ONE shared key object (any type of the key generator, with its public key and
// parameters objects behind it) and ONE shared handle that carries annotations while a monitoring
// client is registered; concurrently: every zero-argument accessor reachable from the key, Equal,
// protoserialization.SerializeKey, and the handle reads KeysetInfo / String / Len / Primary / Entry
// (with the entry's accessors; Entry.Key() reports a key export to the monitoring logger) / Public,
// plus the primitive of the key's class created from the annotated handle (monitored wrappers).
// Each result is compared with the one recorded when the call ran alone. Twins: the key parsed from
// its serialization (two identical parses: one is walked alone to fix the expectation, the other is
// first touched inside the concurrent phase) and a second annotated handle over it.
func accessorsBuilder() builder {
	return builder{"accessors", func(rt *rapid.T) (string, []op) {
		registerMonitoring()
		// (the key type by the stratified choice over all 29 types, see pickIndex)
		types := keys.AllTypes()
		info := keys.DrawTypeUsable(rt, "key", types[pickIndex(rt, "accessors_type", len(types))])
		c := info.Class
		caseSub = append(caseSub, info.Type)
		if info.Type == "SlhDsa" && info.Fields["sig_type"] == "SMALL_SIGNATURE" {
			evid.Add("skipped/accessors_slhdsa_small_signature", 1)
			rt.Skip("SLH-DSA s sets are too slow under the race detector")
		}
		k := info.Key
		desc := "accessors, serialization and annotated handle: " + info.Desc
		// A key without proto serialization cannot be in an annotated handle (building the
		// monitoring keyset info needs it) and KeysetInfo / String panic for it: those reads are left out.
		serializable := !info.NoSerialization
		h := annotatedHandle(k, nil, serializable)
		id := tk.Must(h.Primary()).KeyID()
		var ops []op
		keyReads := func(name string, k key.Key, want []string, wantSer []byte, eq []key.Key, wantEq []bool) []op {
			out := []op{
				{name: name + " accessors", run: func() error { return sameLines(snapshotOf(name, k, false), want) }},
				{name: name + ".Equal", run: func() error {
					for i, o := range eq {
						if got := k.Equal(o); got != wantEq[i] {
							return fmt.Errorf("%s.Equal(candidate %d) = %v, alone %v", name, i, got, wantEq[i])
						}
					}
					return nil
				}},
			}
			if wantSer != nil {
				out = append(out, op{name: "SerializeKey(" + name + ")", run: func() error {
					b, err := marshalKey(k)
					if err != nil || !bytes.Equal(b, wantSer) {
						return fmt.Errorf("serialization differs from the one made alone: %v", err)
					}
					return nil
				}})
			}
			return out
		}
		// Equal candidates: itself, the public key (not equal), a parsed copy (below)
		eq := []key.Key{k}
		if info.Public != nil {
			eq = append(eq, info.Public)
		}
		var wantSer []byte
		var parsedWarm, parsedCold key.Key
		var ser *protoserialization.KeySerialization
		if serializable {
			wantSer = tk.Must(marshalKey(k))
			ser = tk.Must(protoserialization.SerializeKey(k))
			parsedWarm, parsedCold = tk.Must(protoserialization.ParseKey(ser)), tk.Must(protoserialization.ParseKey(ser))
			eq = append(eq, parsedWarm)
		}
		wantEq := make([]bool, len(eq))
		for i, o := range eq {
			wantEq[i] = k.Equal(o)
		}
		want := snapshotOf("key", k, true)
		evid.Add("accessor_lines", int64(len(want)))
		ops = append(ops, keyReads("key", k, want, wantSer, eq, wantEq)...)
		if info.Public != nil {
			pw := snapshotOf("public", info.Public, true)
			var ps []byte
			if serializable {
				ps = tk.Must(marshalKey(info.Public))
			}
			ops = append(ops, keyReads("public", info.Public, pw, ps, []key.Key{info.Public, k}, []bool{info.Public.Equal(info.Public), info.Public.Equal(k)})...)
		}
		var twin *keyset.Handle
		if serializable {
			// expectations of the unwarmed parsed key: those of the identical, warmed parse
			w2 := snapshotOf("parsed", parsedWarm, true)
			eq2 := []key.Key{k, parsedWarm}
			parsedOps := cold(keyReads("parsed", parsedCold, w2, tk.Must(marshalKey(parsedWarm)), eq2, []bool{parsedWarm.Equal(k), parsedWarm.Equal(parsedWarm)}), "~twin")
			parsedOps[0].lead = true // the accessor walk over the untouched key object
			ops = append(ops, parsedOps...)
			// (a third parse: building an annotated handle reads the key, parsedCold stays untouched)
			twin = annotatedHandle(tk.Must(protoserialization.ParseKey(ser)), &id, true)
		}
		// handle reads
		var wantInfo, wantStr, wantPub string
		if serializable {
			wantInfo, wantStr = h.KeysetInfo().String(), h.String()
			if info.Public != nil {
				wantPub = tk.Must(h.Public()).KeysetInfo().String()
			}
		}
		// wantEq / wantPubEq: whether the handle's key (its public key) is Equal to the drawn key (its
		// public key) - true for the shared handle; for the twin, what the identical warmed parse says
		handleReads := func(h *keyset.Handle, wantEq, wantPubEq bool) []op {
			entry := func(what string, e *keyset.Entry, err error) error {
				if err != nil {
					return fmt.Errorf("%s: %v", what, err)
				}
				if e.KeyID() != id || !e.IsPrimary() || e.KeyStatus() != keyset.Enabled || e.Key().Equal(k) != wantEq {
					return fmt.Errorf("%s: id %#x (alone %#x), primary %v, status %v, key equal %v (alone %v)", what, e.KeyID(), id, e.IsPrimary(), e.KeyStatus(), e.Key().Equal(k), wantEq)
				}
				return nil
			}
			out := []op{
				{name: "Handle.Primary/Entry/Len", run: func() error {
					if h.Len() != 1 {
						return fmt.Errorf("Len() = %d", h.Len())
					}
					e, err := h.Primary()
					if err := entry("Primary()", e, err); err != nil {
						return err
					}
					e, err = h.Entry(0)
					return entry("Entry(0)", e, err)
				}},
			}
			if serializable {
				out = append(out, op{name: "Handle.KeysetInfo/String", run: func() error {
					if got := h.KeysetInfo().String(); got != wantInfo {
						return fmt.Errorf("KeysetInfo() = %s, alone %s", got, wantInfo)
					}
					if got := h.String(); got != wantStr {
						return fmt.Errorf("String() = %s, alone %s", got, wantStr)
					}
					return nil
				}})
			}
			if info.Public != nil {
				out = append(out, op{name: "Handle.Public", run: func() error {
					p, err := h.Public()
					if err != nil {
						return err
					}
					e, err := p.Primary()
					if err != nil || e.Key().Equal(info.Public) != wantPubEq || e.KeyID() != id {
						return fmt.Errorf("Public(): primary %v, key equal to the public key %v (alone %v)", err, err == nil && e.Key().Equal(info.Public), wantPubEq)
					}
					if serializable {
						if got := p.KeysetInfo().String(); got != wantPub {
							return fmt.Errorf("Public().KeysetInfo() = %s, alone %s", got, wantPub)
						}
					}
					return nil
				}})
			}
			return out
		}
		ops = append(ops, handleReads(h, true, true)...)
		if twin != nil {
			wantPubEq := false
			if info.Public != nil {
				wantPubEq = tk.Must(parsedWarm.(interface{ PublicKey() (key.Key, error) }).PublicKey()).Equal(info.Public)
			}
			ops = append(ops, cold(handleReads(twin, parsedWarm.Equal(k), wantPubEq), "~twin")...)
		}
		// the primitive of the key's class from the annotated handle(s): monitored wrappers
		if c != keys.JWTMAC && c != keys.JWTSignature {
			if c == keys.Signature || c == keys.Hybrid {
				capCalls(48)
			}
			t := twin
			if t == nil {
				t = h
			}
			ops = append(ops, renamed(keyOps(rt, c, info, h, t), "[monitored]")...)
		}
		return desc, ops
	}}
}
