package c18

import (
	"crypto/rand"
	"fmt"

	"google.golang.org/protobuf/proto"
	"pgregory.net/rapid"

	"github.com/tink-crypto/tink-go/v2/aead"
	"github.com/tink-crypto/tink-go/v2/daead"
	"github.com/tink-crypto/tink-go/v2/hybrid"
	"github.com/tink-crypto/tink-go/v2/insecurecleartextkeyset"
	"github.com/tink-crypto/tink-go/v2/jwt"
	"github.com/tink-crypto/tink-go/v2/keyset"
	"github.com/tink-crypto/tink-go/v2/mac"
	"github.com/tink-crypto/tink-go/v2/prf"
	tinkpb "github.com/tink-crypto/tink-go/v2/proto/tink_go_proto"
	"github.com/tink-crypto/tink-go/v2/signature"
	"github.com/tink-crypto/tink-go/v2/streamingaead"
	"github.com/tink-crypto/tink-go/v2/tink"
	"github.com/tink-crypto/tink-go/v2/verifharness/internal/gen"
	"github.com/tink-crypto/tink-go/v2/verifharness/internal/legacykm"
	"github.com/tink-crypto/tink-go/v2/verifharness/internal/tk"
)

var (
	pTINK, pRAW, pCRUNCHY, pLEGACY = tinkpb.OutputPrefixType_TINK, tinkpb.OutputPrefixType_RAW, tinkpb.OutputPrefixType_CRUNCHY, tinkpb.OutputPrefixType_LEGACY
)

type mkTemplate struct {
	name     string
	f        func() *tinkpb.KeyTemplate
	prefixes []tinkpb.OutputPrefixType // nil: the class's list
}

type mkClass struct {
	name      string
	templates []mkTemplate
	prefixes  []tinkpb.OutputPrefixType
	legacyURL string // key type served by a registered key manager ("" = none for this class)
	legacyLen int
}

func mkClasses() []mkClass {
	t := func(name string, f func() *tinkpb.KeyTemplate, p ...tinkpb.OutputPrefixType) mkTemplate {
		return mkTemplate{name, f, p}
	}
	three := []tinkpb.OutputPrefixType{pRAW, pTINK, pCRUNCHY}
	four := []tinkpb.OutputPrefixType{pRAW, pTINK, pCRUNCHY, pLEGACY}
	raw := []tinkpb.OutputPrefixType{pRAW}
	return []mkClass{
		{"aead", []mkTemplate{t("AES128GCM", aead.AES128GCMKeyTemplate), t("AES256GCM", aead.AES256GCMKeyTemplate), t("AES128GCMSIV", aead.AES128GCMSIVKeyTemplate),
			t("AES128CTRHMACSHA256", aead.AES128CTRHMACSHA256KeyTemplate), t("AES256CTRHMACSHA256", aead.AES256CTRHMACSHA256KeyTemplate), t("ChaCha20Poly1305", aead.ChaCha20Poly1305KeyTemplate),
			t("XChaCha20Poly1305", aead.XChaCha20Poly1305KeyTemplate), t("XAES256GCM192", aead.XAES256GCM192BitNonceKeyTemplate, pRAW, pTINK), t("XAES256GCM160", aead.XAES256GCM160BitNonceKeyTemplate, pRAW, pTINK)},
			three, legacykm.AeadURL, 32},
		{"daead", []mkTemplate{t("AESSIV", daead.AESSIVKeyTemplate)}, three, legacykm.DaeadURL, 64},
		{"mac", []mkTemplate{t("HMACSHA256Tag128", mac.HMACSHA256Tag128KeyTemplate), t("HMACSHA256Tag256", mac.HMACSHA256Tag256KeyTemplate), t("HMACSHA512Tag256", mac.HMACSHA512Tag256KeyTemplate),
			t("HMACSHA512Tag512", mac.HMACSHA512Tag512KeyTemplate), t("AESCMACTag128", mac.AESCMACTag128KeyTemplate)}, four, legacykm.MacURL, 32},
		{"signature", []mkTemplate{t("ED25519", signature.ED25519KeyTemplate), t("ECDSAP256", signature.ECDSAP256KeyTemplate), t("ECDSAP256Raw(P1363)", signature.ECDSAP256RawKeyTemplate),
			t("ECDSAP384SHA384", signature.ECDSAP384SHA384KeyTemplate), t("ECDSAP384SHA512", signature.ECDSAP384SHA512KeyTemplate), t("ECDSAP521", signature.ECDSAP521KeyTemplate)}, four, legacykm.SignerURL, 32},
		{"hybrid", []mkTemplate{t("HPKE-X25519-AES128GCM", hybrid.DHKEM_X25519_HKDF_SHA256_HKDF_SHA256_AES_128_GCM_Key_Template), t("HPKE-X25519-ChaCha", hybrid.DHKEM_X25519_HKDF_SHA256_HKDF_SHA256_CHACHA20_POLY1305_Key_Template),
			t("HPKE-P256-AES256GCM", hybrid.DHKEM_P256_HKDF_SHA256_HKDF_SHA256_AES_256_GCM_Key_Template), t("ECIES-AES128GCM", hybrid.ECIESHKDFAES128GCMKeyTemplate),
			t("ECIES-AES128CTRHMAC", hybrid.ECIESHKDFAES128CTRHMACSHA256KeyTemplate)}, three, legacykm.HybridPrivURL, 32},
		{"streaming", []mkTemplate{t("AES128GCMHKDF4KB", streamingaead.AES128GCMHKDF4KBKeyTemplate), t("AES256GCMHKDF4KB", streamingaead.AES256GCMHKDF4KBKeyTemplate),
			t("AES128CTRHMACSHA256Segment4KB", streamingaead.AES128CTRHMACSHA256Segment4KBKeyTemplate), t("AES256CTRHMACSHA256Segment4KB", streamingaead.AES256CTRHMACSHA256Segment4KBKeyTemplate)}, raw, "", 0},
		{"prf", []mkTemplate{t("HMACSHA256PRF", prf.HMACSHA256PRFKeyTemplate), t("HMACSHA512PRF", prf.HMACSHA512PRFKeyTemplate), t("HKDFSHA256PRF", prf.HKDFSHA256PRFKeyTemplate), t("AESCMACPRF", prf.AESCMACPRFKeyTemplate)}, raw, "", 0},
		{"jwtmac", []mkTemplate{t("HS256", jwt.HS256Template), t("HS384", jwt.HS384Template), t("HS512", jwt.HS512Template)}, []tinkpb.OutputPrefixType{pRAW, pTINK}, "", 0},
		{"jwtsig", []mkTemplate{t("ES256", jwt.ES256Template), t("ES384", jwt.ES384Template), t("ES512", jwt.ES512Template)}, []tinkpb.OutputPrefixType{pRAW, pTINK}, "", 0},
	}
}

// multiKeyBuilder: ONE shared primitive over a keyset with two or three ENABLED keys (RAW and
// prefixed keys mixed, mostly with two RAW keys; sometimes one more key that is served by a
// registered key manager, i.e. through the factories' adapter path), used concurrently with ciphertexts / tags / signatures /
// tokens made under EACH of its keys by that key's own one-key primitive, so that the wrapper's
// candidate loop takes a different path per call (state that a wrapper keeps per matching attempt is
// only touched when another key than the first candidate matches). Keys are generated by the library
// from the case's seeded entropy, hence different key material in every entry, and a ciphertext /
// tag / signature is accepted under another entry only as a forgery. Each call is checked against
// the plaintext / by verification, as in the one-key builders; the one-key primitives make the
// inputs in the sequential phase and serve as cross-check partners. An unwarmed twin of the
// multi-key primitive (same keyset, parsed again) takes part as in the one-key builders.
func multiKeyBuilder() builder {
	classes := mkClasses()
	return builder{"multikey", func(rt *rapid.T) (string, []op) {
		c := rapid.SampledFrom(classes).Draw(rt, "mkclass")
		// Layout of the keyset: R = RAW key, P = key with an output prefix. Mostly at least two RAW
		// keys: a RAW ciphertext / tag / signature is tried against the RAW keys in keyset order, so
		// only with two of them does a key that is NOT the first candidate match.
		layout := rapid.SampledFrom([]string{"RRP", "RPR", "PRR", "RRP", "RPR", "PRR", "RPP", "PRP", "PPR", "RR", "RP", "PR"}).Draw(rt, "layout")
		n := len(layout)
		prefixes := make([]tinkpb.OutputPrefixType, n)
		tmpls := make([]mkTemplate, n)
		for i := range tmpls {
			tmpls[i] = rapid.SampledFrom(c.templates).Draw(rt, "template")
			ps := tmpls[i].prefixes
			if ps == nil {
				ps = c.prefixes
			}
			prefixes[i] = pRAW
			if layout[i] == 'P' && len(ps) > 1 {
				prefixes[i] = rapid.SampledFrom(ps[1:]).Draw(rt, "prefix") // every list starts with RAW
			}
		}
		m := keyset.NewManager()
		desc := fmt.Sprintf("multi-key %s keyset:", c.name)
		var first uint32
		for i := range tmpls {
			id, err := m.Add(withPrefix(tmpls[i].f(), prefixes[i]))
			if err != nil {
				rt.Fatalf("multi-key %s: adding %s with prefix type %v: %v", c.name, tmpls[i].name, prefixes[i], err)
			}
			if i == 0 {
				first = id
			}
			desc += fmt.Sprintf(" %s/%v", tmpls[i].name, prefixes[i])
		}
		if err := m.SetPrimary(first); err != nil {
			rt.Fatalf("%s: SetPrimary: %v", desc, err)
		}
		ks := insecurecleartextkeyset.KeysetMaterial(tk.Must(m.Handle()))
		if c.legacyURL != "" && rapid.IntRange(0, 2).Draw(rt, "legacy") == 0 {
			// a key of a type served by a registered key manager; material from the seeded entropy
			// source (different from every other key), ID different from the others by construction
			mat := make([]byte, c.legacyLen)
			if _, err := rand.Read(mat); err != nil {
				panic(err)
			}
			used := map[uint32]bool{}
			for _, k := range ks.Key {
				used[k.KeyId] = true
			}
			id := rapid.Uint32().Draw(rt, "legacyid")
			for used[id] {
				id++
			}
			p := prefixTypeDraw(rt)
			lk := legacykm.Key(c.legacyURL, mat, legacykm.Material(c.legacyURL), p, id, tinkpb.KeyStatusType_ENABLED)
			at := rapid.IntRange(0, len(ks.Key)).Draw(rt, "legacypos")
			ks.Key = append(ks.Key[:at], append([]*tinkpb.Keyset_Key{lk}, ks.Key[at:]...)...)
			desc += fmt.Sprintf(" + key-manager key/%v at %d", p, at)
		}
		prim := rapid.IntRange(0, len(ks.Key)-1).Draw(rt, "primary")
		ks.PrimaryKeyId = ks.Key[prim].KeyId
		desc += fmt.Sprintf(" primary=%d", prim)
		h := tk.Must(legacykm.HandleFromProto(ks))
		twin := tk.Must(legacykm.HandleFromProto(ks))
		singles := make([]*keyset.Handle, len(ks.Key))
		for i, k := range ks.Key {
			singles[i] = tk.Must(legacykm.HandleFromProto(&tinkpb.Keyset{PrimaryKeyId: k.KeyId, Key: []*tinkpb.Keyset_Key{proto.Clone(k).(*tinkpb.Keyset_Key)}}))
		}
		capCalls(120)
		each := func(mk func(i int, tag string) []op) []op {
			return twice(func(tag string) []op {
				var out []op
				for i := range singles {
					out = append(out, renamed(mk(i, tag), fmt.Sprintf("[key %d]", i))...)
				}
				return out
			})
		}
		switch c.name {
		case "aead":
			a, a2 := tk.Must(aead.New(h)), tk.Must(aead.New(twin))
			ai := mapHandles(singles, aead.New)
			return desc, twice(func(tag string) []op {
				pt, ad := input(rt, "pt", 300), shared(gen.Bytes(rt, "ad", 60))
				wantPT := append([]byte{}, pt...)
				var out []op
				for i := range ai {
					ct := shared(tk.Must(ai[i].Encrypt(pt, ad)))
					sfx := fmt.Sprintf("[key %d]", i)
					out = append(out, renamed(aeadOps(ai[i], a, pt, ad, wantPT, ct), sfx)...)
					out = append(out, cold(aeadOps(ai[i], a2, pt, ad, wantPT, ct), sfx+"~twin")...)
				}
				// the multi-key primitive encrypts (primary), the primary's own primitive decrypts
				out = append(out, renamed(aeadOps(a, ai[prim], pt, ad, wantPT, nil)[:1], "[multi->primary]")...)
				out = append(out, cold(aeadOps(a2, ai[prim], pt, ad, wantPT, nil)[:1], "[multi->primary]~twin")...)
				return out
			})
		case "daead":
			d, d2 := tk.Must(daead.New(h)), tk.Must(daead.New(twin))
			di := mapHandles(singles, daead.New)
			return desc, twice(func(tag string) []op {
				pt, ad := input(rt, "pt", 200), shared(gen.Bytes(rt, "ad", 60))
				wantPT := append([]byte{}, pt...)
				want := tk.Must(d.EncryptDeterministically(pt, ad))
				out := append(daeadOps(d, pt, ad, wantPT, want), cold(daeadOps(d2, pt, ad, wantPT, want), "~twin")...)
				for i := range di {
					ct := tk.Must(di[i].EncryptDeterministically(pt, ad))
					sfx := fmt.Sprintf("[key %d]", i)
					out = append(out, renamed(daeadOps(d, pt, ad, wantPT, ct)[1:], sfx)...)
					out = append(out, cold(daeadOps(d2, pt, ad, wantPT, ct)[1:], sfx+"~twin")...)
				}
				return out
			})
		case "mac":
			mm, mm2 := tk.Must(mac.New(h)), tk.Must(mac.New(twin))
			mi := mapHandles(singles, mac.New)
			return desc, twice(func(tag string) []op {
				msg := input(rt, "msg", 200)
				want := tk.Must(mm.ComputeMAC(msg))
				out := append(macOps(mm, msg, want), cold(macOps(mm2, msg, want), "~twin")...)
				for i := range mi {
					t := tk.Must(mi[i].ComputeMAC(msg))
					sfx := fmt.Sprintf("[key %d]", i)
					out = append(out, renamed(macOps(mm, msg, t)[1:], sfx)...)
					out = append(out, cold(macOps(mm2, msg, t)[1:], sfx+"~twin")...)
				}
				return out
			})
		case "signature":
			pub := tk.Must(h.Public())
			s, s2 := tk.Must(signature.NewSigner(h)), tk.Must(signature.NewSigner(twin))
			v, v2 := tk.Must(signature.NewVerifier(pub)), tk.Must(signature.NewVerifier(tk.Must(twin.Public())))
			si := mapHandles(singles, signature.NewSigner)
			vprim := tk.Must(signature.NewVerifier(tk.Must(singles[prim].Public())))
			return desc, each(func(i int, tag string) []op {
				msg := input(rt, "msg", 200)
				sig := tk.Must(si[i].Sign(msg))
				out := append(sigOps(si[i], v, msg, sig), cold(sigOps(si[i], v2, msg, sig), "~twin")...)
				if i == prim {
					out = append(out, renamed(sigOps(s, vprim, msg, sig)[:1], "[multi->primary]")...)
					out = append(out, cold(sigOps(s2, vprim, msg, sig)[:1], "[multi->primary]~twin")...)
				}
				return out
			})
		case "hybrid":
			d, d2 := tk.Must(hybrid.NewHybridDecrypt(h)), tk.Must(hybrid.NewHybridDecrypt(twin))
			e, e2 := tk.Must(hybrid.NewHybridEncrypt(tk.Must(h.Public()))), tk.Must(hybrid.NewHybridEncrypt(tk.Must(twin.Public())))
			ei := mapHandles(singles, func(sh *keyset.Handle) (tink.HybridEncrypt, error) {
				return hybrid.NewHybridEncrypt(tk.Must(sh.Public()))
			})
			dprim := tk.Must(hybrid.NewHybridDecrypt(singles[prim]))
			return desc, each(func(i int, tag string) []op {
				pt, info := input(rt, "pt", 200), shared(gen.Bytes(rt, "info", 40))
				wantPT := append([]byte{}, pt...)
				ct := tk.Must(ei[i].Encrypt(pt, info))
				out := append(hybridOps(ei[i], d, pt, info, wantPT, ct), cold(hybridOps(ei[i], d2, pt, info, wantPT, ct), "~twin")...)
				if i == prim {
					out = append(out, renamed(hybridOps(e, dprim, pt, info, wantPT, nil)[:1], "[multi->primary]")...)
					out = append(out, cold(hybridOps(e2, dprim, pt, info, wantPT, nil)[:1], "[multi->primary]~twin")...)
				}
				return out
			})
		case "streaming":
			sa, sa2 := tk.Must(streamingaead.New(h)), tk.Must(streamingaead.New(twin))
			sai := mapHandles(singles, streamingaead.New)
			return desc, each(func(i int, tag string) []op {
				pt, aad := input(rt, "pt", 9000), shared(gen.Bytes(rt, "aad", 40))
				wantPT := append([]byte{}, pt...)
				ct := tk.Must(streamEncrypt(sai[i], pt, aad))
				out := append(streamOps(sai[i], sa, pt, aad, wantPT, ct), cold(streamOps(sai[i], sa2, pt, aad, wantPT, ct), "~twin")...)
				if i == prim {
					out = append(out, renamed(streamOps(sa, sai[i], pt, aad, wantPT, ct)[:1], "[multi->primary]")...)
					out = append(out, cold(streamOps(sa2, sai[i], pt, aad, wantPT, ct)[:1], "[multi->primary]~twin")...)
				}
				return out
			})
		case "prf":
			set, set2 := tk.Must(prf.NewPRFSet(h)), tk.Must(prf.NewPRFSet(twin))
			return desc, each(func(i int, tag string) []op {
				in := input(rt, "input", 200)
				id := ks.Key[i].KeyId
				n, tooLong := prfLengths(rt, map[string]int{"HMACSHA256PRF": 32, "HMACSHA512PRF": 64, "HKDFSHA256PRF": 255 * 32, "AESCMACPRF": 16}[tmpls[i].name])
				want := tk.Must(set.PRFs[id].ComputePRF(in, n))
				out := append(prfOps(set.PRFs[id].ComputePRF, in, n, want, tooLong), cold(prfOps(set2.PRFs[id].ComputePRF, in, n, want, tooLong), "~twin")...)
				if i == prim {
					out = append(out, renamed(prfOps(set.ComputePrimaryPRF, in, n, want, tooLong), "[primary]")...)
					out = append(out, cold(prfOps(set2.ComputePrimaryPRF, in, n, want, tooLong), "[primary]~twin")...)
				}
				return out
			})
		case "jwtmac":
			jm, jm2 := tk.Must(jwt.NewMAC(h)), tk.Must(jwt.NewMAC(twin))
			ji := mapHandles(singles, jwt.NewMAC)
			return desc, each(func(i int, tag string) []op {
				in := drawJWTInput(rt, tag)
				tok := tk.Must(ji[i].ComputeMACAndEncode(in.raw))
				out := append(jwtMacOps(ji[i], jm, in, tok, ""), cold(jwtMacOps(ji[i], jm2, in, tok, ""), "~twin")...)
				if i == prim {
					out = append(out, renamed(jwtMacOps(jm, ji[i], in, tok, tok)[:1], "[multi->primary]")...)
					out = append(out, cold(jwtMacOps(jm2, ji[i], in, tok, tok)[:1], "[multi->primary]~twin")...)
				}
				return out
			})
		default: // jwtsig
			js, js2 := tk.Must(jwt.NewSigner(h)), tk.Must(jwt.NewSigner(twin))
			jv, jv2 := tk.Must(jwt.NewVerifier(tk.Must(h.Public()))), tk.Must(jwt.NewVerifier(tk.Must(twin.Public())))
			si := mapHandles(singles, jwt.NewSigner)
			vprim := tk.Must(jwt.NewVerifier(tk.Must(singles[prim].Public())))
			return desc, each(func(i int, tag string) []op {
				in := drawJWTInput(rt, tag)
				tok := tk.Must(si[i].SignAndEncode(in.raw))
				out := append(jwtSigOps(si[i], jv, in, tok), cold(jwtSigOps(si[i], jv2, in, tok), "~twin")...)
				if i == prim {
					out = append(out, renamed(jwtSigOps(js, vprim, in, tok)[:1], "[multi->primary]")...)
					out = append(out, cold(jwtSigOps(js2, vprim, in, tok)[:1], "[multi->primary]~twin")...)
				}
				return out
			})
		}
	}}
}

func mapHandles[P any](hs []*keyset.Handle, f func(*keyset.Handle) (P, error)) []P {
	out := make([]P, len(hs))
	for i, h := range hs {
		out[i] = tk.Must(f(h))
	}
	return out
}
