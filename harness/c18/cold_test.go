package c18

import (
	"bytes"
	"fmt"
	"sort"
	"strconv"
	"sync"
	"testing"
	"time"

	"github.com/tink-crypto/tink-go/v2/aead"
	"github.com/tink-crypto/tink-go/v2/daead"
	"github.com/tink-crypto/tink-go/v2/hybrid"
	"github.com/tink-crypto/tink-go/v2/hybrid/hpke"
	"github.com/tink-crypto/tink-go/v2/insecurecleartextkeyset"
	"github.com/tink-crypto/tink-go/v2/jwt"
	"github.com/tink-crypto/tink-go/v2/key"
	"github.com/tink-crypto/tink-go/v2/keyderivation"
	"github.com/tink-crypto/tink-go/v2/keyset"
	"github.com/tink-crypto/tink-go/v2/mac"
	"github.com/tink-crypto/tink-go/v2/prf"
	tinkpb "github.com/tink-crypto/tink-go/v2/proto/tink_go_proto"
	"github.com/tink-crypto/tink-go/v2/signature"
	"github.com/tink-crypto/tink-go/v2/signature/compositemldsa"
	"github.com/tink-crypto/tink-go/v2/signature/mldsa"
	"github.com/tink-crypto/tink-go/v2/signature/slhdsa"
	"github.com/tink-crypto/tink-go/v2/streamingaead"
	"github.com/tink-crypto/tink-go/v2/verifharness/internal/evid"
	"github.com/tink-crypto/tink-go/v2/verifharness/internal/gen"
)

// coldItem is one way of getting a key: a key template or parameters, and the primitive class.
type coldItem struct {
	name  string
	class string
	tmpl  func() *tinkpb.KeyTemplate
	param func() (key.Parameters, error)
}

func coldItems() []coldItem {
	t := func(name, class string, f func() *tinkpb.KeyTemplate) coldItem {
		return coldItem{name: name, class: class, tmpl: f}
	}
	items := []coldItem{
		t("AES128GCM", "aead", aead.AES128GCMKeyTemplate), t("AES256GCMNoPrefix", "aead", aead.AES256GCMNoPrefixKeyTemplate),
		t("AES128GCMSIV", "aead", aead.AES128GCMSIVKeyTemplate), t("AES128CTRHMACSHA256", "aead", aead.AES128CTRHMACSHA256KeyTemplate),
		t("ChaCha20Poly1305", "aead", aead.ChaCha20Poly1305KeyTemplate), t("XChaCha20Poly1305", "aead", aead.XChaCha20Poly1305KeyTemplate),
		t("XAES256GCM192", "aead", aead.XAES256GCM192BitNonceKeyTemplate),
		t("AESSIV", "daead", daead.AESSIVKeyTemplate),
		t("HMACSHA256Tag128", "mac", mac.HMACSHA256Tag128KeyTemplate), t("HMACSHA512Tag512", "mac", mac.HMACSHA512Tag512KeyTemplate), t("AESCMACTag128", "mac", mac.AESCMACTag128KeyTemplate),
		t("HMACSHA256PRF", "prf", prf.HMACSHA256PRFKeyTemplate), t("HKDFSHA256PRF", "prf", prf.HKDFSHA256PRFKeyTemplate), t("AESCMACPRF", "prf", prf.AESCMACPRFKeyTemplate),
		t("ECDSAP256", "signature", signature.ECDSAP256KeyTemplate), t("ECDSAP384SHA512", "signature", signature.ECDSAP384SHA512KeyTemplate),
		t("ECDSAP521", "signature", signature.ECDSAP521KeyTemplate), t("ECDSAP256Raw", "signature", signature.ECDSAP256RawKeyTemplate),
		t("ED25519", "signature", signature.ED25519KeyTemplate),
		t("HPKE-P256-AES128GCM", "hybrid", hybrid.DHKEM_P256_HKDF_SHA256_HKDF_SHA256_AES_128_GCM_Key_Template),
		t("HPKE-X25519-ChaCha-Raw", "hybrid", hybrid.DHKEM_X25519_HKDF_SHA256_HKDF_SHA256_CHACHA20_POLY1305_Raw_Key_Template),
		t("ECIES-AES128GCM", "hybrid", hybrid.ECIESHKDFAES128GCMKeyTemplate), t("ECIES-AES128CTRHMAC", "hybrid", hybrid.ECIESHKDFAES128CTRHMACSHA256KeyTemplate),
		t("AES128GCMHKDF4KB", "streaming", streamingaead.AES128GCMHKDF4KBKeyTemplate), t("AES256CTRHMACSHA256Segment4KB", "streaming", streamingaead.AES256CTRHMACSHA256Segment4KBKeyTemplate),
		t("JWT-HS256", "jwtmac", jwt.HS256Template), t("JWT-RawHS512", "jwtmac", jwt.RawHS512Template),
		t("JWT-ES256", "jwtsig", jwt.ES256Template), t("JWT-RawES384", "jwtsig", jwt.RawES384Template), t("JWT-ES512", "jwtsig", jwt.ES512Template),
		t("Deriver-HKDF-AES128GCM", "deriver", func() *tinkpb.KeyTemplate {
			kt, err := keyderivation.CreatePRFBasedKeyTemplate(prf.HKDFSHA256PRFKeyTemplate(), aead.AES128GCMKeyTemplate())
			if err != nil {
				panic(err)
			}
			return kt
		}),
	}
	p := func(name, class string, f func() (key.Parameters, error)) {
		items = append(items, coldItem{name: name, class: class, param: f})
	}
	for _, inst := range []mldsa.Instance{mldsa.MLDSA44, mldsa.MLDSA65, mldsa.MLDSA87} {
		p(fmt.Sprintf("ML-DSA-%v", inst), "signature", func() (key.Parameters, error) { return mldsa.NewParameters(inst, mldsa.VariantTink) })
	}
	for _, s := range []struct {
		ht slhdsa.HashType
		ks int
	}{{slhdsa.SHA2, 64}, {slhdsa.SHAKE, 64}, {slhdsa.SHA2, 96}, {slhdsa.SHAKE, 128}} {
		p(fmt.Sprintf("SLH-DSA-%v-%d-f", s.ht, s.ks), "signature", func() (key.Parameters, error) {
			return slhdsa.NewParameters(s.ht, s.ks, slhdsa.FastSigning, slhdsa.VariantTink)
		})
	}
	comps := []struct {
		alg  compositemldsa.ClassicalAlgorithm
		inst compositemldsa.MLDSAInstance
		name string
		slow bool
	}{{compositemldsa.Ed25519, compositemldsa.MLDSA65, "Ed25519-MLDSA65", false}, {compositemldsa.ECDSAP256, compositemldsa.MLDSA65, "ECDSAP256-MLDSA65", false},
		{compositemldsa.ECDSAP384, compositemldsa.MLDSA87, "ECDSAP384-MLDSA87", false}, {compositemldsa.ECDSAP521, compositemldsa.MLDSA87, "ECDSAP521-MLDSA87", false},
		{compositemldsa.RSA3072PSS, compositemldsa.MLDSA65, "RSA3072PSS-MLDSA65", true}, {compositemldsa.RSA3072PKCS1, compositemldsa.MLDSA65, "RSA3072PKCS1-MLDSA65", true}}
	for _, c := range comps {
		if c.slow && evid.Tier() != "thorough" {
			continue
		}
		p("Composite-"+c.name, "signature", func() (key.Parameters, error) {
			return compositemldsa.NewParameters(c.alg, c.inst, compositemldsa.VariantTink)
		})
	}
	for _, k := range []struct {
		id   hpke.KEMID
		kdf  hpke.KDFID
		name string
	}{{hpke.DHKEM_P384_HKDF_SHA384, hpke.HKDFSHA384, "P384"}, {hpke.DHKEM_P521_HKDF_SHA512, hpke.HKDFSHA512, "P521"}, {hpke.X_WING, hpke.HKDFSHA256, "X-Wing"},
		{hpke.ML_KEM768, hpke.HKDFSHA256, "ML-KEM-768"}, {hpke.ML_KEM1024, hpke.HKDFSHA256, "ML-KEM-1024"}} {
		p("HPKE-"+k.name, "hybrid", func() (key.Parameters, error) {
			return hpke.NewParameters(hpke.ParametersOpts{KEMID: k.id, KDFID: k.kdf, AEADID: hpke.AES256GCM, Variant: hpke.VariantTink})
		})
	}
	if evid.Tier() == "thorough" {
		items = append(items, t("RSA_SSA_PKCS1_3072", "signature", signature.RSA_SSA_PKCS1_3072_SHA256_F4_Key_Template), t("RSA_SSA_PSS_3072", "signature", signature.RSA_SSA_PSS_3072_SHA256_32_F4_Key_Template),
			t("JWT-RS256-2048", "jwtsig", jwt.RS256_2048_F4_Key_Template), t("JWT-PS256-2048", "jwtsig", jwt.PS256_2048_F4_Key_Template))
	}
	return items
}

// construct does everything a first user of a key type does: generate the key, build the handle,
// take the public part, write and re-read the keyset (parsers and serializers), create the
// primitive and use it once.
func (it coldItem) construct(g int) error {
	m := keyset.NewManager()
	var id uint32
	var err error
	if it.tmpl != nil {
		id, err = m.Add(it.tmpl())
	} else {
		var p key.Parameters
		if p, err = it.param(); err == nil {
			id, err = m.AddNewKeyFromParameters(p)
		}
	}
	if err != nil {
		return fmt.Errorf("adding the key: %w", err)
	}
	if err := m.SetPrimary(id); err != nil {
		return err
	}
	h, err := m.Handle()
	if err != nil {
		return err
	}
	var buf bytes.Buffer
	if err := insecurecleartextkeyset.Write(h, keyset.NewBinaryWriter(&buf)); err != nil {
		return fmt.Errorf("writing the keyset: %w", err)
	}
	if h, err = insecurecleartextkeyset.Read(keyset.NewBinaryReader(&buf)); err != nil {
		return fmt.Errorf("reading the keyset back: %w", err)
	}
	_ = h.String()
	msg, ad := []byte("message of goroutine "+strconv.Itoa(g)+" for "+it.name), []byte("associated data") // no fmt here: its sync.Pool would order the goroutines
	switch it.class {
	case "aead":
		a, err := aead.New(h)
		if err != nil {
			return err
		}
		ct, err := a.Encrypt(msg, ad)
		if err != nil {
			return err
		}
		if pt, err := a.Decrypt(ct, ad); err != nil || !bytes.Equal(pt, msg) {
			return fmt.Errorf("round trip: %v", err)
		}
	case "daead":
		d, err := daead.New(h)
		if err != nil {
			return err
		}
		ct, err := d.EncryptDeterministically(msg, ad)
		if err != nil {
			return err
		}
		if pt, err := d.DecryptDeterministically(ct, ad); err != nil || !bytes.Equal(pt, msg) {
			return fmt.Errorf("round trip: %v", err)
		}
	case "mac":
		mm, err := mac.New(h)
		if err != nil {
			return err
		}
		tag, err := mm.ComputeMAC(msg)
		if err != nil {
			return err
		}
		if err := mm.VerifyMAC(tag, msg); err != nil {
			return err
		}
	case "prf":
		s, err := prf.NewPRFSet(h)
		if err != nil {
			return err
		}
		a, err1 := s.ComputePrimaryPRF(msg, 16)
		b, err2 := s.ComputePrimaryPRF(msg, 16)
		if err1 != nil || err2 != nil || !bytes.Equal(a, b) {
			return fmt.Errorf("PRF not deterministic: %v %v", err1, err2)
		}
	case "signature":
		pub, err := h.Public()
		if err != nil {
			return err
		}
		s, err := signature.NewSigner(h)
		if err != nil {
			return err
		}
		v, err := signature.NewVerifier(pub)
		if err != nil {
			return err
		}
		sig, err := s.Sign(msg)
		if err != nil {
			return err
		}
		if err := v.Verify(sig, msg); err != nil {
			return fmt.Errorf("own signature rejected: %w", err)
		}
	case "hybrid":
		pub, err := h.Public()
		if err != nil {
			return err
		}
		e, err := hybrid.NewHybridEncrypt(pub)
		if err != nil {
			return err
		}
		d, err := hybrid.NewHybridDecrypt(h)
		if err != nil {
			return err
		}
		ct, err := e.Encrypt(msg, ad)
		if err != nil {
			return err
		}
		if pt, err := d.Decrypt(ct, ad); err != nil || !bytes.Equal(pt, msg) {
			return fmt.Errorf("round trip: %v", err)
		}
	case "streaming":
		sa, err := streamingaead.New(h)
		if err != nil {
			return err
		}
		var ct bytes.Buffer
		w, err := sa.NewEncryptingWriter(&ct, ad)
		if err != nil {
			return err
		}
		if _, err := w.Write(msg); err != nil {
			return err
		}
		if err := w.Close(); err != nil {
			return err
		}
		r, err := sa.NewDecryptingReader(bytes.NewReader(ct.Bytes()), ad)
		if err != nil {
			return err
		}
		var out bytes.Buffer
		if _, err := out.ReadFrom(r); err != nil || !bytes.Equal(out.Bytes(), msg) {
			return fmt.Errorf("stream round trip: %v", err)
		}
	case "jwtmac", "jwtsig":
		iss := "issuer"
		exp := time.Unix(1700003600, 0)
		raw, err := jwt.NewRawJWT(&jwt.RawJWTOptions{Issuer: &iss, ExpiresAt: &exp})
		if err != nil {
			return err
		}
		val, err := jwt.NewValidator(&jwt.ValidatorOpts{ExpectedIssuer: &iss, FixedNow: time.Unix(1700000000, 0)})
		if err != nil {
			return err
		}
		if it.class == "jwtmac" {
			mm, err := jwt.NewMAC(h)
			if err != nil {
				return err
			}
			tok, err := mm.ComputeMACAndEncode(raw)
			if err != nil {
				return err
			}
			if _, err := mm.VerifyMACAndDecode(tok, val); err != nil {
				return err
			}
		} else {
			pub, err := h.Public()
			if err != nil {
				return err
			}
			s, err := jwt.NewSigner(h)
			if err != nil {
				return err
			}
			v, err := jwt.NewVerifier(pub)
			if err != nil {
				return err
			}
			tok, err := s.SignAndEncode(raw)
			if err != nil {
				return err
			}
			if _, err := v.VerifyAndDecode(tok, val); err != nil {
				return err
			}
			if _, err := jwt.JWKSetFromPublicKeysetHandle(pub); err != nil {
				return fmt.Errorf("JWK export: %w", err)
			}
		}
	case "deriver":
		d, err := keyderivation.New(h)
		if err != nil {
			return err
		}
		dh, err := d.DeriveKeyset(msg)
		if err != nil {
			return err
		}
		a, err := aead.New(dh)
		if err != nil {
			return err
		}
		ct, err := a.Encrypt(msg, ad)
		if err != nil {
			return err
		}
		if pt, err := a.Decrypt(ct, ad); err != nil || !bytes.Equal(pt, msg) {
			return fmt.Errorf("derived key round trip: %v", err)
		}
	}
	return nil
}

// TestColdConcurrentConstruction: the FIRST use of every key type in a process happens from several
// goroutines at once. TestConcurrentUse runs every operation once sequentially before the concurrent
// phase (its oracle is "the same result as alone"), which also fills every lazily built table and
// cache; a table that is filled without synchronisation on first use is invisible afterwards. Here
// each process starts cold and, for each item of a list of key templates and parameters in an order
// that depends on VERIF_SEED and the shard, three goroutines at once generate a key of that type,
// build the handle, take its public part, write and re-read the keyset, create the primitive and
// use it; two such groups are in flight together. The race detector is the oracle for "no data
// race", the round trips for "returns what it returns alone". (Added after seeded change C18e: an
// unsynchronised package-level map filled on the first composite ML-DSA key of each kind.)
func TestColdConcurrentConstruction(t *testing.T) {
	items := coldItems()
	sort.Slice(items, func(i, j int) bool { return items[i].name < items[j].name })
	order := gen.Expand(uint64(evid.EnvInt("VERIF_SEED", 20260925))*131+uint64(evid.EnvInt("VERIF_SHARD", 0)), 2*len(items))
	for i := len(items) - 1; i > 0; i-- {
		j := (int(order[2*i])<<8 | int(order[2*i+1])) % (i + 1)
		items[i], items[j] = items[j], items[i]
	}
	const perItem, inFlight = 3, 2
	// Per item three FRESH goroutines wait on one channel and are released together by close(): a
	// pool of workers taking tasks from a channel let one worker run all three tasks of a fast item
	// one after the other. Two items are in flight (semaphore); the goroutines of one item share
	// nothing of the harness but the start channel (closed before any of them runs) and their
	// WaitGroup (touched after their work is done).
	var mu sync.Mutex
	var failures []string
	sem := make(chan struct{}, inFlight)
	var itemsWG sync.WaitGroup
	for _, it := range items {
		sem <- struct{}{}
		itemsWG.Add(1)
		go func(it coldItem) {
			defer itemsWG.Done()
			defer func() { <-sem }()
			start := make(chan struct{})
			var wg sync.WaitGroup
			for g := 0; g < perItem; g++ {
				wg.Add(1)
				go func(g int) {
					defer wg.Done()
					<-start
					if err := it.construct(g); err != nil {
						mu.Lock()
						failures = append(failures, fmt.Sprintf("%s (goroutine %d): %v", it.name, g, err))
						mu.Unlock()
					}
				}(g)
			}
			close(start)
			wg.Wait()
		}(it)
	}
	itemsWG.Wait()
	sort.Strings(failures)
	for _, f := range failures {
		t.Errorf("first use from %d goroutines at once: %s", perItem, f)
	}
	for i, it := range items {
		evid.Case("cold/"+it.class, true, evid.NewH().S(it.name).I(int64(i)).Sum(), func() any {
			return map[string]any{"item": it.name, "position": i, "goroutines": perItem}
		})
	}
	evid.Add("cold_constructions", int64(len(items)*perItem))
}
