// Package c18 decides property C18 (with the limits stated in DESIGN.md): primitives and handles
// are safe for concurrent use. One shared primitive is hammered from G goroutines; every result is
// compared with the sequential expectation; the binary is built with the Go race detector.
package c18

import (
	"bytes"
	"encoding/json"
	"flag"
	"fmt"
	"os"
	"path/filepath"
	"runtime"
	"strconv"
	"strings"
	"sync"
	"testing"
	"time"

	"pgregory.net/rapid"

	"google.golang.org/protobuf/proto"

	"github.com/tink-crypto/tink-go/v2/aead"
	"github.com/tink-crypto/tink-go/v2/core/registry"
	"github.com/tink-crypto/tink-go/v2/daead"
	"github.com/tink-crypto/tink-go/v2/hybrid"
	"github.com/tink-crypto/tink-go/v2/insecurecleartextkeyset"
	"github.com/tink-crypto/tink-go/v2/internal/primitiveregistry"
	"github.com/tink-crypto/tink-go/v2/internal/protoserialization"
	"github.com/tink-crypto/tink-go/v2/jwt"
	"github.com/tink-crypto/tink-go/v2/keyderivation"
	"github.com/tink-crypto/tink-go/v2/keyset"
	"github.com/tink-crypto/tink-go/v2/mac"
	"github.com/tink-crypto/tink-go/v2/prf"
	tinkpb "github.com/tink-crypto/tink-go/v2/proto/tink_go_proto"
	"github.com/tink-crypto/tink-go/v2/signature"
	"github.com/tink-crypto/tink-go/v2/streamingaead"
	"github.com/tink-crypto/tink-go/v2/tink"
	"github.com/tink-crypto/tink-go/v2/verifharness/internal/aeadcase"
	"github.com/tink-crypto/tink-go/v2/verifharness/internal/detrand"
	"github.com/tink-crypto/tink-go/v2/verifharness/internal/evid"
	"github.com/tink-crypto/tink-go/v2/verifharness/internal/gen"
	"github.com/tink-crypto/tink-go/v2/verifharness/internal/keys"
	"github.com/tink-crypto/tink-go/v2/verifharness/internal/legacykm"
	"github.com/tink-crypto/tink-go/v2/verifharness/internal/tk"
)

func TestMain(m *testing.M) {
	legacykm.Register()
	evid.Main(m)
}

// op is one call on the shared object; it returns an error when the concurrent result differs
// from what the same call returns when executed alone. cold ops run on an unwarmed twin of the
// shared object: the sequential pass skips them (see cold in ops_test.go).
type op struct {
	name string
	run  func() error
	cold bool
	lead bool // a cold op that every second goroutine starts with (the first reads of one unwarmed object overlap)
}

// shared returns a slice with spare capacity that all goroutines pass as the same argument.
func shared(b []byte) []byte {
	buf := make([]byte, len(b), len(b)+64)
	copy(buf, b)
	return buf
}

func prefixTypeDraw(rt *rapid.T) tinkpb.OutputPrefixType {
	return rapid.SampledFrom([]tinkpb.OutputPrefixType{tinkpb.OutputPrefixType_TINK, tinkpb.OutputPrefixType_LEGACY, tinkpb.OutputPrefixType_CRUNCHY, tinkpb.OutputPrefixType_RAW}).Draw(rt, "prefixtype")
}

func legacyHandle(rt *rapid.T, url string, keyLen int) *keyset.Handle {
	id := gen.KeyID(rt, "id") | 1
	ks := &tinkpb.Keyset{PrimaryKeyId: id, Key: []*tinkpb.Keyset_Key{legacykm.Key(url, gen.BytesN(rt, "legacykey", keyLen), legacykm.Material(url), prefixTypeDraw(rt), id, tinkpb.KeyStatusType_ENABLED)}}
	return tk.Must(legacykm.HandleFromProto(ks))
}

func withPrefix(kt *tinkpb.KeyTemplate, p tinkpb.OutputPrefixType) *tinkpb.KeyTemplate {
	kt.OutputPrefixType = p
	return kt
}

type builder struct {
	class string
	build func(rt *rapid.T) (desc string, ops []op)
}

func fixedNow() time.Time { return time.Unix(1700000000, 0) }

// prfLengths draws an output length inside the range of a PRF whose longest output is max bytes
// (HMAC: digest size, AES-CMAC: 16, HKDF: 255 x digest size) and returns the first length beyond it.
func prfLengths(rt *rapid.T, max int) (n, tooLong uint32) {
	switch k := rapid.IntRange(0, 9).Draw(rt, "outlen_kind"); {
	case k < 6:
		n = uint32(rapid.IntRange(1, min(16, max)).Draw(rt, "outlen"))
	case k < 8:
		n = uint32(rapid.IntRange(1, max).Draw(rt, "outlen"))
	default:
		n = uint32(max)
	}
	return n, uint32(max) + 1
}

// jwtInput is one raw token with its validator and the comparison of a verified token with it.
type jwtInput struct {
	raw   *jwt.RawJWT
	val   *jwt.Validator
	check func(v *jwt.VerifiedJWT, err error) error
}

// drawJWTInput: tokens of one case differ in issuer (tag), subject and type header.
func drawJWTInput(rt *rapid.T, tag string) jwtInput {
	iss := "issuer-" + tag
	sub := rapid.StringMatching(`[a-z]{0,8}`).Draw(rt, "subject")
	exp := fixedNow().Add(time.Hour)
	opts := &jwt.RawJWTOptions{Issuer: &iss, Subject: &sub, ExpiresAt: &exp}
	vopts := &jwt.ValidatorOpts{ExpectedIssuer: &iss, FixedNow: fixedNow()}
	var typ *string
	switch rapid.IntRange(0, 2).Draw(rt, "typ") {
	case 1:
		t := "JWT"
		typ = &t
	case 2:
		t := rapid.StringMatching(`[a-z+]{1,8}`).Draw(rt, "typvalue")
		typ = &t
	}
	opts.TypeHeader, vopts.ExpectedTypeHeader = typ, typ
	in := jwtInput{raw: tk.Must(jwt.NewRawJWT(opts)), val: tk.Must(jwt.NewValidator(vopts))}
	in.check = func(v *jwt.VerifiedJWT, err error) error {
		if err != nil {
			return err
		}
		if got, err := v.Issuer(); err != nil || got != iss {
			return fmt.Errorf("issuer %q, %v", got, err)
		}
		if got, err := v.Subject(); err != nil || got != sub {
			return fmt.Errorf("subject %q, %v", got, err)
		}
		if v.HasTypeHeader() != (typ != nil) {
			return fmt.Errorf("type header present = %v, the token was made with %v", v.HasTypeHeader(), typ != nil)
		}
		if typ != nil {
			if got, err := v.TypeHeader(); err != nil || got != *typ {
				return fmt.Errorf("type header %q, %v; the token was made with %q", got, err, *typ)
			}
		}
		return nil
	}
	return in
}

// jwtMacOps: wantTok, when not empty, is the token the producer returned for in.raw when called alone.
func jwtMacOps(producer, consumer jwt.MAC, in jwtInput, tok, wantTok string) []op {
	return []op{
		{name: "ComputeMACAndEncode+VerifyMACAndDecode", run: func() error {
			t, err := producer.ComputeMACAndEncode(in.raw)
			if err != nil || (wantTok != "" && t != wantTok) {
				return fmt.Errorf("token %q differs from the sequential result %q: %v", t, wantTok, err)
			}
			return in.check(consumer.VerifyMACAndDecode(t, in.val))
		}},
		{name: "VerifyMACAndDecode", run: func() error { return in.check(consumer.VerifyMACAndDecode(tok, in.val)) }},
		{name: "VerifyMACAndDecode-bad", run: func() error {
			if _, err := consumer.VerifyMACAndDecode(tok[:len(tok)-1], in.val); err == nil {
				return fmt.Errorf("truncated token accepted")
			}
			return nil
		}},
	}
}

func jwtSigOps(s jwt.Signer, v jwt.Verifier, in jwtInput, tok string) []op {
	return []op{
		{name: "SignAndEncode+VerifyAndDecode", run: func() error {
			t, err := s.SignAndEncode(in.raw)
			if err != nil {
				return err
			}
			return in.check(v.VerifyAndDecode(t, in.val))
		}},
		{name: "VerifyAndDecode", run: func() error { return in.check(v.VerifyAndDecode(tok, in.val)) }},
		{name: "VerifyAndDecode-bad", run: func() error {
			if _, err := v.VerifyAndDecode(tok[:len(tok)-1], in.val); err == nil {
				return fmt.Errorf("truncated token accepted")
			}
			return nil
		}},
	}
}

// Every builder makes, next to the shared object(s) that the sequential pass uses, an UNWARMED twin
// from the same key (the keyset written and parsed again, or the key object built again): ops with
// "~twin" in the name run on it, for the first time inside the concurrent phase. Deterministic
// results of the twin are compared with what the warmed object returned alone; randomized ones are
// cross-checked (twin produces / warmed object consumes, and the other way round).
func builders() []builder {
	return []builder{
		{"aead", func(rt *rapid.T) (string, []op) {
			var a, a2 tink.AEAD
			desc := ""
			if rapid.IntRange(0, 4).Draw(rt, "legacy") == 0 {
				h := legacyHandle(rt, legacykm.AeadURL, 32)
				a, a2, desc = tk.Must(aead.New(h)), tk.Must(aead.New(twinHandle(h))), "legacy AEAD adapter"
			} else if rapid.IntRange(0, 4).Draw(rt, "envelope") == 0 {
				// the KMS envelope AEAD through its three construction routes; the twin shares the key-encryption
				// AEAD, so it opens what the first one sealed (added after seeded change C18j: a cache of the
				// last unwrapped DEK in the envelope object)
				api := gen.Pick(rt, "envelope_api", tk.EnvelopeAPIsAll)
				dek := gen.Pick(rt, "envelope_dek", []*tinkpb.KeyTemplate{aead.AES128GCMKeyTemplate(), aead.XChaCha20Poly1305KeyTemplate(), aead.AES128CTRHMACSHA256KeyTemplate()})
				kek := tk.Must(aead.New(tk.Must(keyset.NewHandle(aead.AES256GCMKeyTemplate()))))
				a, a2, desc = tk.Must(tk.Envelope(api, dek, kek)), tk.Must(tk.Envelope(api, dek, kek)), "KMS envelope AEAD via "+api+", DEK "+dek.TypeUrl
			} else {
				c := aeadcase.Draw(rt)
				c2 := *c
				if err := c2.Rebuild(); err != nil {
					rt.Fatalf("%v: building the primitive a second time: %v", c, err)
				}
				a, a2, desc = c.P, c2.P, c.String()
			}
			return desc, twice(func(tag string) []op {
				pt, ad := input(rt, "pt", 300), shared(gen.Bytes(rt, "ad", 60))
				wantPT := append([]byte{}, pt...)
				ct := shared(tk.Must(a.Encrypt(pt, ad)))
				ops := aeadOps(a, a, pt, ad, wantPT, ct)
				ops = append(ops, cold(aeadOps(a2, a, pt, ad, wantPT, ct)[:1], "~twin-encrypts")...)
				return append(ops, cold(aeadOps(a, a2, pt, ad, wantPT, ct), "~twin")...)
			})
		}},
		{"mac", func(rt *rapid.T) (string, []op) {
			var h *keyset.Handle
			desc := ""
			if rapid.IntRange(0, 2).Draw(rt, "legacy") == 0 {
				h, desc = legacyHandle(rt, legacykm.MacURL, 32), "legacy MAC adapter"
			} else {
				kt := rapid.SampledFrom([]*tinkpb.KeyTemplate{mac.HMACSHA256Tag128KeyTemplate(), mac.HMACSHA512Tag512KeyTemplate(), mac.AESCMACTag128KeyTemplate()}).Draw(rt, "template")
				kt = withPrefix(kt, prefixTypeDraw(rt))
				h, desc = tk.Must(keyset.NewHandle(kt)), fmt.Sprintf("MAC %s %v", kt.TypeUrl, kt.OutputPrefixType)
			}
			m, m2 := tk.Must(mac.New(h)), tk.Must(mac.New(twinHandle(h)))
			return desc, twice(func(tag string) []op {
				msg := input(rt, "msg", 200)
				want := tk.Must(m.ComputeMAC(msg))
				return append(macOps(m, msg, want), cold(macOps(m2, msg, want), "~twin")...)
			})
		}},
		{"daead", func(rt *rapid.T) (string, []op) {
			var h *keyset.Handle
			desc := "AES-SIV"
			if rapid.IntRange(0, 2).Draw(rt, "legacy") == 0 {
				h, desc = legacyHandle(rt, legacykm.DaeadURL, 64), "legacy DAEAD adapter"
			} else {
				h = tk.Must(keyset.NewHandle(withPrefix(daead.AESSIVKeyTemplate(), prefixTypeDraw(rt))))
			}
			d, d2 := tk.Must(daead.New(h)), tk.Must(daead.New(twinHandle(h)))
			return desc, twice(func(tag string) []op {
				pt, ad := input(rt, "pt", 200), shared(gen.Bytes(rt, "ad", 60))
				wantPT := append([]byte{}, pt...)
				want := tk.Must(d.EncryptDeterministically(pt, ad))
				return append(daeadOps(d, pt, ad, wantPT, want), cold(daeadOps(d2, pt, ad, wantPT, want), "~twin")...)
			})
		}},
		{"signature", func(rt *rapid.T) (string, []op) {
			var h *keyset.Handle
			desc := ""
			if rapid.IntRange(0, 2).Draw(rt, "legacy") == 0 {
				h, desc = legacyHandle(rt, legacykm.SignerURL, 32), "legacy signer/verifier adapters"
			} else {
				kt := rapid.SampledFrom([]*tinkpb.KeyTemplate{signature.ED25519KeyTemplate(), signature.ECDSAP256KeyTemplate(), signature.ECDSAP384SHA384KeyTemplate()}).Draw(rt, "template")
				kt = withPrefix(kt, prefixTypeDraw(rt))
				h, desc = tk.Must(keyset.NewHandle(kt)), fmt.Sprintf("signature %s %v", kt.TypeUrl, kt.OutputPrefixType)
			}
			h2 := twinHandle(h)
			s, s2 := tk.Must(signature.NewSigner(h)), tk.Must(signature.NewSigner(h2))
			v, v2 := tk.Must(signature.NewVerifier(tk.Must(h.Public()))), tk.Must(signature.NewVerifier(tk.Must(h2.Public())))
			return desc, twice(func(tag string) []op {
				msg := input(rt, "msg", 200)
				sig := tk.Must(s.Sign(msg))
				ops := sigOps(s, v, msg, sig)
				ops = append(ops, cold(sigOps(s2, v, msg, sig)[:1], "~twin-signs")...)
				return append(ops, cold(sigOps(s, v2, msg, sig), "~twin")...)
			})
		}},
		{"hybrid", func(rt *rapid.T) (string, []op) {
			var h *keyset.Handle
			desc := ""
			if rapid.IntRange(0, 2).Draw(rt, "legacy") == 0 {
				h, desc = legacyHandle(rt, legacykm.HybridPrivURL, 32), "legacy hybrid adapters"
			} else {
				kt := rapid.SampledFrom([]*tinkpb.KeyTemplate{hybrid.DHKEM_X25519_HKDF_SHA256_HKDF_SHA256_AES_128_GCM_Key_Template(), hybrid.DHKEM_P256_HKDF_SHA256_HKDF_SHA256_AES_256_GCM_Raw_Key_Template(), hybrid.ECIESHKDFAES128GCMKeyTemplate(), hybrid.ECIESHKDFAES128CTRHMACSHA256KeyTemplate()}).Draw(rt, "template")
				h, desc = tk.Must(keyset.NewHandle(kt)), "hybrid "+kt.TypeUrl
			}
			h2 := twinHandle(h)
			e, e2 := tk.Must(hybrid.NewHybridEncrypt(tk.Must(h.Public()))), tk.Must(hybrid.NewHybridEncrypt(tk.Must(h2.Public())))
			d, d2 := tk.Must(hybrid.NewHybridDecrypt(h)), tk.Must(hybrid.NewHybridDecrypt(h2))
			return desc, twice(func(tag string) []op {
				pt, info := input(rt, "pt", 200), shared(gen.Bytes(rt, "info", 40))
				wantPT := append([]byte{}, pt...)
				ct := tk.Must(e.Encrypt(pt, info))
				ops := hybridOps(e, d, pt, info, wantPT, ct)
				ops = append(ops, cold(hybridOps(e2, d, pt, info, wantPT, ct)[:1], "~twin-encrypts")...)
				return append(ops, cold(hybridOps(e, d2, pt, info, wantPT, ct), "~twin")...)
			})
		}},
		{"prf", func(rt *rapid.T) (string, []op) {
			type tmpl struct {
				kt  *tinkpb.KeyTemplate
				max int
			}
			t := rapid.SampledFrom([]tmpl{{prf.HMACSHA256PRFKeyTemplate(), 32}, {prf.HKDFSHA256PRFKeyTemplate(), 255 * 32}, {prf.AESCMACPRFKeyTemplate(), 16}, {prf.HMACSHA512PRFKeyTemplate(), 64}}).Draw(rt, "template")
			h := tk.Must(keyset.NewHandle(t.kt))
			set, set2 := tk.Must(prf.NewPRFSet(h)), tk.Must(prf.NewPRFSet(twinHandle(h)))
			return "PRF " + t.kt.TypeUrl, twice(func(tag string) []op {
				in := input(rt, "input", 200)
				n, tooLong := prfLengths(rt, t.max)
				want := tk.Must(set.ComputePrimaryPRF(in, n))
				return append(prfOps(set.ComputePrimaryPRF, in, n, want, tooLong), cold(prfOps(set2.ComputePrimaryPRF, in, n, want, tooLong), "~twin")...)
			})
		}},
		{"streaming", func(rt *rapid.T) (string, []op) {
			kt := rapid.SampledFrom([]*tinkpb.KeyTemplate{streamingaead.AES128GCMHKDF4KBKeyTemplate(), streamingaead.AES128CTRHMACSHA256Segment4KBKeyTemplate(), streamingaead.AES256GCMHKDF4KBKeyTemplate()}).Draw(rt, "template")
			h := tk.Must(keyset.NewHandle(kt))
			sa, sa2 := tk.Must(streamingaead.New(h)), tk.Must(streamingaead.New(twinHandle(h)))
			return "streaming " + kt.TypeUrl, twice(func(tag string) []op {
				pt, aad := input(rt, "pt", 9000), shared(gen.Bytes(rt, "aad", 40))
				wantPT := append([]byte{}, pt...)
				ct := tk.Must(streamEncrypt(sa, pt, aad))
				ops := streamOps(sa, sa, pt, aad, wantPT, ct)
				ops = append(ops, cold(streamOps(sa2, sa, pt, aad, wantPT, ct)[:1], "~twin-encrypts")...)
				return append(ops, cold(streamOps(sa, sa2, pt, aad, wantPT, ct), "~twin")...)
			})
		}},
		{"jwt", func(rt *rapid.T) (string, []op) {
			// One MAC primitive and one signer/verifier pair (any JWT key type and kid strategy of the
			// generator), used at once, each with two independently drawn tokens that differ in type
			// header, subject and audience (the token encoder is shared package code: different headers
			// must be in flight together; second input set and the second primitive added after seeded
			// change C18d).
			mi := keys.DrawUsable(rt, "jwtmac", keys.JWTMAC)
			si := keys.DrawUsable(rt, "jwtsig", keys.JWTSignature)
			mh := tk.Must(tk.HandleFromKey(mi.Key))
			m, m2 := tk.Must(jwt.NewMAC(mh)), tk.Must(jwt.NewMAC(twinHandle(mh)))
			sh := tk.Must(tk.HandleFromKey(si.Key))
			sh2 := twinHandle(sh)
			sg, sg2 := tk.Must(jwt.NewSigner(sh)), tk.Must(jwt.NewSigner(sh2))
			vf, vf2 := tk.Must(jwt.NewVerifier(tk.Must(sh.Public()))), tk.Must(jwt.NewVerifier(tk.Must(sh2.Public())))
			capCalls(64)
			desc := "JWT " + mi.Desc + " + " + si.Desc
			return desc, twice(func(tag string) []op {
				in := drawJWTInput(rt, tag)
				macTok := tk.Must(m.ComputeMACAndEncode(in.raw))
				sigTok := tk.Must(sg.SignAndEncode(in.raw))
				ops := append(jwtMacOps(m, m, in, macTok, macTok), jwtSigOps(sg, vf, in, sigTok)...)
				ops = append(ops, cold(jwtMacOps(m2, m2, in, macTok, macTok), "~twin")...)
				ops = append(ops, cold(jwtSigOps(sg2, vf, in, sigTok)[:1], "~twin-signs")...)
				return append(ops, cold(jwtSigOps(sg, vf2, in, sigTok), "~twin")...)
			})
		}},
		{"derive", func(rt *rapid.T) (string, []op) {
			// no failing op: every salt is a valid DeriveKeyset input
			derived := rapid.SampledFrom([]*tinkpb.KeyTemplate{aead.AES128GCMKeyTemplate(), mac.HMACSHA256Tag128KeyTemplate(), signature.ED25519KeyTemplate(), daead.AESSIVKeyTemplate()}).Draw(rt, "derived")
			kt := tk.Must(keyderivation.CreatePRFBasedKeyTemplate(prf.HKDFSHA256PRFKeyTemplate(), derived))
			h := tk.Must(keyset.NewHandle(kt))
			d, d2 := tk.Must(keyderivation.New(h)), tk.Must(keyderivation.New(twinHandle(h)))
			return "DeriveKeyset -> " + derived.TypeUrl, twice(func(tag string) []op {
				salt := input(rt, "salt", 40)
				want := serializeHandle(tk.Must(d.DeriveKeyset(salt)))
				return append(deriveOps(d, salt, want), cold(deriveOps(d2, salt, want), "~twin")...)
			})
		}},
		{"registry", func(rt *rapid.T) (string, []op) {
			// read operations on the global registries and the serialization registry, for a key of an
			// AEAD, MAC or DAEAD type (the classes whose key types all have a key manager); what the
			// registries hand out is USED, with the results fixed before the concurrent phase
			typ := gen.Pick(rt, "keytype", registryTypes)
			c := keys.ClassOf(typ)
			info := keys.DrawTypeUsable(rt, "key", typ)
			caseSub = append(caseSub, info.Type)
			k := info.Key
			ks := tk.Must(protoserialization.SerializeKey(k))
			want := tk.Must(proto.MarshalOptions{Deterministic: true}.Marshal(ks.KeyData()))
			url := ks.KeyData().GetTypeUrl()
			params := k.Parameters()
			wantTmpl := tk.Must(proto.MarshalOptions{Deterministic: true}.Marshal(tk.Must(protoserialization.SerializeParameters(params))))
			msg, ad := shared(gen.Bytes(rt, "msg", 100)), shared(gen.Bytes(rt, "ad", 40))
			wantMsg := append([]byte{}, msg...)
			// use(p, want) uses a primitive of the class: MAC / DAEAD outputs are compared with want (the
			// output of the same route when called alone; nil = not compared), AEAD makes a round trip
			use := func(p any, want []byte) ([]byte, error) {
				switch c {
				case keys.AEAD:
					a, ok := p.(tink.AEAD)
					if !ok {
						return nil, fmt.Errorf("primitive is %T, not a tink.AEAD", p)
					}
					ct, err := a.Encrypt(msg, ad)
					if err != nil {
						return nil, err
					}
					if pt, err := a.Decrypt(ct, ad); err != nil || !bytes.Equal(pt, wantMsg) {
						return nil, fmt.Errorf("round trip gives %s, %v", gen.Hex(pt), err)
					}
					return nil, nil
				case keys.MAC:
					m, ok := p.(tink.MAC)
					if !ok {
						return nil, fmt.Errorf("primitive is %T, not a tink.MAC", p)
					}
					tag, err := m.ComputeMAC(msg)
					if err != nil || (want != nil && !bytes.Equal(tag, want)) {
						return nil, fmt.Errorf("ComputeMAC gives %s, %v; alone %s", gen.Hex(tag), err, gen.Hex(want))
					}
					return tag, m.VerifyMAC(tag, msg)
				default:
					d, ok := p.(tink.DeterministicAEAD)
					if !ok {
						return nil, fmt.Errorf("primitive is %T, not a tink.DeterministicAEAD", p)
					}
					ct, err := d.EncryptDeterministically(msg, ad)
					if err != nil || (want != nil && !bytes.Equal(ct, want)) {
						return nil, fmt.Errorf("EncryptDeterministically gives %s, %v; alone %s", gen.Hex(ct), err, gen.Hex(want))
					}
					if pt, err := d.DecryptDeterministically(ct, ad); err != nil || !bytes.Equal(pt, wantMsg) {
						return nil, fmt.Errorf("round trip gives %s, %v", gen.Hex(pt), err)
					}
					return ct, nil
				}
			}
			wantRaw, err := use(tk.Must(registry.PrimitiveFromKeyData(ks.KeyData())), nil) // the key manager's primitive: no output prefix
			if err != nil {
				rt.Fatalf("%s: the key manager's primitive alone: %v", info.Desc, err)
			}
			wantFull, err := use(tk.Must(primitiveregistry.Primitive(k)), nil) // the full primitive: with the key's output prefix
			if err != nil {
				rt.Fatalf("%s: the full primitive alone: %v", info.Desc, err)
			}
			newTemplate := map[keys.Class]func() *tinkpb.KeyTemplate{keys.AEAD: aead.AES128GCMKeyTemplate, keys.MAC: mac.HMACSHA256Tag128KeyTemplate, keys.DAEAD: daead.AESSIVKeyTemplate}[c]
			return "registry/serialization lookups for " + info.Desc, []op{
				{name: "SerializeKey+ParseKey", run: func() error {
					s2, err := protoserialization.SerializeKey(k)
					if err != nil {
						return err
					}
					b, _ := proto.MarshalOptions{Deterministic: true}.Marshal(s2.KeyData())
					if !bytes.Equal(b, want) {
						return fmt.Errorf("serialization differs")
					}
					k2, err := protoserialization.ParseKey(s2)
					if err != nil || !k2.Equal(k) {
						return fmt.Errorf("parsed key differs: %v", err)
					}
					return nil
				}},
				{name: "SerializeParameters+ParseParameters", run: func() error {
					kt, err := protoserialization.SerializeParameters(params)
					if err != nil {
						return err
					}
					b, _ := proto.MarshalOptions{Deterministic: true}.Marshal(kt)
					if !bytes.Equal(b, wantTmpl) {
						return fmt.Errorf("template differs")
					}
					p2, err := protoserialization.ParseParameters(kt)
					if err != nil || !p2.Equal(params) {
						return fmt.Errorf("parsed parameters differ: %v", err)
					}
					return nil
				}},
				{name: "registry.GetKeyManager+PrimitiveFromKeyData", run: func() error {
					km, err := registry.GetKeyManager(url)
					if err != nil {
						return err
					}
					if !km.DoesSupport(url) || km.TypeURL() != url {
						return fmt.Errorf("key manager mismatch")
					}
					p, err := registry.PrimitiveFromKeyData(ks.KeyData())
					if err != nil {
						return err
					}
					_, err = use(p, wantRaw)
					return err
				}},
				{name: "registry.Primitive", run: func() error {
					p, err := registry.Primitive(url, ks.KeyData().GetValue())
					if err != nil {
						return err
					}
					_, err = use(p, wantRaw)
					return err
				}},
				{name: "registry.NewKeyData+PrimitiveFromKeyData", run: func() error {
					kd, err := registry.NewKeyData(newTemplate())
					if err != nil || len(kd.GetValue()) == 0 {
						return fmt.Errorf("NewKeyData: %v", err)
					}
					p, err := registry.PrimitiveFromKeyData(kd)
					if err != nil {
						return err
					}
					_, err = use(p, nil)
					return err
				}},
				{name: "primitiveregistry.Primitive", run: func() error {
					p, err := primitiveregistry.Primitive(k)
					if err != nil {
						return err
					}
					_, err = use(p, wantFull)
					return err
				}},
			}
		}},
		{"alltypes", func(rt *rapid.T) (string, []op) {
			// every key type and parameter combination of the key generator through its class factory
			// (the key type by the stratified choice, see pickIndex: a class-first SampledFrom gave the
			// last types of the last classes well under one case per quick run)
			typ := allTypesList[pickIndex(rt, "alltypes_type", len(allTypesList))]
			c := keys.ClassOf(typ)
			info := keys.DrawTypeUsable(rt, "key", typ)
			caseSub = append(caseSub, info.Type)
			if info.Type == "SlhDsa" && info.Fields["sig_type"] == "SMALL_SIGNATURE" {
				evid.Add("skipped/alltypes_slhdsa_small_signature", 1)
				rt.Skip("SLH-DSA s sets are too slow under the race detector")
			}
			if c == keys.Signature || c == keys.Hybrid {
				capCalls(48)
			}
			h := tk.Must(tk.HandleFromKey(info.Key))
			return "all-types: " + info.Desc, keyOps(rt, c, info, h, twinHandle(h))
		}},
		{"handle", func(rt *rapid.T) (string, []op) {
			m := keyset.NewManager()
			var first uint32
			n := rapid.IntRange(1, 4).Draw(rt, "nkeys")
			for i := 0; i < n; i++ {
				kt := rapid.SampledFrom([]*tinkpb.KeyTemplate{signature.ED25519KeyTemplate(), signature.ECDSAP256KeyTemplate(), signature.ED25519KeyWithoutPrefixTemplate()}).Draw(rt, "template")
				id := tk.Must(m.Add(kt))
				if i == 0 {
					first = id
				}
			}
			if err := m.SetPrimary(first); err != nil {
				panic(err)
			}
			h := tk.Must(m.Handle())
			info := h.KeysetInfo().String()
			str := h.String()
			pubInfo := tk.Must(h.Public()).KeysetInfo().String()
			msg := []byte("message")
			reads := func(h *keyset.Handle) []op {
				return []op{
					{name: "KeysetInfo/String/Len", run: func() error {
						if h.KeysetInfo().String() != info || h.String() != str || h.Len() != n {
							return fmt.Errorf("handle reads differ")
						}
						return nil
					}},
					{name: "Entry/Primary", run: func() error {
						p, err := h.Primary()
						if err != nil || p.KeyID() != first {
							return fmt.Errorf("Primary: %v", err)
						}
						for i := 0; i < n; i++ {
							e, err := h.Entry(i)
							if err != nil || e.Key() == nil {
								return fmt.Errorf("Entry(%d): %v", i, err)
							}
						}
						return nil
					}},
					{name: "Public", run: func() error {
						p, err := h.Public()
						if err != nil || p.KeysetInfo().String() != pubInfo {
							return fmt.Errorf("Public(): %v", err)
						}
						return nil
					}},
					{name: "NewSigner+NewVerifier", run: func() error {
						s, err := signature.NewSigner(h)
						if err != nil {
							return err
						}
						p, err := h.Public()
						if err != nil {
							return err
						}
						v, err := signature.NewVerifier(p)
						if err != nil {
							return err
						}
						sig, err := s.Sign(msg)
						if err != nil {
							return err
						}
						return v.Verify(sig, msg)
					}},
					{name: "serialize", run: func() error {
						var buf bytes.Buffer
						if err := insecurecleartextkeyset.Write(h, keyset.NewBinaryWriter(&buf)); err != nil {
							return err
						}
						h2, err := insecurecleartextkeyset.Read(keyset.NewBinaryReader(&buf))
						if err != nil || h2.KeysetInfo().String() != info {
							return fmt.Errorf("re-read handle differs: %v", err)
						}
						return nil
					}},
				}
			}
			ops := append(reads(h), op{name: "NewHandle(template)", run: func() error {
				_, err := keyset.NewHandle(signature.ED25519KeyTemplate())
				return err
			}})
			// the same keyset parsed again: a handle nobody has read from before the concurrent phase
			return fmt.Sprintf("handle with %d signature keys", n), append(ops, cold(reads(twinHandle(h)), "~twin")...)
		}},
	}
}

// allTypesList: the key types of the eight primitive classes the "alltypes" builder serves.
var allTypesList = func() []string {
	var out []string
	for _, c := range []keys.Class{keys.AEAD, keys.DAEAD, keys.MAC, keys.PRF, keys.Signature, keys.Hybrid, keys.Streaming, keys.Deriver} {
		out = append(out, keys.Types(c)...)
	}
	return out
}()

// registryTypes: the key types of the "registry" builder.
var registryTypes = append(append(keys.Types(keys.AEAD), keys.Types(keys.MAC)...), keys.Types(keys.DAEAD)...)

// keyOps builds the ops of one key (any type of the key generator) through its class factory: the
// primitives over h are shared and warmed, the ones over twin are first used inside the concurrent
// phase. Shared by "alltypes" and "paramsets".
func keyOps(rt *rapid.T, c keys.Class, info *keys.Info, h, twin *keyset.Handle) []op {
	switch c {
	case keys.AEAD:
		a, a2 := tk.Must(aead.New(h)), tk.Must(aead.New(twin))
		return twice(func(tag string) []op {
			x, y := input(rt, "x", 200), shared(gen.Bytes(rt, "y", 40))
			wantX := append([]byte{}, x...)
			ct := tk.Must(a.Encrypt(x, y))
			ops := aeadOps(a, a, x, y, wantX, ct)
			ops = append(ops, cold(aeadOps(a2, a, x, y, wantX, ct)[:1], "~twin-encrypts")...)
			return append(ops, cold(aeadOps(a, a2, x, y, wantX, ct), "~twin")...)
		})
	case keys.DAEAD:
		d, d2 := tk.Must(daead.New(h)), tk.Must(daead.New(twin))
		return twice(func(tag string) []op {
			x, y := input(rt, "x", 200), shared(gen.Bytes(rt, "y", 40))
			wantX := append([]byte{}, x...)
			want := tk.Must(d.EncryptDeterministically(x, y))
			return append(daeadOps(d, x, y, wantX, want), cold(daeadOps(d2, x, y, wantX, want), "~twin")...)
		})
	case keys.MAC:
		m, m2 := tk.Must(mac.New(h)), tk.Must(mac.New(twin))
		return twice(func(tag string) []op {
			x := input(rt, "x", 200)
			want := tk.Must(m.ComputeMAC(x))
			return append(macOps(m, x, want), cold(macOps(m2, x, want), "~twin")...)
		})
	case keys.PRF:
		s, s2 := tk.Must(prf.NewPRFSet(h)), tk.Must(prf.NewPRFSet(twin))
		max := 16 // AesCmacPrf
		if hash, ok := info.Fields["hash"].(string); ok {
			max = map[string]int{"SHA1": 20, "SHA224": 28, "SHA256": 32, "SHA384": 48, "SHA512": 64}[hash]
			if info.Type == "HkdfPrf" {
				max *= 255
			}
		}
		return twice(func(tag string) []op {
			x := input(rt, "x", 200)
			n, tooLong := prfLengths(rt, max)
			want := tk.Must(s.ComputePrimaryPRF(x, n))
			return append(prfOps(s.ComputePrimaryPRF, x, n, want, tooLong), cold(prfOps(s2.ComputePrimaryPRF, x, n, want, tooLong), "~twin")...)
		})
	case keys.Signature:
		s, s2 := tk.Must(signature.NewSigner(h)), tk.Must(signature.NewSigner(twin))
		v, v2 := tk.Must(signature.NewVerifier(tk.Must(h.Public()))), tk.Must(signature.NewVerifier(tk.Must(twin.Public())))
		return twice(func(tag string) []op {
			x := input(rt, "x", 200)
			sig := tk.Must(s.Sign(x))
			ops := sigOps(s, v, x, sig)
			ops = append(ops, cold(sigOps(s2, v, x, sig)[:1], "~twin-signs")...)
			return append(ops, cold(sigOps(s, v2, x, sig), "~twin")...)
		})
	case keys.Hybrid:
		e, e2 := tk.Must(hybrid.NewHybridEncrypt(tk.Must(h.Public()))), tk.Must(hybrid.NewHybridEncrypt(tk.Must(twin.Public())))
		d, d2 := tk.Must(hybrid.NewHybridDecrypt(h)), tk.Must(hybrid.NewHybridDecrypt(twin))
		return twice(func(tag string) []op {
			x, y := input(rt, "x", 200), shared(gen.Bytes(rt, "y", 40))
			wantX := append([]byte{}, x...)
			ct := tk.Must(e.Encrypt(x, y))
			ops := hybridOps(e, d, x, y, wantX, ct)
			ops = append(ops, cold(hybridOps(e2, d, x, y, wantX, ct)[:1], "~twin-encrypts")...)
			return append(ops, cold(hybridOps(e, d2, x, y, wantX, ct), "~twin")...)
		})
	case keys.Streaming:
		sa, sa2 := tk.Must(streamingaead.New(h)), tk.Must(streamingaead.New(twin))
		return twice(func(tag string) []op {
			x, y := input(rt, "x", 200), shared(gen.Bytes(rt, "y", 40))
			wantX := append([]byte{}, x...)
			ct := tk.Must(streamEncrypt(sa, x, y))
			ops := streamOps(sa, sa, x, y, wantX, ct)
			ops = append(ops, cold(streamOps(sa2, sa, x, y, wantX, ct)[:1], "~twin-encrypts")...)
			return append(ops, cold(streamOps(sa, sa2, x, y, wantX, ct), "~twin")...)
		})
	default: // Deriver: no failing op (every salt is valid)
		d, d2 := tk.Must(keyderivation.New(h)), tk.Must(keyderivation.New(twin))
		return twice(func(tag string) []op {
			x := input(rt, "x", 200)
			want := serializeHandle(tk.Must(d.DeriveKeyset(x)))
			return append(deriveOps(d, x, want), cold(deriveOps(d2, x, want), "~twin")...)
		})
	}
}

// twice builds the ops for two independently drawn input sets on the same shared primitive, so
// that concurrent calls carry DIFFERENT messages / associated data (state cached per input in a
// primitive is only observable that way).
func twice(mk func(tag string) []op) []op {
	a := mk("a")
	b := mk("b")
	for i := range b {
		b[i].name += "#2"
	}
	return append(a, b...)
}

// callCap bounds goroutines x calls for expensive key types (set by a builder, reset per case).
var callCap int

// caseSub collects what the builders of the current case chose (key type, parameter set): it goes
// into the evidence class and the replay file (reset per case).
var caseSub []string

// Stratified choices. In the quick tier a builder that serves many key types or parameter sets gets
// a few dozen cases per run; an independent draw per case - even an unbiased one - leaves some of
// the 24 types without a case in most runs. pickIndex therefore walks through the n items: the
// calls under one label, of all shards together, visit the items in turn. The choice is not a
// rapid draw, so it is written into the configuration of the case (cfg["choices"]): a replay takes
// it from there (forcedChoices), and once a case has failed its choices are kept for every later
// execution of the property in the process, which are rapid's shrinking runs of that case. In the
// thorough tier (budget >> n) the choice is an equal-weight draw (gen.Uniform).
var (
	pickCounter   = map[string]int{}
	caseChoices   []int // choices of the current case, in call order
	forcedChoices []int // from a replay file or the failed case: consumed in call order
	forcedNext    int
)

func pickIndex(rt *rapid.T, label string, n int) int {
	var idx int
	switch {
	case evid.Tier() == "thorough":
		idx = gen.Uniform(rt, label, n) // a draw: replays and shrinking runs reproduce it by themselves
	case forcedChoices != nil:
		if forcedNext < len(forcedChoices) {
			idx = forcedChoices[forcedNext] % n
		}
		forcedNext++
	default:
		// position in one walk shared by all shards (shard s takes positions s, s+N, s+2N, ...: together
		// the shards visit consecutive positions); each pass through the n items is shifted by one so
		// that a shard does not stay on the same residues when N and n have a common factor
		shard, nshards := int(evid.EnvInt("VERIF_SHARD", 0)), max(1, int(evid.EnvInt("VERIF_NSHARDS", 1)))
		q := shard%nshards + pickCounter[label]*nshards
		idx = (q + q/n) % n
		pickCounter[label]++
	}
	caseChoices = append(caseChoices, idx)
	return idx
}

// Replay of a C18 case. A race report ends the process on the spot (GORACE halt_on_error) and a
// failing comparison is shrunk by rapid on other schedules, so neither leaves a usable rapid fail
// file. Before the concurrent phase of every case the configuration is therefore written to
// $VERIF_REPLAY_OUT (a directory: file replay-TestConcurrentUse.json in it; otherwise the file
// itself); it is removed when the unit ends without failure. The file holds what determines the
// case: rapid's seed of THIS case (every case of a rapid run has its own seed: base seed + 0 + 1 +
// ... + index), the stratified choices, the tier (it selects the builder list), GOMAXPROCS, and,
// for the reader, the drawn configuration (class, primitive, goroutines, calls, schedule, entropy).
// VERIF_REPLAY=<file> makes TestConcurrentUse run exactly that case 50 times (objects rebuilt each
// time, so that unwarmed twins are unwarmed each time) instead of a generated run.
const replayRuns = 50

type replayFile struct {
	Unit       string         `json:"unit"`
	CaseSeed   uint64         `json:"rapid_case_seed"`
	RapidSeed  uint64         `json:"rapid_seed"`
	CaseIndex  int            `json:"case_index"`
	Choices    []int          `json:"choices"`
	Tier       string         `json:"tier"`
	Shard      int64          `json:"shard"`
	NShards    int64          `json:"nshards"`
	GoMaxProcs int            `json:"gomaxprocs"`
	OnlyClass  string         `json:"only_class,omitempty"`
	Failed     string         `json:"failed,omitempty"`
	Config     map[string]any `json:"config"`
}

var (
	logMu         sync.Mutex
	replayWritten string // path of the file written by this process
	replayFrozen  bool   // a case failed: its file stays
)

func replayOutPath() string {
	out := os.Getenv("VERIF_REPLAY_OUT")
	if out == "" {
		return ""
	}
	if st, err := os.Stat(out); err == nil && st.IsDir() {
		return filepath.Join(out, "replay-TestConcurrentUse.json")
	}
	return out
}

func writeReplay(rf *replayFile) {
	path := replayOutPath()
	if path == "" {
		return
	}
	logMu.Lock()
	defer logMu.Unlock()
	if replayFrozen {
		return
	}
	b, _ := json.Marshal(rf)
	if err := os.WriteFile(path, b, 0o644); err == nil {
		replayWritten = path
	}
}

func rapidSeedFlag() uint64 {
	f := flag.Lookup("rapid.seed")
	if f == nil {
		return 0
	}
	v, _ := strconv.ParseUint(f.Value.String(), 10, 64)
	return v
}

func TestConcurrentUse(t *testing.T) {
	var replay *replayFile
	if path := os.Getenv("VERIF_REPLAY"); path != "" {
		b, err := os.ReadFile(path)
		if err != nil {
			t.Fatalf("VERIF_REPLAY: %v", err)
		}
		replay = &replayFile{}
		if err := json.Unmarshal(b, replay); err != nil || replay.CaseSeed == 0 {
			t.Fatalf("VERIF_REPLAY=%s is not a replay file of this unit (rapid_case_seed missing): %v", path, err)
		}
		// what selects the builder list and the choices must be as in the run that wrote the file
		os.Setenv("VERIF_TIER", replay.Tier)
		os.Setenv("VERIF_C18_CLASS", replay.OnlyClass)
		if replay.GoMaxProcs > 0 {
			runtime.GOMAXPROCS(replay.GoMaxProcs)
		}
	}
	// in the quick tier paramsets is listed twice: its sets are equally likely, and the ECDSA / ECIES / RSA sets added
	// later must not thin out the SLH-DSA / ML-DSA / composite / HPKE sets (seeded change C16c)
	// (accessors and multikey, the cheapest builders, also twice: one key type out of 29, one class out of 9 per case)
	bs := append(builders(), paramSetsBuilder(), multiKeyBuilder(), accessorsBuilder(), accessorsBuilder(), multiKeyBuilder())
	if evid.Tier() != "thorough" {
		// (not in the thorough tier: its budget reaches every set often enough, and the slow SLH-DSA 's' sets dominate its cost)
		bs = append(bs, paramSetsBuilder())
		// the jwt builder twice in the quick tier: with 19 builders in the list its share had fallen to
		// 5 % of 1200 cases and seeded change C18d (a header cache shared between token kinds, no data
		// race reported, visible only as a wrong result) was caught in 1 of 3 runs instead of 4 of 4
		for _, b := range builders() {
			if b.class == "jwt" {
				bs = append(bs, b, b)
			}
		}
	}
	// "pair": two independently drawn primitives (any two classes, or two keys of one class) are
	// used at once, so that state shared between *different* keys or primitives - package-level
	// caches, pooled buffers - is exercised with different contents in flight (after seeded
	// changes C16c and C18d, both package-level state).
	single := bs
	bs = append(bs, builder{"pair", func(rt *rapid.T) (string, []op) {
		b1 := gen.Pick(rt, "first", single)
		d1, o1 := b1.build(rt)
		b2 := gen.Pick(rt, "second", single)
		d2, o2 := b2.build(rt) // callCap: the smaller of the two builders' caps (capCalls only lowers it)
		caseSub = []string{b1.class + "+" + b2.class}
		return b1.class + " {" + d1 + "} with " + b2.class + " {" + d2 + "}", append(o1, renamed(o2, "@2")...)
	}})
	// developer aid (never set by the registered checks): VERIF_C18_CLASS=<class>[,<class>] restricts the draw
	only := os.Getenv("VERIF_C18_CLASS")
	if only != "" {
		var sel []builder
		for _, b := range bs {
			if strings.Contains(","+only+",", ","+b.class+",") {
				sel = append(sel, b)
			}
		}
		bs = sel
	}
	if rapidSeedFlag() == 0 && replay == nil {
		// rapid would pick a seed of its own that the property cannot see: pick it here
		flag.Set("rapid.seed", strconv.FormatUint(uint64(time.Now().UnixNano())|1, 10))
	}
	invocations := 0 // executions of the property in this rapid.Check (valid and discarded cases)
	prop := func(rt *rapid.T) {
		caseIndex := invocations
		invocations++
		entropy := rapid.Uint64().Draw(rt, "entropy")
		detrand.Seed(entropy)
		b := gen.Pick(rt, "class", bs)
		callCap, caseSub, caseChoices, forcedNext = 0, nil, nil, 0
		// input-size class of the case: messages / plaintexts of <= 300 bytes (boundary-biased), 1-4 KiB or 64 KiB
		sizeClass = rapid.SampledFrom([]int{0, 0, 0, 0, 0, 0, 1, 1, 1, 2}).Draw(rt, "sizeclass")
		desc, ops := b.build(rt)
		g := rapid.IntRange(2, 16).Draw(rt, "goroutines")
		k := rapid.IntRange(4, 40).Draw(rt, "calls")
		if callCap > 0 && g*k > callCap {
			k = max(2, callCap/g)
		}
		yield := rapid.IntRange(0, 3).Draw(rt, "yield_every")
		sched := rapid.SliceOfN(rapid.IntRange(0, len(ops)-1), 8, 32).Draw(rt, "schedule")
		sub := strings.Join(caseSub, "+")
		cfg := map[string]any{"class": b.class, "sub": sub, "primitive": desc, "goroutines": g, "calls_each": k, "yield_every": yield, "schedule": sched, "entropy": entropy, "size_class": sizeClass}
		base := rapidSeedFlag()
		rf := &replayFile{Unit: "TestConcurrentUse", RapidSeed: base, CaseIndex: caseIndex, CaseSeed: base + uint64(caseIndex)*uint64(caseIndex+1)/2,
			Choices: append([]int{}, caseChoices...), Tier: evid.Tier(), Shard: evid.EnvInt("VERIF_SHARD", 0), NShards: evid.EnvInt("VERIF_NSHARDS", 1),
			GoMaxProcs: runtime.GOMAXPROCS(0), OnlyClass: only, Config: cfg}
		if replay != nil {
			rf.CaseSeed, rf.RapidSeed, rf.CaseIndex = replay.CaseSeed, replay.RapidSeed, replay.CaseIndex
			if want, _ := replay.Config["primitive"].(string); want != desc || replay.Config["class"] != b.class {
				rt.Fatalf("the replay file does not lead to the configuration it records (was the harness or the key generator changed since it was written?):\n recorded: %v %s\n rebuilt:  %s %s", replay.Config["class"], want, b.class, desc)
			}
		}
		writeReplay(rf)
		fail := func(format string, args ...any) {
			// the file of THIS case stays (rapid's shrinking runs, which follow, do not overwrite it) and
			// its stratified choices are kept for those runs
			msg := fmt.Sprintf(format, args...)
			if !replayFrozen {
				rf.Failed = msg
				writeReplay(rf)
				replayFrozen = true
				if forcedChoices == nil {
					forcedChoices = append([]int{}, caseChoices...)
				}
			}
			rt.Fatalf("%s", msg)
		}
		// sequential pass: every op on the shared (warmed) objects must hold when executed alone; the
		// ops on the unwarmed twins are left out, their first execution is concurrent
		var coldOps, leadOps []int
		for i, o := range ops {
			if o.cold {
				coldOps = append(coldOps, i)
				if o.lead {
					leadOps = append(leadOps, i)
				}
				continue
			}
			if err := o.run(); err != nil {
				fail("%s: %s fails sequentially: %v", desc, o.name, err)
			}
		}
		// The deterministic entropy source sits behind a mutex: every random draw of a randomized op
		// would order the goroutines and hide unsynchronised accesses around it from the race detector.
		// Builders and expectations are done; the concurrent phase runs on the process's own source
		// (randomized results are cross-checked, never compared with stored values). The next case
		// installs the seeded source again.
		detrand.Restore()
		var wg sync.WaitGroup
		errs := make(chan string, g*k)
		start := make(chan struct{})
		for gi := 0; gi < g; gi++ {
			wg.Add(1)
			go func(gi int) {
				defer wg.Done()
				<-start
				for i := 0; i < k; i++ {
					o := ops[sched[(gi*7+i)%len(sched)]]
					if i == 0 && len(coldOps) > 0 {
						// every goroutine starts on an unwarmed twin: the twins' first calls overlap
						o = ops[coldOps[(sched[gi%len(sched)]+gi)%len(coldOps)]]
						if gi%2 == 0 && len(leadOps) > 0 {
							o = ops[leadOps[(gi/2)%len(leadOps)]]
						}
					}
					if err := o.run(); err != nil {
						errs <- "goroutine " + strconv.Itoa(gi) + " call " + strconv.Itoa(i) + " " + o.name + ": " + err.Error()
						return
					}
					if yield > 0 && i%yield == 0 {
						runtime.Gosched()
					}
				}
			}(gi)
		}
		close(start)
		wg.Wait()
		close(errs)
		var all []string
		for e := range errs {
			all = append(all, e)
		}
		if len(all) > 0 {
			fail("%s: concurrent calls returned results that differ from sequential execution (G=%d, K=%d):\n  %s", desc, g, k, strings.Join(all, "\n  "))
		}
		evid.Add("concurrent_calls", int64(g*k))
		// the class names the builder and what it chose (key type, parameter set ...) where it chooses;
		// the size class is then a counter (the product would be thousands of classes)
		class := fmt.Sprintf("%s/G=%s/size=%d", b.class, bucket(g), sizeClass)
		if sub != "" {
			class = fmt.Sprintf("%s/%s/G=%s", b.class, sub, bucket(g))
		}
		evid.Add("size_class/"+strconv.Itoa(sizeClass), 1)
		evid.Case(class, true, evid.NewH().S(desc).I(int64(g)).I(int64(k)).I(int64(entropy)).Sum(), func() any { return cfg })
	}
	if replay != nil {
		t.Logf("replaying case %d of the run with -rapid.seed=%d (rapid case seed %d, tier %q, GOMAXPROCS %d) %d times: %v", replay.CaseIndex, replay.RapidSeed, replay.CaseSeed, replay.Tier, replay.GoMaxProcs, replayRuns, replay.Config)
		flag.Set("rapid.seed", strconv.FormatUint(replay.CaseSeed, 10))
		flag.Set("rapid.checks", "1")
		for i := 0; i < replayRuns && !t.Failed(); i++ {
			forcedChoices, forcedNext, invocations = append([]int{}, replay.Choices...), 0, 0
			replayFrozen = false
			t.Run("replay-"+strconv.Itoa(i), func(t *testing.T) { rapid.Check(t, prop) })
		}
		return
	}
	rapid.Check(t, prop)
	if !t.Failed() && replayWritten != "" {
		os.Remove(replayWritten)
	}
}

func bucket(g int) string {
	switch {
	case g <= 2:
		return "2"
	case g <= 4:
		return "3-4"
	case g <= 8:
		return "5-8"
	}
	return "9-16"
}
