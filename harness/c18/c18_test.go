// Package c18 decides property C18 (with the limits stated in DESIGN.md): primitives and handles
// are safe for concurrent use. One shared primitive is hammered from G goroutines; every result is
// compared with the sequential expectation; the binary is built with the Go race detector.
package c18

import (
	"bytes"
	"encoding/json"
	"fmt"
	"os"
	"path/filepath"
	"runtime"
	"strings"
	"sync"
	"testing"
	"time"

	"pgregory.net/rapid"

	"google.golang.org/protobuf/proto"

	"github.com/tink-crypto/tink-go/v2/aead"
	"github.com/tink-crypto/tink-go/v2/core/registry"
	"github.com/tink-crypto/tink-go/v2/daead"
	"github.com/tink-crypto/tink-go/v2/hybrid"
	"github.com/tink-crypto/tink-go/v2/insecurecleartextkeyset"
	"github.com/tink-crypto/tink-go/v2/internal/primitiveregistry"
	"github.com/tink-crypto/tink-go/v2/internal/protoserialization"
	"github.com/tink-crypto/tink-go/v2/jwt"
	"github.com/tink-crypto/tink-go/v2/keyderivation"
	"github.com/tink-crypto/tink-go/v2/keyset"
	"github.com/tink-crypto/tink-go/v2/mac"
	"github.com/tink-crypto/tink-go/v2/prf"
	tinkpb "github.com/tink-crypto/tink-go/v2/proto/tink_go_proto"
	"github.com/tink-crypto/tink-go/v2/signature"
	"github.com/tink-crypto/tink-go/v2/streamingaead"
	"github.com/tink-crypto/tink-go/v2/tink"
	"github.com/tink-crypto/tink-go/v2/verifharness/internal/aeadcase"
	"github.com/tink-crypto/tink-go/v2/verifharness/internal/detrand"
	"github.com/tink-crypto/tink-go/v2/verifharness/internal/evid"
	"github.com/tink-crypto/tink-go/v2/verifharness/internal/gen"
	"github.com/tink-crypto/tink-go/v2/verifharness/internal/keys"
	"github.com/tink-crypto/tink-go/v2/verifharness/internal/legacykm"
	"github.com/tink-crypto/tink-go/v2/verifharness/internal/tk"
)

func TestMain(m *testing.M) {
	legacykm.Register()
	evid.Main(m)
}

// op is one call on the shared object; it returns an error when the concurrent result differs
// from what the same call returns when executed alone.
type op struct {
	name string
	run  func() error
}

// shared returns a slice with spare capacity that all goroutines pass as the same argument.
func shared(b []byte) []byte {
	buf := make([]byte, len(b), len(b)+64)
	copy(buf, b)
	return buf
}

func prefixTypeDraw(rt *rapid.T) tinkpb.OutputPrefixType {
	return rapid.SampledFrom([]tinkpb.OutputPrefixType{tinkpb.OutputPrefixType_TINK, tinkpb.OutputPrefixType_LEGACY, tinkpb.OutputPrefixType_CRUNCHY, tinkpb.OutputPrefixType_RAW}).Draw(rt, "prefixtype")
}

func legacyHandle(rt *rapid.T, url string, keyLen int) *keyset.Handle {
	id := gen.KeyID(rt, "id") | 1
	ks := &tinkpb.Keyset{PrimaryKeyId: id, Key: []*tinkpb.Keyset_Key{legacykm.Key(url, gen.BytesN(rt, "legacykey", keyLen), legacykm.Material(url), prefixTypeDraw(rt), id, tinkpb.KeyStatusType_ENABLED)}}
	return tk.Must(legacykm.HandleFromProto(ks))
}

func withPrefix(kt *tinkpb.KeyTemplate, p tinkpb.OutputPrefixType) *tinkpb.KeyTemplate {
	kt.OutputPrefixType = p
	return kt
}

type builder struct {
	class string
	build func(rt *rapid.T) (desc string, ops []op)
}

func fixedNow() time.Time { return time.Unix(1700000000, 0) }

func builders() []builder {
	return []builder{
		{"aead", func(rt *rapid.T) (string, []op) {
			var a interface {
				Encrypt(pt, ad []byte) ([]byte, error)
				Decrypt(ct, ad []byte) ([]byte, error)
			}
			desc := ""
			if rapid.IntRange(0, 4).Draw(rt, "legacy") == 0 {
				a, desc = tk.Must(aead.New(legacyHandle(rt, legacykm.AeadURL, 32))), "legacy AEAD adapter"
			} else {
				c := aeadcase.Draw(rt)
				a, desc = c.P, c.String()
			}
			return desc, twice(func(tag string) []op {
				pt, ad := shared(gen.Bytes(rt, "pt", 300)), shared(gen.Bytes(rt, "ad", 60))
				wantPT := append([]byte{}, pt...)
				ct := tk.Must(a.Encrypt(pt, ad))
				ctS := shared(ct)
				return []op{
					{"Encrypt+Decrypt", func() error {
						c, err := a.Encrypt(pt, ad)
						if err != nil {
							return err
						}
						p, err := a.Decrypt(c, ad)
						if err != nil || !bytes.Equal(p, wantPT) {
							return fmt.Errorf("decryption of a concurrently produced ciphertext: %x, %v", p, err)
						}
						return nil
					}},
					{"Decrypt", func() error {
						p, err := a.Decrypt(ctS, ad)
						if err != nil || !bytes.Equal(p, wantPT) {
							return fmt.Errorf("Decrypt gave %x, %v", p, err)
						}
						return nil
					}},
					{"Decrypt-bad", func() error {
						if _, err := a.Decrypt(ctS[:len(ctS)-1], ad); err == nil {
							return fmt.Errorf("truncated ciphertext accepted")
						}
						return nil
					}},
				}
			})
		}},
		{"mac", func(rt *rapid.T) (string, []op) {
			var h *keyset.Handle
			desc := ""
			if rapid.IntRange(0, 2).Draw(rt, "legacy") == 0 {
				h, desc = legacyHandle(rt, legacykm.MacURL, 32), "legacy MAC adapter"
			} else {
				kt := rapid.SampledFrom([]*tinkpb.KeyTemplate{mac.HMACSHA256Tag128KeyTemplate(), mac.HMACSHA512Tag512KeyTemplate(), mac.AESCMACTag128KeyTemplate()}).Draw(rt, "template")
				kt = withPrefix(kt, prefixTypeDraw(rt))
				h, desc = tk.Must(keyset.NewHandle(kt)), fmt.Sprintf("MAC %s %v", kt.TypeUrl, kt.OutputPrefixType)
			}
			m := tk.Must(mac.New(h))
			return desc, twice(func(tag string) []op {
				msg := shared(gen.Bytes(rt, "msg", 200))
				want := tk.Must(m.ComputeMAC(msg))
				return []op{
					{"ComputeMAC", func() error {
						t, err := m.ComputeMAC(msg)
						if err != nil || !bytes.Equal(t, want) {
							return fmt.Errorf("ComputeMAC gave %x (%v), sequentially %x", t, err, want)
						}
						return nil
					}},
					{"VerifyMAC", func() error { return m.VerifyMAC(want, msg) }},
				}
			})
		}},
		{"daead", func(rt *rapid.T) (string, []op) {
			var h *keyset.Handle
			desc := "AES-SIV"
			if rapid.IntRange(0, 2).Draw(rt, "legacy") == 0 {
				h, desc = legacyHandle(rt, legacykm.DaeadURL, 64), "legacy DAEAD adapter"
			} else {
				h = tk.Must(keyset.NewHandle(withPrefix(daead.AESSIVKeyTemplate(), prefixTypeDraw(rt))))
			}
			d := tk.Must(daead.New(h))
			return desc, twice(func(tag string) []op {
				pt, ad := shared(gen.Bytes(rt, "pt", 200)), shared(gen.Bytes(rt, "ad", 60))
				wantPT := append([]byte{}, pt...)
				want := tk.Must(d.EncryptDeterministically(pt, ad))
				return []op{
					{"EncryptDeterministically", func() error {
						c, err := d.EncryptDeterministically(pt, ad)
						if err != nil || !bytes.Equal(c, want) {
							return fmt.Errorf("deterministic ciphertext differs: %x (%v) vs %x", c, err, want)
						}
						return nil
					}},
					{"DecryptDeterministically", func() error {
						p, err := d.DecryptDeterministically(want, ad)
						if err != nil || !bytes.Equal(p, wantPT) {
							return fmt.Errorf("decrypt gave %x, %v", p, err)
						}
						return nil
					}},
				}
			})
		}},
		{"signature", func(rt *rapid.T) (string, []op) {
			var h *keyset.Handle
			desc := ""
			if rapid.IntRange(0, 2).Draw(rt, "legacy") == 0 {
				h, desc = legacyHandle(rt, legacykm.SignerURL, 32), "legacy signer/verifier adapters"
			} else {
				kt := rapid.SampledFrom([]*tinkpb.KeyTemplate{signature.ED25519KeyTemplate(), signature.ECDSAP256KeyTemplate(), signature.ECDSAP384SHA384KeyTemplate()}).Draw(rt, "template")
				kt = withPrefix(kt, prefixTypeDraw(rt))
				h, desc = tk.Must(keyset.NewHandle(kt)), fmt.Sprintf("signature %s %v", kt.TypeUrl, kt.OutputPrefixType)
			}
			s := tk.Must(signature.NewSigner(h))
			v := tk.Must(signature.NewVerifier(tk.Must(h.Public())))
			return desc, twice(func(tag string) []op {
				msg := shared(gen.Bytes(rt, "msg", 200))
				sig := tk.Must(s.Sign(msg))
				return []op{
					{"Sign+Verify", func() error {
						g, err := s.Sign(msg)
						if err != nil {
							return err
						}
						return v.Verify(g, msg)
					}},
					{"Verify", func() error { return v.Verify(sig, msg) }},
					{"Verify-bad", func() error {
						if v.Verify(sig[:len(sig)-1], msg) == nil {
							return fmt.Errorf("truncated signature accepted")
						}
						return nil
					}},
				}
			})
		}},
		{"hybrid", func(rt *rapid.T) (string, []op) {
			var h *keyset.Handle
			desc := ""
			if rapid.IntRange(0, 2).Draw(rt, "legacy") == 0 {
				h, desc = legacyHandle(rt, legacykm.HybridPrivURL, 32), "legacy hybrid adapters"
			} else {
				kt := rapid.SampledFrom([]*tinkpb.KeyTemplate{hybrid.DHKEM_X25519_HKDF_SHA256_HKDF_SHA256_AES_128_GCM_Key_Template(), hybrid.DHKEM_P256_HKDF_SHA256_HKDF_SHA256_AES_256_GCM_Raw_Key_Template(), hybrid.ECIESHKDFAES128GCMKeyTemplate(), hybrid.ECIESHKDFAES128CTRHMACSHA256KeyTemplate()}).Draw(rt, "template")
				h, desc = tk.Must(keyset.NewHandle(kt)), "hybrid "+kt.TypeUrl
			}
			e := tk.Must(hybrid.NewHybridEncrypt(tk.Must(h.Public())))
			d := tk.Must(hybrid.NewHybridDecrypt(h))
			return desc, twice(func(tag string) []op {
				pt, info := shared(gen.Bytes(rt, "pt", 200)), shared(gen.Bytes(rt, "info", 40))
				wantPT := append([]byte{}, pt...)
				ct := tk.Must(e.Encrypt(pt, info))
				return []op{
					{"Encrypt+Decrypt", func() error {
						c, err := e.Encrypt(pt, info)
						if err != nil {
							return err
						}
						p, err := d.Decrypt(c, info)
						if err != nil || !bytes.Equal(p, wantPT) {
							return fmt.Errorf("decrypt gave %x, %v", p, err)
						}
						return nil
					}},
					{"Decrypt", func() error {
						p, err := d.Decrypt(ct, info)
						if err != nil || !bytes.Equal(p, wantPT) {
							return fmt.Errorf("decrypt gave %x, %v", p, err)
						}
						return nil
					}},
				}
			})
		}},
		{"prf", func(rt *rapid.T) (string, []op) {
			kt := rapid.SampledFrom([]*tinkpb.KeyTemplate{prf.HMACSHA256PRFKeyTemplate(), prf.HKDFSHA256PRFKeyTemplate(), prf.AESCMACPRFKeyTemplate(), prf.HMACSHA512PRFKeyTemplate()}).Draw(rt, "template")
			set := tk.Must(prf.NewPRFSet(tk.Must(keyset.NewHandle(kt))))
			return "PRF " + kt.TypeUrl, twice(func(tag string) []op {
				in := shared(gen.Bytes(rt, "input", 200))
				n := uint32(rapid.IntRange(1, 16).Draw(rt, "outlen"))
				want := tk.Must(set.ComputePrimaryPRF(in, n))
				return []op{{"ComputePrimaryPRF", func() error {
					o, err := set.ComputePrimaryPRF(in, n)
					if err != nil || !bytes.Equal(o, want) {
						return fmt.Errorf("PRF output %x (%v), sequentially %x", o, err, want)
					}
					return nil
				}}}
			})
		}},
		{"streaming", func(rt *rapid.T) (string, []op) {
			kt := rapid.SampledFrom([]*tinkpb.KeyTemplate{streamingaead.AES128GCMHKDF4KBKeyTemplate(), streamingaead.AES128CTRHMACSHA256Segment4KBKeyTemplate(), streamingaead.AES256GCMHKDF4KBKeyTemplate()}).Draw(rt, "template")
			sa := tk.Must(streamingaead.New(tk.Must(keyset.NewHandle(kt))))
			return "streaming " + kt.TypeUrl, twice(func(tag string) []op {
				pt, aad := shared(gen.Bytes(rt, "pt", 9000)), shared(gen.Bytes(rt, "aad", 40))
				wantPT := append([]byte{}, pt...)
				enc := func() ([]byte, error) {
					var buf bytes.Buffer
					w, err := sa.NewEncryptingWriter(&buf, aad)
					if err != nil {
						return nil, err
					}
					if _, err := w.Write(pt); err != nil {
						return nil, err
					}
					if err := w.Close(); err != nil {
						return nil, err
					}
					return buf.Bytes(), nil
				}
				dec := func(ct []byte) error {
					r, err := sa.NewDecryptingReader(bytes.NewReader(ct), aad)
					if err != nil {
						return err
					}
					var out bytes.Buffer
					if _, err := out.ReadFrom(r); err != nil {
						return err
					}
					if !bytes.Equal(out.Bytes(), wantPT) {
						return fmt.Errorf("stream decrypts to different plaintext")
					}
					return nil
				}
				ct := tk.Must(enc())
				return []op{
					{"NewEncryptingWriter+NewDecryptingReader", func() error {
						c, err := enc()
						if err != nil {
							return err
						}
						return dec(c)
					}},
					{"NewDecryptingReader", func() error { return dec(ct) }},
				}
			})
		}},
		{"jwt", func(rt *rapid.T) (string, []op) {
			// One MAC primitive and one signer/verifier pair (any JWT key type and kid strategy of the
			// generator), used at once, each with two independently drawn tokens that differ in type
			// header, subject and audience (the token encoder is shared package code: different headers
			// must be in flight together; second input set and the second primitive added after seeded
			// change C18d).
			mi := keys.DrawUsable(rt, "jwtmac", keys.JWTMAC)
			si := keys.DrawUsable(rt, "jwtsig", keys.JWTSignature)
			m := tk.Must(jwt.NewMAC(tk.Must(tk.HandleFromKey(mi.Key))))
			sh := tk.Must(tk.HandleFromKey(si.Key))
			sg := tk.Must(jwt.NewSigner(sh))
			vf := tk.Must(jwt.NewVerifier(tk.Must(sh.Public())))
			callCap = 64
			desc := "JWT " + mi.Desc + " + " + si.Desc
			return desc, twice(func(tag string) []op {
				iss := "issuer-" + tag
				sub := rapid.StringMatching(`[a-z]{0,8}`).Draw(rt, "subject")
				exp := fixedNow().Add(time.Hour)
				opts := &jwt.RawJWTOptions{Issuer: &iss, Subject: &sub, ExpiresAt: &exp}
				vopts := &jwt.ValidatorOpts{ExpectedIssuer: &iss, FixedNow: fixedNow()}
				var typ *string
				switch rapid.IntRange(0, 2).Draw(rt, "typ") {
				case 1:
					t := "JWT"
					typ = &t
				case 2:
					t := rapid.StringMatching(`[a-z+]{1,8}`).Draw(rt, "typvalue")
					typ = &t
				}
				opts.TypeHeader, vopts.ExpectedTypeHeader = typ, typ
				raw := tk.Must(jwt.NewRawJWT(opts))
				val := tk.Must(jwt.NewValidator(vopts))
				check := func(v *jwt.VerifiedJWT, err error) error {
					if err != nil {
						return err
					}
					if got, err := v.Issuer(); err != nil || got != iss {
						return fmt.Errorf("issuer %q, %v", got, err)
					}
					if got, err := v.Subject(); err != nil || got != sub {
						return fmt.Errorf("subject %q, %v", got, err)
					}
					if v.HasTypeHeader() != (typ != nil) {
						return fmt.Errorf("type header present = %v, the token was made with %v", v.HasTypeHeader(), typ != nil)
					}
					if typ != nil {
						if got, err := v.TypeHeader(); err != nil || got != *typ {
							return fmt.Errorf("type header %q, %v; the token was made with %q", got, err, *typ)
						}
					}
					return nil
				}
				macTok := tk.Must(m.ComputeMACAndEncode(raw))
				sigTok := tk.Must(sg.SignAndEncode(raw))
				return []op{
					{"ComputeMACAndEncode", func() error {
						t, err := m.ComputeMACAndEncode(raw)
						if err != nil || t != macTok {
							return fmt.Errorf("token %q differs from the sequential result %q: %v", t, macTok, err)
						}
						return nil
					}},
					{"VerifyMACAndDecode", func() error { return check(m.VerifyMACAndDecode(macTok, val)) }},
					{"SignAndEncode+VerifyAndDecode", func() error {
						t, err := sg.SignAndEncode(raw)
						if err != nil {
							return err
						}
						return check(vf.VerifyAndDecode(t, val))
					}},
					{"VerifyAndDecode", func() error { return check(vf.VerifyAndDecode(sigTok, val)) }},
				}
			})
		}},
		{"derive", func(rt *rapid.T) (string, []op) {
			derived := rapid.SampledFrom([]*tinkpb.KeyTemplate{aead.AES128GCMKeyTemplate(), mac.HMACSHA256Tag128KeyTemplate(), signature.ED25519KeyTemplate(), daead.AESSIVKeyTemplate()}).Draw(rt, "derived")
			kt := tk.Must(keyderivation.CreatePRFBasedKeyTemplate(prf.HKDFSHA256PRFKeyTemplate(), derived))
			d := tk.Must(keyderivation.New(tk.Must(keyset.NewHandle(kt))))
			return "DeriveKeyset -> " + derived.TypeUrl, twice(func(tag string) []op {
				salt := shared(gen.Bytes(rt, "salt", 40))
				ser := func(h *keyset.Handle) []byte {
					var buf bytes.Buffer
					if err := insecurecleartextkeyset.Write(h, keyset.NewBinaryWriter(&buf)); err != nil {
						panic(err)
					}
					return buf.Bytes()
				}
				want := ser(tk.Must(d.DeriveKeyset(salt)))
				return []op{{"DeriveKeyset", func() error {
					h, err := d.DeriveKeyset(salt)
					if err != nil {
						return err
					}
					if !bytes.Equal(ser(h), want) {
						return fmt.Errorf("derived keyset differs from the sequential result")
					}
					return nil
				}}}
			})
		}},
		{"registry", func(rt *rapid.T) (string, []op) {
			// read operations on the global registries and the serialization registry
			c := aeadcase.Draw(rt)
			k := c.K
			if k == nil {
				k = tk.Must(c.NewKey(tk.NoPrefix, 0))
			}
			ks := tk.Must(protoserialization.SerializeKey(k))
			want := tk.Must(proto.MarshalOptions{Deterministic: true}.Marshal(ks.KeyData()))
			url := ks.KeyData().GetTypeUrl()
			params := k.Parameters()
			wantTmpl := tk.Must(proto.MarshalOptions{Deterministic: true}.Marshal(tk.Must(protoserialization.SerializeParameters(params))))
			return "registry/serialization lookups for " + c.Type, []op{
				{"SerializeKey+ParseKey", func() error {
					s2, err := protoserialization.SerializeKey(k)
					if err != nil {
						return err
					}
					b, _ := proto.MarshalOptions{Deterministic: true}.Marshal(s2.KeyData())
					if !bytes.Equal(b, want) {
						return fmt.Errorf("serialization differs")
					}
					k2, err := protoserialization.ParseKey(s2)
					if err != nil || !k2.Equal(k) {
						return fmt.Errorf("parsed key differs: %v", err)
					}
					return nil
				}},
				{"SerializeParameters+ParseParameters", func() error {
					kt, err := protoserialization.SerializeParameters(params)
					if err != nil {
						return err
					}
					b, _ := proto.MarshalOptions{Deterministic: true}.Marshal(kt)
					if !bytes.Equal(b, wantTmpl) {
						return fmt.Errorf("template differs")
					}
					p2, err := protoserialization.ParseParameters(kt)
					if err != nil || !p2.Equal(params) {
						return fmt.Errorf("parsed parameters differ: %v", err)
					}
					return nil
				}},
				{"registry.GetKeyManager+Primitive", func() error {
					km, err := registry.GetKeyManager(url)
					if err != nil {
						return err
					}
					if !km.DoesSupport(url) || km.TypeURL() != url {
						return fmt.Errorf("key manager mismatch")
					}
					p, err := registry.PrimitiveFromKeyData(ks.KeyData())
					if err != nil {
						return err
					}
					a, ok := p.(tink.AEAD)
					if !ok {
						return fmt.Errorf("primitive is %T", p)
					}
					ct, err := a.Encrypt([]byte("x"), nil)
					if err != nil {
						return err
					}
					pt, err := a.Decrypt(ct, nil)
					if err != nil || string(pt) != "x" {
						return fmt.Errorf("round trip through registry primitive: %v", err)
					}
					return nil
				}},
				{"registry.NewKeyData", func() error {
					kd, err := registry.NewKeyData(aead.AES128GCMKeyTemplate())
					if err != nil || len(kd.GetValue()) == 0 {
						return fmt.Errorf("NewKeyData: %v", err)
					}
					return nil
				}},
				{"primitiveregistry.Primitive", func() error {
					_, err := primitiveregistry.Primitive(k)
					return err
				}},
			}
		}},
		{"alltypes", func(rt *rapid.T) (string, []op) {
			// every key type and parameter combination of the key generator through its class factory
			c := rapid.SampledFrom([]keys.Class{keys.AEAD, keys.DAEAD, keys.MAC, keys.PRF, keys.Signature, keys.Hybrid, keys.Streaming, keys.Deriver}).Draw(rt, "keyclass")
			info := keys.DrawUsable(rt, "key", c)
			if info.Type == "SlhDsa" && info.Fields["sig_type"] == "SMALL_SIGNATURE" {
				rt.Skip("SLH-DSA s sets are too slow under the race detector")
			}
			if c == keys.Signature || c == keys.Hybrid {
				callCap = 48
			}
			h := tk.Must(tk.HandleFromKey(info.Key))
			desc := "all-types: " + info.Desc
			// the primitive(s) are created once and shared by both input sets
			prims := map[string]any{}
			once := func(name string, mk func() any) any {
				if _, ok := prims[name]; !ok {
					prims[name] = mk()
				}
				return prims[name]
			}
			return desc, twice(func(tag string) []op {
				x, y := shared(gen.Bytes(rt, "x", 200)), shared(gen.Bytes(rt, "y", 40))
				wantX := append([]byte{}, x...)
				switch c {
				case keys.AEAD:
					a := once("aead", func() any { return tk.Must(aead.New(h)) }).(tink.AEAD)
					ct := tk.Must(a.Encrypt(x, y))
					return []op{{"Encrypt+Decrypt", func() error {
						c2, err := a.Encrypt(x, y)
						if err != nil {
							return err
						}
						p, err := a.Decrypt(c2, y)
						if err != nil || !bytes.Equal(p, wantX) {
							return fmt.Errorf("decrypt: %x, %v", p, err)
						}
						return nil
					}}, {"Decrypt", func() error {
						p, err := a.Decrypt(ct, y)
						if err != nil || !bytes.Equal(p, wantX) {
							return fmt.Errorf("decrypt: %x, %v", p, err)
						}
						return nil
					}}}
				case keys.DAEAD:
					d := once("daead", func() any { return tk.Must(daead.New(h)) }).(tink.DeterministicAEAD)
					want := tk.Must(d.EncryptDeterministically(x, y))
					return []op{{"EncryptDeterministically", func() error {
						c2, err := d.EncryptDeterministically(x, y)
						if err != nil || !bytes.Equal(c2, want) {
							return fmt.Errorf("ciphertext differs: %v", err)
						}
						return nil
					}}, {"DecryptDeterministically", func() error {
						p, err := d.DecryptDeterministically(want, y)
						if err != nil || !bytes.Equal(p, wantX) {
							return fmt.Errorf("decrypt: %v", err)
						}
						return nil
					}}}
				case keys.MAC:
					m := once("mac", func() any { return tk.Must(mac.New(h)) }).(tink.MAC)
					want := tk.Must(m.ComputeMAC(x))
					return []op{{"ComputeMAC", func() error {
						t2, err := m.ComputeMAC(x)
						if err != nil || !bytes.Equal(t2, want) {
							return fmt.Errorf("tag differs: %v", err)
						}
						return nil
					}}, {"VerifyMAC", func() error { return m.VerifyMAC(want, x) }}}
				case keys.PRF:
					s := once("prf", func() any { return tk.Must(prf.NewPRFSet(h)) }).(*prf.Set)
					want := tk.Must(s.ComputePrimaryPRF(x, 16))
					return []op{{"ComputePrimaryPRF", func() error {
						o, err := s.ComputePrimaryPRF(x, 16)
						if err != nil || !bytes.Equal(o, want) {
							return fmt.Errorf("output differs: %v", err)
						}
						return nil
					}}}
				case keys.Signature:
					s := once("signer", func() any { return tk.Must(signature.NewSigner(h)) }).(tink.Signer)
					v := once("verifier", func() any { return tk.Must(signature.NewVerifier(tk.Must(h.Public()))) }).(tink.Verifier)
					sig := tk.Must(s.Sign(x))
					return []op{{"Sign+Verify", func() error {
						g, err := s.Sign(x)
						if err != nil {
							return err
						}
						return v.Verify(g, x)
					}}, {"Verify", func() error { return v.Verify(sig, x) }}}
				case keys.Hybrid:
					e := once("henc", func() any { return tk.Must(hybrid.NewHybridEncrypt(tk.Must(h.Public()))) }).(tink.HybridEncrypt)
					d := once("hdec", func() any { return tk.Must(hybrid.NewHybridDecrypt(h)) }).(tink.HybridDecrypt)
					ct := tk.Must(e.Encrypt(x, y))
					return []op{{"Encrypt+Decrypt", func() error {
						c2, err := e.Encrypt(x, y)
						if err != nil {
							return err
						}
						p, err := d.Decrypt(c2, y)
						if err != nil || !bytes.Equal(p, wantX) {
							return fmt.Errorf("decrypt: %v", err)
						}
						return nil
					}}, {"Decrypt", func() error {
						p, err := d.Decrypt(ct, y)
						if err != nil || !bytes.Equal(p, wantX) {
							return fmt.Errorf("decrypt: %v", err)
						}
						return nil
					}}}
				case keys.Streaming:
					sa := once("stream", func() any { return tk.Must(streamingaead.New(h)) }).(tink.StreamingAEAD)
					return []op{{"NewEncryptingWriter+NewDecryptingReader", func() error {
						var buf bytes.Buffer
						w, err := sa.NewEncryptingWriter(&buf, y)
						if err != nil {
							return err
						}
						if _, err := w.Write(x); err != nil {
							return err
						}
						if err := w.Close(); err != nil {
							return err
						}
						r, err := sa.NewDecryptingReader(bytes.NewReader(buf.Bytes()), y)
						if err != nil {
							return err
						}
						var out bytes.Buffer
						if _, err := out.ReadFrom(r); err != nil || !bytes.Equal(out.Bytes(), wantX) {
							return fmt.Errorf("stream round trip: %v", err)
						}
						return nil
					}}}
				default: // Deriver
					d := once("deriver", func() any { return tk.Must(keyderivation.New(h)) }).(keyderivation.KeysetDeriver)
					ser := func(hh *keyset.Handle) []byte {
						var buf bytes.Buffer
						if err := insecurecleartextkeyset.Write(hh, keyset.NewBinaryWriter(&buf)); err != nil {
							panic(err)
						}
						return buf.Bytes()
					}
					want := ser(tk.Must(d.DeriveKeyset(x)))
					return []op{{"DeriveKeyset", func() error {
						hh, err := d.DeriveKeyset(x)
						if err != nil {
							return err
						}
						if !bytes.Equal(ser(hh), want) {
							return fmt.Errorf("derived keyset differs")
						}
						return nil
					}}}
				}
			})
		}},
		{"handle", func(rt *rapid.T) (string, []op) {
			m := keyset.NewManager()
			var first uint32
			n := rapid.IntRange(1, 4).Draw(rt, "nkeys")
			for i := 0; i < n; i++ {
				kt := rapid.SampledFrom([]*tinkpb.KeyTemplate{signature.ED25519KeyTemplate(), signature.ECDSAP256KeyTemplate(), signature.ED25519KeyWithoutPrefixTemplate()}).Draw(rt, "template")
				id := tk.Must(m.Add(kt))
				if i == 0 {
					first = id
				}
			}
			if err := m.SetPrimary(first); err != nil {
				panic(err)
			}
			h := tk.Must(m.Handle())
			info := h.KeysetInfo().String()
			str := h.String()
			pubInfo := tk.Must(h.Public()).KeysetInfo().String()
			msg := []byte("message")
			return fmt.Sprintf("handle with %d signature keys", n), []op{
				{"KeysetInfo/String/Len", func() error {
					if h.KeysetInfo().String() != info || h.String() != str || h.Len() != n {
						return fmt.Errorf("handle reads differ")
					}
					return nil
				}},
				{"Entry/Primary", func() error {
					p, err := h.Primary()
					if err != nil || p.KeyID() != first {
						return fmt.Errorf("Primary: %v", err)
					}
					for i := 0; i < n; i++ {
						e, err := h.Entry(i)
						if err != nil || e.Key() == nil {
							return fmt.Errorf("Entry(%d): %v", i, err)
						}
						if _, ok := e.Key().IDRequirement(); !ok && false {
							return nil
						}
					}
					return nil
				}},
				{"Public", func() error {
					p, err := h.Public()
					if err != nil || p.KeysetInfo().String() != pubInfo {
						return fmt.Errorf("Public(): %v", err)
					}
					return nil
				}},
				{"NewSigner+NewVerifier", func() error {
					s, err := signature.NewSigner(h)
					if err != nil {
						return err
					}
					p, err := h.Public()
					if err != nil {
						return err
					}
					v, err := signature.NewVerifier(p)
					if err != nil {
						return err
					}
					sig, err := s.Sign(msg)
					if err != nil {
						return err
					}
					return v.Verify(sig, msg)
				}},
				{"serialize", func() error {
					var buf bytes.Buffer
					if err := insecurecleartextkeyset.Write(h, keyset.NewBinaryWriter(&buf)); err != nil {
						return err
					}
					h2, err := insecurecleartextkeyset.Read(keyset.NewBinaryReader(&buf))
					if err != nil || h2.KeysetInfo().String() != info {
						return fmt.Errorf("re-read handle differs: %v", err)
					}
					return nil
				}},
				{"NewHandle(template)", func() error {
					_, err := keyset.NewHandle(signature.ED25519KeyTemplate())
					return err
				}},
			}
		}},
	}
}

// twice builds the ops for two independently drawn input sets on the same shared primitive, so
// that concurrent calls carry DIFFERENT messages / associated data (state cached per input in a
// primitive is only observable that way).
func twice(mk func(tag string) []op) []op {
	a := mk("a")
	b := mk("b")
	for i := range b {
		b[i].name += "#2"
	}
	return append(a, b...)
}

// callCap bounds goroutines x calls for expensive key types (set by a builder, reset per case).
var callCap int

var logMu sync.Mutex

func logConfig(cfg map[string]any) {
	dir := os.Getenv("VERIF_REPLAY_OUT")
	if dir == "" {
		return
	}
	logMu.Lock()
	defer logMu.Unlock()
	b, _ := json.Marshal(cfg)
	os.WriteFile(filepath.Join(dir, "current-config.json"), b, 0o644)
}

func TestConcurrentUse(t *testing.T) {
	bs := append(builders(), paramSetsBuilder())
	// "pair": two independently drawn primitives (any two classes, or two keys of one class) are
	// used at once, so that state shared between *different* keys or primitives - package-level
	// caches, pooled buffers - is exercised with different contents in flight (after seeded
	// changes C16c and C18d, both package-level state).
	single := bs
	bs = append(bs, builder{"pair", func(rt *rapid.T) (string, []op) {
		b1 := rapid.SampledFrom(single).Draw(rt, "first")
		d1, o1 := b1.build(rt)
		cap1 := callCap
		callCap = 0
		b2 := rapid.SampledFrom(single).Draw(rt, "second")
		d2, o2 := b2.build(rt)
		if cap1 > 0 && (callCap == 0 || cap1 < callCap) {
			callCap = cap1
		}
		for i := range o2 {
			o2[i].name += "@2"
		}
		return b1.class + " {" + d1 + "} with " + b2.class + " {" + d2 + "}", append(o1, o2...)
	}})
	rapid.Check(t, func(rt *rapid.T) {
		entropy := rapid.Uint64().Draw(rt, "entropy")
		detrand.Seed(entropy)
		b := rapid.SampledFrom(bs).Draw(rt, "class")
		callCap = 0
		desc, ops := b.build(rt)
		g := rapid.IntRange(2, 16).Draw(rt, "goroutines")
		k := rapid.IntRange(4, 40).Draw(rt, "calls")
		if callCap > 0 && g*k > callCap {
			k = max(2, callCap/g)
		}
		yield := rapid.IntRange(0, 3).Draw(rt, "yield_every")
		sched := rapid.SliceOfN(rapid.IntRange(0, len(ops)-1), 8, 32).Draw(rt, "schedule")
		cfg := map[string]any{"class": b.class, "primitive": desc, "goroutines": g, "calls_each": k, "yield_every": yield, "schedule": sched, "entropy": entropy}
		logConfig(cfg)
		// sequential pass: every op must hold when executed alone
		for _, o := range ops {
			if err := o.run(); err != nil {
				rt.Fatalf("%s: %s fails sequentially: %v", desc, o.name, err)
			}
		}
		var wg sync.WaitGroup
		errs := make(chan string, g*k)
		start := make(chan struct{})
		for gi := 0; gi < g; gi++ {
			wg.Add(1)
			go func(gi int) {
				defer wg.Done()
				<-start
				for i := 0; i < k; i++ {
					o := ops[sched[(gi*7+i)%len(sched)]]
					if err := o.run(); err != nil {
						errs <- fmt.Sprintf("goroutine %d call %d %s: %v", gi, i, o.name, err)
						return
					}
					if yield > 0 && i%yield == 0 {
						runtime.Gosched()
					}
				}
			}(gi)
		}
		close(start)
		wg.Wait()
		close(errs)
		var all []string
		for e := range errs {
			all = append(all, e)
		}
		if len(all) > 0 {
			rt.Fatalf("%s: concurrent calls returned results that differ from sequential execution (G=%d, K=%d):\n  %s", desc, g, k, strings.Join(all, "\n  "))
		}
		evid.Add("concurrent_calls", int64(g*k))
		evid.Case(fmt.Sprintf("%s/G=%s", b.class, bucket(g)), true, evid.NewH().S(desc).I(int64(g)).I(int64(k)).I(int64(entropy)).Sum(), func() any { return cfg })
	})
}

func bucket(g int) string {
	switch {
	case g <= 2:
		return "2"
	case g <= 4:
		return "3-4"
	case g <= 8:
		return "5-8"
	}
	return "9-16"
}
