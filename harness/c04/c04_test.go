// Package c04 decides property C04: MAC tags are the standard HMAC / AES-CMAC values and only
// those verify.
package c04

import (
	"bytes"
	"fmt"
	"testing"

	"pgregory.net/rapid"

	"github.com/tink-crypto/tink-go/v2/internal/internalapi"
	"github.com/tink-crypto/tink-go/v2/mac"
	"github.com/tink-crypto/tink-go/v2/mac/aescmac"
	"github.com/tink-crypto/tink-go/v2/mac/hmac"
	macsubtle "github.com/tink-crypto/tink-go/v2/mac/subtle"
	"github.com/tink-crypto/tink-go/v2/tink"
	"github.com/tink-crypto/tink-go/v2/verifharness/internal/aeadcase"
	"github.com/tink-crypto/tink-go/v2/verifharness/internal/detrand"
	"github.com/tink-crypto/tink-go/v2/verifharness/internal/evid"
	"github.com/tink-crypto/tink-go/v2/verifharness/internal/gen"
	"github.com/tink-crypto/tink-go/v2/verifharness/internal/ref/sym"
	"github.com/tink-crypto/tink-go/v2/verifharness/internal/tk"
)

func TestMain(m *testing.M) { evid.Main(m) }

type hashSpec struct {
	name   string
	ht     hmac.HashType
	digest int
	block  int
}

var hashes = []hashSpec{
	{"SHA1", hmac.SHA1, 20, 64}, {"SHA224", hmac.SHA224, 28, 64}, {"SHA256", hmac.SHA256, 32, 64},
	{"SHA384", hmac.SHA384, 48, 128}, {"SHA512", hmac.SHA512, 64, 128},
}

var variants = []string{tk.Tink, tk.Crunchy, tk.Legacy, tk.NoPrefix}

func hmacVariant(v string) hmac.Variant {
	return map[string]hmac.Variant{tk.Tink: hmac.VariantTink, tk.Crunchy: hmac.VariantCrunchy, tk.Legacy: hmac.VariantLegacy, tk.NoPrefix: hmac.VariantNoPrefix}[v]
}
func cmacVariant(v string) aescmac.Variant {
	return map[string]aescmac.Variant{tk.Tink: aescmac.VariantTink, tk.Crunchy: aescmac.VariantCrunchy, tk.Legacy: aescmac.VariantLegacy, tk.NoPrefix: aescmac.VariantNoPrefix}[v]
}

// macCase is everything the oracle needs: the expected full tag for any message.
type macCase struct {
	alg     string // hash name or "CMAC"
	key     []byte
	tagSize int
	variant string
	id      uint32
	route   string
	p       tink.MAC
}

func (c *macCase) fullRaw(msg []byte) []byte {
	m := msg
	if c.variant == tk.Legacy {
		m = append(append([]byte{}, msg...), 0)
	}
	if c.alg == "CMAC" {
		return sym.CMAC(c.key, m)
	}
	return sym.HMAC(sym.HashByName(c.alg), c.key, m)
}

func (c *macCase) expected(msg []byte) []byte {
	return append(tk.Prefix(c.variant, c.id), c.fullRaw(msg)[:c.tagSize]...)
}

func (c *macCase) String() string {
	return fmt.Sprintf("%s key=%s tag=%d variant=%s id=%#x route=%s", c.alg, gen.Hex(c.key), c.tagSize, c.variant, c.id, c.route)
}

// checkMAC runs the whole C04 oracle for one (primitive, message).
func checkMAC(t *rapid.T, c *macCase, msg []byte, draw bool) (candidates int) {
	want := c.expected(msg)
	got1, err := c.p.ComputeMAC(msg)
	if err != nil {
		t.Fatalf("%v: ComputeMAC(%s) failed: %v", c, gen.Hex(msg), err)
	}
	got2, err := c.p.ComputeMAC(append([]byte{}, msg...))
	if err != nil || !bytes.Equal(got1, got2) {
		t.Fatalf("%v: ComputeMAC not deterministic on %s: %x vs %x (%v)", c, gen.Hex(msg), got1, got2, err)
	}
	if !bytes.Equal(got1, want) {
		t.Fatalf("%v: ComputeMAC(%s) = %x, reference says %x", c, gen.Hex(msg), got1, want)
	}
	if err := c.p.VerifyMAC(got1, msg); err != nil {
		t.Fatalf("%v: VerifyMAC rejects own tag for %s: %v", c, gen.Hex(msg), err)
	}
	// equivalence: VerifyMAC(cand, m') == nil  <=>  cand == expected(m')
	try := func(kind string, cand, m []byte) {
		candidates++
		exp := want
		if !(len(m) == len(msg) && (len(m) == 0 || &m[0] == &msg[0])) {
			exp = c.expected(m) // (the reference value for msg itself is computed once: long messages)
		}
		should := bytes.Equal(cand, exp)
		err := c.p.VerifyMAC(cand, m)
		if (err == nil) != should {
			t.Fatalf("%v: candidate kind=%s tag=%x msg=%s: VerifyMAC err=%v but reference equality=%v", c, kind, cand, gen.Hex(m), err, should)
		}
	}
	plen := len(want) - c.tagSize
	for i := range want { // every byte of prefix and tag, one bit each (bit index varies with position)
		cand := append([]byte{}, want...)
		cand[i] ^= 1 << (uint(i) % 8)
		try("flip", cand, msg)
	}
	for cut := 0; cut < len(want); cut++ {
		try("truncate", want[:cut], msg)
	}
	for ext := 1; ext <= 4; ext++ {
		try("extend", append(append([]byte{}, want...), make([]byte, ext)...), msg)
	}
	full := c.fullRaw(msg)
	if len(full) > c.tagSize {
		try("untruncated", append(tk.Prefix(c.variant, c.id), full...), msg)
		try("one-more-byte", append(tk.Prefix(c.variant, c.id), full[:c.tagSize+1]...), msg)
		// tag taken from the tail of the full value instead of the head
		try("tail", append(tk.Prefix(c.variant, c.id), full[len(full)-c.tagSize:]...), msg)
	}
	if plen > 0 {
		try("noprefix", want[plen:], msg)
		for _, v := range variants {
			if p := tk.Prefix(v, c.id); !bytes.Equal(p, want[:plen]) {
				try("prefix-of-"+v, append(append([]byte{}, p...), want[plen:]...), msg)
			}
		}
		try("other-id", append(tk.Prefix(c.variant, c.id+1), want[plen:]...), msg)
	} else {
		try("added-prefix", append(tk.Prefix(tk.Tink, c.id), want...), msg)
	}
	// message variations against the unchanged tag (the LEGACY suffix confusion included)
	try("msg+0", want, append(append([]byte{}, msg...), 0))
	if len(msg) > 0 {
		try("msg-last", want, msg[:len(msg)-1])
		m2 := append([]byte{}, msg...)
		m2[len(m2)/2] ^= 0x80
		try("msg-flip", want, m2)
	}
	if draw {
		mm := gen.Mutate(t, "msgmut", msg)
		try("msg-"+mm.Kind, want, mm.Out)
		tm := gen.Mutate(t, "tagmut", want)
		try("tag-"+tm.Kind, tm.Out, msg)
		// a re-computed tag for the mutated message is on the accept side
		try("retag", c.expected(mm.Out), mm.Out)
	}
	candidates += reusedMessageBuffer(t, c, msg, got1, want)
	return candidates
}

func xored(b []byte, v byte) []byte {
	out := make([]byte, len(b))
	for i := range b {
		out[i] = b[i] ^ v
	}
	return out
}

// reusedMessageBuffer: the property is stated for messages as byte strings. A caller that keeps one
// message buffer and refills it between calls on the same primitive object must get the tag of the
// bytes the buffer holds at the time of the call, and a tag it was handed earlier must still be the
// tag of the message it was computed for after later calls with other messages.
//
//	buf = msg^0x11 (a message the object has not met): t1 = ComputeMAC(buf) == expected(msg^0x11)
//	buf ^= 0x33 in place (now msg^0x22):               t2 = ComputeMAC(buf) == expected(msg^0x22)
//	t1 (and the tag of msg computed at the start) still hold their values;
//	VerifyMAC(t1, buf) fails now (modified message), VerifyMAC(tagbuf, buf) follows the buffers:
//	tagbuf = t1 -> overwritten in place with expected(msg^0x22) -> accepted.
//
// For the empty message the second message is a one-byte message in a new slice.
func reusedMessageBuffer(t *rapid.T, c *macCase, msg, tagOfMsg, want []byte) (candidates int) {
	first := xored(msg, 0x11)
	if len(msg) == 0 {
		first = []byte{0x11}
	}
	buf := first
	wantA := c.expected(buf)
	t1, err := c.p.ComputeMAC(buf)
	if err != nil || !bytes.Equal(t1, wantA) {
		t.Fatalf("%v: ComputeMAC(%s) = %x (%v), reference says %x", c, gen.Hex(buf), t1, err, wantA)
	}
	msgA := bytes.Clone(buf)
	for i := range buf {
		buf[i] ^= 0x33
	}
	wantB := c.expected(buf)
	t2, err := c.p.ComputeMAC(buf)
	if err != nil || !bytes.Equal(t2, wantB) {
		t.Fatalf("%v: the caller's message buffer first held %s (ComputeMAC correct), then - every byte ^0x33 in place - %s: the second ComputeMAC on the same object = %x (%v), reference says %x", c, gen.Hex(msgA), gen.Hex(buf), t2, err, wantB)
	}
	if !bytes.Equal(t1, wantA) {
		t.Fatalf("%v: the tag returned for %s was %x; after ComputeMAC of another message (%s) on the same object the returned slice holds %x", c, gen.Hex(msgA), wantA, gen.Hex(buf), t1)
	}
	if !bytes.Equal(tagOfMsg, want) {
		t.Fatalf("%v: the tag returned for %s was %x; after later calls on the same object the returned slice holds %x", c, gen.Hex(msg), want, tagOfMsg)
	}
	// verification through reused buffers (decided by reference equality as everywhere else)
	tagbuf := bytes.Clone(t1)
	for _, step := range []struct {
		kind string
		tag  []byte
	}{{"stale-tag-after-refill", tagbuf}, {"refilled-tag", wantB}} {
		copy(tagbuf, step.tag)
		candidates++
		should := bytes.Equal(tagbuf, wantB)
		err := c.p.VerifyMAC(tagbuf, buf)
		if (err == nil) != should {
			t.Fatalf("%v: candidate kind=%s tag=%x msg=%s (message buffer refilled in place, was %s): VerifyMAC err=%v but reference equality=%v", c, step.kind, tagbuf, gen.Hex(buf), gen.Hex(msgA), err, should)
		}
	}
	evid.Add("reused_buffer_stages", 1)
	return candidates
}

func buildHMAC(t *rapid.T, hs hashSpec, keyBytes []byte, tagSize int, variant string, id uint32, route string) (tink.MAC, uint32, error) {
	switch route {
	case "subtle":
		p, err := macsubtle.NewHMAC(hs.name, keyBytes, uint32(tagSize))
		return p, 0, err
	}
	params, err := hmac.NewParameters(hmac.ParametersOpts{KeySizeInBytes: len(keyBytes), TagSizeInBytes: tagSize, HashType: hs.ht, Variant: hmacVariant(variant)})
	if err != nil {
		return nil, 0, fmt.Errorf("NewParameters: %w", err)
	}
	if variant == tk.NoPrefix {
		id = 0
	}
	k, err := hmac.NewKey(tk.Secret(keyBytes), params, id)
	if err != nil {
		return nil, 0, fmt.Errorf("NewKey: %w", err)
	}
	if route == "key" {
		p, err := hmac.NewMAC(k, internalapi.Token{})
		return p, id, err
	}
	h, err := tk.HandleFromKey(k)
	if err != nil {
		return nil, 0, err
	}
	p, err := mac.New(h)
	return p, id, err
}

func hmacKeyLen(t *rapid.T, block int) int {
	switch rapid.IntRange(0, 3).Draw(t, "klkind") {
	case 0:
		return rapid.SampledFrom([]int{16, 17, 20, 32, block - 1, block, block + 1, 2*block - 1, 2 * block, 2*block + 1, 200}).Draw(t, "keylen")
	default:
		return rapid.IntRange(16, 200).Draw(t, "keylen")
	}
}

func TestHMAC(t *testing.T) {
	rapid.Check(t, func(rt *rapid.T) {
		detrand.Seed(rapid.Uint64().Draw(rt, "entropy"))
		hs := rapid.SampledFrom(hashes).Draw(rt, "hash")
		kl := hmacKeyLen(rt, hs.block)
		keyBytes := gen.BytesN(rt, "key", kl)
		tagSize := rapid.IntRange(10, hs.digest).Draw(rt, "tag")
		if rapid.IntRange(0, 3).Draw(rt, "tagedge") == 0 {
			tagSize = rapid.SampledFrom([]int{10, hs.digest - 1, hs.digest}).Draw(rt, "tagedgeval")
		}
		route := rapid.SampledFrom([]string{"handle", "key", "subtle"}).Draw(rt, "route")
		variant := tk.NoPrefix
		if route != "subtle" {
			variant = rapid.SampledFrom(variants).Draw(rt, "variant")
		}
		id := gen.KeyID(rt, "id")
		msg := gen.Bytes(rt, "msg", 2048)
		p, id, err := buildHMAC(rt, hs, keyBytes, tagSize, variant, id, route)
		if err != nil {
			rt.Fatalf("HMAC %s key=%d tag=%d %s route=%s: construction failed inside the documented domain: %v", hs.name, kl, tagSize, variant, route, err)
		}
		c := &macCase{alg: hs.name, key: keyBytes, tagSize: tagSize, variant: variant, id: id, route: route, p: p}
		n := checkMAC(rt, c, msg, true)
		evid.Add("verify_candidates", int64(n))
		class := fmt.Sprintf("%s/%s/%s/msg%%%d=%s/key%s", hs.name, variant, route, hs.block, blockRel(len(msg), hs.block), keyRel(kl, hs.block))
		evid.Case(class, len(msg) >= 1, evid.NewH().S(hs.name).B(keyBytes).I(int64(tagSize)).S(variant).I(int64(id)).S(route).B(msg).Sum(), func() any {
			return map[string]any{"case": c.String(), "msg": gen.Hex(msg), "candidates": n}
		})
	})
}

func blockRel(n, block int) string {
	switch {
	case n == 0:
		return "empty"
	case n%block == 0:
		return "multiple"
	case n%block == block-1 || n%block == 1:
		return "edge"
	case n < block:
		return "short"
	}
	return "mid"
}

func keyRel(k, block int) string {
	switch {
	case k < block:
		return "<block"
	case k == block:
		return "=block"
	}
	return ">block"
}

func buildCMAC(keyBytes []byte, tagSize int, variant string, id uint32, route string) (tink.MAC, uint32, error, string) {
	if route == "subtle" {
		p, err := macsubtle.NewAESCMAC(keyBytes, uint32(tagSize))
		return p, 0, err, "ctor"
	}
	params, err := aescmac.NewParameters(aescmac.ParametersOpts{KeySizeInBytes: len(keyBytes), TagSizeInBytes: tagSize, Variant: cmacVariant(variant)})
	if err != nil {
		return nil, 0, err, "params"
	}
	if variant == tk.NoPrefix {
		id = 0
	}
	k, err := aescmac.NewKey(tk.Secret(keyBytes), params, id)
	if err != nil {
		return nil, 0, err, "key"
	}
	if route == "key" {
		p, err := aescmac.NewMAC(k, internalapi.Token{})
		return p, id, err, "ctor"
	}
	h, err := tk.HandleFromKey(k)
	if err != nil {
		return nil, 0, err, "handle"
	}
	p, err := mac.New(h)
	return p, id, err, "ctor"
}

func TestCMAC(t *testing.T) {
	rapid.Check(t, func(rt *rapid.T) {
		detrand.Seed(rapid.Uint64().Draw(rt, "entropy"))
		route := rapid.SampledFrom([]string{"handle", "key", "subtle"}).Draw(rt, "route")
		// Key sizes: the key-level API documents 32 (16 is accepted by the parameters but refused by the
		// primitive); the subtle API takes every AES key size.
		kl := 32
		if route == "subtle" {
			kl = rapid.SampledFrom([]int{16, 24, 32}).Draw(rt, "keylen")
		} else if gen.OneIn(rt, "k16", 64) { // a tolerated refusal below: kept rare (was 12 % of the cases by rapid's small-value bias)
			kl = 16
		}
		keyBytes := gen.BytesN(rt, "key", kl)
		tagSize := rapid.IntRange(10, 16).Draw(rt, "tag")
		variant := tk.NoPrefix
		if route != "subtle" {
			variant = rapid.SampledFrom(variants).Draw(rt, "variant")
		}
		id := gen.KeyID(rt, "id")
		msg := gen.Bytes(rt, "msg", 1024)
		if n, big := aeadcase.BigLen(rt, "msg", 400); big {
			msg = gen.BytesN(rt, "bigmsg", n) // size class: page / buffer boundaries and 1 MiB
		}
		p, id, err, stage := buildCMAC(keyBytes, tagSize, variant, id, route)
		if err != nil {
			if kl == 16 && route != "subtle" && stage == "ctor" {
				// outside the key-level primitive's accepted sizes: refusing cleanly is fine.
				evid.Case("CMAC/refused-16-byte-key/"+route, false, 0, nil)
				return
			}
			rt.Fatalf("CMAC key=%d tag=%d %s route=%s: construction failed at %s: %v", kl, tagSize, variant, route, stage, err)
		}
		c := &macCase{alg: "CMAC", key: keyBytes, tagSize: tagSize, variant: variant, id: id, route: route, p: p}
		n := checkMAC(rt, c, msg, true)
		evid.Add("verify_candidates", int64(n))
		class := fmt.Sprintf("CMAC%d/%s/%s/msg%%16=%s", kl*8, variant, route, blockRel(len(msg), 16))
		if len(msg) >= 4096 {
			class += "/msg>=4096"
		}
		evid.Case(class, len(msg) >= 1, evid.NewH().S("CMAC").B(keyBytes).I(int64(tagSize)).S(variant).I(int64(id)).S(route).B(msg).Sum(), func() any {
			return map[string]any{"case": c.String(), "msg": gen.Hex(msg), "candidates": n}
		})
	})
}

// TestMACLengthGrid visits every message length 0..(2*block+2) for every hash and for AES-CMAC in
// every variant: one rapid case = one (algorithm, variant) with a drawn key, all lengths inside.
func TestMACLengthGrid(t *testing.T) {
	rapid.Check(t, func(rt *rapid.T) {
		detrand.Seed(rapid.Uint64().Draw(rt, "entropy"))
		algo := rapid.IntRange(0, len(hashes)).Draw(rt, "algo")
		variant := rapid.SampledFrom(variants).Draw(rt, "variant")
		id := gen.KeyID(rt, "id")
		route := rapid.SampledFrom([]string{"handle", "key"}).Draw(rt, "route")
		var c *macCase
		block := 16
		if algo == len(hashes) {
			keyBytes := gen.BytesN(rt, "key", 32)
			tagSize := rapid.IntRange(10, 16).Draw(rt, "tag")
			p, id2, err, _ := buildCMAC(keyBytes, tagSize, variant, id, route)
			if err != nil {
				rt.Fatalf("CMAC grid construction: %v", err)
			}
			c = &macCase{alg: "CMAC", key: keyBytes, tagSize: tagSize, variant: variant, id: id2, route: route, p: p}
		} else {
			hs := hashes[algo]
			block = hs.block
			keyBytes := gen.BytesN(rt, "key", hmacKeyLen(rt, hs.block))
			tagSize := rapid.IntRange(10, hs.digest).Draw(rt, "tag")
			p, id2, err := buildHMAC(rt, hs, keyBytes, tagSize, variant, id, route)
			if err != nil {
				rt.Fatalf("HMAC grid construction: %v", err)
			}
			c = &macCase{alg: hs.name, key: keyBytes, tagSize: tagSize, variant: variant, id: id2, route: route, p: p}
		}
		seed := rapid.Uint64().Draw(rt, "msgseed")
		data := gen.Expand(seed, 2*block+3)
		for n := 0; n <= 2*block+2; n++ {
			msg := data[:n]
			want := c.expected(msg)
			got, err := c.p.ComputeMAC(msg)
			if err != nil || !bytes.Equal(got, want) {
				rt.Fatalf("%v: len(msg)=%d ComputeMAC=%x err=%v, reference %x", c, n, got, err, want)
			}
			if err := c.p.VerifyMAC(want, msg); err != nil {
				rt.Fatalf("%v: len(msg)=%d VerifyMAC rejects reference tag: %v", c, n, err)
			}
			if n > 0 {
				if err := c.p.VerifyMAC(want, data[:n-1]); err == nil {
					rt.Fatalf("%v: tag of %d-byte message accepted for its %d-byte prefix", c, n, n-1)
				}
			}
		}
		evid.Add("grid_lengths", int64(2*block+3))
		evid.Case("grid/"+c.alg+"/"+variant, true, evid.NewH().S(c.alg).B(c.key).I(int64(c.tagSize)).S(variant).I(int64(seed)).Sum(), func() any {
			return map[string]any{"case": c.String(), "lengths": fmt.Sprintf("0..%d", 2*block+2)}
		})
	})
}

// TestMACOutOfDomain: parameters below the documented minimum, or unknown, fail cleanly.
func TestMACOutOfDomain(t *testing.T) {
	rapid.Check(t, func(rt *rapid.T) {
		hs := rapid.SampledFrom(hashes).Draw(rt, "hash")
		kind := rapid.SampledFrom([]string{"shortkey", "shorttag", "longtag", "cmackey"}).Draw(rt, "kind")
		var err error
		switch kind {
		case "shortkey":
			_, err = macsubtle.NewHMAC(hs.name, make([]byte, rapid.IntRange(0, 15).Draw(rt, "kl")), 10)
		case "shorttag":
			_, err = macsubtle.NewHMAC(hs.name, make([]byte, 32), uint32(rapid.IntRange(0, 9).Draw(rt, "ts")))
		case "longtag":
			_, err = macsubtle.NewHMAC(hs.name, make([]byte, 32), uint32(hs.digest+rapid.IntRange(1, 40).Draw(rt, "ts")))
		case "cmackey":
			kl := rapid.IntRange(0, 40).Draw(rt, "kl")
			if kl == 16 || kl == 24 || kl == 32 {
				kl++
			}
			_, err = macsubtle.NewAESCMAC(make([]byte, kl), 16)
		}
		if err == nil {
			rt.Fatalf("out-of-domain MAC parameters accepted: %s %s", hs.name, kind)
		}
		evid.Case("outofdomain/"+kind, true, evid.NewH().S(hs.name).S(kind).I(int64(len(err.Error()))).Sum(), func() any { return kind })
	})
}
