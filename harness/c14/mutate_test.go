package c14

import (
	"bytes"
	"crypto/ecdh"
	"crypto/ed25519"
	"crypto/elliptic"
	"crypto/mlkem"
	"crypto/rand"
	"fmt"
	"math/big"
	"os"
	"strings"
	"testing"

	"google.golang.org/protobuf/proto"
	"google.golang.org/protobuf/reflect/protoreflect"
	"google.golang.org/protobuf/reflect/protoregistry"
	"pgregory.net/rapid"

	"github.com/tink-crypto/tink-go/v2/internal/protoserialization"
	"github.com/tink-crypto/tink-go/v2/key"
	tinkpb "github.com/tink-crypto/tink-go/v2/proto/tink_go_proto"
	"github.com/tink-crypto/tink-go/v2/verifharness/internal/detrand"
	"github.com/tink-crypto/tink-go/v2/verifharness/internal/evid"
	"github.com/tink-crypto/tink-go/v2/verifharness/internal/gen"
	"github.com/tink-crypto/tink-go/v2/verifharness/internal/keys"
	"github.com/tink-crypto/tink-go/v2/verifharness/internal/legacykm"
)

// ---------------------------------------------------------------------------------------------
// base keysets

const legacyClass keys.Class = "legacy" // harness-owned type URLs: fallback keys + registry key managers

// entry serializes a key object into a keyset entry.
func entryOf(rt *rapid.T, k key.Key, id uint32, status tinkpb.KeyStatusType) *tinkpb.Keyset_Key {
	ser, err := protoserialization.SerializeKey(k)
	if err != nil {
		rt.Fatalf("harness: SerializeKey(%T): %v", k, err)
	}
	return &tinkpb.Keyset_Key{KeyData: proto.Clone(ser.KeyData()).(*tinkpb.KeyData), Status: status, KeyId: id, OutputPrefixType: ser.OutputPrefixType()}
}

// serializable reports whether the proto serializer accepts the key (and its public key).
func serializable(i *keys.Info) bool {
	if i.NoSerialization {
		return false
	}
	if _, err := protoserialization.SerializeKey(i.Key); err != nil {
		return false
	}
	if i.Public != nil {
		if _, err := protoserialization.SerializeKey(i.Public); err != nil {
			return false
		}
	}
	return true
}

var knownStatuses = []tinkpb.KeyStatusType{tinkpb.KeyStatusType_ENABLED, tinkpb.KeyStatusType_ENABLED, tinkpb.KeyStatusType_DISABLED, tinkpb.KeyStatusType_DESTROYED}

type base struct {
	class  keys.Class
	public bool
	ks     *tinkpb.Keyset
	desc   []string
}

func freeID(used map[uint32]bool, id uint32) uint32 {
	for used[id] {
		id++
	}
	return id
}

// drawBase builds a VALID keyset of 1..4 keys of one class with distinct IDs, drawn statuses and
// an ENABLED primary.
func drawBase(rt *rapid.T) *base {
	// the asymmetric classes have the parsers with the most checks: drawn three times as often
	classes := append(append([]keys.Class{}, keys.Classes()...), legacyClass, envelopeClass, keys.Signature, keys.Signature, keys.Signature, keys.Hybrid, keys.Hybrid, keys.JWTSignature, keys.JWTSignature)
	b := &base{class: rapid.SampledFrom(classes).Draw(rt, "class"), ks: &tinkpb.Keyset{}}
	n := rapid.IntRange(1, 4).Draw(rt, "nkeys")
	// the primary is chosen first: its key is drawn usable in four cases out of five, so that the
	// factories (which need a working primary) get a primitive to exercise
	p0 := rapid.IntRange(0, n-1).Draw(rt, "primary_index")
	p := -1
	used := map[uint32]bool{}
	if b.class == envelopeClass {
		drawEnvelopeBase(rt, b, n, used)
	} else if b.class == legacyClass {
		kind := rapid.SampledFrom([]string{legacykm.MacURL, legacykm.AeadURL, legacykm.DaeadURL, legacykm.SignerURL, legacykm.VerifierURL, legacykm.HybridPrivURL, legacykm.HybridPubURL, legacykm.UnknownMatURL, legacykm.RemoteURL}).Draw(rt, "legacy_url")
		for i := 0; i < n; i++ {
			label := fmt.Sprintf("k%d", i)
			size := 32
			if kind == legacykm.DaeadURL {
				size = 64
			}
			val := gen.BytesN(rt, label+"_value", size)
			switch kind {
			case legacykm.VerifierURL:
				val = legacykm.PublicOfSeed(val)
			case legacykm.HybridPubURL:
				val = legacykm.HybridPublicOf(val)
			}
			id := freeID(used, gen.KeyID(rt, label+"_id"))
			used[id] = true
			pt := rapid.SampledFrom([]tinkpb.OutputPrefixType{tinkpb.OutputPrefixType_TINK, tinkpb.OutputPrefixType_LEGACY, tinkpb.OutputPrefixType_RAW, tinkpb.OutputPrefixType_CRUNCHY}).Draw(rt, label+"_prefix")
			st := rapid.SampledFrom(knownStatuses).Draw(rt, label+"_status")
			b.ks.Key = append(b.ks.Key, legacykm.Key(kind, val, legacykm.Material(kind), pt, id, st))
			b.desc = append(b.desc, fmt.Sprintf("%s value=%x", shortType(kind), val))
		}
	} else {
		hasPublic := b.class == keys.Signature || b.class == keys.Hybrid || b.class == keys.JWTSignature
		b.public = hasPublic && rapid.IntRange(0, 3).Draw(rt, "public_keyset") == 0
		var seenSecrets [][]byte
		for i := 0; i < n; i++ {
			label := fmt.Sprintf("k%d", i)
			var info *keys.Info
			if i == p0 && gen.Uniform(rt, label+"_usable", 5) != 0 {
				info = keys.DrawUsable(rt, label, b.class)
				evid.Add("base_primary_drawn_usable", 1)
			} else {
				info = keys.Draw(rt, label, b.class)
			}
			if !serializable(info) {
				// keys the constructors accept but the serializer refuses (RSA-SSA-PSS salt 0, AES-GCM with
				// IV != 12 / tag != 16) cannot be part of a serialized keyset: take a usable key instead
				info = keys.DrawTypeUsable(rt, label+"_alt", keys.Types(b.class)[0])
			}
			// key material must be unique inside the base keyset (two prefix-less keys sharing an HMAC
			// key, or differing only in trailing zero bytes, would legitimately answer for each other and
			// make the self-consistency exercise fail without any defect)
			dup := false
			for _, a := range seenSecrets {
				for _, bb := range info.Secrets {
					if sameMaterial(a, bb) {
						dup = true
					}
				}
			}
			if dup && len(b.ks.Key) > 0 {
				evid.Add("member_dropped/duplicate-material", 1)
				continue
			}
			seenSecrets = append(seenSecrets, info.Secrets...)
			var id uint32
			if info.HasID {
				id = freeID(used, info.ID)
				if id != info.ID {
					sib, ok := info.WithVariantID(info.Variant, id)
					if !ok {
						rt.Fatalf("harness: cannot rebuild %s with id %#x", info, id)
					}
					info = sib
				}
			} else {
				id = freeID(used, gen.KeyID(rt, label+"_rawid"))
			}
			used[id] = true
			k := info.Key
			if b.public {
				k = info.Public
			}
			st := rapid.SampledFrom(knownStatuses).Draw(rt, label+"_status")
			ent := entryOf(rt, k, id, st)
			if i == p0 {
				p = len(b.ks.Key)
			}
			b.ks.Key = append(b.ks.Key, ent)
			b.desc = append(b.desc, info.Desc)
		}
	}
	if p < 0 { // legacy / envelope classes, or the intended primary was dropped as duplicate material
		p = p0
		if p >= len(b.ks.Key) {
			p = len(b.ks.Key) - 1
		}
	}
	b.ks.Key[p].Status = tinkpb.KeyStatusType_ENABLED
	b.ks.PrimaryKeyId = b.ks.Key[p].KeyId
	return b
}

// ---------------------------------------------------------------------------------------------
// typed (reflective) access to the key protos

func newMessageFor(url string) protoreflect.Message {
	mt, err := protoregistry.GlobalTypes.FindMessageByURL(url)
	if err != nil {
		return nil
	}
	return mt.New()
}

// formatMessageFor returns the KeyFormat message of a key type URL (the value of a KeyTemplate).
func formatMessageFor(url string) protoreflect.Message {
	name := url[strings.LastIndex(url, "/")+1:]
	for _, cand := range []string{name + "Format", strings.Replace(name, "PrivateKey", "KeyFormat", 1), strings.Replace(name, "PublicKey", "KeyFormat", 1)} {
		if mt, err := protoregistry.GlobalTypes.FindMessageByName(protoreflect.FullName(cand)); err == nil {
			return mt.New()
		}
	}
	return nil
}

var detMarshal = proto.MarshalOptions{Deterministic: true}

// transform parses value as the message of url, applies op and re-marshals.  ok=false when the
// value cannot be parsed or op did nothing (desc == "").
func transform(url string, value []byte, format bool, op func(m protoreflect.Message) string) (out []byte, desc string) {
	var m protoreflect.Message
	if format {
		m = formatMessageFor(url)
	} else {
		m = newMessageFor(url)
	}
	if m == nil {
		return nil, ""
	}
	if err := proto.Unmarshal(value, m.Interface()); err != nil {
		return nil, ""
	}
	desc = op(m)
	if desc == "" {
		return nil, ""
	}
	out, err := detMarshal.Marshal(m.Interface())
	if err != nil {
		return nil, ""
	}
	return out, desc
}

func isKeyData(m protoreflect.Message) bool {
	return m.Descriptor().FullName() == "google.crypto.tink.KeyData"
}
func isKeyTemplate(m protoreflect.Message) bool {
	return m.Descriptor().FullName() == "google.crypto.tink.KeyTemplate"
}

func field(m protoreflect.Message, name string) protoreflect.FieldDescriptor {
	return m.Descriptor().Fields().ByName(protoreflect.Name(name))
}

// nestedContainers lists the set KeyData / KeyTemplate sub-messages of m (CompositeMlDsa*,
// PrfBasedDeriverKey, ECIES dem template), at any depth.
func nestedContainers(m protoreflect.Message, path string, out *[]slot) {
	fds := m.Descriptor().Fields()
	for i := 0; i < fds.Len(); i++ {
		fd := fds.Get(i)
		if fd.IsList() || fd.IsMap() || fd.Kind() != protoreflect.MessageKind || !m.Has(fd) {
			continue
		}
		sub := m.Mutable(fd).Message()
		if isKeyData(sub) || isKeyTemplate(sub) {
			*out = append(*out, slot{m: m, fd: fd, path: path + "." + string(fd.Name())})
			continue
		}
		nestedContainers(sub, path+"."+string(fd.Name()), out)
	}
}

// deep applies op to the message of (url, value) or to one of the serialized keys / templates it
// embeds (recursively).  Where to start is drawn; when op is not applicable there, the other
// places are tried in order.
func deep(rt *rapid.T, label string, url string, value []byte, format bool, op func(m protoreflect.Message) string) ([]byte, string) {
	return transform(url, value, format, func(m protoreflect.Message) string {
		var cs []slot
		nestedContainers(m, "", &cs)
		start := 0
		if len(cs) > 0 {
			start = rapid.IntRange(0, len(cs)).Draw(rt, label+"_where")
		}
		for off := 0; off <= len(cs); off++ {
			at := (start + off) % (len(cs) + 1)
			if at == 0 {
				if d := op(m); d != "" {
					return d
				}
				continue
			}
			c := cs[at-1]
			sub := c.m.Mutable(c.fd).Message()
			innerURL := sub.Get(field(sub, "type_url")).String()
			inner, d := deep(rt, fmt.Sprintf("%s_in%d", label, at), innerURL, sub.Get(field(sub, "value")).Bytes(), isKeyTemplate(sub), op)
			if d != "" {
				sub.Set(field(sub, "value"), protoreflect.ValueOfBytes(inner))
				return c.path + "{" + d + "}"
			}
		}
		return ""
	})
}

// slot is one field of a (possibly nested) message.
type slot struct {
	m    protoreflect.Message
	fd   protoreflect.FieldDescriptor
	path string
}

func slots(m protoreflect.Message, path string, out *[]slot) {
	fds := m.Descriptor().Fields()
	for i := 0; i < fds.Len(); i++ {
		fd := fds.Get(i)
		if fd.IsList() || fd.IsMap() {
			continue
		}
		p := path + "." + string(fd.Name())
		*out = append(*out, slot{m: m, fd: fd, path: p})
		if fd.Kind() == protoreflect.MessageKind && m.Has(fd) {
			slots(m.Mutable(fd).Message(), p, out)
		}
	}
}

var sizeValues = []uint64{0, 1, 2, 7, 9, 10, 11, 12, 15, 16, 17, 20, 24, 31, 32, 33, 48, 63, 64, 65, 128, 255, 256, 4096, 1 << 20, 1<<31 - 1, 1 << 31, 1<<32 - 1}

func mutateBytes(rt *rapid.T, label string, b []byte) ([]byte, string) {
	kinds := []string{"truncate", "dropfirst", "extend", "prepend00", "prepend01", "bitflip", "zeros", "ones", "empty", "garbage-samelen", "garbage"}
	if len(b) == 0 {
		kinds = []string{"extend", "garbage"}
	}
	kind := rapid.SampledFrom(kinds).Draw(rt, label+"_bytes")
	out := append([]byte{}, b...)
	switch kind {
	case "truncate":
		out = out[:rapid.IntRange(0, len(b)-1).Draw(rt, label+"_cut")]
	case "dropfirst":
		out = out[1:]
	case "extend":
		out = append(out, rapid.SliceOfN(rapid.Byte(), 1, 8).Draw(rt, label+"_suffix")...)
	case "prepend00":
		out = append([]byte{0}, out...)
	case "prepend01":
		out = append([]byte{1}, out...)
	case "bitflip":
		bit := rapid.IntRange(0, len(b)*8-1).Draw(rt, label+"_bit")
		out[bit/8] ^= 1 << (bit % 8)
		kind = fmt.Sprintf("bitflip@%d", bit)
	case "zeros":
		out = make([]byte, len(b))
	case "ones":
		out = bytes.Repeat([]byte{0xff}, len(b))
	case "empty":
		out = []byte{}
	case "garbage-samelen":
		out = gen.Expand(rapid.Uint64().Draw(rt, label+"_seed"), len(b))
	case "garbage":
		out = gen.Bytes(rt, label+"_garbage", 200)
	}
	return out, kind
}

// mutateSlot changes one field; returns "" when nothing changed.
func mutateSlot(rt *rapid.T, label string, s slot) string {
	fd, m := s.fd, s.m
	switch fd.Kind() {
	case protoreflect.Uint32Kind, protoreflect.Uint64Kind, protoreflect.Fixed32Kind, protoreflect.Fixed64Kind:
		old := m.Get(fd).Uint()
		var v uint64
		switch {
		case fd.Name() == "version" && rapid.IntRange(0, 3).Draw(rt, label+"_v1") > 0:
			v = 1
		case rapid.IntRange(0, 3).Draw(rt, label+"_delta") == 0:
			v = old + uint64(rapid.SampledFrom([]int64{1, -1, 8, -8}).Draw(rt, label+"_d"))
		default:
			v = rapid.SampledFrom(sizeValues).Draw(rt, label+"_size")
		}
		if fd.Kind() == protoreflect.Uint32Kind || fd.Kind() == protoreflect.Fixed32Kind {
			v &= 0xffffffff
			m.Set(fd, protoreflect.ValueOfUint32(uint32(v)))
		} else {
			m.Set(fd, protoreflect.ValueOfUint64(v))
		}
		if v == old {
			return ""
		}
		return fmt.Sprintf("%s: %d -> %d", s.path, old, v)
	case protoreflect.Int32Kind, protoreflect.Int64Kind, protoreflect.Sint32Kind, protoreflect.Sint64Kind:
		old := m.Get(fd).Int()
		v := int64(rapid.SampledFrom([]int64{0, 1, -1, 16, 4096, 1<<31 - 1, -1 << 31}).Draw(rt, label+"_int"))
		if fd.Kind() == protoreflect.Int32Kind || fd.Kind() == protoreflect.Sint32Kind {
			m.Set(fd, protoreflect.ValueOfInt32(int32(v)))
		} else {
			m.Set(fd, protoreflect.ValueOfInt64(v))
		}
		if v == old {
			return ""
		}
		return fmt.Sprintf("%s: %d -> %d", s.path, old, v)
	case protoreflect.EnumKind:
		old := m.Get(fd).Enum()
		vals := fd.Enum().Values()
		var cands []protoreflect.EnumNumber
		for i := 0; i < vals.Len(); i++ {
			cands = append(cands, vals.Get(i).Number())
		}
		cands = append(cands, protoreflect.EnumNumber(vals.Len()+1), 99, -1, 1<<31-1)
		v := rapid.SampledFrom(cands).Draw(rt, label+"_enum")
		if v == old {
			return ""
		}
		m.Set(fd, protoreflect.ValueOfEnum(v))
		return fmt.Sprintf("%s: enum %d -> %d", s.path, old, v)
	case protoreflect.BytesKind:
		old := m.Get(fd).Bytes()
		nb, kind := mutateBytes(rt, label, old)
		if bytes.Equal(nb, old) {
			return ""
		}
		m.Set(fd, protoreflect.ValueOfBytes(nb))
		return fmt.Sprintf("%s: bytes %s (%d -> %d bytes)", s.path, kind, len(old), len(nb))
	case protoreflect.StringKind:
		old := m.Get(fd).String()
		v := rapid.SampledFrom([]string{"", "x", "type.googleapis.com/google.crypto.tink.AesGcmKey", "type.googleapis.com/google.crypto.tink.HmacKey", "type.googleapis.com/google.crypto.tink.HkdfPrfKey", "type.googleapis.com/verif.Nothing", strings.Repeat("k", 300)}).Draw(rt, label+"_string")
		if v == old {
			return ""
		}
		m.Set(fd, protoreflect.ValueOfString(v))
		return fmt.Sprintf("%s: string %q -> %q", s.path, old, v)
	case protoreflect.BoolKind:
		old := m.Get(fd).Bool()
		m.Set(fd, protoreflect.ValueOfBool(!old))
		return fmt.Sprintf("%s: bool flipped", s.path)
	case protoreflect.MessageKind:
		if m.Has(fd) {
			if rapid.Bool().Draw(rt, label+"_msgclear") {
				m.Clear(fd)
				return s.path + ": sub-message removed"
			}
			m.Set(fd, protoreflect.ValueOfMessage(m.Get(fd).Message().New()))
			return s.path + ": sub-message emptied"
		}
		m.Set(fd, protoreflect.ValueOfMessage(m.Get(fd).Message().New()))
		return s.path + ": empty sub-message added"
	}
	return ""
}

// opTypedField: change one field of the typed key proto (version, sizes, enums, byte strings,
// sub-messages), at any nesting depth.
func opTypedField(rt *rapid.T, label string) func(m protoreflect.Message) string {
	return func(m protoreflect.Message) string {
		var ss []slot
		slots(m, "", &ss)
		if len(ss) == 0 {
			return ""
		}
		if rapid.IntRange(0, 5).Draw(rt, label+"_prefer_version") == 0 {
			for _, s := range ss {
				if s.fd.Name() == "version" {
					return mutateSlot(rt, label, s)
				}
			}
		}
		return mutateSlot(rt, label, ss[rapid.IntRange(0, len(ss)-1).Draw(rt, label+"_slot")])
	}
}

// ---------------------------------------------------------------------------------------------
// public key material: EC points, mismatching public parts

func nistByCoordLen(n int) (ecdh.Curve, elliptic.Curve, int) {
	switch n {
	case 32, 33:
		return ecdh.P256(), elliptic.P256(), 32
	case 48, 49:
		return ecdh.P384(), elliptic.P384(), 48
	case 66, 67:
		return ecdh.P521(), elliptic.P521(), 66
	}
	return nil, nil, 0
}

// freshPoint returns a fresh valid uncompressed point 0x04||x||y (randomness: crypto/rand, which is
// deterministic under detrand).
func freshPoint(c ecdh.Curve) []byte {
	k, err := c.GenerateKey(rand.Reader)
	if err != nil {
		panic(err)
	}
	return k.PublicKey().Bytes()
}

// publicPart locates the message that carries the public key material: the "public_key"
// sub-message of a private key proto, or m itself.
func publicPart(m protoreflect.Message) (protoreflect.Message, string) {
	if fd := field(m, "public_key"); fd != nil && fd.Kind() == protoreflect.MessageKind {
		if !m.Has(fd) {
			return nil, ""
		}
		return m.Mutable(fd).Message(), ".public_key"
	}
	return m, ""
}

var xyKinds = []string{"zero", "y-offcurve", "x-offcurve", "short", "long", "compressed", "swap", "other-curve", "fresh-valid", "negated", "noncanonical"}
var pointKinds = []string{"zero", "offcurve", "short", "long", "compressed", "hybrid-form", "infinity", "other-curve", "fresh-valid", "negated"}
var x25519Kinds = []string{"zero", "one", "low-order", "short", "long", "fresh-valid", "bitflip"}

// opPoint rewrites the public point of a key proto (ECDSA / JWT ECDSA / ECIES: x, y; HPKE: public_key
// bytes).  Inside a private key proto the result does not match the private scalar any more.
func opPoint(rt *rapid.T, label string, onlyValid bool) func(m protoreflect.Message) string {
	return func(m protoreflect.Message) string {
		pm, path := publicPart(m)
		if pm == nil {
			return ""
		}
		fx, fy := field(pm, "x"), field(pm, "y")
		if fx != nil && fy != nil && fx.Kind() == protoreflect.BytesKind {
			x, y := pm.Get(fx).Bytes(), pm.Get(fy).Bytes()
			ec, el, size := nistByCoordLen(len(x))
			if ec == nil || len(y) == 0 {
				return "" // X25519 ECIES keys (never usable) or already mangled
			}
			kinds := xyKinds
			if onlyValid {
				kinds = []string{"fresh-valid", "negated"}
			}
			kind := rapid.SampledFrom(kinds).Draw(rt, label+"_xy")
			nx, ny := append([]byte{}, x...), append([]byte{}, y...)
			switch kind {
			case "zero":
				nx, ny = make([]byte, len(x)), make([]byte, len(y))
			case "y-offcurve":
				ny[len(ny)-1] ^= 1
			case "x-offcurve":
				nx[len(nx)-1] ^= 1
			case "short":
				nx, ny = nx[:len(nx)-1], ny[:len(ny)-1]
			case "long":
				nx, ny = append([]byte{1}, nx...), append([]byte{1}, ny...)
			case "compressed":
				nx, ny = append([]byte{2 + y[len(y)-1]&1}, x[len(x)-size:]...), []byte{}
			case "swap":
				nx, ny = ny, nx
			case "other-curve":
				other := ecdh.P384()
				osize := 48
				if size == 48 {
					other, osize = ecdh.P256(), 32
				}
				p := freshPoint(other)
				nx, ny = p[1:1+osize], p[1+osize:]
			case "fresh-valid":
				p := freshPoint(ec)
				nx, ny = p[1:1+size], p[1+size:]
			case "negated":
				yy := new(big.Int).Sub(el.Params().P, new(big.Int).SetBytes(y))
				ny = yy.Mod(yy, el.Params().P).FillBytes(make([]byte, size))
			case "noncanonical":
				yy := new(big.Int).Add(el.Params().P, new(big.Int).SetBytes(y))
				ny = yy.Bytes()
			}
			if bytes.Equal(nx, x) && bytes.Equal(ny, y) {
				return ""
			}
			pm.Set(fx, protoreflect.ValueOfBytes(nx))
			pm.Set(fy, protoreflect.ValueOfBytes(ny))
			return fmt.Sprintf("%s point %s", path, kind)
		}
		fp := field(pm, "public_key")
		if fp == nil || fp.Kind() != protoreflect.BytesKind {
			return ""
		}
		p := pm.Get(fp).Bytes()
		var np []byte
		var kind string
		switch {
		case len(p) == 32: // X25519
			kinds := x25519Kinds
			if onlyValid {
				kinds = []string{"fresh-valid"}
			}
			kind = rapid.SampledFrom(kinds).Draw(rt, label+"_x25519")
			np = append([]byte{}, p...)
			switch kind {
			case "zero":
				np = make([]byte, 32)
			case "one":
				np = make([]byte, 32)
				np[0] = 1
			case "low-order":
				np = []byte{0xe0, 0xeb, 0x7a, 0x7c, 0x3b, 0x41, 0xb8, 0xae, 0x16, 0x56, 0xe3, 0xfa, 0xf1, 0x9f, 0xc4, 0x6a, 0xda, 0x09, 0x8d, 0xeb, 0x9c, 0x32, 0xb1, 0xfd, 0x86, 0x62, 0x05, 0x16, 0x5f, 0x49, 0xb8, 0x00}
			case "short":
				np = np[:31]
			case "long":
				np = append(np, 0)
			case "fresh-valid":
				np = freshPoint(ecdh.X25519())
			case "bitflip":
				np[rapid.IntRange(0, 31).Draw(rt, label+"_byte")] ^= 1 << rapid.IntRange(0, 7).Draw(rt, label+"_bit")
			}
		case len(p) == 65 || len(p) == 97 || len(p) == 133:
			size := (len(p) - 1) / 2
			ec, el, _ := nistByCoordLen(size)
			kinds := pointKinds
			if onlyValid {
				kinds = []string{"fresh-valid", "negated"}
			}
			kind = rapid.SampledFrom(kinds).Draw(rt, label+"_point")
			np = append([]byte{}, p...)
			switch kind {
			case "zero":
				np = make([]byte, len(p))
				np[0] = 4
			case "offcurve":
				np[len(np)-1] ^= 1
			case "short":
				np = np[:len(np)-1]
			case "long":
				np = append(np, 0)
			case "compressed":
				np = append([]byte{2 + p[len(p)-1]&1}, p[1:1+size]...)
			case "hybrid-form":
				np[0] = 6 + p[len(p)-1]&1
			case "infinity":
				np = []byte{0}
			case "other-curve":
				if size == 48 {
					np = freshPoint(ecdh.P256())
				} else {
					np = freshPoint(ecdh.P384())
				}
			case "fresh-valid":
				np = freshPoint(ec)
			case "negated":
				yy := new(big.Int).Sub(el.Params().P, new(big.Int).SetBytes(p[1+size:]))
				copy(np[1+size:], yy.Mod(yy, el.Params().P).FillBytes(make([]byte, size)))
			}
		case len(p) == mlkem.EncapsulationKeySize768 || len(p) == mlkem.EncapsulationKeySize1024 || len(p) == mlkem.EncapsulationKeySize768+32:
			kind = "fresh-valid"
			switch len(p) {
			case mlkem.EncapsulationKeySize768:
				dk, _ := mlkem.GenerateKey768()
				np = dk.EncapsulationKey().Bytes()
			case mlkem.EncapsulationKeySize1024:
				dk, _ := mlkem.GenerateKey1024()
				np = dk.EncapsulationKey().Bytes()
			default: // X-Wing: ML-KEM-768 encapsulation key || X25519 public key
				dk, _ := mlkem.GenerateKey768()
				np = append(dk.EncapsulationKey().Bytes(), freshPoint(ecdh.X25519())...)
			}
		default:
			return ""
		}
		if bytes.Equal(np, p) {
			return ""
		}
		pm.Set(fp, protoreflect.ValueOfBytes(np))
		return fmt.Sprintf("%s.public_key bytes %s", path, kind)
	}
}

// opMismatch puts ANOTHER well-formed public key of the same shape into the public part of a
// private key proto, leaving the private part alone.  ECDSA / JWT-ECDSA / ECIES / HPKE: a fresh
// valid point or encapsulation key; Ed25519: a fresh public key; RSA: the modulus n+2 (same bit
// length); ML-DSA / SLH-DSA / JWT-ML-DSA: a public key of the same length with one bit changed
// (every such byte string is a structurally valid public key).
func opMismatch(rt *rapid.T, label string) func(m protoreflect.Message) string {
	return func(m protoreflect.Message) string {
		fd := field(m, "public_key")
		if fd == nil || fd.Kind() != protoreflect.MessageKind || !m.Has(fd) {
			return ""
		}
		pm := m.Mutable(fd).Message()
		name := string(pm.Descriptor().Name())
		if d := opPoint(rt, label, true)(m); d != "" {
			return "mismatch: " + d
		}
		if fn := field(pm, "n"); fn != nil && fn.Kind() == protoreflect.BytesKind {
			n := new(big.Int).SetBytes(pm.Get(fn).Bytes())
			if n.BitLen() < 16 {
				return ""
			}
			n2 := new(big.Int).Add(n, big.NewInt(2))
			if n2.BitLen() != n.BitLen() {
				n2.Sub(n, big.NewInt(2))
			}
			pm.Set(fn, protoreflect.ValueOfBytes(n2.Bytes()))
			return "mismatch: .public_key.n replaced by n+-2"
		}
		if fk := field(pm, "key_value"); fk != nil && fk.Kind() == protoreflect.BytesKind {
			old := pm.Get(fk).Bytes()
			if len(old) == 0 {
				return ""
			}
			var nv []byte
			if fpriv := field(m, "key_value"); name == "SlhDsaPublicKey" && fpriv != nil && fpriv.Kind() == protoreflect.BytesKind &&
				len(m.Get(fpriv).Bytes()) == 2*len(old) && rapid.IntRange(0, 2).Draw(rt, label+"_slh_both") != 0 {
				// The SLH-DSA private key value is SK.seed || SK.prf || PK.seed || PK.root: its tail EMBEDS the
				// public key and the parser only compares the two copies.  The same bit flipped in both gives a
				// keyset that is accepted with a public part that does not belong to the secret part - the case
				// the property excepts from self-consistency (the no-panic and Public() clauses still apply).
				priv := append([]byte{}, m.Get(fpriv).Bytes()...)
				nv = append([]byte{}, old...)
				bit := rapid.IntRange(0, len(old)*8-1).Draw(rt, label+"_pkbit")
				nv[bit/8] ^= 1 << (bit % 8)
				priv[len(priv)-len(old)+bit/8] ^= 1 << (bit % 8)
				pm.Set(fk, protoreflect.ValueOfBytes(nv))
				m.Set(fpriv, protoreflect.ValueOfBytes(priv))
				return "mismatch: the same bit of PK.seed||PK.root flipped in .public_key.key_value and in the tail of the private key_value of SlhDsaPrivateKey"
			}
			if name == "Ed25519PublicKey" && len(old) == ed25519.PublicKeySize {
				pub, _, err := ed25519.GenerateKey(rand.Reader)
				if err != nil {
					panic(err)
				}
				nv = []byte(pub)
			} else {
				nv = append([]byte{}, old...)
				bit := rapid.IntRange(0, len(old)*8-1).Draw(rt, label+"_pkbit")
				nv[bit/8] ^= 1 << (bit % 8)
			}
			if bytes.Equal(nv, old) {
				return ""
			}
			pm.Set(fk, protoreflect.ValueOfBytes(nv))
			return fmt.Sprintf("mismatch: .public_key.key_value of %s replaced by another public key", name)
		}
		return ""
	}
}

// ---------------------------------------------------------------------------------------------
// keyset-level operators

var materialTypes = []tinkpb.KeyData_KeyMaterialType{tinkpb.KeyData_UNKNOWN_KEYMATERIAL, tinkpb.KeyData_SYMMETRIC, tinkpb.KeyData_ASYMMETRIC_PRIVATE, tinkpb.KeyData_ASYMMETRIC_PUBLIC, tinkpb.KeyData_REMOTE, 5, 99}

var badStatus = []tinkpb.KeyStatusType{0, 0, 4, 7, -1, 1<<31 - 1}
var badPrefix = []tinkpb.OutputPrefixType{0, 0, 6, 7, -1, 100, 1<<31 - 1}
var knownPrefixes = []tinkpb.OutputPrefixType{tinkpb.OutputPrefixType_TINK, tinkpb.OutputPrefixType_LEGACY, tinkpb.OutputPrefixType_RAW, tinkpb.OutputPrefixType_CRUNCHY, tinkpb.OutputPrefixType_WITH_ID_REQUIREMENT}

var someURLs = []string{
	"", "type.googleapis.com/", "type.googleapis.com/google.crypto.tink.NoSuchKey", "google.crypto.tink.AesGcmKey",
	urlPrefix + "AesGcmKey", urlPrefix + "AesCtrHmacAeadKey", urlPrefix + "HmacKey", urlPrefix + "HmacPrfKey", urlPrefix + "HkdfPrfKey", urlPrefix + "AesSivKey",
	urlPrefix + "EcdsaPrivateKey", urlPrefix + "EcdsaPublicKey", urlPrefix + "Ed25519PrivateKey", urlPrefix + "Ed25519PublicKey", urlPrefix + "RsaSsaPkcs1PublicKey",
	urlPrefix + "HpkePrivateKey", urlPrefix + "HpkePublicKey", urlPrefix + "EciesAeadHkdfPrivateKey", urlPrefix + "JwtHmacKey", urlPrefix + "JwtEcdsaPrivateKey",
	urlPrefix + "MlDsaPrivateKey", urlPrefix + "SlhDsaPrivateKey", urlPrefix + "CompositeMlDsaPrivateKey", urlPrefix + "PrfBasedDeriverKey",
	urlPrefix + "AesGcmHkdfStreamingKey", urlPrefix + "AesCtrHmacStreamingKey", urlPrefix + "KmsAeadKey", urlPrefix + "KmsEnvelopeAeadKey", urlPrefix + "AesEaxKey",
	urlPrefix + "ChaCha20Poly1305Key", urlPrefix + "XChaCha20Poly1305Key", urlPrefix + "XAesGcmKey", urlPrefix + "AesGcmSivKey", urlPrefix + "AesCmacKey", urlPrefix + "AesCmacPrfKey",
	legacykm.MacURL, legacykm.AeadURL, legacykm.SignerURL, legacykm.VerifierURL, legacykm.HybridPrivURL, legacykm.UnknownMatURL, legacykm.RemoteURL,
}

// structuralOps produce (mostly) the defects the property lists as always rejected; materialOps
// change one key and leave the keyset structure alone.
// ("drop-all-keys" always gives the same empty keyset: it is drawn separately, in about one case in a hundred)
var structuralOps = []string{
	"primary-absent", "primary-disabled", "primary-destroyed", "duplicate-id", "duplicate-primary-id",
	"status-unknown", "prefix-unknown", "nil-entry", "status-known-other", "key-id",
}

var materialOps = []string{
	"typed-field", "typed-field", "typed-field", "typed-field", "typed-field", "typed-field", "ec-point", "ec-point", "ec-point",
	"mismatch-public", "mismatch-public", "mismatch-public", "mismatch-public",
	"value-bytes", "value-bytes", "value-other-type", "type-url", "type-url", "material-type", "material-type", "prefix-known-other", "prefix-known-other", "nil-keydata", "key-id",
}

// pickKey draws the index of the entry to mutate; the primary (which the factories use) is preferred.
func pickKey(rt *rapid.T, label string, ks *tinkpb.Keyset) int {
	if len(ks.Key) == 0 {
		return -1
	}
	if rapid.IntRange(0, 9).Draw(rt, label+"_on_primary") < 7 {
		for i, k := range ks.Key {
			if k != nil && k.KeyId == ks.PrimaryKeyId {
				return i
			}
		}
	}
	return rapid.IntRange(0, len(ks.Key)-1).Draw(rt, label+"_key")
}

// applyOp applies one operator; the returned description is "" when the operator was not applicable.
func applyOp(rt *rapid.T, label, op string, ks *tinkpb.Keyset) string {
	if op == "drop-all-keys" {
		if len(ks.Key) == 0 {
			return ""
		}
		ks.Key = nil
		return op
	}
	i := pickKey(rt, label, ks)
	if i < 0 {
		return ""
	}
	k := ks.Key[i]
	if k == nil {
		return ""
	}
	ids := map[uint32]bool{}
	for _, o := range ks.Key {
		if o != nil {
			ids[o.KeyId] = true
		}
	}
	switch op {
	case "primary-absent":
		ks.PrimaryKeyId = freeID(ids, gen.KeyID(rt, label+"_absent"))
		return fmt.Sprintf("%s: primary_key_id = %d (no such key)", op, ks.PrimaryKeyId)
	case "primary-disabled", "primary-destroyed":
		st := tinkpb.KeyStatusType_DISABLED
		if op == "primary-destroyed" {
			st = tinkpb.KeyStatusType_DESTROYED
		}
		for _, o := range ks.Key { // an entry that already has the status
			if o != nil && o.Status == st && o.KeyId != ks.PrimaryKeyId {
				ks.PrimaryKeyId = o.KeyId
				return fmt.Sprintf("%s: primary_key_id = %d (an entry with status %v)", op, o.KeyId, st)
			}
		}
		for _, o := range ks.Key {
			if o != nil && o.KeyId == ks.PrimaryKeyId {
				o.Status = st
			}
		}
		return fmt.Sprintf("%s: status of the primary entry = %v", op, st)
	case "duplicate-id", "duplicate-primary-id":
		if len(ks.Key) == 1 || rapid.IntRange(0, 3).Draw(rt, label+"_dup_append") == 0 {
			c := proto.Clone(k).(*tinkpb.Keyset_Key)
			if op == "duplicate-primary-id" {
				c.KeyId = ks.PrimaryKeyId
			}
			c.Status = rapid.SampledFrom(knownStatuses).Draw(rt, label+"_dup_status")
			ks.Key = append(ks.Key, c)
			return fmt.Sprintf("%s: entry %d appended again with id %d status %v", op, i, c.KeyId, c.Status)
		}
		j := (i + 1 + rapid.IntRange(0, len(ks.Key)-2).Draw(rt, label+"_dup_other")) % len(ks.Key)
		if ks.Key[j] == nil {
			return ""
		}
		if op == "duplicate-primary-id" {
			for x, o := range ks.Key {
				if o != nil && o.KeyId != ks.PrimaryKeyId {
					o.KeyId = ks.PrimaryKeyId
					return fmt.Sprintf("%s: entry %d gets the primary id %d", op, x, o.KeyId)
				}
			}
			return ""
		}
		if ks.Key[j].KeyId == k.KeyId {
			return ""
		}
		ks.Key[j].KeyId = k.KeyId
		return fmt.Sprintf("%s: entry %d gets the id %d of entry %d", op, j, k.KeyId, i)
	case "status-unknown":
		k.Status = rapid.SampledFrom(badStatus).Draw(rt, label+"_status")
		return fmt.Sprintf("%s: entry %d status = %d", op, i, int32(k.Status))
	case "prefix-unknown":
		k.OutputPrefixType = rapid.SampledFrom(badPrefix).Draw(rt, label+"_prefix")
		return fmt.Sprintf("%s: entry %d output_prefix_type = %d", op, i, int32(k.OutputPrefixType))
	case "prefix-known-other":
		p := rapid.SampledFrom(knownPrefixes).Draw(rt, label+"_prefix")
		if p == k.OutputPrefixType {
			return ""
		}
		k.OutputPrefixType = p
		return fmt.Sprintf("%s: entry %d output_prefix_type = %v", op, i, p)
	case "status-known-other":
		s := rapid.SampledFrom(knownStatuses).Draw(rt, label+"_status")
		if s == k.Status {
			return ""
		}
		k.Status = s
		return fmt.Sprintf("%s: entry %d status = %v", op, i, s)
	case "nil-keydata":
		if k.KeyData == nil {
			return ""
		}
		k.KeyData = nil
		return fmt.Sprintf("%s: entry %d", op, i)
	case "nil-entry":
		ks.Key[i] = nil
		return fmt.Sprintf("%s: entry %d", op, i)
	case "key-id":
		old := k.KeyId
		k.KeyId = freeID(ids, gen.KeyID(rt, label+"_newid"))
		if old == ks.PrimaryKeyId && rapid.Bool().Draw(rt, label+"_follow") {
			ks.PrimaryKeyId = k.KeyId
		}
		return fmt.Sprintf("%s: entry %d id %d -> %d", op, i, old, k.KeyId)
	}
	kd := k.KeyData
	if kd == nil {
		return ""
	}
	switch op {
	case "material-type":
		m := rapid.SampledFrom(materialTypes).Draw(rt, label+"_material")
		if m == kd.KeyMaterialType {
			return ""
		}
		old := kd.KeyMaterialType
		kd.KeyMaterialType = m
		return fmt.Sprintf("%s: entry %d %v -> %d", op, i, old, int32(m))
	case "value-bytes":
		nb, kind := mutateBytes(rt, label+"_value", kd.Value)
		if bytes.Equal(nb, kd.Value) {
			return ""
		}
		old := len(kd.Value)
		kd.Value = nb
		return fmt.Sprintf("%s: entry %d KeyData.value %s (%d -> %d bytes)", op, i, kind, old, len(nb))
	case "value-other-type":
		// the serialized key of another key type behind this type URL
		other := keys.DrawType(rt, label+"_other", rapid.SampledFrom(keys.AllTypes()).Draw(rt, label+"_other_type"))
		if !serializable(other) {
			return ""
		}
		var ok key.Key = other.Key
		if other.Public != nil && rapid.Bool().Draw(rt, label+"_other_public") {
			ok = other.Public
		}
		ser, err := protoserialization.SerializeKey(ok)
		if err != nil {
			rt.Fatalf("harness: SerializeKey: %v", err)
		}
		if bytes.Equal(ser.KeyData().GetValue(), kd.Value) {
			return ""
		}
		kd.Value = append([]byte{}, ser.KeyData().GetValue()...)
		return fmt.Sprintf("%s: entry %d KeyData.value = serialized %s", op, i, shortType(ser.KeyData().GetTypeUrl()))
	case "type-url":
		u := rapid.SampledFrom(someURLs).Draw(rt, label+"_url")
		if u == kd.TypeUrl {
			return ""
		}
		old := kd.TypeUrl
		kd.TypeUrl = u
		return fmt.Sprintf("%s: entry %d %q -> %q", op, i, old, u)
	case "typed-field", "ec-point", "mismatch-public":
		// try the drawn entry first, then the others (an EC point / an embedded public key is not
		// present in every key type)
		for off := 0; off < len(ks.Key); off++ {
			j := (i + off) % len(ks.Key)
			if ks.Key[j] == nil || ks.Key[j].KeyData == nil {
				continue
			}
			kd := ks.Key[j].KeyData
			lbl := fmt.Sprintf("%s_e%d", label, off)
			var f func(m protoreflect.Message) string
			switch op {
			case "typed-field":
				f = opTypedField(rt, lbl+"_tf")
			case "ec-point":
				f = opPoint(rt, lbl+"_p", false)
			default:
				f = opMismatch(rt, lbl+"_m")
			}
			nv, d := deep(rt, lbl, kd.TypeUrl, kd.Value, false, f)
			if d == "" {
				continue
			}
			kd.Value = nv
			return fmt.Sprintf("%s: entry %d (%s) %s", op, j, shortType(kd.TypeUrl), d)
		}
		return ""
	}
	rt.Fatalf("harness: unknown operator %q", op)
	return ""
}

// fallbackOps are always applicable to a keyset with at least one non-nil entry with key data.
var fallbackOps = map[bool][]string{
	false: {"typed-field", "value-bytes", "type-url"},
	true:  {"status-unknown", "prefix-unknown", "primary-absent", "drop-all-keys"},
}

// ---------------------------------------------------------------------------------------------

// slowSLH reports whether a keyset holds an ENABLED SLH-DSA private key with a small-signature
// ("s") parameter set, for which one Sign takes about a second.
func hasSLH(ks *tinkpb.Keyset) bool {
	for _, k := range ks.GetKey() {
		if k != nil && strings.Contains(k.GetKeyData().GetTypeUrl(), "SlhDsaPrivateKey") {
			return true
		}
	}
	return false
}

func fingerprint(ks *tinkpb.Keyset) []byte {
	if hasNilEntry(ks) {
		return []byte(ksText(ks))
	}
	b, err := detMarshal.Marshal(ks)
	if err != nil {
		return []byte(ksText(ks))
	}
	return b
}

func TestStructuredMutation(t *testing.T) {
	rapid.Check(t, func(rt *rapid.T) {
		detrand.Seed(rapid.Uint64().Draw(rt, "entropy"))
		b := drawBase(rt)
		in := inputs{msg: gen.Bytes(rt, "msg", 40), aad: gen.Bytes(rt, "aad", 20), pick: uint64(gen.Uniform(rt, "exercised_reader", 1<<16))}
		ad := gen.BytesOrNil(rt, "keyset_ad", 16)
		ks := cloneKeyset(b.ks)
		nops := rapid.SampledFrom([]int{1, 1, 1, 2, 2, 3}).Draw(rt, "nops")
		var applied, kinds []string
		// two cases in ten mutate the keyset structure, one both, the others one or more keys
		mode := rapid.IntRange(0, 9).Draw(rt, "mode")
		for i := 0; i < nops; i++ {
			label := fmt.Sprintf("op%d", i)
			structural := mode < 2 || (mode == 2 && i == 0)
			ops := materialOps
			if structural {
				ops = structuralOps
			}
			op := gen.Pick(rt, label, ops) // equal weights: which operator
			if structural && gen.OneIn(rt, label+"_drop_all", 30) {
				op = "drop-all-keys"
			}
			d := applyOp(rt, label, op, ks)
			if d == "" { // not applicable to this keyset: take the first applicable general operator
				for _, fop := range fallbackOps[structural] {
					if d = applyOp(rt, label+"_fb", fop, ks); d != "" {
						op = fop
						break
					}
				}
			}
			if d != "" {
				applied = append(applied, d)
				kinds = append(kinds, op)
			}
		}
		// SLH-DSA signing takes up to seconds: sign only in one case out of four
		in.lite = hasSLH(ks) && rapid.IntRange(0, 3).Draw(rt, "slh_sign") != 0
		extra := rapid.SampledFrom(allFactories).Draw(rt, "extra_factory")
		e := &env{f: rt, ksText: func() string { return ksText(ks) }}
		e.what = fmt.Sprintf("class %s; base keys: %s; mutations: %s; msg=%x aad=%x keyset_ad=%x", b.class, strings.Join(b.desc, " | "), strings.Join(applied, "; "), in.msg, in.aad, ad)
		nontrivial := len(applied) > 0 && !(len(ks.Key) == len(b.ks.Key) && !hasNilEntry(ks) && proto.Equal(ks, b.ks))
		outcome, info := e.decide(ks, ad, in, extra)
		// the unmutated keyset is the control: the generator must produce keysets the readers accept
		if rapid.IntRange(0, 7).Draw(rt, "control") == 0 {
			ce := &env{f: rt, ksText: func() string { return ksText(b.ks) }, what: "CONTROL (unmutated base keyset) " + strings.Join(b.desc, " | ")}
			cin := in
			cin.lite = hasSLH(b.ks)
			co, _ := ce.decide(b.ks, ad, cin)
			evid.Add("control_"+co, 1)
			if strings.HasPrefix(co, "rejected-at-read") {
				// the generator builds keysets from key objects the constructors and the serializer accepted
				ce.failf("harness: every reader rejects the UNMUTATED base keyset (%s): the generator does not produce valid keysets", co)
			}
		}
		ptype := "-"
		if info != nil {
			ptype = primaryType(info)
		} else if len(b.ks.Key) > 0 {
			for _, k := range b.ks.Key {
				if k.KeyId == b.ks.PrimaryKeyId {
					ptype = shortType(k.KeyData.TypeUrl)
				}
			}
		}
		kind := "none"
		if len(kinds) > 0 {
			kind = kinds[len(kinds)-1]
		}
		if tr := os.Getenv("C14_TRACE"); tr != "" && strings.Contains(strings.Join(kinds, ","), tr) && strings.HasPrefix(outcome, "accepted") {
			fmt.Printf("TRACE %s: %s\n%s\n", outcome, e.what, ksText(ks))
		}
		if strings.HasPrefix(outcome, "accepted") && len(applied) == 1 && strings.Contains(applied[0], ".version:") {
			// not a violation of the property text (it does not demand that other versions are refused);
			// recorded so that the evidence shows whether any parser let a changed version field through
			evid.Add("accepted_after_version_field_change", 1)
		}
		evid.Add("outcome_"+outcome, 1)
		for _, k := range kinds {
			evid.Add("op_"+k, 1)
		}
		evid.Case(fmt.Sprintf("%s/%s/%s", kind, ptype, outcome), nontrivial, evid.NewH().B(fingerprint(ks)).B(ad).B(in.msg).Sum(), func() any {
			return map[string]any{"class": string(b.class), "base": b.desc, "mutations": applied, "outcome": outcome, "keyset": ksText(ks)}
		})
	})
}

// asymmetricTypes: the key types whose private key proto embeds the public key.
var asymmetricTypes = []string{"Ecdsa", "Ed25519", "RsaSsaPkcs1", "RsaSsaPss", "MlDsa", "SlhDsa", "CompositeMlDsa", "Hpke", "EciesAeadHkdf", "JwtEcdsa", "JwtRsaSsaPkcs1", "JwtRsaSsaPss", "JwtMlDsa"}

// TestPublicPartMismatch is TestStructuredMutation restricted to one operator family: the primary
// is a private key of one of the asymmetric types and its embedded public part is replaced by
// another well-formed public key (or its point is rewritten).  The oracle is the general one: the
// keyset is rejected, or the primitives of the handle are self-consistent (what the private half
// signs verifies under Public(); what Public() encrypts decrypts) - SLH-DSA excepted.
func TestPublicPartMismatch(t *testing.T) {
	rapid.Check(t, func(rt *rapid.T) {
		detrand.Seed(rapid.Uint64().Draw(rt, "entropy"))
		typ := rapid.SampledFrom(asymmetricTypes).Draw(rt, "type")
		info := keys.DrawTypeUsable(rt, "k", typ)
		if !serializable(info) {
			info = keys.DrawTypeUsable(rt, "k_alt", "RsaSsaPkcs1")
		}
		id := info.ID
		if !info.HasID {
			id = gen.KeyID(rt, "raw_id")
		}
		ks := &tinkpb.Keyset{PrimaryKeyId: id, Key: []*tinkpb.Keyset_Key{entryOf(rt, info.Key, id, tinkpb.KeyStatusType_ENABLED)}}
		desc := []string{info.Desc}
		if rapid.IntRange(0, 3).Draw(rt, "second_key") == 0 { // a healthy non-primary key of the same type
			other := keys.DrawTypeUsable(rt, "k2", info.Type)
			oid := freeID(map[uint32]bool{id: true}, other.ID)
			if !other.HasID {
				oid = freeID(map[uint32]bool{id: true}, gen.KeyID(rt, "raw_id2"))
			} else if oid != other.ID {
				if sib, ok := other.WithVariantID(other.Variant, oid); ok {
					other = sib
				}
			}
			if serializable(other) {
				ks.Key = append(ks.Key, entryOf(rt, other.Key, oid, rapid.SampledFrom(knownStatuses).Draw(rt, "k2_status")))
				desc = append(desc, other.Desc)
			}
		}
		base := cloneKeyset(ks)
		op := rapid.SampledFrom([]string{"mismatch-public", "mismatch-public", "ec-point"}).Draw(rt, "op")
		kd := ks.Key[0].KeyData
		var f func(m protoreflect.Message) string
		if op == "ec-point" {
			f = opPoint(rt, "p", false)
		} else {
			f = opMismatch(rt, "m")
		}
		nv, d := deep(rt, "deep", kd.TypeUrl, kd.Value, false, f)
		if d == "" && op == "ec-point" { // no EC point in this type
			op = "mismatch-public"
			nv, d = deep(rt, "deep2", kd.TypeUrl, kd.Value, false, opMismatch(rt, "m2"))
		}
		if d == "" {
			rt.Fatalf("harness: operator %s not applicable to %s", op, info.Desc)
		}
		kd.Value = nv
		in := inputs{msg: gen.Bytes(rt, "msg", 40), aad: gen.Bytes(rt, "aad", 20), pick: uint64(gen.Uniform(rt, "exercised_reader", 1<<16))}
		in.lite = hasSLH(ks) && rapid.IntRange(0, 3).Draw(rt, "slh_sign") != 0
		ad := gen.BytesOrNil(rt, "keyset_ad", 16)
		e := &env{f: rt, ksText: func() string { return ksText(ks) }}
		e.what = fmt.Sprintf("base keys: %s; mutation: %s (%s) %s; msg=%x aad=%x keyset_ad=%x", strings.Join(desc, " | "), op, shortType(kd.TypeUrl), d, in.msg, in.aad, ad)
		outcome, _ := e.decide(ks, ad, in)
		evid.Add("outcome_"+outcome, 1)
		evid.Add("op_"+op, 1)
		kindOf := d
		if i := strings.LastIndex(d, " "); i >= 0 {
			kindOf = d[i+1:]
		}
		evid.Case(fmt.Sprintf("%s/%s/%s/%s", op, info.Type, kindOf, outcome), !proto.Equal(base, ks), evid.NewH().B(fingerprint(ks)).B(ad).B(in.msg).Sum(), func() any {
			return map[string]any{"base": desc, "mutation": d, "outcome": outcome, "keyset": ksText(ks)}
		})
	})
}

// sameMaterial reports whether two secrets may be the same key: equal after trimming trailing
// zero bytes (HMAC zero-pads short keys).
func sameMaterial(a, b []byte) bool {
	trim := func(x []byte) []byte {
		for len(x) > 0 && x[len(x)-1] == 0 {
			x = x[:len(x)-1]
		}
		return x
	}
	return bytes.Equal(trim(a), trim(b))
}
