package c14

// The weak key as an ENABLED NON-PRIMARY member of an otherwise healthy keyset (symmetric kinds of
// TestWeakKeys).  A keyset primitive accepts with every enabled key, so a weak key that is refused
// as a primary could still do work on the accepting side.  The keyset {healthy primary, weak key}
// goes through every reader; if a handle comes back and the class factory returns a primitive, an
// output made UNDER THE WEAK KEY by the harness references (internal/ref/sym: HMAC, AES-CMAC, AES-GCM,
// AES-CTR-HMAC, AES-SIV; a hand-made JWT) with the weak entry's own framing must be rejected - "never
// yield a usable primitive".  Outputs that the healthy key alone accepts as well (shrunk cases:
// an all-zero short HMAC key is the zero-padded healthy key) are skipped.  PRF kinds have no accepting
// side: the PRF set must not offer a working PRF under the weak key's ID.

import (
	"bytes"
	"encoding/base64"
	"encoding/binary"
	"fmt"

	"google.golang.org/protobuf/reflect/protoreflect"
	"pgregory.net/rapid"

	"github.com/tink-crypto/tink-go/v2/aead"
	"github.com/tink-crypto/tink-go/v2/daead"
	"github.com/tink-crypto/tink-go/v2/insecurecleartextkeyset"
	"github.com/tink-crypto/tink-go/v2/jwt"
	"github.com/tink-crypto/tink-go/v2/keyset"
	"github.com/tink-crypto/tink-go/v2/mac"
	"github.com/tink-crypto/tink-go/v2/prf"
	tinkpb "github.com/tink-crypto/tink-go/v2/proto/tink_go_proto"
	"github.com/tink-crypto/tink-go/v2/verifharness/internal/evid"
	"github.com/tink-crypto/tink-go/v2/verifharness/internal/gen"
	"github.com/tink-crypto/tink-go/v2/verifharness/internal/keys"
	"github.com/tink-crypto/tink-go/v2/verifharness/internal/ref/sym"
)

type weakRef struct {
	healthy     *tinkpb.Keyset_Key
	healthyDesc string
	weakFirst   bool
	// out makes an output under the weak key; nil when the references cannot make one (no AES with
	// such a key length, no accepting side)
	out func(in inputs) []byte
	// control makes an output under the HEALTHY key with the same reference construction
	control func(in inputs) []byte
}

func entryPrefix(ent *tinkpb.Keyset_Key) []byte {
	switch ent.OutputPrefixType {
	case tinkpb.OutputPrefixType_TINK:
		return binary.BigEndian.AppendUint32([]byte{1}, ent.KeyId)
	case tinkpb.OutputPrefixType_LEGACY, tinkpb.OutputPrefixType_CRUNCHY:
		return binary.BigEndian.AppendUint32([]byte{0}, ent.KeyId)
	}
	return nil
}

func aesLen(n int) bool { return n == 16 || n == 24 || n == 32 }

// refOutput returns a function that makes an output under the key described by (info, ent, m) with
// the harness references, framed as the keyset entry ent frames it; nil when none can be made.  handled
// is false for kinds without a second stage.
func refOutput(kind string, info *keys.Info, ent *tinkpb.Keyset_Key, m protoreflect.Message) (out func(in inputs) []byte, handled bool) {
	prefix := entryPrefix(ent)
	macData := func(msg []byte) []byte { // MAC keys of prefix type LEGACY authenticate msg || 0x00
		if ent.OutputPrefixType == tinkpb.OutputPrefixType_LEGACY {
			return append(bytes.Clone(msg), 0)
		}
		return msg
	}
	fixedIV := func(n int) []byte { return bytes.Repeat([]byte{0xa5}, n) }
	switch kind {
	case "hmac-key", "hmac-tag":
		h, key, ts := sym.HashByName(getEnumName(m, "params.hash")), getBytes(m, "key_value"), int(getUint32(m, "params.tag_size"))
		if h == nil || ts > h().Size() {
			return nil, true
		}
		out = func(in inputs) []byte { return append(bytes.Clone(prefix), sym.HMAC(h, key, macData(in.msg))[:ts]...) }
	case "aescmac-size":
		key, ts := getBytes(m, "key_value"), int(getUint32(m, "params.tag_size"))
		if aesLen(len(key)) && ts <= 16 {
			out = func(in inputs) []byte { return append(bytes.Clone(prefix), sym.CMAC(key, macData(in.msg))[:ts]...) }
		}
	case "aesgcm-size":
		if key := getBytes(m, "key_value"); aesLen(len(key)) {
			out = func(in inputs) []byte {
				iv := fixedIV(12)
				return append(append(bytes.Clone(prefix), iv...), sym.GCMSeal(key, iv, in.msg, in.aad)...)
			}
		}
	case "aesctrhmac-aes-size", "aesctrhmac-hmac-key", "aesctrhmac-hmac-tag":
		aesKey, macKey := getBytes(m, "aes_ctr_key.key_value"), getBytes(m, "hmac_key.key_value")
		ivSize, ts := int(getUint32(m, "aes_ctr_key.params.iv_size")), int(getUint32(m, "hmac_key.params.tag_size"))
		h := sym.HashByName(getEnumName(m, "hmac_key.params.hash"))
		if h != nil && aesLen(len(aesKey)) && ivSize >= 12 && ivSize <= 16 && ts <= h().Size() {
			out = func(in inputs) []byte {
				return append(bytes.Clone(prefix), sym.EtMSeal(h, aesKey, macKey, fixedIV(ivSize), in.msg, in.aad, ts)...)
			}
		}
	case "aessiv-size":
		if key := getBytes(m, "key_value"); len(key)%2 == 0 && aesLen(len(key)/2) {
			out = func(in inputs) []byte { return append(bytes.Clone(prefix), sym.SIVSeal(key, in.msg, in.aad)...) }
		}
	case "jwthmac-key":
		alg, key := getEnumName(m, "algorithm"), getBytes(m, "key_value")
		h := sym.HashByName(map[string]string{"HS256": "SHA256", "HS384": "SHA384", "HS512": "SHA512"}[alg])
		header := `{"alg":"` + alg + `"`
		if has, _ := info.Fields["has_kid"].(bool); has {
			kid, _ := info.Fields["kid"].(string)
			for _, c := range kid {
				if c == '"' || c == '\\' || c < 0x20 {
					h = nil // no hand-made header for such a kid
				}
			}
			header += `,"kid":"` + kid + `"`
		}
		if h != nil {
			enc := base64.RawURLEncoding
			unsigned := enc.EncodeToString([]byte(header+"}")) + "." + enc.EncodeToString([]byte(`{"iss":"c14"}`))
			out = func(inputs) []byte {
				return []byte(unsigned + "." + enc.EncodeToString(sym.HMAC(h, key, []byte(unsigned))))
			}
		}
	case "hmacprf-key", "hkdfprf-key", "aescmacprf-size", "aesgcmsiv-size", "xaesgcm-size":
		// no reference output (PRF sets are checked by key ID; no reference for the other two)
	default:
		return nil, false
	}
	return out, true
}

// drawWeakRef builds the second stage for the symmetric kinds; nil for the others.
func drawWeakRef(rt *rapid.T, w *weak, info *keys.Info, ent *tinkpb.Keyset_Key, m protoreflect.Message) *weakRef {
	out, handled := refOutput(w.kind, info, ent, m)
	if !handled {
		return nil
	}
	r := &weakRef{out: out}
	// the healthy primary: a usable key of the same type under another ID
	hi := keys.DrawTypeUsable(rt, "healthy", info.Type)
	id := hi.ID
	if !hi.HasID {
		id = freeID(map[uint32]bool{ent.KeyId: true}, gen.KeyID(rt, "healthy_raw_id"))
	} else if id == ent.KeyId {
		sib, ok := hi.WithVariantID(hi.Variant, id+1)
		if !ok {
			rt.Fatalf("harness: cannot rebuild %s under another ID", hi.Desc)
		}
		hi, id = sib, id+1
	}
	if !serializable(hi) {
		return nil
	}
	hent, hm := serialized(rt, hi.Key)
	hent.KeyId = id
	r.healthy, r.healthyDesc = hent, hi.Desc
	// control: the same reference construction under the HEALTHY key must be accepted (a reference that
	// is wrong would make "the primitive rejects the reference output" vacuous)
	r.control, _ = refOutput(w.kind, hi, hent, hm)
	r.weakFirst = rapid.Bool().Draw(rt, "weak_entry_first")
	return r
}

// acceptWith applies the accepting operation of a factory group to a candidate output.  created is
// false when the factory refused the handle.
func (e *env) acceptWith(group string, h *keyset.Handle, out []byte, in inputs) (created bool, err error) {
	switch group {
	case fMAC:
		e.guard("mac.New + VerifyMAC(reference output)", func() {
			p, ferr := mac.New(h)
			if ferr != nil {
				return
			}
			created, err = true, p.VerifyMAC(out, in.msg)
		})
	case fAEAD:
		e.guard("aead.New + Decrypt(reference output)", func() {
			p, ferr := aead.New(h)
			if ferr != nil {
				return
			}
			created = true
			var pt []byte
			if pt, err = p.Decrypt(out, in.aad); err == nil && !bytes.Equal(pt, in.msg) {
				err = fmt.Errorf("decrypts to %x", pt)
			}
		})
	case fDAEAD:
		e.guard("daead.New + DecryptDeterministically(reference output)", func() {
			p, ferr := daead.New(h)
			if ferr != nil {
				return
			}
			created = true
			var pt []byte
			if pt, err = p.DecryptDeterministically(out, in.aad); err == nil && !bytes.Equal(pt, in.msg) {
				err = fmt.Errorf("decrypts to %x", pt)
			}
		})
	case fJWTMAC:
		e.guard("jwt.NewMAC + VerifyMACAndDecode(reference token)", func() {
			iss := "c14"
			val, verr := jwt.NewValidator(&jwt.ValidatorOpts{ExpectedIssuer: &iss, AllowMissingExpiration: true, FixedNow: fixedNow})
			if verr != nil {
				err = verr
				return
			}
			p, ferr := jwt.NewMAC(h)
			if ferr != nil {
				return
			}
			created = true
			_, err = p.VerifyMACAndDecode(string(out), val)
		})
	default:
		e.failf("harness: no accepting operation for factory group %q", group)
	}
	return created, err
}

// checkWeakSecond runs the second stage; it returns the outcome class.
func (e *env) checkWeakSecond(w *weak, in inputs, ad []byte) string {
	r := w.ref
	weakEnt := w.ks.Key[0]
	ks2 := &tinkpb.Keyset{PrimaryKeyId: r.healthy.KeyId, Key: []*tinkpb.Keyset_Key{r.healthy, weakEnt}}
	if r.weakFirst {
		ks2.Key = []*tinkpb.Keyset_Key{weakEnt, r.healthy}
	}
	sub := *e
	sub.ksText = func() string { return ksText(ks2) }
	sub.what = fmt.Sprintf("TWO-KEY keyset: healthy primary {%s} + ENABLED non-primary %s", r.healthyDesc, e.what)
	if d := structuralDefect(ks2); d != "" {
		sub.failf("harness: two-key weak keyset has a structural defect: %s", d)
	}
	if r.control != nil {
		var alone *keyset.Handle
		var aerr error
		sub.guard("reading the healthy key alone", func() {
			alone, aerr = insecurecleartextkeyset.Read(&keyset.MemReaderWriter{Keyset: &tinkpb.Keyset{PrimaryKeyId: r.healthy.KeyId, Key: []*tinkpb.Keyset_Key{r.healthy}}})
		})
		if aerr != nil {
			sub.failf("harness: the healthy key alone is rejected: %v", aerr)
		}
		co := r.control(in)
		if created, err := sub.acceptWith(w.group, alone, co, in); !created || err != nil {
			sub.failf("harness self-check: the reference-made output %x under the HEALTHY key {%s} is not accepted by that key's own primitive (created=%v, err=%v): the reference construction is wrong", co, r.healthyDesc, created, err)
		}
		evid.Add("weak_reference_construction_controls", 1)
	}
	acc, rejects := sub.readAll(ks2, ad)
	evid.Add("reader_calls", int64(len(acc)+rejects))
	evid.Add("reader_accepts", int64(len(acc)))
	if len(acc) == 0 {
		return "rejected-at-read"
	}
	var info *tinkpb.KeysetInfo
	for i, a := range acc {
		s2 := sub
		s2.what = sub.what + " / reader " + a.reader
		if ki := s2.checkHandle(a.h); i == 0 {
			info = ki
		}
	}
	chosen := int(in.pick % uint64(len(acc)))
	h := acc[chosen].h
	sub.what += " / reader " + acc[chosen].reader
	res := sub.runFactory(w.group, h, info, in) // general oracle: the healthy primary produces, the handle accepts
	if res.outcome == oInconsistent {
		sub.failf("factory group %q returned a primitive that is not self-consistent: %s", w.group, res.detail)
	}
	if res.outcome == oFactoryErr {
		return "rejected-at-factory"
	}
	if !w.asserted {
		return "primitive(not-asserted)"
	}
	if w.group == fPRF {
		var usable bool
		var got []byte
		sub.guard("prf.NewPRFSet + PRFs[weak id].ComputePRF", func() {
			set, err := prf.NewPRFSet(h)
			if err != nil {
				return
			}
			if p, ok := set.PRFs[weakEnt.KeyId]; ok {
				if o, err := p.ComputePRF(in.msg, 16); err == nil {
					usable, got = true, o
				}
			}
		})
		if usable {
			sub.failf("WEAK KEY USABLE: %s: the PRF set of the two-key keyset computes under the weak key's ID %#x: %x", w.desc, weakEnt.KeyId, got)
		}
		return "primitive-without-weak-prf"
	}
	if r.out == nil {
		return "primitive(no-reference-output)"
	}
	out := r.out(in)
	created, err := sub.acceptWith(w.group, h, out, in)
	if !created {
		return "rejected-at-factory"
	}
	evid.Add("weak_reference_outputs_checked", 1)
	if err != nil {
		return "primitive-rejects-reference-output"
	}
	// accepted: a violation unless the healthy key alone accepts the same output
	var alone *keyset.Handle
	var aerr error
	sub.guard("reading the healthy key alone", func() {
		alone, aerr = insecurecleartextkeyset.Read(&keyset.MemReaderWriter{Keyset: &tinkpb.Keyset{PrimaryKeyId: r.healthy.KeyId, Key: []*tinkpb.Keyset_Key{r.healthy}}})
	})
	if aerr != nil {
		sub.failf("harness: the healthy key alone is rejected: %v", aerr)
	}
	if c2, err2 := sub.acceptWith(w.group, alone, out, in); c2 && err2 == nil {
		evid.Add("weak_reference_output_also_valid_under_healthy_key", 1)
		return "reference-output-coincides"
	}
	sub.failf("WEAK KEY USABLE: %s: as an ENABLED non-primary key of a keyset with a healthy primary it makes the %s primitive accept the reference-made output %x (msg %x, aad %x), which the healthy key alone rejects", w.desc, w.group, out, in.msg, in.aad)
	return ""
}
