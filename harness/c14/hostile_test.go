package c14

import (
	"bytes"
	"context"
	"fmt"
	"testing"

	"google.golang.org/protobuf/encoding/protojson"
	"google.golang.org/protobuf/proto"

	"github.com/tink-crypto/tink-go/v2/insecurecleartextkeyset"
	"github.com/tink-crypto/tink-go/v2/keyset"
	tinkpb "github.com/tink-crypto/tink-go/v2/proto/tink_go_proto"
	"github.com/tink-crypto/tink-go/v2/verifharness/internal/detrand"
	"github.com/tink-crypto/tink-go/v2/verifharness/internal/evid"
	"github.com/tink-crypto/tink-go/v2/verifharness/internal/tk"
)

// TestFixedHostileInputs (plain unit, both tiers): the fixed byte strings and JSON texts that seed
// the native fuzz targets - empty input, "{", truncated and over-long varints, length prefixes of
// 2^32-1 and 2^63-1, deep nesting, group tags, absurd field values - plus every seed keyset whole and
// cut in half, through EVERY reader: cleartext and no-secrets (binary, JSON), the three encrypted
// APIs (Read, ReadWithAssociatedData, ReadWithContext) with the input taken as the serialized
// EncryptedKeyset and with the input encrypted under the harness KEK here.  Oracle as everywhere in
// C14: a panic is a failure; an input the protobuf library parses into a keyset with a structural
// defect must be rejected; a returned handle is well formed and its primitives are self-consistent.
// The fuzz targets run in the thorough tier only; this unit puts their starting points into the quick tier.
func TestFixedHostileInputs(t *testing.T) {
	type in struct {
		name string
		data []byte
	}
	var ins []in
	for i, b := range hostileBinary() {
		ins = append(ins, in{fmt.Sprintf("hostile-binary-%d", i), b})
	}
	for i, b := range [][]byte{
		[]byte("{"), {0x08}, {0x08, 0x80}, {0x12}, {0x12, 0x80}, {0x0a, 0xff, 0xff, 0xff, 0xff, 0x0f}, {0xff, 0xff, 0xff, 0xff, 0x0f},
		{0x12, 0x06, 0x0a, 0x04, 0x0a, 0x02, 0x78, 0x78}, // key { key_data { type_url: "xx" } }: everything else unset
	} {
		ins = append(ins, in{fmt.Sprintf("hostile-extra-%d", i), b})
	}
	for i, s := range hostileJSON() {
		ins = append(ins, in{fmt.Sprintf("hostile-json-%d", i), []byte(s)})
	}
	for _, s := range seedKeysets() {
		b, j := mustMarshal(s.ks), jsonOf(s.ks)
		ins = append(ins, in{"seed-binary/" + s.name, b}, in{"seed-binary-half/" + s.name, b[:len(b)/2]}, in{"seed-json/" + s.name, j}, in{"seed-json-half/" + s.name, j[:len(j)/2]})
	}
	shard, nshards := int(evid.EnvInt("VERIF_SHARD", 0)), int(evid.EnvInt("VERIF_NSHARDS", 1))
	kek := newKEK()
	ctx, ckek := context.Background(), tk.CtxAEAD(kek)
	ad := []byte("hostile ad")
	accepted, calls := 0, 0
	for n, c := range ins {
		if n%nshards != shard {
			continue
		}
		data := c.data
		detrand.Seed(seedOf(data))
		var fromBinary, fromJSON *tinkpb.Keyset
		if ks := (&tinkpb.Keyset{}); proto.Unmarshal(data, ks) == nil {
			fromBinary = ks
		}
		if ks := (&tinkpb.Keyset{}); (protojson.UnmarshalOptions{}).Unmarshal(data, ks) == nil {
			fromJSON = ks
		}
		first := true
		run := func(reader string, parsed *tinkpb.Keyset, fn func() (*keyset.Handle, error)) {
			e := &env{f: t, what: fmt.Sprintf("fixed input %q (%x), reader %s", c.name, data, reader), ksText: func() string { return ksText(parsed) }}
			var h *keyset.Handle
			var err error
			e.guard(reader, func() { h, err = fn() })
			calls++
			if err != nil {
				return
			}
			accepted++
			if first { // exercise one accepted handle per input, check the others for well-formedness only
				first = false
				fuzzDecide(t, reader, parsed, h, err, data)
				return
			}
			fuzzCheckOnly(t, reader, parsed, h, err, data)
		}
		bin := func() keyset.Reader { return keyset.NewBinaryReader(bytes.NewReader(data)) }
		jsn := func() keyset.Reader { return keyset.NewJSONReader(bytes.NewReader(data)) }
		run("cleartext-binary", fromBinary, func() (*keyset.Handle, error) { return insecurecleartextkeyset.Read(bin()) })
		run("nosecrets-binary", fromBinary, func() (*keyset.Handle, error) { return keyset.ReadWithNoSecrets(bin()) })
		run("cleartext-json", fromJSON, func() (*keyset.Handle, error) { return insecurecleartextkeyset.Read(jsn()) })
		run("nosecrets-json", fromJSON, func() (*keyset.Handle, error) { return keyset.ReadWithNoSecrets(jsn()) })
		if fromBinary != nil {
			run("nosecrets-proto", fromBinary, func() (*keyset.Handle, error) { return keyset.NewHandleWithNoSecrets(cloneKeyset(fromBinary)) })
			run("cleartext-mem", fromBinary, func() (*keyset.Handle, error) {
				return insecurecleartextkeyset.Read(&keyset.MemReaderWriter{Keyset: cloneKeyset(fromBinary)})
			})
		}
		// the input as the serialized EncryptedKeyset (no parsed keyset to compare with: a handle can only
		// come out if the input carries a valid ciphertext under the harness KEK)
		for _, r := range []struct {
			name string
			mk   func() keyset.Reader
		}{{"binary", bin}, {"json", jsn}} {
			run("encrypted-raw-"+r.name+"/Read", nil, func() (*keyset.Handle, error) { return keyset.Read(r.mk(), kek) })
			run("encrypted-raw-"+r.name+"/ReadWithAssociatedData", nil, func() (*keyset.Handle, error) { return keyset.ReadWithAssociatedData(r.mk(), kek, ad) })
			run("encrypted-raw-"+r.name+"/ReadWithContext", nil, func() (*keyset.Handle, error) { return keyset.ReadWithContext(ctx, r.mk(), ckek, ad) })
			run("encrypted-raw-"+r.name+"/Read(nil KEK)", nil, func() (*keyset.Handle, error) { return keyset.Read(r.mk(), nil) })
			run("encrypted-raw-"+r.name+"/ReadWithContext(nil KEK)", nil, func() (*keyset.Handle, error) { return keyset.ReadWithContext(ctx, r.mk(), nil, ad) })
		}
		// the input as the cleartext keyset, encrypted here
		for _, a := range [][]byte{nil, ad} {
			ct, err := kek.Encrypt(data, a)
			if err != nil {
				t.Fatalf("harness: KEK encryption failed: %v", err)
			}
			enc := &tinkpb.EncryptedKeyset{EncryptedKeyset: ct}
			encBin := mustMarshal(enc)
			var encJSON bytes.Buffer
			if err := keyset.NewJSONWriter(&encJSON).WriteEncrypted(enc); err != nil {
				t.Fatalf("harness: JSONWriter.WriteEncrypted: %v", err)
			}
			for _, r := range []struct {
				name string
				mk   func() keyset.Reader
			}{
				{"binary", func() keyset.Reader { return keyset.NewBinaryReader(bytes.NewReader(encBin)) }},
				{"json", func() keyset.Reader { return keyset.NewJSONReader(bytes.NewReader(encJSON.Bytes())) }},
				{"mem", func() keyset.Reader {
					return &keyset.MemReaderWriter{EncryptedKeyset: proto.Clone(enc).(*tinkpb.EncryptedKeyset)}
				}},
			} {
				if a == nil {
					run("encrypted-"+r.name+"/Read", fromBinary, func() (*keyset.Handle, error) { return keyset.Read(r.mk(), kek) })
				}
				run("encrypted-"+r.name+"/ReadWithAssociatedData", fromBinary, func() (*keyset.Handle, error) { return keyset.ReadWithAssociatedData(r.mk(), kek, a) })
				run("encrypted-"+r.name+"/ReadWithContext", fromBinary, func() (*keyset.Handle, error) { return keyset.ReadWithContext(ctx, r.mk(), ckek, a) })
			}
		}
		cls := "fixed/rejected-by-all"
		if !first {
			cls = "fixed/accepted"
		}
		evid.Case(cls, true, seedOf(append([]byte(c.name), data...)), func() any { return map[string]any{"name": c.name, "input": fmt.Sprintf("%x", data)} })
	}
	e := &env{f: t, what: "degenerate reader calls", ksText: func() string { return "<none>" }}
	genuine := &tinkpb.EncryptedKeyset{EncryptedKeyset: tk.Must(kek.Encrypt(mustMarshal(seedKeysets()[0].ks), ad))}
	var encJSON bytes.Buffer
	if err := keyset.NewJSONWriter(&encJSON).WriteEncrypted(genuine); err != nil {
		t.Fatal(err)
	}
	e.degenerateCalls(mustMarshal(genuine), encJSON.Bytes(), genuine, ad)
	evid.Add("fixed_inputs_reader_calls", int64(calls))
	evid.Add("fixed_inputs_accepted_handles", int64(accepted))
	if shard == 0 && accepted == 0 {
		t.Fatalf("harness self-check: no reader accepted any of the whole seed keysets")
	}
}
