// crypto/rsa refuses keys under 1024 bits unless told otherwise; the reference signatures of the
// 512- and 768-bit weak keys are made with it (the setting concerns the standard library only: the
// minimum the property speaks of, 2048 bits, is the library-under-test's own check).

//go:debug rsa1024min=0

package c14

import (
	"crypto"
	"crypto/ecdsa"
	"crypto/elliptic"
	"crypto/rand"
	"crypto/rsa"
	"crypto/sha1"
	"crypto/sha256"
	"crypto/sha512"
	"encoding/asn1"
	"encoding/base64"
	"fmt"
	"math/big"
	"strings"
	"sync"
	"testing"

	"google.golang.org/protobuf/proto"
	"google.golang.org/protobuf/reflect/protoreflect"
	"pgregory.net/rapid"

	"github.com/tink-crypto/tink-go/v2/jwt"
	"github.com/tink-crypto/tink-go/v2/key"
	"github.com/tink-crypto/tink-go/v2/keyset"
	tinkpb "github.com/tink-crypto/tink-go/v2/proto/tink_go_proto"
	"github.com/tink-crypto/tink-go/v2/signature"
	"github.com/tink-crypto/tink-go/v2/tink"
	"github.com/tink-crypto/tink-go/v2/verifharness/internal/detrand"
	"github.com/tink-crypto/tink-go/v2/verifharness/internal/evid"
	"github.com/tink-crypto/tink-go/v2/verifharness/internal/gen"
	"github.com/tink-crypto/tink-go/v2/verifharness/internal/keys"
	"github.com/tink-crypto/tink-go/v2/verifharness/internal/tk"
)

// TestWeakKeys: keysets whose primary key is below a minimum strength.  Such keys cannot be built
// through the key constructors, so a valid key of the type is serialized and the weak fields are
// rewritten in its proto.
//
// ASSERTED ("never yield a usable primitive": every factory fails, or the primitive it returns fails
// in its producing operation; for public keys: the verifier is not created or rejects a genuine
// signature made with the weak key by the standard library) are exactly the classes of the
// property text:
//
//	(a) HMAC key under 16 bytes or tag under 10:  HmacKey; the HMAC part of AesCtrHmacAeadKey; HmacPrfKey
//	    and JwtHmacKey with a key under 16 bytes; the HMAC tag of AesCtrHmacStreamingKey.
//	(b) AES keys other than 16 or 32 bytes: AesGcmKey, AesGcmSivKey, the AES-CTR part of
//	    AesCtrHmacAeadKey, AesCmacKey, AesCmacPrfKey, XAesGcmKey with a key size not in {16, 32};
//	    AesSivKey whose halves are not 16 or 32 bytes (total not in {32, 64}); streaming keys with a
//	    derived (AES) key size not in {16, 32}.
//	(c) RSA modulus under 2048 bits or exponent other than 65537: RsaSsaPkcs1, RsaSsaPss,
//	    JwtRsaSsaPkcs1, JwtRsaSsaPss, public and private keys.
//	(d) ECDSA hash weaker than its curve: (P-384, SHA-256), (P-521, SHA-256), (P-521, SHA-384), public
//	    and private keys.
//	(e) HKDF-PRF key under 32 bytes: HkdfPrfKey, alone and as the PRF of a PrfBasedDeriverKey.
//
// Public keys of (c) and (d) that still give a verifier must refuse a genuine signature made with the
// weak private key by the standard library (every kind has a reference signer: SHA-1 / SHA-224 ECDSA,
// RSA down to 512 bits - the test binary runs with GODEBUG rsa1024min=0 for that); one case in sixteen
// of them is a HEALTHY control whose verifier must accept the reference signature.
//
// Second stage for the symmetric kinds (weak2_test.go): the same weak key as an ENABLED NON-PRIMARY
// member of a keyset with a healthy primary, and an output made under the weak key by the harness
// references: the keyset is rejected, the factory fails, or the primitive rejects that output.
//
// NOT asserted (general oracle only: reject, or self-consistent primitive; a working primitive is
// counted under observed_not_asserted/unasserted_weak_key_gives_primitive): (a) and (b) one level down -
// a KmsEnvelopeAeadKey whose DEK template asks for an AES key other than 16 or 32 bytes, an HMAC key
// under 16 bytes or an HMAC tag under 10 bytes (a template is a recipe for keys, not a key) - and sizes
// the library also refuses but the property does not list: 16-byte AES-CMAC / AES-CMAC-PRF / XAES / (2 x 16) AES-SIV
// keys, HMAC tags longer than the digest, AES-CMAC tags under 10, JWT HS256/384/512 keys between 16
// bytes and the digest size, streaming main keys shorter than the derived key.
func TestWeakKeys(t *testing.T) {
	weakPoolOnce.Do(buildWeakPool)
	rapid.Check(t, func(rt *rapid.T) {
		detrand.Seed(rapid.Uint64().Draw(rt, "entropy"))
		w := drawWeak(rt)
		in := inputs{msg: gen.Bytes(rt, "msg", 40), aad: gen.Bytes(rt, "aad", 20), pick: uint64(gen.Uniform(rt, "exercised_reader", 1<<16))}
		ad := gen.BytesOrNil(rt, "keyset_ad", 16)
		e := &env{f: rt, ksText: func() string { return ksText(w.ks) }}
		e.what = fmt.Sprintf("weak key %s (asserted=%v) built from %s; msg=%x aad=%x", w.desc, w.asserted, w.from, in.msg, in.aad)
		if w.control {
			e.checkHealthyControl(w, in, ad)
			evid.Case(w.kind+"/healthy-control", true, evid.NewH().B(fingerprint(w.ks)).B(in.msg).Sum(), func() any {
				return map[string]any{"control": w.desc, "from": w.from, "keyset": ksText(w.ks)}
			})
			return
		}
		if d := structuralDefect(w.ks); d != "" {
			rt.Fatalf("harness: weak keyset has a structural defect: %s", d)
		}
		acc, rejects := e.readAll(w.ks, ad)
		evid.Add("reader_calls", int64(len(acc)+rejects))
		evid.Add("reader_accepts", int64(len(acc)))
		outcome := "rejected-at-read"
		if len(acc) > 0 {
			chosen, infos := e.checkAccepted(acc, in)
			first := infos[chosen]
			sub := *e
			sub.what = e.what + " / reader " + acc[chosen].reader
			h := acc[chosen].h
			evid.Add("exercised_reader/"+acc[chosen].reader, 1)
			groups := []string{w.group}
			if x := rapid.SampledFrom(allFactories).Draw(rt, "extra_factory"); x != w.group {
				groups = append(groups, x)
			}
			rs := map[string]result{}
			for _, g := range groups {
				r := sub.runFactory(g, h, first, in)
				rs[g] = r
				evid.Add("factory_"+g+"_"+r.outcome, 1)
				if r.outcome == oInconsistent {
					sub.failf("factory group %q returned a primitive that is not self-consistent: %s", g, r.detail)
				}
				if !w.asserted {
					if r.outcome != oFactoryErr && r.outcome != oUseErr {
						evid.Add("observed_not_asserted/unasserted_weak_key_gives_primitive/"+w.kind, 1)
					}
					continue
				}
				switch r.outcome {
				case oFactoryErr, oUseErr:
				case oPublicOnly:
					// a public-key primitive exists: it must not accept a genuine signature of the weak key
					if g != w.group {
						break // the extra (wrong-class) factory group
					}
					if w.refSig == nil {
						sub.failf("harness: a weak public key of kind %s gave a verifier and the harness has no reference signer for it", w.kind)
					}
					sub.checkWeakVerifier(g, h, w, in)
				default:
					sub.failf("WEAK KEY USABLE: %s: factory group %q returned a primitive that performed its operation (%s %s)", w.desc, g, r.outcome, r.detail)
				}
			}
			outcome = best(rs)
		}
		evid.Add("outcome_"+outcome, 1)
		if w.ref != nil {
			second := e.checkWeakSecond(w, in, ad)
			evid.Add("two_key_outcome_"+second, 1)
			evid.Add("two_key/"+w.kind+"/"+second, 1)
		}
		evid.Case(fmt.Sprintf("%s/%s", w.kind, outcome), true, evid.NewH().B(fingerprint(w.ks)).B(in.msg).Sum(), func() any {
			return map[string]any{"weak": w.desc, "from": w.from, "asserted": w.asserted, "outcome": outcome, "keyset": ksText(w.ks)}
		})
	})
}

// checkWeakVerifier: the public keyset of a weak key produced a verifier; a genuine signature made
// with the weak private key by the standard library must not verify.
func (e *env) checkWeakVerifier(group string, h *keyset.Handle, w *weak, in inputs) {
	switch group {
	case fSignature:
		sig := w.refSig(in.msg)
		if sig == nil {
			evid.Add("weak_reference_signature_unavailable", 1)
			return
		}
		var v tink.Verifier
		var err, verr error
		e.guard("signature.NewVerifier(weak public keyset)", func() {
			if v, err = signature.NewVerifier(h); err == nil {
				verr = v.Verify(sig, in.msg)
			}
		})
		evid.Add("weak_reference_signatures_checked", 1)
		if err == nil && verr == nil {
			e.failf("WEAK KEY USABLE: %s: the verifier of the public keyset accepts the genuine signature %x of message %x", w.desc, sig, in.msg)
		}
	case fJWTSig:
		tok := string(w.refSig(nil))
		if tok == "" {
			evid.Add("weak_reference_signature_unavailable", 1)
			return
		}
		iss := "c14"
		var err, verr error
		e.guard("jwt.NewVerifier(weak public keyset)", func() {
			var v jwt.Verifier
			var val *jwt.Validator
			if val, err = jwt.NewValidator(&jwt.ValidatorOpts{ExpectedIssuer: &iss, AllowMissingExpiration: true, FixedNow: fixedNow}); err != nil {
				return
			}
			if v, err = jwt.NewVerifier(h); err == nil {
				_, verr = v.VerifyAndDecode(tok, val)
			}
		})
		evid.Add("weak_reference_signatures_checked", 1)
		if err == nil && verr == nil {
			e.failf("WEAK KEY USABLE: %s: the JWT verifier of the public keyset accepts the genuine token %q", w.desc, tok)
		}
	}
}

// ---------------------------------------------------------------------------------------------
// weak RSA keys (generated once per process, before any case, from a fixed seed)

type rsaMaterial struct {
	bits int
	key  *rsa.PrivateKey
}

var (
	weakPoolOnce sync.Once
	weakRSA      []rsaMaterial
)

func buildWeakPool() {
	detrand.Seed(0xC14C14C14)
	for _, bits := range []int{1024, 1536, 2040, 2047} {
		k, err := rsa.GenerateKey(rand.Reader, bits)
		if err != nil {
			panic(fmt.Sprintf("harness: rsa.GenerateKey(%d): %v", bits, err))
		}
		if k.N.BitLen() != bits {
			panic(fmt.Sprintf("harness: rsa.GenerateKey(%d) gave %d bits", bits, k.N.BitLen()))
		}
		weakRSA = append(weakRSA, rsaMaterial{bits, k})
	}
	// below Go's own minimum: built from two primes by hand (crypto/rsa refuses to use such keys, so
	// there is no reference signature for them)
	for _, bits := range []int{512, 768} {
		for {
			p, err1 := rand.Prime(rand.Reader, bits/2)
			q, err2 := rand.Prime(rand.Reader, bits-bits/2)
			if err1 != nil || err2 != nil {
				panic("harness: rand.Prime failed")
			}
			if k := rsaFromPrimes(p, q, 65537); k != nil && k.N.BitLen() == bits {
				weakRSA = append(weakRSA, rsaMaterial{bits, k})
				break
			}
		}
	}
}

// rsaFromPrimes builds the key with exponent e, or nil when e is not invertible.
// checkHealthyControl: the keyset holds the UNCHANGED public key; every reader accepts it, the verifier
// is created and accepts the reference signature.  A failure here is a defect of the harness's
// reference signer or framing (or a C03 matter), reported as a harness error.
func (e *env) checkHealthyControl(w *weak, in inputs, ad []byte) {
	acc, _ := e.readAll(w.ks, ad)
	if len(acc) == 0 {
		e.failf("harness: every reader rejects the healthy control keyset")
	}
	h := acc[int(in.pick%uint64(len(acc)))].h
	switch w.group {
	case fSignature:
		sig := w.refSig(in.msg)
		if sig == nil {
			e.failf("harness: no reference signature for the healthy control")
		}
		v, err := signature.NewVerifier(h)
		if err != nil {
			e.failf("harness: signature.NewVerifier on the healthy control: %v", err)
		}
		if err := v.Verify(sig, in.msg); err != nil {
			e.failf("harness: the healthy key's verifier rejects the reference signature %x of %x: %v", sig, in.msg, err)
		}
	case fJWTSig:
		tok := string(w.refSig(nil))
		if tok == "" {
			evid.Add("healthy_control_no_token", 1) // a kid the harness does not put into a header
			return
		}
		iss := "c14"
		val, err := jwt.NewValidator(&jwt.ValidatorOpts{ExpectedIssuer: &iss, AllowMissingExpiration: true, FixedNow: fixedNow})
		if err != nil {
			e.failf("harness: NewValidator: %v", err)
		}
		v, err := jwt.NewVerifier(h)
		if err != nil {
			e.failf("harness: jwt.NewVerifier on the healthy control: %v", err)
		}
		if _, err := v.VerifyAndDecode(tok, val); err != nil {
			e.failf("harness: the healthy key's JWT verifier rejects the reference token %q: %v", tok, err)
		}
	}
	evid.Add("healthy_control_accepted/"+w.kind, 1)
}

func rsaFromPrimes(p, q *big.Int, e int) *rsa.PrivateKey {
	one := big.NewInt(1)
	p1, q1 := new(big.Int).Sub(p, one), new(big.Int).Sub(q, one)
	phi := new(big.Int).Mul(p1, q1)
	d := new(big.Int).ModInverse(big.NewInt(int64(e)), phi)
	if d == nil || p.Cmp(q) == 0 {
		return nil
	}
	k := &rsa.PrivateKey{PublicKey: rsa.PublicKey{N: new(big.Int).Mul(p, q), E: e}, D: d, Primes: []*big.Int{p, q}}
	k.Precomputed.Dp = new(big.Int).Mod(d, p1)
	k.Precomputed.Dq = new(big.Int).Mod(d, q1)
	k.Precomputed.Qinv = new(big.Int).ModInverse(q, p)
	return k
}

// ---------------------------------------------------------------------------------------------
// proto rewriting by field path

func walkPath(m protoreflect.Message, path string) (protoreflect.Message, protoreflect.FieldDescriptor) {
	parts := strings.Split(path, ".")
	for _, p := range parts[:len(parts)-1] {
		fd := field(m, p)
		if fd == nil {
			panic("harness: no field " + p + " in " + string(m.Descriptor().FullName()))
		}
		m = m.Mutable(fd).Message()
	}
	fd := field(m, parts[len(parts)-1])
	if fd == nil {
		panic("harness: no field " + path + " in " + string(m.Descriptor().FullName()))
	}
	return m, fd
}

func setBytes(m protoreflect.Message, path string, v []byte) {
	mm, fd := walkPath(m, path)
	mm.Set(fd, protoreflect.ValueOfBytes(v))
}
func getBytes(m protoreflect.Message, path string) []byte {
	mm, fd := walkPath(m, path)
	return mm.Get(fd).Bytes()
}
func setUint32(m protoreflect.Message, path string, v uint32) {
	mm, fd := walkPath(m, path)
	mm.Set(fd, protoreflect.ValueOfUint32(v))
}
func getUint32(m protoreflect.Message, path string) uint32 {
	mm, fd := walkPath(m, path)
	return uint32(mm.Get(fd).Uint())
}
func setEnumByName(m protoreflect.Message, path, name string) {
	mm, fd := walkPath(m, path)
	v := fd.Enum().Values().ByName(protoreflect.Name(name))
	if v == nil {
		panic("harness: no enum value " + name)
	}
	mm.Set(fd, protoreflect.ValueOfEnum(v.Number()))
}
func getEnumName(m protoreflect.Message, path string) string {
	mm, fd := walkPath(m, path)
	v := fd.Enum().Values().ByNumber(mm.Get(fd).Enum())
	if v == nil {
		return "?"
	}
	return string(v.Name())
}

// ---------------------------------------------------------------------------------------------

type weak struct {
	kind     string // class for the evidence histogram
	desc     string
	from     string // the valid key the proto was derived from
	group    string // factory group of the key type
	asserted bool
	// control: one case in sixteen of the public-key kinds leaves the key HEALTHY; the verifier must then
	// be created and accept the reference signature (it shows that the reference signer and the framing
	// are right, so that a rejection in the weak cases means something)
	control bool
	ks      *tinkpb.Keyset
	// refSig returns a genuine signature (or, for JWT, compact token) made with the weak private key
	// by the standard library, in the format the public keyset's verifier expects; nil when none can
	// be made.
	refSig func(msg []byte) []byte
	// ref: second stage for the symmetric kinds (weak2_test.go): the weak key as an ENABLED
	// non-primary member next to a healthy primary, plus a reference-made output under the weak key
	ref *weakRef
}

var weakKinds = []string{
	"hmac-key", "hmac-tag", "hmac-tag-long", "aesgcm-size", "aesgcmsiv-size", "aesctrhmac-aes-size", "aesctrhmac-hmac-key", "aesctrhmac-hmac-tag",
	"aescmac-size", "aescmac-tag", "aescmacprf-size", "aessiv-size", "xaesgcm-size",
	"rsa-modulus", "rsa-modulus", "rsa-modulus", "rsa-exponent", "rsa-exponent", "ecdsa-hash", "ecdsa-hash",
	"hkdfprf-key", "hkdfprf-key-in-deriver", "hmacprf-key", "jwthmac-key", "streaming-derived-size", "streaming-main-key", "streaming-hmac-tag",
	"envelope-dek-aes-size", "envelope-dek-hmac-key", "envelope-dek-hmac-tag",
}

var weakAESSizes = []int{0, 1, 8, 15, 16, 17, 24, 31, 32, 33, 48, 64, 128}

func pickFrom(rt *rapid.T, label string, all []int, exclude ...int) int {
	var c []int
outer:
	for _, v := range all {
		for _, x := range exclude {
			if v == x {
				continue outer
			}
		}
		c = append(c, v)
	}
	return rapid.SampledFrom(c).Draw(rt, label)
}

// serialized returns the keyset entry of a key object plus its parsed typed proto.
func serialized(rt *rapid.T, k key.Key) (*tinkpb.Keyset_Key, protoreflect.Message) {
	ent := entryOf(rt, k, 0, tinkpb.KeyStatusType_ENABLED)
	m := newMessageFor(ent.KeyData.TypeUrl)
	if m == nil {
		rt.Fatalf("harness: no proto message for %s", ent.KeyData.TypeUrl)
	}
	if err := proto.Unmarshal(ent.KeyData.Value, m.Interface()); err != nil {
		rt.Fatalf("harness: cannot parse own serialization: %v", err)
	}
	return ent, m
}

func remarshal(rt *rapid.T, ent *tinkpb.Keyset_Key, m protoreflect.Message) {
	b, err := detMarshal.Marshal(m.Interface())
	if err != nil {
		rt.Fatalf("harness: marshal: %v", err)
	}
	ent.KeyData.Value = b
}

func drawWeak(rt *rapid.T) *weak {
	w := &weak{kind: rapid.SampledFrom(weakKinds).Draw(rt, "weak_kind"), asserted: true}
	usePublic := false
	var info *keys.Info
	var ent *tinkpb.Keyset_Key
	var m protoreflect.Message
	start := func(typ string) {
		info = keys.DrawTypeUsable(rt, "k", typ)
		if !serializable(info) { // RSA-SSA-PSS with salt length 0
			info = keys.DrawTypeUsable(rt, "k_alt", "RsaSsaPkcs1")
		}
		w.from = info.Desc
		k := info.Key
		if usePublic {
			k = info.Public
		}
		ent, m = serialized(rt, k)
	}
	short := func(label string, below int) []byte {
		return gen.BytesN(rt, label, rapid.IntRange(0, below-1).Draw(rt, label+"_len"))
	}
	switch w.kind {
	case "envelope-dek-aes-size", "envelope-dek-hmac-key", "envelope-dek-hmac-tag":
		drawWeakEnvelope(rt, w) // envelope_test.go; builds w.ks itself
		return w
	case "hmac-key":
		w.group = fMAC
		start("Hmac")
		kv := short("weak_key", 16)
		setBytes(m, "key_value", kv)
		w.desc = fmt.Sprintf("HmacKey key_value of %d bytes", len(kv))
	case "hmac-tag":
		w.group = fMAC
		start("Hmac")
		ts := uint32(rapid.IntRange(0, 9).Draw(rt, "weak_tag"))
		setUint32(m, "params.tag_size", ts)
		w.desc = fmt.Sprintf("HmacKey tag_size %d", ts)
	case "hmac-tag-long":
		w.group, w.asserted = fMAC, false
		start("Hmac")
		digest := map[string]int{"SHA1": 20, "SHA224": 28, "SHA256": 32, "SHA384": 48, "SHA512": 64}[getEnumName(m, "params.hash")]
		ts := uint32(digest + rapid.IntRange(1, 70).Draw(rt, "weak_tag_over"))
		setUint32(m, "params.tag_size", ts)
		w.desc = fmt.Sprintf("HmacKey tag_size %d above the digest size (not asserted)", ts)
	case "aesgcm-size", "aesgcmsiv-size", "aescmac-size", "aescmacprf-size", "xaesgcm-size":
		typ := map[string]string{"aesgcm-size": "AesGcm", "aesgcmsiv-size": "AesGcmSiv", "aescmac-size": "AesCmac", "aescmacprf-size": "AesCmacPrf", "xaesgcm-size": "XAesGcm"}[w.kind]
		w.group = map[string]string{"AesGcm": fAEAD, "AesGcmSiv": fAEAD, "AesCmac": fMAC, "AesCmacPrf": fPRF, "XAesGcm": fAEAD}[typ]
		start(typ)
		valid := []int{16, 32}
		if typ == "AesCmac" || typ == "AesCmacPrf" || typ == "XAesGcm" {
			valid = []int{32}
		}
		n := pickFrom(rt, "weak_size", weakAESSizes, valid...)
		w.asserted = n != 16 && n != 32
		setBytes(m, "key_value", gen.BytesN(rt, "weak_key", n))
		w.desc = fmt.Sprintf("%sKey key_value of %d bytes", typ, n)
	case "aescmac-tag":
		w.group, w.asserted = fMAC, false
		start("AesCmac")
		ts := uint32(rapid.IntRange(0, 9).Draw(rt, "weak_tag"))
		setUint32(m, "params.tag_size", ts)
		w.desc = fmt.Sprintf("AesCmacKey tag_size %d (not asserted)", ts)
	case "aesctrhmac-aes-size":
		w.group = fAEAD
		start("AesCtrHmacAead")
		n := pickFrom(rt, "weak_size", weakAESSizes, 16, 32)
		setBytes(m, "aes_ctr_key.key_value", gen.BytesN(rt, "weak_key", n))
		w.desc = fmt.Sprintf("AesCtrHmacAeadKey AES key of %d bytes", n)
	case "aesctrhmac-hmac-key":
		w.group = fAEAD
		start("AesCtrHmacAead")
		kv := short("weak_key", 16)
		setBytes(m, "hmac_key.key_value", kv)
		w.desc = fmt.Sprintf("AesCtrHmacAeadKey HMAC key of %d bytes", len(kv))
	case "aesctrhmac-hmac-tag":
		w.group = fAEAD
		start("AesCtrHmacAead")
		ts := uint32(rapid.IntRange(0, 9).Draw(rt, "weak_tag"))
		setUint32(m, "hmac_key.params.tag_size", ts)
		w.desc = fmt.Sprintf("AesCtrHmacAeadKey HMAC tag_size %d", ts)
	case "aessiv-size":
		w.group = fDAEAD
		start("AesSiv")
		n := pickFrom(rt, "weak_size", []int{0, 1, 16, 24, 31, 32, 33, 48, 63, 65, 96, 128}, 64)
		w.asserted = n != 32
		setBytes(m, "key_value", gen.BytesN(rt, "weak_key", n))
		w.desc = fmt.Sprintf("AesSivKey key_value of %d bytes", n)
	case "hkdfprf-key":
		w.group = fPRF
		start("HkdfPrf")
		kv := short("weak_key", 32)
		setBytes(m, "key_value", kv)
		w.desc = fmt.Sprintf("HkdfPrfKey key_value of %d bytes", len(kv))
	case "hkdfprf-key-in-deriver":
		w.group = fDeriver
		start("PrfBasedDeriver")
		prfKey := m.Mutable(field(m, "prf_key")).Message()
		url := prfKey.Get(field(prfKey, "type_url")).String()
		if !strings.HasSuffix(url, "HkdfPrfKey") {
			rt.Fatalf("harness: usable deriver with PRF %s", url)
		}
		var n int
		inner, d := transform(url, prfKey.Get(field(prfKey, "value")).Bytes(), false, func(im protoreflect.Message) string {
			kv := short("weak_key", 32)
			n = len(kv)
			setBytes(im, "key_value", kv)
			return "short"
		})
		if d == "" {
			rt.Fatalf("harness: cannot rewrite the PRF key of the deriver")
		}
		prfKey.Set(field(prfKey, "value"), protoreflect.ValueOfBytes(inner))
		w.desc = fmt.Sprintf("PrfBasedDeriverKey whose HkdfPrfKey has a key_value of %d bytes", n)
	case "hmacprf-key":
		w.group = fPRF
		start("HmacPrf")
		kv := short("weak_key", 16)
		setBytes(m, "key_value", kv)
		w.desc = fmt.Sprintf("HmacPrfKey key_value of %d bytes", len(kv))
	case "jwthmac-key":
		w.group = fJWTMAC
		start("JwtHmac")
		min := map[string]int{"HS256": 32, "HS384": 48, "HS512": 64}[getEnumName(m, "algorithm")]
		if min == 0 {
			rt.Fatalf("harness: JwtHmac algorithm %s", getEnumName(m, "algorithm"))
		}
		kv := short("weak_key", min)
		w.asserted = len(kv) < 16
		setBytes(m, "key_value", kv)
		w.desc = fmt.Sprintf("JwtHmacKey %s key_value of %d bytes", getEnumName(m, "algorithm"), len(kv))
	case "streaming-derived-size":
		w.group = fStreaming
		start(rapid.SampledFrom([]string{"AesGcmHkdfStreaming", "AesCtrHmacStreaming"}).Draw(rt, "weak_type"))
		n := pickFrom(rt, "weak_size", weakAESSizes, 16, 32)
		setUint32(m, "params.derived_key_size", uint32(n))
		if rapid.Bool().Draw(rt, "weak_main_long") { // keep main key >= derived key
			setBytes(m, "key_value", gen.BytesN(rt, "weak_key", 128))
		}
		w.desc = fmt.Sprintf("%s derived_key_size %d", shortType(ent.KeyData.TypeUrl), n)
	case "streaming-main-key":
		w.group, w.asserted = fStreaming, false
		start(rapid.SampledFrom([]string{"AesGcmHkdfStreaming", "AesCtrHmacStreaming"}).Draw(rt, "weak_type"))
		kv := short("weak_key", int(getUint32(m, "params.derived_key_size")))
		setBytes(m, "key_value", kv)
		w.desc = fmt.Sprintf("%s key_value of %d bytes (not asserted)", shortType(ent.KeyData.TypeUrl), len(kv))
	case "streaming-hmac-tag":
		w.group = fStreaming
		start("AesCtrHmacStreaming")
		ts := uint32(rapid.IntRange(0, 9).Draw(rt, "weak_tag"))
		setUint32(m, "params.hmac_params.tag_size", ts)
		w.desc = fmt.Sprintf("AesCtrHmacStreamingKey HMAC tag_size %d", ts)
	case "ecdsa-hash":
		w.group = fSignature
		usePublic = rapid.Bool().Draw(rt, "weak_public")
		start("Ecdsa")
		pp := "public_key.params."
		if usePublic {
			pp = "params."
		}
		curve := getEnumName(m, pp+"curve")
		var hash string
		switch curve {
		case "NIST_P256":
			// weaker than P-256: the SHA1 and SHA224 values of the HashType enum
			hash = rapid.SampledFrom([]string{"SHA1", "SHA224"}).Draw(rt, "weak_hash")
		case "NIST_P384":
			hash = rapid.SampledFrom([]string{"SHA256", "SHA224", "SHA1"}).Draw(rt, "weak_hash")
		case "NIST_P521":
			hash = rapid.SampledFrom([]string{"SHA256", "SHA384", "SHA224", "SHA1"}).Draw(rt, "weak_hash")
		default:
			rt.Fatalf("harness: curve %s", curve)
		}
		if usePublic && gen.OneIn(rt, "healthy_control", 16) {
			w.control, w.asserted = true, false
			hash = getEnumName(m, pp+"hash_type")
			w.desc = fmt.Sprintf("HEALTHY CONTROL Ecdsa %s with %s (public)", curve, hash)
		} else {
			setEnumByName(m, pp+"hash_type", hash)
			w.desc = fmt.Sprintf("Ecdsa %s with %s (public=%v)", curve, hash, usePublic)
		}
		if usePublic {
			w.refSig = ecdsaRef(info, hash, getEnumName(m, "params.encoding"))
		}
	case "rsa-modulus", "rsa-exponent":
		typ := rapid.SampledFrom([]string{"RsaSsaPkcs1", "RsaSsaPss", "JwtRsaSsaPkcs1", "JwtRsaSsaPss"}).Draw(rt, "weak_type")
		w.group = fSignature
		if strings.HasPrefix(typ, "Jwt") {
			w.group = fJWTSig
		}
		usePublic = rapid.Bool().Draw(rt, "weak_public")
		start(typ)
		typ = info.Type // (the PSS salt 0 fallback)
		pub := m
		if !usePublic {
			pub = m.Mutable(field(m, "public_key")).Message()
		}
		var rk *rsa.PrivateKey
		var wideE []byte
		if usePublic && gen.OneIn(rt, "healthy_control", 16) {
			w.control, w.asserted = true, false
			rk = rsaFromPrimes(new(big.Int).SetBytes(info.Fields["p"].([]byte)), new(big.Int).SetBytes(info.Fields["q"].([]byte)), 65537)
			if rk == nil || rk.N.Cmp(new(big.Int).SetBytes(info.Fields["n"].([]byte))) != 0 {
				rt.Fatalf("harness: cannot rebuild the RSA key of %s", info.Desc)
			}
			w.desc = fmt.Sprintf("HEALTHY CONTROL %s modulus of %d bits, exponent 65537 (public)", typ, rk.N.BitLen())
		} else if w.kind == "rsa-modulus" {
			mat := weakRSA[rapid.IntRange(0, len(weakRSA)-1).Draw(rt, "weak_rsa")]
			rk = mat.key
			w.desc = fmt.Sprintf("%s modulus of %d bits (public=%v)", typ, mat.bits, usePublic)
		} else if gen.OneIn(rt, "wide_exponent", 3) {
			// an exponent that does not fit in 64 bits and whose low 64 bits are 65537: k*2^64 + 65537.
			// It is "an exponent other than 65537"; a parser that converts with big.Int.Int64() without
			// a range check sees 65537 (found by a seed worker while reading the RSA parsers: F20)
			p, q := new(big.Int).SetBytes(info.Fields["p"].([]byte)), new(big.Int).SetBytes(info.Fields["q"].([]byte))
			rk = rsaFromPrimes(p, q, 65537)
			if rk == nil {
				rt.Fatalf("harness: cannot rebuild the RSA key of %s", info.Desc)
			}
			k := rapid.IntRange(1, 255).Draw(rt, "wide_exponent_high_byte")
			wideE = append([]byte{byte(k)}, 0, 0, 0, 0, 0, 1, 0, 1)
			w.desc = fmt.Sprintf("%s exponent %d*2^64+65537 (encoded %x; public=%v)", typ, k, wideE, usePublic)
		} else {
			// the primes of the valid key with another exponent
			p, q := new(big.Int).SetBytes(info.Fields["p"].([]byte)), new(big.Int).SetBytes(info.Fields["q"].([]byte))
			for _, e := range rotate([]int{3, 5, 17, 257, 65539, 65541, 1<<31 - 1}, rapid.IntRange(0, 6).Draw(rt, "weak_e")) {
				if rk = rsaFromPrimes(p, q, e); rk != nil {
					break
				}
			}
			if rk == nil {
				rt.Fatalf("harness: no exponent invertible for %s", info.Desc)
			}
			w.desc = fmt.Sprintf("%s exponent %d (public=%v)", typ, rk.E, usePublic)
		}
		setBytes(pub, "n", rk.N.Bytes())
		setBytes(pub, "e", big.NewInt(int64(rk.E)).Bytes())
		if wideE != nil {
			setBytes(pub, "e", wideE)
		}
		if !usePublic {
			setBytes(m, "d", rk.D.Bytes())
			setBytes(m, "p", rk.Primes[0].Bytes())
			setBytes(m, "q", rk.Primes[1].Bytes())
			setBytes(m, "dp", rk.Precomputed.Dp.Bytes())
			setBytes(m, "dq", rk.Precomputed.Dq.Bytes())
			setBytes(m, "crt", rk.Precomputed.Qinv.Bytes())
		} else {
			w.refSig = rsaRef(info, rk)
		}
	default:
		rt.Fatalf("harness: unknown weak kind %s", w.kind)
	}
	remarshal(rt, ent, m)
	// the entry keeps the prefix type of the key it came from; the ID is its ID requirement (or drawn)
	ent.KeyId = info.ID
	if !info.HasID {
		ent.KeyId = gen.KeyID(rt, "raw_id")
	}
	w.ks = &tinkpb.Keyset{PrimaryKeyId: ent.KeyId, Key: []*tinkpb.Keyset_Key{ent}}
	if !usePublic {
		w.ref = drawWeakRef(rt, w, info, ent, m)
	}
	return w
}

func rotate(v []int, n int) []int { return append(append([]int{}, v[n%len(v):]...), v[:n%len(v)]...) }

// ---------------------------------------------------------------------------------------------
// reference signatures with the standard library

func hashFor(name string) (crypto.Hash, func([]byte) []byte) {
	switch name {
	case "SHA1":
		return crypto.SHA1, func(b []byte) []byte { s := sha1.Sum(b); return s[:] }
	case "SHA224":
		return crypto.SHA224, func(b []byte) []byte { s := sha256.Sum224(b); return s[:] }
	case "SHA256":
		return crypto.SHA256, func(b []byte) []byte { s := sha256.Sum256(b); return s[:] }
	case "SHA384":
		return crypto.SHA384, func(b []byte) []byte { s := sha512.Sum384(b); return s[:] }
	case "SHA512":
		return crypto.SHA512, func(b []byte) []byte { s := sha512.Sum512(b); return s[:] }
	}
	return 0, nil
}

// framed adds what the Tink variant adds: the output prefix, and for LEGACY a 0x00 after the message.
func framed(info *keys.Info, sign func(data []byte) []byte) func(msg []byte) []byte {
	return func(msg []byte) []byte {
		data := msg
		if info.Variant == tk.Legacy {
			data = append(append([]byte{}, msg...), 0)
		}
		sig := sign(data)
		if sig == nil {
			return nil
		}
		return append(info.OutputPrefix(), sig...)
	}
}

func ecdsaRef(info *keys.Info, hash, encoding string) func([]byte) []byte {
	_, sum := hashFor(hash)
	if sum == nil {
		return nil
	}
	curve := map[string]elliptic.Curve{"NIST_P256": elliptic.P256(), "NIST_P384": elliptic.P384(), "NIST_P521": elliptic.P521()}[info.Fields["curve"].(string)]
	priv := &ecdsa.PrivateKey{D: new(big.Int).SetBytes(info.Fields["key_value"].([]byte))}
	priv.Curve = curve
	priv.X, priv.Y = new(big.Int).SetBytes(info.Fields["x"].([]byte)), new(big.Int).SetBytes(info.Fields["y"].([]byte))
	return framed(info, func(data []byte) []byte {
		der, err := ecdsa.SignASN1(rand.Reader, priv, sum(data))
		if err != nil {
			return nil
		}
		if encoding == "DER" {
			return der
		}
		var rs struct{ R, S *big.Int }
		if _, err := asn1.Unmarshal(der, &rs); err != nil {
			return nil
		}
		size := (curve.Params().BitSize + 7) / 8
		return append(rs.R.FillBytes(make([]byte, size)), rs.S.FillBytes(make([]byte, size))...)
	})
}

func rsaRef(info *keys.Info, rk *rsa.PrivateKey) func([]byte) []byte {
	hname, _ := info.Fields["hash"].(string)
	h, sum := hashFor(hname)
	if sum == nil {
		return nil
	}
	pss := strings.Contains(info.Type, "Pss")
	sign := func(data []byte) []byte {
		var sig []byte
		var err error
		if pss {
			salt, _ := info.Fields["salt_len"].(int)
			if salt == 0 {
				salt = rsa.PSSSaltLengthEqualsHash
			}
			sig, err = rsa.SignPSS(rand.Reader, rk, h, sum(data), &rsa.PSSOptions{SaltLength: salt, Hash: h})
		} else {
			sig, err = rsa.SignPKCS1v15(rand.Reader, rk, h, sum(data))
		}
		if err != nil {
			return nil // e.g. the standard library refuses moduli below 1024 bits
		}
		return sig
	}
	if !strings.HasPrefix(info.Type, "Jwt") {
		return framed(info, sign)
	}
	// compact JWT: header with alg (and kid when the key carries one), payload {"iss":"c14"}
	return func([]byte) []byte {
		alg, _ := info.Fields["algorithm"].(string)
		header := `{"alg":"` + alg + `"`
		if has, _ := info.Fields["has_kid"].(bool); has {
			kid, _ := info.Fields["kid"].(string)
			for _, c := range kid {
				if c == '"' || c == '\\' || c < 0x20 {
					return nil
				}
			}
			header += `,"kid":"` + kid + `"`
		}
		header += "}"
		enc := base64.RawURLEncoding
		unsigned := enc.EncodeToString([]byte(header)) + "." + enc.EncodeToString([]byte(`{"iss":"c14"}`))
		sig := sign([]byte(unsigned))
		if sig == nil {
			return nil
		}
		return []byte(unsigned + "." + enc.EncodeToString(sig))
	}
}
