// Package c14 decides property C14: untrusted keyset input is rejected or yields a well-formed
// handle, never a panic.
//
// Files:
//
//	c14_test.go     the shared oracle: checkHandle (well-formedness of an accepted handle) and exercise
//	                (every matching factory is called, every primitive obtained is used on a small input
//	                and must be self-consistent); panics of the library are converted into failures that
//	                name the stage and print the keyset.
//	readers_test.go all keyset readers (cleartext binary / JSON / in-memory, no-secrets, encrypted).
//	mutate_test.go  TestStructuredMutation: valid keysets of internal/keys keys + 1..3 mutation operators.
//	weak_test.go    TestWeakKeys: hand-marshalled keys below the minimum strengths of the property text.
//	fuzz_test.go    FuzzBinaryKeyset, FuzzJSONKeyset, FuzzEncryptedKeyset.
//
// Reading of the property used by the oracle ("where the property is silent the check is silent"):
//
//   - a reader may return an error for anything;
//   - a returned handle must have >= 1 key, pairwise distinct IDs, exactly one primary which is
//     ENABLED, statuses in {ENABLED, DISABLED, DESTROYED} and output prefix types among the values
//     the OutputPrefixType enum defines (TINK, LEGACY, RAW, CRUNCHY, WITH_ID_REQUIREMENT);
//   - a factory may return an error; an operation that PRODUCES output (Encrypt, ComputeMAC, Sign,
//     ComputePrimaryPRF, SignAndEncode, DeriveKeyset, ...) may return an error; but when it returned
//     output, the consuming side of the same handle (Decrypt, VerifyMAC, Verify under Public(), ...)
//     must accept it and give back the input.  The only exception is a keyset whose primary is an
//     SLH-DSA private key (the property excepts it);
//   - no library call panics.
package c14

import (
	"bytes"
	"encoding/base64"
	"fmt"
	"io"
	"runtime/debug"
	"sort"
	"strings"
	"testing"
	"time"

	"google.golang.org/protobuf/encoding/prototext"

	"github.com/tink-crypto/tink-go/v2/aead"
	"github.com/tink-crypto/tink-go/v2/daead"
	"github.com/tink-crypto/tink-go/v2/hybrid"
	"github.com/tink-crypto/tink-go/v2/jwt"
	"github.com/tink-crypto/tink-go/v2/keyderivation"
	"github.com/tink-crypto/tink-go/v2/keyset"
	"github.com/tink-crypto/tink-go/v2/mac"
	"github.com/tink-crypto/tink-go/v2/prf"
	tinkpb "github.com/tink-crypto/tink-go/v2/proto/tink_go_proto"
	"github.com/tink-crypto/tink-go/v2/signature"
	"github.com/tink-crypto/tink-go/v2/streamingaead"
	"github.com/tink-crypto/tink-go/v2/tink"
	"github.com/tink-crypto/tink-go/v2/verifharness/internal/evid"
	"github.com/tink-crypto/tink-go/v2/verifharness/internal/legacykm"
)

func TestMain(m *testing.M) {
	legacykm.Register()
	registerFakeKMS() // fake-kms:// key-encryption keys for KmsEnvelopeAeadKey keysets (envelope_test.go)
	evid.Main(m)
}

// fataler is the part of *rapid.T / *testing.T the oracle needs.
type fataler interface {
	Fatalf(format string, args ...any)
}

// env is one case under test: where to report, and how to print the keyset.
type env struct {
	f      fataler
	what   string        // description of the case (mutations applied, reader)
	ksText func() string // the complete keyset under test, prototext
}

func (e *env) failf(format string, args ...any) {
	e.f.Fatalf("%s\ncase: %s\nkeyset (prototext):\n%s", fmt.Sprintf(format, args...), e.what, e.ksText())
}

// try runs fn and returns the panic value, if any.  fn must only call the library and assign to
// captured variables: rapid reports failures by panicking, so no Fatalf / Draw / Skip inside.
func try(fn func()) (p any, stack []byte) {
	defer func() {
		if r := recover(); r != nil {
			p, stack = r, debug.Stack()
		}
	}()
	fn()
	return nil, nil
}

// guard runs one library stage; a panic is a violation of the property.
func (e *env) guard(stage string, fn func()) {
	if p, stack := try(fn); p != nil {
		evid.Add("panics", 1)
		e.failf("PANIC at stage %q: %v\n%s", stage, p, stack)
	}
}

func ksText(ks *tinkpb.Keyset) string {
	if ks == nil {
		return "<nil keyset>"
	}
	for _, k := range ks.Key {
		if k == nil {
			// prototext cannot print a nil element
			var b strings.Builder
			fmt.Fprintf(&b, "primary_key_id: %d\n", ks.PrimaryKeyId)
			for i, k := range ks.Key {
				if k == nil {
					fmt.Fprintf(&b, "key[%d]: <nil>\n", i)
				} else {
					fmt.Fprintf(&b, "key[%d]: { %s }\n", i, prototext.MarshalOptions{}.Format(k))
				}
			}
			return b.String()
		}
	}
	return prototext.MarshalOptions{Multiline: true}.Format(ks)
}

// ---------------------------------------------------------------------------------------------
// well-formedness of an accepted handle

var knownPrefix = map[tinkpb.OutputPrefixType]bool{
	tinkpb.OutputPrefixType_TINK: true, tinkpb.OutputPrefixType_LEGACY: true, tinkpb.OutputPrefixType_RAW: true,
	tinkpb.OutputPrefixType_CRUNCHY: true, tinkpb.OutputPrefixType_WITH_ID_REQUIREMENT: true,
}

var knownStatus = map[tinkpb.KeyStatusType]bool{
	tinkpb.KeyStatusType_ENABLED: true, tinkpb.KeyStatusType_DISABLED: true, tinkpb.KeyStatusType_DESTROYED: true,
}

// checkHandle asserts the well-formedness clause of the property and returns the KeysetInfo.
func (e *env) checkHandle(h *keyset.Handle) *tinkpb.KeysetInfo {
	if h == nil {
		e.failf("reader returned a nil handle without an error")
	}
	var (
		n       int
		ids     []uint32
		status  []keyset.KeyStatus
		prim    []bool
		entErr  error
		primary *keyset.Entry
		primErr error
		info    *tinkpb.KeysetInfo
		str     string
	)
	e.guard("handle.Len/Entry/Primary", func() {
		n = h.Len()
		for i := 0; i < n; i++ {
			ent, err := h.Entry(i)
			if err != nil {
				entErr = fmt.Errorf("Entry(%d): %v", i, err)
				return
			}
			ids = append(ids, ent.KeyID())
			status = append(status, ent.KeyStatus())
			prim = append(prim, ent.IsPrimary())
			_ = ent.Key()
		}
		primary, primErr = h.Primary()
	})
	e.guard("handle.KeysetInfo/String", func() {
		info = h.KeysetInfo()
		str = h.String()
	})
	_ = str
	if n < 1 {
		e.failf("accepted handle has %d keys", n)
	}
	if entErr != nil {
		e.failf("accepted handle: %v", entErr)
	}
	seen := map[uint32]bool{}
	primaries := 0
	for i := range ids {
		if seen[ids[i]] {
			e.failf("accepted handle repeats key ID %d", ids[i])
		}
		seen[ids[i]] = true
		switch status[i] {
		case keyset.Enabled, keyset.Disabled, keyset.Destroyed:
		default:
			e.failf("accepted handle: entry %d (id %d) has status %v", i, ids[i], status[i])
		}
		if prim[i] {
			primaries++
			if status[i] != keyset.Enabled {
				e.failf("accepted handle: primary entry %d (id %d) has status %v", i, ids[i], status[i])
			}
		}
	}
	if primaries != 1 {
		e.failf("accepted handle has %d primary entries", primaries)
	}
	if primErr != nil || primary == nil {
		e.failf("accepted handle: Primary() = %v, %v", primary, primErr)
	}
	if !primary.IsPrimary() || primary.KeyStatus() != keyset.Enabled {
		e.failf("accepted handle: Primary() returns an entry with IsPrimary=%v status=%v", primary.IsPrimary(), primary.KeyStatus())
	}
	if info == nil || len(info.KeyInfo) != n {
		e.failf("accepted handle: KeysetInfo has %d entries for %d keys", len(info.GetKeyInfo()), n)
	}
	if info.PrimaryKeyId != primary.KeyID() {
		e.failf("accepted handle: KeysetInfo primary %d, Primary() id %d", info.PrimaryKeyId, primary.KeyID())
	}
	enabledPrimary := 0
	for i, ki := range info.KeyInfo {
		if !knownStatus[ki.Status] {
			e.failf("accepted handle: KeysetInfo entry %d has status %v", i, ki.Status)
		}
		if !knownPrefix[ki.OutputPrefixType] {
			e.failf("accepted handle: KeysetInfo entry %d has output prefix type %v", i, ki.OutputPrefixType)
		}
		if ki.KeyId != ids[i] {
			e.failf("accepted handle: KeysetInfo entry %d has id %d, Entry(%d) has %d", i, ki.KeyId, i, ids[i])
		}
		if ki.KeyId == info.PrimaryKeyId && ki.Status == tinkpb.KeyStatusType_ENABLED {
			enabledPrimary++
		}
	}
	if enabledPrimary != 1 {
		e.failf("accepted handle: %d ENABLED entries carry the primary id", enabledPrimary)
	}
	return info
}

// ---------------------------------------------------------------------------------------------
// factories

// Factory groups.
const (
	fAEAD      = "aead"
	fDAEAD     = "daead"
	fMAC       = "mac"
	fPRF       = "prf"
	fSignature = "signature" // NewSigner + NewVerifier(Public()), or NewVerifier on a public keyset
	fHybrid    = "hybrid"    // NewHybridDecrypt + NewHybridEncrypt(Public()), or NewHybridEncrypt
	fStreaming = "streaming"
	fJWTMAC    = "jwtmac"
	fJWTSig    = "jwtsig" // jwt.NewSigner + jwt.NewVerifier(Public()), or jwt.NewVerifier
	fDeriver   = "deriver"
)

var allFactories = []string{fAEAD, fDAEAD, fMAC, fPRF, fSignature, fHybrid, fStreaming, fJWTMAC, fJWTSig, fDeriver}

const urlPrefix = "type.googleapis.com/google.crypto.tink."

// factoryOf: the factory group that could accept a key of the type URL (own table).
var factoryOf = map[string]string{
	"AesGcmKey": fAEAD, "AesCtrHmacAeadKey": fAEAD, "AesGcmSivKey": fAEAD, "ChaCha20Poly1305Key": fAEAD,
	"XChaCha20Poly1305Key": fAEAD, "XAesGcmKey": fAEAD, "AesEaxKey": fAEAD, "KmsAeadKey": fAEAD, "KmsEnvelopeAeadKey": fAEAD,
	"AesSivKey": fDAEAD,
	"HmacKey":   fMAC, "AesCmacKey": fMAC,
	"HmacPrfKey": fPRF, "HkdfPrfKey": fPRF, "AesCmacPrfKey": fPRF,
	"EcdsaPrivateKey": fSignature, "EcdsaPublicKey": fSignature, "Ed25519PrivateKey": fSignature, "Ed25519PublicKey": fSignature,
	"RsaSsaPkcs1PrivateKey": fSignature, "RsaSsaPkcs1PublicKey": fSignature, "RsaSsaPssPrivateKey": fSignature, "RsaSsaPssPublicKey": fSignature,
	"MlDsaPrivateKey": fSignature, "MlDsaPublicKey": fSignature, "SlhDsaPrivateKey": fSignature, "SlhDsaPublicKey": fSignature,
	"CompositeMlDsaPrivateKey": fSignature, "CompositeMlDsaPublicKey": fSignature,
	"HpkePrivateKey": fHybrid, "HpkePublicKey": fHybrid, "EciesAeadHkdfPrivateKey": fHybrid, "EciesAeadHkdfPublicKey": fHybrid,
	"AesGcmHkdfStreamingKey": fStreaming, "AesCtrHmacStreamingKey": fStreaming,
	"JwtHmacKey":         fJWTMAC,
	"JwtEcdsaPrivateKey": fJWTSig, "JwtEcdsaPublicKey": fJWTSig, "JwtRsaSsaPkcs1PrivateKey": fJWTSig, "JwtRsaSsaPkcs1PublicKey": fJWTSig,
	"JwtRsaSsaPssPrivateKey": fJWTSig, "JwtRsaSsaPssPublicKey": fJWTSig, "JwtMlDsaPrivateKey": fJWTSig, "JwtMlDsaPublicKey": fJWTSig,
	"PrfBasedDeriverKey": fDeriver,
}

// factoriesFor returns the factory groups to try for a handle: the group of the primary key's type
// URL, or all groups when the URL is not one of Tink's (harness-owned legacy types, unknown URLs).
func factoriesFor(info *tinkpb.KeysetInfo) []string {
	set := map[string]bool{}
	for _, ki := range info.KeyInfo {
		if ki.Status != tinkpb.KeyStatusType_ENABLED {
			continue
		}
		f, ok := factoryOf[strings.TrimPrefix(ki.TypeUrl, urlPrefix)]
		if !ok || !strings.HasPrefix(ki.TypeUrl, urlPrefix) {
			return allFactories
		}
		set[f] = true
	}
	var out []string
	for _, f := range allFactories {
		if set[f] {
			out = append(out, f)
		}
	}
	return out
}

func shortType(url string) string {
	return strings.TrimPrefix(strings.TrimPrefix(url, urlPrefix), "type.googleapis.com/")
}

func primaryType(info *tinkpb.KeysetInfo) string {
	for _, ki := range info.KeyInfo {
		if ki.KeyId == info.PrimaryKeyId && ki.Status == tinkpb.KeyStatusType_ENABLED {
			return shortType(ki.TypeUrl)
		}
	}
	return "?"
}

// Outcome of one factory group on one handle.
const (
	oFactoryErr   = "factory-error"    // no primitive was created
	oUseErr       = "use-error"        // primitive created, the producing operation returned an error
	oConsistent   = "consistent"       // output produced and accepted / reproduced by the same handle
	oInconsistent = "INCONSISTENT"     // output produced and NOT accepted by the same handle
	oHalf         = "half-only"        // private side produced output, public side could not be constructed
	oPublicOnly   = "public-only"      // a public-key primitive was created; nothing to check it against
	oSkipped      = "skipped-too-slow" // primitive created, operation skipped (cost)
)

type inputs struct {
	msg, aad []byte
	// lite: skip operations that take seconds (SLH-DSA signing); used by the fuzz targets and by
	// most rapid cases with SLH-DSA "s" parameter sets.
	lite bool
	// pick selects which accepted handle is exercised (index = pick mod number of accepted handles);
	// drawn per case by the rapid units (gen.Uniform), 0 in the fuzz targets and fixed inputs.
	pick uint64
}

type result struct {
	outcome string
	detail  string // for INCONSISTENT / errors
}

var fixedNow = time.Unix(1_700_000_000, 0)

// maxSegment bounds the streaming segment size the harness is willing to use a primitive with:
// the streaming writer / reader allocate one segment up front, and keysets with a segment size of
// 2^31-1 are accepted by the parsers (the buffers would be 2 GiB each).
const maxSegment = 1 << 22

func hugeSegment(h *keyset.Handle) bool {
	for i := 0; i < h.Len(); i++ {
		ent, err := h.Entry(i)
		if err != nil {
			continue
		}
		if p, ok := ent.Key().Parameters().(interface{ SegmentSizeInBytes() int32 }); ok && p.SegmentSizeInBytes() > maxSegment {
			return true
		}
	}
	return false
}

func isSLHPrivatePrimary(info *tinkpb.KeysetInfo) bool {
	return primaryType(info) == "SlhDsaPrivateKey"
}

// shapedSignatureSizes: the signature lengths of the library's signature schemes (Ed25519 / P-256
// P1363, P-384, P-521, RSA 2048..4096 and one byte more, ML-DSA-44/65/87, the twelve SLH-DSA sets,
// composite ML-DSA with a fixed-length classical part).  A verifier that checks the length first and
// then trusts its key only meets the rest of its code with such an input.
var shapedSignatureSizes = []int{64, 96, 132, 256, 257, 384, 385, 512, 2420, 3309, 4627, 3373, 3693, 3821, 5011, 5139,
	7856, 17088, 16224, 35664, 29792, 49856}

// verifyShaped feeds v, for every entry of the public handle, that entry's output prefix followed by
// well-formed garbage: bytes of every standard signature length and a minimal DER ECDSA signature.
// Nothing is asserted about the verdicts (garbage is rejected or not - C03's business); a panic is
// the violation.
func (e *env) verifyShaped(v tink.Verifier, pub *keyset.Handle, msg []byte) {
	if v == nil || pub == nil {
		return
	}
	var prefixes [][]byte
	e.guard("Handle.Entry / Key.OutputPrefix", func() {
		for i := 0; i < pub.Len(); i++ {
			en, err := pub.Entry(i)
			if err != nil || en.Key() == nil {
				continue
			}
			if k, ok := en.Key().(interface{ OutputPrefix() []byte }); ok {
				prefixes = append(prefixes, k.OutputPrefix())
			} else {
				// fallback proto keys: both forms a key of this ID can have
				id := en.KeyID()
				prefixes = append(prefixes, nil, []byte{1, byte(id >> 24), byte(id >> 16), byte(id >> 8), byte(id)}, []byte{0, byte(id >> 24), byte(id >> 16), byte(id >> 8), byte(id)})
			}
		}
	})
	seen := map[string]bool{}
	for _, p := range prefixes {
		if seen[string(p)] {
			continue
		}
		seen[string(p)] = true
		e.guard("Verifier.Verify(prefix || well-formed garbage)", func() {
			v.Verify(append(bytes.Clone(p), 0x30, 0x06, 0x02, 0x01, 0x01, 0x02, 0x01, 0x01), msg)
			for _, n := range shapedSignatureSizes {
				v.Verify(append(bytes.Clone(p), bytes.Repeat([]byte{0x01}, n)...), msg)
			}
		})
		evid.Add("shaped_signatures_verified", 1)
	}
}

// verifyShapedJWT is verifyShaped for JWT verifiers: for every algorithm name a compact token with a
// well-formed header (with and without the kid a key-ID-derived kid strategy expects for each entry),
// a well-formed payload and a garbage signature of that algorithm's length.
func (e *env) verifyShapedJWT(v jwt.Verifier, pub *keyset.Handle, val *jwt.Validator) {
	if v == nil || pub == nil || val == nil {
		return
	}
	kids := []string{""}
	e.guard("Handle.Entry", func() {
		for i := 0; i < pub.Len(); i++ {
			if en, err := pub.Entry(i); err == nil {
				id := en.KeyID()
				kids = append(kids, base64.RawURLEncoding.EncodeToString([]byte{byte(id >> 24), byte(id >> 16), byte(id >> 8), byte(id)}))
			}
		}
	})
	algs := []struct {
		name string
		n    int
	}{{"ES256", 64}, {"ES384", 96}, {"ES512", 132}, {"RS256", 256}, {"RS384", 384}, {"RS512", 512}, {"PS256", 256}, {"PS384", 384}, {"PS512", 512},
		{"ML-DSA-44", 2420}, {"ML-DSA-65", 3309}, {"ML-DSA-87", 4627}}
	payload := base64.RawURLEncoding.EncodeToString([]byte(`{"sub":"s"}`))
	e.guard("jwt.Verifier.VerifyAndDecode(well-formed token, garbage signature)", func() {
		for _, kid := range kids {
			for _, a := range algs {
				hdr := `{"alg":"` + a.name + `"}`
				if kid != "" {
					hdr = `{"alg":"` + a.name + `","kid":"` + kid + `"}`
				}
				v.VerifyAndDecode(base64.RawURLEncoding.EncodeToString([]byte(hdr))+"."+payload+"."+base64.RawURLEncoding.EncodeToString(bytes.Repeat([]byte{1}, a.n)), val)
			}
		}
	})
	evid.Add("shaped_jwt_tokens_verified", 1)
}

func hasSLHPrivate(info *tinkpb.KeysetInfo) bool {
	for _, ki := range info.KeyInfo {
		if shortType(ki.TypeUrl) == "SlhDsaPrivateKey" && ki.Status == tinkpb.KeyStatusType_ENABLED {
			return true
		}
	}
	return false
}

// runFactory calls one factory group on h and uses what it returns.  Every library call runs under
// guard.  The returned result never is a failure by itself: the caller decides (general oracle:
// INCONSISTENT fails; weak-key oracle: consistent / half-only / INCONSISTENT all fail).
func (e *env) runFactory(f string, h *keyset.Handle, info *tinkpb.KeysetInfo, in inputs) result {
	var r result
	errOf := func(err error) string {
		if err == nil {
			return ""
		}
		return err.Error()
	}
	// public half, if the handle has one
	var pub *keyset.Handle
	var pubErr error
	needsPub := f == fSignature || f == fHybrid || f == fJWTSig
	if needsPub {
		e.guard(f+": handle.Public()", func() { pub, pubErr = h.Public() })
		if pubErr == nil {
			if pub == nil {
				e.failf("%s: Public() returned nil, nil", f)
			}
			sub := *e
			sub.what = e.what + " / Public()"
			sub.checkHandle(pub)
		}
	}
	switch f {
	case fAEAD:
		var p tink.AEAD
		var err error
		e.guard("aead.New", func() { p, err = aead.New(h) })
		if err != nil {
			return result{oFactoryErr, errOf(err)}
		}
		var ct, pt []byte
		var derr error
		e.guard("AEAD.Encrypt", func() { ct, err = p.Encrypt(in.msg, in.aad) })
		if err != nil {
			return result{oUseErr, errOf(err)}
		}
		e.guard("AEAD.Decrypt", func() { pt, derr = p.Decrypt(ct, in.aad) })
		if derr != nil || !bytes.Equal(pt, in.msg) {
			return result{oInconsistent, fmt.Sprintf("Encrypt(%x,%x)=%x; Decrypt = %x, %v", in.msg, in.aad, ct, pt, derr)}
		}
		e.guard("AEAD.Decrypt(garbage)", func() { p.Decrypt(in.msg, in.aad); p.Decrypt(ct[:len(ct)/2], in.aad); p.Decrypt(nil, nil) })
		return result{oConsistent, ""}
	case fDAEAD:
		var p tink.DeterministicAEAD
		var err error
		e.guard("daead.New", func() { p, err = daead.New(h) })
		if err != nil {
			return result{oFactoryErr, errOf(err)}
		}
		var ct, pt []byte
		var derr error
		e.guard("DAEAD.Encrypt", func() { ct, err = p.EncryptDeterministically(in.msg, in.aad) })
		if err != nil {
			return result{oUseErr, errOf(err)}
		}
		e.guard("DAEAD.Decrypt", func() { pt, derr = p.DecryptDeterministically(ct, in.aad) })
		if derr != nil || !bytes.Equal(pt, in.msg) {
			return result{oInconsistent, fmt.Sprintf("Encrypt(%x,%x)=%x; Decrypt = %x, %v", in.msg, in.aad, ct, pt, derr)}
		}
		e.guard("DAEAD.Decrypt(garbage)", func() {
			p.DecryptDeterministically(in.msg, in.aad)
			p.DecryptDeterministically(ct[:len(ct)/2], in.aad)
			p.DecryptDeterministically(nil, nil)
		})
		return result{oConsistent, ""}
	case fMAC:
		var p tink.MAC
		var err error
		e.guard("mac.New", func() { p, err = mac.New(h) })
		if err != nil {
			return result{oFactoryErr, errOf(err)}
		}
		var tag []byte
		var verr error
		e.guard("MAC.ComputeMAC", func() { tag, err = p.ComputeMAC(in.msg) })
		if err != nil {
			return result{oUseErr, errOf(err)}
		}
		e.guard("MAC.VerifyMAC", func() { verr = p.VerifyMAC(tag, in.msg) })
		if verr != nil {
			return result{oInconsistent, fmt.Sprintf("ComputeMAC(%x)=%x; VerifyMAC: %v", in.msg, tag, verr)}
		}
		e.guard("MAC.VerifyMAC(garbage)", func() { p.VerifyMAC(in.aad, in.msg); p.VerifyMAC(tag[:len(tag)/2], in.msg); p.VerifyMAC(nil, nil) })
		return result{oConsistent, ""}
	case fPRF:
		var p *prf.Set
		var err error
		e.guard("prf.NewPRFSet", func() { p, err = prf.NewPRFSet(h) })
		if err != nil {
			return result{oFactoryErr, errOf(err)}
		}
		var o1, o2 []byte
		var err2 error
		e.guard("PRF.ComputePrimaryPRF", func() {
			o1, err = p.ComputePrimaryPRF(in.msg, 16)
			if err == nil {
				o2, err2 = p.ComputePrimaryPRF(in.msg, 16)
			}
		})
		if err != nil {
			return result{oUseErr, errOf(err)}
		}
		if err2 != nil || !bytes.Equal(o1, o2) || len(o1) != 16 {
			return result{oInconsistent, fmt.Sprintf("ComputePrimaryPRF(%x,16) = %x, then %x, %v", in.msg, o1, o2, err2)}
		}
		e.guard("PRF.ComputePrimaryPRF(edge lengths)", func() {
			p.ComputePrimaryPRF(in.msg, 0)
			p.ComputePrimaryPRF(in.msg, 1)
			p.ComputePrimaryPRF(nil, 64)
			p.ComputePrimaryPRF(in.msg, 100000)
		})
		return result{oConsistent, ""}
	case fSignature:
		if pubErr != nil {
			// not a private keyset: try it as a public keyset
			var v tink.Verifier
			var err error
			e.guard("signature.NewVerifier(public keyset)", func() { v, err = signature.NewVerifier(h) })
			if err != nil {
				return result{oFactoryErr, errOf(err)}
			}
			e.guard("Verifier.Verify(garbage)", func() { v.Verify(in.aad, in.msg); v.Verify(nil, nil); v.Verify(in.msg, in.msg) })
			e.verifyShaped(v, h, in.msg)
			return result{oPublicOnly, ""}
		}
		var s tink.Signer
		var v tink.Verifier
		var err, verr error
		e.guard("signature.NewSigner", func() { s, err = signature.NewSigner(h) })
		e.guard("signature.NewVerifier(Public())", func() { v, verr = signature.NewVerifier(pub) })
		if err != nil {
			return result{oFactoryErr, errOf(err)}
		}
		if in.lite && hasSLHPrivate(info) {
			return result{oSkipped, ""}
		}
		var sig []byte
		e.guard("Signer.Sign", func() { sig, err = s.Sign(in.msg) })
		if err != nil {
			return result{oUseErr, errOf(err)}
		}
		if verr != nil {
			return result{oHalf, "NewVerifier(Public()): " + errOf(verr)}
		}
		var cerr error
		e.guard("Verifier.Verify", func() { cerr = v.Verify(sig, in.msg) })
		e.guard("Verifier.Verify(garbage)", func() { v.Verify(in.aad, in.msg); v.Verify(sig[:len(sig)/2], in.msg); v.Verify(nil, nil) })
		e.verifyShaped(v, pub, in.msg)
		if cerr != nil {
			if isSLHPrivatePrimary(info) {
				return result{"slhdsa-excepted", errOf(cerr)}
			}
			return result{oInconsistent, fmt.Sprintf("Sign(%x)=%x; Verify under Public(): %v", in.msg, sig, cerr)}
		}
		return result{oConsistent, ""}
	case fHybrid:
		if pubErr != nil {
			var enc tink.HybridEncrypt
			var err error
			e.guard("hybrid.NewHybridEncrypt(public keyset)", func() { enc, err = hybrid.NewHybridEncrypt(h) })
			if err != nil {
				return result{oFactoryErr, errOf(err)}
			}
			e.guard("HybridEncrypt.Encrypt", func() { enc.Encrypt(in.msg, in.aad) })
			return result{oPublicOnly, ""}
		}
		var dec tink.HybridDecrypt
		var enc tink.HybridEncrypt
		var err, eerr error
		e.guard("hybrid.NewHybridDecrypt", func() { dec, err = hybrid.NewHybridDecrypt(h) })
		e.guard("hybrid.NewHybridEncrypt(Public())", func() { enc, eerr = hybrid.NewHybridEncrypt(pub) })
		if err != nil && eerr != nil {
			return result{oFactoryErr, errOf(err)}
		}
		if err == nil {
			e.guard("HybridDecrypt.Decrypt(garbage)", func() { dec.Decrypt(in.msg, in.aad); dec.Decrypt(nil, nil) })
		}
		if eerr != nil {
			// a decrypter without an encrypter: nothing was produced
			return result{oFactoryErr, "NewHybridEncrypt(Public()): " + errOf(eerr)}
		}
		var ct, pt []byte
		var derr error
		e.guard("HybridEncrypt.Encrypt", func() { ct, eerr = enc.Encrypt(in.msg, in.aad) })
		if eerr != nil {
			return result{oUseErr, errOf(eerr)}
		}
		if err != nil {
			return result{oHalf, "NewHybridDecrypt: " + errOf(err)}
		}
		e.guard("HybridDecrypt.Decrypt", func() { pt, derr = dec.Decrypt(ct, in.aad) })
		if derr != nil || !bytes.Equal(pt, in.msg) {
			return result{oInconsistent, fmt.Sprintf("Encrypt under Public()(%x,%x)=%x; Decrypt = %x, %v", in.msg, in.aad, ct, pt, derr)}
		}
		e.guard("HybridDecrypt.Decrypt(truncated)", func() { dec.Decrypt(ct[:len(ct)/2], in.aad) })
		return result{oConsistent, ""}
	case fStreaming:
		var p tink.StreamingAEAD
		var err error
		e.guard("streamingaead.New", func() { p, err = streamingaead.New(h) })
		if err != nil {
			return result{oFactoryErr, errOf(err)}
		}
		if hugeSegment(h) {
			evid.Add("streaming_huge_segment_not_used", 1)
			return result{oSkipped, "segment size above harness limit"}
		}
		var buf bytes.Buffer
		var pt []byte
		var derr error
		e.guard("StreamingAEAD encrypt", func() {
			var w io.WriteCloser
			if w, err = p.NewEncryptingWriter(&buf, in.aad); err != nil {
				return
			}
			if _, err = w.Write(in.msg); err != nil {
				return
			}
			err = w.Close()
		})
		if err != nil {
			return result{oUseErr, errOf(err)}
		}
		e.guard("StreamingAEAD decrypt", func() {
			var rd io.Reader
			if rd, derr = p.NewDecryptingReader(bytes.NewReader(buf.Bytes()), in.aad); derr != nil {
				return
			}
			pt, derr = io.ReadAll(rd)
		})
		if derr != nil || !bytes.Equal(pt, in.msg) {
			return result{oInconsistent, fmt.Sprintf("stream(%x,%x)=%x; decrypt = %x, %v", in.msg, in.aad, buf.Bytes(), pt, derr)}
		}
		e.guard("StreamingAEAD decrypt(garbage)", func() {
			for _, g := range [][]byte{in.msg, buf.Bytes()[:buf.Len()/2], nil} {
				if rd, err := p.NewDecryptingReader(bytes.NewReader(g), in.aad); err == nil {
					io.ReadAll(rd)
				}
			}
		})
		return result{oConsistent, ""}
	case fJWTMAC, fJWTSig:
		iss := "c14"
		var raw *jwt.RawJWT
		var val *jwt.Validator
		var err error
		e.guard("jwt.NewRawJWT/NewValidator", func() {
			raw, err = jwt.NewRawJWT(&jwt.RawJWTOptions{Issuer: &iss, WithoutExpiration: true})
			if err == nil {
				val, err = jwt.NewValidator(&jwt.ValidatorOpts{ExpectedIssuer: &iss, AllowMissingExpiration: true, FixedNow: fixedNow})
			}
		})
		if err != nil {
			e.failf("harness: building the raw JWT / validator failed: %v", err)
		}
		garbageTok := "eyJhbGciOiJIUzI1NiJ9." + fmt.Sprintf("%x", in.msg) + ".AAAA"
		if f == fJWTMAC {
			var p jwt.MAC
			e.guard("jwt.NewMAC", func() { p, err = jwt.NewMAC(h) })
			if err != nil {
				return result{oFactoryErr, errOf(err)}
			}
			var tok string
			var got *jwt.VerifiedJWT
			var verr error
			e.guard("jwt.MAC.ComputeMACAndEncode", func() { tok, err = p.ComputeMACAndEncode(raw) })
			if err != nil {
				return result{oUseErr, errOf(err)}
			}
			e.guard("jwt.MAC.VerifyMACAndDecode", func() { got, verr = p.VerifyMACAndDecode(tok, val) })
			e.guard("jwt.MAC.VerifyMACAndDecode(garbage)", func() {
				p.VerifyMACAndDecode(garbageTok, val)
				p.VerifyMACAndDecode("", val)
				p.VerifyMACAndDecode(tok[:len(tok)/2], val)
			})
			if verr != nil || got == nil {
				return result{oInconsistent, fmt.Sprintf("token %q; VerifyMACAndDecode: %v", tok, verr)}
			}
			return result{oConsistent, ""}
		}
		if pubErr != nil {
			var v jwt.Verifier
			e.guard("jwt.NewVerifier(public keyset)", func() { v, err = jwt.NewVerifier(h) })
			if err != nil {
				return result{oFactoryErr, errOf(err)}
			}
			e.guard("jwt.Verifier.VerifyAndDecode(garbage)", func() { v.VerifyAndDecode(garbageTok, val); v.VerifyAndDecode("", val) })
			e.verifyShapedJWT(v, h, val)
			return result{oPublicOnly, ""}
		}
		var s jwt.Signer
		var v jwt.Verifier
		var verr error
		e.guard("jwt.NewSigner", func() { s, err = jwt.NewSigner(h) })
		e.guard("jwt.NewVerifier(Public())", func() { v, verr = jwt.NewVerifier(pub) })
		if err != nil {
			return result{oFactoryErr, errOf(err)}
		}
		var tok string
		e.guard("jwt.Signer.SignAndEncode", func() { tok, err = s.SignAndEncode(raw) })
		if err != nil {
			return result{oUseErr, errOf(err)}
		}
		if verr != nil {
			return result{oHalf, "jwt.NewVerifier(Public()): " + errOf(verr)}
		}
		var got *jwt.VerifiedJWT
		var cerr error
		e.guard("jwt.Verifier.VerifyAndDecode", func() { got, cerr = v.VerifyAndDecode(tok, val) })
		e.guard("jwt.Verifier.VerifyAndDecode(garbage)", func() {
			v.VerifyAndDecode(garbageTok, val)
			v.VerifyAndDecode("", val)
			v.VerifyAndDecode(tok[:len(tok)/2], val)
		})
		e.verifyShapedJWT(v, pub, val)
		if cerr != nil || got == nil {
			return result{oInconsistent, fmt.Sprintf("token %q; VerifyAndDecode under Public(): %v", tok, cerr)}
		}
		return result{oConsistent, ""}
	case fDeriver:
		var d keyderivation.KeysetDeriver
		var err error
		e.guard("keyderivation.New", func() { d, err = keyderivation.New(h) })
		if err != nil {
			return result{oFactoryErr, errOf(err)}
		}
		var h1, h2 *keyset.Handle
		var err2 error
		e.guard("KeysetDeriver.DeriveKeyset", func() {
			h1, err = d.DeriveKeyset(in.msg)
			if err == nil {
				h2, err2 = d.DeriveKeyset(in.msg)
			}
		})
		if err != nil {
			return result{oUseErr, errOf(err)}
		}
		if err2 != nil {
			return result{oInconsistent, fmt.Sprintf("DeriveKeyset(%x) succeeded, then failed: %v", in.msg, err2)}
		}
		sub := *e
		sub.what = e.what + " / derived keyset"
		sub.checkHandle(h1)
		sub.checkHandle(h2)
		var same bool
		var why string
		e.guard("compare derived keysets", func() { same, why = sameHandles(h1, h2) })
		if !same {
			return result{oInconsistent, fmt.Sprintf("DeriveKeyset(%x) twice gave different keysets: %s", in.msg, why)}
		}
		e.guard("KeysetDeriver.DeriveKeyset(nil)", func() { d.DeriveKeyset(nil) })
		return result{oConsistent, ""}
	}
	e.failf("harness: unknown factory group %q", f)
	return r
}

func sameHandles(a, b *keyset.Handle) (bool, string) {
	if a.Len() != b.Len() {
		return false, fmt.Sprintf("%d vs %d keys", a.Len(), b.Len())
	}
	for i := 0; i < a.Len(); i++ {
		ea, err1 := a.Entry(i)
		eb, err2 := b.Entry(i)
		if err1 != nil || err2 != nil {
			return false, fmt.Sprintf("Entry(%d): %v, %v", i, err1, err2)
		}
		if ea.KeyID() != eb.KeyID() || ea.KeyStatus() != eb.KeyStatus() || ea.IsPrimary() != eb.IsPrimary() {
			return false, fmt.Sprintf("entry %d: id/status/primary differ", i)
		}
		if !ea.Key().Equal(eb.Key()) {
			return false, fmt.Sprintf("entry %d: keys not Equal", i)
		}
	}
	return true, ""
}

// exercise runs the factory groups on an accepted handle under the GENERAL oracle: an INCONSISTENT
// result is a failure.  extra names additional (wrong class) factory groups to probe.  It returns
// the outcome per group.
func (e *env) exercise(h *keyset.Handle, info *tinkpb.KeysetInfo, in inputs, extra ...string) map[string]result {
	out := map[string]result{}
	fs := append(append([]string{}, factoriesFor(info)...), extra...)
	for _, f := range fs {
		if _, done := out[f]; done {
			continue
		}
		r := e.runFactory(f, h, info, in)
		out[f] = r
		if r.outcome == oInconsistent {
			evid.Add("inconsistent", 1)
			e.failf("factory group %q returned a primitive that is not self-consistent (primary key type %s): %s", f, primaryType(info), r.detail)
		}
	}
	return out
}

// best summarises the outcomes of a handle for the evidence histogram.
func best(rs map[string]result) string {
	rank := map[string]int{oConsistent: 6, "slhdsa-excepted": 5, oPublicOnly: 4, oHalf: 3, oSkipped: 2, oUseErr: 1, oFactoryErr: 0}
	b := oFactoryErr
	keys := make([]string, 0, len(rs))
	for k := range rs {
		keys = append(keys, k)
	}
	sort.Strings(keys)
	for _, k := range keys {
		if rank[rs[k].outcome] > rank[b] {
			b = rs[k].outcome
		}
	}
	switch b {
	case oFactoryErr:
		return "rejected-at-factory"
	case oUseErr:
		return "rejected-at-use"
	}
	return "accepted-" + b
}
