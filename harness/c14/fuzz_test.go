package c14

import (
	"bytes"
	"fmt"
	"hash/fnv"
	"strings"
	"sync"
	"testing"

	"google.golang.org/protobuf/encoding/protojson"
	"google.golang.org/protobuf/proto"
	"pgregory.net/rapid"

	"github.com/tink-crypto/tink-go/v2/insecurecleartextkeyset"
	"github.com/tink-crypto/tink-go/v2/keyset"
	tinkpb "github.com/tink-crypto/tink-go/v2/proto/tink_go_proto"
	"github.com/tink-crypto/tink-go/v2/verifharness/internal/detrand"
	"github.com/tink-crypto/tink-go/v2/verifharness/internal/keys"
	"github.com/tink-crypto/tink-go/v2/verifharness/internal/legacykm"
)

// Native fuzz targets.  In-target oracle: a keyset that the protobuf library parses and that has a
// structural defect must be rejected; an accepted handle must be well formed (checkHandle) and is
// exercised with fixed small inputs under the general oracle (exercise, "lite": no SLH-DSA
// signing); panics of the library are failures by themselves.

var fuzzIn = inputs{msg: []byte("c14 fuzz message"), aad: []byte("c14 aad"), lite: true}

func seedOf(data []byte) uint64 {
	h := fnv.New64a()
	h.Write(data)
	return h.Sum64()
}

type seedKeyset struct {
	name string
	ks   *tinkpb.Keyset
}

var (
	seedsOnce sync.Once
	seeds     []seedKeyset
)

// seedKeysets: one valid single-key keyset per key type (private and, where it exists, public), two
// multi-key keysets, and the harness-owned legacy types; generated with the shared key generator
// from fixed seeds, so that every fuzz worker computes the same corpus.
func seedKeysets() []seedKeyset {
	seedsOnce.Do(func() {
		detrand.Seed(0xC14F022)
		one := func(name string, ents ...*tinkpb.Keyset_Key) {
			ks := &tinkpb.Keyset{Key: ents, PrimaryKeyId: ents[0].KeyId}
			seeds = append(seeds, seedKeyset{name, ks})
		}
		for n, typ := range keys.AllTypes() {
			type pair struct{ priv, pub *tinkpb.Keyset_Key }
			p := rapid.Custom(func(t *rapid.T) pair {
				info := keys.DrawTypeUsable(t, "k", typ)
				if !serializable(info) {
					info = keys.DrawTypeUsable(t, "k_alt", keys.Types(info.Class)[0])
				}
				id := info.ID
				if !info.HasID {
					id = 0x01020304
				}
				out := pair{priv: entryOf(t, info.Key, id, tinkpb.KeyStatusType_ENABLED)}
				if info.Public != nil {
					out.pub = entryOf(t, info.Public, id, tinkpb.KeyStatusType_ENABLED)
				}
				return out
			}).Example(1000 + n)
			one(typ, p.priv)
			if p.pub != nil {
				one(typ+"-public", p.pub)
			}
		}
		// multi-key keysets with all statuses
		for n, class := range []keys.Class{keys.AEAD, keys.MAC, keys.Signature, keys.Hybrid} {
			ents := rapid.Custom(func(t *rapid.T) []*tinkpb.Keyset_Key {
				var out []*tinkpb.Keyset_Key
				for i, st := range []tinkpb.KeyStatusType{tinkpb.KeyStatusType_ENABLED, tinkpb.KeyStatusType_DISABLED, tinkpb.KeyStatusType_DESTROYED} {
					info := keys.DrawTypeUsable(t, fmt.Sprintf("k%d", i), keys.Types(class)[0])
					sib, ok := info.WithVariantID(info.Variant, uint32(100+i))
					if ok {
						info = sib
					}
					out = append(out, entryOf(t, info.Key, uint32(100+i), st))
				}
				return out
			}).Example(2000 + n)
			one("multi-"+string(class), ents...)
		}
		for _, url := range []string{legacykm.MacURL, legacykm.AeadURL, legacykm.SignerURL, legacykm.VerifierURL, legacykm.HybridPrivURL, legacykm.RemoteURL} {
			val := bytes.Repeat([]byte{0x42}, 32)
			switch url {
			case legacykm.VerifierURL:
				val = legacykm.PublicOfSeed(val)
			}
			one("legacy-"+shortType(url), legacykm.Key(url, val, legacykm.Material(url), tinkpb.OutputPrefixType_TINK, 7, tinkpb.KeyStatusType_ENABLED))
		}
	})
	return seeds
}

func mustMarshal(m proto.Message) []byte {
	b, err := proto.MarshalOptions{Deterministic: true}.Marshal(m)
	if err != nil {
		panic(err)
	}
	return b
}

func jsonOf(ks *tinkpb.Keyset) []byte {
	var buf bytes.Buffer
	if err := keyset.NewJSONWriter(&buf).Write(ks); err != nil {
		panic(err)
	}
	return buf.Bytes()
}

// hostileBinary: hand-made byte strings around the protobuf wire format.
func hostileBinary() [][]byte {
	hmacURL := urlPrefix + "HmacKey"
	nest := func(tag byte, depth int) []byte { // tag len tag len ... : each level claims the rest
		var b []byte
		for i := depth; i > 0; i-- {
			inner := b
			b = append([]byte{tag, byte(len(inner))}, inner...)
			if len(b) > 120 {
				break
			}
		}
		return b
	}
	key := func(value []byte) []byte {
		return mustMarshal(&tinkpb.Keyset{PrimaryKeyId: 1, Key: []*tinkpb.Keyset_Key{{KeyId: 1, Status: tinkpb.KeyStatusType_ENABLED, OutputPrefixType: tinkpb.OutputPrefixType_TINK,
			KeyData: &tinkpb.KeyData{TypeUrl: hmacURL, KeyMaterialType: tinkpb.KeyData_SYMMETRIC, Value: value}}}})
	}
	return [][]byte{
		{},
		{0x08, 0xff, 0xff, 0xff, 0xff, 0xff, 0xff, 0xff, 0xff, 0xff, 0x01},       // 10-byte varint primary id
		{0x08, 0xff, 0xff, 0xff, 0xff, 0xff, 0xff, 0xff, 0xff, 0xff, 0xff, 0x01}, // over-long varint
		{0x12, 0xff, 0xff, 0xff, 0xff, 0x0f},                                     // key of 2^32-1 bytes
		{0x12, 0xff, 0xff, 0xff, 0xff, 0xff, 0xff, 0xff, 0xff, 0x7f},             // key of 2^63-1 bytes
		{0x12, 0x02, 0x0a, 0xff},                                                 // truncated KeyData length
		{0x12, 0x00},                                                             // empty key entry
		{0x12, 0x00, 0x12, 0x00, 0x08, 0x00},                                     // two empty entries, both id 0 = primary
		nest(0x12, 100), nest(0x0a, 100),
		{0x0b, 0x0b, 0x0b, 0x0b, 0x0c}, // start-group tags
		// HmacKey protos: version 2^32-1; tag_size 2^32-1; 4 GiB claimed key_value
		key([]byte{0x08, 0xff, 0xff, 0xff, 0xff, 0x0f}),
		key([]byte{0x12, 0x08, 0x08, 0x03, 0x10, 0xff, 0xff, 0xff, 0xff, 0x0f, 0x1a, 0x10, 1, 2, 3, 4, 5, 6, 7, 8, 9, 10, 11, 12, 13, 14, 15, 16}),
		key([]byte{0x1a, 0xff, 0xff, 0xff, 0xff, 0x0f, 1, 2, 3}),
		key(nil),
	}
}

func hostileJSON() []string {
	return []string{
		``, `{}`, `[]`, `null`, `{"key":null}`, `{"key":[]}`, `{"key":[{}]}`, `{"key":[null]}`,
		`{"primaryKeyId":4294967295,"key":[{"keyData":{"typeUrl":"type.googleapis.com/google.crypto.tink.HmacKey","value":"AAAA","keyMaterialType":"SYMMETRIC"},"status":"ENABLED","keyId":4294967295,"outputPrefixType":"TINK"}]}`,
		`{"primaryKeyId":4294967296,"key":[]}`, `{"primaryKeyId":-1}`, `{"primaryKeyId":"1","key":[{"keyId":"1","status":1,"outputPrefixType":99,"keyData":{}}]}`,
		`{"primaryKeyId":1e0,"key":[{"keyId":1.0,"status":"ENABLED","outputPrefixType":"RAW","keyData":{"typeUrl":"","value":"!!!!"}}]}`,
		`{"primaryKeyId":1,"key":[{"keyId":1,"status":"UNKNOWN_STATUS","outputPrefixType":"UNKNOWN_PREFIX","keyData":{"typeUrl":"x","value":"","keyMaterialType":"REMOTE"}}]}`,
		`{"primaryKeyId":1,"primaryKeyId":2}`, `{"unknownField":1}`,
		strings.Repeat(`{"key":[`, 200), strings.Repeat("[", 20000),
		`{"encryptedKeyset":"AAAA","keysetInfo":{"primaryKeyId":1,"keyInfo":[{"typeUrl":"x","status":"ENABLED","keyId":1,"outputPrefixType":"TINK"}]}}`,
	}
}

// fuzzDecide: defect model + well-formedness + exercise for one handle a reader returned.
func fuzzDecide(t *testing.T, reader string, parsed *tinkpb.Keyset, h *keyset.Handle, err error, raw []byte) {
	e := &env{f: t, what: fmt.Sprintf("reader %s, input %x", reader, raw), ksText: func() string { return ksText(parsed) }}
	if err != nil {
		return
	}
	if parsed != nil {
		if d := structuralDefect(parsed); d != "" {
			e.failf("reader %q ACCEPTED a keyset that must be rejected (%s)", reader, d)
		}
	}
	info := e.checkHandle(h)
	e.exercise(h, info, fuzzIn)
}

func FuzzBinaryKeyset(f *testing.F) {
	for _, s := range seedKeysets() {
		b := mustMarshal(s.ks)
		f.Add(b)
		f.Add(b[:len(b)/2])
	}
	for _, b := range hostileBinary() {
		f.Add(b)
	}
	f.Fuzz(func(t *testing.T, data []byte) {
		detrand.Seed(seedOf(data))
		var parsed *tinkpb.Keyset
		ks := &tinkpb.Keyset{}
		if proto.Unmarshal(data, ks) == nil {
			parsed = ks
		}
		e := &env{f: t, what: fmt.Sprintf("binary input %x", data), ksText: func() string { return ksText(parsed) }}
		var h *keyset.Handle
		var err error
		e.guard("insecurecleartextkeyset.Read(BinaryReader)", func() {
			h, err = insecurecleartextkeyset.Read(keyset.NewBinaryReader(bytes.NewReader(data)))
		})
		fuzzDecide(t, "cleartext-binary", parsed, h, err, data)
		var h2 *keyset.Handle
		var err2 error
		e.guard("keyset.ReadWithNoSecrets(BinaryReader)", func() {
			h2, err2 = keyset.ReadWithNoSecrets(keyset.NewBinaryReader(bytes.NewReader(data)))
		})
		fuzzCheckOnly(t, "nosecrets-binary", parsed, h2, err2, data)
	})
}

func FuzzJSONKeyset(f *testing.F) {
	for _, s := range seedKeysets() {
		b := jsonOf(s.ks)
		f.Add(b)
		f.Add(b[:len(b)/2])
	}
	for _, s := range hostileJSON() {
		f.Add([]byte(s))
	}
	f.Fuzz(func(t *testing.T, data []byte) {
		detrand.Seed(seedOf(data))
		var parsed *tinkpb.Keyset
		ks := &tinkpb.Keyset{}
		if (protojson.UnmarshalOptions{}).Unmarshal(data, ks) == nil {
			parsed = ks
		}
		e := &env{f: t, what: fmt.Sprintf("JSON input %q", data), ksText: func() string { return ksText(parsed) }}
		var h *keyset.Handle
		var err error
		e.guard("insecurecleartextkeyset.Read(JSONReader)", func() {
			h, err = insecurecleartextkeyset.Read(keyset.NewJSONReader(bytes.NewReader(data)))
		})
		fuzzDecide(t, "cleartext-json", parsed, h, err, data)
		var h2 *keyset.Handle
		var err2 error
		e.guard("keyset.ReadWithNoSecrets(JSONReader)", func() {
			h2, err2 = keyset.ReadWithNoSecrets(keyset.NewJSONReader(bytes.NewReader(data)))
		})
		fuzzCheckOnly(t, "nosecrets-json", parsed, h2, err2, data)
		// the same text as an EncryptedKeyset message
		e.guard("keyset.Read(JSONReader) as EncryptedKeyset", func() {
			keyset.Read(keyset.NewJSONReader(bytes.NewReader(data)), newKEK())
		})
	})
}

// fuzzCheckOnly: defect model + well-formedness, without exercising the handle again.
func fuzzCheckOnly(t *testing.T, reader string, parsed *tinkpb.Keyset, h *keyset.Handle, err error, raw []byte) {
	if err != nil {
		return
	}
	e := &env{f: t, what: fmt.Sprintf("reader %s, input %x", reader, raw), ksText: func() string { return ksText(parsed) }}
	if parsed != nil {
		if d := structuralDefect(parsed); d != "" {
			e.failf("reader %q ACCEPTED a keyset that must be rejected (%s)", reader, d)
		}
	}
	e.checkHandle(h)
}

func FuzzEncryptedKeyset(f *testing.F) {
	kek := newKEK()
	for _, s := range seedKeysets() {
		b := mustMarshal(s.ks)
		f.Add(b, []byte{})
		f.Add(b, []byte("associated data"))
		// a genuine EncryptedKeyset (fixed nonce stream: detrand is seeded by seedKeysets)
		ct, err := kek.Encrypt(b, []byte("ad"))
		if err != nil {
			f.Fatal(err)
		}
		f.Add(mustMarshal(&tinkpb.EncryptedKeyset{EncryptedKeyset: ct}), []byte("ad"))
	}
	for _, b := range hostileBinary() {
		f.Add(b, []byte{})
	}
	f.Add([]byte{0x12, 0x00}, []byte{})                                     // EncryptedKeyset: field 2 is encrypted_keyset
	f.Add([]byte{0x12, 0x0c, 0, 0, 0, 0, 0, 0, 0, 0, 0, 0, 0, 0}, []byte{}) // 12 bytes: nonce only
	f.Add([]byte{0x12, 0xff, 0xff, 0xff, 0xff, 0x0f}, []byte{})
	f.Fuzz(func(t *testing.T, data, ad []byte) {
		detrand.Seed(seedOf(data) ^ seedOf(ad))
		e := &env{f: t, what: fmt.Sprintf("encrypted input %x ad %x", data, ad), ksText: func() string { return "<see input>" }}
		// (1) data as the serialized EncryptedKeyset
		var h *keyset.Handle
		var err error
		e.guard("keyset.ReadWithAssociatedData(BinaryReader, raw input)", func() {
			h, err = keyset.ReadWithAssociatedData(keyset.NewBinaryReader(bytes.NewReader(data)), kek, ad)
		})
		if err == nil {
			// only possible when the input carries a valid AEAD ciphertext under the harness KEK
			var parsed *tinkpb.Keyset
			enc := &tinkpb.EncryptedKeyset{}
			if proto.Unmarshal(data, enc) == nil {
				if pt, derr := kek.Decrypt(enc.EncryptedKeyset, ad); derr == nil {
					ks := &tinkpb.Keyset{}
					if proto.Unmarshal(pt, ks) == nil {
						parsed = ks
					}
				}
			}
			fuzzDecide(t, "encrypted-binary(raw)", parsed, h, err, data)
		}
		e.guard("keyset.ReadWithAssociatedData(JSONReader, raw input)", func() {
			keyset.ReadWithAssociatedData(keyset.NewJSONReader(bytes.NewReader(data)), kek, ad)
		})
		// (2) data as the cleartext keyset, encrypted here under the KEK
		ct, cerr := kek.Encrypt(data, ad)
		if cerr != nil {
			t.Fatalf("harness: KEK encryption failed: %v", cerr)
		}
		encBin := mustMarshal(&tinkpb.EncryptedKeyset{EncryptedKeyset: ct})
		var parsed *tinkpb.Keyset
		ks := &tinkpb.Keyset{}
		if proto.Unmarshal(data, ks) == nil {
			parsed = ks
		}
		e.ksText = func() string { return ksText(parsed) }
		e.guard("keyset.ReadWithAssociatedData(BinaryReader, encrypted here)", func() {
			h, err = keyset.ReadWithAssociatedData(keyset.NewBinaryReader(bytes.NewReader(encBin)), kek, ad)
		})
		fuzzDecide(t, "encrypted-binary", parsed, h, err, data)
		// other associated data, truncated ciphertext: no panic
		e.guard("keyset.ReadWithAssociatedData(wrong ad / truncated)", func() {
			keyset.ReadWithAssociatedData(keyset.NewBinaryReader(bytes.NewReader(encBin)), kek, append([]byte{0x55}, ad...))
			keyset.ReadWithAssociatedData(keyset.NewBinaryReader(bytes.NewReader(encBin[:len(encBin)/2])), kek, ad)
		})
	})
}
