package c14

// KmsEnvelopeAeadKey keysets: material type REMOTE, value = KmsEnvelopeAeadKey{version, params{kek_uri,
// dek_template}}.  The key type has no proto parser (it lives in the handle as a fallback key) and its
// key manager parses the value only when aead.New asks for the primitive: the structured mutator
// therefore reaches kek_uri and - through the KeyTemplate it embeds - every field of the DEK key
// format.  The key-encryption key is served by testing/fakekms (the URI carries a cleartext AES-GCM
// keyset), so that an unmutated keyset yields a working primitive.

import (
	"encoding/base64"
	"fmt"

	"google.golang.org/protobuf/proto"
	"google.golang.org/protobuf/reflect/protoreflect"
	"pgregory.net/rapid"

	"github.com/tink-crypto/tink-go/v2/aead"
	"github.com/tink-crypto/tink-go/v2/core/registry"
	"github.com/tink-crypto/tink-go/v2/internal/protoserialization"
	gcmpb "github.com/tink-crypto/tink-go/v2/proto/aes_gcm_go_proto"
	kmsepb "github.com/tink-crypto/tink-go/v2/proto/kms_envelope_go_proto"
	tinkpb "github.com/tink-crypto/tink-go/v2/proto/tink_go_proto"
	"github.com/tink-crypto/tink-go/v2/testing/fakekms"
	"github.com/tink-crypto/tink-go/v2/verifharness/internal/gen"
	"github.com/tink-crypto/tink-go/v2/verifharness/internal/keys"
)

const (
	envelopeClass keys.Class = "envelope"
	envelopeURL              = urlPrefix + "KmsEnvelopeAeadKey"
)

func registerFakeKMS() {
	c, err := fakekms.NewClient("fake-kms://")
	if err != nil {
		panic(err)
	}
	registry.RegisterKMSClient(c)
}

// fakeKMSURI is a fake-kms key URI whose key-encryption key is the AES-128-GCM key `kek`.
func fakeKMSURI(kek []byte) string {
	ks := &tinkpb.Keyset{PrimaryKeyId: 1, Key: []*tinkpb.Keyset_Key{{
		KeyData: &tinkpb.KeyData{TypeUrl: urlPrefix + "AesGcmKey", Value: mustMarshal(&gcmpb.AesGcmKey{KeyValue: kek}), KeyMaterialType: tinkpb.KeyData_SYMMETRIC},
		Status:  tinkpb.KeyStatusType_ENABLED, KeyId: 1, OutputPrefixType: tinkpb.OutputPrefixType_TINK}}}
	return "fake-kms://" + base64.RawURLEncoding.EncodeToString(mustMarshal(ks))
}

// envelopeDEKTypes: the DEK key types the envelope AEAD supports (aead.tinkAEADKeyTypes).
var envelopeDEKTypes = []string{"AesGcm", "AesCtrHmacAead", "AesGcmSiv", "ChaCha20Poly1305", "XChaCha20Poly1305"}

// drawDEKTemplate draws a DEK template: the serialized parameters of a generated usable key of one
// of the supported types (every parameter combination of the generator), prefix type as serialized.
func drawDEKTemplate(rt *rapid.T, label string) (*tinkpb.KeyTemplate, string) {
	info := keys.DrawTypeUsable(rt, label, rapid.SampledFrom(envelopeDEKTypes).Draw(rt, label+"_type"))
	tmpl, err := protoserialization.SerializeParameters(info.Key.Parameters())
	if err != nil {
		rt.Fatalf("harness: SerializeParameters of the usable %s: %v", info.Desc, err)
	}
	desc := info.Type + " parameters of {" + info.Desc + "}"
	// A DEK is serialized and encrypted under the KEK on every Encrypt, and the envelope format
	// bounds the encrypted DEK (4096 bytes).  The only supported DEK type with an unbounded size field
	// is AES-CTR-HMAC (HMAC key size): templates whose keys serialize to just below and above that
	// bound are valid key formats, so the handle is accepted; the primitive has to stay
	// self-consistent - refusing to encrypt is fine, producing what it cannot decrypt is not
	// (added after seeded change C14h).
	if info.Type == "AesCtrHmacAead" && rapid.IntRange(0, 1).Draw(rt, label+"_big_hmac_key") == 0 {
		n := uint32(rapid.SampledFrom([]int{3000, 3900, 4000, 4020, 4040, 4060, 4080, 4100, 5000, 70000}).Draw(rt, label+"_hmac_key_size"))
		nv, d := transform(tmpl.GetTypeUrl(), tmpl.GetValue(), true, func(m protoreflect.Message) string {
			setUint32(m, "hmac_key_format.key_size", n)
			return fmt.Sprintf("hmac_key_format.key_size %d", n)
		})
		if d == "" {
			rt.Fatalf("harness: cannot rewrite the key format of %s", tmpl.GetTypeUrl())
		}
		tmpl = proto.Clone(tmpl).(*tinkpb.KeyTemplate)
		tmpl.Value = nv
		desc += " with " + d
	}
	return tmpl, desc
}

func envelopeEntry(rt *rapid.T, uri string, dek *tinkpb.KeyTemplate, prefix tinkpb.OutputPrefixType, id uint32, st tinkpb.KeyStatusType) *tinkpb.Keyset_Key {
	val, err := proto.Marshal(&kmsepb.KmsEnvelopeAeadKey{Version: 0, Params: &kmsepb.KmsEnvelopeAeadKeyFormat{KekUri: uri, DekTemplate: dek}})
	if err != nil {
		rt.Fatalf("harness: marshal KmsEnvelopeAeadKey: %v", err)
	}
	return &tinkpb.Keyset_Key{KeyData: &tinkpb.KeyData{TypeUrl: envelopeURL, Value: val, KeyMaterialType: tinkpb.KeyData_REMOTE}, Status: st, KeyId: id, OutputPrefixType: prefix}
}

// drawEnvelopeBase fills b with 1..n KmsEnvelopeAeadKey entries (caller sets the primary).
func drawEnvelopeBase(rt *rapid.T, b *base, n int, used map[uint32]bool) {
	for i := 0; i < n; i++ {
		label := fmt.Sprintf("k%d", i)
		kek := gen.BytesN(rt, label+"_kek", 16)
		kek[3] = byte(i + 1) // every entry has its own key-encryption key
		dek, ddesc := drawDEKTemplate(rt, label+"_dek")
		id := freeID(used, gen.KeyID(rt, label+"_id"))
		used[id] = true
		pt := rapid.SampledFrom([]tinkpb.OutputPrefixType{tinkpb.OutputPrefixType_RAW, tinkpb.OutputPrefixType_RAW, tinkpb.OutputPrefixType_TINK, tinkpb.OutputPrefixType_LEGACY, tinkpb.OutputPrefixType_CRUNCHY}).Draw(rt, label+"_prefix")
		st := rapid.SampledFrom(knownStatuses).Draw(rt, label+"_status")
		b.ks.Key = append(b.ks.Key, envelopeEntry(rt, fakeKMSURI(kek), dek, pt, id, st))
		b.desc = append(b.desc, fmt.Sprintf("KmsEnvelopeAeadKey kek=%x dek=%s", kek, ddesc))
	}
}

// ---------------------------------------------------------------------------------------------
// weak DEK templates (TestWeakKeys): every message would be encrypted under a freshly generated key
// of the template, so a template below the minimum strengths never yields a usable primitive.

var envelopeWeakKinds = []string{"envelope-dek-aes-size", "envelope-dek-hmac-key", "envelope-dek-hmac-tag"}

func drawWeakEnvelope(rt *rapid.T, w *weak) {
	// The property lists minimum strengths of KEYS; a DEK template is a recipe for keys, one level down:
	// that it "never yields a usable primitive" is the harness's reading, not the text.  Run under the
	// general oracle, a working primitive is counted (observed_not_asserted/unasserted_weak_key_gives_primitive).
	w.group, w.asserted = fAEAD, false
	var tmpl *tinkpb.KeyTemplate
	var what string
	rewrite := func(t *tinkpb.KeyTemplate, op func(m protoreflect.Message) string) {
		nv, d := transform(t.GetTypeUrl(), t.GetValue(), true, op)
		if d == "" {
			rt.Fatalf("harness: cannot rewrite the key format of %s", t.GetTypeUrl())
		}
		tmpl = proto.Clone(t).(*tinkpb.KeyTemplate)
		tmpl.Value = nv
		what = shortType(t.GetTypeUrl()) + "Format " + d
	}
	switch w.kind {
	case "envelope-dek-aes-size":
		n := uint32(pickFrom(rt, "weak_size", weakAESSizes, 16, 32))
		switch rapid.SampledFrom([]string{"AesGcm", "AesGcmSiv", "AesCtrHmacAead"}).Draw(rt, "weak_dek_type") {
		case "AesGcm":
			rewrite(aead.AES256GCMKeyTemplate(), func(m protoreflect.Message) string {
				setUint32(m, "key_size", n)
				return fmt.Sprintf("key_size %d", n)
			})
		case "AesGcmSiv":
			rewrite(aead.AES256GCMSIVKeyTemplate(), func(m protoreflect.Message) string {
				setUint32(m, "key_size", n)
				return fmt.Sprintf("key_size %d", n)
			})
		default:
			rewrite(aead.AES256CTRHMACSHA256KeyTemplate(), func(m protoreflect.Message) string {
				setUint32(m, "aes_ctr_key_format.key_size", n)
				return fmt.Sprintf("aes_ctr_key_format.key_size %d", n)
			})
		}
	case "envelope-dek-hmac-key":
		n := uint32(rapid.IntRange(0, 15).Draw(rt, "weak_key_len"))
		rewrite(aead.AES256CTRHMACSHA256KeyTemplate(), func(m protoreflect.Message) string {
			setUint32(m, "hmac_key_format.key_size", n)
			return fmt.Sprintf("hmac_key_format.key_size %d", n)
		})
	case "envelope-dek-hmac-tag":
		n := uint32(rapid.IntRange(0, 9).Draw(rt, "weak_tag"))
		rewrite(aead.AES128CTRHMACSHA256KeyTemplate(), func(m protoreflect.Message) string {
			setUint32(m, "hmac_key_format.params.tag_size", n)
			return fmt.Sprintf("hmac_key_format.params.tag_size %d", n)
		})
	default:
		rt.Fatalf("harness: unknown envelope weak kind %s", w.kind)
	}
	kek := gen.BytesN(rt, "kek", 16)
	id := gen.KeyID(rt, "raw_id")
	pt := rapid.SampledFrom([]tinkpb.OutputPrefixType{tinkpb.OutputPrefixType_RAW, tinkpb.OutputPrefixType_TINK, tinkpb.OutputPrefixType_LEGACY, tinkpb.OutputPrefixType_CRUNCHY}).Draw(rt, "prefix")
	w.from = fmt.Sprintf("KmsEnvelopeAeadKey (fake-kms KEK %x, prefix %v) with the DEK template of aead.*KeyTemplate()", kek, pt)
	w.desc = "KmsEnvelopeAeadKey whose dek_template is " + what
	w.ks = &tinkpb.Keyset{PrimaryKeyId: id, Key: []*tinkpb.Keyset_Key{envelopeEntry(rt, fakeKMSURI(kek), tmpl, pt, id, tinkpb.KeyStatusType_ENABLED)}}
}
