package c14

import (
	"bytes"
	"context"
	"fmt"

	"google.golang.org/protobuf/proto"

	aeadsubtle "github.com/tink-crypto/tink-go/v2/aead/subtle"
	"github.com/tink-crypto/tink-go/v2/insecurecleartextkeyset"
	"github.com/tink-crypto/tink-go/v2/keyset"
	tinkpb "github.com/tink-crypto/tink-go/v2/proto/tink_go_proto"
	"github.com/tink-crypto/tink-go/v2/tink"
	"github.com/tink-crypto/tink-go/v2/verifharness/internal/evid"
	"github.com/tink-crypto/tink-go/v2/verifharness/internal/tk"
)

// kekKey is the harness key-encryption key (AES-256-GCM) for EncryptedKeyset inputs.
var kekKey = []byte("c14 harness key encryption key!!")

func newKEK() tink.AEAD {
	a, err := aeadsubtle.NewAESGCM(kekKey)
	if err != nil {
		panic(err)
	}
	return a
}

func cloneKeyset(ks *tinkpb.Keyset) *tinkpb.Keyset {
	if ks == nil {
		return nil
	}
	out := &tinkpb.Keyset{PrimaryKeyId: ks.PrimaryKeyId}
	for _, k := range ks.Key {
		if k == nil {
			out.Key = append(out.Key, nil)
		} else {
			out.Key = append(out.Key, proto.Clone(k).(*tinkpb.Keyset_Key))
		}
	}
	return out
}

func hasNilEntry(ks *tinkpb.Keyset) bool {
	for _, k := range ks.GetKey() {
		if k == nil {
			return true
		}
	}
	return false
}

// structuralDefect returns the reason why the property demands rejection of ks ("" if none):
// empty keyset, no ENABLED key carrying the primary ID (absent, DISABLED, DESTROYED), a repeated
// ID, or an enum value that the KeyStatusType / OutputPrefixType enums do not define (0 is
// UNKNOWN_STATUS / UNKNOWN_PREFIX).  A nil entry or nil key data are NOT listed by the property
// among the always-rejected inputs; they run under the general oracle.
func structuralDefect(ks *tinkpb.Keyset) string {
	if ks == nil || len(ks.Key) == 0 {
		return "empty keyset"
	}
	seen := map[uint32]bool{}
	primaryEnabled := false
	for i, k := range ks.Key {
		if k == nil {
			continue
		}
		if seen[k.KeyId] {
			return fmt.Sprintf("repeated key ID %d", k.KeyId)
		}
		seen[k.KeyId] = true
		switch k.Status {
		case tinkpb.KeyStatusType_ENABLED, tinkpb.KeyStatusType_DISABLED, tinkpb.KeyStatusType_DESTROYED:
		default:
			return fmt.Sprintf("key %d has status enum value %d", i, int32(k.Status))
		}
		switch k.OutputPrefixType {
		case tinkpb.OutputPrefixType_TINK, tinkpb.OutputPrefixType_LEGACY, tinkpb.OutputPrefixType_RAW, tinkpb.OutputPrefixType_CRUNCHY, tinkpb.OutputPrefixType_WITH_ID_REQUIREMENT:
		default:
			return fmt.Sprintf("key %d has output prefix enum value %d", i, int32(k.OutputPrefixType))
		}
		if k.KeyId == ks.PrimaryKeyId && k.Status == tinkpb.KeyStatusType_ENABLED {
			primaryEnabled = true
		}
	}
	if !primaryEnabled {
		return fmt.Sprintf("no ENABLED key has the primary ID %d", ks.PrimaryKeyId)
	}
	return ""
}

type accepted struct {
	reader string
	h      *keyset.Handle
}

// readAll hands ks to every reader and returns the handles that were accepted.  rejects counts
// the readers that returned an error.  ad is the associated data of the EncryptedKeyset inputs.
func (e *env) readAll(ks *tinkpb.Keyset, ad []byte) (acc []accepted, rejects int) {
	add := func(name string, h *keyset.Handle, err error) {
		if err != nil {
			rejects++
			return
		}
		acc = append(acc, accepted{name, h})
	}
	var h *keyset.Handle
	var err error
	// in-memory messages
	e.guard("insecurecleartextkeyset.Read(MemReaderWriter)", func() {
		h, err = insecurecleartextkeyset.Read(&keyset.MemReaderWriter{Keyset: cloneKeyset(ks)})
	})
	add("cleartext-mem", h, err)
	e.guard("keyset.NewHandleWithNoSecrets", func() { h, err = keyset.NewHandleWithNoSecrets(cloneKeyset(ks)) })
	add("nosecrets-proto", h, err)
	e.guard("keyset.ReadWithNoSecrets(MemReaderWriter)", func() {
		h, err = keyset.ReadWithNoSecrets(&keyset.MemReaderWriter{Keyset: cloneKeyset(ks)})
	})
	add("nosecrets-mem", h, err)
	e.guard("insecurecleartextkeyset.KeysetHandle", func() {
		h = insecurecleartextkeyset.KeysetHandle(cloneKeyset(ks))
		err = nil
		if h == nil {
			err = fmt.Errorf("nil handle")
		}
	})
	add("cleartext-KeysetHandle", h, err)
	if hasNilEntry(ks) || ks == nil {
		return acc, rejects // not representable on the wire
	}
	bin, merr := proto.MarshalOptions{Deterministic: true}.Marshal(ks)
	if merr != nil {
		evid.Add("unmarshalable_keyset", 1)
		return acc, rejects
	}
	var jsonBuf bytes.Buffer
	jerr := keyset.NewJSONWriter(&jsonBuf).Write(ks)
	e.guard("insecurecleartextkeyset.Read(BinaryReader)", func() {
		h, err = insecurecleartextkeyset.Read(keyset.NewBinaryReader(bytes.NewReader(bin)))
	})
	add("cleartext-binary", h, err)
	e.guard("keyset.ReadWithNoSecrets(BinaryReader)", func() {
		h, err = keyset.ReadWithNoSecrets(keyset.NewBinaryReader(bytes.NewReader(bin)))
	})
	add("nosecrets-binary", h, err)
	if jerr == nil {
		e.guard("insecurecleartextkeyset.Read(JSONReader)", func() {
			h, err = insecurecleartextkeyset.Read(keyset.NewJSONReader(bytes.NewReader(jsonBuf.Bytes())))
		})
		add("cleartext-json", h, err)
		e.guard("keyset.ReadWithNoSecrets(JSONReader)", func() {
			h, err = keyset.ReadWithNoSecrets(keyset.NewJSONReader(bytes.NewReader(jsonBuf.Bytes())))
		})
		add("nosecrets-json", h, err)
	}
	// encrypted keysets under the harness KEK
	kek := newKEK()
	ct, cerr := kek.Encrypt(bin, ad)
	if cerr != nil {
		e.failf("harness: KEK encryption failed: %v", cerr)
	}
	enc := &tinkpb.EncryptedKeyset{EncryptedKeyset: ct}
	encBin, merr := proto.Marshal(enc)
	if merr != nil {
		e.failf("harness: marshalling the EncryptedKeyset failed: %v", merr)
	}
	e.guard("keyset.ReadWithAssociatedData(BinaryReader)", func() {
		h, err = keyset.ReadWithAssociatedData(keyset.NewBinaryReader(bytes.NewReader(encBin)), kek, ad)
	})
	add("encrypted-binary", h, err)
	// every ReadWithAssociatedData call has a ReadWithContext twin (same format, separate code path)
	ctx, ckek := context.Background(), tk.CtxAEAD(kek)
	e.guard("keyset.ReadWithContext(BinaryReader)", func() {
		h, err = keyset.ReadWithContext(ctx, keyset.NewBinaryReader(bytes.NewReader(encBin)), ckek, ad)
	})
	add("encrypted-ctx-binary", h, err)
	if len(ad) == 0 {
		e.guard("keyset.Read(BinaryReader)", func() {
			h, err = keyset.Read(keyset.NewBinaryReader(bytes.NewReader(encBin)), kek)
		})
		add("encrypted-binary-noad", h, err)
	}
	var encJSON bytes.Buffer
	if werr := keyset.NewJSONWriter(&encJSON).WriteEncrypted(enc); werr == nil {
		e.guard("keyset.ReadWithAssociatedData(JSONReader)", func() {
			h, err = keyset.ReadWithAssociatedData(keyset.NewJSONReader(bytes.NewReader(encJSON.Bytes())), kek, ad)
		})
		add("encrypted-json", h, err)
		e.guard("keyset.ReadWithContext(JSONReader)", func() {
			h, err = keyset.ReadWithContext(ctx, keyset.NewJSONReader(bytes.NewReader(encJSON.Bytes())), ckek, ad)
		})
		add("encrypted-ctx-json", h, err)
	}
	e.guard("keyset.ReadWithAssociatedData(MemReaderWriter)", func() {
		h, err = keyset.ReadWithAssociatedData(&keyset.MemReaderWriter{EncryptedKeyset: proto.Clone(enc).(*tinkpb.EncryptedKeyset)}, kek, ad)
	})
	add("encrypted-mem", h, err)
	e.guard("keyset.ReadWithContext(MemReaderWriter)", func() {
		h, err = keyset.ReadWithContext(ctx, &keyset.MemReaderWriter{EncryptedKeyset: proto.Clone(enc).(*tinkpb.EncryptedKeyset)}, ckek, ad)
	})
	add("encrypted-ctx-mem", h, err)
	// an EncryptedKeyset whose (unauthenticated) KeysetInfo contradicts the keyset: the info is ignored
	// or the input rejected, the handle is well formed either way
	liar := &tinkpb.EncryptedKeyset{EncryptedKeyset: ct, KeysetInfo: &tinkpb.KeysetInfo{PrimaryKeyId: ks.PrimaryKeyId + 1, KeyInfo: []*tinkpb.KeysetInfo_KeyInfo{nil, {TypeUrl: "x", Status: 9, KeyId: 1, OutputPrefixType: 9}}}}
	e.guard("keyset.ReadWithAssociatedData(MemReaderWriter, contradicting KeysetInfo)", func() {
		h, err = keyset.ReadWithAssociatedData(&keyset.MemReaderWriter{EncryptedKeyset: liar}, kek, ad)
	})
	add("encrypted-mem-contradicting-info", h, err)
	e.guard("keyset.ReadWithContext(MemReaderWriter, contradicting KeysetInfo)", func() {
		h, err = keyset.ReadWithContext(ctx, &keyset.MemReaderWriter{EncryptedKeyset: proto.Clone(liar).(*tinkpb.EncryptedKeyset)}, ckek, ad)
	})
	add("encrypted-ctx-mem-contradicting-info", h, err)
	// wrong associated data, truncated ciphertext: errors, no panic
	e.guard("keyset.ReadWithAssociatedData / ReadWithContext(wrong ad / truncated)", func() {
		keyset.ReadWithAssociatedData(keyset.NewBinaryReader(bytes.NewReader(encBin)), kek, append([]byte{1}, ad...))
		keyset.ReadWithAssociatedData(keyset.NewBinaryReader(bytes.NewReader(encBin[:len(encBin)/2])), kek, ad)
		keyset.ReadWithContext(ctx, keyset.NewBinaryReader(bytes.NewReader(encBin)), ckek, append([]byte{1}, ad...))
		keyset.ReadWithContext(ctx, keyset.NewBinaryReader(bytes.NewReader(encBin[:len(encBin)/2])), ckek, ad)
	})
	// the encrypted readers without a key-encryption AEAD (a genuine EncryptedKeyset, nil KEK), and
	// every reader on an empty MemReaderWriter / a nil keyset: error or well-formed handle, no panic
	e.degenerateCalls(encBin, encJSON.Bytes(), enc, ad)
	return acc, rejects
}

// degenerateCalls: every reader with nothing to read (MemReaderWriter{} has a nil Keyset and a nil
// EncryptedKeyset; NewHandleWithNoSecrets(nil); KeysetHandle(nil)) and every encrypted reader with a
// nil key-encryption AEAD on a genuine EncryptedKeyset.  Each call runs under guard (a panic is a
// failure).  Nothing to read is an empty keyset, which the property says is always rejected; a handle
// returned by a reader without KEK must at least be well formed.
func (e *env) degenerateCalls(encBin, encJSON []byte, enc *tinkpb.EncryptedKeyset, ad []byte) {
	kek := newKEK()
	ctx, ckek := context.Background(), tk.CtxAEAD(kek)
	nothingToRead := true
	trustedArgument := false // the nil KEK is the caller's argument, not untrusted input: a panic is counted only
	call := func(name string, fn func() (*keyset.Handle, error)) {
		var h *keyset.Handle
		var err error
		if trustedArgument {
			if p, _ := try(func() { h, err = fn() }); p != nil {
				evid.Add("observed_not_asserted/nil_kek_panic", 1)
				return
			}
		} else {
			e.guard(name, func() { h, err = fn() })
		}
		evid.Add("degenerate_reader_calls", 1)
		if err != nil {
			return
		}
		sub := *e
		sub.what = e.what + " / " + name
		if nothingToRead {
			sub.failf("%s returned a handle (%d keys) and no error: an empty keyset must be rejected", name, h.Len())
		}
		sub.checkHandle(h)
	}
	empty := func() *keyset.MemReaderWriter { return &keyset.MemReaderWriter{} }
	call("insecurecleartextkeyset.Read(MemReaderWriter{})", func() (*keyset.Handle, error) { return insecurecleartextkeyset.Read(empty()) })
	call("keyset.ReadWithNoSecrets(MemReaderWriter{})", func() (*keyset.Handle, error) { return keyset.ReadWithNoSecrets(empty()) })
	call("keyset.NewHandleWithNoSecrets(nil)", func() (*keyset.Handle, error) { return keyset.NewHandleWithNoSecrets(nil) })
	call("keyset.NewHandleWithNoSecrets(&Keyset{})", func() (*keyset.Handle, error) { return keyset.NewHandleWithNoSecrets(&tinkpb.Keyset{}) })
	call("insecurecleartextkeyset.KeysetHandle(nil)", func() (*keyset.Handle, error) {
		if h := insecurecleartextkeyset.KeysetHandle(nil); h != nil {
			return h, nil
		}
		return nil, fmt.Errorf("nil handle")
	})
	call("keyset.Read(MemReaderWriter{})", func() (*keyset.Handle, error) { return keyset.Read(empty(), kek) })
	call("keyset.ReadWithAssociatedData(MemReaderWriter{})", func() (*keyset.Handle, error) { return keyset.ReadWithAssociatedData(empty(), kek, ad) })
	call("keyset.ReadWithContext(MemReaderWriter{})", func() (*keyset.Handle, error) { return keyset.ReadWithContext(ctx, empty(), ckek, ad) })
	call("keyset.Read(MemReaderWriter{EncryptedKeyset{}})", func() (*keyset.Handle, error) {
		return keyset.Read(&keyset.MemReaderWriter{EncryptedKeyset: &tinkpb.EncryptedKeyset{}}, kek)
	})
	// nil key-encryption AEAD (the untyped nil interface value)
	nothingToRead, trustedArgument = false, true
	readers := map[string]func() keyset.Reader{
		"BinaryReader": func() keyset.Reader { return keyset.NewBinaryReader(bytes.NewReader(encBin)) },
		"MemReaderWriter": func() keyset.Reader {
			return &keyset.MemReaderWriter{EncryptedKeyset: proto.Clone(enc).(*tinkpb.EncryptedKeyset)}
		},
	}
	if len(encJSON) > 0 {
		readers["JSONReader"] = func() keyset.Reader { return keyset.NewJSONReader(bytes.NewReader(encJSON)) }
	}
	for _, rn := range []string{"BinaryReader", "JSONReader", "MemReaderWriter"} {
		mk, ok := readers[rn]
		if !ok {
			continue
		}
		call("keyset.Read("+rn+", nil KEK)", func() (*keyset.Handle, error) { return keyset.Read(mk(), nil) })
		call("keyset.ReadWithAssociatedData("+rn+", nil KEK)", func() (*keyset.Handle, error) { return keyset.ReadWithAssociatedData(mk(), nil, ad) })
		call("keyset.ReadWithContext("+rn+", nil KEK)", func() (*keyset.Handle, error) { return keyset.ReadWithContext(ctx, mk(), nil, ad) })
	}
}

// decide applies the model to the outcome of the readers: a keyset with a structural defect must
// be rejected by every reader; every accepted handle must be well formed; the first accepted
// handle is exercised under the general oracle.  It returns the outcome class.
func (e *env) decide(ks *tinkpb.Keyset, ad []byte, in inputs, extra ...string) (outcome string, info *tinkpb.KeysetInfo) {
	defect := structuralDefect(ks)
	acc, rejects := e.readAll(ks, ad)
	evid.Add("reader_calls", int64(len(acc)+rejects))
	evid.Add("reader_accepts", int64(len(acc)))
	if defect != "" {
		evid.Add("must_reject_checked", int64(len(acc)+rejects))
		if len(acc) > 0 {
			e.failf("reader %q ACCEPTED a keyset that must be rejected (%s)", acc[0].reader, defect)
		}
		return "rejected-at-read(structural)", nil
	}
	if len(acc) == 0 {
		return "rejected-at-read", nil
	}
	chosen, infos := e.checkAccepted(acc, in)
	sub := *e
	sub.what = e.what + " / reader " + acc[chosen].reader
	rs := sub.exercise(acc[chosen].h, infos[chosen], in, extra...)
	for f, r := range rs {
		evid.Add("factory_"+f+"_"+r.outcome, 1)
	}
	evid.Add("exercised_reader/"+acc[chosen].reader, 1)
	return best(rs), infos[chosen]
}

// checkAccepted checks every accepted handle for well-formedness and picks the one to exercise
// (in.pick, drawn by the caller: every reader's handle gets its turn, not only the first reader's).
// That all readers give the SAME handle for one keyset is not in the property text: disagreements in
// KeysetInfo or in the entries' keys (Equal) are counted, not asserted.
func (e *env) checkAccepted(acc []accepted, in inputs) (chosen int, infos []*tinkpb.KeysetInfo) {
	for _, a := range acc {
		sub := *e
		sub.what = e.what + " / reader " + a.reader
		infos = append(infos, sub.checkHandle(a.h))
	}
	chosen = int(in.pick % uint64(len(acc)))
	for i, a := range acc {
		if i == chosen {
			continue
		}
		if !proto.Equal(infos[chosen], infos[i]) {
			evid.Add("observed_not_asserted/readers_disagree_on_keysetinfo", 1)
		}
		var same bool
		if p, _ := try(func() { same, _ = sameHandles(acc[chosen].h, a.h) }); p != nil || !same {
			evid.Add("observed_not_asserted/readers_disagree_on_keys", 1)
		} else {
			evid.Add("readers_agree_on_keys", 1)
		}
	}
	return chosen, infos
}
