// Package c13 decides property C13: secret key material leaves a keyset handle only via insecure or
// encrypted paths.
//
//	TestNoSecretsGuard    NewHandleWithNoSecrets / ReadWithNoSecrets / WriteWithNoSecrets fail iff the
//	                      keyset holds symmetric, private or unknown-type material, at any position.
//	TestNoKeyBytesInInfo  String() / KeysetInfo() are exactly the metadata and contain no key bytes.
//	TestEncryptedKeyset   the encrypted form hides the key bytes, carries exactly the metadata, and can
//	                      be read only with the same KEK and associated data.
package c13

import (
	"bytes"
	"context"
	"fmt"
	"math"
	"os"
	"strings"
	"testing"

	"google.golang.org/protobuf/encoding/protojson"
	"google.golang.org/protobuf/encoding/prototext"
	"google.golang.org/protobuf/proto"
	"pgregory.net/rapid"

	"github.com/tink-crypto/tink-go/v2/aead"
	"github.com/tink-crypto/tink-go/v2/insecurecleartextkeyset"
	"github.com/tink-crypto/tink-go/v2/internal/internalapi"
	"github.com/tink-crypto/tink-go/v2/internal/protoserialization"
	"github.com/tink-crypto/tink-go/v2/key"
	"github.com/tink-crypto/tink-go/v2/keyset"
	ctrhmacpb "github.com/tink-crypto/tink-go/v2/proto/aes_ctr_hmac_aead_go_proto"
	gcmpb "github.com/tink-crypto/tink-go/v2/proto/aes_gcm_go_proto"
	gcmsivpb "github.com/tink-crypto/tink-go/v2/proto/aes_gcm_siv_go_proto"
	chachapb "github.com/tink-crypto/tink-go/v2/proto/chacha20_poly1305_go_proto"
	compositepb "github.com/tink-crypto/tink-go/v2/proto/composite_ml_dsa_go_proto"
	tinkpb "github.com/tink-crypto/tink-go/v2/proto/tink_go_proto"
	xaesgcmpb "github.com/tink-crypto/tink-go/v2/proto/x_aes_gcm_go_proto"
	xchachapb "github.com/tink-crypto/tink-go/v2/proto/xchacha20_poly1305_go_proto"
	"github.com/tink-crypto/tink-go/v2/tink"
	"github.com/tink-crypto/tink-go/v2/verifharness/internal/detrand"
	"github.com/tink-crypto/tink-go/v2/verifharness/internal/evid"
	"github.com/tink-crypto/tink-go/v2/verifharness/internal/gen"
	"github.com/tink-crypto/tink-go/v2/verifharness/internal/keys"
	"github.com/tink-crypto/tink-go/v2/verifharness/internal/kf"
	"github.com/tink-crypto/tink-go/v2/verifharness/internal/legacykm"
	"github.com/tink-crypto/tink-go/v2/verifharness/internal/tk"
)

const propID = "C13"

func TestMain(m *testing.M) {
	legacykm.Register()
	if err := selfCheckScanner(); err != nil {
		fmt.Fprintln(os.Stderr, err)
		os.Exit(2)
	}
	evid.Main(m)
}

// knownOrFail fails the case unless the coordinator has listed the finding signature.
func knownOrFail(rt *rapid.T, sig, msg string) {
	if kf.Listed(propID, sig) {
		kf.Report(propID, sig)
		evid.Add("excluded_known", 1)
		evid.Add("excluded_known/"+sig, 1)
		return
	}
	rt.Fatalf("%s", msg)
}

// ---------------------------------------------------------------------------------------------
// harness tables (written by hand, see also c12/fields_test.go)

const urlPrefix = "type.googleapis.com/google.crypto.tink."

// urlNames: proto message names per key type: {symmetric, private, public}.
var urlNames = map[string][3]string{
	"AesGcm": {"AesGcmKey"}, "AesCtrHmacAead": {"AesCtrHmacAeadKey"}, "AesGcmSiv": {"AesGcmSivKey"},
	"ChaCha20Poly1305": {"ChaCha20Poly1305Key"}, "XChaCha20Poly1305": {"XChaCha20Poly1305Key"}, "XAesGcm": {"XAesGcmKey"},
	"AesSiv": {"AesSivKey"}, "Hmac": {"HmacKey"}, "AesCmac": {"AesCmacKey"},
	"HmacPrf": {"HmacPrfKey"}, "HkdfPrf": {"HkdfPrfKey"}, "AesCmacPrf": {"AesCmacPrfKey"},
	"Ecdsa":               {"", "EcdsaPrivateKey", "EcdsaPublicKey"},
	"Ed25519":             {"", "Ed25519PrivateKey", "Ed25519PublicKey"},
	"RsaSsaPkcs1":         {"", "RsaSsaPkcs1PrivateKey", "RsaSsaPkcs1PublicKey"},
	"RsaSsaPss":           {"", "RsaSsaPssPrivateKey", "RsaSsaPssPublicKey"},
	"MlDsa":               {"", "MlDsaPrivateKey", "MlDsaPublicKey"},
	"SlhDsa":              {"", "SlhDsaPrivateKey", "SlhDsaPublicKey"},
	"CompositeMlDsa":      {"", "CompositeMlDsaPrivateKey", "CompositeMlDsaPublicKey"},
	"Hpke":                {"", "HpkePrivateKey", "HpkePublicKey"},
	"EciesAeadHkdf":       {"", "EciesAeadHkdfPrivateKey", "EciesAeadHkdfPublicKey"},
	"AesGcmHkdfStreaming": {"AesGcmHkdfStreamingKey"}, "AesCtrHmacStreaming": {"AesCtrHmacStreamingKey"},
	"JwtHmac":         {"JwtHmacKey"},
	"JwtEcdsa":        {"", "JwtEcdsaPrivateKey", "JwtEcdsaPublicKey"},
	"JwtRsaSsaPkcs1":  {"", "JwtRsaSsaPkcs1PrivateKey", "JwtRsaSsaPkcs1PublicKey"},
	"JwtRsaSsaPss":    {"", "JwtRsaSsaPssPrivateKey", "JwtRsaSsaPssPublicKey"},
	"JwtMlDsa":        {"", "JwtMlDsaPrivateKey", "JwtMlDsaPublicKey"},
	"PrfBasedDeriver": {"PrfBasedDeriverKey"},
}

func wantURLAndMaterial(typ string, public bool) (string, tinkpb.KeyData_KeyMaterialType) {
	n, ok := urlNames[typ]
	if !ok {
		panic("no URL entry for " + typ)
	}
	switch {
	case n[0] != "":
		return urlPrefix + n[0], tinkpb.KeyData_SYMMETRIC
	case public:
		return urlPrefix + n[2], tinkpb.KeyData_ASYMMETRIC_PUBLIC
	default:
		return urlPrefix + n[1], tinkpb.KeyData_ASYMMETRIC_PRIVATE
	}
}

func wantPrefixType(variant string) tinkpb.OutputPrefixType {
	switch variant {
	case tk.Tink:
		return tinkpb.OutputPrefixType_TINK
	case tk.Crunchy:
		return tinkpb.OutputPrefixType_CRUNCHY
	case tk.Legacy:
		return tinkpb.OutputPrefixType_LEGACY
	case tk.NoPrefix:
		return tinkpb.OutputPrefixType_RAW
	case keys.WithIDRequirement:
		return tinkpb.OutputPrefixType_WITH_ID_REQUIREMENT
	}
	panic("unknown variant " + variant)
}

var statusProto = map[keyset.KeyStatus]tinkpb.KeyStatusType{
	keyset.Enabled: tinkpb.KeyStatusType_ENABLED, keyset.Disabled: tinkpb.KeyStatusType_DISABLED, keyset.Destroyed: tinkpb.KeyStatusType_DESTROYED,
}

// isSecretMaterial: everything that is not positively public or remote. The material-type enum is
// open (proto3): a value this version of the library does not know is key material of unknown type.
func isSecretMaterial(m tinkpb.KeyData_KeyMaterialType) bool {
	return m != tinkpb.KeyData_ASYMMETRIC_PUBLIC && m != tinkpb.KeyData_REMOTE
}

// ---------------------------------------------------------------------------------------------
// TestNoSecretsGuard

var (
	publicClasses    = []keys.Class{keys.Signature, keys.Hybrid, keys.JWTSignature}
	symmetricClasses = []keys.Class{keys.AEAD, keys.DAEAD, keys.MAC, keys.PRF, keys.Streaming, keys.JWTMAC, keys.Deriver}
	// kinds of keyset entries
	nonSecretKinds = []string{"real-public", "legacy-public", "legacy-remote"}
	secretKinds    = []string{"real-symmetric", "real-private", "legacy-symmetric", "legacy-private", "legacy-unknown", "legacy-unknown-enum-value", "mislabelled", "nested-private-in-public"}
	allKinds       = append(append([]string{}, nonSecretKinds...), secretKinds...)
	legacyPrefixes = []tinkpb.OutputPrefixType{tinkpb.OutputPrefixType_TINK, tinkpb.OutputPrefixType_LEGACY, tinkpb.OutputPrefixType_RAW, tinkpb.OutputPrefixType_CRUNCHY}
	protoStatuses  = []tinkpb.KeyStatusType{tinkpb.KeyStatusType_ENABLED, tinkpb.KeyStatusType_ENABLED, tinkpb.KeyStatusType_DISABLED, tinkpb.KeyStatusType_DESTROYED}
)

type guardEntry struct {
	kind       string // as used (after substitution)
	typ        string // keys type name of a real key
	desc       string
	secret     bool // the oracle: the entry holds secret (or unknown-type) material
	mislabeled bool
	key        *tinkpb.Keyset_Key
}

func serializeToEntry(rt *rapid.T, k key.Key) (*tinkpb.KeyData, tinkpb.OutputPrefixType, bool) {
	ks, err := protoserialization.SerializeKey(k)
	if err != nil {
		return nil, 0, false
	}
	return proto.Clone(ks.KeyData()).(*tinkpb.KeyData), ks.OutputPrefixType(), true
}

func drawLegacy(rt *rapid.T, label string, urls []string, valueLen int, material tinkpb.KeyData_KeyMaterialType) (*tinkpb.KeyData, tinkpb.OutputPrefixType, string) {
	url := rapid.SampledFrom(urls).Draw(rt, label+"_url")
	if url == legacykm.DaeadURL {
		valueLen = 64
	}
	val := gen.BytesN(rt, label+"_value", valueLen)
	prefix := rapid.SampledFrom(legacyPrefixes).Draw(rt, label+"_prefix")
	return &tinkpb.KeyData{TypeUrl: url, Value: val, KeyMaterialType: material}, prefix, fmt.Sprintf("%s value=%s material=%v prefix=%v", url, gen.Hex(val), material, prefix)
}

// drawGuardEntry builds the key data of one entry of the drawn kind (ID and status are set by the caller).
func drawGuardEntry(rt *rapid.T, label, kind string) guardEntry {
	e := guardEntry{kind: kind}
	var kd *tinkpb.KeyData
	var prefix tinkpb.OutputPrefixType
	real := func(classes []keys.Class, public bool) bool {
		info := keys.Draw(rt, label+"_key", rapid.SampledFrom(classes).Draw(rt, label+"_class"))
		k := info.Key
		if public {
			k = info.Public
		}
		var ok bool
		if kd, prefix, ok = serializeToEntry(rt, k); !ok {
			evid.Add("substituted/"+kind+"/"+info.Type, 1)
			return false
		}
		e.desc, e.typ = info.Desc, info.Type
		if public {
			e.desc += " [public key]"
		}
		return true
	}
	switch kind {
	case "real-public":
		if !real(publicClasses, true) {
			return drawGuardEntry(rt, label+"_sub", "legacy-public")
		}
	case "real-symmetric":
		if !real(symmetricClasses, false) {
			return drawGuardEntry(rt, label+"_sub", "legacy-symmetric")
		}
	case "real-private":
		if !real(publicClasses, false) {
			return drawGuardEntry(rt, label+"_sub", "legacy-private")
		}
	case "mislabelled":
		// real secret key bytes under a label that claims "not secret": the keyset is not valid, the
		// only acceptable outcome of the no-secrets paths is an error
		if !real(append(append([]keys.Class{}, symmetricClasses...), publicClasses...), false) {
			return drawGuardEntry(rt, label+"_sub", "legacy-symmetric")
		}
		was := kd.GetKeyMaterialType()
		kd.KeyMaterialType = rapid.SampledFrom([]tinkpb.KeyData_KeyMaterialType{tinkpb.KeyData_ASYMMETRIC_PUBLIC, tinkpb.KeyData_REMOTE}).Draw(rt, label+"_label")
		e.desc += fmt.Sprintf(" [material type %v relabelled as %v]", was, kd.GetKeyMaterialType())
		e.mislabeled = true
	case "nested-private-in-public":
		// a composite ML-DSA PUBLIC key (outer material type ASYMMETRIC_PUBLIC) whose nested
		// classical_public_key is the KeyData of the classical PRIVATE key: private key material one
		// level down, where a check of the outer label does not look (found by the defect hunt: F28)
		info := keys.DrawType(rt, label+"_key", "CompositeMlDsa")
		privKD, _, ok1 := serializeToEntry(rt, info.Key)
		pubKD, pubPrefix, ok2 := serializeToEntry(rt, info.Public)
		if !ok1 || !ok2 {
			return drawGuardEntry(rt, label+"_sub", "legacy-private")
		}
		priv, pub := &compositepb.CompositeMlDsaPrivateKey{}, &compositepb.CompositeMlDsaPublicKey{}
		if err := proto.Unmarshal(privKD.GetValue(), priv); err != nil {
			rt.Fatalf("harness: %v", err)
		}
		if err := proto.Unmarshal(pubKD.GetValue(), pub); err != nil {
			rt.Fatalf("harness: %v", err)
		}
		pub.ClassicalPublicKey = priv.GetClassicalPrivateKey()
		v, err := proto.Marshal(pub)
		if err != nil {
			rt.Fatalf("harness: %v", err)
		}
		kd, prefix = &tinkpb.KeyData{TypeUrl: pubKD.GetTypeUrl(), Value: v, KeyMaterialType: tinkpb.KeyData_ASYMMETRIC_PUBLIC}, pubPrefix
		e.desc, e.typ = info.Desc+" [public key whose classical_public_key field holds the classical PRIVATE key data]", info.Type+"/nested-private"
		e.mislabeled = true
	case "legacy-public":
		kd, prefix, e.desc = drawLegacy(rt, label, []string{legacykm.VerifierURL, legacykm.HybridPubURL}, 32, tinkpb.KeyData_ASYMMETRIC_PUBLIC)
	case "legacy-remote":
		kd, prefix, e.desc = drawLegacy(rt, label, []string{legacykm.RemoteURL}, 32, tinkpb.KeyData_REMOTE)
	case "legacy-symmetric":
		kd, prefix, e.desc = drawLegacy(rt, label, []string{legacykm.MacURL, legacykm.AeadURL, legacykm.DaeadURL}, 32, tinkpb.KeyData_SYMMETRIC)
	case "legacy-private":
		kd, prefix, e.desc = drawLegacy(rt, label, []string{legacykm.SignerURL, legacykm.HybridPrivURL}, 32, tinkpb.KeyData_ASYMMETRIC_PRIVATE)
	case "legacy-unknown":
		// UNKNOWN_KEYMATERIAL is the enum's zero value: this is also what a writer that forgot the field produces
		kd, prefix, e.desc = drawLegacy(rt, label, []string{legacykm.UnknownMatURL, legacykm.RemoteURL, legacykm.VerifierURL}, 32, tinkpb.KeyData_UNKNOWN_KEYMATERIAL)
	case "legacy-unknown-enum-value":
		// a material type this version of the enum does not define (a keyset written by a newer or a
		// foreign implementation): key material of unknown type
		m := tinkpb.KeyData_KeyMaterialType(rapid.SampledFrom([]int32{5, 6, 99, -1}).Draw(rt, label+"_material_value"))
		kd, prefix, e.desc = drawLegacy(rt, label, []string{legacykm.UnknownMatURL, legacykm.RemoteURL, legacykm.VerifierURL}, 32, m)
	default:
		panic("unknown kind " + kind)
	}
	e.kind = kind
	e.secret = e.mislabeled || isSecretMaterial(kd.GetKeyMaterialType())
	e.key = &tinkpb.Keyset_Key{KeyData: kd, OutputPrefixType: prefix}
	return e
}

type guardCase struct {
	mix     string
	entries []guardEntry
	ks      *tinkpb.Keyset
	secret  bool
	firstAt int // position of the first secret entry, -1 if none
}

func (c *guardCase) String() string {
	var b strings.Builder
	fmt.Fprintf(&b, "keyset mix=%s primary_key_id=%#x secret=%v", c.mix, c.ks.GetPrimaryKeyId(), c.secret)
	for i, e := range c.entries {
		fmt.Fprintf(&b, "\n  #%d kind=%s id=%#x status=%v prefix=%v material=%v: %s", i, e.kind, e.key.GetKeyId(), e.key.GetStatus(), e.key.GetOutputPrefixType(), e.key.GetKeyData().GetKeyMaterialType(), e.desc)
	}
	return b.String()
}

func drawGuardCase(rt *rapid.T) *guardCase {
	c := &guardCase{firstAt: -1}
	n := rapid.IntRange(1, 5).Draw(rt, "keys")
	c.mix = rapid.SampledFrom([]string{"public-only", "one-secret", "one-secret", "free"}).Draw(rt, "mix")
	secretPos := -1
	if c.mix == "one-secret" {
		secretPos = rapid.IntRange(0, n-1).Draw(rt, "secret_position")
	}
	ids := rapid.SliceOfNDistinct(rapid.Uint32Range(1, math.MaxUint32), n, n, func(v uint32) uint32 { return v }).Draw(rt, "ids")
	primary := rapid.IntRange(0, n-1).Draw(rt, "primary")
	c.ks = &tinkpb.Keyset{PrimaryKeyId: ids[primary]}
	for i := 0; i < n; i++ {
		label := fmt.Sprintf("e%d", i)
		var kind string
		switch {
		case c.mix == "free":
			kind = rapid.SampledFrom(allKinds).Draw(rt, label+"_kind")
		case i == secretPos:
			kind = rapid.SampledFrom(secretKinds).Draw(rt, label+"_kind")
		default:
			kind = rapid.SampledFrom(nonSecretKinds).Draw(rt, label+"_kind")
		}
		e := drawGuardEntry(rt, label, kind)
		e.key.KeyId = ids[i]
		e.key.Status = tinkpb.KeyStatusType_ENABLED
		if i != primary {
			e.key.Status = rapid.SampledFrom(protoStatuses).Draw(rt, label+"_status")
		}
		if e.secret && c.firstAt < 0 {
			c.firstAt = i
		}
		c.secret = c.secret || e.secret
		c.entries = append(c.entries, e)
		c.ks.Key = append(c.ks.Key, e.key)
	}
	return c
}

func cloneKeyset(ks *tinkpb.Keyset) *tinkpb.Keyset { return proto.Clone(ks).(*tinkpb.Keyset) }

// TestNoSecretsGuard: the three "no secrets" entry points fail iff some entry is secret, wherever it sits.
func TestNoSecretsGuard(t *testing.T) {
	rapid.Check(t, func(rt *rapid.T) {
		detrand.Seed(rapid.Uint64().Draw(rt, "entropy"))
		c := drawGuardCase(rt)
		pristine := cloneKeyset(c.ks)
		// onlyMislabelled: every secret entry is a real secret key under a "public"/"remote" label; sig
		// names the first one's key type.
		onlyMislabelled, mislabelledSig := c.secret, ""
		for _, e := range c.entries {
			if e.secret && !e.mislabeled {
				onlyMislabelled = false
			}
			if e.mislabeled && mislabelledSig == "" {
				mislabelledSig = "mislabelled-secret-key-accepted:" + e.typ
			}
		}
		verdict := func(api string, err error) {
			if (err != nil) != c.secret {
				if c.secret && onlyMislabelled {
					knownOrFail(rt, mislabelledSig, fmt.Sprintf("%v\n%s ACCEPTED a keyset whose entry #%d is a secret key labelled as public / remote material (the key type's parser does not check the key material type)", c, api, c.firstAt))
					return
				}
				if c.secret {
					rt.Fatalf("%v\n%s ACCEPTED a keyset whose entry #%d holds secret or unknown-type key material", c, api, c.firstAt)
				}
				rt.Fatalf("%v\n%s refused a keyset that holds only public / remote key material: %v", c, api, err)
			}
		}
		mislabelled := false
		for _, e := range c.entries {
			mislabelled = mislabelled || e.mislabeled
		}

		// 1. importing
		h, err := keyset.NewHandleWithNoSecrets(cloneKeyset(c.ks))
		verdict("keyset.NewHandleWithNoSecrets", err)
		if err == nil && !c.secret && (h == nil || h.Len() != len(c.entries)) {
			rt.Fatalf("%v\nkeyset.NewHandleWithNoSecrets: handle has %d entries", c, h.Len())
		}
		// exporting from the handle an import API returned: how a handle was obtained gives it no
		// licence - "WriteWithNoSecrets fails for every keyset containing symmetric, private or
		// unknown-type key material" (added after seeded change C13h: handles from
		// NewHandleWithNoSecrets were flagged as already checked; together with the listed
		// mislabelled-key finding that exported an HMAC key in the clear)
		exportFrom := func(api string, ih *keyset.Handle) {
			mem := &keyset.MemReaderWriter{}
			werr := ih.WriteWithNoSecrets(mem)
			if c.secret {
				if werr == nil {
					rt.Fatalf("%v\nthe handle %s returned EXPORTS through WriteWithNoSecrets although entry #%d holds secret or unknown-type key material (written keyset: %v)", c, api, c.firstAt, mem.Keyset)
				}
				if mem.Keyset != nil || mem.EncryptedKeyset != nil {
					rt.Fatalf("%v\nWriteWithNoSecrets of the handle %s returned refused (%v) but wrote a keyset", c, api, werr)
				}
				evid.Add("export_from_imported_handle/refused", 1)
				return
			}
			if werr != nil || !proto.Equal(mem.Keyset, pristine) {
				rt.Fatalf("%v\nWriteWithNoSecrets of the handle %s returned: %v; wrote %v, want the imported keyset", c, api, werr, mem.Keyset)
			}
			evid.Add("export_from_imported_handle/written", 1)
		}
		if err == nil && h != nil {
			exportFrom("keyset.NewHandleWithNoSecrets", h)
		}
		bin, err := proto.Marshal(c.ks)
		if err != nil {
			rt.Fatalf("proto.Marshal: %v", err)
		}
		rh, err := keyset.ReadWithNoSecrets(keyset.NewBinaryReader(bytes.NewReader(bin)))
		verdict("keyset.ReadWithNoSecrets(BinaryReader)", err)
		if err == nil && rh != nil {
			exportFrom("keyset.ReadWithNoSecrets(BinaryReader)", rh)
		}
		js, err := protojson.Marshal(c.ks)
		if err != nil {
			rt.Fatalf("protojson.Marshal: %v", err)
		}
		_, err = keyset.ReadWithNoSecrets(keyset.NewJSONReader(bytes.NewReader(js)))
		verdict("keyset.ReadWithNoSecrets(JSONReader)", err)
		var tinkJSON bytes.Buffer
		if err := keyset.NewJSONWriter(&tinkJSON).Write(cloneKeyset(c.ks)); err != nil {
			rt.Fatalf("JSONWriter.Write: %v", err)
		}
		_, err = keyset.ReadWithNoSecrets(keyset.NewJSONReader(bytes.NewReader(tinkJSON.Bytes())))
		verdict("keyset.ReadWithNoSecrets(JSONReader over JSONWriter output)", err)
		_, err = keyset.ReadWithNoSecrets(&keyset.MemReaderWriter{Keyset: cloneKeyset(c.ks)})
		verdict("keyset.ReadWithNoSecrets(MemReaderWriter)", err)

		// 2. exporting, from a handle obtained through the insecure path
		full, err := insecurecleartextkeyset.Read(&keyset.MemReaderWriter{Keyset: cloneKeyset(c.ks)})
		switch {
		case mislabelled && err != nil:
			// not a valid keyset: nothing to export (the registered parsers refuse the wrong label)
			evid.Add("mislabelled_refused_by_insecure_read", 1)
		case err != nil:
			rt.Fatalf("%v\ninsecurecleartextkeyset.Read of a valid keyset: %v", c, err)
		default:
			if mislabelled {
				// The insecure read took the mislabelled entry: the handle now holds real secret key material
				// (c.secret is true), so every no-secrets export must fail and write nothing - excused only
				// through the listed mislabelled-secret-key-accepted:<type> signatures, like the imports above.
				evid.Add("mislabelled_accepted_by_insecure_read", 1)
			}
			var bbuf, jbuf bytes.Buffer
			mem := &keyset.MemReaderWriter{}
			for _, w := range []struct {
				name string
				w    keyset.Writer
				read func() (*tinkpb.Keyset, error)
				size func() int
			}{
				{"BinaryWriter", keyset.NewBinaryWriter(&bbuf), func() (*tinkpb.Keyset, error) { return keyset.NewBinaryReader(bytes.NewReader(bbuf.Bytes())).Read() }, bbuf.Len},
				{"JSONWriter", keyset.NewJSONWriter(&jbuf), func() (*tinkpb.Keyset, error) { return keyset.NewJSONReader(bytes.NewReader(jbuf.Bytes())).Read() }, jbuf.Len},
				{"MemReaderWriter", mem, func() (*tinkpb.Keyset, error) { return mem.Keyset, nil }, func() int {
					if mem.Keyset == nil && mem.EncryptedKeyset == nil {
						return 0
					}
					return 1
				}},
			} {
				err := full.WriteWithNoSecrets(w.w)
				if mislabelled {
					// The listed mislabelled-secret-key-accepted:<type> findings are about the IMPORT entry points
					// (the parser does not check the declared material type).  Once inside a handle the key is an
					// ordinary secret key object, and the export guard sees what the serializer writes: an export
					// that succeeds is a finding of its own (signature mislabelled-secret-key-exported:<type>).
					evid.Add(fmt.Sprintf("mislabelled_export_refused=%v", err != nil), 1)
					if err == nil {
						knownOrFail(rt, strings.Replace(mislabelledSig, "-accepted:", "-exported:", 1), fmt.Sprintf("%v\nHandle.WriteWithNoSecrets(%s) EXPORTED a handle whose entry #%d is a secret key that came in under a public / remote label", c, w.name, c.firstAt))
						continue
					}
				} else {
					verdict("Handle.WriteWithNoSecrets("+w.name+")", err)
				}
				if err != nil {
					if w.size() != 0 {
						rt.Fatalf("%v\nHandle.WriteWithNoSecrets(%s) returned an error but wrote %d bytes / a keyset", c, w.name, w.size())
					}
					continue
				}
				got, rerr := w.read()
				if rerr != nil || !proto.Equal(got, pristine) {
					rt.Fatalf("%v\nHandle.WriteWithNoSecrets(%s) wrote a different keyset (%v):\n got  %v\n want %v", c, w.name, rerr, got, pristine)
				}
			}
			// 3. exporting from handles a Manager built: from the handle as a whole, and from its key
			// objects added one by one (entries that never had a proto form of their own)
			if mislabelled {
				break
			}
			if mh, err := keyset.NewManagerFromHandle(full).Handle(); err != nil {
				rt.Fatalf("%v\nNewManagerFromHandle(handle).Handle(): %v", c, err)
			} else {
				verdict("WriteWithNoSecrets of the handle of NewManagerFromHandle(handle)", mh.WriteWithNoSecrets(&keyset.MemReaderWriter{}))
			}
			m2, built := keyset.NewManager(), true
			for i := 0; i < full.Len() && built; i++ {
				e, err := full.Entry(i)
				if err != nil {
					rt.Fatalf("%v\nEntry(%d): %v", c, i, err)
				}
				opts := []keyset.KeyOpts{keyset.WithFixedID(e.KeyID()), keyset.WithStatus(e.KeyStatus())}
				if e.IsPrimary() {
					opts = append(opts, keyset.AsPrimary())
				}
				if _, err := m2.AddKeyWithOpts(e.Key(), internalapi.Token{}, opts...); err != nil {
					built = false
					evid.Add("manager_rebuild_refused", 1)
				}
			}
			if built {
				if mh, err := m2.Handle(); err == nil {
					mem := &keyset.MemReaderWriter{}
					err := mh.WriteWithNoSecrets(mem)
					verdict("WriteWithNoSecrets of a handle built key by key with a Manager", err)
					if err == nil && !proto.Equal(mem.Keyset, pristine) {
						rt.Fatalf("%v\nWriteWithNoSecrets of a handle built key by key with a Manager wrote a different keyset:\n got  %v\n want %v", c, mem.Keyset, pristine)
					}
					evid.Add("manager_built_exports", 1)
				}
			}
		}
		if !proto.Equal(c.ks, pristine) {
			// a C19 matter (c19.TestKeysetProtoDoesNotAlias); every call above received a clone
			evid.Add("observed_not_asserted/C19_input_modified", 1)
		}

		kinds := map[tinkpb.KeyData_KeyMaterialType]bool{}
		h0 := evid.NewH().S(c.mix).I(int64(c.ks.GetPrimaryKeyId()))
		for _, e := range c.entries {
			kinds[e.key.GetKeyData().GetKeyMaterialType()] = true
			h0 = h0.S(e.kind).S(e.key.GetKeyData().GetTypeUrl()).B(e.key.GetKeyData().GetValue()).I(int64(e.key.GetKeyId())).I(int64(e.key.GetStatus())).I(int64(e.key.GetOutputPrefixType()))
		}
		firstKind := "none"
		if c.firstAt >= 0 {
			firstKind = c.entries[c.firstAt].kind
		}
		evid.Case(fmt.Sprintf("guard/n=%d/first-secret=%d/%s", len(c.entries), c.firstAt, firstKind), len(kinds) >= 2 || len(c.entries) == 1, h0.Sum(), func() any {
			return map[string]any{"keyset": c.String()}
		})
	})
}

// ---------------------------------------------------------------------------------------------
// handles over generated keys (shared by the next two units)

type member struct {
	info   *keys.Info
	id     uint32
	status keyset.KeyStatus
}

type handleCase struct {
	members []member
	primary int
	h       *keyset.Handle
	secrets [][]byte // Info.Secrets and the full serialized key values
}

func (c *handleCase) String() string {
	var b strings.Builder
	fmt.Fprintf(&b, "keyset keys=%d primary=#%d", len(c.members), c.primary)
	for i, m := range c.members {
		fmt.Fprintf(&b, "\n  #%d id=%#x status=%v %s", i, m.id, m.status, m.info.Desc)
	}
	return b.String()
}

// drawHandle builds a handle of 1..max serializable keys of any classes with keyset.Manager.
func drawHandle(rt *rapid.T, max int, usableOnly bool) *handleCase {
	c := &handleCase{}
	n := rapid.IntRange(1, max).Draw(rt, "keys")
	used := map[uint32]bool{}
	var kept []member
	for j := 0; j < n; j++ {
		label := fmt.Sprintf("k%d", j)
		typ := rapid.SampledFrom(keys.AllTypes()).Draw(rt, label+"_type")
		var info *keys.Info
		if usableOnly {
			info = keys.DrawTypeUsable(rt, label, typ)
		} else {
			info = keys.DrawType(rt, label, typ)
		}
		st := rapid.SampledFrom([]keyset.KeyStatus{keyset.Enabled, keyset.Enabled, keyset.Disabled, keyset.Destroyed}).Draw(rt, label+"_status")
		if info.NoSerialization {
			// Handle.KeysetInfo / String panic for a key without serialization; such keys cannot be
			// written at all.  Not this property's concern.
			evid.Add("member_dropped/not-serializable/"+info.Type, 1)
			continue
		}
		if info.Lossy {
			// a deriver key whose derived-key parameters are JWT parameters with a custom kid does not read
			// back Equal (C12's listed jwt-custom-kid-parameters-lossy finding): not this property's concern
			evid.Add("member_dropped/lossy-serialization/"+info.Type, 1)
			continue
		}
		if info.HasID {
			if used[info.ID] {
				evid.Add("member_dropped/id-collision", 1)
				continue
			}
			used[info.ID] = true
		}
		kept = append(kept, member{info: info, status: st})
	}
	if len(kept) == 0 {
		rt.Skip("every member dropped")
	}
	c.primary = rapid.IntRange(0, len(kept)-1).Draw(rt, "primary")
	kept[c.primary].status = keyset.Enabled
	mgr := keyset.NewManager()
	for j := range kept {
		m := &kept[j]
		opts := []keyset.KeyOpts{keyset.WithStatus(m.status)}
		if j == c.primary {
			opts = append(opts, keyset.AsPrimary())
		}
		id, err := mgr.AddKeyWithOpts(m.info.Key, internalapi.Token{}, opts...)
		if err != nil {
			rt.Skip("ID requirement collides with a manager-chosen ID") // probability 2^-32 per pair
		}
		m.id = id
		ks, err := protoserialization.SerializeKey(m.info.Key)
		if err != nil {
			rt.Fatalf("%s: SerializeKey: %v", m.info.Desc, err)
		}
		c.secrets = append(c.secrets, m.info.Secrets...)
		c.secrets = append(c.secrets, bytes.Clone(ks.KeyData().GetValue()))
	}
	c.members = kept
	h, err := mgr.Handle()
	if err != nil {
		rt.Fatalf("%v: Manager.Handle: %v", c, err)
	}
	c.h = h
	return c
}

// expectedInfo is the harness's own KeysetInfo: primary ID and, per key, type URL, status, ID, prefix type.
func (c *handleCase) expectedInfo() *tinkpb.KeysetInfo {
	out := &tinkpb.KeysetInfo{PrimaryKeyId: c.members[c.primary].id}
	for _, m := range c.members {
		url, _ := wantURLAndMaterial(m.info.Type, false)
		out.KeyInfo = append(out.KeyInfo, &tinkpb.KeysetInfo_KeyInfo{TypeUrl: url, Status: statusProto[m.status], KeyId: m.id, OutputPrefixType: wantPrefixType(m.info.Variant)})
	}
	return out
}

func (c *handleCase) typeURLs() []string {
	var out []string
	for _, m := range c.members {
		url, _ := wantURLAndMaterial(m.info.Type, false)
		out = append(out, url)
	}
	return out
}

func (c *handleCase) fingerprint() evid.H {
	h := evid.NewH().I(int64(c.primary))
	for _, m := range c.members {
		h = h.S(m.info.Desc).I(int64(m.id)).I(int64(m.status))
		for _, s := range m.info.Secrets {
			h = h.B(s)
		}
	}
	return h
}

func (c *handleCase) materialKinds() int {
	kinds := map[tinkpb.KeyData_KeyMaterialType]bool{}
	for _, m := range c.members {
		_, mat := wantURLAndMaterial(m.info.Type, false)
		kinds[mat] = true
	}
	return len(kinds)
}

// noUnknownFields walks a message and fails on any unknown field.
func noUnknownFields(m proto.Message) error {
	if u := m.ProtoReflect().GetUnknown(); len(u) != 0 {
		return fmt.Errorf("%s carries unknown fields %x", m.ProtoReflect().Descriptor().FullName(), []byte(u))
	}
	return nil
}

func checkInfoExact(got, want *tinkpb.KeysetInfo) error {
	if got == nil {
		return fmt.Errorf("keyset info is nil")
	}
	if err := noUnknownFields(got); err != nil {
		return err
	}
	for _, ki := range got.GetKeyInfo() {
		if err := noUnknownFields(ki); err != nil {
			return err
		}
	}
	if !proto.Equal(got, want) {
		return fmt.Errorf("keyset info differs from the metadata of the generated keyset:\n got  %v\n want %v", got, want)
	}
	return nil
}

// TestNoKeyBytesInInfo: String() and KeysetInfo() are exactly the metadata and contain no key bytes.
func TestNoKeyBytesInInfo(t *testing.T) {
	rapid.Check(t, func(rt *rapid.T) {
		detrand.Seed(rapid.Uint64().Draw(rt, "entropy"))
		c := drawHandle(rt, 4, false)
		want := c.expectedInfo()
		sc := newScanner(c.secrets, c.typeURLs())

		info := c.h.KeysetInfo()
		if err := checkInfoExact(info, want); err != nil {
			rt.Fatalf("%v\nKeysetInfo(): %v", c, err)
		}
		str := c.h.String()
		parsed := &tinkpb.KeysetInfo{}
		if err := prototext.Unmarshal([]byte(str), parsed); err != nil {
			rt.Fatalf("%v\nString() is not the text form of a KeysetInfo: %v\n%s", c, err, str)
		}
		if err := checkInfoExact(parsed, want); err != nil {
			rt.Fatalf("%v\nString(): %v\n%s", c, err, str)
		}
		ptext, err := prototext.Marshal(info)
		if err != nil {
			rt.Fatalf("prototext.Marshal: %v", err)
		}
		pjson, err := protojson.Marshal(info)
		if err != nil {
			rt.Fatalf("protojson.Marshal: %v", err)
		}
		pbin, err := proto.Marshal(info)
		if err != nil {
			rt.Fatalf("proto.Marshal: %v", err)
		}
		outputs := []struct {
			name string
			text []byte
		}{
			{"Handle.String()", []byte(str)},
			{"fmt %v of the handle", []byte(fmt.Sprintf("%v", c.h))},
			{"KeysetInfo().String()", []byte(info.String())},
			{"prototext of KeysetInfo()", ptext},
			{"protojson of KeysetInfo()", pjson},
			{"binary proto of KeysetInfo()", pbin},
		}
		for _, o := range outputs {
			if hit := sc.find(o.text); hit != "" {
				rt.Fatalf("%v\n%s contains key bytes: %s\noutput: %s", c, o.name, hit, snippet(o.text, hit))
			}
		}
		evid.Add("windows_searched", int64(sc.size()))
		evid.Case(fmt.Sprintf("info/n=%d/kinds=%d", len(c.members), c.materialKinds()), true, c.fingerprint().Sum(), func() any {
			return map[string]any{"keyset": c.String(), "string": str}
		})
	})
}

// ---------------------------------------------------------------------------------------------
// TestEncryptedKeyset

type kekCase struct {
	info  *keys.Info
	right tink.AEAD
	wrong tink.AEAD
	how   string // how the wrong KEK differs
}

// flipKeyBit re-encodes a serialized AEAD key with one bit of its key material flipped: a key of the
// same type and parameters that differs by construction.
func flipKeyBit(rt *rapid.T, typ string, value []byte) ([]byte, string) {
	flip := func(b []byte, what string) ([]byte, string) {
		if len(b) == 0 {
			rt.Fatalf("KEK %s: empty %s", typ, what)
		}
		bit := rapid.IntRange(0, len(b)*8-1).Draw(rt, "wrong_kek_bit")
		out := bytes.Clone(b)
		out[bit/8] ^= 1 << (bit % 8)
		return out, fmt.Sprintf("bit %d of %s flipped", bit, what)
	}
	var m proto.Message
	var how string
	un := func(msg proto.Message) {
		if err := proto.Unmarshal(value, msg); err != nil {
			rt.Fatalf("KEK %s: decoding its serialization: %v", typ, err)
		}
		m = msg
	}
	switch typ {
	case "AesGcm":
		k := &gcmpb.AesGcmKey{}
		un(k)
		k.KeyValue, how = flip(k.KeyValue, "key_value")
	case "AesGcmSiv":
		k := &gcmsivpb.AesGcmSivKey{}
		un(k)
		k.KeyValue, how = flip(k.KeyValue, "key_value")
	case "ChaCha20Poly1305":
		k := &chachapb.ChaCha20Poly1305Key{}
		un(k)
		k.KeyValue, how = flip(k.KeyValue, "key_value")
	case "XChaCha20Poly1305":
		k := &xchachapb.XChaCha20Poly1305Key{}
		un(k)
		k.KeyValue, how = flip(k.KeyValue, "key_value")
	case "XAesGcm":
		k := &xaesgcmpb.XAesGcmKey{}
		un(k)
		k.KeyValue, how = flip(k.KeyValue, "key_value")
	case "AesCtrHmacAead":
		k := &ctrhmacpb.AesCtrHmacAeadKey{}
		un(k)
		// Only the HMAC key: with the right HMAC key and a wrong AES key the tag still verifies and the
		// reader fails on the garbage plaintext, which is no cryptographic guarantee.
		k.HmacKey.KeyValue, how = flip(k.HmacKey.KeyValue, "hmac_key.key_value")
	default:
		rt.Fatalf("no wrong-KEK construction for AEAD type %s", typ)
	}
	out, err := proto.Marshal(m)
	if err != nil {
		rt.Fatalf("proto.Marshal: %v", err)
	}
	return out, how
}

func aeadOf(rt *rapid.T, what string, k key.Key) tink.AEAD {
	h, err := tk.HandleFromKey(k)
	if err != nil {
		rt.Fatalf("%s: handle: %v", what, err)
	}
	p, err := aead.New(h)
	if err != nil {
		rt.Fatalf("%s: aead.New: %v", what, err)
	}
	return p
}

func drawKEK(rt *rapid.T) *kekCase {
	info := keys.DrawUsable(rt, "kek", keys.AEAD)
	c := &kekCase{info: info, right: aeadOf(rt, "KEK "+info.Desc, info.Key)}
	ks, err := protoserialization.SerializeKey(info.Key)
	if err != nil {
		rt.Fatalf("KEK %s: SerializeKey: %v", info.Desc, err)
	}
	val, how := flipKeyBit(rt, info.Type, ks.KeyData().GetValue())
	wks, err := protoserialization.NewKeySerialization(&tinkpb.KeyData{TypeUrl: ks.KeyData().GetTypeUrl(), KeyMaterialType: ks.KeyData().GetKeyMaterialType(), Value: val}, ks.OutputPrefixType(), info.ID)
	if err != nil {
		rt.Fatalf("KEK %s: NewKeySerialization: %v", info.Desc, err)
	}
	wk, err := protoserialization.ParseKey(wks)
	if err != nil {
		rt.Fatalf("KEK %s: parsing the key with %s: %v", info.Desc, how, err)
	}
	if wk.Equal(info.Key) {
		rt.Fatalf("KEK %s: key with %s is Equal to the original", info.Desc, how)
	}
	c.wrong, c.how = aeadOf(rt, "wrong KEK", wk), how
	return c
}

// TestEncryptedKeyset: what Write / WriteWithAssociatedData emit, and who can read it.
func TestEncryptedKeyset(t *testing.T) {
	rapid.Check(t, func(rt *rapid.T) {
		detrand.Seed(rapid.Uint64().Draw(rt, "entropy"))
		c := drawHandle(rt, 4, false)
		kek := drawKEK(rt)
		format := rapid.SampledFrom([]string{"binary", "json", "mem"}).Draw(rt, "format")
		withAD := rapid.Bool().Draw(rt, "with_ad_api")
		// the third API pair: WriteWithContext / ReadWithContext (always takes associated data)
		ctxAPI := rapid.Bool().Draw(rt, "with_context_api")
		if ctxAPI {
			withAD = true
		}
		var ad []byte
		if withAD {
			ad = gen.BytesOrNil(rt, "ad", 64)
		}
		desc := func() string {
			return fmt.Sprintf("%v\nKEK %s\nformat=%s api_with_ad=%v api_with_context=%v ad=%s (nil=%v)", c, kek.info.Desc, format, withAD, ctxAPI, gen.Hex(ad), ad == nil)
		}
		sc := newScanner(c.secrets, c.typeURLs())
		wantInfo := c.expectedInfo()
		wantKeyset := insecurecleartextkeyset.KeysetMaterial(c.h)
		if wantKeyset == nil {
			rt.Fatalf("%s\nKeysetMaterial returned nil", desc())
		}

		// --- write
		var buf bytes.Buffer
		mem := &keyset.MemReaderWriter{}
		var w keyset.Writer
		switch format {
		case "binary":
			w = keyset.NewBinaryWriter(&buf)
		case "json":
			w = keyset.NewJSONWriter(&buf)
		default:
			w = mem
		}
		var err error
		if ctxAPI {
			err = c.h.WriteWithContext(context.Background(), w, tk.CtxAEAD(kek.right), ad)
		} else if withAD {
			err = c.h.WriteWithAssociatedData(w, kek.right, ad)
		} else {
			err = c.h.Write(w, kek.right)
		}
		if err != nil {
			rt.Fatalf("%s\nwriting: %v", desc(), err)
		}
		reader := func() keyset.Reader {
			switch format {
			case "binary":
				return keyset.NewBinaryReader(bytes.NewReader(buf.Bytes()))
			case "json":
				return keyset.NewJSONReader(bytes.NewReader(buf.Bytes()))
			}
			return &keyset.MemReaderWriter{EncryptedKeyset: proto.Clone(mem.EncryptedKeyset).(*tinkpb.EncryptedKeyset)}
		}

		// --- the written form is an EncryptedKeyset and nothing else
		enc := &tinkpb.EncryptedKeyset{}
		var written []byte
		switch format {
		case "binary":
			written = buf.Bytes()
			if err := proto.Unmarshal(written, enc); err != nil {
				rt.Fatalf("%s\nthe written bytes %x are not an EncryptedKeyset: %v", desc(), written, err)
			}
		case "json":
			written = buf.Bytes()
			if err := protojson.Unmarshal(written, enc); err != nil { // rejects unknown fields
				rt.Fatalf("%s\nthe written JSON is not an EncryptedKeyset: %v\n%s", desc(), err, written)
			}
		default:
			if mem.Keyset != nil || mem.EncryptedKeyset == nil {
				rt.Fatalf("%s\nthe encrypted write stored keyset=%v encrypted=%v", desc(), mem.Keyset != nil, mem.EncryptedKeyset != nil)
			}
			enc = mem.EncryptedKeyset
			if written, err = proto.Marshal(enc); err != nil {
				rt.Fatalf("proto.Marshal: %v", err)
			}
		}
		if err := noUnknownFields(enc); err != nil {
			rt.Fatalf("%s\n%v", desc(), err)
		}
		if format == "binary" {
			// keyset/binary_io.go: the binary writer drops the keyset info
			if enc.GetKeysetInfo() != nil {
				rt.Fatalf("%s\nthe binary writer emitted keyset_info %v", desc(), enc.GetKeysetInfo())
			}
		} else if err := checkInfoExact(enc.GetKeysetInfo(), wantInfo); err != nil {
			rt.Fatalf("%s\nkeyset_info of the encrypted keyset: %v", desc(), err)
		}

		// --- no key bytes in what was written
		if hit := sc.find(written); hit != "" {
			rt.Fatalf("%s\nthe written encrypted keyset contains key bytes: %s\nwritten: %s", desc(), hit, snippet(written, hit))
		}
		if hit := sc.find(enc.GetEncryptedKeyset()); hit != "" {
			rt.Fatalf("%s\nthe encrypted_keyset field contains key bytes: %s\nfield: %s", desc(), hit, snippet(enc.GetEncryptedKeyset(), hit))
		}

		// --- encrypted_keyset is the keyset under (KEK, AD)
		pt, err := kek.right.Decrypt(enc.GetEncryptedKeyset(), ad)
		if err != nil {
			rt.Fatalf("%s\nencrypted_keyset does not decrypt under the KEK and associated data: %v\nfield: %x", desc(), err, enc.GetEncryptedKeyset())
		}
		inner := &tinkpb.Keyset{}
		if err := proto.Unmarshal(pt, inner); err != nil || !proto.Equal(inner, wantKeyset) {
			rt.Fatalf("%s\nthe decrypted keyset differs from the handle's keyset (%v)\n got  %v\n want %v", desc(), err, inner, wantKeyset)
		}

		// --- readers
		read := func(k tink.AEAD, a []byte, useADAPI bool) (*keyset.Handle, error) {
			if useADAPI && ctxAPI {
				return keyset.ReadWithContext(context.Background(), reader(), tk.CtxAEAD(k), a)
			}
			if useADAPI {
				return keyset.ReadWithAssociatedData(reader(), k, a)
			}
			return keyset.Read(reader(), k)
		}
		sameAsOriginal := func(h *keyset.Handle) error {
			if h.Len() != c.h.Len() {
				return fmt.Errorf("Len %d, want %d", h.Len(), c.h.Len())
			}
			for i, m := range c.members {
				e, err := h.Entry(i)
				if err != nil {
					return err
				}
				if e.KeyID() != m.id || e.KeyStatus() != m.status || e.IsPrimary() != (i == c.primary) || !e.Key().Equal(m.info.Key) || !m.info.Key.Equal(e.Key()) {
					return fmt.Errorf("entry %d: id %#x status %v primary %v, key Equal %v", i, e.KeyID(), e.KeyStatus(), e.IsPrimary(), e.Key().Equal(m.info.Key))
				}
			}
			return nil
		}
		back, err := read(kek.right, ad, true)
		if err != nil {
			rt.Fatalf("%s\nReadWithAssociatedData with the right KEK and associated data: %v", desc(), err)
		}
		if err := sameAsOriginal(back); err != nil {
			rt.Fatalf("%s\nhandle read back: %v", desc(), err)
		}
		if len(ad) == 0 {
			// nil and empty associated data are the same; Read is ReadWithAssociatedData(empty)
			for _, a := range [][]byte{nil, {}} {
				if back, err = read(kek.right, a, true); err != nil {
					rt.Fatalf("%s\nReadWithAssociatedData(ad=%v): %v", desc(), a, err)
				}
			}
			if back, err = read(kek.right, nil, false); err != nil {
				rt.Fatalf("%s\nkeyset.Read of a keyset written with empty associated data: %v", desc(), err)
			}
			if err := sameAsOriginal(back); err != nil {
				rt.Fatalf("%s\nhandle read back with keyset.Read: %v", desc(), err)
			}
		} else if _, err := read(kek.right, nil, false); err == nil {
			rt.Fatalf("%s\nkeyset.Read (no associated data) ACCEPTED a keyset written with associated data %x", desc(), ad)
		}
		// wrong KEK
		if _, err := read(kek.wrong, ad, true); err == nil {
			rt.Fatalf("%s\nReadWithAssociatedData ACCEPTED a wrong KEK (%s)", desc(), kek.how)
		}
		if len(ad) == 0 {
			if _, err := read(kek.wrong, nil, false); err == nil {
				rt.Fatalf("%s\nkeyset.Read ACCEPTED a wrong KEK (%s)", desc(), kek.how)
			}
		}
		// wrong associated data (nil vs empty is not a change: Mutate always changes the bytes)
		mut := gen.Mutate(rt, "wrong_ad", ad)
		if bytes.Equal(mut.Out, ad) {
			rt.Fatalf("harness: mutation did not change the associated data")
		}
		if _, err := read(kek.right, mut.Out, true); err == nil {
			rt.Fatalf("%s\nReadWithAssociatedData ACCEPTED wrong associated data %x (%s at %d)", desc(), mut.Out, mut.Kind, mut.Pos)
		}
		// the no-secrets reader must not be a way around the encryption either
		if _, err := keyset.ReadWithNoSecrets(reader()); err == nil {
			rt.Fatalf("%s\nkeyset.ReadWithNoSecrets ACCEPTED the encrypted form", desc())
		}

		// the SAME handle written a second time with the same key-encryption AEAD object and OTHER
		// associated data (a second tenant, a second location): the second written form is bound to
		// the second associated data, not to the first. (Added after seeded change C13f: the handle
		// cached its last encrypted form per key-encryption AEAD.)
		{
			ad2 := mut.Out
			var buf2 bytes.Buffer
			mem2 := &keyset.MemReaderWriter{}
			var w2 keyset.Writer = mem2
			switch format {
			case "binary":
				w2 = keyset.NewBinaryWriter(&buf2)
			case "json":
				w2 = keyset.NewJSONWriter(&buf2)
			}
			var err error
			if ctxAPI {
				err = c.h.WriteWithContext(context.Background(), w2, tk.CtxAEAD(kek.right), ad2)
			} else {
				err = c.h.WriteWithAssociatedData(w2, kek.right, ad2)
			}
			if err != nil {
				rt.Fatalf("%s\nsecond write of the same handle with associated data %x: %v", desc(), ad2, err)
			}
			reader2 := func() keyset.Reader {
				switch format {
				case "binary":
					return keyset.NewBinaryReader(bytes.NewReader(buf2.Bytes()))
				case "json":
					return keyset.NewJSONReader(bytes.NewReader(buf2.Bytes()))
				}
				return &keyset.MemReaderWriter{EncryptedKeyset: proto.Clone(mem2.EncryptedKeyset).(*tinkpb.EncryptedKeyset)}
			}
			back2, err := keyset.ReadWithAssociatedData(reader2(), kek.right, ad2)
			if err != nil {
				rt.Fatalf("%s\nthe form written second, with associated data %x, cannot be read with that associated data: %v", desc(), ad2, err)
			}
			if err := sameAsOriginal(back2); err != nil {
				rt.Fatalf("%s\nhandle read back from the second written form: %v", desc(), err)
			}
			if _, err := keyset.ReadWithAssociatedData(reader2(), kek.right, ad); err == nil {
				rt.Fatalf("%s\nthe form written second, with associated data %x, can be read with the associated data %x of the FIRST write", desc(), ad2, ad)
			}
			evid.Add("second_writes_with_other_ad", 1)
		}
		evid.Add("windows_searched", int64(sc.size()))
		evid.Case(fmt.Sprintf("encrypted/n=%d/kinds=%d/%s/ad=%v/kek=%s", len(c.members), c.materialKinds(), format, len(ad) > 0, kek.info.Type), true,
			c.fingerprint().S(format).B(ad).S(kek.info.Desc).S(kek.how).B(mut.Out).Sum(), func() any {
				return map[string]any{"keyset": c.String(), "kek": kek.info.Desc, "format": format, "ad": gen.Hex(ad), "wrong_kek": kek.how, "wrong_ad": gen.Hex(mut.Out)}
			})
	})
}
