package c13

import (
	"fmt"
	"testing"

	"pgregory.net/rapid"

	"github.com/tink-crypto/tink-go/v2/aead/aesgcm"
	"github.com/tink-crypto/tink-go/v2/key"
	"github.com/tink-crypto/tink-go/v2/keyset"
	"github.com/tink-crypto/tink-go/v2/verifharness/internal/detrand"
	"github.com/tink-crypto/tink-go/v2/verifharness/internal/evid"
	"github.com/tink-crypto/tink-go/v2/verifharness/internal/gen"
	"github.com/tink-crypto/tink-go/v2/verifharness/internal/keys"
	"github.com/tink-crypto/tink-go/v2/verifharness/internal/tk"
)

// recovered runs f and returns its result, or the text of the value it panicked with.
func recovered(f func() string) (out string, panicked bool) {
	defer func() {
		if r := recover(); r != nil {
			out, panicked = fmt.Sprint(r), true
		}
	}()
	return f(), false
}

// TestNoKeyBytesWhenNotSerializable: a handle may hold a key that has no proto form (AES-GCM with an
// IV size other than 12, added with Manager.AddKey).  Handle.String() and KeysetInfo() then have
// nothing to return and panic; fmt turns such a panic into the printed text of the handle
// ("%!v(PANIC=String method: ...)"), which is what a log line of the handle contains.  Whatever
// String() / KeysetInfo() produce - a result, or the panic value that fmt prints in its place -
// must be free of key bytes, in every rendering the scanner knows including fmt's number lists.
// (Added after seeded change C13d, which put the key object into that panic message with %v.)
// Error values returned by the Write functions are not examined: the property does not speak of them.
func TestNoKeyBytesWhenNotSerializable(t *testing.T) {
	rapid.Check(t, func(rt *rapid.T) {
		detrand.Seed(rapid.Uint64().Draw(rt, "entropy"))
		c := drawHandle(rt, 3, false)
		// the member without proto form: AES-GCM with an IV size other than 12, AES-GCM with a tag
		// size other than 16, RSA-SSA-PSS with salt length 0 (private key from the shared pool)
		kind := rapid.SampledFrom([]string{"aesgcm-iv", "aesgcm-tag", "rsassapss-salt0"}).Draw(rt, "unserializable_kind")
		var k key.Key
		var material [][]byte
		var what string
		if kind == "rsassapss-salt0" {
			var odd *keys.Info
			for i := 0; i < 40 && odd == nil; i++ {
				if cand := keys.DrawType(rt, fmt.Sprintf("odd%d", i), "RsaSsaPss"); cand.NoSerialization && !cand.HasID {
					odd = cand
				}
			}
			if odd == nil {
				rt.Skip("no RSA-SSA-PSS key with salt length 0 drawn")
			}
			k, material, what = odd.Key, odd.Secrets, odd.Desc
		} else {
			ivSize, tagSize := 12, 16
			if kind == "aesgcm-iv" {
				ivSize = rapid.SampledFrom([]int{13, 14, 15, 16}).Draw(rt, "iv_size")
			} else {
				tagSize = rapid.SampledFrom([]int{12, 13, 14, 15}).Draw(rt, "tag_size")
			}
			keySize := rapid.SampledFrom([]int{16, 32}).Draw(rt, "key_size")
			raw := gen.BytesN(rt, "unserializable_key", keySize)
			for i := range raw { // distinct bytes, so that windows of the key are unmistakable
				raw[i] ^= byte(0xC8 + i)
			}
			p, err := aesgcm.NewParameters(aesgcm.ParametersOpts{KeySizeInBytes: keySize, IVSizeInBytes: ivSize, TagSizeInBytes: tagSize, Variant: aesgcm.VariantNoPrefix})
			if err != nil {
				rt.Fatalf("aesgcm.NewParameters(iv %d, tag %d): %v", ivSize, tagSize, err)
			}
			gk, err := aesgcm.NewKey(tk.Secret(raw), 0, p)
			if err != nil {
				rt.Fatalf("aesgcm.NewKey: %v", err)
			}
			k, material, what = gk, [][]byte{raw}, fmt.Sprintf("AES-GCM key %x (IV size %d, tag size %d)", raw, ivSize, tagSize)
		}
		m := keyset.NewManagerFromHandle(c.h)
		if _, err := m.AddKey(k); err != nil {
			rt.Fatalf("%v\nManager.AddKey(%s): %v", c, what, err)
		}
		h, err := m.Handle()
		if err != nil {
			rt.Fatalf("%v\nManager.Handle(): %v", c, err)
		}
		sc := newScanner(append(append([][]byte{}, c.secrets...), material...), c.typeURLs())
		str, p1 := recovered(func() string { return h.String() })
		info, p2 := recovered(func() string { return h.KeysetInfo().String() })
		outputs := []struct{ name, text string }{
			{"Handle.String() (result or panic value)", str},
			{"Handle.KeysetInfo() (result or panic value)", info},
			{"fmt %v of the handle", fmt.Sprintf("%v", h)},
			{"fmt %+v of the handle", fmt.Sprintf("%+v", h)},
			{"fmt %s of the handle", fmt.Sprintf("%s", h)},
		}
		for _, o := range outputs {
			if hit := sc.find([]byte(o.text)); hit != "" {
				rt.Fatalf("%v\nplus a key without proto form: %s\n%s contains key bytes: %s\noutput: %s", c, what, o.name, hit, snippet([]byte(o.text), hit))
			}
		}
		evid.Add("windows_searched", int64(sc.size()))
		cls := "unserializable/" + kind + "/returns"
		if p1 || p2 {
			cls = "unserializable/" + kind + "/panics"
		}
		evid.Case(cls, true, c.fingerprint().S(what).Sum(), func() any {
			return map[string]any{"keyset": c.String(), "string_or_panic": str, "member_without_proto_form": what}
		})
	})
}
