package c13

import (
	"fmt"
	"testing"

	"pgregory.net/rapid"

	"github.com/tink-crypto/tink-go/v2/aead/aesgcm"
	"github.com/tink-crypto/tink-go/v2/keyset"
	"github.com/tink-crypto/tink-go/v2/verifharness/internal/detrand"
	"github.com/tink-crypto/tink-go/v2/verifharness/internal/evid"
	"github.com/tink-crypto/tink-go/v2/verifharness/internal/gen"
	"github.com/tink-crypto/tink-go/v2/verifharness/internal/tk"
)

// recovered runs f and returns its result, or the text of the value it panicked with.
func recovered(f func() string) (out string, panicked bool) {
	defer func() {
		if r := recover(); r != nil {
			out, panicked = fmt.Sprint(r), true
		}
	}()
	return f(), false
}

// TestNoKeyBytesWhenNotSerializable: a handle may hold a key that has no proto form (AES-GCM with an
// IV size other than 12, added with Manager.AddKey).  Handle.String() and KeysetInfo() then have
// nothing to return and panic; fmt turns such a panic into the printed text of the handle
// ("%!v(PANIC=String method: ...)"), which is what a log line of the handle contains.  Whatever
// String() / KeysetInfo() produce - a result, or the panic value that fmt prints in its place -
// must be free of key bytes, in every rendering the scanner knows including fmt's number lists.
// (Added after seeded change C13d, which put the key object into that panic message with %v.)
// Error values returned by the Write functions are not examined: the property does not speak of them.
func TestNoKeyBytesWhenNotSerializable(t *testing.T) {
	rapid.Check(t, func(rt *rapid.T) {
		detrand.Seed(rapid.Uint64().Draw(rt, "entropy"))
		c := drawHandle(rt, 3, false)
		ivSize := rapid.SampledFrom([]int{13, 14, 15, 16}).Draw(rt, "iv_size")
		keySize := rapid.SampledFrom([]int{16, 32}).Draw(rt, "key_size")
		material := gen.BytesN(rt, "unserializable_key", keySize)
		for i := range material { // distinct bytes, so that windows of the key are unmistakable
			material[i] ^= byte(0xC8 + i)
		}
		p, err := aesgcm.NewParameters(aesgcm.ParametersOpts{KeySizeInBytes: keySize, IVSizeInBytes: ivSize, TagSizeInBytes: 16, Variant: aesgcm.VariantNoPrefix})
		if err != nil {
			rt.Fatalf("aesgcm.NewParameters(iv %d): %v", ivSize, err)
		}
		k, err := aesgcm.NewKey(tk.Secret(material), 0, p)
		if err != nil {
			rt.Fatalf("aesgcm.NewKey: %v", err)
		}
		m := keyset.NewManagerFromHandle(c.h)
		if _, err := m.AddKey(k); err != nil {
			rt.Fatalf("%v\nManager.AddKey(AES-GCM key with IV size %d): %v", c, ivSize, err)
		}
		h, err := m.Handle()
		if err != nil {
			rt.Fatalf("%v\nManager.Handle(): %v", c, err)
		}
		sc := newScanner(append(append([][]byte{}, c.secrets...), material), c.typeURLs())
		str, p1 := recovered(func() string { return h.String() })
		info, p2 := recovered(func() string { return h.KeysetInfo().String() })
		outputs := []struct{ name, text string }{
			{"Handle.String() (result or panic value)", str},
			{"Handle.KeysetInfo() (result or panic value)", info},
			{"fmt %v of the handle", fmt.Sprintf("%v", h)},
			{"fmt %+v of the handle", fmt.Sprintf("%+v", h)},
			{"fmt %s of the handle", fmt.Sprintf("%s", h)},
		}
		for _, o := range outputs {
			if hit := sc.find([]byte(o.text)); hit != "" {
				rt.Fatalf("%v\nplus an AES-GCM key (IV size %d, not serializable) %x\n%s contains key bytes: %s\noutput: %s", c, ivSize, material, o.name, hit, snippet([]byte(o.text), hit))
			}
		}
		evid.Add("windows_searched", int64(sc.size()))
		cls := "unserializable/returns"
		if p1 || p2 {
			cls = "unserializable/panics"
		}
		evid.Case(cls, true, c.fingerprint().B(material).I(int64(ivSize)).Sum(), func() any {
			return map[string]any{"keyset": c.String(), "string_or_panic": str, "iv_size": ivSize}
		})
	})
}
