package c13

import (
	"encoding/base32"
	"encoding/base64"
	"encoding/hex"
	"fmt"
	"strings"
)

// The leak search.  A secret "occurs" in an output when any 12-byte window of it occurs
//
//   - raw,
//   - as lower- or upper-case hex (24 characters),
//   - as base64, standard or URL alphabet (16 characters; every window start is tried, so every
//     alignment of the secret inside a longer base64-encoded stream is covered; padding does not
//     matter for a 12-byte window),
//   - as hex with separators between the bytes ("0a 1b 2c", "0a:1b:2c", as fmt's "% x" prints),
//   - as base32 (standard and extended-hex alphabet, either case; 10-byte windows = 16 characters),
//
// in the output itself or in the output with text-format escapes (\xNN, \ooo, \n, \\ ...) undone.
// A chance hit has probability about 2^-96 per (window, position).
//
// Windows that also occur in the type URLs of the keyset are not searched for: serialized composite,
// deriver and ECIES keys embed the type URLs of their parts, and type URLs are legitimate metadata.

const window = 12

type scanner struct {
	raw   map[string]struct{} // 12 bytes
	hex   map[string]struct{} // 24 chars
	b64   map[string]struct{} // 16 chars
	b32   map[string]struct{} // 16 chars (10-byte windows)
	total int
}

func newScanner(secrets [][]byte, allowed []string) *scanner {
	s := &scanner{raw: map[string]struct{}{}, hex: map[string]struct{}{}, b64: map[string]struct{}{}, b32: map[string]struct{}{}}
	allow := map[string]struct{}{}
	for _, a := range allowed {
		for i := 0; i+window <= len(a); i++ {
			allow[a[i:i+window]] = struct{}{}
		}
	}
	for _, sec := range secrets {
		masked := maskTypeURLs(sec)
		for i := 0; i+window <= len(sec); i++ {
			w := sec[i : i+window]
			if _, ok := allow[string(w)]; ok {
				continue
			}
			if masked != nil && (masked[i] || masked[i+window-1]) {
				continue // the window touches an embedded type URL (or its proto tag / length bytes)
			}
			s.raw[string(w)] = struct{}{}
			h := hex.EncodeToString(w)
			s.hex[h] = struct{}{}
			s.hex[strings.ToUpper(h)] = struct{}{}
			s.b64[base64.StdEncoding.EncodeToString(w)] = struct{}{}
			s.b64[base64.URLEncoding.EncodeToString(w)] = struct{}{}
			for _, enc := range []*base32.Encoding{base32.StdEncoding, base32.HexEncoding} {
				e := enc.EncodeToString(w[:10])
				s.b32[e] = struct{}{}
				s.b32[strings.ToLower(e)] = struct{}{}
			}
		}
	}
	s.total = len(s.raw) + len(s.hex) + len(s.b64) + len(s.b32)
	return s
}

func (s *scanner) size() int { return s.total }

// maskTypeURLs marks the bytes of every embedded "type.googleapis.com/..." string, together with the
// two bytes before it (field tag and length of the enclosing proto field).  nil when there is none.
func maskTypeURLs(sec []byte) []bool {
	const marker = "type.googleapis.com/"
	var masked []bool
	for from := 0; ; {
		p := strings.Index(string(sec[from:]), marker)
		if p < 0 {
			return masked
		}
		p += from
		if masked == nil {
			masked = make([]bool, len(sec))
		}
		end := p + len(marker)
		for end < len(sec) && (sec[end] == '.' || sec[end] >= '0' && sec[end] <= '9' || sec[end] >= 'A' && sec[end] <= 'Z' || sec[end] >= 'a' && sec[end] <= 'z' || sec[end] == '_') {
			end++
		}
		for i := max(0, p-2); i < end; i++ {
			masked[i] = true
		}
		from = end
	}
}

// snippet shows the neighbourhood of a hit.
func snippet(text []byte, hit string) string {
	var off int
	if i := strings.LastIndex(hit, "at offset "); i >= 0 {
		fmt.Sscanf(hit[i:], "at offset %d", &off)
	}
	lo, hi := max(0, off-24), min(len(text), off+48)
	return fmt.Sprintf("%q (bytes %d..%d of %d)", text[lo:hi], lo, hi, len(text))
}

func slide(text []byte, n int, set map[string]struct{}) (int, bool) {
	if len(set) == 0 {
		return 0, false
	}
	for i := 0; i+n <= len(text); i++ {
		if _, ok := set[string(text[i:i+n])]; ok { // no allocation: map lookup with a converted slice
			return i, true
		}
	}
	return 0, false
}

func (s *scanner) findIn(text []byte) string {
	if i, ok := slide(text, window, s.raw); ok {
		return fmt.Sprintf("raw bytes %x at offset %d", text[i:i+window], i)
	}
	if i, ok := slide(text, 2*window, s.hex); ok {
		return fmt.Sprintf("hex %q at offset %d", text[i:i+2*window], i)
	}
	if i, ok := slide(text, 16, s.b64); ok {
		return fmt.Sprintf("base64 %q at offset %d", text[i:i+16], i)
	}
	if i, ok := slide(text, 16, s.b32); ok {
		return fmt.Sprintf("base32 %q at offset %d", text[i:i+16], i)
	}
	return ""
}

// withoutByteSeparators removes the characters that hex dumps put between bytes; nil when the text
// has none of them.
func withoutByteSeparators(text []byte) []byte {
	if !strings.ContainsAny(string(text), " :-") {
		return nil
	}
	out := make([]byte, 0, len(text))
	for _, b := range text {
		if b != ' ' && b != ':' && b != '-' {
			out = append(out, b)
		}
	}
	return out
}

// find returns a description of the first hit, "" if there is none.
func (s *scanner) find(text []byte) string {
	if hit := s.findIn(text); hit != "" {
		return hit
	}
	if un := unescape(text); un != nil {
		if hit := s.findIn(un); hit != "" {
			return hit + " (after undoing text escapes)"
		}
	}
	if compact := withoutByteSeparators(text); compact != nil {
		if i, ok := slide(compact, 2*window, s.hex); ok {
			return fmt.Sprintf("hex with separators between the bytes: %q", compact[i:i+2*window])
		}
	}
	for _, run := range numberRuns(text) {
		if i, ok := slide(run, window, s.raw); ok {
			return fmt.Sprintf("bytes %x written as a list of numbers (as fmt prints a byte slice), element %d of a run of %d", run[i:i+window], i, len(run))
		}
	}
	return ""
}

// numberRuns decodes every maximal run of at least `window` numbers in 0..255 (decimal, or hex with
// a 0x prefix) that are separated only by spaces and commas - the way fmt's %v ("[1 2 3]") and %#v
// ("[]byte{0x1, 0x2}") print a byte slice - into the bytes they stand for.
func numberRuns(text []byte) [][]byte {
	var runs [][]byte
	var cur []byte
	flush := func() {
		if len(cur) >= window {
			runs = append(runs, cur)
		}
		cur = nil
	}
	i := 0
	for i < len(text) {
		b := text[i]
		switch {
		case b == ' ' || b == ',':
			i++
		case b >= '0' && b <= '9':
			j, v, base := i, 0, 10
			if b == '0' && j+1 < len(text) && (text[j+1] == 'x' || text[j+1] == 'X') {
				j, base = j+2, 16
			}
			n := 0
			for j < len(text) && n < 4 {
				d := strings.IndexByte("0123456789abcdef", lower(text[j]))
				if d < 0 || d >= base {
					break
				}
				v, j, n = v*base+d, j+1, n+1
			}
			// a number is a list element only if it ends at a separator or bracket
			if n == 0 || v > 255 || (j < len(text) && text[j] != ' ' && text[j] != ',' && text[j] != ']' && text[j] != '}') {
				flush()
				for j < len(text) && text[j] != ' ' && text[j] != ',' {
					j++
				}
			} else {
				cur = append(cur, byte(v))
			}
			i = j
		default:
			flush()
			i++
		}
	}
	flush()
	return runs
}

// unescape undoes C / prototext / JSON style escapes leniently; nil when the text has none.
func unescape(text []byte) []byte {
	if !strings.Contains(string(text), `\`) {
		return nil
	}
	out := make([]byte, 0, len(text))
	isOct := func(b byte) bool { return b >= '0' && b <= '7' }
	for i := 0; i < len(text); i++ {
		b := text[i]
		if b != '\\' || i+1 >= len(text) {
			out = append(out, b)
			continue
		}
		i++
		switch e := text[i]; {
		case e == 'n':
			out = append(out, '\n')
		case e == 'r':
			out = append(out, '\r')
		case e == 't':
			out = append(out, '\t')
		case e == 'a':
			out = append(out, 7)
		case e == 'b':
			out = append(out, 8)
		case e == 'f':
			out = append(out, 12)
		case e == 'v':
			out = append(out, 11)
		case e == 'x' || e == 'X':
			v, n := 0, 0
			for n < 2 && i+1 < len(text) {
				d := strings.IndexByte("0123456789abcdef", lower(text[i+1]))
				if d < 0 {
					break
				}
				v, n, i = v*16+d, n+1, i+1
			}
			out = append(out, byte(v))
		case e == 'u' && i+4 < len(text):
			var v int
			if _, err := fmt.Sscanf(string(text[i+1:i+5]), "%04x", &v); err == nil && v < 256 {
				out = append(out, byte(v))
				i += 4
			} else {
				out = append(out, '\\', e)
			}
		case isOct(e):
			v, n := int(e-'0'), 1
			for n < 3 && i+1 < len(text) && isOct(text[i+1]) {
				v, n, i = v*8+int(text[i+1]-'0'), n+1, i+1
			}
			out = append(out, byte(v))
		default: // \\ \" \' \? and anything else
			out = append(out, e)
		}
	}
	return out
}

func lower(b byte) byte {
	if b >= 'A' && b <= 'F' {
		return b + 32
	}
	return b
}

// selfCheckScanner is run once per process by the units that rely on the scanner: every encoding of
// a planted secret must be found at every alignment, and nothing is found in clean text.
func selfCheckScanner() error {
	secret := []byte("\x00\x01\xfe\xff0123456789abcdefghijklmnop\x80\x81\x82\x83\x84\x85")
	other := []byte("ZYXWVUTSRQPONMLKJIHGFEDCBA9876543210")
	sc := newScanner([][]byte{secret}, nil)
	for pad := 0; pad < 4; pad++ {
		stream := append(append(append([]byte{}, other[:7+pad]...), secret[3:29]...), other...)
		plants := map[string][]byte{
			"raw":        stream,
			"hex":        []byte("x=" + hex.EncodeToString(stream)),
			"HEX":        []byte("x=" + strings.ToUpper(hex.EncodeToString(stream))),
			"base64std":  []byte(`{"v":"` + base64.StdEncoding.EncodeToString(stream) + `"}`),
			"base64url":  []byte(base64.URLEncoding.EncodeToString(stream)),
			"base64raw":  []byte(base64.RawStdEncoding.EncodeToString(stream)),
			"text":       []byte(fmt.Sprintf("value: %q", stream)),
			"octal-text": []byte(octalEscape(stream)),
			"fmt-%v":     []byte(fmt.Sprintf("key &{{%v} 7 [1 2 3]}", stream)),
			"fmt-%#v":    []byte(fmt.Sprintf("%#v", stream)),
			"fmt-% x":    []byte(fmt.Sprintf("key % x end", stream)),
			"hex-colons": []byte(strings.ReplaceAll(fmt.Sprintf("% X", stream), " ", ":")),
			"base32":     []byte(base32.StdEncoding.EncodeToString(stream)),
			"base32hex":  []byte(strings.ToLower(base32.HexEncoding.WithPadding(base32.NoPadding).EncodeToString(stream))),
		}
		for name, text := range plants {
			if sc.find(text) == "" {
				return fmt.Errorf("scanner self check: planted secret not found in %s form (padding %d)", name, pad)
			}
		}
	}
	clean := newScanner([][]byte{secret}, nil)
	for _, text := range [][]byte{other, []byte(hex.EncodeToString(other)), []byte(base64.StdEncoding.EncodeToString(other)), []byte(fmt.Sprintf("%v %#v", other, other))} {
		if hit := clean.find(text); hit != "" {
			return fmt.Errorf("scanner self check: false hit %s", hit)
		}
	}
	// type URLs embedded in a serialized key are not secrets
	withURL := append(append([]byte{0x0a, 0x31}, "type.googleapis.com/google.crypto.tink.XAesGcmKey"...), secret...)
	sc = newScanner([][]byte{withURL}, nil)
	if hit := sc.find([]byte("\x0a\x31type.googleapis.com/google.crypto.tink.XAesGcmKey\x10\x01")); hit != "" {
		return fmt.Errorf("scanner self check: embedded type URL reported: %s", hit)
	}
	if sc.find(secret) == "" {
		return fmt.Errorf("scanner self check: secret next to an embedded type URL not found")
	}
	return nil
}

func octalEscape(b []byte) string {
	var sb strings.Builder
	for _, c := range b {
		fmt.Fprintf(&sb, "\\%03o", c)
	}
	return sb.String()
}
