package c20

import (
	"fmt"
	"sort"
	"testing"

	"github.com/tink-crypto/tink-go/v2/keyset"
	"github.com/tink-crypto/tink-go/v2/signature"
	"github.com/tink-crypto/tink-go/v2/signature/compositemldsa"
	"github.com/tink-crypto/tink-go/v2/signature/mldsa"
	"github.com/tink-crypto/tink-go/v2/signprehash"
	"github.com/tink-crypto/tink-go/v2/verifharness/internal/detrand"
)

// TestRandomizedSignaturesOtherPaths covers the ML-DSA signing paths TestRandomizedSignatures does
// not take (added after seeded change C20d, which de-randomized only the external-mu path):
//
//   - every ML-DSA variant (TINK, NO_PREFIX, EXTERNAL_MU) through signature.NewSigner,
//   - the prehash path: signprehash.NewPrehashSigner(...).SignPrehash of ONE prehash, again and
//     again (TINK and EXTERNAL_MU keys, the two variants that path accepts),
//   - the ML-DSA half of composite ML-DSA signatures (mldsa sig || classical sig), examined on its
//     own so that a randomized classical half (ECDSA) cannot hide a constant ML-DSA half; the
//     Ed25519 composite has a deterministic classical half, so there the ML-DSA half alone decides.
func TestRandomizedSignaturesOtherPaths(t *testing.T) {
	detrand.Seed(seed() + 14)
	msg := []byte("one message, signed again and again")
	instances := []mldsa.Instance{mldsa.MLDSA44, mldsa.MLDSA65, mldsa.MLDSA87}
	type run struct {
		name string
		sign func() ([]byte, error)
		cut  int // > 0: only the first cut bytes are the field examined
	}
	var runs []run
	for _, inst := range instances {
		for _, v := range []mldsa.Variant{mldsa.VariantTink, mldsa.VariantNoPrefix, mldsa.VariantNoPrefixWithPrehashID} {
			p, err := mldsa.NewParameters(inst, v)
			if err != nil {
				t.Fatal(err)
			}
			h := handleFromParams(t, p)
			s, err := signature.NewSigner(h)
			if err != nil {
				t.Fatalf("ML-DSA %v %v: signature.NewSigner: %v", inst, v, err)
			}
			if v != mldsa.VariantTink { // TINK is in TestRandomizedSignatures
				runs = append(runs, run{fmt.Sprintf("signature/ML-DSA-%v-%v", inst, v), func() ([]byte, error) { return s.Sign(msg) }, 0})
			}
			if v == mldsa.VariantNoPrefix {
				continue // the prehash primitives refuse keys without ID
			}
			pub, err := h.Public()
			if err != nil {
				t.Fatal(err)
			}
			ph, err := signprehash.NewPrehash(pub)
			if err != nil {
				t.Fatalf("ML-DSA %v %v: signprehash.NewPrehash: %v", inst, v, err)
			}
			phs, err := signprehash.NewPrehashSigner(h)
			if err != nil {
				t.Fatalf("ML-DSA %v %v: signprehash.NewPrehashSigner: %v", inst, v, err)
			}
			digest, err := ph.ComputePrehash(msg)
			if err != nil {
				t.Fatal(err)
			}
			runs = append(runs, run{fmt.Sprintf("prehash-signature/ML-DSA-%v-%v", inst, v), func() ([]byte, error) { return phs.SignPrehash(digest) }, 0})
		}
	}
	mlLen := map[compositemldsa.MLDSAInstance]int{compositemldsa.MLDSA65: 3309, compositemldsa.MLDSA87: 4627}
	for _, c := range []struct {
		alg  compositemldsa.ClassicalAlgorithm
		inst compositemldsa.MLDSAInstance
		name string
	}{{compositemldsa.Ed25519, compositemldsa.MLDSA65, "Ed25519-MLDSA65"}, {compositemldsa.ECDSAP256, compositemldsa.MLDSA65, "ECDSAP256-MLDSA65"}, {compositemldsa.ECDSAP384, compositemldsa.MLDSA87, "ECDSAP384-MLDSA87"}} {
		for _, v := range []compositemldsa.Variant{compositemldsa.VariantTink, compositemldsa.VariantNoPrefix} {
			p, err := compositemldsa.NewParameters(c.alg, c.inst, v)
			if err != nil {
				t.Fatal(err)
			}
			var h *keyset.Handle = handleFromParams(t, p)
			s, err := signature.NewSigner(h)
			if err != nil {
				t.Fatalf("composite %s %v: %v", c.name, v, err)
			}
			plen := 0
			if v == compositemldsa.VariantTink {
				plen = 5
			}
			ml := mlLen[c.inst]
			runs = append(runs, run{fmt.Sprintf("composite-mldsa-half/%s-%v", c.name, v), func() ([]byte, error) {
				sig, err := s.Sign(msg)
				if err != nil {
					return nil, err
				}
				if len(sig) < plen+ml {
					return nil, fmt.Errorf("composite signature of %d bytes is shorter than prefix + ML-DSA signature (%d)", len(sig), plen+ml)
				}
				return sig[plen : plen+ml], nil
			}, 0})
		}
	}
	sort.Slice(runs, func(i, j int) bool { return runs[i].name < runs[j].name })
	n := nOps(32)
	for _, r := range runs {
		var sigs [][]byte
		for i := 0; i < n; i++ {
			sig, err := r.sign()
			if err != nil {
				t.Fatalf("%s: %v", r.name, err)
			}
			sigs = append(sigs, append([]byte{}, sig...))
		}
		distinctOnly(t, "signature", r.name, sigs)
	}
}
