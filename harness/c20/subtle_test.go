package c20

import (
	"crypto/ecdsa"
	"crypto/elliptic"
	"encoding/asn1"
	"fmt"
	"math/big"
	"testing"

	aeadsubtle "github.com/tink-crypto/tink-go/v2/aead/subtle"
	sigsubtle "github.com/tink-crypto/tink-go/v2/signature/subtle"
	"github.com/tink-crypto/tink-go/v2/verifharness/internal/detrand"
	"github.com/tink-crypto/tink-go/v2/verifharness/internal/gen"
)

// TestSubtleRandomizedPaths: the randomized operations reachable WITHOUT a keyset - the subtle
// constructors a user may call directly - which the keyset-based units do not pass through:
//
//   - signature/subtle.NewECDSASigner and NewECDSASignerFromPrivateKey (all curves, both encodings):
//     N signatures of one message are distinct, and so are their r components (r is the image of the
//     per-signature nonce: one repeated r under one key gives the key away, whatever s looks like);
//     the r values of IEEE-P1363 signatures are fixed-width and examined for uniformity of the low
//     bytes as well (the top byte of r mod n is not uniform for P-521);
//   - aead/subtle.AESCTR.Encrypt (the IND-CPA half of encrypt-then-authenticate, usable on its own):
//     the IV region of N ciphertexts, IV sizes 12 and 16, is distinct and uniform; plaintext lengths
//     vary and the cipher object is rebuilt every 97 calls.
func TestSubtleRandomizedPaths(t *testing.T) {
	detrand.Seed(seed() + 16)
	msg := []byte("one message, signed again and again")
	type ec struct {
		name  string
		curve elliptic.Curve
		hash  string
		div   int
	}
	for _, c := range []ec{{"NIST_P256", elliptic.P256(), "SHA256", 8}, {"NIST_P384", elliptic.P384(), "SHA384", 32}, {"NIST_P521", elliptic.P521(), "SHA512", 64}} {
		size := (c.curve.Params().BitSize + 7) / 8
		// private scalar: seed bytes reduced into [1, n-1]
		d := new(big.Int).SetBytes(gen.Expand(seed()+uint64(size), size+8))
		d.Mod(d, new(big.Int).Sub(c.curve.Params().N, big.NewInt(1)))
		d.Add(d, big.NewInt(1))
		for _, enc := range []string{"DER", "IEEE_P1363"} {
			for _, ctor := range []string{"NewECDSASigner", "NewECDSASignerFromPrivateKey"} {
				var s *sigsubtle.ECDSASigner
				var err error
				if ctor == "NewECDSASigner" {
					s, err = sigsubtle.NewECDSASigner(c.hash, c.name, enc, d.FillBytes(make([]byte, size)))
				} else {
					x, y := c.curve.ScalarBaseMult(d.Bytes())
					s, err = sigsubtle.NewECDSASignerFromPrivateKey(c.hash, enc, &ecdsa.PrivateKey{PublicKey: ecdsa.PublicKey{Curve: c.curve, X: x, Y: y}, D: new(big.Int).Set(d)})
				}
				if err != nil {
					t.Fatalf("signature/subtle.%s(%s, %s, %s): %v", ctor, c.hash, c.name, enc, err)
				}
				n := nOps(c.div)
				var sigs, rs [][]byte
				for i := 0; i < n; i++ {
					sig, err := s.Sign(msg)
					if err != nil {
						t.Fatalf("signature/subtle.%s %s %s: Sign: %v", ctor, c.name, enc, err)
					}
					sigs = append(sigs, append([]byte{}, sig...))
					var r []byte
					if enc == "IEEE_P1363" {
						if len(sig) != 2*size {
							t.Fatalf("signature/subtle.%s %s IEEE_P1363 signature has %d bytes, want %d", ctor, c.name, len(sig), 2*size)
						}
						r = append([]byte{}, sig[:size]...)
					} else {
						var rsv struct{ R, S *big.Int }
						if rest, err := asn1.Unmarshal(sig, &rsv); err != nil || len(rest) != 0 || rsv.R == nil {
							t.Fatalf("signature/subtle.%s %s DER signature %x does not parse: %v", ctor, c.name, sig, err)
						}
						r = rsv.R.FillBytes(make([]byte, size))
					}
					rs = append(rs, r)
				}
				name := fmt.Sprintf("subtle-ecdsa/%s/%s/%s", ctor, c.name, enc)
				distinctOnly(t, "subtle-signature", name+"/signature", sigs)
				// uniformity of r: all bytes but the leading one (r is uniform modulo n, and n is close
				// to a power of 256 only for P-256/P-384; the leading byte of P-521 holds one bit)
				low := make([][]byte, len(rs))
				for i, r := range rs {
					low[i] = r[2:]
				}
				rep, m := uniformBytes(name+"/r (without the two leading bytes)", low)
				record(t, "subtle-ecdsa-r", rep, m)
			}
		}
	}
	key := gen.Expand(seed()+21, 32)
	long := gen.Expand(seed()+22, 700)
	for _, kl := range []int{16, 32} {
		for _, iv := range []int{12, 16} {
			build := func() *aeadsubtle.AESCTR {
				c, err := aeadsubtle.NewAESCTR(key[:kl], iv)
				if err != nil {
					t.Fatalf("aead/subtle.NewAESCTR(%d byte key, iv %d): %v", kl, iv, err)
				}
				return c
			}
			c := build()
			n := nOps(1)
			ivs := make([][]byte, n)
			for i := range ivs {
				if i%97 == 96 {
					c = build()
				}
				pt := long[:25]
				if i%4 == 3 {
					pt = long[:[]int{0, 1, 16, 300, 700}[(i/4)%5]]
				}
				ct, err := c.Encrypt(pt)
				if err != nil {
					t.Fatalf("aead/subtle.AESCTR.Encrypt: %v", err)
				}
				if len(ct) != iv+len(pt) {
					t.Fatalf("aead/subtle.AESCTR.Encrypt of %d bytes with IV size %d returned %d bytes", len(pt), iv, len(ct))
				}
				ivs[i] = append([]byte{}, ct[:iv]...)
			}
			rep, m := uniformBytes(fmt.Sprintf("subtle-aesctr-iv/key=%d iv=%d", kl, iv), ivs)
			record(t, "subtle-aesctr-iv", rep, m)
		}
	}
}
