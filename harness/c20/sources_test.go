package c20

import (
	"crypto/elliptic"
	"encoding/binary"
	"fmt"
	"testing"

	hybridsubtle "github.com/tink-crypto/tink-go/v2/hybrid/subtle"
	"github.com/tink-crypto/tink-go/v2/insecuresecretdataaccess"
	internalrandom "github.com/tink-crypto/tink-go/v2/internal/random"
	"github.com/tink-crypto/tink-go/v2/secretdata"
	"github.com/tink-crypto/tink-go/v2/subtle"
	"github.com/tink-crypto/tink-go/v2/subtle/random"
	"github.com/tink-crypto/tink-go/v2/verifharness/internal/detrand"
)

// TestRandomSources examines the library's random-byte sources themselves (the anchors
// internal/random, subtle/random and secretdata of C20), which every nonce, salt, key and key ID is
// drawn from: N calls per source and output length; every output has the requested length, every
// byte position is uniform, no output of >= 8 bytes repeats.  The lengths straddle the sizes the
// library asks for (1, 4, 7, 12, 16, 24, 32, 64) and one page-crossing length.
func TestRandomSources(t *testing.T) {
	detrand.Seed(seed() + 15)
	n := nOps(1)
	type source struct {
		name string
		get  func(int) ([]byte, error)
	}
	sources := []source{
		{"subtle/random.GetRandomBytes", func(l int) ([]byte, error) { return random.GetRandomBytes(uint32(l)), nil }},
		{"internal/random.MustRand", func(l int) ([]byte, error) { b := make([]byte, l); internalrandom.MustRand(b); return b, nil }},
		{"secretdata.NewBytesFromRand", func(l int) ([]byte, error) {
			b, err := secretdata.NewBytesFromRand(uint32(l))
			if err != nil {
				return nil, err
			}
			if b.Len() != l {
				return nil, fmt.Errorf("Len() = %d", b.Len())
			}
			return b.Data(insecuresecretdataaccess.Token{}), nil
		}},
	}
	for _, s := range sources {
		for _, l := range []int{1, 4, 7, 12, 16, 24, 32, 64, 4097} {
			k := n
			if l > 64 {
				k = n / 16
			}
			vals := make([][]byte, k)
			for i := range vals {
				v, err := s.get(l)
				if err != nil {
					t.Fatalf("%s(%d): %v", s.name, l, err)
				}
				if len(v) != l {
					t.Fatalf("%s(%d) returned %d bytes", s.name, l, len(v))
				}
				vals[i] = v
			}
			if l > 64 {
				// statistics on the head, the tail and the bytes around the 4096 boundary
				cut := make([][]byte, len(vals))
				for i, v := range vals {
					cut[i] = append(append(append([]byte{}, v[:8]...), v[4090:4097]...), v[2040:2056]...)
				}
				d, msg := noRepeat(vals)
				if msg != "" {
					record(t, "source", fieldReport{Field: fmt.Sprintf("source/%s len=%d", s.name, l), N: len(vals), Distinct: d, Len: l}, "repeat: "+msg)
					continue
				}
				vals = cut
			}
			rep, msg := uniformBytes(fmt.Sprintf("source/%s len=%d", s.name, l), vals)
			record(t, "source", rep, msg)
		}
	}
	// the ephemeral-key generators behind the hybrid encapsulations: X25519 private keys are 32 raw
	// random bytes; ECDH key pairs on the NIST curves must at least never repeat
	x := make([][]byte, n)
	for i := range x {
		k, err := subtle.GeneratePrivateKeyX25519()
		if err != nil {
			t.Fatalf("GeneratePrivateKeyX25519: %v", err)
		}
		x[i] = k
	}
	rep, msg := uniformBytes("source/subtle.GeneratePrivateKeyX25519", x)
	record(t, "source", rep, msg)
	for _, c := range []struct {
		name  string
		curve elliptic.Curve
	}{{"P256", elliptic.P256()}, {"P384", elliptic.P384()}, {"P521", elliptic.P521()}} {
		m := n / 8
		var ds, pubs [][]byte
		for i := 0; i < m; i++ {
			kp, err := hybridsubtle.GenerateECDHKeyPair(c.curve)
			if err != nil {
				t.Fatalf("GenerateECDHKeyPair(%s): %v", c.name, err)
			}
			ds = append(ds, kp.D.Bytes())
			pubs = append(pubs, append(kp.PublicKey.Point.X.Bytes(), kp.PublicKey.Point.Y.Bytes()...))
		}
		distinctOnly(t, "source", "source/hybrid/subtle.GenerateECDHKeyPair("+c.name+") private scalar", ds)
		distinctOnly(t, "source", "source/hybrid/subtle.GenerateECDHKeyPair("+c.name+") public point", pubs)
	}
	// GetRandomUint32: the four bytes of the big-endian value (32-bit values may repeat by the
	// birthday bound; uniformBytes does not examine repeats of fields under 8 bytes)
	vals := make([][]byte, n)
	for i := range vals {
		vals[i] = binary.BigEndian.AppendUint32(nil, random.GetRandomUint32())
	}
	rep, msg = uniformBytes("source/subtle/random.GetRandomUint32", vals)
	record(t, "source", rep, msg)
}
